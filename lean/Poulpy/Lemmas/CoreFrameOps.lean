import Poulpy.Lemmas.CoreFrame

/-! Frame + precise dependence of the in-place / accumulate forms of `Core.Ops`. -/

namespace C11Core
open Core Core.Ops

theorem forRange_pure (body : Nat → GLWE → Outcome GLWE) (F : Nat → Col → Col)
    (hb : Local body (fun i old => .ok (F i old))) (lo hi : Nat) (g g' : GLWE) (h : forRange lo hi body g = .ok g') :
    Frame (fun j => lo ≤ j ∧ j < hi) g g' ∧
    ∀ j, lo ≤ j → j < hi → ∃ old, g.cols[j]? = some old ∧ g'.cols[j]? = some (F j old) := by
  obtain ⟨f, hd⟩ := forRange_local body _ hb lo hi g g' h
  refine ⟨f, fun j h1 h2 => ?_⟩
  obtain ⟨old, c, ho, hk, hc⟩ := hd j h1 h2
  cases hk
  exact ⟨old, ho, hc⟩

/-- `res += a` / `res -= a` / `res ±= a·2^k`: columns `0..a.rank` are `K res_j a_j`, the columns `a` does not have and
all metadata are untouched -/
theorem withLoop_frame (a : GLWE) (K : Col → Col → Col) (hi : Nat) (res r : GLWE)
    (h : forRange 0 hi (withCol a K) res = .ok r) :
    Frame (fun j => j < hi) res r ∧
    ∀ j, j < hi → ∃ old, res.cols[j]? = some old ∧ r.cols[j]? = some (K old (a.cols.getD j [])) := by
  obtain ⟨f, hd⟩ := forRange_pure _ (fun i old => K old (a.cols.getD i [])) (local_withCol a K) 0 hi res r h
  exact ⟨f.mono (fun j hj => hj.2), fun j hj => hd j (Nat.zero_le _) hj⟩

theorem selfLoop_frame (K : Col → Col) (lo hi : Nat) (res r : GLWE) (h : forRange lo hi (selfCol K) res = .ok r) :
    Frame (fun j => lo ≤ j ∧ j < hi) res r ∧
    ∀ j, lo ≤ j → j < hi → ∃ old, res.cols[j]? = some old ∧ r.cols[j]? = some (K old) :=
  forRange_pure _ (fun _ old => K old) (local_selfCol K) lo hi res r h

theorem glweAddAssign_frame (N : Nat) (res a r : GLWE) (h : glweAddAssign N res a = .ok r) :
    Frame (fun j => j < a.rank + 1) res r ∧
    ∀ j, j < a.rank + 1 → ∃ old, res.cols[j]? = some old ∧ r.cols[j]? = some (vecAddAssignW w64 old (a.cols.getD j [])) := by
  unfold glweAddAssign at h
  obtain ⟨_, h⟩ := check_ok h; obtain ⟨_, h⟩ := check_ok h; obtain ⟨_, h⟩ := check_ok h; obtain ⟨_, h⟩ := check_ok h
  exact withLoop_frame a _ _ res r h

theorem glweSubAssign_frame (N : Nat) (res a r : GLWE) (h : glweSubAssign N res a = .ok r) :
    Frame (fun j => j < a.rank + 1) res r ∧
    ∀ j, j < a.rank + 1 → ∃ old, res.cols[j]? = some old ∧ r.cols[j]? = some (vecSubAssignW w64 old (a.cols.getD j [])) := by
  unfold glweSubAssign at h
  obtain ⟨_, h⟩ := check_ok h; obtain ⟨_, h⟩ := check_ok h; obtain ⟨_, h⟩ := check_ok h; obtain ⟨_, h⟩ := check_ok h
  exact withLoop_frame a _ _ res r h

theorem glweLshAdd_frame (N : Nat) (res a r : GLWE) (k : Nat) (h : glweLshAdd N res a k = .ok r) :
    Frame (fun j => j < a.rank + 1) res r ∧
    ∀ j, j < a.rank + 1 → ∃ old, res.cols[j]? = some old ∧
      r.cols[j]? = some (lshAddCol res.base2k k old (a.cols.getD j []) N) := by
  unfold glweLshAdd at h
  obtain ⟨_, h⟩ := check_ok h; obtain ⟨_, h⟩ := check_ok h; obtain ⟨_, h⟩ := check_ok h; obtain ⟨_, h⟩ := check_ok h
  exact withLoop_frame a _ _ res r h

theorem glweLshSub_frame (N : Nat) (res a r : GLWE) (k : Nat) (h : glweLshSub N res a k = .ok r) :
    Frame (fun j => j < a.rank + 1) res r ∧
    ∀ j, j < a.rank + 1 → ∃ old, res.cols[j]? = some old ∧
      r.cols[j]? = some (lshSubCol res.base2k k old (a.cols.getD j []) N) := by
  unfold glweLshSub at h
  obtain ⟨_, h⟩ := check_ok h; obtain ⟨_, h⟩ := check_ok h; obtain ⟨_, h⟩ := check_ok h; obtain ⟨_, h⟩ := check_ok h
  exact withLoop_frame a _ _ res r h

/-- `res = a − res`: columns `0..a.rank` combined with `a`, the remaining columns of `res` negated -/
theorem glweSubNegateAssign_frame (N : Nat) (res a r : GLWE) (h : glweSubNegateAssign N res a = .ok r) :
    Frame (fun j => j < max (a.rank + 1) (res.rank + 1)) res r ∧
    (∀ j, j < a.rank + 1 → ∃ old, res.cols[j]? = some old ∧
      r.cols[j]? = some (vecSubNegateAssignW w64 old (a.cols.getD j []))) ∧
    (∀ j, a.rank + 1 ≤ j → j < res.rank + 1 → ∃ old, res.cols[j]? = some old ∧
      r.cols[j]? = some (vecNegateAssignW w64 old)) := by
  unfold glweSubNegateAssign at h
  obtain ⟨_, h⟩ := check_ok h; obtain ⟨_, h⟩ := check_ok h; obtain ⟨_, h⟩ := check_ok h; obtain ⟨_, h⟩ := check_ok h
  obtain ⟨r1, h1, h2⟩ := bind_ok h
  obtain ⟨f1, d1⟩ := withLoop_frame a _ _ res r1 h1
  obtain ⟨f2, d2⟩ := selfLoop_frame _ _ _ r1 r h2
  refine ⟨Frame.trans f1 f2 (fun j hj => by rcases hj with h | h <;> omega), ?_, ?_⟩
  · intro j hj
    obtain ⟨old, ho, hc⟩ := d1 j hj
    exact ⟨old, ho, by rw [f2.2.2.2.2 j (by omega)]; exact hc⟩
  · intro j hj1 hj2
    obtain ⟨old, ho, hc⟩ := d2 j hj1 hj2
    exact ⟨old, by rw [← f1.2.2.2.2 j (by omega)]; exact ho, hc⟩

theorem glweNegateAssign_frame (N : Nat) (res r : GLWE) (h : glweNegateAssign N res = .ok r) :
    Frame (fun j => j < res.rank + 1) res r ∧
    ∀ j, j < res.rank + 1 → ∃ old, res.cols[j]? = some old ∧ r.cols[j]? = some (vecNegateAssignW w64 old) := by
  unfold glweNegateAssign at h
  obtain ⟨_, h⟩ := check_ok h
  obtain ⟨f, d⟩ := selfLoop_frame _ _ _ res r h
  exact ⟨f.mono (fun j hj => hj.2), fun j hj => d j (Nat.zero_le _) hj⟩

theorem glweRotateAssign_frame (N : Nat) (k : Int) (res r : GLWE) (h : glweRotateAssign N k res = .ok r) :
    Frame (fun j => j < res.rank + 1) res r ∧
    ∀ j, j < res.rank + 1 → ∃ old, res.cols[j]? = some old ∧ r.cols[j]? = some (vecRotateAssignW w64 k old) := by
  unfold glweRotateAssign at h
  obtain ⟨f, d⟩ := selfLoop_frame _ _ _ res r h
  exact ⟨f.mono (fun j hj => hj.2), fun j hj => d j (Nat.zero_le _) hj⟩

theorem glweMulXpMinusOneAssign_frame (N : Nat) (k : Int) (res r : GLWE) (h : glweMulXpMinusOneAssign N k res = .ok r) :
    Frame (fun j => j < res.rank + 1) res r ∧
    ∀ j, j < res.rank + 1 → ∃ old, res.cols[j]? = some old ∧ r.cols[j]? = some (vecMulXpMinusOneAssignW w64 k old) := by
  unfold glweMulXpMinusOneAssign at h
  obtain ⟨_, h⟩ := check_ok h
  obtain ⟨f, d⟩ := selfLoop_frame _ _ _ res r h
  exact ⟨f.mono (fun j hj => hj.2), fun j hj => d j (Nat.zero_le _) hj⟩

theorem glweLshAssign_frame (N : Nat) (res r : GLWE) (k : Nat) (h : glweLshAssign N res k = .ok r) :
    Frame (fun j => j < res.rank + 1) res r ∧
    ∀ j, j < res.rank + 1 → ∃ old, res.cols[j]? = some old ∧ r.cols[j]? = some (lshAssignCol res.base2k k old N) := by
  unfold glweLshAssign at h
  obtain ⟨f, d⟩ := selfLoop_frame _ _ _ res r h
  exact ⟨f.mono (fun j hj => hj.2), fun j hj => d j (Nat.zero_le _) hj⟩

theorem glweNormalizeAssign_frame (N : Nat) (res r : GLWE) (h : glweNormalizeAssign N res = .ok r) :
    Frame (fun j => j < res.rank + 1) res r ∧
    ∀ j, j < res.rank + 1 → ∃ old, res.cols[j]? = some old ∧ r.cols[j]? = some (normalizeAssignCol res.base2k old N) := by
  unfold glweNormalizeAssign at h
  obtain ⟨f, d⟩ := selfLoop_frame _ _ _ res r h
  exact ⟨f.mono (fun j hj => hj.2), fun j hj => d j (Nat.zero_le _) hj⟩

/-- `glwe_rsh` (in place): every column becomes `rshAssignCol?` of itself; the scratch fill `scr` is passed to the
kernel model (which ignores it, see `Core.Ops.glweRsh`) -/
theorem glweRsh_frame (N : Nat) (scr : Int) (k : Nat) (res r : GLWE) (h : glweRsh N scr k res = .ok r) :
    Frame (fun j => j < res.rank + 1) res r ∧
    ∀ j, j < res.rank + 1 → ∃ old, res.cols[j]? = some old ∧
      (rshAssignCol? res.base2k k scr old N).map some = some (r.cols[j]?) := by
  unfold glweRsh at h
  obtain ⟨f, d⟩ := forRange_local _ (fun _ ri => match rshAssignCol? res.base2k k scr ri N with
      | some c => .ok c
      | none => .panic "other") (local_upd _) 0 (res.rank + 1) res r h
  refine ⟨f.mono (fun j hj => hj.2), fun j hj => ?_⟩
  obtain ⟨old, c, ho, hk, hc⟩ := d j (Nat.zero_le _) hj
  refine ⟨old, ho, ?_⟩
  cases hq : rshAssignCol? res.base2k k scr old N with
  | none => simp only [hq] at hk; cases hk
  | some c' => simp only [hq] at hk; cases hk; simp [hc]

/-! ### overwriting forms: metadata and number of columns preserved (the content half is determinacy) -/

def Meta (g g' : GLWE) : Prop := g'.base2k = g.base2k ∧ g'.k = g.k ∧ g'.n = g.n ∧ g'.cols.length = g.cols.length

theorem Meta.refl (g : GLWE) : Meta g g := ⟨rfl, rfl, rfl, rfl⟩
theorem Meta.trans {a b c : GLWE} (h1 : Meta a b) (h2 : Meta b c) : Meta a c :=
  ⟨h2.1.trans h1.1, h2.2.1.trans h1.2.1, h2.2.2.1.trans h1.2.2.1, h2.2.2.2.trans h1.2.2.2⟩

def MetaPres (body : Nat → GLWE → Outcome GLWE) : Prop := ∀ i g g', body i g = .ok g' → Meta g g'

theorem updCol_meta (i : Nat) (k : Col → Outcome Col) (g g' : GLWE) (h : updCol i k g = .ok g') : Meta g g' :=
  let f := (updCol_local i k g g' h).1; ⟨f.1, f.2.1, f.2.2.1, f.2.2.2.1⟩

theorem metaPres_fromCol (a : GLWE) (K : Col → Col) : MetaPres (fromCol a K) := by
  intro i g g' h; unfold fromCol at h
  obtain ⟨_, _, h2⟩ := bind_ok h; exact updCol_meta _ _ _ _ h2

theorem metaPres_withCol (a : GLWE) (K : Col → Col → Col) : MetaPres (withCol a K) := by
  intro i g g' h; unfold withCol at h
  obtain ⟨_, _, h2⟩ := bind_ok h; exact updCol_meta _ _ _ _ h2

theorem metaPres_selfCol (K : Col → Col) : MetaPres (selfCol K) := fun _ _ _ h => updCol_meta _ _ _ _ h

theorem metaPres_two (a b : GLWE) (K : Col → Col → Col) :
    MetaPres (fun i r => Ops.bind (colOf a i) (fun ai => Ops.bind (colOf b i) (fun bi =>
      updCol i (fun _ => .ok (K ai bi)) r))) := by
  intro i g g' h
  obtain ⟨_, _, h2⟩ := bind_ok h; obtain ⟨_, _, h3⟩ := bind_ok h2; exact updCol_meta _ _ _ _ h3

theorem metaPres_from? (a : GLWE) (K : Col → Outcome Col) :
    MetaPres (fun i r => Ops.bind (colOf a i) (fun ai => updCol i (fun _ => K ai) r)) := by
  intro i g g' h
  obtain ⟨_, _, h2⟩ := bind_ok h; exact updCol_meta _ _ _ _ h2

theorem forCols_meta (body : Nat → GLWE → Outcome GLWE) (hb : MetaPres body) (cnt : Nat) :
    ∀ (lo : Nat) (g g' : GLWE), forCols cnt lo body g = .ok g' → Meta g g' := by
  induction cnt with
  | zero => intro lo g g' h; simp only [forCols] at h; cases h; exact Meta.refl g
  | succ cnt ih =>
    intro lo g g' h
    simp only [forCols] at h
    obtain ⟨g1, h1, h2⟩ := bind_ok h
    exact (hb lo g g1 h1).trans (ih (lo + 1) g1 g' h2)

theorem forRange_meta (body : Nat → GLWE → Outcome GLWE) (hb : MetaPres body) (lo hi : Nat) (g g' : GLWE)
    (h : forRange lo hi body g = .ok g') : Meta g g' := forCols_meta body hb _ lo g g' h

theorem glweAddInto_meta (N : Nat) (res a b r : GLWE) (h : glweAddInto N res a b = .ok r) : Meta res r := by
  unfold glweAddInto at h
  dsimp only at h
  iterate 6 obtain ⟨_, h⟩ := check_ok h
  obtain ⟨r1, h1, h⟩ := bind_ok h
  obtain ⟨r2, h2, h⟩ := bind_ok h
  refine (forRange_meta _ (metaPres_two a b _) _ _ _ _ h1).trans (Meta.trans ?_ (forRange_meta _ (metaPres_selfCol _) _ _ _ _ h))
  split at h2
  · exact forRange_meta _ (metaPres_fromCol a _) _ _ _ _ h2
  · exact forRange_meta _ (metaPres_fromCol b _) _ _ _ _ h2

theorem glweSub_meta (N : Nat) (res a b r : GLWE) (h : glweSub N res a b = .ok r) : Meta res r := by
  unfold glweSub at h
  dsimp only at h
  iterate 6 obtain ⟨_, h⟩ := check_ok h
  obtain ⟨r1, h1, h⟩ := bind_ok h
  obtain ⟨r2, h2, h⟩ := bind_ok h
  refine (forRange_meta _ (metaPres_two a b _) _ _ _ _ h1).trans (Meta.trans ?_ (forRange_meta _ (metaPres_selfCol _) _ _ _ _ h))
  split at h2
  · exact forRange_meta _ (metaPres_fromCol a _) _ _ _ _ h2
  · exact forRange_meta _ (metaPres_fromCol b _) _ _ _ _ h2

theorem glweNegate_meta (N : Nat) (res a r : GLWE) (h : glweNegate N res a = .ok r) : Meta res r := by
  unfold glweNegate at h
  iterate 4 obtain ⟨_, h⟩ := check_ok h
  exact forRange_meta _ (metaPres_fromCol a _) _ _ _ _ h

theorem glweMulXpMinusOne_meta (N : Nat) (k : Int) (res a r : GLWE) (h : glweMulXpMinusOne N k res a = .ok r) : Meta res r := by
  unfold glweMulXpMinusOne at h
  iterate 4 obtain ⟨_, h⟩ := check_ok h
  exact forRange_meta _ (metaPres_fromCol a _) _ _ _ _ h

theorem glweCopy_meta (N : Nat) (res a r : GLWE) (h : glweCopy N res a = .ok r) : Meta res r := by
  unfold glweCopy at h
  dsimp only at h
  iterate 4 obtain ⟨_, h⟩ := check_ok h
  obtain ⟨r1, h1, h⟩ := bind_ok h
  exact (forRange_meta _ (metaPres_fromCol a _) _ _ _ _ h1).trans (forRange_meta _ (metaPres_selfCol _) _ _ _ _ h)

theorem glweRotate_meta (N : Nat) (k : Int) (res a r : GLWE) (h : glweRotate N k res a = .ok r) : Meta res r := by
  unfold glweRotate at h
  iterate 4 obtain ⟨_, h⟩ := check_ok h
  obtain ⟨r1, h1, h⟩ := bind_ok h
  exact (forRange_meta _ (metaPres_fromCol a _) _ _ _ _ h1).trans (forRange_meta _ (metaPres_selfCol _) _ _ _ _ h)

theorem glweLsh_meta (N : Nat) (res a r : GLWE) (k : Nat) (h : glweLsh N res a k = .ok r) : Meta res r := by
  unfold glweLsh at h
  iterate 4 obtain ⟨_, h⟩ := check_ok h
  obtain ⟨r1, h1, h⟩ := bind_ok h
  exact (forRange_meta _ (metaPres_withCol a _) _ _ _ _ h1).trans (forRange_meta _ (metaPres_selfCol _) _ _ _ _ h)

theorem glweNormalize_meta (N : Nat) (res a r : GLWE) (h : glweNormalize N res a = .ok r) : Meta res r := by
  unfold glweNormalize at h
  iterate 3 obtain ⟨_, h⟩ := check_ok h
  exact forRange_meta _ (metaPres_from? a _) _ _ _ _ h

end C11Core
