/-
C19: what a byte-level state of the C18 model (`Ser.St`) stands for at the level of the encryption
model — the body limbs (little-endian two's-complement `i64`, library addressing `n·(j·cols+c)+i`),
the seed words, the header fields — and the fact that this reading only looks at what the
serialisation round trip preserves.
-/
import Poulpy.Lemmas.CoreSer
import Poulpy.Lemmas.CoreCmp

namespace CoreSer
open Ser

/-- `i64::from_le_bytes` -/
def i64OfBytes (bs : Bytes) : Int := w64 (leVal bs)

/-- the bytes a writer emits / a reader overwrites: the active limbs -/
def VecZnx.active (v : VecZnx) : Bytes := v.data.take (v.n * v.cols * v.size * 8)
def MatZnx.active (m : MatZnx) : Bytes := m.data.take (m.rows * m.colsIn * m.n * m.colsOut * m.size * 8)

/-- column `c` of a `VecZnx` buffer as limbs of `n` integers -/
def decodeCol (v : VecZnx) (c : Nat) : Col :=
  (List.range v.size).map (fun j => (List.range v.n).map (fun i =>
    i64OfBytes (((VecZnx.active v).drop (8 * (v.n * (j * v.cols + c) + i))).take 8)))

/-- column `c` of block `blk` (= `row·cols_in + col_in`) of a `MatZnx` buffer -/
def decodeBlock (m : MatZnx) (blk c : Nat) : Col :=
  (List.range m.size).map (fun j => (List.range m.n).map (fun i =>
    i64OfBytes (((MatZnx.active m).drop (8 * (blk * (m.n * m.colsOut * m.size) + m.n * (j * m.colsOut + c) + i))).take 8)))

/-- four little-endian words of a 32-byte seed (what `Sampling.newSeed` draws) -/
def seedWords (sd : Bytes) : List Nat := (List.range 4).map (fun q => leVal ((sd.drop (8 * q)).take 8))

/-- the compressed GLWE a flat state stands for -/
def glweOfState (expand : List Nat → List Nat) (s : St) : Option Core.GLWECompressed :=
  match s.fields, s.seeds, s.leaves with
  | [b, r], [g], [.vec v] =>
    some { base2k := b, k := b * v.size, n := v.n, rank := r, body := decodeCol v 0, seedStream := expand (seedWords g.filled) }
  | _, _, _ => none

/-- the stored cells (storage index, body, seed words) of a compressed GGLWE / GGSW state -/
def cellsOfState (s : St) : Option (List (Nat × Core.CellC)) :=
  match s.fields, s.seeds, s.leaves with
  | [_, _, _, _], [g], [.mat m] =>
    some ((List.range g.count).map (fun idx =>
      (idx, { body := decodeBlock m idx 0, seed := seedWords ((g.filled.drop (32 * idx)).take 32) })))
  | _, _, _ => none

theorem active_overwrite (xd rd : Bytes) (L : Nat) (h : L ≤ xd.length) : (xd.take L ++ rd.drop L).take L = xd.take L := by
  rw [List.take_left' (by simp; omega)]

theorem decodeCol_overwrite (x : VecZnx) (rd : Bytes) (c : Nat) (h : x.n * x.cols * x.size * 8 ≤ x.data.length) :
    decodeCol ⟨x.n, x.cols, x.size, x.maxSize, x.data.take (x.n * x.cols * x.size * 8) ++ rd.drop (x.n * x.cols * x.size * 8)⟩ c = decodeCol x c := by
  unfold decodeCol VecZnx.active
  simp only [active_overwrite _ _ _ h]

theorem decodeBlock_overwrite (x : MatZnx) (rd : Bytes) (blk c : Nat) (h : x.rows * x.colsIn * x.n * x.colsOut * x.size * 8 ≤ x.data.length) :
    decodeBlock ⟨x.n, x.size, x.rows, x.colsIn, x.colsOut,
      x.data.take (x.rows * x.colsIn * x.n * x.colsOut * x.size * 8) ++ rd.drop (x.rows * x.colsIn * x.n * x.colsOut * x.size * 8)⟩ blk c
      = decodeBlock x blk c := by
  unfold decodeBlock MatZnx.active
  simp only [active_overwrite _ _ _ h]

end CoreSer
