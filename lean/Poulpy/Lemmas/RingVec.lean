import Poulpy.Lemmas.RingSize
import Poulpy.Lemmas.RingRotate

/-! Size rule of the remaining vec-level operations (rotation family, scalar family). -/

theorem vecRotateW_rule (w : Int → Int) (p : Int) (n resSize : Nat) (a : Col) (j : Nat) (hj : j < resSize) :
    (vecRotateW w p n resSize a)[j]? = some (match a[j]? with | some x => znxRotateW w p x | none => znxZero n) := by
  unfold vecRotateW; dsimp only
  refine (unary_rule (znxRotateW w p) (znxZero n) resSize a j hj).trans ?_
  cases a[j]? <;> rfl

theorem vecRotateW_length (w : Int → Int) (p : Int) (n resSize : Nat) (a : Col) :
    (vecRotateW w p n resSize a).length = resSize := by
  unfold vecRotateW; dsimp only; exact unary_length _ _ _ _

/-- `(X^p - 1)·a`: limbs present in `a` get `X^p·a_j - a_j`, the others are zero -/
theorem vecMulXpMinusOneW_rule (w : Int → Int) (p : Int) (n resSize : Nat) (a : Col) (j : Nat) (hj : j < resSize) :
    (vecMulXpMinusOneW w p n resSize a)[j]?
      = some (match a[j]? with | some x => znxSubW w (znxRotateW w p x) x | none => znxZero n) := by
  unfold vecMulXpMinusOneW
  rw [vecSubAssignW_eq, assignCol_rule, vecRotateW_rule w p n resSize a j hj]
  cases a[j]? <;> rfl

theorem vecMulXpMinusOneW_length (w : Int → Int) (p : Int) (n resSize : Nat) (a : Col) :
    (vecMulXpMinusOneW w p n resSize a).length = resSize := by
  unfold vecMulXpMinusOneW
  rw [vecSubAssignW_eq, assignCol_length, vecRotateW_length]

theorem scalarLimbs_length (f : Poly → Poly) (bLimb : Nat) (bs : Col) : (scalarLimbs f bLimb bs).length = bs.length := by
  simp [scalarLimbs]

theorem scalarLimbs_getElem? (f : Poly → Poly) (bLimb : Nat) (bs : Col) (j : Nat) :
    (scalarLimbs f bLimb bs)[j]? = (bs[j]?).map (fun bj => if j = bLimb then f bj else bj) := by
  unfold scalarLimbs
  rw [List.getElem?_map, List.getElem?_zipIdx]
  cases bs[j]? <;> simp

/-- scalar add on a chosen limb: `res = b` (size rule of `copy`) with `a` added on limb `bLimb` -/
theorem vecAddScalar_rule (w : Int → Int) (n resSize : Nat) (a : Poly) (b : Col) (bLimb : Nat)
    (h : bLimb < min b.length resSize) :
    ∃ r, vecAddScalarO w n resSize a b bLimb = .ok r ∧ r.length = resSize ∧
      ∀ j, j < resSize → r[j]? = some (match b[j]? with
        | some bj => if j = bLimb then znxAddW w a bj else bj
        | none => znxZero n) := by
  unfold vecAddScalarO
  simp only [h, if_true]
  refine ⟨_, rfl, by simp [scalarLimbs_length], ?_⟩
  intro j hj
  by_cases hb : j < b.length
  · rw [List.getElem?_append_left (by simp [scalarLimbs_length]; omega), scalarLimbs_getElem?, List.getElem?_take,
      if_pos (by omega), List.getElem?_eq_getElem hb]
    rfl
  · rw [List.getElem?_append_right (by simp [scalarLimbs_length]; omega), List.getElem?_replicate, List.getElem?_eq_none (by omega)]
    simp [scalarLimbs_length]; omega

theorem vecSubScalar_rule (w : Int → Int) (n resSize : Nat) (a : Poly) (b : Col) (bLimb : Nat)
    (h : bLimb < min b.length resSize) :
    ∃ r, vecSubScalarO w n resSize a b bLimb = .ok r ∧ r.length = resSize ∧
      ∀ j, j < resSize → r[j]? = some (match b[j]? with
        | some bj => if j = bLimb then znxSubW w bj a else bj
        | none => znxZero n) := by
  unfold vecSubScalarO
  simp only [h, if_true]
  refine ⟨_, rfl, by simp [scalarLimbs_length], ?_⟩
  intro j hj
  by_cases hb : j < b.length
  · rw [List.getElem?_append_left (by simp [scalarLimbs_length]; omega), scalarLimbs_getElem?, List.getElem?_take,
      if_pos (by omega), List.getElem?_eq_getElem hb]
    rfl
  · rw [List.getElem?_append_right (by simp [scalarLimbs_length]; omega), List.getElem?_replicate, List.getElem?_eq_none (by omega)]
    simp [scalarLimbs_length]; omega
