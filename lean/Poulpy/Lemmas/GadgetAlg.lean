import Poulpy.Model.HalSpec
import Poulpy.Lemmas.NegMul
import Mathlib.Tactic.Ring
import Mathlib.Tactic.Linarith
import Mathlib.Algebra.Order.Ring.Abs

/-!
Algebra of the exact negacyclic product needed by the gadget / key-switch proofs:
scalar homogeneity, commutation with `mulX`, commutation of the operators "multiply by `s`" and
"multiply by `a`", zero laws, sums of lists of polynomials, and the `‖·‖∞` / `‖·‖₁` norms with the
product bound `‖p ⋆ q‖∞ ≤ ‖p‖₁ · ‖q‖∞`.
-/

namespace Hal

/-! ### Auxiliary facts -/

/-- the constant-zero map of a list is the zero polynomial of the same length -/
theorem map_zero_eq_zeroP (y : Poly) : y.map (fun _ => (0 : Int)) = zeroP y.length := by
  induction y with
  | nil => rfl
  | cons x xs ih =>
    rw [List.map_cons, ih, List.length_cons]; simp [zeroP, List.replicate_succ]

/-- `negMul [] b` is the zero polynomial -/
theorem negMul_nil_left (b : Poly) : negMul [] b = zeroP b.length := by
  simp [negMul, map_zero_eq_zeroP]

@[simp] theorem zeroP_length (n : Nat) : (zeroP n).length = n := by simp [zeroP]

theorem zeroP_succ (n : Nat) : zeroP (n + 1) = 0 :: zeroP n := by simp [zeroP, List.replicate_succ]

/-- scaling the zero polynomial -/
theorem polyScale_zeroP (c : Int) (n : Nat) : polyScale c (zeroP n) = zeroP n := by
  simp [polyScale, zeroP]

theorem polyScale_cons (c x : Int) (a : Poly) : polyScale c (x :: a) = (c * x) :: polyScale c a := by
  simp [polyScale]

/-- scaling by zero -/
theorem polyScale_zero_left (b : Poly) : polyScale 0 b = zeroP b.length := by
  induction b with
  | nil => rfl
  | cons x xs ih =>
    rw [polyScale_cons, ih, List.length_cons, zeroP_succ, Int.zero_mul]

theorem polyScale_append (c : Int) (a b : Poly) :
    polyScale c (a ++ b) = polyScale c a ++ polyScale c b := by
  simp [polyScale]

theorem polyAdd_cons (x y : Int) (a b : Poly) :
    polyAdd (x :: a) (y :: b) = (x + y) :: polyAdd a b := by
  simp [polyAdd]

/-! ### 1–2: scalars -/

/-- scaling twice is scaling by the product -/
theorem polyScale_polyScale (c d : Int) (a : Poly) :
    polyScale c (polyScale d a) = polyScale (c * d) a := by
  induction a with
  | nil => rfl
  | cons x xs ih => rw [polyScale_cons, polyScale_cons, polyScale_cons, ih, Int.mul_assoc]

/-- `mulX` commutes with scaling -/
theorem mulX_scale (c : Int) (a : Poly) : mulX (polyScale c a) = polyScale c (mulX a) := by
  rcases List.eq_nil_or_concat a with rfl | ⟨a', x, rfl⟩
  · rfl
  · simp only [List.concat_eq_append]
    have e : polyScale c [x] = [c * x] := rfl
    rw [polyScale_append, e, mulX_append_one, mulX_append_one, polyScale_cons, Int.mul_neg]

/-! ### 3–4: homogeneity of the product -/

/-- the product is homogeneous in the right operand -/
theorem negMul_scale_right (c : Int) (a b : Poly) :
    negMul a (polyScale c b) = polyScale c (negMul a b) := by
  induction a with
  | nil =>
    rw [negMul_nil_left, negMul_nil_left, polyScale_length, polyScale_zeroP]
  | cons a0 as ih =>
    simp only [negMul]
    rw [ih, polyScale_add, mulX_scale, polyScale_polyScale, polyScale_polyScale, Int.mul_comm a0 c]

/-- the product is homogeneous in the left operand -/
theorem negMul_scale_left (c : Int) (a b : Poly) :
    negMul (polyScale c a) b = polyScale c (negMul a b) := by
  induction a with
  | nil =>
    have e : polyScale c [] = [] := rfl
    rw [e, negMul_nil_left, polyScale_zeroP]
  | cons a0 as ih =>
    rw [polyScale_cons]
    simp only [negMul]
    rw [ih, polyScale_add, mulX_scale, polyScale_polyScale]

/-! ### 5–6: commutation -/

/-- the product commutes with `mulX` in the right operand -/
theorem negMul_mulX_right (s y : Poly) : negMul s (mulX y) = mulX (negMul s y) := by
  induction s with
  | nil =>
    rw [negMul_nil_left, negMul_nil_left, mulX_length, mulX_zero]
  | cons s0 ss ih =>
    simp only [negMul]
    rw [ih, mulX_add _ _ (by rw [polyScale_length, mulX_length, negMul_length]), mulX_scale]

/-- the operators "multiply by `s`" and "multiply by `a`" commute -/
theorem negMul_swap (s a k : Poly) : negMul s (negMul a k) = negMul a (negMul s k) := by
  induction a with
  | nil =>
    rw [negMul_nil_left, negMul_nil_left, negMul_zero_right, negMul_length]
  | cons a0 as ih =>
    simp only [negMul]
    rw [negMul_add_right _ _ _ (by rw [polyScale_length, mulX_length, negMul_length]),
      negMul_scale_right, negMul_mulX_right, ih]

/-! ### 7–8: zero laws -/

/-- the product with the zero polynomial on the left is zero -/
theorem negMul_zero_left (n : Nat) (b : Poly) : negMul (zeroP n) b = zeroP b.length := by
  induction n with
  | zero => exact negMul_nil_left b
  | succ k ih =>
    rw [zeroP_succ]
    simp only [negMul]
    rw [ih, mulX_zero, polyScale_zero_left, polyAdd_zero_zero]

/-- zero is a right unit of `polyAdd` -/
theorem polyAdd_zero_right (a : Poly) : polyAdd a (zeroP a.length) = a := by
  induction a with
  | nil => rfl
  | cons x xs ih =>
    rw [List.length_cons, zeroP_succ, polyAdd_cons, ih, Int.add_zero]

/-- zero is a left unit of `polyAdd` -/
theorem polyAdd_zero_left (a : Poly) : polyAdd (zeroP a.length) a = a := by
  rw [polyAdd_comm, polyAdd_zero_right]

/-! ### 9: norms -/

/-- `‖p‖∞`: the largest absolute value of a coefficient (0 for the empty list) -/
def normInf (p : Poly) : Int := p.foldr (fun x m => max |x| m) 0

/-- `‖p‖₁`: the sum of the absolute values of the coefficients -/
def norm1 (p : Poly) : Int := p.foldr (fun x m => |x| + m) 0

@[simp] theorem normInf_nil : normInf [] = 0 := rfl
@[simp] theorem normInf_cons (x : Int) (p : Poly) : normInf (x :: p) = max |x| (normInf p) := rfl
@[simp] theorem norm1_nil : norm1 [] = 0 := rfl
@[simp] theorem norm1_cons (x : Int) (p : Poly) : norm1 (x :: p) = |x| + norm1 p := rfl

/-- `‖p‖∞ ≥ 0` -/
theorem normInf_nonneg (p : Poly) : 0 ≤ normInf p := by
  cases p with
  | nil => simp
  | cons x xs => rw [normInf_cons]; exact le_trans (abs_nonneg x) (le_max_left _ _)

/-- `‖p‖₁ ≥ 0` -/
theorem norm1_nonneg (p : Poly) : 0 ≤ norm1 p := by
  induction p with
  | nil => simp
  | cons x xs ih => rw [norm1_cons]; have := abs_nonneg x; omega

/-- every coefficient is bounded by `‖p‖∞` -/
theorem abs_le_normInf {x : Int} {p : Poly} (h : x ∈ p) : |x| ≤ normInf p := by
  induction p with
  | nil => simp at h
  | cons y ys ih =>
    rw [normInf_cons]
    rcases List.mem_cons.mp h with rfl | h'
    · exact le_max_left _ _
    · exact le_trans (ih h') (le_max_right _ _)

/-- a uniform bound on the coefficients bounds `‖p‖∞` -/
theorem normInf_le_of_forall {p : Poly} {B : Int} (h : ∀ x ∈ p, |x| ≤ B) (hB : 0 ≤ B) :
    normInf p ≤ B := by
  induction p with
  | nil => simpa using hB
  | cons y ys ih =>
    rw [normInf_cons]
    exact max_le (h y (by simp)) (ih (fun x hx => h x (by simp [hx])))

/-- characterisation of `‖p‖∞ ≤ B` for `B ≥ 0` -/
theorem normInf_le_iff {p : Poly} {B : Int} (hB : 0 ≤ B) :
    normInf p ≤ B ↔ ∀ x ∈ p, |x| ≤ B :=
  ⟨fun h _ hx => le_trans (abs_le_normInf hx) h, fun h => normInf_le_of_forall h hB⟩

/-- `‖0‖∞ = 0` -/
theorem normInf_zeroP (n : Nat) : normInf (zeroP n) = 0 := by
  induction n with
  | zero => rfl
  | succ k ih => rw [zeroP_succ, normInf_cons, ih]; simp

/-- `‖0‖₁ = 0` -/
theorem norm1_zeroP (n : Nat) : norm1 (zeroP n) = 0 := by
  induction n with
  | zero => rfl
  | succ k ih => rw [zeroP_succ, norm1_cons, ih]; simp

/-- `‖·‖∞` of a concatenation -/
theorem normInf_append (a b : Poly) : normInf (a ++ b) = max (normInf a) (normInf b) := by
  induction a with
  | nil => simp [max_eq_right (normInf_nonneg b)]
  | cons x xs ih => rw [List.cons_append, normInf_cons, normInf_cons, ih, max_assoc]

/-- `‖p‖∞ ≤ ‖p‖₁` -/
theorem normInf_le_norm1 (p : Poly) : normInf p ≤ norm1 p := by
  induction p with
  | nil => simp
  | cons x xs ih =>
    rw [normInf_cons, norm1_cons]
    have h1 := abs_nonneg x
    have h2 := norm1_nonneg xs
    exact max_le (by omega) (by omega)

/-- triangle inequality for `‖·‖∞` (no length hypothesis needed: `polyAdd` truncates) -/
theorem normInf_polyAdd_le (a b : Poly) : normInf (polyAdd a b) ≤ normInf a + normInf b := by
  induction a generalizing b with
  | nil =>
    have : polyAdd [] b = [] := by simp [polyAdd]
    rw [this]; simpa using normInf_nonneg b
  | cons x xs ih =>
    cases b with
    | nil =>
      have : polyAdd (x :: xs) [] = [] := by simp [polyAdd]
      rw [this]; simp
    | cons y ys =>
      rw [polyAdd_cons, normInf_cons, normInf_cons, normInf_cons]
      have h1 : |x + y| ≤ |x| + |y| := abs_add_le x y
      have h2 := ih ys
      have h3 := le_max_left |x| (normInf xs)
      have h4 := le_max_right |x| (normInf xs)
      have h5 := le_max_left |y| (normInf ys)
      have h6 := le_max_right |y| (normInf ys)
      exact max_le (by omega) (by omega)

/-- `‖c·a‖∞ = |c|·‖a‖∞` -/
theorem normInf_polyScale (c : Int) (a : Poly) : normInf (polyScale c a) = |c| * normInf a := by
  induction a with
  | nil => simp [polyScale]
  | cons x xs ih =>
    rw [polyScale_cons, normInf_cons, normInf_cons, ih, abs_mul]
    have hc : 0 ≤ |c| := abs_nonneg c
    rcases le_total |x| (normInf xs) with h | h
    · rw [max_eq_right h, max_eq_right (Int.mul_le_mul_of_nonneg_left h hc)]
    · rw [max_eq_left h, max_eq_left (Int.mul_le_mul_of_nonneg_left h hc)]

/-- multiplication by `X` preserves `‖·‖∞` -/
theorem normInf_mulX (a : Poly) : normInf (mulX a) = normInf a := by
  rcases List.eq_nil_or_concat a with rfl | ⟨a', x, rfl⟩
  · rfl
  · simp only [List.concat_eq_append]
    rw [mulX_append_one, normInf_append, normInf_cons, normInf_cons, normInf_nil, abs_neg,
      max_eq_left (abs_nonneg x), max_comm]

/-- `‖-a‖∞ = ‖a‖∞` -/
theorem normInf_polyNeg (a : Poly) : normInf (polyNeg a) = normInf a := by
  induction a with
  | nil => rfl
  | cons x xs ih =>
    have e : polyNeg (x :: xs) = (-x) :: polyNeg xs := rfl
    rw [e, normInf_cons, normInf_cons, ih, abs_neg]

/-- **product bound** `‖p ⋆ q‖∞ ≤ ‖p‖₁ · ‖q‖∞` -/
theorem normInf_negMul_le (p q : Poly) : normInf (negMul p q) ≤ norm1 p * normInf q := by
  induction p with
  | nil => rw [negMul_nil_left, normInf_zeroP]; simp
  | cons p0 ps ih =>
    simp only [negMul]
    have h1 := normInf_polyAdd_le (polyScale p0 q) (mulX (negMul ps q))
    rw [normInf_polyScale, normInf_mulX] at h1
    rw [norm1_cons, Int.add_mul]
    omega

/-! ### 10–11: sums of lists of polynomials -/

/-- length of a `polyAdd`-fold with an accumulator of length `n` -/
theorem foldl_polyAdd_length (n : Nat) (l : List Poly) (acc : Poly) (hacc : acc.length = n)
    (h : ∀ p ∈ l, p.length = n) : (l.foldl polyAdd acc).length = n := by
  induction l generalizing acc with
  | nil => simpa using hacc
  | cons p ps ih =>
    rw [List.foldl_cons]
    apply ih
    · rw [polyAdd_length, hacc, h p (by simp)]; simp
    · intro q hq; exact h q (by simp [hq])

/-- length of a sum of polynomials of length `n` -/
theorem sumPolys_length (n : Nat) (l : List Poly) (h : ∀ p ∈ l, p.length = n) :
    (sumPolys n l).length = n :=
  foldl_polyAdd_length n l (zeroP n) (zeroP_length n) h

/-- the product distributes over a `polyAdd`-fold with an arbitrary accumulator -/
theorem negMul_foldl_polyAdd (n : Nat) (s : Poly) (l : List Poly) (acc : Poly)
    (hacc : acc.length = n) (h : ∀ p ∈ l, p.length = n) :
    negMul s (l.foldl polyAdd acc) = (l.map (negMul s)).foldl polyAdd (negMul s acc) := by
  induction l generalizing acc with
  | nil => rfl
  | cons p ps ih =>
    have hp : p.length = n := h p (by simp)
    rw [List.foldl_cons, List.map_cons, List.foldl_cons,
      ih (polyAdd acc p) (by rw [polyAdd_length, hacc, hp]; simp)
        (fun q hq => h q (by simp [hq])),
      negMul_add_right _ _ _ (by rw [hacc, hp])]

/-- the product distributes over `sumPolys` -/
theorem negMul_sumPolys (n : Nat) (s : Poly) (l : List Poly) (h : ∀ p ∈ l, p.length = n) :
    negMul s (sumPolys n l) = sumPolys n (l.map (negMul s)) := by
  unfold sumPolys
  rw [negMul_foldl_polyAdd n s l (zeroP n) (zeroP_length n) h, negMul_zero_right]

/-- `‖·‖∞` of a `polyAdd`-fold -/
theorem normInf_foldl_polyAdd_le (l : List Poly) (acc : Poly) (B : Int)
    (h : ∀ p ∈ l, normInf p ≤ B) :
    normInf (l.foldl polyAdd acc) ≤ normInf acc + (l.length : Int) * B := by
  induction l generalizing acc with
  | nil => simp
  | cons p ps ih =>
    rw [List.foldl_cons]
    have h1 := ih (polyAdd acc p) (fun q hq => h q (by simp [hq]))
    have h2 := normInf_polyAdd_le acc p
    have h3 := h p (by simp)
    have e : (((p :: ps).length : Nat) : Int) * B = (ps.length : Int) * B + B := by
      rw [List.length_cons]; push_cast; ring
    rw [e]
    omega

/-- `‖Σ l‖∞ ≤ |l| · B` when every summand has `‖·‖∞ ≤ B` (no length hypothesis needed) -/
theorem normInf_sumPolys_le (n : Nat) (l : List Poly) (B : Int) (h : ∀ p ∈ l, normInf p ≤ B) :
    normInf (sumPolys n l) ≤ (l.length : Int) * B := by
  have h1 := normInf_foldl_polyAdd_le l (zeroP n) B h
  rw [normInf_zeroP] at h1
  unfold sumPolys
  omega

end Hal
