import Poulpy.Lemmas.RingRotate

/-! Ring-degree switching, splitting and merging. -/

theorem filterMap_eq_map_of {α β : Type} (l : List α) (f : α → Option β) (g : α → β)
    (h : ∀ x ∈ l, f x = some (g x)) : l.filterMap f = l.map g := by
  induction l with
  | nil => rfl
  | cons x t ih =>
    rw [List.filterMap_cons, h x List.mem_cons_self, List.map_cons, ih (fun y hy => h y (List.mem_cons_of_mem _ hy))]

theorem subsample_eq_map (cnt gap : Nat) (a : Poly) (h : ∀ k, k < cnt → k * gap < a.length) :
    znxSubsample cnt gap a = (List.range cnt).map (fun k => a.getD (k * gap) 0) := by
  unfold znxSubsample
  apply filterMap_eq_map_of
  intro k hk
  have := h k (List.mem_range.mp hk)
  simp [List.getD_eq_getElem?_getD, List.getElem?_eq_getElem this]

theorem subsample_length (cnt gap : Nat) (a : Poly) (h : ∀ k, k < cnt → k * gap < a.length) :
    (znxSubsample cnt gap a).length = cnt := by
  rw [subsample_eq_map cnt gap a h]; simp

theorem subsample_getElem? (cnt gap : Nat) (a : Poly) (h : ∀ k, k < cnt → k * gap < a.length) (k : Nat) (hk : k < cnt) :
    (znxSubsample cnt gap a)[k]? = a[k * gap]? := by
  rw [subsample_eq_map cnt gap a h, List.getElem?_map, List.getElem?_range hk]
  simp [List.getD_eq_getElem?_getD, List.getElem?_eq_getElem (h k hk)]

theorem upsample_length (gap : Nat) (hg : 0 < gap) (a : Poly) : (znxUpsample gap a).length = a.length * gap := by
  unfold znxUpsample
  induction a with
  | nil => simp
  | cons x t ih =>
    simp only [List.flatMap_cons, List.length_append, List.length_cons, List.length_replicate, ih]
    have : gap - 1 + 1 = gap := by omega
    rw [this, Nat.add_mul, Nat.one_mul, Nat.add_comm]

/-- `X ↦ X^gap`: coefficient `k·gap + r` is `a[k]` for `r = 0` and `0` otherwise -/
theorem upsample_getElem? (gap : Nat) (hg : 0 < gap) (a : Poly) (k r : Nat) (hk : k < a.length) (hr : r < gap) :
    (znxUpsample gap a)[k * gap + r]? = some (if r = 0 then a.getD k 0 else 0) := by
  unfold znxUpsample
  induction a generalizing k with
  | nil => simp at hk
  | cons x t ih =>
    simp only [List.flatMap_cons]
    cases k with
    | zero =>
      simp only [Nat.zero_mul, Nat.zero_add]
      rw [List.getElem?_append_left (by simp; omega)]
      cases r with
      | zero => simp
      | succ r => simp [List.getElem?_replicate]; omega
    | succ k =>
      have hlen : (x :: List.replicate (gap - 1) (0 : Int)).length = gap := by simp; omega
      rw [List.getElem?_append_right (by rw [hlen]; rw [Nat.succ_mul]; omega), hlen]
      have : (k + 1) * gap + r - gap = k * gap + r := by rw [Nat.succ_mul]; omega
      rw [this, ih k (by simpa using hk)]
      simp

/-- `m` rounds of interleaving `g` lists of length `m`: entry `q` is entry `q / g` of list `q % g` -/
theorem interleave_getElem? (m : Nat) (ps : List Poly) (hg : 0 < ps.length) (hl : ∀ p ∈ ps, p.length = m)
    (i k : Nat) (hi : i < ps.length) (hk : k < m) :
    (interleave m ps)[k * ps.length + i]? = ((ps[i]?).getD [])[k]? := by
  induction m generalizing ps k with
  | zero => omega
  | succ m ih =>
    have hheads : ps.filterMap List.head? = ps.map (fun p => p.headD 0) := by
      apply filterMap_eq_map_of
      intro p hp
      have := hl p hp
      cases p with
      | nil => simp at this
      | cons x t => simp
    simp only [interleave]
    rw [hheads]
    cases k with
    | zero =>
      simp only [Nat.zero_mul, Nat.zero_add]
      rw [List.getElem?_append_left (by simpa using hi), List.getElem?_map, List.getElem?_eq_getElem hi]
      have := hl _ (List.getElem_mem hi)
      cases hp : ps[i] with
      | nil => rw [hp] at this; simp at this
      | cons x t => simp
    | succ k =>
      rw [List.getElem?_append_right (by simp; rw [Nat.succ_mul]; omega)]
      simp only [List.length_map]
      have e : (k + 1) * ps.length + i - ps.length = k * (ps.map List.tail).length + i := by
        simp only [List.length_map]; rw [Nat.succ_mul]; omega
      rw [e, ih (ps.map List.tail) (by simpa using hg) ?_ k (by simpa using hi) (by omega)]
      · simp only [List.getElem?_map, List.getElem?_eq_getElem hi, Option.map_some, Option.getD_some]
        cases hp : ps[i] with
        | nil => simp
        | cons x t => simp
      · intro p hp
        obtain ⟨p', hp', rfl⟩ := List.mem_map.mp hp
        have := hl p' hp'
        simp [this]

theorem interleave_length (m : Nat) (ps : List Poly) (hl : ∀ p ∈ ps, p.length = m) :
    (interleave m ps).length = m * ps.length := by
  induction m generalizing ps with
  | zero => simp [interleave]
  | succ m ih =>
    have hheads : ps.filterMap List.head? = ps.map (fun p => p.headD 0) := by
      apply filterMap_eq_map_of
      intro p hp
      have := hl p hp
      cases p with
      | nil => simp at this
      | cons x t => simp
    simp only [interleave, List.length_append, hheads, List.length_map]
    rw [ih (ps.map List.tail) ?_]
    · simp only [List.length_map]; rw [Nat.succ_mul]; omega
    · intro p hp
      obtain ⟨p', hp', rfl⟩ := List.mem_map.mp hp
      have := hl p' hp'
      simp [this]

theorem mul_gap_lt {k cnt gap i : Nat} (hk : k < cnt) (hi : i < gap) : k * gap + i < cnt * gap := by
  have : (k + 1) * gap ≤ cnt * gap := Nat.mul_le_mul_right gap hk
  rw [Nat.succ_mul] at this; omega

/-- going down by `gap`: `res[m] = a[m·gap]` -/
theorem switch_down_getElem? (nOut gap : Nat) (hO : 0 < nOut) (hg : 2 ≤ gap) (a : Poly) (ha : a.length = nOut * gap)
    (m : Nat) (hm : m < nOut) : (znxSwitchRing nOut a)[m]? = a[m * gap]? := by
  have hlt : nOut < nOut * gap := by
    calc nOut = nOut * 1 := (Nat.mul_one _).symm
      _ < nOut * gap := Nat.mul_lt_mul_of_pos_left (by omega) hO
  unfold znxSwitchRing
  dsimp only
  rw [ha, if_neg (by omega), if_pos (by omega), Nat.mul_div_cancel_left _ hO]
  exact subsample_getElem? nOut gap a (fun k hk => by rw [ha]; simpa using mul_gap_lt (i := 0) hk (by omega)) m hm

theorem switch_down_length (nOut gap : Nat) (hO : 0 < nOut) (hg : 2 ≤ gap) (a : Poly) (ha : a.length = nOut * gap) :
    (znxSwitchRing nOut a).length = nOut := by
  have hlt : nOut < nOut * gap := by
    calc nOut = nOut * 1 := (Nat.mul_one _).symm
      _ < nOut * gap := Nat.mul_lt_mul_of_pos_left (by omega) hO
  unfold znxSwitchRing
  dsimp only
  rw [ha, if_neg (by omega), if_pos (by omega), Nat.mul_div_cancel_left _ hO]
  exact subsample_length nOut gap a (fun k hk => by rw [ha]; simpa using mul_gap_lt (i := 0) hk (by omega))

/-- going up by `gap` is `X ↦ X^gap` -/
theorem switch_up_eq (gap : Nat) (hg : 2 ≤ gap) (a : Poly) (hn : 0 < a.length) :
    znxSwitchRing (a.length * gap) a = znxUpsample gap a := by
  have hlt : a.length < a.length * gap := by
    calc a.length = a.length * 1 := (Nat.mul_one _).symm
      _ < a.length * gap := Nat.mul_lt_mul_of_pos_left (by omega) hn
  unfold znxSwitchRing
  dsimp only
  rw [if_neg (by omega), if_neg (by omega), Nat.mul_div_cancel_left _ hn]

/-- `switch_ring` down after up is the identity -/
theorem switch_down_up (gap : Nat) (hg : 2 ≤ gap) (a : Poly) (hn : 0 < a.length) :
    znxSwitchRing a.length (znxSwitchRing (a.length * gap) a) = a := by
  rw [switch_up_eq gap hg a hn]
  have hl := upsample_length gap (by omega) a
  apply List.ext_getElem?
  intro m
  by_cases hm : m < a.length
  · rw [switch_down_getElem? a.length gap hn hg _ hl m hm]
    have := upsample_getElem? gap (by omega) a m 0 hm (by omega)
    simp only [Nat.add_zero, if_true] at this
    rw [this, List.getD_eq_getElem?_getD, List.getElem?_eq_getElem hm]; simp
  · rw [List.getElem?_eq_none (by rw [switch_down_length a.length gap hn hg _ hl]; omega),
      List.getElem?_eq_none (by omega)]

/-- the polynomial part `i` of a split is built from: `a` for `i = 0`, `X^{-i}·a` otherwise -/
def splitSrc (i : Nat) (aj : Poly) : Poly := if i = 0 then aj else znxRotate (-(i : Int)) aj

theorem splitSrc_length (i : Nat) (aj : Poly) : (splitSrc i aj).length = aj.length := by
  unfold splitSrc; split
  · rfl
  · exact rotate_length _ _ _

/-- coefficient `m` of part `i` is coefficient `m·gap + i` of the input: no sign, no wrap -/
theorem split_coeff (nOut gap : Nat) (hO : 0 < nOut) (hg : 2 ≤ gap) (aj : Poly) (ha : aj.length = nOut * gap)
    (i : Nat) (hi : i < gap) (m : Nat) (hm : m < nOut) :
    (znxSwitchRing nOut (splitSrc i aj))[m]? = aj[m * gap + i]? := by
  rw [switch_down_getElem? nOut gap hO hg _ (by rw [splitSrc_length, ha]) m hm]
  have hlt : m * gap + i < aj.length := by rw [ha]; exact mul_gap_lt hm hi
  have hlt0 : m * gap < aj.length := by omega
  unfold splitSrc
  split
  · rename_i h; subst h; rfl
  · have h1 := rotate_getD w64 (-(i : Int)) aj (m * gap) hlt0
    have e : ((m * gap : Nat) : Int) - -(i : Int) = ((m * gap + i : Nat) : Int) := by push_cast; ring
    rw [e, coeffZ_of_lt w64 aj _ hlt] at h1
    have l2 : m * gap < (znxRotate (-(i : Int)) aj).length := by rw [rotate_length]; exact hlt0
    rw [List.getD_eq_getElem?_getD, List.getElem?_eq_getElem l2] at h1
    rw [List.getD_eq_getElem?_getD, List.getElem?_eq_getElem hlt] at h1
    rw [List.getElem?_eq_getElem l2, List.getElem?_eq_getElem hlt]
    simpa using h1

theorem splitPart_eq (nOut : Nat) (a : Col) (i s : Nat) :
    splitPart nOut a i s = (a.take (min s a.length)).map (fun aj => znxSwitchRing nOut (splitSrc i aj))
      ++ List.replicate (s - min s a.length) (znxZero nOut) := rfl

theorem splitPart_length (nOut : Nat) (a : Col) (i s : Nat) : (splitPart nOut a i s).length = s := by
  rw [splitPart_eq]; simp

theorem splitPart_getElem?_lt (nOut : Nat) (a : Col) (i s j : Nat) (hj : j < min s a.length) :
    (splitPart nOut a i s)[j]? = (a[j]?).map (fun aj => znxSwitchRing nOut (splitSrc i aj)) := by
  rw [splitPart_eq, List.getElem?_append_left (by simp; omega), List.getElem?_map, List.getElem?_take]
  simp [hj]

theorem splitPart_getElem?_ge (nOut : Nat) (a : Col) (i s j : Nat) (h1 : min s a.length ≤ j) (h2 : j < s) :
    (splitPart nOut a i s)[j]? = some (znxZero nOut) := by
  rw [splitPart_eq, List.getElem?_append_right (by simp; omega)]
  simp [List.getElem?_replicate]; omega

theorem vecSplitRing_getElem? (nOut : Nat) (sizes : List Nat) (a : Col) (i : Nat) :
    (vecSplitRing nOut sizes a)[i]? = (sizes[i]?).map (fun s => splitPart nOut a i s) := by
  unfold vecSplitRing
  rw [List.getElem?_map, List.getElem?_zipIdx]
  cases h : sizes[i]? with
  | none => rfl
  | some s => simp

theorem vecSplitRing_length (nOut : Nat) (sizes : List Nat) (a : Col) : (vecSplitRing nOut sizes a).length = sizes.length := by
  simp [vecSplitRing]

/-- `merge(split a)`, general form: limb `j`, coefficient `k·gap + i` of the merged column is `a_j[k·gap+i]`
when limb `j` exists in `a` and in part `i`, and `0` otherwise -/
theorem merge_split_coeff (nOut gap : Nat) (hO : 0 < nOut) (hg : 2 ≤ gap) (a : Col)
    (ha : ∀ l ∈ a, l.length = nOut * gap) (sizes : List Nat) (hs : sizes.length = gap) (resSize : Nat)
    (j : Nat) (hj : j < resSize) (i k : Nat) (hi : i < gap) (hk : k < nOut) :
    ((vecMergeRings nOut resSize (vecSplitRing nOut sizes a))[j]?.getD [])[k * gap + i]?
      = some (if j < min (sizes.getD i 0) a.length then ((a[j]?).getD []).getD (k * gap + i) 0 else 0) := by
  unfold vecMergeRings
  rw [List.getElem?_map, List.getElem?_range hj]
  simp only [Option.map_some, Option.getD_some]
  set Q := (vecSplitRing nOut sizes a).map (fun p => (p[j]?).getD (znxZero nOut)) with hQ
  have hQl : Q.length = gap := by rw [hQ, List.length_map, vecSplitRing_length, hs]
  have hi' : i < sizes.length := by omega
  have hQi : Q[i]? = some (((splitPart nOut a i (sizes.getD i 0))[j]?).getD (znxZero nOut)) := by
    rw [hQ, List.getElem?_map, vecSplitRing_getElem?, List.getElem?_eq_getElem hi']
    simp [List.getD_eq_getElem?_getD, List.getElem?_eq_getElem hi']
  have hQlen : ∀ p ∈ Q, p.length = nOut := by
    intro p hp
    rw [hQ] at hp
    obtain ⟨q, hq, rfl⟩ := List.mem_map.mp hp
    obtain ⟨i', hi'', rfl⟩ := List.getElem_of_mem hq
    have h2 : i' < sizes.length := by rw [vecSplitRing_length] at hi''; exact hi''
    have e : (vecSplitRing nOut sizes a)[i'] = splitPart nOut a i' sizes[i'] := by
      have := vecSplitRing_getElem? nOut sizes a i'
      rw [List.getElem?_eq_getElem hi'', List.getElem?_eq_getElem h2] at this
      simpa using this
    rw [e]
    by_cases hjj : j < min sizes[i'] a.length
    · rw [splitPart_getElem?_lt _ _ _ _ _ hjj]
      have hja : j < a.length := by omega
      rw [List.getElem?_eq_getElem hja]
      simp only [Option.map_some, Option.getD_some]
      exact switch_down_length nOut gap hO hg _ (by rw [splitSrc_length]; exact ha _ (List.getElem_mem hja))
    · by_cases hjs : j < sizes[i']
      · rw [splitPart_getElem?_ge _ _ _ _ _ (by omega) hjs]; simp [znxZero]
      · have hnone : (splitPart nOut a i' sizes[i'])[j]? = none :=
          List.getElem?_eq_none (by rw [splitPart_length]; omega)
        rw [hnone]; simp [znxZero]
  have := interleave_getElem? nOut Q (by omega) hQlen i k (by omega) hk
  rw [hQl] at this
  rw [this, hQi]
  simp only [Option.getD_some]
  by_cases hjj : j < min (sizes.getD i 0) a.length
  · rw [splitPart_getElem?_lt _ _ _ _ _ hjj]
    have hja : j < a.length := by omega
    rw [List.getElem?_eq_getElem hja]
    simp only [Option.map_some, Option.getD_some, hjj, if_true]
    rw [split_coeff nOut gap hO hg _ (ha _ (List.getElem_mem hja)) i hi k hk]
    have hlt : k * gap + i < a[j].length := by rw [ha _ (List.getElem_mem hja)]; exact mul_gap_lt hk hi
    rw [List.getD_eq_getElem?_getD, List.getElem?_eq_getElem hlt]; simp
  · simp only [hjj, if_false]
    by_cases hjs : j < sizes.getD i 0
    · rw [splitPart_getElem?_ge _ _ _ _ _ (by omega) hjs]
      simp [znxZero, hk]
    · have hnone : (splitPart nOut a i (sizes.getD i 0))[j]? = none :=
        List.getElem?_eq_none (by rw [splitPart_length]; omega)
      rw [hnone]
      simp [znxZero, hk]

theorem splitLimbs_length (nOut gap : Nat) (hO : 0 < nOut) (hg : 2 ≤ gap) (a : Col)
    (ha : ∀ l ∈ a, l.length = nOut * gap) (sizes : List Nat) (j : Nat) :
    ∀ p ∈ (vecSplitRing nOut sizes a).map (fun p => (p[j]?).getD (znxZero nOut)), p.length = nOut := by
  intro p hp
  obtain ⟨q, hq, rfl⟩ := List.mem_map.mp hp
  obtain ⟨i', hi'', rfl⟩ := List.getElem_of_mem hq
  have h2 : i' < sizes.length := by rw [vecSplitRing_length] at hi''; exact hi''
  have e : (vecSplitRing nOut sizes a)[i'] = splitPart nOut a i' sizes[i'] := by
    have := vecSplitRing_getElem? nOut sizes a i'
    rw [List.getElem?_eq_getElem hi'', List.getElem?_eq_getElem h2] at this
    simpa using this
  rw [e]
  by_cases hjj : j < min sizes[i'] a.length
  · rw [splitPart_getElem?_lt _ _ _ _ _ hjj]
    have hja : j < a.length := by omega
    rw [List.getElem?_eq_getElem hja]
    simp only [Option.map_some, Option.getD_some]
    exact switch_down_length nOut gap hO hg _ (by rw [splitSrc_length]; exact ha _ (List.getElem_mem hja))
  · by_cases hjs : j < sizes[i']
    · rw [splitPart_getElem?_ge _ _ _ _ _ (by omega) hjs]; simp [znxZero]
    · have hnone : (splitPart nOut a i' sizes[i'])[j]? = none :=
        List.getElem?_eq_none (by rw [splitPart_length]; omega)
      rw [hnone]; simp [znxZero]

/-- **`merge (split a) = a`** when every part has at least as many limbs as `a` -/
theorem merge_split_id (nOut gap : Nat) (hO : 0 < nOut) (hg : 2 ≤ gap) (a : Col)
    (ha : ∀ l ∈ a, l.length = nOut * gap) (sizes : List Nat) (hs : sizes.length = gap)
    (hsz : ∀ s ∈ sizes, a.length ≤ s) :
    vecMergeRings nOut a.length (vecSplitRing nOut sizes a) = a := by
  apply List.ext_getElem?
  intro j
  by_cases hj : j < a.length
  · have hL : (vecMergeRings nOut a.length (vecSplitRing nOut sizes a))[j]?
        = some (interleave nOut ((vecSplitRing nOut sizes a).map (fun p => (p[j]?).getD (znxZero nOut)))) := by
      unfold vecMergeRings
      rw [List.getElem?_map, List.getElem?_range hj]; rfl
    rw [hL, List.getElem?_eq_getElem hj]
    congr 1
    have hlen : (interleave nOut ((vecSplitRing nOut sizes a).map (fun p => (p[j]?).getD (znxZero nOut)))).length
        = nOut * gap := by
      rw [interleave_length _ _ (splitLimbs_length nOut gap hO hg a ha sizes j), List.length_map, vecSplitRing_length, hs]
    have haj := ha _ (List.getElem_mem hj)
    apply List.ext_getElem?
    intro q
    by_cases hq : q < nOut * gap
    · have hk : q / gap < nOut := Nat.div_lt_of_lt_mul (by rw [Nat.mul_comm]; exact hq)
      have hi : q % gap < gap := Nat.mod_lt _ (by omega)
      have hqe : q / gap * gap + q % gap = q := by rw [Nat.mul_comm]; exact Nat.div_add_mod q gap
      have := merge_split_coeff nOut gap hO hg a ha sizes hs a.length j hj (q % gap) (q / gap) hi hk
      rw [hL, hqe] at this
      simp only [Option.getD_some] at this
      rw [this]
      have hsi : a.length ≤ sizes.getD (q % gap) 0 := by
        have h3 : q % gap < sizes.length := by omega
        rw [List.getD_eq_getElem?_getD, List.getElem?_eq_getElem h3]
        exact hsz _ (List.getElem_mem h3)
      have hcond : j < min (sizes.getD (q % gap) 0) a.length := by omega
      simp only [hcond, if_true, List.getElem?_eq_getElem hj, Option.getD_some]
      have hq2 : q < a[j].length := by omega
      rw [List.getD_eq_getElem?_getD, List.getElem?_eq_getElem hq2]; simp
    · rw [List.getElem?_eq_none (by omega), List.getElem?_eq_none (by omega)]
  · rw [List.getElem?_eq_none (by simp [vecMergeRings]; omega), List.getElem?_eq_none (by omega)]

/-- **`split (merge parts) = parts`** for `gap ≥ 2` parts of the same size `s` -/
theorem split_merge_id (nOut : Nat) (hO : 0 < nOut) (parts : List Col) (hg : 2 ≤ parts.length) (s : Nat)
    (hsz : ∀ p ∈ parts, p.length = s) (hl : ∀ p ∈ parts, ∀ l ∈ p, l.length = nOut) :
    vecSplitRing nOut (List.replicate parts.length s) (vecMergeRings nOut s parts) = parts := by
  set gap := parts.length with hgap
  have hmlen : (vecMergeRings nOut s parts).length = s := by simp [vecMergeRings]
  have hQlen : ∀ j : Nat, ∀ p ∈ parts.map (fun p => (p[j]?).getD (znxZero nOut)), p.length = nOut := by
    intro j p hp
    obtain ⟨q, hq, rfl⟩ := List.mem_map.mp hp
    by_cases hj : j < q.length
    · rw [List.getElem?_eq_getElem hj]; exact hl q hq _ (List.getElem_mem hj)
    · rw [List.getElem?_eq_none (by omega)]; simp [znxZero]
  have hmj : ∀ j, j < s → (vecMergeRings nOut s parts)[j]?
      = some (interleave nOut (parts.map (fun p => (p[j]?).getD (znxZero nOut)))) := by
    intro j hj
    unfold vecMergeRings
    rw [List.getElem?_map, List.getElem?_range hj]; rfl
  have hmlimb : ∀ l ∈ vecMergeRings nOut s parts, l.length = nOut * gap := by
    intro l hl'
    obtain ⟨j, hj, rfl⟩ := List.getElem_of_mem hl'
    rw [hmlen] at hj
    have := hmj j hj
    rw [List.getElem?_eq_getElem (by rw [hmlen]; exact hj)] at this
    injection this with this
    rw [this, interleave_length _ _ (hQlen j), List.length_map]
  apply List.ext_getElem?
  intro i
  rw [vecSplitRing_getElem?]
  by_cases hi : i < gap
  · rw [List.getElem?_replicate, if_pos hi, List.getElem?_eq_getElem (by omega)]
    simp only [Option.map_some]
    congr 1
    have hpi : parts[i].length = s := hsz _ (List.getElem_mem _)
    apply List.ext_getElem?
    intro j
    by_cases hj : j < s
    · rw [splitPart_getElem?_lt _ _ _ _ _ (by rw [hmlen]; omega), hmj j hj, List.getElem?_eq_getElem (by omega)]
      simp only [Option.map_some]
      congr 1
      have hpij : parts[i][j].length = nOut := hl _ (List.getElem_mem _) _ (List.getElem_mem _)
      have hmjl : (interleave nOut (parts.map (fun p => (p[j]?).getD (znxZero nOut)))).length = nOut * gap := by
        rw [interleave_length _ _ (hQlen j), List.length_map]
      apply List.ext_getElem?
      intro m
      by_cases hm : m < nOut
      · rw [split_coeff nOut gap hO hg _ hmjl i hi m hm]
        have := interleave_getElem? nOut (parts.map (fun p => (p[j]?).getD (znxZero nOut))) (by simp; omega) (hQlen j)
          i m (by simpa using hi) hm
        simp only [List.length_map] at this
        have hpi' : parts[i]? = some parts[i] := List.getElem?_eq_getElem (by omega)
        have hpj : parts[i][j]? = some parts[i][j] := List.getElem?_eq_getElem (by omega)
        rw [this, List.getElem?_map, hpi']
        simp only [Option.map_some, Option.getD_some]
        rw [hpj]
        simp
      · rw [List.getElem?_eq_none (by rw [switch_down_length nOut gap hO hg _ (by rw [splitSrc_length]; exact hmjl)]; omega),
          List.getElem?_eq_none (by omega)]
    · rw [List.getElem?_eq_none (by rw [splitPart_length]; omega), List.getElem?_eq_none (by omega)]
  · rw [List.getElem?_replicate, if_neg hi, List.getElem?_eq_none (by omega)]; rfl
