import Poulpy.Lemmas.RingAutoLoop
import Mathlib.Data.List.Nodup
import Mathlib.Data.Nat.GCD.Basic
import Mathlib.Data.Int.GCD
import Mathlib.Data.Nat.Prime.Basic
import Mathlib.RingTheory.Coprime.Lemmas

/-! Galois automorphism `X ↦ X^g`: extension formula, composition, inverse. -/

theorem mul_mod_inj (n c : Nat) (hc : Nat.Coprime c n) (i j : Nat) (hi : i < n) (hj : j < n)
    (h : (i * c) % n = (j * c) % n) : i = j := by
  have key : ∀ i j : Nat, i ≤ j → j < n → (i * c) % n = (j * c) % n → i = j := by
    intro i j hij hj h
    have h1 : (j * c - i * c) % n = 0 := Nat.sub_mod_eq_zero_of_mod_eq h.symm
    rw [← Nat.sub_mul] at h1
    have h2 : n ∣ (j - i) := (Nat.Coprime.symm hc).dvd_of_dvd_mul_right (Nat.dvd_of_mod_eq_zero h1)
    have h3 : j - i = 0 := Nat.eq_zero_of_dvd_of_lt h2 (by omega)
    omega
  rcases Nat.le_total i j with hij | hij
  · exact key i j hij hj h
  · exact (key j i hij hi h.symm).symm

/-- the list of writes of the whole loop, including `res[0] = a[0]` -/
def autoWrites (n p2n : Nat) (a : Poly) : List (Nat × Int) :=
  (List.range n).map (fun i => ((i * p2n) % (2 * n), a.getD i 0))

theorem autoInto_eq_writes (w : Int → Int) (g : Int) (res0 a : Poly) (hn : 0 < a.length) (hl : res0.length = a.length) :
    znxAutomorphismIntoW w g res0 a
      = writes w a.length (autoWrites a.length (g % (2 * (a.length : Int))).toNat a) res0 := by
  unfold znxAutomorphismIntoW
  dsimp only
  rw [hl, List.take_of_length_le (Nat.le_refl _)]
  cases a with
  | nil => simp at hn
  | cons a0 rest =>
    simp only
    rw [autoLoop_eq_writes]
    generalize (g % (2 * ((a0 :: rest).length : Int))).toNat = p2n
    have e : autoWrites (a0 :: rest).length p2n (a0 :: rest)
        = (0, a0) :: (runKs (a0 :: rest).length p2n rest.length 0).zip rest := by
      apply List.ext_getElem?
      intro i
      unfold autoWrites
      cases i with
      | zero => simp
      | succ m =>
        simp only [List.getElem?_cons_succ, List.getElem?_map]
        by_cases hm : m < rest.length
        · rw [List.getElem?_range (by simp; omega)]
          symm
          simp only [Option.map_some]
          rw [List.getElem?_zip_eq_some]
          constructor
          · rw [runKs_getElem? _ _ _ _ _ hm]; simp
          · simp [List.getElem?_eq_getElem hm]
        · have h1 : (List.range (a0 :: rest).length)[m + 1]? = none := by
            simp; omega
          rw [h1]
          symm
          simp only [Option.map_none]
          rw [List.getElem?_eq_none]
          simp [runKs_length]; omega
    rw [e]
    simp [writes, autoWrite]

theorem autoWrites_nodup (n p2n : Nat) (a : Poly) (hc : Nat.Coprime p2n n) :
    ((autoWrites n p2n a).map (fun e => e.1 % n)).Nodup := by
  unfold autoWrites
  rw [List.map_map]
  apply List.Nodup.map_on _ List.nodup_range
  intro i hi j hj h
  simp only [Function.comp] at h
  rw [Nat.mod_mod_of_dvd _ (Dvd.intro_left 2 rfl), Nat.mod_mod_of_dvd _ (Dvd.intro_left 2 rfl)] at h
  exact mul_mod_inj n p2n hc i j (List.mem_range.mp hi) (List.mem_range.mp hj) h

theorem autoInto_length (w : Int → Int) (g : Int) (res0 a : Poly) (hn : 0 < a.length) (hl : res0.length = a.length) :
    (znxAutomorphismIntoW w g res0 a).length = a.length := by
  rw [autoInto_eq_writes w g res0 a hn hl, writes_length, hl]

/-- scatter form of `automorphism_spec`: the coefficient at `(i·g) mod n` is `± a[i]`, the sign
being negative exactly when `(i·g) mod 2n ≥ n`; independent of the previous content of `res` -/
theorem autoInto_get (w : Int → Int) (g : Int) (res0 a : Poly) (hn : 0 < a.length) (hl : res0.length = a.length)
    (hc : Nat.Coprime (g % (2 * (a.length : Int))).toNat a.length) (i : Nat) (hi : i < a.length) :
    (znxAutomorphismIntoW w g res0 a)[(i * (g % (2 * (a.length : Int))).toNat) % (2 * a.length) % a.length]?
      = some (if (i * (g % (2 * (a.length : Int))).toNat) % (2 * a.length) < a.length then a.getD i 0 else w (-(a.getD i 0))) := by
  rw [autoInto_eq_writes w g res0 a hn hl]
  have hmem : ((i * (g % (2 * (a.length : Int))).toNat) % (2 * a.length), a.getD i 0)
      ∈ autoWrites a.length (g % (2 * (a.length : Int))).toNat a := by
    unfold autoWrites
    exact List.mem_map.mpr ⟨i, List.mem_range.mpr hi, rfl⟩
  have hk : ∀ e ∈ autoWrites a.length (g % (2 * (a.length : Int))).toNat a, e.1 < 2 * a.length := by
    intro e he
    unfold autoWrites at he
    obtain ⟨j, _, rfl⟩ := List.mem_map.mp he
    exact Nat.mod_lt _ (by omega)
  exact writes_get w a.length hn _ res0 hl hk (autoWrites_nodup _ _ a hc) _ hmem

/-- admissible Galois element for degree `n`: odd, and `g mod 2n` coprime to `n`
(for `n` a power of two the second clause follows from the first, `galOk_pow2`) -/
def GalOk (g : Int) (n : Nat) : Prop := g % 2 = 1 ∧ Nat.Coprime (g % (2 * (n : Int))).toNat n

theorem mul_g_emod (i : Nat) (g : Int) (n : Nat) (hn : 0 < n) :
    ((i : Int) * g) % (2 * (n : Int)) = ((i * (g % (2 * (n : Int))).toNat % (2 * n) : Nat) : Int) := by
  have h0 : 0 ≤ g % (2 * (n : Int)) := Int.emod_nonneg _ (by omega)
  push_cast
  rw [Int.toNat_of_nonneg h0]
  conv_lhs => rw [Int.mul_emod]
  conv_rhs => rw [Int.mul_emod, Int.emod_emod_of_dvd _ (dvd_refl _)]

theorem autoInto_allP {w : Int → Int} {P : Int → Prop} (hw : NegOn w P) (g : Int) (res0 a : Poly) (hn : 0 < a.length)
    (hl : res0.length = a.length) (h0 : AllP P res0) (ha : AllP P a) : AllP P (znxAutomorphismIntoW w g res0 a) := by
  rw [autoInto_eq_writes w g res0 a hn hl]
  apply writes_allP hw _ _ _ h0
  intro e he
  unfold autoWrites at he
  obtain ⟨j, hj, rfl⟩ := List.mem_map.mp he
  exact getD_mem_P ha j (List.mem_range.mp hj)

/-- `automorphism_spec`, extension form: coefficient `i·g` of `σ_g a` is coefficient `i` of `a`, all `i ∈ ℤ` -/
theorem autoInto_coeffZ {w : Int → Int} {P : Int → Prop} (hw : NegOn w P) (g : Int) (res0 a : Poly) (hn : 0 < a.length)
    (hl : res0.length = a.length) (h0 : AllP P res0) (ha : AllP P a) (hg : GalOk g a.length) (i : Int) :
    coeffZ w (znxAutomorphismIntoW w g res0 a) (i * g) = coeffZ w a i := by
  have hlen := autoInto_length w g res0 a hn hl
  have hR := autoInto_allP hw g res0 a hn hl h0 ha
  obtain ⟨t, ht⟩ : ∃ t : Int, g = 2 * t + 1 := ⟨g / 2, by have := Int.emod_add_mul_ediv g 2; have := hg.1; omega⟩
  apply eq_of_window a.length hn (fun i => coeffZ w (znxAutomorphismIntoW w g res0 a) (i * g)) (fun i => coeffZ w a i)
    (fun x => w (-x))
  · intro k
    show coeffZ w _ ((k + 2 * (a.length : Int)) * g) = coeffZ w _ (k * g)
    apply coeffZ_congr
    rw [hlen, show (k + 2 * (a.length : Int)) * g = k * g + 2 * (a.length : Int) * g by ring, Int.add_mul_emod_self_left]
  · intro k; exact coeffZ_period w a k
  · intro k
    show coeffZ w _ ((k + (a.length : Int)) * g) = w (-(coeffZ w _ (k * g)))
    have := coeffZ_add_n hw _ hR (by omega) (k * g)
    rw [hlen] at this
    rw [← this]
    apply coeffZ_congr
    rw [hlen, show (k + (a.length : Int)) * g = (k * g + (a.length : Int)) + 2 * (a.length : Int) * t by rw [ht]; ring,
      Int.add_mul_emod_self_left]
  · intro k; exact coeffZ_add_n hw a ha hn k
  · intro j hj
    show coeffZ w (znxAutomorphismIntoW w g res0 a) ((j : Int) * g) = coeffZ w a j
    rw [coeffZ_of_lt w a j hj]
    have hget := autoInto_get w g res0 a hn hl hg.2 j hj
    unfold coeffZ
    dsimp only
    rw [hlen, mul_g_emod j g a.length hn]
    simp only [Int.toNat_natCast]
    generalize hk : j * (g % (2 * (a.length : Int))).toNat % (2 * a.length) = k at hget
    have hk2 : k < 2 * a.length := by rw [← hk]; exact Nat.mod_lt _ (by omega)
    by_cases h1 : k < a.length
    · rw [Nat.mod_eq_of_lt h1] at hget
      simp [h1, List.getD_eq_getElem?_getD, hget]
    · have : k % a.length = k - a.length := by rw [Nat.mod_eq_sub_mod (by omega), Nat.mod_eq_of_lt (by omega)]
      rw [this] at hget
      simp only [h1, if_false, List.getD_eq_getElem?_getD, hget, Option.getD_some]
      rw [← List.getD_eq_getElem?_getD]
      exact hw.invol _ (getD_mem_P ha j hj)

theorem galOk_bezout {g : Int} {n : Nat} (hn : 0 < n) (hg : GalOk g n) :
    ∃ A B : Int, g * A + 2 * (n : Int) * B = 1 := by
  obtain ⟨h2, hc⟩ := hg
  have h0 : 0 ≤ g % (2 * (n : Int)) := Int.emod_nonneg _ (by omega)
  have hodd : (g % (2 * (n : Int))).toNat % 2 = 1 := by
    have : g % (2 * (n : Int)) % 2 = 1 := by rw [Int.emod_emod_of_dvd _ (Dvd.intro _ rfl)]; exact h2
    omega
  have hc2 : Nat.Coprime (g % (2 * (n : Int))).toNat (2 * n) :=
    Nat.Coprime.mul_right (Nat.coprime_two_right.mpr (Nat.odd_iff.mpr hodd)) hc
  have bz := Nat.gcd_eq_gcd_ab (g % (2 * (n : Int))).toNat (2 * n)
  rw [hc2.gcd_eq_one, Int.toNat_of_nonneg h0] at bz
  have hdiv := Int.emod_add_mul_ediv g (2 * (n : Int))
  refine ⟨Nat.gcdA (g % (2 * (n : Int))).toNat (2 * n),
    Nat.gcdB (g % (2 * (n : Int))).toNat (2 * n) - (g / (2 * (n : Int))) * Nat.gcdA (g % (2 * (n : Int))).toNat (2 * n), ?_⟩
  push_cast at bz
  generalize Nat.gcdA (g % (2 * (n : Int))).toNat (2 * n) = A at *
  generalize Nat.gcdB (g % (2 * (n : Int))).toNat (2 * n) = B at *
  have : g * A = (g % (2 * (n : Int))) * A + 2 * (n : Int) * (g / (2 * (n : Int))) * A := by
    conv_lhs => rw [← hdiv]
    ring
  linarith

/-- a list is determined by its extension sampled at the multiples of an admissible `g` -/
theorem coeffZ_ext_mul (w : Int → Int) (g : Int) (x y : Poly) (hl : x.length = y.length) (hn : 0 < x.length)
    (hg : GalOk g x.length) (h : ∀ i : Int, coeffZ w x (i * g) = coeffZ w y (i * g)) : x = y := by
  obtain ⟨A, B, hAB⟩ := galOk_bezout hn hg
  apply coeffZ_ext w x y hl
  intro j _
  have e : (j : Int) = ((j : Int) * A) * g + 2 * (x.length : Int) * ((j : Int) * B) := by
    have : (j : Int) = (j : Int) * (g * A + 2 * (x.length : Int) * B) := by rw [hAB]; ring
    conv_lhs => rw [this]
    ring
  rw [coeffZ_congr w x j (((j : Int) * A) * g) (by conv_lhs => rw [e]; rw [Int.add_mul_emod_self_left]),
    coeffZ_congr w y j (((j : Int) * A) * g) (by rw [← hl]; conv_lhs => rw [e]; rw [Int.add_mul_emod_self_left])]
  exact h _

theorem galOk_iff {g : Int} {n : Nat} (hn : 0 < n) : GalOk g n ↔ IsCoprime g (2 * (n : Int)) := by
  constructor
  · intro h
    obtain ⟨A, B, hAB⟩ := galOk_bezout hn h
    exact ⟨A, B, by linarith⟩
  · intro h
    constructor
    · obtain ⟨u, v, huv⟩ := h.of_mul_right_left
      rcases Int.emod_two_eq g with h0 | h1
      · exfalso
        have e := Int.emod_add_mul_ediv g 2
        have : u * g = 2 * (u * (g / 2)) := by
          conv_lhs => rw [← e, h0]
          ring
        generalize u * (g / 2) = m at this
        omega
      · exact h1
    · have h1 : IsCoprime g (n : Int) := h.of_mul_right_right
      have h2 : IsCoprime (g % (2 * (n : Int))) (n : Int) := by
        have := h1.add_mul_left_left (-(2 * (g / (2 * (n : Int)))))
        have e : g + (n : Int) * -(2 * (g / (2 * (n : Int)))) = g % (2 * (n : Int)) := by
          rw [Int.emod_def]; ring
        rwa [e] at this
      have h0 : 0 ≤ g % (2 * (n : Int)) := Int.emod_nonneg _ (by omega)
      rw [← Int.toNat_of_nonneg h0] at h2
      exact Nat.isCoprime_iff_coprime.mp h2

theorem galOk_mul {g h : Int} {n : Nat} (hn : 0 < n) (hg : GalOk g n) (hh : GalOk h n) : GalOk (g * h) n :=
  (galOk_iff hn).mpr (((galOk_iff hn).mp hg).mul_left ((galOk_iff hn).mp hh))

theorem galOk_one {n : Nat} (hn : 0 < n) : GalOk 1 n := (galOk_iff hn).mpr isCoprime_one_left

theorem galOk_congr {g h : Int} {n : Nat} (e : g % (2 * (n : Int)) = h % (2 * (n : Int))) (hg : GalOk g n) : GalOk h n := by
  refine ⟨?_, e ▸ hg.2⟩
  have := hg.1
  rw [← Int.emod_emod_of_dvd g (Dvd.intro (n : Int) rfl), e, Int.emod_emod_of_dvd h (Dvd.intro (n : Int) rfl)] at this
  exact this

/-- for a power-of-two degree every odd `g` is admissible -/
theorem galOk_pow2 (k : Nat) {g : Int} (hg : g % 2 = 1) : GalOk g (2 ^ k) := by
  rw [galOk_iff (Nat.pos_of_ne_zero (by positivity))]
  have h2 : IsCoprime g 2 := ⟨1, -(g / 2), by have := Int.emod_add_mul_ediv g 2; omega⟩
  have : (2 * ((2 ^ k : Nat) : Int)) = 2 ^ (k + 1) := by push_cast; ring
  rw [this]
  exact h2.pow_right

theorem allP_zero {w : Int → Int} {P : Int → Prop} (hw : NegOn w P) (n : Nat) : AllP P (znxZero n) := by
  intro x hx
  have := List.eq_of_mem_replicate hx
  exact this ▸ hw.zero

theorem znxZero_length (n : Nat) : (znxZero n).length = n := by simp [znxZero]

theorem auto_length (w : Int → Int) (g : Int) (a : Poly) : (znxAutomorphismW w g a).length = a.length := by
  rcases Nat.eq_zero_or_pos a.length with h0 | hn
  · have : a = [] := List.eq_nil_of_length_eq_zero h0
    subst this; simp [znxAutomorphismW, znxAutomorphismIntoW, znxZero]
  · exact autoInto_length w g _ a hn (znxZero_length _)

theorem auto_allP {w : Int → Int} {P : Int → Prop} (hw : NegOn w P) (g : Int) (a : Poly) (ha : AllP P a) :
    AllP P (znxAutomorphismW w g a) := by
  rcases Nat.eq_zero_or_pos a.length with h0 | hn
  · have : a = [] := List.eq_nil_of_length_eq_zero h0
    subst this; simp [znxAutomorphismW, znxAutomorphismIntoW, znxZero, AllP]
  · exact autoInto_allP hw g _ a hn (znxZero_length _) (allP_zero hw _) ha

theorem auto_coeffZ {w : Int → Int} {P : Int → Prop} (hw : NegOn w P) (g : Int) (a : Poly) (hn : 0 < a.length)
    (ha : AllP P a) (hg : GalOk g a.length) (i : Int) :
    coeffZ w (znxAutomorphismW w g a) (i * g) = coeffZ w a i :=
  autoInto_coeffZ hw g _ a hn (znxZero_length _) (allP_zero hw _) ha hg i

/-- for an admissible `g` the previous content of the result buffer is irrelevant -/
theorem autoInto_eq_auto {w : Int → Int} {P : Int → Prop} (hw : NegOn w P) (g : Int) (res0 a : Poly) (hn : 0 < a.length)
    (hl : res0.length = a.length) (h0 : AllP P res0) (ha : AllP P a) (hg : GalOk g a.length) :
    znxAutomorphismIntoW w g res0 a = znxAutomorphismW w g a := by
  have l1 := autoInto_length w g res0 a hn hl
  apply coeffZ_ext_mul w g _ _ (by rw [l1, auto_length]) (by omega) (by rw [l1]; exact hg)
  intro i
  rw [autoInto_coeffZ hw g res0 a hn hl h0 ha hg, auto_coeffZ hw g a hn ha hg]

/-- `automorphism_comp`: `σ_g ∘ σ_h = σ_{g·h}` -/
theorem auto_comp {w : Int → Int} {P : Int → Prop} (hw : NegOn w P) (g h : Int) (a : Poly) (hn : 0 < a.length)
    (ha : AllP P a) (hg : GalOk g a.length) (hh : GalOk h a.length) :
    znxAutomorphismW w g (znxAutomorphismW w h a) = znxAutomorphismW w (g * h) a := by
  have lh := auto_length w h a
  apply coeffZ_ext_mul w (g * h) _ _ (by simp [auto_length]) (by rw [auto_length, lh]; exact hn)
    (by rw [auto_length, lh]; exact galOk_mul hn hg hh)
  intro i
  rw [auto_coeffZ hw (g * h) a hn ha (galOk_mul hn hg hh),
    show i * (g * h) = (i * h) * g by ring,
    auto_coeffZ hw g _ (by rw [lh]; exact hn) (auto_allP hw h a ha) (by rw [lh]; exact hg),
    auto_coeffZ hw h a hn ha hh]

theorem auto_congr (w : Int → Int) (g h : Int) (a : Poly)
    (e : g % (2 * (a.length : Int)) = h % (2 * (a.length : Int))) : znxAutomorphismW w g a = znxAutomorphismW w h a := by
  unfold znxAutomorphismW znxAutomorphismIntoW
  dsimp only
  rw [znxZero_length, e]

/-- `σ_1 = id` -/
theorem auto_one {w : Int → Int} {P : Int → Prop} (hw : NegOn w P) (a : Poly) (ha : AllP P a) :
    znxAutomorphismW w 1 a = a := by
  rcases Nat.eq_zero_or_pos a.length with h0 | hn
  · have : a = [] := List.eq_nil_of_length_eq_zero h0
    subst this; simp [znxAutomorphismW, znxAutomorphismIntoW, znxZero]
  · apply coeffZ_ext_mul w 1 _ _ (auto_length w 1 a) (by rw [auto_length]; exact hn)
      (by rw [auto_length]; exact galOk_one hn)
    intro i
    rw [auto_coeffZ hw 1 a hn ha (galOk_one hn), mul_one]

/-- `automorphism_inv`: if `g·g' ≡ 1 (mod 2n)` then `σ_{g'} ∘ σ_g = id` -/
theorem auto_inv {w : Int → Int} {P : Int → Prop} (hw : NegOn w P) (g g' : Int) (a : Poly) (hn : 0 < a.length)
    (ha : AllP P a) (hg : GalOk g a.length) (hg' : GalOk g' a.length)
    (e : (g' * g) % (2 * (a.length : Int)) = 1 % (2 * (a.length : Int))) :
    znxAutomorphismW w g' (znxAutomorphismW w g a) = a := by
  rw [auto_comp hw g' g a hn ha hg' hg, auto_congr w _ 1 a e, auto_one hw a ha]

/-- `σ_g (X^p · a) = X^{p·g} · σ_g a` -/
theorem auto_rotate {w : Int → Int} {P : Int → Prop} (hw : NegOn w P) (g p : Int) (a : Poly) (hn : 0 < a.length)
    (ha : AllP P a) (hg : GalOk g a.length) :
    znxAutomorphismW w g (znxRotateW w p a) = znxRotateW w (p * g) (znxAutomorphismW w g a) := by
  have lr := rotate_length w p a
  have la := auto_length w g a
  apply coeffZ_ext_mul w g _ _ (by simp [auto_length, rotate_length]) (by rw [auto_length, lr]; exact hn)
    (by rw [auto_length, lr]; exact hg)
  intro i
  rw [auto_coeffZ hw g _ (by rw [lr]; exact hn) (rotate_allP hw p ha) (by rw [lr]; exact hg),
    rotate_coeffZ hw p a ha hn,
    rotate_coeffZ hw (p * g) _ (auto_allP hw g a ha) (by rw [la]; exact hn),
    show i * g - p * g = (i - p) * g by ring, auto_coeffZ hw g a hn ha hg]

/-- the in-place form with explicit scratch content: for an admissible `g` the scratch polynomial is
irrelevant and the result is `σ_g` on every limb -/
theorem autoAssignScr_eq {w : Int → Int} {P : Int → Prop} (hw : NegOn w P) (g : Int) (n : Nat) (hn : 0 < n)
    (hg : GalOk g n) (res : Col) (hl : ∀ l ∈ res, l.length = n) (hp : ∀ l ∈ res, AllP P l) :
    ∀ (pre : Col) (t : Poly), t.length = n → AllP P t →
      (res.foldl (fun (acc : Col × Poly) rj =>
        let t := znxAutomorphismIntoW w g acc.2 rj
        (acc.1 ++ [t], t)) (pre, t)).1 = pre ++ res.map (znxAutomorphismW w g) := by
  induction res with
  | nil => intro pre t _ _; simp
  | cons r rest ih =>
    intro pre t ht hPt
    have hr : r.length = n := hl r List.mem_cons_self
    have hPr : AllP P r := hp r List.mem_cons_self
    have e : znxAutomorphismIntoW w g t r = znxAutomorphismW w g r :=
      autoInto_eq_auto hw g t r (by omega) (by rw [ht, hr]) hPt hPr (by rw [hr]; exact hg)
    simp only [List.foldl_cons]
    rw [e, ih (fun l h => hl l (List.mem_cons_of_mem _ h)) (fun l h => hp l (List.mem_cons_of_mem _ h))
      (pre ++ [znxAutomorphismW w g r]) (znxAutomorphismW w g r) (by rw [auto_length, hr]) (auto_allP hw g r hPr)]
    simp
