import Poulpy.Props.C02
/-!
Limb bounds of the results of the core GLWE operations the CKKS linear layer calls (C16 value
semantics).  The C02 phase theorems need head-room on their operands (`GBound H`, `GSmall`); a CKKS
operation is a *sequence* of core calls, so the head-room of every intermediate ciphertext has to be
derived.  These lemmas do that: the shift / normalisation kernels return balanced digits
(`|x| ≤ 2^(b-1)`), the exact kernels add the operand bounds.
-/

namespace Ckks.Bound
open Hal Core Core.Ops C02L CoreEnc NormL

/-- column bound -/
abbrev CB (H : Int) (c : Col) : Prop := ∀ l ∈ c, ∀ x ∈ l, |x| ≤ H

theorem gbound_of_cols {N : Nat} {H : Int} {g : GLWE} (hg : GWF N g) (h : ∀ i, i ≤ g.rank → CB H (col g i)) :
    GBound H g := by
  intro c hc
  obtain ⟨i, hi, rfl⟩ := List.mem_iff_getElem.mp hc
  have := h i (by rw [hg.len] at hi; omega)
  simpa [col, List.getD_eq_getElem?_getD, List.getElem?_eq_getElem hi] using this

theorem gbound_col {H : Int} {g : GLWE} (hb : GBound H g) (i : Nat) : CB H (col g i) := by
  by_cases hi : i < g.cols.length
  · exact hb _ (col_mem i hi)
  · rw [col_of_gt i (by omega)]; intro l hl; simp at hl

theorem gbound_mono {H H' : Int} {g : GLWE} (hb : GBound H g) (h : H ≤ H') : GBound H' g :=
  fun c hc l hl x hx => (hb c hc l hl x hx).trans h

theorem gsmall_of_gbound {H : Int} {g : GLWE} (hb : GBound H g) (h : H < 2 ^ 62) : GSmall g := by
  intro c hc l hl x hx
  have := abs_le.mp (hb c hc l hl x hx)
  constructor <;> linarith [this.1, this.2]

theorem cb_mapCoefs {n size : Nat} {H : Int} (hH : 0 ≤ H) {f : Nat → List Int}
    (hf : ∀ t, t < n → ∀ x ∈ f t, |x| ≤ H) : CB H (mapCoefs n size f) := by
  intro l hl x hx
  obtain ⟨i, hi, j, hj, rfl⟩ := mapCoefs_mem hl hx
  rw [List.getD_eq_getElem?_getD]
  cases e : (f i)[j]? with
  | none => simpa using hH
  | some v => simpa using hf i hi v (List.mem_of_getElem? e)

theorem cb_vecZero (N rs : Nat) {H : Int} (hH : 0 ≤ H) : CB H (vecZero N rs) := by
  intro l hl x hx
  simp only [vecZero, List.mem_replicate] at hl
  obtain ⟨_, rfl⟩ := hl
  simp only [znxZero, List.mem_replicate] at hx
  obtain ⟨_, rfl⟩ := hx
  simpa using hH

theorem balanced_abs {b : Nat} {d : Int} (h : Balanced b d) : |d| ≤ 2 ^ (b - 1) :=
  abs_le.mpr ⟨h.1, le_of_lt h.2⟩

theorem pow_pos' (b : Nat) : (0 : Int) ≤ 2 ^ b := by positivity

/-- `glwe_lsh` returns balanced digits -/
theorem lsh_bound {N : Nat} {res a : GLWE} (hr : GWF N res) (ha : GWF N a) (hbk : res.base2k = a.base2k)
    (hrank : a.rank ≤ res.rank) {H : Int} (hh : HeadRoom 64 res.base2k 0 H) (hb : GBound H a) (k : Nat)
    {r' : GLWE} (h : glweLsh N res a k = .ok r') : GBound (2 ^ (res.base2k - 1)) r' := by
  unfold glweLsh at h
  rw [check_true _ _ (beq_true hr.1), check_true _ _ (beq_true ha.1), check_true _ _ (beq_true hbk),
    check_true _ _ (by simpa using hrank)] at h
  obtain ⟨r'', e, hs, w, sz, h1, h2⟩ := withK_zero_loop hr ha hrank (fun aa rr => lshCoef .overwrite res.base2k k aa rr)
  have : r'' = r' := by
    have := e.symm.trans h
    injection this
  subst this
  refine gbound_of_cols w fun i hi => ?_
  rw [hs.rank] at hi
  by_cases hia : i ≤ a.rank
  · rw [h1 i hia]
    refine cb_mapCoefs (pow_pos' _) fun t _ x hx => ?_
    have hab := coefAt_bound hh.hH0 (hb _ (col_mem i (by rw [ha.len]; omega))) t
    exact balanced_abs ((C08.lsh_value hh k _ (coefAt (col res i) t) hab).2.1 x hx)
  · rw [h2 i (by omega) hi]
    exact cb_vecZero _ _ (pow_pos' _)

/-- `glwe_lsh_assign` returns balanced digits -/
theorem lsh_assign_bound {N : Nat} {res : GLWE} (hr : GWF N res) {H : Int} (hh : HeadRoom 64 res.base2k 0 H)
    (hb : GBound H res) (k : Nat) {r' : GLWE} (h : glweLshAssign N res k = .ok r') :
    GBound (2 ^ (res.base2k - 1)) r' := by
  obtain ⟨r'', e, hs, w, sz, hcol⟩ := selfmap_cols (N := N) hr (fun ri => lshAssignCol res.base2k k ri N)
    (lshAssignCoef res.base2k k) (fun _ => rfl)
  have : r'' = r' := by
    have := e.symm.trans h
    injection this
  subst this
  refine gbound_of_cols w fun i hi => ?_
  rw [hs.rank] at hi
  rw [hcol i hi]
  refine cb_mapCoefs (pow_pos' _) fun t _ x hx => ?_
  have hab := coefAt_bound hh.hH0 (hb _ (col_mem i (by rw [hr.len]; omega))) t
  rw [lshAssign_eq_lsh hh k _ hab] at hx
  exact balanced_abs ((C08.lsh_value hh k _ _ hab).2.1 x hx)

/-- `glwe_normalize_assign` returns balanced digits -/
theorem normalize_assign_bound {N : Nat} {res : GLWE} (hr : GWF N res) {H : Int} (hh : HeadRoom 64 res.base2k 0 H)
    (hb : GBound H res) {r' : GLWE} (h : glweNormalizeAssign N res = .ok r') :
    GBound (2 ^ (res.base2k - 1)) r' := by
  obtain ⟨r'', e, hs, w, sz, hcol⟩ := selfmap_cols (N := N) hr (fun ri => normalizeAssignCol res.base2k ri N)
    (normalizeAssignCoef res.base2k) (fun _ => rfl)
  have : r'' = r' := by
    have := e.symm.trans h
    injection this
  subst this
  refine gbound_of_cols w fun i hi => ?_
  rw [hs.rank] at hi
  rw [hcol i hi]
  refine cb_mapCoefs (pow_pos' _) fun t _ x hx => ?_
  have hab := coefAt_bound hh.hH0 (hb _ (col_mem i (by rw [hr.len]; omega))) t
  exact balanced_abs ((C08.normalize_assign_value hh _ hab).2.1 x hx)


/-! ### fused shift kernels -/

theorem mem_zipWith {α β γ} {f : α → β → γ} : ∀ {l1 : List α} {l2 : List β} {x : γ},
    x ∈ List.zipWith f l1 l2 → ∃ a ∈ l1, ∃ b ∈ l2, x = f a b
  | [], _, x, h => by simp at h
  | _ :: _, [], x, h => by simp at h
  | a :: as, b :: bs, x, h => by
    simp only [List.zipWith_cons_cons, List.mem_cons] at h
    rcases h with rfl | h
    · exact ⟨a, by simp, b, by simp, rfl⟩
    · obtain ⟨a', ha', b', hb', e⟩ := mem_zipWith h
      exact ⟨a', by simp [ha'], b', by simp [hb'], e⟩

theorem fuse_apply_bound (f : Fuse) {Hr D r d : Int} (hr : |r| ≤ Hr) (hd : |d| ≤ D) (h : Hr + D < 2 ^ 63) :
    |f.apply r d| ≤ Hr + D := by
  have hr' := abs_le.mp hr
  have hd' := abs_le.mp hd
  cases f with
  | overwrite =>
    simp only [Fuse.apply]
    have : 0 ≤ Hr := (abs_nonneg r).trans hr
    linarith
  | add =>
    simp only [Fuse.apply]
    have hb : |r + d| ≤ Hr + D := abs_le.mpr ⟨by linarith [hr'.1, hd'.1], by linarith [hr'.2, hd'.2]⟩
    rw [w64_eq_of_abs_lt (lt_of_le_of_lt hb h)]
    exact hb
  | sub =>
    simp only [Fuse.apply]
    have hb : |r - d| ≤ Hr + D := abs_le.mpr ⟨by linarith [hr'.1, hd'.2], by linarith [hr'.2, hd'.1]⟩
    rw [w64_eq_of_abs_lt (lt_of_le_of_lt hb h)]
    exact hb

theorem half_le_61 {b : Nat} (hb : b ≤ 62) : (2 : Int) ^ (b - 1) ≤ 2 ^ 61 :=
  pow_le_pow_right₀ (by norm_num) (by omega)

/-- the fused kernels add at most one balanced digit to every limb of `res` -/
theorem lsh_fused_bound (f : Fuse) (hf : f ≠ .overwrite) {N : Nat} {res a : GLWE} (hr : GWF N res) (ha : GWF N a)
    (hrank : a.rank ≤ res.rank) {H : Int} (hh : HeadRoom 64 res.base2k 0 H) (hb62 : res.base2k ≤ 62)
    (hb : GBound H a) {Hr : Int} (hHr0 : 0 ≤ Hr) (hHr : Hr ≤ 2 ^ 62) (hbr : GBound Hr res) (k : Nat) {r' : GLWE}
    (h : forRange 0 (a.rank + 1) (withCol a (kcol2 N (fun aa rr => lshCoef f res.base2k k aa rr))) res = .ok r') :
    GBound (Hr + 2 ^ (res.base2k - 1)) r' := by
  obtain ⟨r'', e, hs, w, sz, h1, h2⟩ := withK_loop hr ha hrank (fun aa rr => lshCoef f res.base2k k aa rr)
  have : r'' = r' := by
    have := e.symm.trans h
    injection this
  subst this
  have h61 := half_le_61 hb62
  refine gbound_of_cols w fun i hi => ?_
  rw [hs.rank] at hi
  by_cases hia : i ≤ a.rank
  · rw [h1 i hia]
    refine cb_mapCoefs (by have := pow_pos' (res.base2k - 1); linarith) fun t _ x hx => ?_
    have hab := coefAt_bound hh.hH0 (hb _ (col_mem i (by rw [ha.len]; omega))) t
    have hrb := coefAt_bound hHr0 (hbr _ (col_mem i (by rw [hr.len]; omega))) t
    rw [lshCoef_fused_eq f hf _ _ _ _ (fun r h => lt_of_le_of_lt (hrb r h) (by linarith))] at hx
    obtain ⟨r, hr', d, hd, rfl⟩ := mem_zipWith hx
    exact fuse_apply_bound f (hrb r hr')
      (balanced_abs ((C08.lsh_value hh k _ (coefAt (col res i) t) hab).2.1 d hd)) (by linarith)
  · rw [h2 i (by omega)]
    intro l hl x hx
    have := gbound_col hbr i l hl x hx
    have := pow_pos' (res.base2k - 1)
    linarith

theorem lsh_add_bound {N : Nat} {res a : GLWE} (hr : GWF N res) (ha : GWF N a) (hbk : res.base2k = a.base2k)
    (hrank : a.rank ≤ res.rank) {H : Int} (hh : HeadRoom 64 res.base2k 0 H) (hb62 : res.base2k ≤ 62)
    (hb : GBound H a) {Hr : Int} (hHr0 : 0 ≤ Hr) (hHr : Hr ≤ 2 ^ 62) (hbr : GBound Hr res) (k : Nat) {r' : GLWE}
    (h : glweLshAdd N res a k = .ok r') : GBound (Hr + 2 ^ (res.base2k - 1)) r' := by
  unfold glweLshAdd at h
  rw [check_true _ _ (beq_true hr.1), check_true _ _ (beq_true ha.1), check_true _ _ (beq_true hbk),
    check_true _ _ (by simpa using hrank)] at h
  exact lsh_fused_bound .add (by decide) hr ha hrank hh hb62 hb hHr0 hHr hbr k h

theorem lsh_sub_bound {N : Nat} {res a : GLWE} (hr : GWF N res) (ha : GWF N a) (hbk : res.base2k = a.base2k)
    (hrank : a.rank ≤ res.rank) {H : Int} (hh : HeadRoom 64 res.base2k 0 H) (hb62 : res.base2k ≤ 62)
    (hb : GBound H a) {Hr : Int} (hHr0 : 0 ≤ Hr) (hHr : Hr ≤ 2 ^ 62) (hbr : GBound Hr res) (k : Nat) {r' : GLWE}
    (h : glweLshSub N res a k = .ok r') : GBound (Hr + 2 ^ (res.base2k - 1)) r' := by
  unfold glweLshSub at h
  rw [check_true _ _ (beq_true hr.1), check_true _ _ (beq_true ha.1), check_true _ _ (beq_true hbk),
    check_true _ _ (by simpa using hrank)] at h
  exact lsh_fused_bound .sub (by decide) hr ha hrank hh hb62 hb hHr0 hHr hbr k h

/-! ### exact kernels -/

theorem cb_fit {N rs : Nat} {H : Int} (hH : 0 ≤ H) {c : Col} (hc : CB H c) : CB H (fit N rs c) := by
  intro l hl x hx
  simp only [fit, List.mem_map, List.mem_range] at hl
  obtain ⟨j, _, rfl⟩ := hl
  rw [List.getD_eq_getElem?_getD] at hx
  cases e : c[j]? with
  | none =>
    simp only [e, Option.getD_none, zeroP, List.mem_replicate] at hx
    rw [hx.2]; simpa using hH
  | some v =>
    simp only [e, Option.getD_some] at hx
    exact hc v (List.mem_of_getElem? e) x hx

theorem cb_neg {H : Int} {c : Col} (hc : CB H c) : CB H (c.map polyNeg) := by
  intro l hl x hx
  simp only [List.mem_map] at hl
  obtain ⟨l0, hl0, rfl⟩ := hl
  simp only [polyNeg, List.mem_map] at hx
  obtain ⟨y, hy, rfl⟩ := hx
  rw [abs_neg]; exact hc l0 hl0 y hy

theorem cb_colAdd {Ha Hb : Int} {x y : Col} (hx : CB Ha x) (hy : CB Hb y) : CB (Ha + Hb) (colAdd x y) := by
  intro l hl z hz
  obtain ⟨p, hp, q, hq, rfl⟩ := mem_zipWith hl
  simp only [polyAdd] at hz
  obtain ⟨u, hu, v, hv, rfl⟩ := mem_zipWith hz
  exact (abs_add_le u v).trans (add_le_add (hx p hp u hu) (hy q hq v hv))


/-- `glwe_add_into` / `glwe_sub` on operands of the result's rank (the CKKS case): the result columns -/
theorem bin_cols {N : Nat} (K1 : Col → Col → Col) (Kb : Col → Col) {res a b : GLWE}
    (hr : GWF N res) (ha : GWF N a) (hb : GWF N b) (hra : a.rank = res.rank) (hrb : b.rank = res.rank) {r' : GLWE}
    (h : Ops.bind (forRange 0 (min a.rank b.rank + 1) (fun i r =>
          Ops.bind (colOf a i) (fun ai => Ops.bind (colOf b i) (fun bi => updCol i (fun _ => .ok (K1 ai bi)) r))) res)
        (fun r1 => Ops.bind
          (if a.rank > b.rank then forRange (min a.rank b.rank + 1) (max a.rank b.rank + 1) (fromCol a (vecCopy N res.size)) r1
           else forRange (min a.rank b.rank + 1) (max a.rank b.rank + 1) (fromCol b Kb) r1)
          (fun r2 => forRange (max a.rank b.rank + 1) (res.rank + 1) (selfCol (fun _ => vecZero N res.size)) r2)) = .ok r') :
    Same res r' ∧ ∀ i, i ≤ res.rank → col r' i = K1 (col a i) (col b i) := by
  have hmin : min a.rank b.rank = res.rank := by omega
  have hmax : max a.rank b.rank = res.rank := by omega
  have hgt : ¬ a.rank > b.rank := by omega
  rw [hmin, hmax] at h
  simp only [hgt, if_false] at h
  obtain ⟨r1, e1, s1, c1⟩ := forRange_spec (fun i _ => K1 (col a i) (col b i)) _ 0 (res.rank + 1) res
    (fun i r _ hi hl => body2_ok K1 a b i r (by rw [ha.len]; omega) (by rw [hb.len]; omega) (by rw [hl, hr.len]; omega))
    (by rw [hr.len])
  obtain ⟨r2, e2, s2, c2⟩ := forRange_spec (fun i _ => Kb (col b i)) (fromCol b Kb) (res.rank + 1) (res.rank + 1) r1
    (fun i r h1 h2 _ => by omega) (by rw [s1.2.2.2, hr.len])
  obtain ⟨r3, e3, s3, c3⟩ := forRange_spec (fun _ _ => vecZero N res.size) (selfCol (fun _ => vecZero N res.size))
    (res.rank + 1) (res.rank + 1) r2 (fun i r h1 h2 _ => by omega) (by rw [s2.2.2.2, s1.2.2.2, hr.len])
  rw [e1] at h; simp only [Ops.bind] at h; rw [e2] at h; simp only [Ops.bind] at h
  have : r3 = r' := by
    have := e3.symm.trans h
    injection this
  subst this
  refine ⟨(s1.trans s2).trans s3, fun i hi => ?_⟩
  rw [c3 i, c2 i, c1 i]
  have h3 : ¬ (res.rank + 1 ≤ i ∧ i < res.rank + 1) := by omega
  have h1 : 0 ≤ i ∧ i < res.rank + 1 := by omega
  rw [if_neg h3, if_neg h3, if_pos h1]

/-- a bound on every column `i ≤ rank` is a bound on the ciphertext -/
theorem gbound_of_same {N : Nat} {H : Int} {res r' : GLWE} (hr : GWF N res) (hs : Same res r')
    (h : ∀ i, i ≤ res.rank → CB H (col r' i)) : GBound H r' := by
  intro c hc
  obtain ⟨i, hi, rfl⟩ := List.mem_iff_getElem.mp hc
  have := h i (by rw [hs.2.2.2, hr.len] at hi; omega)
  simpa [col, List.getD_eq_getElem?_getD, List.getElem?_eq_getElem hi] using this

theorem rankRule3_same {res a b : GLWE} (hra : a.rank = res.rank) (hrb : b.rank = res.rank) : rankRule3 res a b = true := by
  unfold rankRule3; split
  · simp; omega
  · split <;> simp <;> omega

theorem add_into_cols {N : Nat} {res a b : GLWE} (hr : GWF N res) (ha : GWF N a) (hb : GWF N b)
    (hra : a.rank = res.rank) (hrb : b.rank = res.rank) (hab : a.base2k = b.base2k) (hrbk : res.base2k = b.base2k)
    (sa : GSmall a) (sb : GSmall b) {r' : GLWE} (h : glweAddInto N res a b = .ok r') :
    Same res r' ∧ ∀ i, i ≤ res.rank → col r' i = colAdd (fit N res.size (col a i)) (fit N res.size (col b i)) := by
  unfold glweAddInto at h
  rw [check_true _ _ (beq_true ha.1), check_true _ _ (beq_true hb.1), check_true _ _ (beq_true hr.1),
    check_true _ _ (beq_true hab), check_true _ _ (beq_true hrbk), check_true _ _ (rankRule3_same hra hrb)] at h
  obtain ⟨hs, hc⟩ := bin_cols (vecAdd N res.size) (vecCopy N res.size) hr ha hb hra hrb h
  refine ⟨hs, fun i hi => ?_⟩
  rw [hc i hi, vecAdd_nf _ _ _ (ha.col_limbs i) (hb.col_limbs i) (sa.col i) (sb.col i)]

theorem sub_into_cols {N : Nat} {res a b : GLWE} (hr : GWF N res) (ha : GWF N a) (hb : GWF N b)
    (hra : a.rank = res.rank) (hrb : b.rank = res.rank) (hab : a.base2k = res.base2k) (hrbk : b.base2k = res.base2k)
    (sa : GSmall a) (sb : GSmall b) {r' : GLWE} (h : glweSub N res a b = .ok r') :
    Same res r' ∧ ∀ i, i ≤ res.rank →
      col r' i = colAdd (fit N res.size (col a i)) ((fit N res.size (col b i)).map polyNeg) := by
  unfold glweSub at h
  rw [check_true _ _ (beq_true ha.1), check_true _ _ (beq_true hb.1), check_true _ _ (beq_true hr.1),
    check_true _ _ (beq_true hab), check_true _ _ (beq_true hrbk), check_true _ _ (rankRule3_same hra hrb)] at h
  obtain ⟨hs, hc⟩ := bin_cols (vecSub N res.size) (vecNegate N res.size) hr ha hb hra hrb h
  refine ⟨hs, fun i hi => ?_⟩
  rw [hc i hi, vecSub_nf _ _ _ (ha.col_limbs i) (hb.col_limbs i) (sa.col i) (sb.col i)]

/-- in-place binary forms, operand of the result's rank -/
theorem assign_cols {N : Nat} (K : Col → Col → Col) {res a : GLWE} (hr : GWF N res) (ha : GWF N a)
    (hrk : a.rank = res.rank) {r' : GLWE} (h : forRange 0 (a.rank + 1) (withCol a K) res = .ok r') :
    Same res r' ∧ ∀ i, i ≤ res.rank → col r' i = K (col res i) (col a i) := by
  obtain ⟨r1, e1, s1, c1⟩ := forRange_spec (fun i c => K c (col a i)) (withCol a K) 0 (a.rank + 1) res
    (fun i r _ hi hl => withCol_ok a K i r (by rw [ha.len]; omega) (by rw [hl, hr.len]; omega)) (by rw [hr.len]; omega)
  have : r1 = r' := by
    have := e1.symm.trans h
    injection this
  subst this
  refine ⟨s1, fun i hi => ?_⟩
  rw [c1 i]
  have h : 0 ≤ i ∧ i < a.rank + 1 := by omega
  rw [if_pos h]

theorem add_assign_cols {N : Nat} {res a : GLWE} (hr : GWF N res) (ha : GWF N a) (hbk : res.base2k = a.base2k)
    (hrank : a.rank = res.rank) (sr : GSmall res) (sa : GSmall a) {r' : GLWE} (h : glweAddAssign N res a = .ok r') :
    Same res r' ∧ ∀ i, i ≤ res.rank → col r' i = colAdd (col res i) (fit N res.size (col a i)) := by
  unfold glweAddAssign at h
  rw [check_true _ _ (beq_true hr.1), check_true _ _ (beq_true ha.1), check_true _ _ (beq_true hbk),
    check_true _ _ (by simp [hrank])] at h
  obtain ⟨hs, hc⟩ := assign_cols (vecAddAssignW w64) hr ha hrank h
  refine ⟨hs, fun i hi => ?_⟩
  rw [hc i hi, vecAddAssign_nf (N := N) _ _ (hr.col_limbs i) (sr.col i) (sa.col i), (hr.col_wf i hi).1]

theorem sub_assign_cols {N : Nat} {res a : GLWE} (hr : GWF N res) (ha : GWF N a) (hbk : res.base2k = a.base2k)
    (hrank : a.rank = res.rank) (sr : GSmall res) (sa : GSmall a) {r' : GLWE} (h : glweSubAssign N res a = .ok r') :
    Same res r' ∧ ∀ i, i ≤ res.rank → col r' i = colAdd (col res i) ((fit N res.size (col a i)).map polyNeg) := by
  unfold glweSubAssign at h
  rw [check_true _ _ (beq_true hr.1), check_true _ _ (beq_true ha.1), check_true _ _ (beq_true hbk),
    check_true _ _ (by simp [hrank])] at h
  obtain ⟨hs, hc⟩ := assign_cols (vecSubAssignW w64) hr ha hrank h
  refine ⟨hs, fun i hi => ?_⟩
  rw [hc i hi, vecSubAssign_nf (N := N) _ _ (hr.col_limbs i) (sr.col i) (sa.col i), (hr.col_wf i hi).1]

/-- `glwe_negate` -/
theorem negate_cols {N : Nat} {res a : GLWE} (hr : GWF N res) (ha : GWF N a) (hbk : res.base2k = a.base2k)
    (hrank : a.rank = res.rank) (sa : GSmall a) {r' : GLWE} (h : glweNegate N res a = .ok r') :
    Same res r' ∧ ∀ i, i ≤ res.rank → col r' i = (fit N res.size (col a i)).map polyNeg := by
  unfold glweNegate at h
  rw [check_true _ _ (beq_true ha.1), check_true _ _ (beq_true hr.1), check_true _ _ (beq_true hbk),
    check_true _ _ (beq_true hrank)] at h
  obtain ⟨r1, e1, s1, c1⟩ := forRange_spec (fun i _ => vecNegate N res.size (col a i)) (fromCol a (vecNegate N res.size))
    0 (res.rank + 1) res
    (fun i r _ hi hl => fromCol_ok a _ i r (by rw [ha.len]; omega) (by rw [hl, hr.len]; omega)) (by rw [hr.len])
  have : r1 = r' := by
    have := e1.symm.trans h
    injection this
  subst this
  refine ⟨s1, fun i hi => ?_⟩
  rw [c1 i]
  have h : 0 ≤ i ∧ i < res.rank + 1 := by omega
  rw [if_pos h, vecNegate_nf _ _ (sa.col i)]

/-- `glwe_negate_assign` -/
theorem negate_assign_cols {N : Nat} {res : GLWE} (hr : GWF N res) (sr : GSmall res) {r' : GLWE}
    (h : glweNegateAssign N res = .ok r') : Same res r' ∧ ∀ i, i ≤ res.rank → col r' i = (col res i).map polyNeg := by
  unfold glweNegateAssign at h
  rw [check_true _ _ (beq_true hr.1)] at h
  obtain ⟨r1, e1, s1, c1⟩ := forRange_spec (fun _ c => vecNegateAssignW w64 c) (selfCol (vecNegateAssignW w64)) 0 (res.rank + 1) res
    (fun i r _ hi hl => selfCol_ok _ i r (by rw [hl, hr.len]; omega)) (by rw [hr.len])
  have : r1 = r' := by
    have := e1.symm.trans h
    injection this
  subst this
  refine ⟨s1, fun i hi => ?_⟩
  rw [c1 i]
  have h : 0 ≤ i ∧ i < res.rank + 1 := by omega
  rw [if_pos h, vecNegateAssign_nf _ (sr.col i)]

end Ckks.Bound
