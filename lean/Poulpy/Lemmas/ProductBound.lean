import Poulpy.Lemmas.GadgetAccum
import Poulpy.Lemmas.KsNoise

/-!
Head-room of the executed gadget product DERIVED from operand digit bounds (the part of `Lemmas/HeadRoom.lean` that depends only on the
key-switch model, split off so that Props/C03 — which `Lemmas/HeadRoom.lean` sits above through `Lemmas/EpTotal.lean` — can import it):
every coefficient of the executed `Ks.gglweProductDft` is bounded by `dsize · (cols_in · rows) · N · Da · Dm`; `prodBound`,
`prodAdmissible` (decidable admissible-shape inequality).  `Lemmas/HeadRoom.lean` re-exports everything by importing this file.
-/

namespace Core
open Hal Ks


/-- at most `n` coefficients, all bounded by `D` -/
def PB (n : Nat) (D : Int) (p : Poly) : Prop := p.length ≤ n ∧ ∀ x ∈ p, |x| ≤ D

theorem PB_zero (n : Nat) (D : Int) (hD : 0 ≤ D) : PB n D (zeroP n) :=
  ⟨by simp [zeroP], fun x hx => by simp only [zeroP, List.mem_replicate] at hx; rw [hx.2]; simpa using hD⟩

theorem PB.normInf_le {n : Nat} {D : Int} {p : Poly} (h : PB n D p) (hD : 0 ≤ D) : normInf p ≤ D :=
  normInf_le_of_forall h.2 hD

theorem PB.norm1_le {n : Nat} {D : Int} {p : Poly} (h : PB n D p) (hD : 0 ≤ D) : norm1 p ≤ (n : Int) * D := by
  have h1 := norm1_le_length_mul_normInf p
  have h2 := h.normInf_le hD
  have h3 : ((p.length : Nat) : Int) ≤ (n : Int) := by exact_mod_cast h.1
  calc norm1 p ≤ (p.length : Int) * normInf p := h1
    _ ≤ (n : Int) * D := mul_le_mul h3 h2 (normInf_nonneg p) (by positivity)

theorem getD_PB {n : Nat} {D : Int} (l : List Poly) (j : Nat) (h : ∀ p ∈ l, PB n D p) (hD : 0 ≤ D) : PB n D (l.getD j (zeroP n)) := by
  rw [List.getD_eq_getElem?_getD]
  cases hj : l[j]? with
  | none => simpa using PB_zero n D hD
  | some p => simpa using h p (List.mem_of_getElem? hj)

theorem dftApplyCol_PB {n : Nat} {D : Int} (st off rs : Nat) (a : Col) (h : ∀ l ∈ a, PB n D l) (hD : 0 ≤ D) :
    ∀ l ∈ dftApplyCol n st off rs a, PB n D l := by
  intro l hl
  unfold dftApplyCol at hl
  simp only [List.mem_map, List.mem_range] at hl
  obtain ⟨j, _, rfl⟩ := hl
  split
  · split
    · exact getD_PB a _ h hD
    · exact PB_zero n D hD
  · exact PB_zero n D hD

theorem getD_nil_mem {α} (L : List (List α)) (i : Nat) : L.getD i [] ∈ L ∨ L.getD i [] = [] := by
  rw [List.getD_eq_getElem?_getD]
  cases h : L[i]? with
  | none => right; rfl
  | some y => left; simpa using List.mem_of_getElem? h

theorem entry_normInf (m : PMat) (Dm : Int) (hDm : 0 ≤ Dm)
    (h : ∀ row ∈ m.data, ∀ c ∈ row, ∀ l ∈ c, ∀ x ∈ l, |x| ≤ Dm) (j q : Nat) : normInf (m.entry j q) ≤ Dm := by
  unfold PMat.entry limbOr0
  apply normInf_le_of_forall _ hDm
  intro x hx
  rw [List.getD_eq_getElem?_getD] at hx
  cases h1 : ((m.data.getD j []).getD (q % m.colsOut) [])[q / m.colsOut]? with
  | none =>
    simp only [h1, Option.getD_none, zeroP, List.mem_replicate] at hx
    rw [hx.2]; simpa using hDm
  | some l =>
    simp only [h1, Option.getD_some] at hx
    have hl := List.mem_of_getElem? h1
    rcases getD_nil_mem (m.data.getD j []) (q % m.colsOut) with hc | hc
    · rcases getD_nil_mem m.data j with hr | hr
      · exact h _ hr _ hc l hl x hx
      · rw [hr] at hc; simp at hc
    · rw [hc] at hl; simp at hl

/-- **one vector-matrix product**: every output polynomial has `‖·‖_∞ ≤ (cols_in·rows) · n·Da·Dm` -/
theorem vmpFlat_bound (n : Nat) (aF : List Poly) (m : PMat) (lo rl : Nat) (Da Dm : Int) (hDa : 0 ≤ Da) (hDm : 0 ≤ Dm)
    (haF : ∀ p ∈ aF, PB n Da p) (hm : ∀ j q, normInf (m.entry j q) ≤ Dm) :
    ∀ p ∈ vmpFlat n aF m lo rl, normInf p ≤ ((m.colsIn * m.rows : Nat) : Int) * ((n : Int) * Da * Dm) := by
  intro p hp
  have hK : (0 : Int) ≤ (n : Int) * Da * Dm := by positivity
  unfold vmpFlat at hp
  simp only [List.mem_map, List.mem_range] at hp
  obtain ⟨r, _, rfl⟩ := hp
  split
  · have h1 := normInf_sumPolys_le n ((List.range (min (m.colsIn * m.rows) aF.length)).map
        (fun j => Hal.negMul (aF.getD j (zeroP n)) (m.entry j (r + lo * m.colsOut)))) ((n : Int) * Da * Dm) (by
      intro q hq
      simp only [List.mem_map, List.mem_range] at hq
      obtain ⟨j, _, rfl⟩ := hq
      have hb := getD_PB aF j haF hDa
      calc normInf (Hal.negMul (aF.getD j (zeroP n)) (m.entry j (r + lo * m.colsOut)))
          ≤ norm1 (aF.getD j (zeroP n)) * normInf (m.entry j (r + lo * m.colsOut)) := normInf_negMul_le _ _
        _ ≤ ((n : Int) * Da) * Dm := mul_le_mul (hb.norm1_le hDa) (hm _ _) (normInf_nonneg _) (by positivity))
    rw [List.length_map, List.length_range] at h1
    refine h1.trans (mul_le_mul_of_nonneg_right ?_ hK)
    exact_mod_cast Nat.min_le_left _ _
  · rw [normInf_zeroP]; positivity

theorem act_PB {n : Nat} {D : Int} (b : Buf) (c : Nat) (h : ∀ col ∈ b.data, ∀ l ∈ col, PB n D l) : ∀ l ∈ b.act c, PB n D l := by
  intro l hl
  unfold Buf.act at hl
  have hl' := List.mem_of_mem_take hl
  rw [List.getD_eq_getElem?_getD] at hl'
  cases hc : b.data[c]? with
  | none => simp [hc] at hl'
  | some col =>
    simp only [hc, Option.getD_some] at hl'
    exact h col (List.mem_of_getElem? hc) l hl'

theorem limbOr0_PB {n : Nat} {D : Int} (c : Col) (j : Nat) (h : ∀ l ∈ c, PB n D l) (hD : 0 ≤ D) : PB n D (limbOr0 n c j) :=
  getD_PB c j h hD

theorem passEntry_bound (a : Buf) (key : Key) (n di l c : Nat) (Da Dm : Int) (hDa : 0 ≤ Da) (hDm : 0 ≤ Dm)
    (ha : ∀ col ∈ a.data, ∀ p ∈ col, PB n Da p) (hm : ∀ j q, normInf (key.mat.entry j q) ≤ Dm) :
    normInf (passEntry a key n di l c) ≤ ((key.mat.colsIn * key.mat.rows : Nat) : Int) * ((n : Int) * Da * Dm) := by
  unfold passEntry
  rw [List.getD_eq_getElem?_getD]
  cases h : (vmpFlat n (aiFlatOf a key n di) key.mat di (passSize key di * key.mat.colsOut))[l * key.mat.colsOut + c]? with
  | none => simp only [Option.getD_none]; rw [normInf_zeroP]; positivity
  | some p =>
    simp only [Option.getD_some]
    apply vmpFlat_bound n _ key.mat di _ Da Dm hDa hDm _ hm p (List.mem_of_getElem? h)
    intro q hq
    unfold aiFlatOf at hq
    simp only [List.mem_map, List.mem_range] at hq
    obtain ⟨r, _, rfl⟩ := hq
    exact limbOr0_PB _ _ (dftApplyCol_PB _ _ _ _ (act_PB a _ ha) hDa) hDa

theorem normInf_condFold_le (m : Nat) (P : Nat → Prop) [DecidablePred P] (g : Nat → Poly) (init : Poly) (K : Int)
    (hg : ∀ k, normInf (g k) ≤ K) :
    normInf ((List.range m).foldl (fun acc k => if P k then polyAdd acc (g k) else acc) init) ≤ normInf init + (m : Int) * K := by
  have hK : 0 ≤ K := (normInf_nonneg (g 0)).trans (hg 0)
  induction m with
  | zero => simp
  | succ m ih =>
    rw [List.range_succ, List.foldl_append]
    simp only [List.foldl_cons, List.foldl_nil]
    push_cast
    split
    · have := normInf_polyAdd_le ((List.range m).foldl (fun acc k => if P k then polyAdd acc (g k) else acc) init) (g m)
      have := hg m
      linarith
    · linarith

/-- **the executed gadget product, every `dsize ≥ 1`**: each limb of each column has `‖·‖_∞ ≤ dsize · (cols_in·rows) · N·Da·Dm` -/
theorem product_bound (N : Nat) (res a : Buf) (key : Key) (Da Dm : Int) (hDa : 0 ≤ Da) (hDm : 0 ≤ Dm) (hD : 1 ≤ key.dsize) (hres : res.WF)
    (hmax : res.maxSize = key.mat.size) (hsize : res.size = key.mat.size) (hcols : res.cols = key.mat.colsOut)
    (hresn : res.n = N) (han : a.n = N)
    (ha : ∀ col ∈ a.data, ∀ p ∈ col, PB N Da p) (hm : ∀ j q, normInf (key.mat.entry j q) ≤ Dm) (c : Nat) (hc : c < res.cols) :
    ∀ p ∈ (Ks.gglweProductDft res a key).act c,
      normInf p ≤ (key.dsize : Int) * (((key.mat.colsIn * key.mat.rows : Nat) : Int) * ((N : Int) * Da * Dm)) := by
  subst hresn
  have hK : (0 : Int) ≤ ((key.mat.colsIn * key.mat.rows : Nat) : Int) * ((res.n : Int) * Da * Dm) := by positivity
  by_cases h1 : key.dsize = 1
  · have e : Ks.gglweProductDft res a key = opVmp res a key.mat 0 := by
      unfold Ks.gglweProductDft; rw [if_pos h1]
    obtain ⟨s1, s2, s3, s4, _, s6⟩ := Ks.opVmp_spec res a key.mat 0 hres
    rw [e, h1]
    intro p hp
    obtain ⟨l, hl, rfl⟩ := List.getElem_of_mem hp
    have hlen : ((opVmp res a key.mat 0).act c).length = res.size := by
      rw [Buf.act_length _ s1 c (by rw [s2]; exact hc), s3]
    have hl' : l < res.size := by rw [← hlen]; exact hl
    have e2 : ((opVmp res a key.mat 0).act c)[l] = Ks.rawLimb res.n (opVmp res a key.mat 0) c l := by
      have h1 : ((opVmp res a key.mat 0).act c)[l] = ((opVmp res a key.mat 0).act c).getD l (zeroP res.n) := by
        simp [List.getD_eq_getElem?_getD, List.getElem?_eq_getElem hl]
      rw [h1]
      unfold Ks.rawLimb limbOr0 Buf.act
      exact Ks.getD_take' _ _ l _ (by rw [s3]; exact hl')
    rw [e2, s6 c l hc, if_pos hl']
    simp only [Nat.cast_one, one_mul]
    rw [List.getD_eq_getElem?_getD]
    cases h : (vmpFlat res.n a.flat key.mat 0 (res.size * res.cols))[l * res.cols + c]? with
    | none => simp only [Option.getD_none]; rw [normInf_zeroP]; exact hK
    | some q =>
      simp only [Option.getD_some]
      apply vmpFlat_bound res.n _ key.mat 0 _ Da Dm hDa hDm _ hm q (List.mem_of_getElem? h)
      intro r hr
      unfold Buf.flat at hr
      simp only [List.mem_map, List.mem_range] at hr
      obtain ⟨i, _, rfl⟩ := hr
      rw [han]
      exact limbOr0_PB _ _ (act_PB a _ ha) hDa
  · have hD2 : 2 ≤ key.dsize := by omega
    intro p hp
    obtain ⟨l, hl, rfl⟩ := List.getElem_of_mem hp
    have e2 : ((Ks.gglweProductDft res a key).act c)[l] = limbOr0 res.n ((Ks.gglweProductDft res a key).act c) l := by
      simp [limbOr0, List.getD_eq_getElem?_getD, List.getElem?_eq_getElem hl]
    rw [e2, Ks.product_accum res a key hD2 hres hmax hcols han.symm l c hc]
    have hpe : ∀ di, normInf (passEntry a key res.n di l c) ≤ ((key.mat.colsIn * key.mat.rows : Nat) : Int) * ((res.n : Int) * Da * Dm) :=
      fun di => passEntry_bound a key res.n di l c Da Dm hDa hDm ha hm
    have h := normInf_condFold_le (key.dsize - 1) (fun k => l < Ks.passSize key (k + 1)) (fun k => passEntry a key res.n (k + 1) l c)
      (if l < Ks.passSize key 0 then passEntry a key res.n 0 l c else zeroP res.n) _ (fun k => hpe (k + 1))
    have hinit : normInf (if l < Ks.passSize key 0 then passEntry a key res.n 0 l c else zeroP res.n)
        ≤ ((key.mat.colsIn * key.mat.rows : Nat) : Int) * ((res.n : Int) * Da * Dm) := by
      split
      · exact hpe 0
      · rw [normInf_zeroP]; exact hK
    have hd : ((key.dsize : Nat) : Int) = ((key.dsize - 1 : Nat) : Int) + 1 := by
      have : key.dsize = (key.dsize - 1) + 1 := by omega
      exact_mod_cast this
    rw [hd]
    nlinarith [h, hinit]

/-! ### admissible shapes -/

/-- the derived bound of the gadget product -/
def prodBound (dsize colsIn rows N : Nat) (Da Dm : Int) : Int := (dsize : Int) * (((colsIn * rows : Nat) : Int) * ((N : Int) * Da * Dm))

/-- **admissible shape of a gadget product** (external product: `colsIn = rank+1`; key switch / relinearisation / row expansion:
`colsIn` = input columns): digits `|a| ≤ Da`, `|key| ≤ Dm`, an added operand bounded by `Y` (`0` when nothing is added): the derived
accumulator bound leaves the head-room the normalisation kernel needs, `bits = 64` (FFT64) or `128` (NTT120). -/
def prodAdmissible (bits dsize colsIn rows N : Nat) (Da Dm Y : Int) : Prop := prodBound dsize colsIn rows N Da Dm + Y + 8 ≤ 2 ^ (bits - 2)

instance (bits dsize colsIn rows N : Nat) (Da Dm Y : Int) : Decidable (prodAdmissible bits dsize colsIn rows N Da Dm Y) := by
  unfold prodAdmissible; infer_instance

theorem prodBound_nonneg (dsize colsIn rows N : Nat) (Da Dm : Int) (hDa : 0 ≤ Da) (hDm : 0 ≤ Dm) : 0 ≤ prodBound dsize colsIn rows N Da Dm := by
  unfold prodBound; positivity

end Core
