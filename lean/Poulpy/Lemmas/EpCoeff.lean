import Poulpy.Props.C04

/-!
The `∞`-norm reading of the error term of the external product / CMux.  `C04.cmux_selects_with_noise` exhibits the error of a CMux as the
element `epErr = Σ_i (Σ_r digit_{i,r}·E_{i,r} − dropped_i − β^S·head_i)` of `ℤ[X]/(X^N+1)`.  With the key errors given as coefficient
lists (`E i r = ι (EL i r)`) and `dsize ≤ 2` (nothing dropped; the crate's binary layer uses `dsize = 1`), the first part is the class of the
explicit list `Ks.errL` of C03 (through `EpGGSW.toKey`), whose `∞`-norm is bounded by `Σ‖digit‖₁·‖EL‖_∞`, and the head term is a multiple
of `β^S`, hence of the modulus of the identity.  Read at one coefficient (`KsDec.ring_to_coeff`) this gives the integer statement
`2^(b·S)·val_t(res) = 2^(b·S)·val_t(sel) + e + 2^(b·rs+b·S)·q`, `|e| ≤ cmuxErrBound`.
-/

namespace EpCoeff
open Hal Core Ks C04 KsDec

/-- the error of the gadget product as a coefficient list plus a multiple of `β^S` -/
theorem epErr_list (N : Nat) (sk : List Poly) (d : List Col) (g : EpGGSW) (EL : ℕ → ℕ → Poly) (K : ℕ → ℕ → Ks.R N)
    (hN : 0 < N) (hn : g.n = N)
    (hd : shapeOk g.n (g.rank + 1) (d.getD 0 []).length d = true)
    (hEL : ∀ i r, (EL i r).length = N) (h2 : g.dsize ≤ 2) :
    epErr N sk d g ((2 : Ks.R N) ^ g.base2k) (fun i r => Ks.ι N (EL i r) + ((2 : Ks.R N) ^ g.base2k) ^ g.size * K i r)
      = Ks.ι N (Ks.errL N g.base2k (mkBuf g.n (g.rank + 1) (d.getD 0 []).length d) g.toKey EL)
        - ((2 : Ks.R N) ^ g.base2k) ^ g.size * ∑ i ∈ Finset.range (g.rank + 1),
            (Gadget.head ((2 : Ks.R N) ^ g.base2k) g.dsize g.dnum (d.getD 0 []).length
              (Ks.inLimb N (mkBuf g.n (g.rank + 1) (d.getD 0 []).length d) i) (Ks.keyPhase N sk g.toPMat i)
             - ∑ r ∈ Finset.range g.dnum, Gadget.digit ((2 : Ks.R N) ^ g.base2k) g.dsize g.dnum (d.getD 0 []).length
                 (Ks.inLimb N (mkBuf g.n (g.rank + 1) (d.getD 0 []).length d) i) r * K i r) := by
  have hsh := (mkBuf_shape g.n (g.rank + 1) (d.getD 0 []).length d hd).1
  have hA : ∀ c l, (limbOr0 N ((mkBuf g.n (g.rank + 1) (d.getD 0 []).length d).act c) l).length = N := by
    apply Ks.limbOr0_act_length
    intro col hcol p hp
    unfold shapeOk at hd
    simp only [Bool.and_eq_true, beq_iff_eq, List.all_eq_true] at hd
    have := (hd.2 col hcol).2 p hp
    rw [hn] at this
    exact this
  have herr : Ks.ι N (Ks.errL N g.base2k (mkBuf g.n (g.rank + 1) (d.getD 0 []).length d) g.toKey EL) =
      ∑ i ∈ Finset.range (g.rank + 1), ∑ r ∈ Finset.range g.dnum,
        Gadget.digit (Ks.radix N g.base2k) g.dsize g.dnum (d.getD 0 []).length
          (Ks.inLimb N (mkBuf g.n (g.rank + 1) (d.getD 0 []).length d) i) r * Ks.ι N (EL i r) :=
    Ks.ι_errL N g.base2k (mkBuf g.n (g.rank + 1) (d.getD 0 []).length d) g.toKey EL hN hA hEL
  unfold epErr
  rw [herr, ← Ks.radix_eq]
  have hdrop : ∀ i, Gadget.dropped (Ks.radix N g.base2k) g.size g.dsize g.dnum (d.getD 0 []).length
      (Ks.inLimb N (mkBuf g.n (g.rank + 1) (d.getD 0 []).length d) i) (Ks.keyPhase N sk g.toPMat i) = 0 :=
    fun i => Gadget.dropped_eq_zero _ _ _ _ _ _ _ h2
  simp only [hdrop, sub_zero]
  rw [Finset.mul_sum, ← Finset.sum_sub_distrib]
  apply Finset.sum_congr rfl
  intro i _
  rw [mul_sub, Finset.mul_sum]
  have : ∑ r ∈ Finset.range g.dnum, Gadget.digit (Ks.radix N g.base2k) g.dsize g.dnum (d.getD 0 []).length
        (Ks.inLimb N (mkBuf g.n (g.rank + 1) (d.getD 0 []).length d) i) r * (Ks.ι N (EL i r) + Ks.radix N g.base2k ^ g.size * K i r)
      = ∑ r ∈ Finset.range g.dnum, Gadget.digit (Ks.radix N g.base2k) g.dsize g.dnum (d.getD 0 []).length
          (Ks.inLimb N (mkBuf g.n (g.rank + 1) (d.getD 0 []).length d) i) r * Ks.ι N (EL i r)
        + ∑ r ∈ Finset.range g.dnum, Ks.radix N g.base2k ^ g.size * (Gadget.digit (Ks.radix N g.base2k) g.dsize g.dnum (d.getD 0 []).length
          (Ks.inLimb N (mkBuf g.n (g.rank + 1) (d.getD 0 []).length d) i) r * K i r) := by
    rw [← Finset.sum_add_distrib]
    apply Finset.sum_congr rfl
    intro r _
    ring
  rw [this]
  ring

/-- the worst-case coefficient bound of one CMux: inputs with limbs `|x| ≤ Hin`, key errors `‖EL i r‖_∞ ≤ BE`, result of `rs` limbs:
`2^(b·rs)·(rank+1)·dnum·(Σ_{di<dsize} 2^(b·di))·N·(2·Hin)·BE + (1 + Σ‖s_i‖₁)·normTol` (in units of `2^-(b·rs+b·S)`) -/
def cmuxErrBound (N rs : Nat) (g : EpGGSW) (sk : List Poly) (Hin BE : Int) : Int :=
  2 ^ (g.base2k * rs) * (((g.rank + 1 : Nat) : Int) * ((g.dnum : Int) *
      ((∑ di ∈ Finset.range g.dsize, (2 : Int) ^ (g.base2k * di)) * ((N : Int) * (Hin + Hin)) * BE)))
    + (1 + C02L.snorm (min g.rank sk.length) sk) * C02.normTol (g.base2k * rs) (g.base2k * g.size)

/-- **`cmux_coeff`** — `Cmux::cmux` read coefficient by coefficient, NO contract left: under the hypotheses of `C04.cmux_selects_with_noise`
(shapes, head-room, key relation with the bit) with key errors given as coefficient lists bounded by `BE` and `dsize ≤ 2`, the call returns a
well-formed ciphertext with digits `≤ 2^b − 1` and for every coefficient `t`
`2^(b·S)·val_k(res) = 2^(b·S)·val_k(if bit then t else f) + e + 2^(b·rs+b·S)·q`, `|e| ≤ cmuxErrBound`. -/
theorem cmux_coeff {N : Nat} (big128 : Bool) (rs : Nat) (t f : List Col) (g : EpGGSW) (res0 tmp0 : List Col) (sk : List Poly)
    (bit : Bool) (Hin Dm BE : Int)
    (hgn : g.n = N) (hgw : g.wf = true) (hts : shapeOk N (g.rank + 1) rs t = true) (hfs : shapeOk N (g.rank + 1) rs f = true)
    (hgb1 : 1 ≤ g.base2k) (hgb : g.base2k ≤ 62)
    (hH0 : 0 ≤ Hin) (hH : 2 * Hin < 2 ^ 62) (hDm : 0 ≤ Dm)
    (htb : ∀ c ∈ t, ∀ l ∈ c, ∀ x ∈ l, |x| ≤ Hin) (hfb : ∀ c ∈ f, ∀ l ∈ c, ∀ x ∈ l, |x| ≤ Hin)
    (hadm : prodAdmissible (bitsOf big128) g.dsize (g.rank + 1) g.dnum N (Hin + Hin) Dm Hin)
    (hgd : ∀ row ∈ g.cells, ∀ c ∈ row, ∀ l ∈ c, ∀ x ∈ l, |x| ≤ Dm)
    (σ : ℕ → Ks.R N) (EL : ℕ → ℕ → Poly) (K : ℕ → ℕ → Ks.R N) (hEL : ∀ i r, (EL i r).length = N) (hBE : ∀ i r, normInf (EL i r) ≤ BE)
    (hd : 1 ≤ g.dsize) (hd2 : g.dsize ≤ 2) (hN : 0 < N) (h1rs : 1 ≤ rs)
    (h0 : shapeOk g.n (g.rank + 1) g.size res0 = true) (ht : shapeOk g.n (g.rank + 1) g.size tmp0 = true)
    (hM : ∀ j q, (g.toPMat.entry j q).length = N) (hS : g.dnum * g.dsize ≤ g.size)
    (hkey : ∀ i, i < g.rank + 1 → ∀ r, r < g.dnum →
      Gadget.val ((2 : Ks.R N) ^ g.base2k) g.size (Ks.keyPhase N sk g.toPMat i r)
        = (if bit then 1 else 0) * σ i * ((2 : Ks.R N) ^ g.base2k) ^ (g.size - (r + 1) * g.dsize)
          + (Ks.ι N (EL i r) + ((2 : Ks.R N) ^ g.base2k) ^ g.size * K i r))
    (hcov1 : rs ≤ g.size) (hcov2 : rs ≤ g.dnum * g.dsize)
    (hsk : g.rank ≤ sk.length) (hσ0 : σ 0 = 1) (hσ : ∀ i, i < g.rank → σ (i + 1) = Ks.ι N (sk.getD i [])) :
    ∃ res, cmux big128 N g.base2k rs t f g res0 tmp0 = .ok res ∧ shapeOk N (g.rank + 1) rs res = true ∧
      (∀ c ∈ res, ∀ l ∈ c, ∀ x ∈ l, |x| ≤ 2 ^ g.base2k - 1) ∧
      ∀ k, k < N → ∃ e q : Int,
        2 ^ (g.base2k * g.size) * Core.valCoeff g.base2k (Core.Ops.phase sk (Ks.mkCt g.base2k N res)) k
          = 2 ^ (g.base2k * g.size) * Core.valCoeff g.base2k (Core.Ops.phase sk (Ks.mkCt g.base2k N (if bit then t else f))) k
            + e + 2 ^ (g.base2k * rs + g.base2k * g.size) * q ∧
        |e| ≤ cmuxErrBound N rs g sk Hin BE := by
  obtain ⟨res, hres, hgwf, hdig, En, Q, hEn, hQ, hnm, heq⟩ := cmux_selects_with_noise big128 rs t f g res0 tmp0 sk bit Hin Dm
    hgn hgw hts hfs hgb1 hgb hH0 hH hDm htb hfb hadm hgd σ (fun i r => Ks.ι N (EL i r) + ((2 : Ks.R N) ^ g.base2k) ^ g.size * K i r) hd hN h1rs h0 ht hM hS hkey hcov1 hcov2 hsk hσ0 hσ
  refine ⟨res, hres, ?_, hdig, ?_⟩
  rotate_left
  -- the difference: shape and limb bound
  obtain ⟨htl, htw⟩ := wf_of_shapeOk N _ _ t hts
  obtain ⟨hfl, hfw⟩ := wf_of_shapeOk N _ _ f hfs
  have hH62 : Hin < 2 ^ 62 := by linarith
  have hdeq := glweSub_exact N rs t f Hin hH62 (by rw [htl, hfl]) htw hfw htb hfb
  rw [htl] at hdeq
  have hdget : ∀ i, i < g.rank + 1 → C02L.ColWF N rs (C02L.colAdd (t.getD i []) ((f.getD i []).map polyNeg)) ∧
      ∀ l ∈ C02L.colAdd (t.getD i []) ((f.getD i []).map polyNeg), ∀ x ∈ l, |x| ≤ Hin + Hin := by
    intro i hi
    have hit : i < t.length := by omega
    have hif : i < f.length := by omega
    have e1 : t.getD i [] = t[i] := by simp [List.getD_eq_getElem?_getD, List.getElem?_eq_getElem hit]
    have e2 : f.getD i [] = f[i] := by simp [List.getD_eq_getElem?_getD, List.getElem?_eq_getElem hif]
    rw [e1, e2]
    exact ⟨C02L.colAdd_wf (htw _ (List.getElem_mem hit)) (neg_col_wf (hfw _ (List.getElem_mem hif))),
      colAdd_bound _ _ Hin Hin (htb _ (List.getElem_mem hit)) (neg_col_bound _ Hin (hfb _ (List.getElem_mem hif)))⟩
  set d := glweSubSameRank N rs t f with hdd
  have hdw : ∀ c ∈ d, C02L.ColWF N rs c := by
    rw [hdeq]; intro c hc
    obtain ⟨i, hi, rfl⟩ := List.mem_map.mp hc
    exact (hdget i (List.mem_range.mp hi)).1
  have hdb : ∀ c ∈ d, ∀ l ∈ c, ∀ x ∈ l, |x| ≤ Hin + Hin := by
    rw [hdeq]; intro c hc
    obtain ⟨i, hi, rfl⟩ := List.mem_map.mp hc
    exact (hdget i (List.mem_range.mp hi)).2
  have hdl : d.length = g.rank + 1 := by rw [hdeq]; simp
  have hd0 : (d.getD 0 []).length = rs := by
    have h0' : 0 < d.length := by rw [hdl]; omega
    rw [List.getD_eq_getElem?_getD, List.getElem?_eq_getElem h0']; exact (hdw _ (List.getElem_mem h0')).1
  have haD : shapeOk g.n (g.rank + 1) (d.getD 0 []).length d = true := by
    rw [hgn, hd0]
    unfold shapeOk
    simp only [Bool.and_eq_true, beq_iff_eq, List.all_eq_true]
    exact ⟨hdl, fun c hc => ⟨(hdw c hc).1, fun l hl => (hdw c hc).2 l hl⟩⟩
  -- the error term as a list
  have hlist := epErr_list N sk d g EL K hN hgn haD hEL hd2
  set A := mkBuf g.n (g.rank + 1) (d.getD 0 []).length d with hA
  have hAlen : ∀ c l, (limbOr0 N (A.act c) l).length = N := by
    apply Ks.limbOr0_act_length
    intro col hcol p hp
    exact (hdw col hcol).2 p hp
  have hAB : ∀ i l, normInf (limbOr0 N (A.act i) l) ≤ Hin + Hin := by
    intro i l
    refine normInf_le_of_forall ?_ (by linarith)
    intro x hx
    unfold limbOr0 at hx
    rw [List.getD_eq_getElem?_getD] at hx
    cases hl : (A.act i)[l]? with
    | none =>
      rw [hl] at hx
      simp only [Option.getD_none, zeroP, List.mem_replicate] at hx
      rw [hx.2]; simp; linarith
    | some p =>
      rw [hl] at hx
      simp only [Option.getD_some] at hx
      have hp : p ∈ A.act i := List.mem_of_getElem? hl
      unfold Buf.act at hp
      have hp' := List.mem_of_mem_take hp
      rw [List.getD_eq_getElem?_getD] at hp'
      cases hc : A.data[i]? with
      | none => rw [hc] at hp'; simp at hp'
      | some col =>
        rw [hc] at hp'
        simp only [Option.getD_some] at hp'
        exact hdb col (List.mem_of_getElem? hc) p hp' x hx
  have hnormE := Ks.normInf_errL_le_of_bounds N g.base2k A g.toKey EL (Hin + Hin) BE hAlen hAB hBE
  have hElen := Ks.errL_length N g.base2k A g.toKey EL hEL
  -- the identity in the shape of `ring_to_coeff`
  set Etot := polyAdd (polyScale (2 ^ (g.base2k * rs)) (Ks.errL N g.base2k A g.toKey EL)) En with hEtot
  have hEtotlen : Etot.length = N := by simp [hEtot, hElen, hEn]
  have hid : (((2 : Int) ^ (g.base2k * g.size) : Int) : Ks.R N) * Ks.ι N (C02L.valP g.base2k N (Core.Ops.phase sk (Ks.mkCt g.base2k N res)))
      = (((2 : Int) ^ (g.base2k * g.size) : Int) : Ks.R N) * Ks.ι N (C02L.valP g.base2k N (Core.Ops.phase sk (Ks.mkCt g.base2k N (if bit then t else f))))
        + Ks.ι N Etot
        + (((2 : Int) ^ (g.base2k * rs + g.base2k * g.size) : Int) : Ks.R N) *
            (Ks.ι N Q - ∑ i ∈ Finset.range (g.rank + 1),
              (Gadget.head ((2 : Ks.R N) ^ g.base2k) g.dsize g.dnum (d.getD 0 []).length (Ks.inLimb N A i) (Ks.keyPhase N sk g.toPMat i)
               - ∑ r ∈ Finset.range g.dnum, Gadget.digit ((2 : Ks.R N) ^ g.base2k) g.dsize g.dnum (d.getD 0 []).length (Ks.inLimb N A i) r * K i r)) := by
    rw [hEtot, Ks.ι_add N _ _ (by simp [hElen, hEn]), Ks.ι_polyScale]
    rw [hlist] at heq
    push_cast
    have hpw : ((2 : Ks.R N) ^ g.base2k) ^ g.size = (2 : Ks.R N) ^ (g.base2k * g.size) := by rw [← pow_mul]
    have hpw2 : (2 : Ks.R N) ^ (g.base2k * rs + g.base2k * g.size) = (2 : Ks.R N) ^ (g.base2k * rs) * (2 : Ks.R N) ^ (g.base2k * g.size) := by rw [pow_add]
    rw [hpw] at heq
    rw [hpw2]
    linear_combination heq
  intro k hk
  obtain ⟨q, hq⟩ := ring_to_coeff N hN _ _ Etot _ _ _ _ (C02L.valP_length _ _ _) (C02L.valP_length _ _ _) hEtotlen hid k
  refine ⟨Etot.getD k 0, q, ?_, ?_⟩
  · simpa [C02L.valP, List.getD_eq_getElem?_getD, List.getElem?_map, List.getElem?_range hk] using hq
  · refine le_trans (abs_getD_le_normInf Etot k) ?_
    rw [hEtot]
    refine le_trans (normInf_polyAdd_le _ _) ?_
    rw [normInf_polyScale, abs_pow, abs_two]
    unfold cmuxErrBound
    have h2p : (0 : Int) ≤ 2 ^ (g.base2k * rs) := by positivity
    have := mul_le_mul_of_nonneg_left hnormE h2p
    have hcols : (g.toKey.mat.colsIn : Int) = ((g.rank + 1 : Nat) : Int) := rfl
    have hrows : (g.toKey.mat.rows : Int) = (g.dnum : Int) := rfl
    have hds : g.toKey.dsize = g.dsize := rfl
    rw [hcols, hrows, hds] at this
    linarith
  · -- the shape of the result: the same normalisation, read through `acc_norm_total`
    obtain ⟨htl, htw⟩ := wf_of_shapeOk N _ _ t hts
    obtain ⟨hfl, hfw⟩ := wf_of_shapeOk N _ _ f hfs
    have hH62 : Hin < 2 ^ 62 := by linarith
    have hdeq := glweSub_exact N rs t f Hin hH62 (by rw [htl, hfl]) htw hfw htb hfb
    rw [htl] at hdeq
    have hdw : ∀ c ∈ glweSubSameRank N rs t f, C02L.ColWF N rs c := by
      rw [hdeq]; intro c hc
      obtain ⟨i, hi, rfl⟩ := List.mem_map.mp hc
      have hi' := List.mem_range.mp hi
      have hit : i < t.length := by omega
      have hif : i < f.length := by omega
      have e1 : t.getD i [] = t[i] := by simp [List.getD_eq_getElem?_getD, List.getElem?_eq_getElem hit]
      have e2 : f.getD i [] = f[i] := by simp [List.getD_eq_getElem?_getD, List.getElem?_eq_getElem hif]
      rw [e1, e2]
      exact C02L.colAdd_wf (htw _ (List.getElem_mem hit)) (neg_col_wf (hfw _ (List.getElem_mem hif)))
    have hdb : ∀ c ∈ glweSubSameRank N rs t f, ∀ l ∈ c, ∀ x ∈ l, |x| ≤ Hin + Hin := by
      rw [hdeq]; intro c hc
      obtain ⟨i, hi, rfl⟩ := List.mem_map.mp hc
      have hi' := List.mem_range.mp hi
      have hit : i < t.length := by omega
      have hif : i < f.length := by omega
      have e1 : t.getD i [] = t[i] := by simp [List.getD_eq_getElem?_getD, List.getElem?_eq_getElem hit]
      have e2 : f.getD i [] = f[i] := by simp [List.getD_eq_getElem?_getD, List.getElem?_eq_getElem hif]
      rw [e1, e2]
      exact colAdd_bound _ _ Hin Hin (htb _ (List.getElem_mem hit)) (neg_col_bound _ Hin (hfb _ (List.getElem_mem hif)))
    have hdl : (glweSubSameRank N rs t f).length = g.rank + 1 := by rw [hdeq]; simp
    have hd0 : ((glweSubSameRank N rs t f).getD 0 []).length = rs := by
      have h0' : 0 < (glweSubSameRank N rs t f).length := by rw [hdl]; omega
      rw [List.getD_eq_getElem?_getD, List.getElem?_eq_getElem h0']; exact (hdw _ (List.getElem_mem h0')).1
    have haD : shapeOk g.n (g.rank + 1) ((glweSubSameRank N rs t f).getD 0 []).length (glweSubSameRank N rs t f) = true := by
      rw [hgn, hd0]
      unfold shapeOk
      simp only [Bool.and_eq_true, beq_iff_eq, List.all_eq_true]
      exact ⟨hdl, fun c hc => ⟨(hdw c hc).1, fun l hl => (hdw c hc).2 l hl⟩⟩
    have hPb := ep_headroom N (glweSubSameRank N rs t f) g res0 tmp0 (Hin + Hin) Dm (by linarith) hDm hd hgn haD h0 ht hdb hgd
    have hwf := epInternal_wf N (glweSubSameRank N rs t f) g res0 tmp0 hd hgn haD h0 ht hM
    have hlen := epInternal_length (glweSubSameRank N rs t f) g res0 tmp0
    unfold prodAdmissible at hadm
    obtain ⟨cs, h1, h2, h3, _, _⟩ := acc_norm_total big128 N g.base2k rs g.base2k g.size g.rank 0
      (prodBound g.dsize (g.rank + 1) g.dnum N (Hin + Hin) Dm) Hin _ (fun j => f.getD j []) hN hgb1 hgb hgb1 hgb
      (prodBound_nonneg _ _ _ _ _ _ (by linarith) hDm) hH0 hadm hlen hwf hPb
      (fun j _ => shapeOk_limbs N _ _ f hfs j) (fun j _ => getD_bound f Hin hfb j)
    have ht0 : (t.getD 0 []).length = rs := by
      have h0t : 0 < t.length := by omega
      rw [List.getD_eq_getElem?_getD, List.getElem?_eq_getElem h0t]; exact (htw _ (List.getElem_mem h0t)).1
    have hf0 : (f.getD 0 []).length = rs := by
      have h0f : 0 < f.length := by omega
      rw [List.getD_eq_getElem?_getD, List.getElem?_eq_getElem h0f]; exact (hfw _ (List.getElem_mem h0f)).1
    have hg : (g.n == N && g.wf && g.base2k == g.base2k && shapeOk N (g.rank + 1) (t.getD 0 []).length t
         && shapeOk N (g.rank + 1) (f.getD 0 []).length f) = true := by
      rw [ht0, hf0]; simp [hgn, hgw, hts, hfs]
    have hres' := hres
    unfold cmux at hres'
    simp only [hg, Bool.not_true, Bool.false_eq_true, if_false] at hres'
    unfold cmuxTail at hres'
    have hres'' : optOutcome ((List.range (g.rank + 1)).mapM (fun j => bigNormalizeOff big128 N g.base2k rs 0
        (Core.bigAddSmallAssign big128 ((epInternal (glweSubSameRank N rs t f) g res0 tmp0).getD j []) (f.getD j [])) g.base2k)) = .ok res := hres'
    rw [h1] at hres''
    have hcs : cs = res := by
      simp only [optOutcome] at hres''
      injection hres''
    subst hcs
    unfold shapeOk
    simp only [Bool.and_eq_true, beq_iff_eq, List.all_eq_true]
    exact ⟨h2, fun c hc => ⟨(h3 c hc).1, fun l hl => (h3 c hc).2 l hl⟩⟩

/-- the worst-case coefficient bound of one external product (input of `sa` limbs in radix `2^ab`, converted digits `≤ Da`, key errors `≤ BE`, result of
`rs` limbs in radix `2^rb`): `2^(ab·sa)·(2^(rb·rs)·(rank+1)·dnum·(Σ 2^(b·di))·N·Da·BE + (1+Σ‖s_i‖₁)·normTol)` in units of `2^-(ab·sa+rb·rs+b·S)` -/
def epErrBound (N rb rs ab sa : Nat) (g : EpGGSW) (sk : List Poly) (Da BE : Int) : Int :=
  2 ^ (ab * sa) * (2 ^ (rb * rs) * (((g.rank + 1 : Nat) : Int) * ((g.dnum : Int) *
      ((∑ di ∈ Finset.range g.dsize, (2 : Int) ^ (g.base2k * di)) * ((N : Int) * Da) * BE)))
    + (1 + C02L.snorm (min g.rank sk.length) sk) * C02.normTol (rb * rs) (g.base2k * g.size))

/-- **`ep_coeff`** — `glwe_external_product` (what `execute_standard` of the blind rotation calls per key bit) read coefficient by coefficient, no
contract left: under the hypotheses of `C04.ep_decrypts_any_radix` with the GGSW encrypting the bit `s`, key errors given as coefficient lists
bounded by `BE` (plus a multiple of `β^S`) and `dsize ≤ 2`, for every coefficient `k`
`2^(ab·sa+b·S)·val_k(res) = 2^(rb·rs+b·S)·s·val_k(a) + e + 2^(ab·sa+rb·rs+b·S)·q`, `|e| ≤ epErrBound`. -/
theorem ep_coeff {N : Nat} (big128 : Bool) (rb rs ab : Nat) (a : List Col) (g : EpGGSW) (sk : List Poly) (bit : Bool) (Hin Da Dm BE : Int)
    (hg : (g.n == N && g.wf && shapeOk N (g.rank + 1) (a.getD 0 []).length a) = true)
    (hrb1 : 1 ≤ rb) (hrb : rb ≤ 62) (hab1 : 1 ≤ ab) (hab : ab ≤ 62) (hgb1 : 1 ≤ g.base2k) (hgb : g.base2k ≤ 62)
    (hH0 : 0 ≤ Hin) (hH : Hin + 8 ≤ 2 ^ 62) (hb : ∀ c ∈ a, ∀ l ∈ c, ∀ x ∈ l, |x| ≤ Hin)
    (hDa : if ab = g.base2k then Hin ≤ Da else 2 ^ g.base2k - 1 ≤ Da) (hDm : 0 ≤ Dm)
    (hadm : prodAdmissible (bitsOf big128) g.dsize (g.rank + 1) g.dnum N Da Dm 0)
    (hgd : ∀ row ∈ g.cells, ∀ c ∈ row, ∀ l ∈ c, ∀ x ∈ l, |x| ≤ Dm)
    (σ : ℕ → Ks.R N) (EL : ℕ → ℕ → Poly) (K : ℕ → ℕ → Ks.R N) (hEL : ∀ i r, (EL i r).length = N) (hBE : ∀ i r, normInf (EL i r) ≤ BE)
    (hd : 1 ≤ g.dsize) (hd2 : g.dsize ≤ 2) (hN : 0 < N) (hn : g.n = N)
    (hM : ∀ j q, (g.toPMat.entry j q).length = N) (hS : g.dnum * g.dsize ≤ g.size)
    (hkey : ∀ i, i < g.rank + 1 → ∀ r, r < g.dnum →
      Gadget.val ((2 : Ks.R N) ^ g.base2k) g.size (Ks.keyPhase N sk g.toPMat i r)
        = (((if bit then 1 else 0 : Int) : Int) : Ks.R N) * σ i * ((2 : Ks.R N) ^ g.base2k) ^ (g.size - (r + 1) * g.dsize)
          + (Ks.ι N (EL i r) + ((2 : Ks.R N) ^ g.base2k) ^ g.size * K i r))
    (hcov1 : epConvSize (a.getD 0 []).length ab g.base2k ≤ g.size)
    (hcov2 : epConvSize (a.getD 0 []).length ab g.base2k ≤ g.dnum * g.dsize)
    (hsk : g.rank ≤ sk.length) (hσ0 : σ 0 = 1) (hσ : ∀ i, i < g.rank → σ (i + 1) = Ks.ι N (sk.getD i [])) :
    ∃ res, glweExternalProduct big128 N rb rs a ab g = .ok res ∧ C02L.GWF N (Ks.mkCt rb N res) ∧
      (∀ c ∈ res, ∀ l ∈ c, ∀ x ∈ l, |x| ≤ 2 ^ rb - 1) ∧
      ∀ k, k < N → ∃ e q : Int,
        2 ^ (ab * (a.getD 0 []).length + g.base2k * g.size) * Core.valCoeff rb (Core.Ops.phase sk (Ks.mkCt rb N res)) k
          = 2 ^ (rb * rs + g.base2k * g.size) * (if bit then 1 else 0) * Core.valCoeff ab (Core.Ops.phase sk (Ks.mkCt ab N a)) k
            + e + 2 ^ (ab * (a.getD 0 []).length + rb * rs + g.base2k * g.size) * q ∧
        |e| ≤ epErrBound N rb rs ab (a.getD 0 []).length g sk Da BE := by
  obtain ⟨res, aConv, hres, hconv, hgwf, hdig, En, Qr, hEn, hnm, heq⟩ := ep_decrypts_any_radix big128 rb rs ab a g sk Hin Da Dm hg
    hrb1 hrb hab1 hab hgb1 hgb hH0 hH hb hDa hDm hadm hgd (((if bit then 1 else 0 : Int) : Int) : Ks.R N) σ
    (fun i r => Ks.ι N (EL i r) + ((2 : Ks.R N) ^ g.base2k) ^ g.size * K i r) hd hN hn hM hS hkey hcov1 hcov2 hsk hσ0 hσ
  refine ⟨res, hres, hgwf, hdig, ?_⟩
  -- the converted input: shape and digits
  have hg' := hg
  simp only [Bool.and_eq_true, beq_iff_eq] at hg'
  obtain ⟨⟨_, _⟩, hsh⟩ := hg'
  obtain ⟨hal, hawf⟩ := wf_of_shapeOk N _ _ a hsh
  have hane : a ≠ [] := by intro h; rw [h] at hal; simp at hal
  set sa := (a.getD 0 []).length with hsa
  obtain ⟨aConv', hc', hcl, hcwf, hcdig, _⟩ := epConvert_total N hN a ab g sa Hin hane hawf hab1 hab hgb1 hgb hH0 hH hb
  have hsame : aConv' = aConv := by rw [hconv] at hc'; injection hc' with h; exact h.symm
  subst hsame
  have hDa0 : 0 ≤ Da := by
    split at hDa
    · linarith
    · have : (1 : Int) ≤ 2 ^ g.base2k := one_le_pow₀ (by norm_num)
      linarith
  have hcb : ∀ c ∈ aConv', ∀ l ∈ c, ∀ x ∈ l, |x| ≤ Da := by
    intro c hcm l hl x hx
    have := hcdig c hcm l hl x hx
    split at this <;> split at hDa <;> first | linarith | contradiction
  have hcl' : aConv'.length = g.rank + 1 := by rw [hcl, hal]
  have h0c : 0 < aConv'.length := by rw [hcl']; omega
  have hcs0 : (aConv'.getD 0 []).length = epConvSize sa ab g.base2k := by
    rw [List.getD_eq_getElem?_getD, List.getElem?_eq_getElem h0c]; exact (hcwf _ (List.getElem_mem h0c)).1
  have haC : shapeOk g.n (g.rank + 1) (aConv'.getD 0 []).length aConv' = true := by
    rw [hn, hcs0]
    unfold shapeOk
    simp only [Bool.and_eq_true, beq_iff_eq, List.all_eq_true]
    exact ⟨hcl', fun c hcm => ⟨(hcwf c hcm).1, fun l hl => (hcwf c hcm).2 l hl⟩⟩
  have hlist := epErr_list N sk aConv' g EL K hN hn haC hEL hd2
  set A := mkBuf g.n (g.rank + 1) (aConv'.getD 0 []).length aConv' with hA
  have hAlen : ∀ c l, (limbOr0 N (A.act c) l).length = N := by
    apply Ks.limbOr0_act_length
    intro col hcol p hp
    exact (hcwf col hcol).2 p hp
  have hAB : ∀ i l, normInf (limbOr0 N (A.act i) l) ≤ Da := by
    intro i l
    refine normInf_le_of_forall ?_ hDa0
    intro x hx
    unfold limbOr0 at hx
    rw [List.getD_eq_getElem?_getD] at hx
    cases hl : (A.act i)[l]? with
    | none =>
      rw [hl] at hx
      simp only [Option.getD_none, zeroP, List.mem_replicate] at hx
      rw [hx.2]; simpa using hDa0
    | some p =>
      rw [hl] at hx
      simp only [Option.getD_some] at hx
      have hp : p ∈ A.act i := List.mem_of_getElem? hl
      unfold Buf.act at hp
      have hp' := List.mem_of_mem_take hp
      rw [List.getD_eq_getElem?_getD] at hp'
      cases hc : A.data[i]? with
      | none => rw [hc] at hp'; simp at hp'
      | some col =>
        rw [hc] at hp'
        simp only [Option.getD_some] at hp'
        exact hcb col (List.mem_of_getElem? hc) p hp' x hx
  have hnormE := Ks.normInf_errL_le_of_bounds N g.base2k A g.toKey EL Da BE hAlen hAB hBE
  have hElen := Ks.errL_length N g.base2k A g.toKey EL hEL
  set Etot := polyScale (2 ^ (ab * sa)) (polyAdd (polyScale (2 ^ (rb * rs)) (Ks.errL N g.base2k A g.toKey EL)) En) with hEtot
  have hEtotlen : Etot.length = N := by simp [hEtot, hElen, hEn]
  have hid : (((2 : Int) ^ (ab * sa + g.base2k * g.size) : Int) : Ks.R N) * Ks.ι N (C02L.valP rb N (Core.Ops.phase sk (Ks.mkCt rb N res)))
      = (((2 : Int) ^ (rb * rs + g.base2k * g.size) * (if bit then 1 else 0) : Int) : Ks.R N) * Ks.ι N (C02L.valP ab N (Core.Ops.phase sk (Ks.mkCt ab N a)))
        + Ks.ι N Etot
        + (((2 : Int) ^ (ab * sa + rb * rs + g.base2k * g.size) : Int) : Ks.R N) *
            (Qr - ∑ i ∈ Finset.range (g.rank + 1),
              (Gadget.head ((2 : Ks.R N) ^ g.base2k) g.dsize g.dnum (aConv'.getD 0 []).length (Ks.inLimb N A i) (Ks.keyPhase N sk g.toPMat i)
               - ∑ r ∈ Finset.range g.dnum, Gadget.digit ((2 : Ks.R N) ^ g.base2k) g.dsize g.dnum (aConv'.getD 0 []).length (Ks.inLimb N A i) r * K i r)) := by
    rw [hEtot, Ks.ι_polyScale, Ks.ι_add N _ _ (by simp [hElen, hEn]), Ks.ι_polyScale]
    rw [hlist] at heq
    push_cast
    have hpw : ((2 : Ks.R N) ^ g.base2k) ^ g.size = (2 : Ks.R N) ^ (g.base2k * g.size) := by rw [← pow_mul]
    have e2 : (2 : Ks.R N) ^ (ab * sa + rb * rs + g.base2k * g.size)
        = (2 : Ks.R N) ^ (ab * sa) * (2 : Ks.R N) ^ (rb * rs) * (2 : Ks.R N) ^ (g.base2k * g.size) := by rw [pow_add, pow_add]
    have e3 : (2 : Ks.R N) ^ (rb * rs + g.base2k * g.size) = (2 : Ks.R N) ^ (rb * rs) * (2 : Ks.R N) ^ (g.base2k * g.size) := pow_add _ _ _
    rw [hpw] at heq
    push_cast at heq
    rw [e2, e3]
    linear_combination heq
  intro k hk
  obtain ⟨q, hq⟩ := ring_to_coeff N hN _ _ Etot _ _ _ _ (C02L.valP_length _ _ _) (C02L.valP_length _ _ _) hEtotlen hid k
  refine ⟨Etot.getD k 0, q, ?_, ?_⟩
  · simpa [C02L.valP, List.getD_eq_getElem?_getD, List.getElem?_map, List.getElem?_range hk] using hq
  · refine le_trans (abs_getD_le_normInf Etot k) ?_
    rw [hEtot, normInf_polyScale, abs_pow, abs_two]
    unfold epErrBound
    apply mul_le_mul_of_nonneg_left _ (by positivity)
    refine le_trans (normInf_polyAdd_le _ _) ?_
    rw [normInf_polyScale, abs_pow, abs_two]
    have h2p : (0 : Int) ≤ 2 ^ (rb * rs) := by positivity
    have := mul_le_mul_of_nonneg_left hnormE h2p
    have hcols : (g.toKey.mat.colsIn : Int) = ((g.rank + 1 : Nat) : Int) := rfl
    have hrows : (g.toKey.mat.rows : Int) = (g.dnum : Int) := rfl
    have hds : g.toKey.dsize = g.dsize := rfl
    rw [hcols, hrows, hds] at this
    linarith

end EpCoeff
