/-
Helper lemmas for C01 (public-key encryption): the value of a limb column as a polynomial
(`valPoly`), its compatibility with the exact negacyclic product, and the secret-linear combination
`linComb sk vs acc = acc + Σ sᵢ ⋆ vᵢ` that the exact phase is.
-/
import Poulpy.Lemmas.CoreEncHead
import Poulpy.Lemmas.EpAlgebra

namespace CoreEnc
open NormL

/-- value polynomial of a column: coefficient `t` is `valI b` of the coefficient's limb list -/
def valPoly (b n : Nat) (c : Col) : Poly := (List.range n).map (fun t => valI b (coefAt c t))

@[simp] theorem valPoly_length (b n : Nat) (c : Col) : (valPoly b n c).length = n := by simp [valPoly]

theorem valPoly_getD (b n : Nat) (c : Col) (t : Nat) (ht : t < n) : (valPoly b n c).getD t 0 = valI b (coefAt c t) := by
  simp [valPoly, List.getD_eq_getElem?_getD, ht]

theorem polyAdd_getD (a c : Poly) (n t : Nat) (ha : a.length = n) (hc : c.length = n) :
    (Hal.polyAdd a c).getD t 0 = a.getD t 0 + c.getD t 0 := by
  unfold Hal.polyAdd
  simp only [List.getD_eq_getElem?_getD, List.getElem?_zipWith]
  by_cases h : t < n
  · simp [List.getElem?_eq_getElem (show t < a.length by omega), List.getElem?_eq_getElem (show t < c.length by omega)]
  · simp [List.getElem?_eq_none (show a.length ≤ t by omega), List.getElem?_eq_none (show c.length ≤ t by omega)]

theorem polyScale_getD (c : Int) (a : Poly) (t : Nat) : (Hal.polyScale c a).getD t 0 = c * a.getD t 0 := by
  unfold Hal.polyScale
  simp only [List.getD_eq_getElem?_getD, List.getElem?_map]
  cases a[t]? <;> simp

theorem valPoly_nil (b n : Nat) : valPoly b n [] = Hal.zeroP n := by
  simp [valPoly, coefAt, valI, Hal.zeroP, List.eq_replicate_iff]

theorem valPoly_cons (b n : Nat) (l : Poly) (rest : Col) (hl : l.length = n) :
    valPoly b n (l :: rest) = Hal.polyAdd (Hal.polyScale (2 ^ (b * rest.length)) l) (valPoly b n rest) := by
  apply List.ext_getElem
  · simp [hl]
  · intro t h1 h2
    have ht : t < n := by simpa using h1
    have e1 := valPoly_getD b n (l :: rest) t ht
    have e2 := polyAdd_getD (Hal.polyScale (2 ^ (b * rest.length)) l) (valPoly b n rest) n t (by simp [hl]) (by simp)
    rw [List.getD_eq_getElem?_getD, List.getElem?_eq_getElem h1] at e1
    rw [List.getD_eq_getElem?_getD, List.getElem?_eq_getElem h2] at e2
    simp only [Option.getD_some] at e1 e2
    rw [e1, e2, polyScale_getD, valPoly_getD b n rest t ht]
    simp only [coefAt, List.map_cons, valI, List.length_map]
    ring

/-- the value map commutes with the product by a fixed polynomial -/
theorem valPoly_colMulPoly (b n : Nat) (s : Poly) : ∀ (c : Col), WF n c →
    valPoly b n (Core.colMulPoly s c) = Hal.negMul s (valPoly b n c) := by
  intro c
  induction c with
  | nil => intro _; simp [Core.colMulPoly, valPoly_nil, Hal.negMul_zero_right]
  | cons l rest ih =>
    intro h
    have hl : l.length = n := h l (by simp)
    have hr := ih (fun x hx => h x (by simp [hx]))
    simp only [Core.colMulPoly, List.map_cons] at hr ⊢
    rw [valPoly_cons b n _ _ (by rw [Hal.negMul_length, hl]), valPoly_cons b n l rest hl, List.length_map, hr,
      Hal.negMul_add_right _ _ _ (by simp [hl]), Hal.ep_negMul_scale_right]

theorem valPoly_colAddSame (b n : Nat) (x y : Col) (hx : WF n x) (hy : WF n y) (h : x.length = y.length) :
    valPoly b n (Core.colAddSame x y) = Hal.polyAdd (valPoly b n x) (valPoly b n y) := by
  apply List.ext_getElem
  · simp
  · intro t h1 h2
    have ht : t < n := by simpa using h1
    have e1 := valPoly_getD b n (Core.colAddSame x y) t ht
    have e2 := polyAdd_getD (valPoly b n x) (valPoly b n y) n t (by simp) (by simp)
    rw [List.getD_eq_getElem?_getD, List.getElem?_eq_getElem h1] at e1
    rw [List.getD_eq_getElem?_getD, List.getElem?_eq_getElem h2] at e2
    simp only [Option.getD_some] at e1 e2
    rw [e1, e2, valPoly_getD b n x t ht, valPoly_getD b n y t ht, (colAddSame_spec x y hx hy h).2.2 t ht,
      valI_zipWith_add b _ _ (by rw [coefAt_length, coefAt_length, h])]

/-- `acc + Σ sᵢ ⋆ vᵢ` -/
def linComb : List Poly → List Poly → Poly → Poly
  | s :: ss, v :: vs, acc => linComb ss vs (Hal.polyAdd acc (Hal.negMul s v))
  | _, _, acc => acc

theorem linComb_length (n : Nat) : ∀ (sk vs : List Poly) (acc : Poly), acc.length = n → (∀ v ∈ vs, v.length = n) →
    (linComb sk vs acc).length = n := by
  intro sk
  induction sk with
  | nil => intro vs acc h _; cases vs <;> simpa [linComb] using h
  | cons s ss ih =>
    intro vs acc h hv
    cases vs with
    | nil => simpa [linComb] using h
    | cons v vs =>
      simp only [linComb]
      exact ih vs _ (by simp [h, Hal.negMul_length, hv v (by simp)]) (fun x hx => hv x (by simp [hx]))

/-- the exact phase as a polynomial: `valPoly (body + Σ sᵢ⋆aᵢ) = valPoly body + Σ sᵢ ⋆ valPoly aᵢ` -/
theorem valPoly_phaseFold (b n size : Nat) : ∀ (sk : List Poly) (masks : List Col) (acc : Col), masks.length = sk.length →
    acc.length = size → WF n acc → (∀ a ∈ masks, a.length = size ∧ WF n a) →
    valPoly b n (phaseFold sk masks acc) = linComb sk (masks.map (valPoly b n)) (valPoly b n acc) := by
  intro sk
  induction sk with
  | nil => intro masks acc _ _ _ _; cases masks <;> simp [phaseFold, linComb]
  | cons s ss ih =>
    intro masks acc h hl hwf hm
    cases masks with
    | nil => simp at h
    | cons a as =>
      have ha := hm a (by simp)
      obtain ⟨z1, z2, _⟩ := colAddSame_spec (n := n) acc (Core.colMulPoly s a) hwf (colMulPoly_WF s ha.2) (by rw [colMulPoly_length, hl, ha.1])
      simp only [phaseFold, List.map_cons, linComb]
      rw [ih as _ (by simpa using h) (by rw [z1, hl]) z2 (fun x hx => hm x (by simp [hx])),
        valPoly_colAddSame b n acc _ hwf (colMulPoly_WF s ha.2) (by rw [colMulPoly_length, hl, ha.1]), valPoly_colMulPoly b n s a ha.2]

/-- L0: the accumulator is additive -/
theorem linComb_acc_add : ∀ (sk vs : List Poly) (a m : Poly), linComb sk vs (Hal.polyAdd a m) = Hal.polyAdd (linComb sk vs a) m := by
  intro sk
  induction sk with
  | nil => intro vs a m; cases vs <;> simp [linComb]
  | cons s ss ih =>
    intro vs a m
    cases vs with
    | nil => simp [linComb]
    | cons v vs =>
      simp only [linComb]
      rw [← ih vs, Hal.polyAdd_assoc, Hal.polyAdd_comm m, ← Hal.polyAdd_assoc]

/-- L1: additivity in the list -/
theorem linComb_add : ∀ (sk xs ys : List Poly) (a c : Poly), xs.length = ys.length → (∀ p ∈ List.zip xs ys, p.1.length = p.2.length) →
    linComb sk (List.zipWith Hal.polyAdd xs ys) (Hal.polyAdd a c) = Hal.polyAdd (linComb sk xs a) (linComb sk ys c) := by
  intro sk
  induction sk with
  | nil => intro xs ys a c _ _; cases xs <;> cases ys <;> simp [linComb]
  | cons s ss ih =>
    intro xs ys a c hlen hl
    cases xs with
    | nil =>
      cases ys with
      | nil => simp [linComb]
      | cons y ys => simp at hlen
    | cons x xs =>
      cases ys with
      | nil => simp at hlen
      | cons y ys =>
        simp only [List.zipWith_cons_cons, linComb]
        rw [Hal.negMul_add_right _ _ _ (hl (x, y) (by simp)), Hal.polyAdd_exchange]
        exact ih xs ys _ _ (by simpa using hlen) (fun p hp => hl p (by simp [hp]))

/-- L2: scaling -/
theorem linComb_scale (c : Int) : ∀ (sk vs : List Poly) (a : Poly),
    linComb sk (vs.map (Hal.polyScale c)) (Hal.polyScale c a) = Hal.polyScale c (linComb sk vs a) := by
  intro sk
  induction sk with
  | nil => intro vs a; cases vs <;> simp [linComb]
  | cons s ss ih =>
    intro vs a
    cases vs with
    | nil => simp [linComb]
    | cons v vs =>
      simp only [List.map_cons, linComb]
      rw [Hal.ep_negMul_scale_right, ← Hal.polyScale_add]
      exact ih vs _

/-- L3: multiplication by a fixed polynomial -/
theorem linComb_negMul (u : Poly) : ∀ (sk vs : List Poly) (a : Poly), (∀ v ∈ vs, v.length = a.length) →
    linComb sk (vs.map (Hal.negMul u)) (Hal.negMul u a) = Hal.negMul u (linComb sk vs a) := by
  intro sk
  induction sk with
  | nil => intro vs a _; cases vs <;> simp [linComb]
  | cons s ss ih =>
    intro vs a hl
    cases vs with
    | nil => simp [linComb]
    | cons v vs =>
      simp only [List.map_cons, linComb]
      rw [Hal.negMul_negMul_comm s u v, ← Hal.negMul_add_right _ _ _ (by rw [Hal.negMul_length, hl v (by simp)])]
      exact ih vs _ (fun x hx => by rw [Hal.polyAdd_length, Hal.negMul_length, hl v (by simp), Nat.min_self]; exact hl x (by simp [hx]))

/-- coefficient-wise congruence modulo `M` as a polynomial identity -/
theorem cong_poly {n : Nat} {M : Int} (hM : M ≠ 0) (p q : Poly) (hp : p.length = n) (hq : q.length = n)
    (h : ∀ t, t < n → ∃ k : Int, p.getD t 0 = q.getD t 0 + k * M) :
    ∃ K : Poly, K.length = n ∧ p = Hal.polyAdd q (Hal.polyScale M K) := by
  refine ⟨List.zipWith (fun x y => (x - y) / M) p q, by simp [hp, hq], ?_⟩
  apply List.ext_getElem
  · simp [hp, hq]
  · intro t h1 h2
    have ht : t < n := by omega
    obtain ⟨k, hk⟩ := h t ht
    have e2 := polyAdd_getD q (Hal.polyScale M (List.zipWith (fun x y => (x - y) / M) p q)) n t hq (by simp [hp, hq])
    rw [List.getD_eq_getElem?_getD, List.getElem?_eq_getElem h2] at e2
    simp only [Option.getD_some] at e2
    rw [e2, polyScale_getD]
    have hpt : p.getD t 0 = p[t] := by rw [List.getD_eq_getElem?_getD, List.getElem?_eq_getElem h1]; rfl
    have hqt : q.getD t 0 = q[t]'(by omega) := by rw [List.getD_eq_getElem?_getD, List.getElem?_eq_getElem (by omega)]; rfl
    have hz : (List.zipWith (fun x y => (x - y) / M) p q).getD t 0 = (p[t] - q[t]'(by omega)) / M := by
      rw [List.getD_eq_getElem?_getD, List.getElem?_zipWith, List.getElem?_eq_getElem h1, List.getElem?_eq_getElem (show t < q.length by omega)]
      rfl
    rw [hz, ← hpt, ← hqt, hk]
    have : (q.getD t 0 + k * M - q.getD t 0) / M = k := by
      rw [add_sub_cancel_left]; exact Int.mul_ediv_cancel k hM
    rw [this]; ring

end CoreEnc
