import Poulpy.Lemmas.PackPhase
import Poulpy.Lemmas.PackValue

/-!
`glwe_trace` with noise: the executed level loop under a **noisy** operation contract — `glwe_rsh(1)` halves the phase up to an
error of size `≤ Br`, the fused `glwe_automorphism_add_assign` of level `i` maps `φ` to `φ + σ_i(φ)` up to an error of size
`≤ Ba i` — maps the phase to the partial trace `traceAbs levels φ` plus an explicit error of size `≤ Σ_{i ∈ levels} (2·Br + Ba i)`:
the errors of earlier levels pass through the later projectors `P_j(x) = x/2 + σ_j(x/2)`, which do not increase the size.
`ν : M → ℤ` is any size function with `ν(x+y) ≤ ν x + ν y`, `ν(σ_i x) ≤ ν x`, `2·ν(x/2) ≤ ν x` (on phases: `‖·‖_∞` of the coefficient
list, for which `σ_i` is a signed permutation and halving of an even representative does not increase the norm).
The per-level contracts are what `glwe_automorphism_add_decrypts` (C03, end to end) and the C02/C08 theorem of `glwe_rsh` establish.
-/

namespace Ks
open Hal Core

variable {M : Type*} [AddCommGroup M]

/-- size function compatible with the projectors -/
structure SizeFn (c : Pack.Contract M) (ν : M → Int) : Prop where
  add : ∀ x y, ν (x + y) ≤ ν x + ν y
  sig : ∀ i x, ν (c.sig i x) ≤ ν x
  half : ∀ x, 2 * ν (c.half x) ≤ ν x
  nonneg : ∀ x, 0 ≤ ν x
  zero : ν 0 = 0

theorem SizeFn.P_le {c : Pack.Contract M} {ν : M → Int} (h : SizeFn c ν) (i : Nat) (x : M) : ν (Pack.P c i x) ≤ ν x := by
  unfold Pack.P
  have h1 := h.add (c.half x) (c.sig i (c.half x))
  have h2 := h.sig i (c.half x)
  have h3 := h.half x
  omega

/-- accumulated bound: every level contributes its own `2·Br + Ba i`; the later projectors do not increase it -/
def traceErrBound (Br : Int) (Ba : Nat → Int) : List Nat → Int
  | [] => 0
  | i :: rest => (2 * Br + Ba i) + traceErrBound Br Ba rest

theorem traceAbs_size {c : Pack.Contract M} {ν : M → Int} (h : SizeFn c ν) (levels : List Nat) (x : M) :
    ν (traceAbs c levels x) ≤ ν x := by
  induction levels generalizing x with
  | nil => simp [traceAbs]
  | cons i is ih =>
    simp only [traceAbs, List.foldl_cons]
    exact (ih (Pack.P c i x)).trans (h.P_le i x)

/-- **`glwe_trace` decrypts to the partial trace within the accumulated level errors** (executed `Ks.traceLoop`) -/
theorem traceLoop_noisy (c : Pack.Contract M) (ν : M → Int) (hν : SizeFn c ν) (ph : Ct → M) (big128 : Bool) (keys : List Key)
    (Br : Int) (Ba : Nat → Int)
    (hrsh : ∀ x y, glweRsh 1 x = .ok y → ∃ e, ph y = c.half (ph x) + e ∧ ν e ≤ Br)
    (hauto : ∀ i x key p y, traceGalois x.n i = .ok p → keys.find? (fun k => k.p == p) = some key →
      automorphismFused .add big128 (zeroBuf x.n (x.rank + 1) key.size) x.base2k x.size x.rank x key = .ok y →
      (y.n = x.n ∧ ∃ e, ph y = ph x + c.sig i (ph x) + e ∧ ν e ≤ Ba i))
    (hn : ∀ x y, glweRsh 1 x = .ok y → y.n = x.n)
    (levels : List Nat) (x r : Ct) (h : traceLoop big128 keys x levels = .ok r) :
    ∃ err, ph r = traceAbs c levels (ph x) + err ∧ ν err ≤ traceErrBound Br Ba levels := by
  induction levels generalizing x with
  | nil =>
    simp only [traceLoop] at h
    injection h with h; subst h
    exact ⟨0, by simp [traceAbs], by simp [traceErrBound, hν.zero]⟩
  | cons i is ih =>
    simp only [traceLoop] at h
    obtain ⟨r1, h1, h⟩ := obind_ok h
    obtain ⟨p, h2, h⟩ := obind_ok h
    cases hk : keys.find? (fun k => k.p == p) with
    | none => simp [hk] at h
    | some key =>
      simp only [hk] at h
      obtain ⟨r2, h3, h⟩ := obind_ok h
      have hn1 := hn _ _ h1
      have h2' : traceGalois r1.n i = .ok p := by rw [hn1]; exact h2
      rw [← hn1] at h3
      obtain ⟨_, e2, he2, hb2⟩ := hauto i r1 key p r2 h2' hk h3
      obtain ⟨e1, he1, hb1⟩ := hrsh _ _ h1
      obtain ⟨err, herr, hberr⟩ := ih r2 h
      -- ph r2 = P_i (ph x) + (e1 + σ e1 + e2)
      have hstep : ph r2 = Pack.P c i (ph x) + (e1 + c.sig i e1 + e2) := by
        rw [he2, he1]
        unfold Pack.P
        simp only [map_add]
        abel
      refine ⟨traceAbs c is (e1 + c.sig i e1 + e2) + err, ?_, ?_⟩
      · rw [herr, hstep, traceAbs_add]
        simp only [traceAbs, List.foldl_cons]
        abel
      · have hs := traceAbs_size hν is (e1 + c.sig i e1 + e2)
        have ha := hν.add (e1 + c.sig i e1) e2
        have hb := hν.add e1 (c.sig i e1)
        have hc := hν.sig i e1
        have hd := hν.add (traceAbs c is (e1 + c.sig i e1 + e2)) err
        have hle : ν (e1 + c.sig i e1 + e2) ≤ 2 * Br + Ba i := by omega
        simp only [traceErrBound]
        omega

end Ks
