import Poulpy.Lemmas.PackPhase
import Poulpy.Lemmas.PackValue
import Mathlib.Algebra.Order.Field.Rat
import Mathlib.Algebra.Order.Field.Basic
import Mathlib.Tactic.Linarith
import Mathlib.Tactic.NormNum

/-!
`glwe_trace` with noise: the executed level loop under a **noisy** operation contract — `glwe_rsh(1)` halves the phase up to an
error of size `≤ Br`, the fused `glwe_automorphism_add_assign` of level `i` maps `φ` to `φ + σ_i(φ)` up to an error of size
`≤ Ba i` — maps the phase to the partial trace `traceAbs levels φ` plus an explicit error of size `≤ Σ_{i ∈ levels} (2·Br + Ba i)`:
the errors of earlier levels pass through the later projectors `P_j(x) = x/2 + σ_j(x/2)`, which do not increase the size.
`ν : M → ℚ` is any size function with `ν(x+y) ≤ ν x + ν y`, `ν(σ_i x) ≤ ν x`, `2·ν(x/2) ≤ ν x` (on phases: `‖·‖_∞` of the coefficient
list, for which `σ_i` is a signed permutation and halving halves the norm).  The codomain is `ℚ`, not `ℤ`: together with
sub-additivity and `x = x/2 + x/2` the halving law gives `2·ν(x/2) = ν x`, so `ν(x/2^k) = ν x / 2^k` for every `k` — an integer-valued `ν`
would have to vanish identically.  With values in `ℚ` the sup-norm of `ℚ[X]/(X²+1)` is an instance (`sizeFn'_model_sup` in
`Lemmas/NoisyPack.lean`).
The per-level contracts are what `glwe_automorphism_add_decrypts` (C03, end to end) and the C02/C08 theorem of `glwe_rsh` establish.
-/

namespace Ks
open Hal Core

variable {M : Type*} [AddCommGroup M]

/-- size function compatible with the projectors -/
structure SizeFn (c : Pack.Contract M) (ν : M → ℚ) : Prop where
  add : ∀ x y, ν (x + y) ≤ ν x + ν y
  sig : ∀ i x, ν (c.sig i x) ≤ ν x
  half : ∀ x, 2 * ν (c.half x) ≤ ν x
  nonneg : ∀ x, 0 ≤ ν x
  zero : ν 0 = 0

theorem SizeFn.P_le {c : Pack.Contract M} {ν : M → ℚ} (h : SizeFn c ν) (i : Nat) (x : M) : ν (Pack.P c i x) ≤ ν x := by
  unfold Pack.P
  have h1 := h.add (c.half x) (c.sig i (c.half x))
  have h2 := h.sig i (c.half x)
  have h3 := h.half x
  linarith

/-- accumulated bound: every level contributes its own `2·Br + Ba i`; the later projectors do not increase it -/
def traceErrBound (Br : ℚ) (Ba : Nat → ℚ) : List Nat → ℚ
  | [] => 0
  | i :: rest => (2 * Br + Ba i) + traceErrBound Br Ba rest

theorem traceAbs_size {c : Pack.Contract M} {ν : M → ℚ} (h : SizeFn c ν) (levels : List Nat) (x : M) :
    ν (traceAbs c levels x) ≤ ν x := by
  induction levels generalizing x with
  | nil => simp [traceAbs]
  | cons i is ih =>
    simp only [traceAbs, List.foldl_cons]
    exact (ih (Pack.P c i x)).trans (h.P_le i x)

/-- **`glwe_trace` decrypts to the partial trace within the accumulated level errors** (executed `Ks.traceLoop`) -/
theorem traceLoop_noisy (c : Pack.Contract M) (ν : M → ℚ) (hν : SizeFn c ν) (ph : Ct → M) (big128 : Bool) (keys : List Key)
    (Br : ℚ) (Ba : Nat → ℚ)
    (hrsh : ∀ x y, glweRsh 1 x = .ok y → ∃ e, ph y = c.half (ph x) + e ∧ ν e ≤ Br)
    (hauto : ∀ i x key p y, traceGalois x.n i = .ok p → keys.find? (fun k => k.p == p) = some key →
      automorphismFused .add big128 (zeroBuf x.n (x.rank + 1) key.size) x.base2k x.size x.rank x key = .ok y →
      (y.n = x.n ∧ ∃ e, ph y = ph x + c.sig i (ph x) + e ∧ ν e ≤ Ba i))
    (hn : ∀ x y, glweRsh 1 x = .ok y → y.n = x.n)
    (levels : List Nat) (x r : Ct) (h : traceLoop big128 keys x levels = .ok r) :
    ∃ err, ph r = traceAbs c levels (ph x) + err ∧ ν err ≤ traceErrBound Br Ba levels := by
  induction levels generalizing x with
  | nil =>
    simp only [traceLoop] at h
    injection h with h; subst h
    exact ⟨0, by simp [traceAbs], by simp [traceErrBound, hν.zero]⟩
  | cons i is ih =>
    simp only [traceLoop] at h
    obtain ⟨r1, h1, h⟩ := obind_ok h
    obtain ⟨p, h2, h⟩ := obind_ok h
    cases hk : keys.find? (fun k => k.p == p) with
    | none => simp [hk] at h
    | some key =>
      simp only [hk] at h
      obtain ⟨r2, h3, h⟩ := obind_ok h
      have hn1 := hn _ _ h1
      have h2' : traceGalois r1.n i = .ok p := by rw [hn1]; exact h2
      rw [← hn1] at h3
      obtain ⟨_, e2, he2, hb2⟩ := hauto i r1 key p r2 h2' hk h3
      obtain ⟨e1, he1, hb1⟩ := hrsh _ _ h1
      obtain ⟨err, herr, hberr⟩ := ih r2 h
      -- ph r2 = P_i (ph x) + (e1 + σ e1 + e2)
      have hstep : ph r2 = Pack.P c i (ph x) + (e1 + c.sig i e1 + e2) := by
        rw [he2, he1]
        unfold Pack.P
        simp only [map_add]
        abel
      refine ⟨traceAbs c is (e1 + c.sig i e1 + e2) + err, ?_, ?_⟩
      · rw [herr, hstep, traceAbs_add]
        simp only [traceAbs, List.foldl_cons]
        abel
      · have hs := traceAbs_size hν is (e1 + c.sig i e1 + e2)
        have ha := hν.add (e1 + c.sig i e1) e2
        have hb := hν.add e1 (c.sig i e1)
        have hc := hν.sig i e1
        have hd := hν.add (traceAbs c is (e1 + c.sig i e1 + e2)) err
        have hle : ν (e1 + c.sig i e1 + e2) ≤ 2 * Br + Ba i := by linarith
        simp only [traceErrBound]
        linarith

/-! ## A non-degenerate instance: the sup-norm on `Pack.model = ℚ[X]/(X²+1)` -/

/-- the sup-norm of `a + b·X ∈ ℚ[X]/(X²+1)` -/
def supNorm (p : ℚ × ℚ) : ℚ := max |p.1| |p.2|

theorem supNorm_nonneg (p : ℚ × ℚ) : 0 ≤ supNorm p := le_max_of_le_left (abs_nonneg _)

@[simp] theorem supNorm_zero : supNorm 0 = 0 := by simp [supNorm]

theorem supNorm_neg (p : ℚ × ℚ) : supNorm (-p) = supNorm p := by simp [supNorm]

theorem supNorm_add_le (p q : ℚ × ℚ) : supNorm (p + q) ≤ supNorm p + supNorm q := by
  unfold supNorm
  simp only [Prod.fst_add, Prod.snd_add]
  have h1 := abs_add_le p.1 q.1
  have h2 := abs_add_le p.2 q.2
  have a1 := le_max_left |p.1| |p.2|
  have a2 := le_max_right |p.1| |p.2|
  have a3 := le_max_left |q.1| |q.2|
  have a4 := le_max_right |q.1| |q.2|
  exact max_le (by linarith) (by linarith)

/-- halving halves the sup-norm exactly (the law `SizeFn.half` holds with equality; impossible for a non-zero `ℤ`-valued `ν`) -/
theorem supNorm_half (p : ℚ × ℚ) : 2 * supNorm (Pack.model.half p) = supNorm p := by
  show 2 * max |p.1 / 2| |p.2 / 2| = max |p.1| |p.2|
  have e1 : |p.1 / 2| = |p.1| / 2 := by rw [abs_div, abs_two]
  have e2 : |p.2 / 2| = |p.2| / 2 := by rw [abs_div, abs_two]
  rw [e1, e2]
  rcases le_total |p.1| |p.2| with h | h
  · rw [max_eq_right h, max_eq_right (by linarith)]; ring
  · rw [max_eq_left h, max_eq_left (by linarith)]; ring

/-- the conjugation `X ↦ −X` (level `0`) preserves the sup-norm; the degenerate levels `i ≥ 1` of the model are `0` -/
theorem supNorm_sig (i : Nat) (p : ℚ × ℚ) : supNorm (Pack.model.sig i p) ≤ supNorm p := by
  cases i with
  | zero =>
    show max |p.1| |-p.2| ≤ max |p.1| |p.2|
    rw [abs_neg]
  | succ i =>
    show supNorm 0 ≤ supNorm p
    rw [supNorm_zero]
    exact supNorm_nonneg p

/-- **the sup-norm of `ℚ[X]/(X²+1)` is a size function** — a non-zero one: `supNorm (1/2, -3) = 3` -/
theorem sizeFn_model_sup : SizeFn Pack.model supNorm where
  add := supNorm_add_le
  sig := supNorm_sig
  half p := (supNorm_half p).le
  nonneg := supNorm_nonneg
  zero := supNorm_zero

example : supNorm (1 / 2, -3) = 3 := by norm_num [supNorm]

/-- a non-zero rounding error of the shape of `hrsh`: `(3, 1) = (5, 3)/2 + e`, `e = (1/2, −1/2)`, `‖e‖_∞ ≤ 1/2` -/
example : ∃ e : ℚ × ℚ, e ≠ 0 ∧ ((3, 1) : ℚ × ℚ) = Pack.model.half (5, 3) + e ∧ supNorm e ≤ 1 / 2 := by
  refine ⟨(1 / 2, -1 / 2), by simp, ?_, ?_⟩
  · show ((3, 1) : ℚ × ℚ) = ((5 : ℚ) / 2, (3 : ℚ) / 2) + (1 / 2, -1 / 2)
    ext <;> norm_num
  · norm_num [supNorm]

/-- the projectors do not increase the sup-norm (`SizeFn.P_le`, `traceAbs_size` on the instance) -/
example (e : ℚ × ℚ) : supNorm (traceAbs Pack.model [0] e) ≤ supNorm e := traceAbs_size sizeFn_model_sup [0] e

/-- `traceLoop_noisy` on the instance with non-zero (and non-integer) bounds: `rsh` error `≤ 1/2`, automorphism error `≤ 3`
⇒ one trace level is within `2·(1/2) + 3 = 4` of the partial trace, in the sup-norm -/
example (ph : Ct → ℚ × ℚ) (big128 : Bool) (keys : List Key)
    (hrsh : ∀ x y, glweRsh 1 x = .ok y → ∃ e, ph y = Pack.model.half (ph x) + e ∧ supNorm e ≤ 1 / 2)
    (hauto : ∀ i x key p y, traceGalois x.n i = .ok p → keys.find? (fun k => k.p == p) = some key →
      automorphismFused .add big128 (zeroBuf x.n (x.rank + 1) key.size) x.base2k x.size x.rank x key = .ok y →
      (y.n = x.n ∧ ∃ e, ph y = ph x + Pack.model.sig i (ph x) + e ∧ supNorm e ≤ 3))
    (hn : ∀ x y, glweRsh 1 x = .ok y → y.n = x.n)
    (x r : Ct) (h : traceLoop big128 keys x [0] = .ok r) :
    ∃ err, ph r = traceAbs Pack.model [0] (ph x) + err ∧ supNorm err ≤ 4 := by
  obtain ⟨err, h1, h2⟩ := traceLoop_noisy Pack.model supNorm sizeFn_model_sup ph big128 keys (1 / 2) (fun _ => 3)
    hrsh hauto hn [0] x r h
  exact ⟨err, h1, h2.trans (by norm_num [traceErrBound])⟩

end Ks
