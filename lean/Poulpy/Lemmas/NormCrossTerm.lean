/-
C08 lemmas: the fuelled `'inner` loop of the cross-radix normalisation never runs out of fuel, hence
`normalizeCrossCoef` always returns `some` (for radices ≥ 1; no head-room needed: the counters are data
independent).
-/
import Poulpy.Lemmas.NormCross5

namespace NormL

theorem crossStep1_counters (bits ab rb : Nat) (st : CrossSt) :
    (crossStep1 bits ab rb st).stuck = st.stuck ∧ (crossStep1 bits ab rb st).done = st.done ∧
    (crossStep1 bits ab rb st).aTakeLeft = st.aTakeLeft - min ab (min st.aTakeLeft st.resAccLeft) ∧
    (crossStep1 bits ab rb st).resAccLeft = st.resAccLeft - min ab (min st.aTakeLeft st.resAccLeft) := by
  unfold crossStep1
  by_cases h : min ab (min st.aTakeLeft st.resAccLeft) ≠ 0
  · simp only [h, if_true, ne_eq, not_false_eq_true, and_self]
  · have h0 : min ab (min st.aTakeLeft st.resAccLeft) = 0 := not_not.mp h
    simp only [h0, ne_eq, not_true_eq_false, if_false, Nat.sub_zero, and_self]

theorem crossAfter_counters (bits rb aLimb : Nat) (hrb1 : 1 ≤ rb) (st1 : CrossSt) :
    (crossAfter bits rb aLimb st1).1.stuck = st1.stuck ∧
    ((crossAfter bits rb aLimb st1).2 = false →
      (crossAfter bits rb aLimb st1).1.aTakeLeft = st1.aTakeLeft ∧ st1.aTakeLeft ≠ 0 ∧
      1 ≤ (crossAfter bits rb aLimb st1).1.resAccLeft) ∧
    ((crossAfter bits rb aLimb st1).2 = true → (crossAfter bits rb aLimb st1).1.done = false →
      1 ≤ (crossAfter bits rb aLimb st1).1.resAccLeft) := by
  unfold crossAfter
  by_cases h1 : st1.resAccLeft = 0 ∨ aLimb = 0
  · rw [if_pos h1]
    by_cases h2 : aLimb = 0 ∧ st1.aTakeLeft = 0
    · rw [if_pos h2]
      simp
    · rw [if_neg h2]
      by_cases h3 : st1.resLimb = 0
      · rw [if_pos h3]
        simp
      · rw [if_neg h3]
        by_cases h4 : st1.aTakeLeft = 0
        · simp only [h4, if_true]
          refine ⟨trivial, fun h => by simp at h, fun _ _ => by omega⟩
        · simp only [h4, if_false]
          refine ⟨trivial, fun _ => ⟨trivial, h4, by omega⟩, fun h => by simp at h⟩
  · rw [if_neg h1]
    have h1' : st1.resAccLeft ≠ 0 := fun h => h1 (Or.inl h)
    by_cases h4 : st1.aTakeLeft = 0
    · rw [if_pos h4]
      refine ⟨rfl, fun h => by simp at h, fun _ _ => by simp only; omega⟩
    · rw [if_neg h4]
      refine ⟨rfl, fun _ => ⟨rfl, h4, by simp only; omega⟩, fun h => by simp at h⟩

/-- the inner loop: with `1 ≤ resAccLeft` and `aTakeLeft < fuel` the fuel is never exhausted -/
theorem crossInner_not_stuck (bits ab rb aLimb : Nat) (hab1 : 1 ≤ ab) (hrb1 : 1 ≤ rb) :
    ∀ (fuel : Nat) (st : CrossSt), 1 ≤ st.resAccLeft → st.aTakeLeft < fuel → st.stuck = false →
      (crossInner bits ab rb aLimb fuel st).stuck = false ∧
      ((crossInner bits ab rb aLimb fuel st).done = false → 1 ≤ (crossInner bits ab rb aLimb fuel st).resAccLeft) := by
  intro fuel
  induction fuel with
  | zero => intro st _ h; omega
  | succ fuel ih =>
    intro st hra hat hns
    unfold crossInner
    simp only
    rw [crossInnerBody_eq]
    obtain ⟨s1, s2, s3, s4⟩ := crossStep1_counters bits ab rb st
    obtain ⟨a1, a2, a3⟩ := crossAfter_counters bits rb aLimb hrb1 (crossStep1 bits ab rb st)
    generalize crossStep1 bits ab rb st = st1 at s1 s2 s3 s4 a1 a2 a3
    generalize hr : crossAfter bits rb aLimb st1 = r at a1 a2 a3
    obtain ⟨r1, r2⟩ := r
    simp only at a1 a2 a3 ⊢
    cases r2 with
    | true =>
      simp only [if_true]
      exact ⟨by rw [a1, s1, hns], a3 rfl⟩
    | false =>
      simp only [Bool.false_eq_true, if_false]
      obtain ⟨b1, b2, b3⟩ := a2 rfl
      apply ih r1 b3 _ (by rw [a1, s1, hns])
      rw [b1, s3]
      have : 1 ≤ min ab (min st.aTakeLeft st.resAccLeft) := by
        rcases Nat.eq_zero_or_pos st.aTakeLeft with h0 | h0
        · rw [s3, h0] at b2; simp at b2
        · simp only [Nat.le_min]; omega
      omega

/-- one pass of the outer loop keeps "not stuck" and "1 ≤ resAccLeft unless done" -/
theorem crossOuterBody_not_stuck (bits ab rb lsh : Nat) (a : List Int) (aStart take pad : Nat)
    (hab1 : 1 ≤ ab) (hrb1 : 1 ≤ rb) (st : CrossSt) (j : Nat)
    (hns : st.stuck = false) (hra : st.done = false → 1 ≤ st.resAccLeft ∧ (j = 0 → pad < st.resAccLeft)) :
    (crossOuterBody bits ab rb lsh a aStart take pad st j).stuck = false ∧
    ((crossOuterBody bits ab rb lsh a aStart take pad st j).done = false →
      1 ≤ (crossOuterBody bits ab rb lsh a aStart take pad st j).resAccLeft) := by
  unfold crossOuterBody
  cases hd : st.done with
  | true =>
    simp only [if_true]
    exact ⟨hns, fun h => by rw [hd] at h; cases h⟩
  | false =>
    simp only [Bool.false_eq_true, if_false]
    obtain ⟨hra1, hra2⟩ := hra hd
    apply crossInner_not_stuck bits ab rb _ hab1 hrb1
    · by_cases hj : j = 0
      · have hra3 := hra2 hj
        by_cases ht : take ≠ 0
        · simp only [hj, ht, if_true, ne_eq, not_false_eq_true]; omega
        · by_cases hp : pad ≠ 0
          · simp only [hj, ht, hp, if_true, if_false, ne_eq, not_false_eq_true]; omega
          · simp only [hj, ht, hp, if_true, if_false]; omega
      · simp only [hj, if_false]; omega
    · by_cases hj : j = 0
      · by_cases ht : take ≠ 0
        · simp only [hj, ht, if_true, ne_eq, not_false_eq_true]; omega
        · by_cases hp : pad ≠ 0
          · simp only [hj, ht, hp, if_true, if_false, ne_eq, not_false_eq_true]; omega
          · simp only [hj, ht, hp, if_true, if_false]; omega
      · simp only [hj, if_false]; omega
    · by_cases hj : j = 0
      · by_cases ht : take ≠ 0
        · simp only [hj, ht, if_true, ne_eq, not_false_eq_true]; exact hns
        · by_cases hp : pad ≠ 0
          · simp only [hj, ht, hp, if_true, if_false, ne_eq, not_false_eq_true]; exact hns
          · simp only [hj, ht, hp, if_true, if_false]; exact hns
      · simp only [hj, if_false]; exact hns


theorem crossOuter_fold_not_stuck (bits ab rb rs lsh : Nat) (a : List Int) (aStart take pad resStart : Nat) (c0 : Int)
    (hab1 : 1 ≤ ab) (hrb1 : 1 ≤ rb) (hpad : pad < rb) (n : Nat) :
    ((List.range n).foldl (crossOuterBody bits ab rb lsh a aStart take pad) (crossSt0 rb rs resStart ab c0)).stuck = false ∧
    (((List.range n).foldl (crossOuterBody bits ab rb lsh a aStart take pad) (crossSt0 rb rs resStart ab c0)).done = false →
      1 ≤ ((List.range n).foldl (crossOuterBody bits ab rb lsh a aStart take pad) (crossSt0 rb rs resStart ab c0)).resAccLeft ∧
      (n = 0 → pad < ((List.range n).foldl (crossOuterBody bits ab rb lsh a aStart take pad)
        (crossSt0 rb rs resStart ab c0)).resAccLeft)) := by
  induction n with
  | zero =>
    simp only [List.range_zero, List.foldl_nil, crossSt0]
    exact ⟨trivial, fun _ => ⟨hrb1, fun _ => hpad⟩⟩
  | succ n ih =>
    rw [List.range_succ, List.foldl_append]
    simp only [List.foldl_cons, List.foldl_nil]
    obtain ⟨h1, h2⟩ := crossOuterBody_not_stuck bits ab rb lsh a aStart take pad hab1 hrb1 _ n ih.1 ih.2
    exact ⟨h1, fun hd => ⟨h2 hd, fun h => by omega⟩⟩

/-- the post-clamp part of the routine always returns -/
theorem crossCore_isSome (bits ab rb rs lsh : Nat) (a : List Int) (aStart aEnd take pad resStart resEnd : Nat) (c0 : Int)
    (hab1 : 1 ≤ ab) (hrb1 : 1 ≤ rb) (hpad : pad < rb) :
    (crossCore bits ab rb rs lsh a aStart aEnd take pad resStart resEnd c0).isSome = true := by
  unfold crossCore
  have h := (crossOuter_fold_not_stuck bits ab rb rs lsh a aStart take pad resStart c0 hab1 hrb1 hpad (aStart - aEnd)).1
  simp only [h, Bool.false_eq_true, if_false]
  by_cases hre : resEnd ≠ 0
  · rw [if_pos hre]; rfl
  · rw [if_neg hre]; rfl

/-- **`vec_znx_normalize_cross_base2k` / `ntt120_vec_znx_big_normalize_cross` always return** (the model's
inner-loop fuel `ab + 2` is never exhausted), for all radices `≥ 1`, sizes, offsets and inputs -/
theorem normalizeCrossCoef_isSome (bits rb rs : Nat) (off : Int) (ab : Nat) (a : List Int) (hab1 : 1 ≤ ab) (hrb1 : 1 ≤ rb) :
    (normalizeCrossCoef bits rb rs off ab a).isSome = true := by
  rw [normalizeCrossCoef_core]
  simp only
  split
  · rfl
  · exact crossCore_isSome _ _ _ _ _ _ _ _ _ _ _ _ _ hab1 hrb1 (Nat.mod_lt _ (by omega))

theorem normalizeCrossCoef_exists (bits rb rs : Nat) (off : Int) (ab : Nat) (a : List Int) (hab1 : 1 ≤ ab) (hrb1 : 1 ≤ rb) :
    ∃ out, normalizeCrossCoef bits rb rs off ab a = some out :=
  Option.isSome_iff_exists.mp (normalizeCrossCoef_isSome bits rb rs off ab a hab1 hrb1)

end NormL
