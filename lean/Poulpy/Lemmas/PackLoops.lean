import Poulpy.Lemmas.PackValue
import Poulpy.Lemmas.PackPhase

/-!
The **executed loops** of ring packing (`Ks.packLevel`, `Ks.packLevels`, `Ks.pack`, and the streaming packer
`Ks.packCore`, `Ks.packerAdd`, `Ks.packerFlush`, `Ks.packerRun` of `Model/Core/Pack.lean`) identified with the abstract
merge trees of `Lemmas/PackAlg.lean` (`Pack.after`, `Pack.packerVal`), by induction over the loops, under the
ideal-operation contract `Ks.IdealOps` of `Lemmas/PackPhase.lean` (plus `ph`-preservation of the entry / exit
`glwe_copy` / `glwe_normalize` for the packer, and the trace contract for `glwe_pack`).  With these the value
statements `Pack.pack_value_decomp_subset` / `Pack.packer_value_subset` become statements about the executed model
(`pack_executed_value`, `packer_executed_value`).
-/

namespace Ks
open Hal Core

variable {M : Type*} [AddCommGroup M]

/-! ## Part A — `glwe_pack` -/

/-! ### A1. slot maps and their phases -/

/-- the phase of an optional ciphertext: absent = `0` -/
def optPh (ph : Ct → M) (a : Option Ct) : M := (a.map ph).getD 0

@[simp] theorem optPh_none (ph : Ct → M) : optPh ph none = 0 := rfl
@[simp] theorem optPh_some (ph : Ct → M) (a : Ct) : optPh ph (some a) = ph a := rfl

/-- the phase of slot `j` of a slot map: absent slot = `0` -/
def phMap (ph : Ct → M) (m : SlotMap) (j : Nat) : M := ((SlotMap.get m j).map ph).getD 0

theorem phMap_eq_optPh (ph : Ct → M) (m : SlotMap) (j : Nat) : phMap ph m j = optPh ph (m.get j) := rfl

theorem SlotMap.get_remove (m : SlotMap) (j k : Nat) :
    (m.remove j).get k = if k = j then none else m.get k := by
  unfold SlotMap.get SlotMap.remove
  rw [List.find?_filter]
  by_cases hk : k = j
  · subst hk
    simp
  · rw [if_neg hk]
    congr 2
    funext p
    by_cases hp : p.1 = k
    · simp [hp, hk]
    · simp [hp]

theorem SlotMap.get_remove_self (m : SlotMap) (j : Nat) : (m.remove j).get j = none := by
  rw [SlotMap.get_remove, if_pos rfl]

theorem SlotMap.get_remove_ne (m : SlotMap) {j k : Nat} (h : k ≠ j) : (m.remove j).get k = m.get k := by
  rw [SlotMap.get_remove, if_neg h]

theorem SlotMap.get_insert (m : SlotMap) (j k : Nat) (c : Ct) :
    (m.insert j c).get k = if k = j then some c else m.get k := by
  by_cases hk : k = j
  · subst hk
    simp [SlotMap.insert, SlotMap.get]
  · rw [if_neg hk, ← SlotMap.get_remove_ne m hk]
    have : ¬ j = k := fun h => hk h.symm
    simp [SlotMap.insert, SlotMap.get, this]

theorem SlotMap.get_insert_self (m : SlotMap) (j : Nat) (c : Ct) : (m.insert j c).get j = some c := by
  rw [SlotMap.get_insert, if_pos rfl]

theorem SlotMap.get_insert_ne (m : SlotMap) {j k : Nat} (c : Ct) (h : k ≠ j) : (m.insert j c).get k = m.get k := by
  rw [SlotMap.get_insert, if_neg h]

/-- a present slot is an entry of the association list -/
theorem SlotMap.get_some_mem (m : SlotMap) (j : Nat) (x : Ct) (h : m.get j = some x) : ∃ p ∈ m, p.1 = j := by
  unfold SlotMap.get at h
  cases hf : m.find? (fun p => p.1 == j) with
  | none => rw [hf] at h; simp at h
  | some p =>
    refine ⟨p, List.mem_of_find?_eq_some hf, ?_⟩
    have := List.find?_some hf
    simpa using this

/-! ### A2. one level of `glwe_pack` -/

theorem merge_zero_zero (c : Pack.Contract M) (i : Nat) : Pack.merge c i (0 : M) 0 = 0 := by
  unfold Pack.merge
  rw [Pack.P_zero, map_zero, add_zero]

/-- `mergeStep` returns "absent" only when both operands are absent -/
theorem mergeStep_none (big128 : Bool) (N i : Nat) (key : Key) (a b : Option Ct) (sh : Ct)
    (h : mergeStep big128 N i key a b sh = .ok none) : a = none ∧ b = none := by
  cases a with
  | some a =>
    exfalso
    cases b with
    | some b =>
      simp only [mergeStep] at h
      obtain ⟨_, _, h⟩ := obind_ok h
      obtain ⟨_, _, h⟩ := obind_ok h
      obtain ⟨_, _, h⟩ := obind_ok h
      obtain ⟨_, _, h⟩ := obind_ok h
      obtain ⟨_, _, h⟩ := obind_ok h
      obtain ⟨_, _, h⟩ := obind_ok h
      obtain ⟨_, _, h⟩ := obind_ok h
      obtain ⟨_, _, h⟩ := obind_ok h
      obtain ⟨_, _, h⟩ := obind_ok h
      obtain ⟨_, _, h⟩ := obind_ok h
      injection h with h
      cases h
    | none =>
      simp only [mergeStep] at h
      obtain ⟨_, _, h⟩ := obind_ok h
      obtain ⟨_, _, h⟩ := obind_ok h
      injection h with h
      cases h
  | none =>
    cases b with
    | some b =>
      exfalso
      simp only [mergeStep] at h
      obtain ⟨_, _, h⟩ := obind_ok h
      obtain ⟨_, _, h⟩ := obind_ok h
      obtain ⟨_, _, h⟩ := obind_ok h
      injection h with h
      cases h
    | none => exact ⟨rfl, rfl⟩

/-- `mergeStep_phase` including the all-absent case: the (optional) result has phase `Pack.merge` of the operand
phases, and it is present iff one operand is -/
theorem mergeStep_optPh (c : Pack.Contract M) (ph : Ct → M) (N : Nat) (big128 : Bool) (keyOf : Nat → Key)
    (H : IdealOps c ph N big128 keyOf) (i : Nat) (ht : c.t i = ((2 ^ (log2Nat N - i - 1) : Nat) : Int))
    (a b : Option Ct) (sh : Ct) (r : Option Ct) (h : mergeStep big128 N i (keyOf i) a b sh = .ok r) :
    optPh ph r = Pack.merge c i (optPh ph a) (optPh ph b) ∧ r.isSome = (a.isSome || b.isSome) := by
  cases r with
  | none =>
    obtain ⟨ha, hb⟩ := mergeStep_none big128 N i (keyOf i) a b sh h
    subst ha hb
    simp [merge_zero_zero]
  | some r =>
    have hab : a.isSome ∨ b.isSome := by
      cases a with
      | some a => exact Or.inl rfl
      | none =>
        cases b with
        | some b => exact Or.inr rfl
        | none =>
          simp only [mergeStep] at h
          injection h with h
          cases h
    refine ⟨mergeStep_phase c ph N big128 keyOf H i ht a b sh r hab h, ?_⟩
    rcases hab with h1 | h1 <;> simp [h1]

/-- **one level of `glwe_pack`** (the loop `for j in js`, `js` distinct indices `< t`): slot `j ∈ js` becomes the
merge of the slots `j` and `j + t`, the slots `j + t` are consumed, every other slot is untouched -/
theorem packLevel_phase (c : Pack.Contract M) (ph : Ct → M) (N : Nat) (big128 : Bool) (keyOf : Nat → Key)
    (H : IdealOps c ph N big128 keyOf) (i t : Nat) (ht : c.t i = ((2 ^ (log2Nat N - i - 1) : Nat) : Int))
    (js : List Nat) (hnd : js.Nodup) (hlt : ∀ j ∈ js, j < t) (m m' : SlotMap)
    (h : packLevel big128 N i t (keyOf i) js m = .ok m') :
    (∀ j ∈ js, phMap ph m' j = Pack.merge c i (phMap ph m j) (phMap ph m (j + t))) ∧
    (∀ j ∈ js, m'.get (j + t) = none) ∧
    (∀ k, k ∉ js → (∀ j ∈ js, k ≠ j + t) → m'.get k = m.get k) := by
  induction js generalizing m with
  | nil =>
    simp only [packLevel] at h
    injection h with h
    subst h
    simp
  | cons j js ih =>
    simp only [packLevel] at h
    obtain ⟨r, hr, h⟩ := obind_ok h
    have hjt : j < t := hlt j List.mem_cons_self
    obtain ⟨hjn, hnd'⟩ := List.nodup_cons.mp hnd
    have hlt' : ∀ x ∈ js, x < t := fun x hx => hlt x (List.mem_cons_of_mem _ hx)
    obtain ⟨hmr, -⟩ := mergeStep_optPh c ph N big128 keyOf H i ht _ _ _ r hr
    -- the map handed to the rest of the loop
    have g2 : ∃ m2 : SlotMap, packLevel big128 N i t (keyOf i) js m2 = .ok m' ∧
        ∀ k, m2.get k = if k = j then r else if k = j + t then none else m.get k := by
      cases r with
      | some c =>
        refine ⟨((m.remove j).remove (j + t)).insert j c, h, fun k => ?_⟩
        simp only [SlotMap.get_insert, SlotMap.get_remove]
        by_cases h1 : k = j
        · simp [h1]
        · by_cases h2 : k = j + t <;> simp [h1, h2]
      | none =>
        refine ⟨(m.remove j).remove (j + t), h, fun k => ?_⟩
        simp only [SlotMap.get_remove]
        by_cases h1 : k = j
        · simp [h1]
        · by_cases h2 : k = j + t <;> simp [h1, h2]
    obtain ⟨m2, h2, g2⟩ := g2
    obtain ⟨I1, I2, I3⟩ := ih hnd' hlt' m2 h2
    have hj' : ∀ x ∈ js, j ≠ x + t := fun x _ => by omega
    refine ⟨?_, ?_, ?_⟩
    · intro x hx
      rcases List.mem_cons.mp hx with hx | hx
      · subst hx
        rw [phMap_eq_optPh, I3 x hjn hj', g2, if_pos rfl]
        exact hmr
      · have hxt := hlt' x hx
        have hxj : x ≠ j := fun e => hjn (e ▸ hx)
        rw [I1 x hx, phMap_eq_optPh, phMap_eq_optPh, g2, g2, phMap_eq_optPh, phMap_eq_optPh,
          if_neg hxj, if_neg (by omega), if_neg (by omega), if_neg (by omega)]
    · intro x hx
      rcases List.mem_cons.mp hx with hx | hx
      · subst hx
        rw [I3 (x + t) (fun hm => by have := hlt' _ hm; omega)
          (fun y hy e => hjn (by have : x = y := by omega
                                 exact this ▸ hy)), g2, if_neg (by omega), if_pos rfl]
      · exact I2 x hx
    · intro k hk hk'
      have hkj : k ≠ j := fun e => hk (e ▸ List.mem_cons_self)
      have hkjt : k ≠ j + t := hk' j List.mem_cons_self
      rw [I3 k (fun hm => hk (List.mem_cons_of_mem _ hm)) (fun y hy => hk' y (List.mem_cons_of_mem _ hy)), g2,
        if_neg hkj, if_neg hkjt]

/-! ### A3. the loop over the levels -/

theorem obind_assoc {α β γ : Type} (x : Outcome α) (f : α → Outcome β) (g : β → Outcome γ) :
    obind (obind x f) g = obind x (fun v => obind (f v) g) := by
  cases x <;> rfl

theorem packLevels_append (big128 : Bool) (N : Nat) (keys : List Key) (l₁ l₂ : List Nat) (m : SlotMap) :
    packLevels big128 N keys (l₁ ++ l₂) m
      = obind (packLevels big128 N keys l₁ m) (packLevels big128 N keys l₂) := by
  induction l₁ generalizing m with
  | nil => rfl
  | cons i is ih =>
    simp only [List.cons_append, packLevels, obind_assoc]
    congr 1
    funext key
    congr 1
    funext m1
    exact ih m1

/-- **the `L` first levels of `glwe_pack`**: the executed slot map is the abstract tree `Pack.after` on the slots
`j < 2^(K-L)`, and all the other slots have been consumed.  Index distance of level `i`: `2^(K-1-i)`. -/
theorem packLevels_phase (c : Pack.Contract M) (ph : Ct → M) (N : Nat) (big128 : Bool) (keyOf : Nat → Key)
    (H : IdealOps c ph N big128 keyOf) (keys : List Key) (K : Nat) (hK : log2Nat N = K) (L : Nat) (hL : L ≤ K)
    (ht : ∀ i, i < L → c.t i = ((2 ^ (K - i - 1) : Nat) : Int))
    (hkey : ∀ i, i < L → levelKey N keys i = .ok (keyOf i))
    (m m' : SlotMap) (hm : ∀ j, 2 ^ K ≤ j → m.get j = none)
    (h : packLevels big128 N keys (List.range L) m = .ok m') :
    (∀ j, j < 2 ^ (K - L) → phMap ph m' j = Pack.after c (fun i => 2 ^ (K - 1 - i)) (phMap ph m) L j) ∧
    (∀ j, 2 ^ (K - L) ≤ j → m'.get j = none) := by
  subst hK
  induction L generalizing m' with
  | zero =>
    simp only [List.range_zero, packLevels] at h
    injection h with h
    subst h
    exact ⟨fun j _ => rfl, fun j hj => hm j hj⟩
  | succ L ih =>
    rw [List.range_succ, packLevels_append] at h
    obtain ⟨m1, h1, h⟩ := obind_ok h
    obtain ⟨J1, J2⟩ := ih (hL := Nat.le_of_succ_le hL) (ht := fun i hi => ht i (Nat.lt_succ_of_lt hi))
      (hkey := fun i hi => hkey i (Nat.lt_succ_of_lt hi)) m1 h1
    simp only [packLevels] at h
    rw [hkey L (Nat.lt_succ_self L)] at h
    obtain ⟨key, hk, h⟩ := obind_ok h
    injection hk with hk
    subst hk
    obtain ⟨m2, h2, h⟩ := obind_ok h
    injection h with h
    subst h
    have hLK : L < log2Nat N := hL
    have e2 : 2 ^ (log2Nat N - L) = 2 ^ (log2Nat N - 1 - L) + 2 ^ (log2Nat N - 1 - L) := by
      have : log2Nat N - L = (log2Nat N - 1 - L) + 1 := by omega
      rw [this, pow_succ]
      omega
    have e3 : log2Nat N - (L + 1) = log2Nat N - 1 - L := by omega
    have htL : c.t L = ((2 ^ (log2Nat N - L - 1) : Nat) : Int) := ht L (Nat.lt_succ_self L)
    obtain ⟨P1, P2, P3⟩ := packLevel_phase c ph N big128 keyOf H L (2 ^ (log2Nat N - 1 - L)) htL
      (List.range (2 ^ (log2Nat N - 1 - L))) List.nodup_range (fun j hj => List.mem_range.mp hj) m1 m2 h2
    rw [e3]
    refine ⟨fun j hj => ?_, fun j hj => ?_⟩
    · rw [P1 j (List.mem_range.mpr hj), J1 j (by omega), J1 (j + 2 ^ (log2Nat N - 1 - L)) (by omega)]
      rfl
    · by_cases hj2 : j < 2 ^ (log2Nat N - L)
      · have := P2 (j - 2 ^ (log2Nat N - 1 - L)) (List.mem_range.mpr (by omega))
        rwa [Nat.sub_add_cancel hj] at this
      · rw [P3 j (fun hmem => by have := List.mem_range.mp hmem; omega)
          (fun y hy => by have := List.mem_range.mp hy; omega)]
        exact J2 j (by omega)

/-! ### A4. `glwe_pack` -/

/-- the input check of `glwe_pack` (`a.keys().max() < N`) bounds the present slots -/
theorem SlotMap.get_none_of_any (m : SlotMap) (N : Nat) (h : m.any (fun p => decide (p.1 ≥ N)) = false) (j : Nat)
    (hj : N ≤ j) : m.get j = none := by
  cases hg : m.get j with
  | none => rfl
  | some x =>
    obtain ⟨p, hp, hpj⟩ := SlotMap.get_some_mem m j x hg
    have := List.any_eq_false.mp h p hp
    simp at this
    omega

theorem glweNormalize_shape (b s : Nat) (x y : Ct) (h : glweNormalize b s x = .ok y) : y.n = x.n ∧ y.base2k = b := by
  unfold glweNormalize at h
  obtain ⟨cs, _, h⟩ := obind_ok h
  injection h with h
  subst h
  exact ⟨rfl, rfl⟩

/-- **`glwe_trace(res, skip, a, keys)`, executed** (`Ks.trace`): entry copy / normalize into the key radix, the loop
`traceLoop` over the levels `skip … K-1` (`traceLoop_phase`), exit copy / normalize.  `ph` = phase of the input,
`phK` = phase in the key radix (the loop), `phOut` = phase of the result; the copies / normalizations preserve it.
This is the hypothesis `htrace` of `pack_executed_phase` for an input of ring degree `x.n` with `log2 x.n = K`. -/
theorem trace_phase (c : Pack.Contract M) (ph phK phOut : Ct → M) (big128 : Bool) (keys : List Key)
    (keyBase2k skip rb rs K : Nat)
    (hrsh : ∀ x y, glweRsh 1 x = .ok y → phK y = c.half (phK x))
    (hauto : ∀ i x key p y, traceGalois x.n i = .ok p → keys.find? (fun k => k.p == p) = some key →
      automorphismFused .add big128 (zeroBuf x.n (x.rank + 1) key.size) x.base2k x.size x.rank x key = .ok y →
      (y.n = x.n ∧ phK y = phK x + c.sig i (phK x)))
    (hn : ∀ x y, glweRsh 1 x = .ok y → y.n = x.n)
    (hinC : ∀ b s x, phK (glweCopy b s x) = ph x)
    (hinN : ∀ b s x y, glweNormalize b s x = .ok y → phK y = ph x)
    (houtC : ∀ b s x, phOut (glweCopy b s x) = phK x)
    (houtN : ∀ b s x y, glweNormalize b s x = .ok y → phOut y = phK x)
    (x r : Ct) (hxn : log2Nat x.n = K) (h : trace big128 keyBase2k keys skip rb rs x = .ok r) :
    phOut r = traceAbs c (List.range' skip (K - skip)) (ph x) := by
  unfold trace at h
  simp only at h
  obtain ⟨tmp, h1, h⟩ := obind_ok h
  obtain ⟨t, h2, h⟩ := obind_ok h
  have htmp : phK tmp = ph x ∧ tmp.n = x.n ∧ tmp.base2k = keyBase2k := by
    split at h1
    · injection h1 with h1
      subst h1
      exact ⟨hinC _ _ _, rfl, rfl⟩
    · exact ⟨hinN _ _ _ _ h1, (glweNormalize_shape _ _ _ _ h1).1, (glweNormalize_shape _ _ _ _ h1).2⟩
  obtain ⟨t1, t2, t3⟩ := htmp
  unfold traceAssign at h2
  simp only at h2
  split at h2
  · simp at h2
  · split at h2
    · simp at h2
    · rw [if_neg (fun hne => hne t3), t2, hxn] at h2
      have ht : phK t = traceAbs c (List.range' skip (K - skip)) (ph x) := by
        rw [traceLoop_phase c phK big128 keys hrsh hauto hn _ tmp t h2, t1, List.range'_eq_map_range]
      rw [← ht]
      split at h
      · injection h with h
        subst h
        exact houtC _ _ _
      · exact houtN _ _ _ _ h

/-- **`glwe_pack`, executed**: the phase of the result is the abstract trace over the levels `L … K-1` of the
abstract packing tree `Pack.after … L 0` over the input phases (`L = K − log_gap_out`).  `htrace` is the phase
contract of `glwe_trace` (`Ks.trace`; its loop is `traceLoop_phase`). -/
theorem pack_executed_phase (c : Pack.Contract M) (ph phOut : Ct → M) (N : Nat) (big128 : Bool) (keyOf : Nat → Key)
    (H : IdealOps c ph N big128 keyOf) (keyBase2k : Nat) (keys : List Key) (rb rs : Nat) (K : Nat)
    (hK : log2Nat N = K) (hN : N = 2 ^ K) (logGapOut : Nat)
    (ht : ∀ i, i < K - logGapOut → c.t i = ((2 ^ (K - i - 1) : Nat) : Int))
    (hkey : ∀ i, i < K - logGapOut → levelKey N keys i = .ok (keyOf i))
    (htrace : ∀ x r, trace big128 keyBase2k keys (K - logGapOut) rb rs x = .ok r →
      phOut r = traceAbs c (List.range' (K - logGapOut) (K - (K - logGapOut))) (ph x))
    (a : SlotMap) (res : Ct) (h : pack big128 N keyBase2k keys rb rs a logGapOut = .ok res) :
    phOut res = traceAbs c (List.range' (K - logGapOut) (K - (K - logGapOut)))
      (Pack.after c (fun i => 2 ^ (K - 1 - i)) (phMap ph a) (K - logGapOut) 0) := by
  unfold pack at h
  cases a with
  | nil => simp at h
  | cons p a =>
    simp only at h
    split at h
    · simp at h
    · rename_i hany
      rw [hK] at h
      obtain ⟨m, hm, h⟩ := obind_ok h
      have hb : ∀ j, 2 ^ K ≤ j → SlotMap.get (p :: a) j = none := fun j hj =>
        SlotMap.get_none_of_any (p :: a) N (by simpa using hany) j (hN ▸ hj)
      obtain ⟨J1, -⟩ := packLevels_phase c ph N big128 keyOf H keys K hK (K - logGapOut) (Nat.sub_le _ _) ht hkey
        (p :: a) m hb hm
      cases h0 : m.get 0 with
      | none => rw [h0] at h; simp at h
      | some a0 =>
        rw [h0] at h
        rw [htrace a0 res h, ← J1 0 (Nat.pos_of_ne_zero (by positivity)), phMap, h0]
        rfl

/-- **`glwe_pack`, executed value, any subset of slots**: inputs `ph (a J) = u J + w J` (absent slots: `0`), `u J`
fixed by every level, `w J` killed by the full projector ⇒ the executed result has phase
`∑ m ∈ S, X^{off m} · u (off m)`. -/
theorem pack_executed_value (c : Pack.Contract M) (ph phOut : Ct → M) (N : Nat) (big128 : Bool) (keyOf : Nat → Key)
    (H : IdealOps c ph N big128 keyOf) (keyBase2k : Nat) (keys : List Key) (rb rs : Nat) (K : Nat)
    (hK : log2Nat N = K) (hN : N = 2 ^ K) (logGapOut : Nat)
    (ht : ∀ i, i < K - logGapOut → c.t i = ((2 ^ (K - i - 1) : Nat) : Int))
    (hkey : ∀ i, i < K - logGapOut → levelKey N keys i = .ok (keyOf i))
    (htrace : ∀ x r, trace big128 keyBase2k keys (K - logGapOut) rb rs x = .ok r →
      phOut r = traceAbs c (List.range' (K - logGapOut) (K - (K - logGapOut))) (ph x))
    (a : SlotMap) (res : Ct) (h : pack big128 N keyBase2k keys rb rs a logGapOut = .ok res)
    (u w : Nat → M) (hf : ∀ J, phMap ph a J = u J + w J)
    (hu : ∀ J i, i < K → c.sig i (u J) = u J)
    (hw : ∀ J, traceAbs c (List.range K) (w J) = 0)
    (S : Finset Nat) (hS : S ⊆ Finset.range (2 ^ (K - logGapOut)))
    (habs : ∀ m ∈ Finset.range (2 ^ (K - logGapOut)), m ∉ S →
      u (Pack.idxOff (fun i => 2 ^ (K - 1 - i)) (K - logGapOut) m) = 0) :
    phOut res = ∑ m ∈ S, c.rot (Pack.idxOff (fun i => 2 ^ (K - 1 - i)) (K - logGapOut) m : ℤ)
      (u (Pack.idxOff (fun i => 2 ^ (K - 1 - i)) (K - logGapOut) m)) := by
  rw [pack_executed_phase c ph phOut N big128 keyOf H keyBase2k keys rb rs K hK hN logGapOut ht hkey htrace a res h]
  refine Pack.pack_value_decomp_subset c _ (phMap ph a) u w (Nat.sub_le _ _) (fun i hi => ?_) hf hu hw S hS habs
  rw [ht i hi]
  have : K - 1 - i = K - i - 1 := by omega
  rw [this]

/-! ## Part B — the streaming packer -/

/-! ### B1. `combine` and `pack_core`: the accumulator chain is a binary counter -/

/-- the phase held by an accumulator: `value = false` (an all-absent block) counts as `0` -/
def accPh (ph : Ct → M) (acc : Acc) : M := if acc.value then ph acc.data else 0

/-- the abstract value of the block of `2^q` arrivals `start, …, start + 2^q − 1` entering at level `lb` -/
def blk (c : Pack.Contract M) (lb : Nat) (g : Nat → M) (q start : Nat) : M :=
  Pack.after (Pack.shift c lb) (fun i => 2 ^ i) g q start

theorem blk_zero (c : Pack.Contract M) (lb : Nat) (g : Nat → M) (start : Nat) : blk c lb g 0 start = g start := rfl

theorem blk_succ (c : Pack.Contract M) (lb : Nat) (g : Nat → M) (q start : Nat) :
    blk c lb g (q + 1) start = Pack.merge c (lb + q) (blk c lb g q start) (blk c lb g q (start + 2 ^ q)) := rfl

theorem packerVal_eq_blk (c : Pack.Contract M) (lb : Nat) (g : Nat → M) (m : Nat) :
    Pack.packerVal c lb g m = blk c lb g m 0 := rfl

/-- is some arrival of the block `start, …, start + 2^q − 1` present? (the `value` flag of the accumulators) -/
def presAfter (p : Nat → Bool) : Nat → Nat → Bool
  | 0, j => p j
  | q + 1, j => presAfter p q j || presAfter p q (j + 2 ^ q)

theorem presAfter_of_present (p : Nat → Bool) (q j k : Nat) (hk : k < 2 ^ q) (hp : p (j + k) = true) :
    presAfter p q j = true := by
  induction q generalizing j k with
  | zero =>
    have : k = 0 := by simpa using hk
    subst this
    simpa [presAfter] using hp
  | succ q ih =>
    simp only [presAfter, Bool.or_eq_true]
    by_cases h1 : k < 2 ^ q
    · exact Or.inl (ih j k h1 hp)
    · refine Or.inr (ih (j + 2 ^ q) (k - 2 ^ q) (by rw [pow_succ] at hk; omega) ?_)
      have : j + 2 ^ q + (k - 2 ^ q) = j + k := by omega
      rw [this]
      exact hp

/-- `combine(acc, b, i)`: the accumulator phase becomes the merge with the incoming phase; the `value` flag is the
disjunction of the presences -/
theorem combine_phase (c : Pack.Contract M) (ph : Ct → M) (N : Nat) (big128 : Bool) (keyOf : Nat → Key)
    (H : IdealOps c ph N big128 keyOf) (keys : List Key) (i : Nat)
    (ht : c.t i = ((2 ^ (log2Nat N - i - 1) : Nat) : Int)) (hkey : levelKey N keys i = .ok (keyOf i))
    (acc : Acc) (b : Option Ct) (acc1 : Acc) (h : combine big128 N keys acc b i = .ok acc1) :
    accPh ph acc1 = Pack.merge c i (accPh ph acc) (optPh ph b) ∧ acc1.value = (acc.value || b.isSome) ∧
      acc1.control = acc.control := by
  unfold combine at h
  cases hv : acc.value with
  | true =>
    rw [hv] at h
    have key : ∀ b : Option Ct, (obind (levelKey N keys i) fun key =>
        obind (mergeStep big128 N i key (some acc.data) b acc.data) fun r =>
          Outcome.ok { data := r.getD acc.data, value := true, control := acc.control }) = .ok acc1 →
        accPh ph acc1 = Pack.merge c i (accPh ph acc) (optPh ph b) ∧ acc1.value = (true || b.isSome) ∧
          acc1.control = acc.control := by
      intro b h
      rw [hkey] at h
      obtain ⟨k, hk, h⟩ := obind_ok h
      injection hk with hk
      subst hk
      obtain ⟨r, hr, h⟩ := obind_ok h
      injection h with h
      subst h
      obtain ⟨h1, h2⟩ := mergeStep_optPh c ph N big128 keyOf H i ht _ _ _ r hr
      cases r with
      | none => simp at h2
      | some r' =>
        refine ⟨?_, by simp, rfl⟩
        simp only [accPh, hv, if_true, Option.getD_some]
        exact h1
    cases b with
    | some x => exact key (some x) (by simpa using h)
    | none => exact key none (by simpa using h)
  | false =>
    rw [hv] at h
    cases b with
    | some x =>
      simp only [Bool.false_eq_true, if_false] at h
      rw [hkey] at h
      obtain ⟨k, hk, h⟩ := obind_ok h
      injection hk with hk
      subst hk
      obtain ⟨r, hr, h⟩ := obind_ok h
      injection h with h
      subst h
      obtain ⟨h1, h2⟩ := mergeStep_optPh c ph N big128 keyOf H i ht _ _ _ r hr
      cases r with
      | none => simp at h2
      | some r' =>
        refine ⟨?_, by simp, rfl⟩
        simp only [accPh, hv, if_true, Option.getD_some, Bool.false_eq_true, if_false]
        exact h1
    | none =>
      simp only [Bool.false_eq_true, if_false] at h
      injection h with h
      subst h
      refine ⟨?_, by simp [hv], rfl⟩
      simp [accPh, hv, merge_zero_zero]

/-- **the binary-counter invariant** of the accumulator chain, seen from the accumulator of packer level `q` (ring
level `lb + q`) on, after `n` complete blocks of `2^q` arrivals have been delivered to that level:
* `control` = the lowest bit of `n`;
* if it is `1` the accumulator holds block `n − 1` of size `2^q` (phase `blk … q`, `value` = presence);
* if it is `0` and `n > 0` the accumulator still holds what it last passed upwards: the merged block of size
  `2^(q+1)` ending at `n` (this is where `glwe_packer_flush` reads the final result);
* the rest of the chain has received `n / 2` blocks. -/
def CInv (c : Pack.Contract M) (ph : Ct → M) (lb : Nat) (g : Nat → M) (p : Nat → Bool) : Nat → Nat → List Acc → Prop
  | _, _, [] => True
  | q, n, acc :: rest =>
    acc.control = decide (n % 2 = 1) ∧
    (n % 2 = 1 → accPh ph acc = blk c lb g q ((n - 1) * 2 ^ q) ∧ acc.value = presAfter p q ((n - 1) * 2 ^ q)) ∧
    (n % 2 = 0 → 0 < n → accPh ph acc = blk c lb g (q + 1) ((n - 2) * 2 ^ q) ∧
      acc.value = presAfter p (q + 1) ((n - 2) * 2 ^ q)) ∧
    CInv c ph lb g p (q + 1) (n / 2) rest

/-- **`pack_core`, one call = one increment of the counter** (the carry chain is the recursion of `packCore`):
if the chain from level `q` on has received `n` blocks and the incoming (optional) ciphertext carries block `n`,
afterwards it has received `n + 1` blocks. -/
theorem packCore_phase (c : Pack.Contract M) (ph : Ct → M) (N : Nat) (big128 : Bool) (keyOf : Nat → Key)
    (H : IdealOps c ph N big128 keyOf) (keys : List Key) (K : Nat) (hK : log2Nat N = K) (lb : Nat)
    (ht : ∀ i, i < K → c.t i = ((2 ^ (K - i - 1) : Nat) : Int))
    (hkey : ∀ i, i < K → levelKey N keys i = .ok (keyOf i))
    (hcopy : ∀ r x y, Core.Ops.glweCopy N r x = .ok y → ph y = ph x)
    (hnorm : ∀ r x y, Core.Ops.glweNormalize N r x = .ok y → ph y = ph x)
    (g : Nat → M) (p : Nat → Bool)
    (accs : List Acc) (q n : Nat) (hlen : lb + q + accs.length = K) (hinv : CInv c ph lb g p q n accs)
    (x : Option Ct) (hx : optPh ph x = blk c lb g q (n * 2 ^ q)) (hxp : x.isSome = presAfter p q (n * 2 ^ q))
    (accs' : List Acc) (h : packCore big128 N keys accs x (lb + q) = .ok accs') :
    CInv c ph lb g p q (n + 1) accs' ∧ accs'.length = accs.length := by
  subst hK
  induction accs generalizing q n x accs' with
  | nil =>
    simp only [packCore] at h
    split at h
    · injection h with h
      subst h
      exact ⟨trivial, rfl⟩
    · simp at h
  | cons acc rest ih =>
    simp only [packCore] at h
    have hne : ¬ lb + q = log2Nat N := by
      simp only [List.length_cons] at hlen
      omega
    rw [if_neg hne] at h
    obtain ⟨hc, hodd, heven, hrest⟩ := hinv
    rcases Nat.mod_two_eq_zero_or_one n with hn | hn
    · -- the accumulator is free: store the arrival
      have hcf : acc.control = false := by rw [hc]; simp [hn]
      rw [hcf] at h
      simp only [Bool.not_false, if_true] at h
      have hn1 : (n + 1) % 2 = 1 := by omega
      have hn2 : (n + 1) / 2 = n / 2 := by omega
      cases x with
      | some xx =>
        simp only at h
        obtain ⟨d, hd, h⟩ := obind_ok h
        injection h with h
        subst h
        have hpd : ph d = ph xx := by
          split at hd
          · exact hcopy _ _ _ hd
          · exact hnorm _ _ _ hd
        refine ⟨⟨by simp [hn1], fun _ => ⟨?_, ?_⟩, fun h0 => by omega, by rw [hn2]; exact hrest⟩, rfl⟩
        · simp only [accPh, if_true, Nat.add_sub_cancel]
          rw [hpd, ← hx]
          rfl
        · simp only [Nat.add_sub_cancel]
          rw [← hxp]
          rfl
      | none =>
        simp only at h
        injection h with h
        subst h
        refine ⟨⟨by simp [hn1], fun _ => ⟨?_, ?_⟩, fun h0 => by omega, by rw [hn2]; exact hrest⟩, rfl⟩
        · simp only [accPh, Bool.false_eq_true, if_false, Nat.add_sub_cancel]
          rw [← hx]
          rfl
        · simp only [Nat.add_sub_cancel]
          rw [← hxp]
          rfl
    · -- the accumulator is full: merge, free it, carry the merged block upwards
      have hct : acc.control = true := by rw [hc]; simp [hn]
      rw [hct] at h
      simp only [Bool.not_true, Bool.false_eq_true, if_false] at h
      obtain ⟨acc1, h1, h⟩ := obind_ok h
      obtain ⟨rest', h2, h⟩ := obind_ok h
      injection h with h
      subst h
      have hlt : lb + q < log2Nat N := by
        simp only [List.length_cons] at hlen
        omega
      have htq : c.t (lb + q) = ((2 ^ (log2Nat N - (lb + q) - 1) : Nat) : Int) := ht _ hlt
      obtain ⟨c1, c2, -⟩ := combine_phase c ph N big128 keyOf H keys (lb + q) htq (hkey _ hlt) acc x acc1 h1
      obtain ⟨o1, o2⟩ := hodd hn
      have e1 : (n - 1) * 2 ^ q + 2 ^ q = n * 2 ^ q := by
        have : n = (n - 1) + 1 := by omega
        conv_rhs => rw [this, Nat.add_mul, Nat.one_mul]
      have e2 : (n - 1) * 2 ^ q = n / 2 * 2 ^ (q + 1) := by
        have : n - 1 = n / 2 * 2 := by omega
        rw [this, pow_succ, Nat.mul_assoc, Nat.mul_comm 2 (2 ^ q)]
      have b1 : accPh ph acc1 = blk c lb g (q + 1) ((n - 1) * 2 ^ q) := by
        rw [c1, o1, hx, blk_succ, e1]
      have b2 : acc1.value = presAfter p (q + 1) ((n - 1) * 2 ^ q) := by
        rw [c2, o2, hxp]
        simp only [presAfter, e1]
      have hlen' : lb + (q + 1) + rest.length = log2Nat N := by
        simp only [List.length_cons] at hlen
        omega
      have hx' : optPh ph (if acc1.value = true then some acc1.data else none)
          = blk c lb g (q + 1) (n / 2 * 2 ^ (q + 1)) := by
        rw [← e2, ← b1]
        unfold accPh
        cases acc1.value <;> rfl
      have hxp' : (if acc1.value = true then some acc1.data else none).isSome
          = presAfter p (q + 1) (n / 2 * 2 ^ (q + 1)) := by
        rw [← e2, ← b2]
        cases acc1.value <;> rfl
      obtain ⟨r1, r2⟩ := ih (q + 1) (n / 2) hrest _ hx' hxp' rest' h2 hlen'
      have hn1 : (n + 1) % 2 = 0 := by omega
      have hn2 : (n + 1) / 2 = n / 2 + 1 := by omega
      have hn3 : n + 1 - 2 = n - 1 := by omega
      refine ⟨⟨by simp [hn1], fun h0 => by omega, fun _ _ => ⟨?_, ?_⟩, by rw [hn2]; exact r1⟩, by simp [r2]⟩
      · rw [hn3, ← b1]
        rfl
      · rw [hn3, ← b2]

/-! ### B2. the whole stream -/

/-- the freshly allocated chain is the counter `0` -/
theorem CInv_replicate (c : Pack.Contract M) (ph : Ct → M) (lb : Nat) (g : Nat → M) (p : Nat → Bool) (d : Ct)
    (k q : Nat) :
    CInv c ph lb g p q 0 (List.replicate k { data := d, value := false, control := false }) := by
  induction k generalizing q with
  | zero => trivial
  | succ k ih =>
    rw [List.replicate_succ]
    exact ⟨by simp, fun h => by omega, fun _ h => by omega, ih (q + 1)⟩

/-- reading accumulator `j` of the chain out of the invariant, when its counter digit is `0` and it has already
been used: it holds the last merged block it passed upwards -/
theorem CInv_getElem (c : Pack.Contract M) (ph : Ct → M) (lb : Nat) (g : Nat → M) (p : Nat → Bool)
    (accs : List Acc) (q n j : Nat) (out : Acc) (hinv : CInv c ph lb g p q n accs) (hj : accs[j]? = some out)
    (h0 : n / 2 ^ j % 2 = 0) (hpos : 0 < n / 2 ^ j) :
    accPh ph out = blk c lb g (q + j + 1) ((n / 2 ^ j - 2) * 2 ^ (q + j)) ∧
      out.value = presAfter p (q + j + 1) ((n / 2 ^ j - 2) * 2 ^ (q + j)) := by
  induction accs generalizing q n j with
  | nil => simp at hj
  | cons acc rest ih =>
    obtain ⟨-, -, heven, hrest⟩ := hinv
    cases j with
    | zero =>
      simp only [List.getElem?_cons_zero, Option.some.injEq] at hj
      subst hj
      simp only [pow_zero, Nat.div_one, Nat.add_zero] at h0 hpos ⊢
      exact heven h0 hpos
    | succ j =>
      simp only [List.getElem?_cons_succ] at hj
      have e : n / 2 ^ (j + 1) = n / 2 / 2 ^ j := by
        rw [pow_succ', Nat.div_div_eq_div_mul]
      rw [e] at h0 hpos ⊢
      have e' : q + (j + 1) = q + 1 + j := by omega
      rw [e']
      exact ih (q + 1) (n / 2) j hrest hj h0 hpos

/-- the stream of `n` calls of `glwe_packer_add` -/
def packerFold (big128 : Bool) (N : Nat) (keys : List Key) (inputs : Nat → Option Ct) (p0 : Packer) (n : Nat) :
    Outcome Packer :=
  (List.range n).foldl (fun (acc : Outcome Packer) k =>
    obind acc (fun p => packerAdd big128 N keys p (inputs k))) (.ok p0)

theorem packerFold_succ (big128 : Bool) (N : Nat) (keys : List Key) (inputs : Nat → Option Ct) (p0 : Packer) (n : Nat) :
    packerFold big128 N keys inputs p0 (n + 1)
      = obind (packerFold big128 N keys inputs p0 n) (fun p => packerAdd big128 N keys p (inputs n)) := by
  unfold packerFold
  rw [List.range_succ, List.foldl_append]
  rfl

theorem packerRun_eq (big128 : Bool) (N : Nat) (keys : List Key) (accBase2k accSize rank logBatch : Nat)
    (inputs : Nat → Option Ct) (res : Ct) :
    packerRun big128 N keys accBase2k accSize rank logBatch inputs res
      = obind (packerFold big128 N keys inputs (Packer.alloc N accBase2k accSize rank logBatch) (N / 2 ^ logBatch))
          (fun p => packerFlush N p res) := rfl

/-- **after `n` arrivals the accumulator chain is the binary counter `n`** (induction on the arrivals with
`packCore_phase`) -/
theorem packerFold_inv (c : Pack.Contract M) (ph : Ct → M) (N : Nat) (big128 : Bool) (keyOf : Nat → Key)
    (H : IdealOps c ph N big128 keyOf) (keys : List Key) (K : Nat) (hK : log2Nat N = K) (lb : Nat)
    (ht : ∀ i, i < K → c.t i = ((2 ^ (K - i - 1) : Nat) : Int))
    (hkey : ∀ i, i < K → levelKey N keys i = .ok (keyOf i))
    (hcopy : ∀ r x y, Core.Ops.glweCopy N r x = .ok y → ph y = ph x)
    (hnorm : ∀ r x y, Core.Ops.glweNormalize N r x = .ok y → ph y = ph x)
    (hlb : lb ≤ K) (accBase2k accSize rank : Nat) (inputs : Nat → Option Ct) (n : Nat) (pk : Packer)
    (h : packerFold big128 N keys inputs (Packer.alloc N accBase2k accSize rank lb) n = .ok pk) :
    pk.logBatch = lb ∧ pk.accs.length = K - lb ∧
      CInv c ph lb (fun k => optPh ph (inputs k)) (fun k => (inputs k).isSome) 0 n pk.accs := by
  induction n generalizing pk with
  | zero =>
    simp only [packerFold, List.range_zero, List.foldl_nil] at h
    injection h with h
    subst h
    refine ⟨rfl, ?_, ?_⟩
    · simp [Packer.alloc, hK]
    · exact CInv_replicate c ph lb _ _ _ _ 0
  | succ n ih =>
    rw [packerFold_succ] at h
    obtain ⟨p1, h1, h⟩ := obind_ok h
    obtain ⟨i1, i2, i3⟩ := ih p1 h1
    unfold packerAdd at h
    split at h
    · simp at h
    · obtain ⟨accs', h2, h⟩ := obind_ok h
      injection h with h
      subst h
      rw [i1] at h2
      have hlen : lb + 0 + p1.accs.length = K := by rw [i2]; omega
      obtain ⟨r1, r2⟩ := packCore_phase c ph N big128 keyOf H keys K hK lb ht hkey hcopy hnorm
        (fun k => optPh ph (inputs k)) (fun k => (inputs k).isSome) p1.accs 0 n hlen i3 (inputs n)
        (by simp [blk_zero]) (by simp [presAfter]) accs' h2
      exact ⟨i1, by rw [← i2]; exact r2, r1⟩

/-- **the streaming packer, executed**: after the `2^m = N / 2^lb` arrivals (`m = K − lb`) and
`glwe_packer_flush`, the phase of the result is the abstract stream value `Pack.packerVal` of the arrival phases
(absent = `0`), provided some arrival is present (with no arrival at all the flush returns the never-written last
accumulator, about which the contract says nothing). -/
theorem packerRun_phase (c : Pack.Contract M) (ph phOut : Ct → M) (N : Nat) (big128 : Bool) (keyOf : Nat → Key)
    (H : IdealOps c ph N big128 keyOf) (keys : List Key) (K : Nat) (hK : log2Nat N = K) (hN : N = 2 ^ K) (lb m : Nat)
    (hm : lb + m = K)
    (ht : ∀ i, i < K → c.t i = ((2 ^ (K - i - 1) : Nat) : Int))
    (hkey : ∀ i, i < K → levelKey N keys i = .ok (keyOf i))
    (hcopy : ∀ r x y, Core.Ops.glweCopy N r x = .ok y → ph y = ph x)
    (hnorm : ∀ r x y, Core.Ops.glweNormalize N r x = .ok y → ph y = ph x)
    (hcopyOut : ∀ r x y, Core.Ops.glweCopy N r x = .ok y → phOut y = ph x)
    (hnormOut : ∀ r x y, Core.Ops.glweNormalize N r x = .ok y → phOut y = ph x)
    (accBase2k accSize rank : Nat) (inputs : Nat → Option Ct) (res r : Ct)
    (hpres : ∃ k, k < 2 ^ m ∧ (inputs k).isSome = true)
    (h : packerRun big128 N keys accBase2k accSize rank lb inputs res = .ok r) :
    phOut r = Pack.packerVal c lb (fun k => optPh ph (inputs k)) m := by
  rw [packerRun_eq] at h
  obtain ⟨pk, h1, h⟩ := obind_ok h
  have hcnt : N / 2 ^ lb = 2 ^ m := by
    rw [hN, ← hm, pow_add, Nat.mul_div_cancel_left _ (Nat.pos_of_ne_zero (by positivity))]
  rw [hcnt] at h1
  obtain ⟨i1, i2, i3⟩ := packerFold_inv c ph N big128 keyOf H keys K hK lb ht hkey hcopy hnorm (by omega)
    accBase2k accSize rank inputs (2 ^ m) pk h1
  unfold packerFlush at h
  split at h
  · simp at h
  · rw [i1, hK] at h
    cases ho : pk.accs[K - lb - 1]? with
    | none => rw [ho] at h; simp at h
    | some out =>
      rw [ho] at h
      simp only at h
      have hr : phOut r = ph out.data := by
        split at h
        · exact hcopyOut _ _ _ h
        · exact hnormOut _ _ _ h
      have hjlt : K - lb - 1 < pk.accs.length := by
        have := List.getElem?_eq_some_iff.mp ho
        exact this.1
      have hm1 : 1 ≤ m := by omega
      have ej : K - lb - 1 = m - 1 := by omega
      have e2 : 2 ^ m / 2 ^ (m - 1) = 2 := by
        have : m = (m - 1) + 1 := by omega
        conv_lhs => rw [this, pow_succ]
        exact Nat.mul_div_cancel_left _ (Nat.pos_of_ne_zero (by positivity))
      rw [ej] at ho
      obtain ⟨g1, g2⟩ := CInv_getElem c ph lb _ _ pk.accs 0 (2 ^ m) (m - 1) out i3 ho (by rw [e2]) (by rw [e2]; omega)
      rw [e2] at g1 g2
      have e3 : 0 + (m - 1) + 1 = m := by omega
      simp only [Nat.sub_self, Nat.zero_mul] at g1 g2
      rw [e3] at g1 g2
      obtain ⟨k, hk, hkp⟩ := hpres
      have hv : out.value = true := by
        rw [g2]
        exact presAfter_of_present _ m 0 k hk (by simpa using hkp)
      rw [hr, packerVal_eq_blk, ← g1, accPh, hv, if_pos rfl]

/-- **the streaming packer, executed value, any subset of arrivals**: if the projectors of the levels
`lb … K-1` map the phase of arrival `k` to its slot part `u k` (absent: `u k = 0`), the executed result has phase
`∑ k ∈ S, X^{revOff k} · u k`. -/
theorem packer_executed_value (c : Pack.Contract M) (ph phOut : Ct → M) (N : Nat) (big128 : Bool) (keyOf : Nat → Key)
    (H : IdealOps c ph N big128 keyOf) (keys : List Key) (K : Nat) (hK : log2Nat N = K) (hN : N = 2 ^ K) (lb m : Nat)
    (hm : lb + m = K)
    (ht : ∀ i, i < K → c.t i = ((2 ^ (K - i - 1) : Nat) : Int))
    (hkey : ∀ i, i < K → levelKey N keys i = .ok (keyOf i))
    (hcopy : ∀ r x y, Core.Ops.glweCopy N r x = .ok y → ph y = ph x)
    (hnorm : ∀ r x y, Core.Ops.glweNormalize N r x = .ok y → ph y = ph x)
    (hcopyOut : ∀ r x y, Core.Ops.glweCopy N r x = .ok y → phOut y = ph x)
    (hnormOut : ∀ r x y, Core.Ops.glweNormalize N r x = .ok y → phOut y = ph x)
    (accBase2k accSize rank : Nat) (inputs : Nat → Option Ct) (res r : Ct)
    (hpres : ∃ k, k < 2 ^ m ∧ (inputs k).isSome = true)
    (h : packerRun big128 N keys accBase2k accSize rank lb inputs res = .ok r)
    (u : Nat → M) (hQ : ∀ k, Pack.Q (Pack.shift c lb) m (optPh ph (inputs k)) = u k)
    (S : Finset Nat) (hS : S ⊆ Finset.range (2 ^ m)) (habs : ∀ k ∈ Finset.range (2 ^ m), k ∉ S → u k = 0) :
    phOut r = ∑ k ∈ S, c.rot (Pack.revOff c lb m k) (u k) := by
  rw [packerRun_phase c ph phOut N big128 keyOf H keys K hK hN lb m hm ht hkey hcopy hnorm hcopyOut hnormOut
    accBase2k accSize rank inputs res r hpres h]
  exact Pack.packer_value_subset c lb _ u m hQ S hS habs

/-! ## Non-vacuity: executed instances (ring degree `N = 2`, one level) under the degenerate contract instance

The zero phase in `Pack.model` satisfies `IdealOps` (as in `Props/C03.lean`); the hypotheses "`… = .ok _`" of the
theorems above are satisfied by genuinely executed instances of the model (evaluated by `rfl`). -/

theorem idealOps_zero (N : Nat) (big128 : Bool) (keyOf : Nat → Key) :
    IdealOps Pack.model (fun _ => (0 : ℚ × ℚ)) N big128 keyOf :=
  ⟨by intros; simp, by intros; simp, by intros; simp, by intros; simp, by intros; simp, by intros; simp,
   by intros; simp, by intros; simp, by intros; simp, by intros; simp⟩

/-- a (dummy-content) automorphism key for the Galois element `-1` of the ring of degree 2 -/
def exKeyM1 : Key :=
  { base2k := 4, dsize := 1, p := -1, mat := { n := 2, rows := 1, colsIn := 1, colsOut := 2, size := 1, data := [] } }

def exCt : Ct := mkCt 4 2 [[[1, 2]], [[3, 1]]]

example : log2Nat 2 = 1 := rfl
example : levelKey 2 [exKeyM1] 0 = .ok exKeyM1 := rfl

/-- the level loop, executed: both slots present, one level -/
theorem ex_packLevels :
    packLevels false 2 [exKeyM1] (List.range 1) [(0, exCt), (1, exCt)] = .ok [(0, mkCt 4 2 [[[0, 1]], [[1, 2]]])] := rfl

/-- the level loop on the empty map (all `mergeStep`s are "both absent") -/
example : packLevels false 2 [exKeyM1] (List.range 1) [] = .ok [] := rfl

theorem ex_t (i : Nat) (hi : i < 1) : Pack.model.t i = ((2 ^ (1 - i - 1) : Nat) : Int) := by
  obtain rfl : i = 0 := by omega
  rfl

theorem ex_key (i : Nat) (hi : i < 1) : levelKey 2 [exKeyM1] i = .ok ((fun _ => exKeyM1) i) := by
  obtain rfl : i = 0 := by omega
  rfl

/-- A3 instantiated on the executed instance -/
example : ∀ j, j < 2 ^ (1 - 1) →
    phMap (fun _ => (0 : ℚ × ℚ)) [(0, mkCt 4 2 [[[0, 1]], [[1, 2]]])] j
      = Pack.after Pack.model (fun i => 2 ^ (1 - 1 - i)) (phMap (fun _ => 0) [(0, exCt), (1, exCt)]) 1 j :=
  (packLevels_phase Pack.model (fun _ => 0) 2 false (fun _ => exKeyM1) (idealOps_zero _ _ _) [exKeyM1] 1 rfl 1 le_rfl
    ex_t ex_key _ _ (fun j hj => SlotMap.get_none_of_any _ 2 rfl j (by simpa using hj)) ex_packLevels).1

/-- `glwe_pack`, executed (`log_gap_out = 0`: one packing level, empty trace) -/
theorem ex_pack :
    pack false 2 4 [exKeyM1] 4 1 [(0, exCt), (1, exCt)] 0 = .ok (mkCt 4 2 [[[0, 1]], [[1, 2]]]) := rfl

/-- A4 instantiated on the executed instance -/
example : (fun _ => (0 : ℚ × ℚ)) (mkCt 4 2 [[[0, 1]], [[1, 2]]])
    = traceAbs Pack.model (List.range' (1 - 0) (1 - (1 - 0)))
        (Pack.after Pack.model (fun i => 2 ^ (1 - 1 - i)) (phMap (fun _ => 0) [(0, exCt), (1, exCt)]) (1 - 0) 0) :=
  pack_executed_phase Pack.model (fun _ => 0) (fun _ => 0) 2 false (fun _ => exKeyM1) (idealOps_zero _ _ _) 4 [exKeyM1]
    4 1 1 rfl rfl 0 ex_t ex_key (fun _ _ _ => (traceAbs_zero _ _).symm) _ _ ex_pack

/-- `glwe_pack` on a degenerate ring (`N = 1`, no level): the input check, the slot lookup and `glwe_trace` run -/
example : pack false 1 4 [] 4 1 [(0, mkCt 4 1 [[[5]], [[7]]])] 0 = .ok (mkCt 4 1 [[[5]], [[7]]]) := rfl

/-- the streaming packer, executed: two arrivals (`N = 2`, `log_batch = 0`), the first present, the second absent
(entry copy, then `combine` on the "only accumulator" path, then flush) -/
theorem ex_packerRun :
    packerRun false 2 [exKeyM1] 4 1 1 0 (fun k => if k = 0 then some exCt else none) (mkCt 4 2 [[[0, 0]], [[0, 0]]])
      = .ok (mkCt 4 2 [[[2, 0]], [[2, 1]]]) := rfl

/-- B2 instantiated on the executed instance -/
example : (fun _ => (0 : ℚ × ℚ)) (mkCt 4 2 [[[2, 0]], [[2, 1]]])
    = Pack.packerVal Pack.model 0 (fun k => optPh (fun _ => 0) ((fun k => if k = 0 then some exCt else none) k)) 1 :=
  packerRun_phase Pack.model (fun _ => 0) (fun _ => 0) 2 false (fun _ => exKeyM1) (idealOps_zero _ _ _) [exKeyM1] 1 rfl rfl
    0 1 rfl ex_t ex_key (fun _ _ _ _ => rfl) (fun _ _ _ _ => rfl) (fun _ _ _ _ => rfl) (fun _ _ _ _ => rfl) 4 1 1 _ _ _
    ⟨0, by norm_num, rfl⟩ ex_packerRun

end Ks
