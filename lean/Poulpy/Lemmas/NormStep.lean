/-
Helper lemmas for C08: the three scalar step kernels (`Model/ZnxNorm.lean`) under head-room.

Head-room: a bound `H` on the input limbs with `H + 2^b + 4 ≤ 2^(bits-1)`; carries then stay within
`H + 3` and no machine operation wraps.  For `i64` and `b ≤ 61` this allows `H = 2^62`; for `b = 62`,
`H = 2^62 - 4`.
-/
import Poulpy.Lemmas.NormDigit

namespace NormL

/-- the hypotheses shared by all step lemmas -/
structure HeadRoom (bits b lsh : Nat) (H : Int) : Prop where
  hbits : 1 ≤ bits
  hlsh : lsh < b
  hbb : b ≤ bits
  hH0 : 0 ≤ H
  hH : H + 2 ^ b + 4 ≤ 2 ^ (bits - 1)

/-- balanced digit predicate -/
def Balanced (b : Nat) (d : Int) : Prop := -(2 ^ (b - 1)) ≤ d ∧ d < 2 ^ (b - 1)

instance (b : Nat) (d : Int) : Decidable (Balanced b d) := by unfold Balanced; infer_instance

theorem shifted_digit_range {b lsh : Nat} (h : lsh < b) (a : Int) :
    Balanced b (bmod (b - lsh) a * 2 ^ lsh) := by
  have hr := bmod_range (b := b - lsh) (by omega) a
  have hp : (0 : Int) < 2 ^ lsh := two_pow_pos lsh
  have e : (2 : Int) ^ (b - 1) = 2 ^ (b - lsh - 1) * 2 ^ lsh := by rw [← pow_add]; congr 1; omega
  unfold Balanced
  rw [e]
  constructor
  · have := mul_le_mul_of_nonneg_right hr.1 (le_of_lt hp); linarith
  · exact mul_lt_mul_of_pos_right hr.2 hp

theorem Balanced.abs_le {b : Nat} {d : Int} (h : Balanced b d) : |d| ≤ 2 ^ (b - 1) :=
  _root_.abs_le.mpr ⟨h.1, le_of_lt h.2⟩

theorem half_le_full {b : Nat} (hb : 1 ≤ b) : (2 : Int) ^ (b - 1) * 2 = 2 ^ b := by
  have := two_pow_succ_pred hb; linarith

section
variable {bits b lsh : Nat} {H : Int}

theorem HeadRoom.digit_eq (hr : HeadRoom bits b lsh H) (a : Int) :
    getDigitW bits (b - lsh) a = bmod (b - lsh) a :=
  getDigitW_eq_bmod (by have := hr.hlsh; omega) (by have := hr.hbb; omega) a

theorem HeadRoom.digit_eq' (hr : HeadRoom bits b lsh H) (a : Int) : getDigitW bits b a = bmod b a :=
  getDigitW_eq_bmod (by have := hr.hlsh; omega) hr.hbb a

theorem HeadRoom.pow_le (hr : HeadRoom bits b lsh H) : (2 : Int) ^ (b - lsh - 1) ≤ 2 ^ (b - 1) :=
  two_pow_le (by omega)

/-- carry of an input limb within head-room -/
theorem HeadRoom.carry_eq (hr : HeadRoom bits b lsh H) {a : Int} (ha : |a| ≤ H) :
    getCarryW bits (b - lsh) a (bmod (b - lsh) a) = bcarry (b - lsh) a ∧ |bcarry (b - lsh) a| ≤ H + 3 := by
  have hm : 1 ≤ b - lsh := by have := hr.hlsh; omega
  have hd := bmod_abs_le hm a
  have hpl := hr.pow_le
  have hb1 := half_le_full (b := b) (by have := hr.hlsh; omega)
  have hp := two_pow_pos (b - 1)
  have h1 : |a - bmod (b - lsh) a| < 2 ^ (bits - 1) := by
    have := abs_sub a (bmod (b - lsh) a)
    have := hr.hH
    linarith
  refine ⟨getCarryW_eq_bcarry hr.hbits h1, ?_⟩
  have := bcarry_two_le hm a
  have := abs_nonneg (bcarry (b - lsh) a)
  have := hr.hH0
  linarith

/-- closed form of the first step -/
theorem firstStepS_eq (hr : HeadRoom bits b lsh H) {a : Int} (ha : |a| ≤ H) :
    firstStepS bits b lsh a = (bmod (b - lsh) a * 2 ^ lsh, bcarry (b - lsh) a) := by
  have hc := (hr.carry_eq ha).1
  unfold firstStepS
  by_cases h0 : lsh = 0
  · subst h0
    simp only [if_true, Nat.sub_zero, pow_zero, mul_one] at *
    simp only [hr.digit_eq']
    rw [hc]
  · simp only [if_neg h0]
    simp only [hr.digit_eq]
    rw [hc]
    congr 1
    unfold shlW
    have hs := (shifted_digit_range hr.hlsh a).abs_le
    have hb1 := half_le_full (b := b) (by have := hr.hlsh; omega)
    have hp := two_pow_pos (b - 1)
    apply wrapN_eq_abs hr.hbits
    have := hr.hH; have := hr.hH0
    linarith

/-- closed form of the middle step, and the carry invariant -/
theorem middleStepS_eq (hr : HeadRoom bits b lsh H) {a c : Int} (ha : |a| ≤ H) (hc : |c| ≤ H + 3) :
    middleStepS bits b lsh a c =
      (bmod b (bmod (b - lsh) a * 2 ^ lsh + c),
       bcarry (b - lsh) a + bcarry b (bmod (b - lsh) a * 2 ^ lsh + c)) ∧
    |bcarry (b - lsh) a + bcarry b (bmod (b - lsh) a * 2 ^ lsh + c)| ≤ H + 3 := by
  have hb : 1 ≤ b := by have := hr.hlsh; omega
  have hm : 1 ≤ b - lsh := by have := hr.hlsh; omega
  obtain ⟨hco, _⟩ := hr.carry_eq ha
  have hs := (shifted_digit_range hr.hlsh a).abs_le
  have hb1 := half_le_full hb
  have hp := two_pow_pos (b - 1)
  have hH := hr.hH
  have hH0 := hr.hH0
  set d := bmod (b - lsh) a * 2 ^ lsh with hd
  set t := d + c with ht
  have htabs : |t| ≤ 2 ^ (b - 1) + H + 3 := by
    have := abs_add_le d c; linarith
  have htc : |t| ≤ 2 ^ (b - 1) + |c| := by
    have := abs_add_le d c; linarith
  have ht1 : |t| < 2 ^ (bits - 1) := by linarith
  have hx1 := bmod_abs_le hb t
  have ht2 : |t - bmod b t| < 2 ^ (bits - 1) := by
    have := abs_sub t (bmod b t); linarith
  -- carry bounds
  have hc1 := bcarry_two_le hm a
  have hc2 : 2 * |bcarry b t| ≤ |c| + 2 := by
    have h := bcarry_mul_le hb t
    have hq := abs_nonneg (bcarry b t)
    by_cases hz : |bcarry b t| = 0
    · rw [hz]; have := abs_nonneg c; linarith
    · have hq1 : 1 ≤ |bcarry b t| := by omega
      have h2 : (2 : Int) ≤ 2 ^ b := by linarith
      -- 2^b (|q| - 1) ≤ |c|
      have h3 : 2 ^ b * (|bcarry b t| - 1) ≤ |c| := by
        have : 2 ^ b * (|bcarry b t| - 1) = 2 ^ b * |bcarry b t| - 2 ^ b := by ring
        linarith
      have h4 : 2 * (|bcarry b t| - 1) ≤ 2 ^ b * (|bcarry b t| - 1) :=
        mul_le_mul_of_nonneg_right h2 (by linarith)
      linarith
  have hsum : |bcarry (b - lsh) a + bcarry b t| ≤ H + 3 := by
    have := abs_add_le (bcarry (b - lsh) a) (bcarry b t)
    have := abs_nonneg (bcarry (b - lsh) a)
    have := abs_nonneg (bcarry b t)
    omega
  refine ⟨?_, hsum⟩
  have hsum' : |bcarry (b - lsh) a + bcarry b t| < 2 ^ (bits - 1) := by linarith
  unfold middleStepS
  by_cases h0 : lsh = 0
  · subst h0
    simp only [if_true, Nat.sub_zero, pow_zero, mul_one] at *
    simp only [hr.digit_eq']
    rw [hco, ← hd, ← ht, wrapN_eq_abs hr.hbits ht1, getCarryW_eq_bcarry hr.hbits ht2, wrapN_eq_abs hr.hbits hsum']
  · simp only [if_neg h0]
    simp only [hr.digit_eq, hr.digit_eq']
    have hshl : shlW bits (bmod (b - lsh) a) lsh = d := by
      unfold shlW
      apply wrapN_eq_abs hr.hbits
      linarith
    rw [hco, hshl, ← ht, wrapN_eq_abs hr.hbits ht1, getCarryW_eq_bcarry hr.hbits ht2,
      wrapN_eq_abs hr.hbits hsum']

/-- closed form of the final step -/
theorem finalStepS_eq (hr : HeadRoom bits b lsh H) {a c : Int} (hc : |c| ≤ H + 3) :
    finalStepS bits b lsh a c = bmod b (bmod (b - lsh) a * 2 ^ lsh + c) := by
  have hb : 1 ≤ b := by have := hr.hlsh; omega
  have hs := (shifted_digit_range hr.hlsh a).abs_le
  have hb1 := half_le_full hb
  have hp := two_pow_pos (b - 1)
  have hH := hr.hH
  have hH0 := hr.hH0
  have ht1 : |bmod (b - lsh) a * 2 ^ lsh + c| < 2 ^ (bits - 1) := by
    have := abs_add_le (bmod (b - lsh) a * 2 ^ lsh) c; linarith
  unfold finalStepS
  by_cases h0 : lsh = 0
  · subst h0
    simp only [if_true, Nat.sub_zero, pow_zero, mul_one] at *
    simp only [hr.digit_eq']
    rw [wrapN_eq_abs hr.hbits ht1]
  · simp only [if_neg h0]
    have hshl : shlW bits (bmod (b - lsh) a) lsh = bmod (b - lsh) a * 2 ^ lsh := by
      unfold shlW
      apply wrapN_eq_abs hr.hbits
      linarith
    simp only [hr.digit_eq, hr.digit_eq']
    rw [hshl, wrapN_eq_abs hr.hbits ht1]

/-! ### contracts (what DESIGN §6 calls the step-kernel contracts) -/

/-- first step: `a·2^lsh = digit + carry·2^b`, digit balanced, carry within the invariant -/
theorem firstStepS_spec (hr : HeadRoom bits b lsh H) {a : Int} (ha : |a| ≤ H) :
    a * 2 ^ lsh = (firstStepS bits b lsh a).1 + (firstStepS bits b lsh a).2 * 2 ^ b ∧
    Balanced b (firstStepS bits b lsh a).1 ∧ |(firstStepS bits b lsh a).2| ≤ H + 3 := by
  rw [firstStepS_eq hr ha]
  refine ⟨?_, shifted_digit_range hr.hlsh a, (hr.carry_eq ha).2⟩
  have h := bmod_add_bcarry (b - lsh) a
  have e : (2 : Int) ^ b = 2 ^ (b - lsh) * 2 ^ lsh := by
    rw [← pow_add]; congr 1; have := hr.hlsh; omega
  simp only
  rw [e]
  calc a * 2 ^ lsh = (bmod (b - lsh) a + bcarry (b - lsh) a * 2 ^ (b - lsh)) * 2 ^ lsh := by rw [h]
    _ = _ := by ring

/-- middle step: `a·2^lsh + c = digit + carry'·2^b`, digit balanced, carry within the invariant -/
theorem middleStepS_spec (hr : HeadRoom bits b lsh H) {a c : Int} (ha : |a| ≤ H) (hc : |c| ≤ H + 3) :
    a * 2 ^ lsh + c = (middleStepS bits b lsh a c).1 + (middleStepS bits b lsh a c).2 * 2 ^ b ∧
    Balanced b (middleStepS bits b lsh a c).1 ∧ |(middleStepS bits b lsh a c).2| ≤ H + 3 := by
  obtain ⟨he, hbound⟩ := middleStepS_eq hr ha hc
  rw [he]
  have hb : 1 ≤ b := by have := hr.hlsh; omega
  refine ⟨?_, bmod_range hb _, hbound⟩
  have h1 := bmod_add_bcarry (b - lsh) a
  have h2 := bmod_add_bcarry b (bmod (b - lsh) a * 2 ^ lsh + c)
  have e : (2 : Int) ^ b = 2 ^ (b - lsh) * 2 ^ lsh := by
    rw [← pow_add]; congr 1; have := hr.hlsh; omega
  simp only
  calc a * 2 ^ lsh + c
      = (bmod (b - lsh) a + bcarry (b - lsh) a * 2 ^ (b - lsh)) * 2 ^ lsh + c := by rw [h1]
    _ = (bmod (b - lsh) a * 2 ^ lsh + c) + bcarry (b - lsh) a * (2 ^ (b - lsh) * 2 ^ lsh) := by ring
    _ = (bmod b (bmod (b - lsh) a * 2 ^ lsh + c) + bcarry b (bmod (b - lsh) a * 2 ^ lsh + c) * 2 ^ b)
          + bcarry (b - lsh) a * 2 ^ b := by rw [h2, e]
    _ = _ := by ring

/-- final step: `a·2^lsh + c ≡ digit (mod 2^b)`, digit balanced -/
theorem finalStepS_spec (hr : HeadRoom bits b lsh H) {a c : Int} (ha : |a| ≤ H) (hc : |c| ≤ H + 3) :
    (∃ q : Int, a * 2 ^ lsh + c = finalStepS bits b lsh a c + q * 2 ^ b) ∧
    Balanced b (finalStepS bits b lsh a c) := by
  have hm := middleStepS_spec hr ha hc
  have he := (middleStepS_eq hr ha hc).1
  rw [finalStepS_eq hr hc]
  rw [he] at hm
  exact ⟨⟨_, hm.1⟩, hm.2.1⟩

/-- the first step is the middle step with a zero carry-in -/
theorem firstStepS_eq_middle (hr : HeadRoom bits b lsh H) {a : Int} (ha : |a| ≤ H) :
    firstStepS bits b lsh a = middleStepS bits b lsh a 0 := by
  have hb : 1 ≤ b := by have := hr.hlsh; omega
  rw [firstStepS_eq hr ha, (middleStepS_eq hr ha (by have := hr.hH0; simp; linarith)).1]
  have hs := shifted_digit_range hr.hlsh a
  simp only [add_zero]
  rw [bmod_of_range hb hs.1 hs.2]
  have : bcarry b (bmod (b - lsh) a * 2 ^ lsh) = 0 := by
    unfold bcarry; rw [bmod_of_range hb hs.1 hs.2]; simp
  rw [this, add_zero]

end

end NormL
