/-
Key generation as encryption, part 5: the standard matrix loop cell by cell, and the exact phase of a stream cell in `R n`.
-/
import Poulpy.Lemmas.KeyStream
import Poulpy.Lemmas.KeyGadget
import Poulpy.Lemmas.ValBridge

namespace CoreEnc
open NormL Ks

/-- every cell of a standard routine is `glwe_encrypt_sk_internal` from (some position of) the running mask stream, with the error of
its rank in loop order -/
theorem standardCells_get (bits b n size kxe rank : Nat) (sk : List Poly) :
    ∀ (ds : List (Nat × Option (Col × Nat))) (xa : List Nat) (es : List Poly) (out : List (Nat × List Col)) (xa' : List Nat) (es' : List Poly),
      Core.standardCells bits b n size kxe rank sk ds xa es = some (out, xa', es') →
      out.length = ds.length ∧ es' = es.drop ds.length ∧ ds.length ≤ es.length ∧
      ∀ k (d : Nat × Option (Col × Nat)), ds[k]? = some d →
        ∃ xak body ms xak', Core.encryptSkStream bits b n size kxe rank d.2 sk xak (es.getD k []) = some (body, ms, xak') ∧
          out[k]? = some (d.1, body :: ms) := by
  intro ds
  induction ds with
  | nil =>
    intro xa es out xa' es' h
    simp only [Core.standardCells, Option.some.injEq, Prod.mk.injEq] at h
    obtain ⟨rfl, _, rfl⟩ := h
    simp
  | cons d0 rest ih =>
    intro xa es out xa' es' h
    cases es with
    | nil => simp [Core.standardCells] at h
    | cons e es0 =>
      obtain ⟨idx, pt⟩ := d0
      unfold Core.standardCells at h
      cases hc : Core.encryptSkStream bits b n size kxe rank pt sk xa e with
      | none => simp [hc] at h
      | some q =>
        obtain ⟨body, ms, xa1⟩ := q
        simp only [hc] at h
        cases hr : Core.standardCells bits b n size kxe rank sk rest xa1 es0 with
        | none => simp [hr] at h
        | some q2 =>
          obtain ⟨out2, xa2, es2⟩ := q2
          simp only [hr, Option.some.injEq, Prod.mk.injEq] at h
          obtain ⟨rfl, rfl, rfl⟩ := h
          obtain ⟨i1, i2, i3, i4⟩ := ih xa1 es0 out2 xa2 es2 hr
          refine ⟨by simp [i1], by simp [i2], by simp; omega, ?_⟩
          intro k d hd
          cases k with
          | zero =>
            simp only [List.getElem?_cons_zero, Option.some.injEq] at hd
            subst hd
            exact ⟨xa, body, ms, xa1, by simpa using hc, by simp⟩
          | succ j =>
            simp only [List.getElem?_cons_succ] at hd
            obtain ⟨xak, bd, m2, xak', h1, h2⟩ := i4 j d hd
            exact ⟨xak, bd, m2, xak', by simpa using h1, by simpa using h2⟩

theorem valP_eq_valPoly (b n : Nat) (c : Col) : C02L.valP b n c = valPoly b n c := by
  unfold C02L.valP valPoly
  apply List.map_congr_left
  intro t _
  exact valCoeff_eq b c t

section
variable {bits b n size kxe rank : Nat} {H E : Int}

/-- **one cell of a standard or decompressed key**: shape of all its columns and the exact phase in `R n` -/
theorem stream_cell_phase (hbits : bits = 64 ∨ bits = 128) (hr : HeadRoom bits b 0 H) (hb1 : 1 ≤ b) (hb : b ≤ 61)
    (hk : 1 ≤ kxe) (hlimb : errLimb kxe b < size) (hn : 0 < n)
    (sk : List Poly) (hskl : sk.length = rank) (hsk : ∀ s ∈ sk, norm1 s * 2 ^ (b - 1) ≤ H)
    (p : Col) (col : Nat) (hcol : col ≤ rank) (hpl : p.length = size) (hpw : WF n p) (hpb : Bounded (2 ^ (b - 1)) p)
    (e : Poly) (he : e.length = n) (hE0 : 0 ≤ E) (heB : ∀ x ∈ e, |x| ≤ E)
    (hsum : (rank : Int) * 2 ^ (b - 1) + E + 2 ^ (b - 1) ≤ 2 ^ 62)
    (xa : List Nat) (body : Col) (ms : List Col) (xa' : List Nat)
    (h : Core.encryptSkStream bits b n size kxe rank (some (p, col)) sk xa e = some (body, ms, xa')) :
    ms.length = rank ∧ (∀ c ∈ body :: ms, c.length = size ∧ WF n c) ∧
    ∃ KL : Poly, KL.length = n ∧
      ι n (valPoly b n (phaseFold sk ms body))
        = (if col = 0 then 1 else ι n (sk.getD (col - 1) [])) * ι n (valPoly b n p)
          + (((2 : Int) ^ (b * (size - 1 - errLimb kxe b)) : Int) : R n) * ι n e
          + (((2 : Int) ^ (b * size) : Int) : R n) * ι n KL := by
  obtain ⟨hd, hbody⟩ := stream_cell h
  obtain ⟨ml, mw⟩ := drawMasks_spec hb1 (by omega) rank xa ms xa' hd
  obtain ⟨body', KL, e1, l1, w1, _, hKL, hι⟩ := cell_phase_R (n := n) hbits hr hb1 hb hk hlimb hn ms sk p col e (by rw [ml, hskl])
    (by rw [ml]; exact hcol) mw hpl hpw hpb hsk he hE0 heB (by rw [ml]; exact hsum)
  rw [hbody] at e1
  simp only [Option.some.injEq] at e1
  subst e1
  refine ⟨ml, ?_, KL, hKL, hι⟩
  intro c hc
  rcases List.mem_cons.mp hc with rfl | hc
  · exact ⟨l1, w1⟩
  · exact ⟨(mw c hc).1, (mw c hc).2.1⟩

end

/-- **a key row under the consumers' reading**: for a matrix whose row `j` holds the columns `body :: ms` of a cell, the gadget value of
the per-limb phases `Ks.keyPhase` (what `glwe_keyswitch_decrypts`, `ep_decrypts`, `relin_decrypts`, … assume about) is the value of
the exact phase of that cell -/
theorem keyPhase_cell (n b size rank : Nat) (hn : 0 < n) (sk : List Poly) (hskl : sk.length = rank) (m : Hal.PMat) (hmn : m.n = n)
    (hco : m.colsOut = rank + 1) (j : Nat) (body : Col) (ms : List Col) (hdata : m.data.getD j [] = body :: ms) (hml : ms.length = rank)
    (hw : ∀ c ∈ body :: ms, c.length = size ∧ WF n c) :
    Gadget.val ((2 : R n) ^ b) size (fun l => ι n (phaseRow sk (rowLimb m j l))) = ι n (valPoly b n (phaseFold sk ms body)) := by
  have h0 : C02L.ColWF n size body := hw body (by simp)
  have hcs : ∀ c ∈ ms, C02L.ColWF n size c := fun c hc => hw c (by simp [hc])
  have hb := Core.ι_valP_phase_rows n hn b size sk body ms h0 hcs
  have hph : Core.Ops.phase sk (Ks.mkCt b n (body :: ms)) = phaseFold sk ms body := by
    unfold Core.Ops.phase
    have hr : (Ks.mkCt b n (body :: ms)).rank = rank := by simp [Core.GLWE.rank, Ks.mkCt, hml]
    rw [hr, ← hskl, List.take_length]
    exact phaseBig_eq_fold sk b 0 n body ms (by rw [hml, hskl])
  rw [hph, valP_eq_valPoly] at hb
  rw [hb]
  unfold Gadget.val
  apply Finset.sum_congr rfl
  intro l _
  show ι n (phaseRow sk (rowLimb m j l)) * _ = _
  congr 3
  unfold rowLimb
  rw [hco]
  apply List.ext_getElem
  · simp [hml]
  · intro c h1 h2
    simp only [List.length_map, List.length_range] at h1
    simp only [List.getElem_map, List.getElem_range, Hal.PMat.entry, hdata, hmn, hco]
    have e1 : (l * (rank + 1) + c) % (rank + 1) = c := by
      rw [Nat.add_comm, Nat.add_mul_mod_self_right, Nat.mod_eq_of_lt h1]
    have e2 : (l * (rank + 1) + c) / (rank + 1) = l := by
      rw [Nat.add_comm, Nat.add_mul_div_right _ _ (by omega : 0 < rank + 1), Nat.div_eq_of_lt h1, Nat.zero_add]
    rw [e1, e2, List.getD_eq_getElem?_getD, List.getElem?_eq_getElem (by simp [hml]; omega)]
    rfl

/-! ### indexing of the loops -/

theorem flatMap_range_length {α : Type} (A B : Nat) (f : Nat → Nat → α) :
    ((List.range A).flatMap (fun i => (List.range B).map (f i))).length = A * B := by
  induction A with
  | zero => simp
  | succ A ih => rw [List.range_succ, List.flatMap_append, List.length_append, ih]; simp [Nat.succ_mul]

/-- position `i·B + r` of a doubly nested loop (outer `i < A`, inner `r < B`) -/
theorem flatMap_range_get {α : Type} (A B : Nat) (f : Nat → Nat → α) (i r : Nat) (hi : i < A) (hr : r < B) :
    ((List.range A).flatMap (fun i => (List.range B).map (f i)))[i * B + r]? = some (f i r) := by
  induction A with
  | zero => omega
  | succ A ih =>
    rw [List.range_succ, List.flatMap_append]
    by_cases h : i < A
    · rw [List.getElem?_append_left (by
        rw [flatMap_range_length]
        have : (i + 1) * B ≤ A * B := Nat.mul_le_mul_right B h
        rw [Nat.succ_mul] at this; omega)]
      exact ih h
    · have hiA : i = A := by omega
      subst hiA
      rw [List.getElem?_append_right (by rw [flatMap_range_length]; omega), flatMap_range_length]
      simp [hr]

theorem mapM_some_get {α β : Type} (f : α → Option β) : ∀ (l : List α) (out : List β), l.mapM f = some out →
    out.length = l.length ∧ ∀ (k : Nat) (a : α), l[k]? = some a → ∃ y, f a = some y ∧ out[k]? = some y := by
  intro l
  induction l with
  | nil => intro out h; simp at h; subst h; simp
  | cons a r ih =>
    intro out h
    rw [List.mapM_cons] at h
    cases hfa : f a with
    | none => simp [hfa] at h
    | some x =>
      cases hr : r.mapM f with
      | none => simp [hfa, hr] at h
      | some xs =>
        simp [hfa, hr] at h
        subst h
        obtain ⟨i1, i2⟩ := ih xs hr
        refine ⟨by simp [i1], ?_⟩
        intro k a' hk
        cases k with
        | zero => simp at hk; subst hk; exact ⟨x, hfa, by simp⟩
        | succ j => simp at hk; obtain ⟨y, h1, h2⟩ := i2 j a' hk; exact ⟨y, h1, by simpa using h2⟩

/-- the cell stored at index `j`, when the storage indices of the list are pairwise distinct -/
theorem cellCols_of_get (cells : List (Nat × List Col)) (hnd : (cells.map (·.1)).Nodup) (k j : Nat) (cols : List Col)
    (h : cells[k]? = some (j, cols)) : Core.cellCols cells j = cols := by
  unfold Core.cellCols
  induction cells generalizing k with
  | nil => simp at h
  | cons c rest ih =>
    simp only [List.map_cons, List.nodup_cons] at hnd
    cases k with
    | zero =>
      simp only [List.getElem?_cons_zero, Option.some.injEq] at h
      subst h
      simp [List.find?_cons]
    | succ k' =>
      simp only [List.getElem?_cons_succ] at h
      have hmem : j ∈ rest.map (·.1) := by
        rw [List.mem_map]
        exact ⟨(j, cols), List.mem_of_getElem? h, rfl⟩
      have hne : c.1 ≠ j := by
        intro e; rw [e] at hnd; exact hnd.1 hmem
      rw [List.find?_cons]
      have : (c.1 == j) = false := by simpa using hne
      simp only [this]
      exact ih hnd.2 k' h

end CoreEnc
