import Poulpy.Lemmas.NttCnv

/-!
`vec_znx_dft_apply(step, offset)`, `vmp_prepare`, `vmp_apply_dft_to_dft(limb_offset)` of the NTT120 back end
against `Hal.dftApplyCol` / `Hal.vmpFlat`: values (through `rep_slots`) and the layout of the prepared matrix
(which kernel call writes which result column, and that it reads exactly where `vmp_prepare` stored the entry).
-/

namespace Ntt120
open Hal (limbOr0 zeroP negMul sumPolys dftApplyCol vmpFlat PMat)

/-! ### `vec_znx_dft_apply` -/

/-- **`vec_znx_dft_apply(step, offset)`, one prime lane**: result limb `l` represents limb `l` of `Hal.dftApplyCol` -/
theorem dftApplyLane_rep (P : PrimeSet) (k j : Nat) (c : LaneCtx P k j) (step offset rs : Nat) (a : Col) (ha : ColOK j a)
    (l : Nat) (hl : l < rs) :
    Rep P k j ((dftApplyLaneK (P.qs.getD k 1) (2 ^ j) (realNtt P (2 ^ j) k) step offset rs a).getD l [])
      ((dftApplyCol (2 ^ j) step offset rs a).getD l (zeroP (2 ^ j))) := by
  obtain ⟨t, ht, ert⟩ := realNtt_len1 P k j c
  unfold dftApplyLaneK dftApplyCol
  rw [getD_map_lt _ _ l 0 [] (by simpa using hl), getD_map_lt _ _ l 0 (zeroP (2 ^ j)) (by simpa using hl)]
  have hr : (List.range rs).getD l 0 = l := by simp [List.getD, hl]
  rw [hr, ert]
  simp only []
  by_cases h1 : l < min rs ((a.length + step - 1) / step)
  · rw [if_pos h1, if_pos h1]
    by_cases h2 : offset + l * step < a.length
    · rw [if_pos h2, if_pos h2]
      rw [getD_eq_getElem' a _ [] h2, getD_eq_getElem' a _ (zeroP (2 ^ j)) h2]
      exact rep_dft P k j c t ht _ (ha _ (List.getElem_mem h2)).1 (ha _ (List.getElem_mem h2)).2
    · rw [if_neg h2, if_neg h2]; exact rep_zero P k j c
  · rw [if_neg h1, if_neg h1]; exact rep_zero P k j c

/-! ### `vmp_prepare`, `vmp_apply_dft_to_dft`: values -/

/-- **`vmp_prepare`, one entry, one prime lane**: the stored q120c lane is a prepared representation of the entry -/
theorem vmpPrepare_rep (P : PrimeSet) (k j : Nat) (c : LaneCtx P k j) (e : Poly) (he : e.length = 2 ^ j)
    (hr : ∀ x ∈ e, -(2 ^ 63) ≤ x ∧ x < 2 ^ 63) :
    PrepRep P k j (vmpPrepareLaneK (P.qs.getD k 1) (realNtt P (2 ^ j) k) e) e := by
  obtain ⟨t, ht, ert⟩ := realNtt_len1 P k j c
  unfold vmpPrepareLaneK
  rw [ert]
  exact (prep_of_rep P k j c _ _ (rep_dft P k j c t ht e he hr)).1

/-- **`vmp_apply_dft_to_dft_core`, one prime lane, full signature**: for arbitrary represented input limbs `A ~ aFlat`
(any `u64` residues) and prepared matrix lanes `M i c ~ m.entry i c`, flat output limb `r` represents flat limb `r` of
`Hal.vmpFlat` — `limb_offset`, the `row_max` / `col_max` sub-shape rule and the zero fill included — and every stored
residue is at most `2^63 + 2^47` -/
theorem vmpApplyLane_rep (P : PrimeSet) (k j : Nat) (c : LaneCtx P k j) (A : List (List Nat)) (aFlat : List Poly)
    (M : Nat → Nat → List (Nat × Nat)) (m : PMat) (limbOffset resLen : Nat)
    (hA : A.length = aFlat.length) (hrow : min (m.colsIn * m.rows) aFlat.length < 10000)
    (hAr : ∀ i (hi : i < aFlat.length), Rep P k j (A.getD i []) (aFlat[i]))
    (hM : ∀ i cc, i < min (m.colsIn * m.rows) aFlat.length → cc < m.colsOut * m.size → PrepRep P k j (M i cc) (m.entry i cc))
    (r : Nat) (hr : r < resLen) :
    Rep P k j
      ((vmpApplyLaneK (P.qs.getD k 1) (bbcH P) (2 ^ j) A M (m.colsIn * m.rows) (m.colsOut * m.size) (limbOffset * m.colsOut) resLen).getD r [])
      ((vmpFlat (2 ^ j) aFlat m limbOffset resLen).getD r (zeroP (2 ^ j))) ∧
    AllLe (2 ^ 63 + 2 ^ 47)
      ((vmpApplyLaneK (P.qs.getD k 1) (bbcH P) (2 ^ j) A M (m.colsIn * m.rows) (m.colsOut * m.size) (limbOffset * m.colsOut) resLen).getD r []) := by
  obtain ⟨hh, hh2⟩ := bbcH_range P
  unfold vmpApplyLaneK vmpFlat
  rw [getD_map_lt _ _ r 0 [] (by simpa using hr), getD_map_lt _ _ r 0 (zeroP (2 ^ j)) (by simpa using hr)]
  have hrr : (List.range resLen).getD r 0 = r := by simp [List.getD, hr]
  rw [hrr, hA]
  by_cases hin : limbOffset * m.colsOut < min (m.colsOut * m.size) (resLen + limbOffset * m.colsOut) ∧
      r < min (m.colsOut * m.size) (resLen + limbOffset * m.colsOut) - limbOffset * m.colsOut
  · rw [if_pos hin, if_pos hin]
    set rowMax := min (m.colsIn * m.rows) aFlat.length with hrm
    have hcc : r + limbOffset * m.colsOut < m.colsOut * m.size := by omega
    have := rep_slots P k j (bbcH P) c hh hh2
      ((List.range rowMax).map (fun i => ((A.getD i []).map u32Pair, M i (r + limbOffset * m.colsOut))))
      ((List.range rowMax).map (fun i => (aFlat.getD i (zeroP (2 ^ j)), m.entry i (r + limbOffset * m.colsOut))))
      (by simpa using hrow) (by simp)
      (by
        intro i hi hi'
        simp only [List.length_map, List.length_range] at hi
        simp only [List.getElem_map, List.getElem_range]
        have hia : i < aFlat.length := by omega
        refine ⟨?_, hM i _ hi hcc⟩
        rw [getD_eq_getElem' aFlat i _ hia]
        exact lrep_split P k j _ _ (hAr i hia))
    rw [List.map_map] at this
    exact this
  · rw [if_neg hin, if_neg hin]
    refine ⟨rep_zero P k j c, ?_⟩
    intro x hx; simp only [List.mem_replicate] at hx; omega

/-- a prepared matrix whose entries are `i64` polynomials of ring degree `2^j` -/
def PMatOK (j : Nat) (m : PMat) : Prop := ∀ i cc, (m.entry i cc).length = 2 ^ j ∧ ∀ x ∈ m.entry i cc, -(2 ^ 63) ≤ x ∧ x < 2 ^ 63

theorem vmpFlat_length (n : Nat) (aFlat : List Poly) (m : PMat) (lo rl : Nat) : (vmpFlat n aFlat m lo rl).length = rl := by
  simp [vmpFlat]

/-- **`vec_znx_dft_apply` on the inputs, `vmp_prepare` on the matrix, `vmp_apply_dft_to_dft(limb_offset)`, `idft` on the
NTT120 back end equal the HAL specification `Hal.vmpFlat`** — for the whole signature: any `limb_offset`, any shapes
(`row_max = min(rows·cols_in, |a|)`, `col_max = min(cols_out·size, |res| + off)`, zero fill), paired and odd columns —
whenever every coefficient of the specified result is at most `(Q−1)/2` in absolute value -/
theorem vmpFullPipeline_exact (P : PrimeSet) (g : P.Good) (ng : P.NttGood) (j : Nat) (hj1 : 1 ≤ j) (hj : j ≤ 16)
    (aFlat : List Poly) (m : PMat) (limbOffset resLen : Nat)
    (ha : ColOK j aFlat) (hm : PMatOK j m) (hrow : min (m.colsIn * m.rows) aFlat.length < 10000)
    (hbound : ∀ r, r < resLen → ∀ i, i < 2 ^ j →
      -(((bigQ P : Int) - 1) / 2) ≤ ((vmpFlat (2 ^ j) aFlat m limbOffset resLen).getD r (zeroP (2 ^ j))).getD i 0 ∧
      ((vmpFlat (2 ^ j) aFlat m limbOffset resLen).getD r (zeroP (2 ^ j))).getD i 0 ≤ ((bigQ P : Int) - 1) / 2) :
    vmpFullPipeline P (2 ^ j) aFlat m limbOffset resLen = vmpFlat (2 ^ j) aFlat m limbOffset resLen := by
  unfold vmpFullPipeline
  simp only []
  apply List.ext_getElem
  · simp [vmpFlat]
  · intro r h1 h2
    simp only [List.length_map, List.length_range] at h1
    rw [List.getElem_map, List.getElem_range]
    have e : (vmpFlat (2 ^ j) aFlat m limbOffset resLen)[r] = (vmpFlat (2 ^ j) aFlat m limbOffset resLen).getD r (zeroP (2 ^ j)) :=
      (getD_eq_getElem' _ r _ h2).symm
    rw [e]
    have lane : ∀ k, k < 4 → Rep P k j
        ((vmpApplyLaneK (P.qs.getD k 1) (bbcH P) (2 ^ j)
          (aFlat.map (fun a => realNtt P (2 ^ j) k (a.map (fun x => bFromU64K (P.qs.getD k 1) (asU64 x)))))
          (fun i c => vmpPrepareLaneK (P.qs.getD k 1) (realNtt P (2 ^ j) k) (m.entry i c)) (m.colsIn * m.rows) (m.colsOut * m.size)
          (limbOffset * m.colsOut) resLen).getD r [])
        ((vmpFlat (2 ^ j) aFlat m limbOffset resLen).getD r (zeroP (2 ^ j))) := by
      intro k hk
      have c := laneCtx_of P ng k j hk hj1 hj
      obtain ⟨t, ht, ert⟩ := realNtt_len1 P k j c
      refine (vmpApplyLane_rep P k j c _ aFlat _ m limbOffset resLen (by simp) hrow ?_ ?_ r h1).1
      · intro i hi
        rw [getD_map_lt _ _ i [] [] hi, getD_eq_getElem' aFlat i [] hi, ert]
        exact rep_dft P k j c t ht _ (ha _ (List.getElem_mem hi)).1 (ha _ (List.getElem_mem hi)).2
      · intro i cc _ _
        exact vmpPrepare_rep P k j c _ (hm i cc).1 (hm i cc).2
    exact idftLimb_eq P g ng j hj1 hj _ _ _ _ _ (lane 0 (by omega)) (lane 1 (by omega)) (lane 2 (by omega)) (lane 3 (by omega)) (hbound r h1)

/-! ### `vmp_apply_dft_to_dft_core`: which kernel call writes which result column, and where it reads -/

/-- the write that produces result column `r`: matrix column `c = r + limb_offset`; the last column of an odd `col_max` uses
the 1-column kernel when it is also the last column of the matrix and the first half of a 2-column call otherwise; every
other column is half `c mod 2` of the 2-column call on the pair `(c − c mod 2, c − c mod 2 + 1)` -/
def vmpSource (limbOffset colMax ncols r : Nat) : VmpWrite :=
  if r + limbOffset = colMax - 1 ∧ colMax % 2 ≠ 0 then ⟨r, decide (ncols ≠ colMax), r + limbOffset, 0⟩
  else ⟨r, true, (r + limbOffset) - (r + limbOffset) % 2, (r + limbOffset) % 2⟩

theorem vmpPairWrites_eq (L : Nat) : ∀ (cnt r : Nat), (r + L) % 2 = 0 →
    vmpPairWrites cnt (r + L) r = (List.range' r (2 * cnt)).map (fun x => (⟨x, true, (x + L) - (x + L) % 2, (x + L) % 2⟩ : VmpWrite)) := by
  intro cnt
  induction cnt with
  | zero => intro r _; rfl
  | succ cnt ih =>
    intro r hr
    have e : 2 * (cnt + 1) = (2 * cnt + 1) + 1 := by omega
    rw [e, List.range'_succ, List.range'_succ]
    simp only [List.map_cons]
    unfold vmpPairWrites
    have h2 := ih (r + 2) (by omega)
    have e2 : r + 2 + L = r + L + 2 := by omega
    rw [e2] at h2
    rw [h2]
    have a1 : (r + L) - (r + L) % 2 = r + L := by omega
    have a2 : (r + 1 + L) % 2 = 1 := by omega
    have a3 : r + 1 + L - 1 = r + L := by omega
    rw [a1, hr, a2, a3]

theorem map_range'_congr {α} (f g : Nat → α) (s n : Nat) (h : ∀ x, s ≤ x → x < s + n → f x = g x) :
    (List.range' s n).map f = (List.range' s n).map g := by
  apply List.map_congr_left
  intro x hx
  rw [List.mem_range'_1] at hx
  exact h x hx.1 hx.2

/-- **the kernel calls of one block iteration write every active result column exactly once, in increasing order**, each
from the source described by `vmpSource` (even and odd `limb_offset`, even and odd `col_max`, last matrix column or not) -/
theorem vmpWrites_eq (L colMax ncols : Nat) (hL : L < colMax) :
    vmpWrites L colMax ncols = (List.range (colMax - L)).map (vmpSource L colMax ncols) := by
  unfold vmpWrites stepBy2Count
  rw [List.range_eq_range']
  by_cases hpar : L % 2 = 0
  · rw [if_pos hpar]
    have hp := vmpPairWrites_eq L ((colMax - 1 - L + 1) / 2) 0 (by omega)
    rw [Nat.zero_add] at hp
    rw [hp]
    by_cases hc : colMax % 2 ≠ 0
    · rw [if_pos ⟨hc, by omega⟩]
      have hn : colMax - L = 2 * ((colMax - 1 - L + 1) / 2) + 1 := by omega
      conv_rhs => rw [hn, List.range'_concat, List.map_append]
      congr 1
      · apply map_range'_congr
        intro x _ hx
        unfold vmpSource
        rw [if_neg (by omega)]
      · simp only [List.map_cons, List.map_nil, Nat.zero_add, Nat.one_mul]
        unfold vmpSource
        rw [if_pos ⟨by omega, hc⟩]
        congr 2 <;> omega
    · rw [if_neg (by tauto), List.append_nil]
      have hn : colMax - L = 2 * ((colMax - 1 - L + 1) / 2) := by omega
      rw [hn]
      apply map_range'_congr
      intro x _ hx
      unfold vmpSource
      rw [if_neg (by omega)]
  · rw [if_neg hpar]
    have hp := vmpPairWrites_eq L ((colMax - 1 - (L + 1) + 1) / 2) 1 (by omega)
    rw [Nat.add_comm 1 L] at hp
    rw [hp]
    have h0 : (⟨0, true, L - 1, 1⟩ : VmpWrite) = ⟨0, true, (0 + L) - (0 + L) % 2, (0 + L) % 2⟩ := by
      congr 1 <;> omega
    rw [h0]
    have hcons : ((⟨0, true, (0 + L) - (0 + L) % 2, (0 + L) % 2⟩ : VmpWrite) ::
        (List.range' 1 (2 * ((colMax - 1 - (L + 1) + 1) / 2))).map (fun x => (⟨x, true, (x + L) - (x + L) % 2, (x + L) % 2⟩ : VmpWrite)))
        = (List.range' 0 (2 * ((colMax - 1 - (L + 1) + 1) / 2) + 1)).map (fun x => (⟨x, true, (x + L) - (x + L) % 2, (x + L) % 2⟩ : VmpWrite)) := by
      rw [List.range'_succ, List.map_cons]
    rw [hcons]
    by_cases hc : colMax % 2 ≠ 0
    · rw [if_pos ⟨hc, by omega⟩]
      have hn : colMax - L = (2 * ((colMax - 1 - (L + 1) + 1) / 2) + 1) + 1 := by omega
      conv_rhs => rw [hn, List.range'_concat, List.map_append]
      congr 1
      · apply map_range'_congr
        intro x _ hx
        unfold vmpSource
        rw [if_neg (by omega)]
      · simp only [List.map_cons, List.map_nil, Nat.zero_add, Nat.one_mul]
        unfold vmpSource
        rw [if_pos ⟨by omega, hc⟩]
        congr 2 <;> omega
    · rw [if_neg (by tauto), List.append_nil]
      have hn : colMax - L = 2 * ((colMax - 1 - (L + 1) + 1) / 2) + 1 := by omega
      rw [hn]
      apply map_range'_congr
      intro x _ hx
      unfold vmpSource
      rw [if_neg (by omega)]

/-- **every kernel call reads exactly where `vmp_prepare` stored the entry**: for the write producing result column `r`,
the 16-word block read for row `i` is the slot of entry `(i, r + limb_offset)` -/
theorem vmpReadAddr_eq_slot (nrows ncols L colMax r blk i : Nat) (hL : L < colMax) (hcm : colMax ≤ ncols) (hr : r < colMax - L) :
    vmpReadAddr nrows ncols (vmpSource L colMax ncols r) blk i = vmpSlotAddr nrows ncols i (r + L) blk := by
  unfold vmpReadAddr vmpSlotAddr vmpSource
  obtain ⟨d, hd⟩ : ∃ d, r + L = 2 * d + (r + L) % 2 := ⟨(r + L) / 2, by omega⟩
  have hdiv : (r + L) / 2 = d := by omega
  by_cases h1 : r + L = colMax - 1 ∧ colMax % 2 ≠ 0
  · rw [if_pos h1]
    simp only []
    by_cases h2 : ncols = colMax
    · have hcond : r + L = ncols - 1 ∧ ncols % 2 ≠ 0 := by rw [h2]; exact h1
      rw [if_pos hcond]
      simp only [h2, ne_eq, not_true_eq_false, decide_false, Bool.false_eq_true, if_false]
      ring
    · have hcond : ¬ (r + L = ncols - 1 ∧ ncols % 2 ≠ 0) := by omega
      rw [if_neg hcond, hdiv]
      simp only [ne_eq, h2, not_false_eq_true, decide_true, if_true]
      have hm : (r + L) % 2 = 0 := by omega
      rw [hm] at hd ⊢
      rw [hd]; ring
  · rw [if_neg h1]
    simp only [if_true]
    have hcond : ¬ (r + L = ncols - 1 ∧ ncols % 2 ≠ 0) := by omega
    rw [if_neg hcond, hdiv]
    rcases Nat.mod_two_eq_zero_or_one (r + L) with hm | hm
    · rw [hm] at hd ⊢
      rw [hd]; simp only [Nat.add_zero, Nat.sub_zero]; ring
    · rw [hm] at hd ⊢
      rw [hd]; simp only [Nat.add_sub_cancel]; ring

/-! ### `vmp_prepare`: the slots of distinct entries are disjoint and inside the buffer -/

/-- slot number (in 16-word units inside one block) of entry `(row, col)` -/
def vmpSlotIdx (nrows ncols row col : Nat) : Nat :=
  if col = ncols - 1 ∧ ncols % 2 ≠ 0 then col * nrows + row else (col / 2) * (2 * nrows) + (2 * row + col % 2)

theorem vmpSlotAddr_eq (nrows ncols row col blk : Nat) :
    vmpSlotAddr nrows ncols row col blk = 16 * (blk * (nrows * ncols) + vmpSlotIdx nrows ncols row col) := by
  unfold vmpSlotAddr vmpSlotIdx
  split <;> ring

theorem euclid_unique (m A B A' B' : Nat) (hB : B < m) (hB' : B' < m) (h : A * m + B = A' * m + B') : A = A' ∧ B = B' := by
  have hm : 0 < m := by omega
  have h1 : (A * m + B) / m = A := by
    rw [Nat.add_comm, Nat.add_mul_div_right _ _ hm, Nat.div_eq_of_lt hB, Nat.zero_add]
  have h2 : (A' * m + B') / m = A' := by
    rw [Nat.add_comm, Nat.add_mul_div_right _ _ hm, Nat.div_eq_of_lt hB', Nat.zero_add]
  have hA : A = A' := by rw [← h1, ← h2, h]
  subst hA
  exact ⟨rfl, by omega⟩

theorem vmpSlotIdx_paired_lt (nrows ncols row col : Nat) (hrow : row < nrows) (hcol : col < ncols)
    (hp : ¬ (col = ncols - 1 ∧ ncols % 2 ≠ 0)) :
    (col / 2) * (2 * nrows) + (2 * row + col % 2) < (2 * (ncols / 2)) * nrows := by
  have h1 : col / 2 + 1 ≤ ncols / 2 := by omega
  have h2 := Nat.mul_le_mul_right (2 * nrows) h1
  have e : (2 * (ncols / 2)) * nrows = (ncols / 2) * (2 * nrows) := by ring
  rw [e]
  have e2 : (col / 2 + 1) * (2 * nrows) = (col / 2) * (2 * nrows) + 2 * nrows := by ring
  omega

theorem vmpSlotIdx_lt (nrows ncols row col : Nat) (hrow : row < nrows) (hcol : col < ncols) :
    vmpSlotIdx nrows ncols row col < nrows * ncols := by
  unfold vmpSlotIdx
  split
  · rename_i h
    have e : nrows * ncols = col * nrows + nrows := by
      have : ncols = col + 1 := by omega
      rw [this]; ring
    omega
  · rename_i h
    have := vmpSlotIdx_paired_lt nrows ncols row col hrow hcol h
    have h2 : (2 * (ncols / 2)) * nrows ≤ ncols * nrows := Nat.mul_le_mul_right _ (by omega)
    rw [Nat.mul_comm nrows ncols]; omega

theorem vmpSlotIdx_inj (nrows ncols row col row' col' : Nat) (hrow : row < nrows) (hcol : col < ncols)
    (hrow' : row' < nrows) (hcol' : col' < ncols) (h : vmpSlotIdx nrows ncols row col = vmpSlotIdx nrows ncols row' col') :
    row = row' ∧ col = col' := by
  by_cases s1 : col = ncols - 1 ∧ ncols % 2 ≠ 0 <;> by_cases s2 : col' = ncols - 1 ∧ ncols % 2 ≠ 0
  · unfold vmpSlotIdx at h
    rw [if_pos s1, if_pos s2] at h
    obtain ⟨a, _⟩ := s1; obtain ⟨b, _⟩ := s2
    rw [a, b] at h ⊢
    exact ⟨by omega, rfl⟩
  · exfalso
    have hp := vmpSlotIdx_paired_lt nrows ncols row' col' hrow' hcol' s2
    unfold vmpSlotIdx at h
    rw [if_pos s1, if_neg s2] at h
    have e : 2 * (ncols / 2) = col := by omega
    rw [e] at hp
    omega
  · exfalso
    have hp := vmpSlotIdx_paired_lt nrows ncols row col hrow hcol s1
    unfold vmpSlotIdx at h
    rw [if_neg s1, if_pos s2] at h
    have e : 2 * (ncols / 2) = col' := by omega
    rw [e] at hp
    omega
  · unfold vmpSlotIdx at h
    rw [if_neg s1, if_neg s2] at h
    obtain ⟨a, b⟩ := euclid_unique (2 * nrows) _ _ _ _ (by omega) (by omega) h
    exact ⟨by omega, by omega⟩

/-- **`vmp_prepare` never overwrites an entry with another one and stays inside the buffer**: the 16-word slots of distinct
`(row, col, blk)` are distinct multiples of 16 (hence disjoint), and all of them lie below `n_blks · nrows · ncols · 16` -/
theorem vmpSlotAddr_inj_bound (nrows ncols nblks row col blk row' col' blk' : Nat) (hrow : row < nrows) (hcol : col < ncols)
    (hblk : blk < nblks) (hrow' : row' < nrows) (hcol' : col' < ncols) :
    vmpSlotAddr nrows ncols row col blk % 16 = 0 ∧
    vmpSlotAddr nrows ncols row col blk + 16 ≤ nblks * (nrows * ncols * 16) ∧
    (vmpSlotAddr nrows ncols row col blk = vmpSlotAddr nrows ncols row' col' blk' → row = row' ∧ col = col' ∧ blk = blk') := by
  have hi := vmpSlotIdx_lt nrows ncols row col hrow hcol
  have hi' := vmpSlotIdx_lt nrows ncols row' col' hrow' hcol'
  rw [vmpSlotAddr_eq, vmpSlotAddr_eq]
  refine ⟨by omega, ?_, ?_⟩
  · have h1 : (blk + 1) * (nrows * ncols) ≤ nblks * (nrows * ncols) := Nat.mul_le_mul_right _ (by omega)
    have e1 : (blk + 1) * (nrows * ncols) = blk * (nrows * ncols) + nrows * ncols := by ring
    have e2 : nblks * (nrows * ncols * 16) = 16 * (nblks * (nrows * ncols)) := by ring
    rw [e2]; omega
  · intro h
    have h' : blk * (nrows * ncols) + vmpSlotIdx nrows ncols row col = blk' * (nrows * ncols) + vmpSlotIdx nrows ncols row' col' := by omega
    obtain ⟨a, b⟩ := euclid_unique (nrows * ncols) _ _ _ _ hi hi' h'
    obtain ⟨c, d⟩ := vmpSlotIdx_inj nrows ncols row col row' col' hrow hcol hrow' hcol' b
    exact ⟨c, d, a⟩

end Ntt120
