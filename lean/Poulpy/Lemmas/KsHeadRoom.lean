import Poulpy.Lemmas.KsDecrypt
import Poulpy.Lemmas.ProductBound

/-!
# The executed GLWE key switch: head-room derived from digit bounds, and the general regime with a closed truncation bound

* Part 0 — `Core.product_bound` (`Lemmas/ProductBound.lean`, the part of `Lemmas/HeadRoom.lean` that does not depend on Props/C03): every
  coefficient of the executed `Ks.gglweProductDft` is bounded by `dsize·(cols_in·rows)·N·Da·Dm`.
* Part 1 — `glwe_keyswitch_value_adm`, `glwe_keyswitch_decrypts_adm`, `glwe_keyswitch_assign_decrypts_adm`: the theorems of
  `Lemmas/KsDecrypt.lean` with the three accumulator hypotheses (`hHp0`, `hAcc`, `hprod`) replaced by a bound `Dm` on the key digits and ONE
  decidable admissible-shape inequality `ksAdmissible`, discharged by `decide` on the crate's parameter sets.
* Part 2 — `glwe_keyswitch_decrypts_general`: no coverage hypothesis (`hcov1`, `hcov2` dropped); the limbs of the converted input that the
  key does not reach are ONE explicit coefficient list `truncL` with a closed bound, added to the error.
-/

namespace KsDec
open Hal Core Core.Ops C02L

/-! ## Part 1: the key switch with the head-room derived from digit bounds -/

theorem setAct_data_PB {n : Nat} {D : Int} (b : Buf) (c : Nat) (x : Col) (hb : ∀ col ∈ b.data, ∀ p ∈ col, PB n D p)
    (hx : ∀ p ∈ x, PB n D p) : ∀ col ∈ (b.setAct c x).data, ∀ p ∈ col, PB n D p := by
  intro col hcol p hp
  unfold Buf.setAct at hcol
  simp only at hcol
  rcases List.mem_or_eq_of_mem_set hcol with h | h
  · exact hb col h p hp
  · subst h
    rcases List.mem_append.mp hp with h1 | h1
    · exact hx p (List.mem_of_mem_take h1)
    · have h2 := List.mem_of_mem_drop h1
      rw [List.getD_eq_getElem?_getD] at h2
      cases hc : b.data[c]? with
      | none => simp [hc] at h2
      | some col0 =>
        simp only [hc, Option.getD_some] at h2
        exact hb col0 (List.mem_of_getElem? hc) p h2

/-- every stored limb of the `a_dft` buffer of `glwe_keyswitch_internal` is bounded by the digit bound of the input -/
theorem aDft_data_PB {N : Nat} (a : Ks.Ct) (Da : Int) (hDa : 0 ≤ Da) (ha : GWF N a)
    (hdig : ∀ c ∈ a.cols, ∀ l ∈ c, ∀ x ∈ l, |x| ≤ Da) : ∀ col ∈ (aDftOf a).data, ∀ p ∈ col, PB N Da p := by
  have hsrc : ∀ col ∈ (Ks.bufOfCols a.n a.size a.cols).data, ∀ l ∈ col, PB N Da l := by
    intro col hcol l hl
    exact ⟨le_of_eq ((ha.2.2 col hcol).2 l hl), hdig col hcol l hl⟩
  have hinv : ∀ (L : List Nat) (acc : Buf), acc.n = N → (∀ col ∈ acc.data, ∀ p ∈ col, PB N Da p) →
      ∀ col ∈ (L.foldl (fun (acc : Buf) ci => opDftApply 1 0 acc ci (Ks.bufOfCols a.n a.size a.cols) (ci + 1)) acc).data,
        ∀ p ∈ col, PB N Da p := by
    intro L
    induction L with
    | nil => intro acc _ h; simpa using h
    | cons c0 rest ih =>
      intro acc hn h
      simp only [List.foldl_cons]
      apply ih
      · show acc.n = N
        exact hn
      · unfold opDftApply
        apply setAct_data_PB acc c0 _ h
        rw [hn]
        exact dftApplyCol_PB _ _ _ _ (act_PB _ _ hsrc) hDa
  unfold aDftOf
  apply hinv _ _ ha.1
  intro col hcol p hp
  unfold Ks.zeroBuf at hcol
  simp only [List.mem_replicate] at hcol
  rw [hcol.2] at hp
  unfold Ks.zeroCol at hp
  simp only [List.mem_replicate] at hp
  rw [hp.2, ha.1]
  exact PB_zero N Da hDa

/-- **the product buffer of `glwe_keyswitch`, bounded from digit bounds**: input digits `≤ Da`, key digits `≤ Dm` ⇒ every coefficient of
`prodOf rout a key` is bounded by `prodBound = dsize·(cols_in·rows)·N·Da·Dm`. -/
theorem prodOf_bound (N rout : Nat) (a : Ks.Ct) (key : Ks.Key) (Da Dm : Int) (hDa : 0 ≤ Da) (hDm : 0 ≤ Dm) (hD : 1 ≤ key.dsize)
    (ha : GWF N a) (hrout : rout + 1 = key.mat.colsOut)
    (hdig : ∀ c ∈ a.cols, ∀ l ∈ c, ∀ x ∈ l, |x| ≤ Da) (hm : ∀ j q, normInf (key.mat.entry j q) ≤ Dm) :
    ∀ i, i < rout + 1 → ∀ l ∈ (prodOf rout a key).act i, ∀ x ∈ l,
      |x| ≤ prodBound key.dsize key.mat.colsIn key.mat.rows N Da Dm := by
  intro i hi l hl x hx
  obtain ⟨_, _, _, dn, _, _⟩ := aDft_spec a ha
  have hb := product_bound N (Ks.zeroBuf a.n (rout + 1) key.size) (aDftOf a) key Da Dm hDa hDm hD (Ks.zeroBuf_WF _ _ _) rfl rfl hrout
    ha.1 dn (aDft_data_PB a Da hDa ha hdig) hm i hi l hl
  exact (abs_le_normInf hx).trans hb

/-- **admissible shape of a key switch**: input digits `≤ Hin` (hence `≤ Hin + 2^b_key` after the radix conversion), key digits `≤ Dm`:
the derived bound of the product plus the body leaves the head-room of `vec_znx_big_normalize`, `bits = 64` (FFT64) or `128` (NTT120). -/
def ksAdmShape (bits dsize colsIn rows N bkey : Nat) (Hin Dm : Int) : Prop :=
  prodAdmissible bits dsize colsIn rows N (Hin + 2 ^ bkey) Dm (Hin + 2 ^ bkey)

instance (bits dsize colsIn rows N bkey : Nat) (Hin Dm : Int) : Decidable (ksAdmShape bits dsize colsIn rows N bkey Hin Dm) := by
  unfold ksAdmShape; infer_instance

/-- the admissible-shape inequality of `glwe_keyswitch(…, key)` on a ring of degree `N`:
`dsize·(rank_in·dnum)·N·(Hin + 2^b_key)·Dm + (Hin + 2^b_key) + 8 ≤ 2^62` (resp. `2^126`) -/
def ksAdmissible (big128 : Bool) (key : Ks.Key) (N : Nat) (Hin Dm : Int) : Prop :=
  ksAdmShape (bitsOf big128) key.dsize key.mat.colsIn key.mat.rows N key.base2k Hin Dm

instance (big128 : Bool) (key : Ks.Key) (N : Nat) (Hin Dm : Int) : Decidable (ksAdmissible big128 key N Hin Dm) := by
  unfold ksAdmissible; infer_instance

theorem ksAdmissible_iff (big128 : Bool) (key : Ks.Key) (N : Nat) (Hin Dm : Int) :
    ksAdmissible big128 key N Hin Dm ↔
      prodBound key.dsize key.mat.colsIn key.mat.rows N (Hin + 2 ^ key.base2k) Dm + (Hin + 2 ^ key.base2k) + 8
        ≤ 2 ^ (bitsOf big128 - 2) := Iff.rfl

/-- the crate's parameter sets are admissible (balanced digits `2^(b−1)` of the input and of the key): FFT64 `N = 4096`, rank 1 → 1,
`dsize = 1`, `dnum = 3`, `b = 17`; FFT64 `N = 1024`, rank 2 → 2, `dsize = 2`, `dnum = 2`, `b = 12`; NTT120 `N = 4096`, rank 1, `b = 52`,
`dnum = 8` on the `i128` accumulator — and `b = 52` is NOT admissible on the `i64` accumulator -/
example : ksAdmShape 64 1 1 3 4096 17 (2 ^ 16) (2 ^ 16) ∧ ksAdmShape 64 2 2 2 1024 12 (2 ^ 11) (2 ^ 11) ∧
    ksAdmShape 128 1 1 8 4096 52 (2 ^ 51) (2 ^ 51) ∧ ¬ ksAdmShape 64 1 1 8 4096 52 (2 ^ 51) (2 ^ 51) := by decide


/-- the product bound for whatever `Ks.convIn` returns -/
theorem prodOf_conv_bound (N rout : Nat) (a : Ks.Ct) (key : Ks.Key) (Hin Dm : Int) (ha : GWF N a) (hrout : rout + 1 = key.mat.colsOut)
    (hD : 1 ≤ key.dsize) (hbi1 : 1 ≤ a.base2k) (hbi : a.base2k ≤ 62) (hbk1 : 1 ≤ key.base2k) (hbk : key.base2k ≤ 62)
    (hIn0 : 0 ≤ Hin) (hIn : Hin + 8 ≤ 2 ^ 62) (hInB : ∀ c ∈ a.cols, ∀ l ∈ c, ∀ x ∈ l, |x| ≤ Hin)
    (hDm0 : 0 ≤ Dm) (hm : ∀ j q, normInf (key.mat.entry j q) ≤ Dm) :
    ∀ aConv, Ks.convIn a key = .ok aConv → ∀ i, i < rout + 1 → ∀ l ∈ (prodOf rout aConv key).act i, ∀ x ∈ l,
      |x| ≤ prodBound key.dsize key.mat.colsIn key.mat.rows N (Hin + 2 ^ key.base2k) Dm := by
  intro aConv hconv
  obtain ⟨aConv', hconv', gwC, _, _, _, hdigC, _⟩ := convIn_phase N a key Hin ha hbi1 hbi hbk1 hbk hIn0 hIn hInB
  rw [hconv] at hconv'
  injection hconv' with e
  subst e
  have hpk : (0 : Int) < 2 ^ key.base2k := by positivity
  exact prodOf_bound N rout aConv key (Hin + 2 ^ key.base2k) Dm (by linarith) hDm0 hD gwC hrout hdigC hm

/-- **`glwe_keyswitch_value_adm`** — `glwe_keyswitch_value` (general regime) with the head-room DERIVED: the hypotheses `hHp0`, `hAcc`, `hprod` on
the executed product buffer are replaced by a bound `Dm` on the key digits and the decidable inequality `ksAdmissible`. -/
theorem glwe_keyswitch_value_adm (big128 : Bool) (N bout sout rout : Nat) (a : Ks.Ct) (key : Ks.Key) (sIn skOut : List Poly)
    (EL KL : ℕ → ℕ → Poly) (Hin Dm : Int)
    (hN : 0 < N) (ha : GWF N a) (hrank : a.rank = key.rankIn) (hrout : rout = key.rankOut) (hc0 : 0 < key.mat.colsOut)
    (hD : 1 ≤ key.dsize) (hM : ∀ j q, (key.mat.entry j q).length = N) (hS : key.mat.rows * key.dsize ≤ key.mat.size)
    (hbi1 : 1 ≤ a.base2k) (hbi : a.base2k ≤ 62) (hbk1 : 1 ≤ key.base2k) (hbk : key.base2k ≤ 62) (hbo1 : 1 ≤ bout) (hbo : bout ≤ 62)
    (hIn0 : 0 ≤ Hin) (hIn : Hin + 8 ≤ 2 ^ 62) (hInB : ∀ c ∈ a.cols, ∀ l ∈ c, ∀ x ∈ l, |x| ≤ Hin)
    (hDm0 : 0 ≤ Dm) (hm : ∀ j q, normInf (key.mat.entry j q) ≤ Dm) (hadm : ksAdmissible big128 key N Hin Dm)
    (hEL : ∀ i r, (EL i r).length = N) (hKL : ∀ i r, (KL i r).length = N)
    (hkey : ∀ i, i < key.mat.colsIn → ∀ r, r < key.mat.rows →
      Gadget.val (Ks.radix N key.base2k) key.mat.size (Ks.keyPhase N skOut key.mat i r) =
        Ks.ι N (sIn.getD i []) * Ks.radix N key.base2k ^ (key.mat.size - (r + 1) * key.dsize) + Ks.ι N (EL i r)
          + Ks.radix N key.base2k ^ key.mat.size * Ks.ι N (KL i r)) :
    ∃ res aConv, Ks.keyswitch big128 bout sout rout a key = .ok res ∧ Ks.convIn a key = .ok aConv ∧
      GWF N aConv ∧ aConv.base2k = key.base2k ∧ aConv.rank = a.rank ∧ aConv.size = convSize a key ∧
      GWF N res ∧ res.base2k = bout ∧ res.size = sout ∧ res.rank = rout ∧
      ∃ E1 Q1 E3 Q3 : Poly, E1.length = N ∧ Q1.length = N ∧ E3.length = N ∧ Q3.length = N ∧
        normInf E1 ≤ (1 + snorm (min a.rank sIn.length) sIn) * C02.normTol (key.base2k * convSize a key) (a.base2k * a.size) ∧
        normInf E3 ≤ (1 + snorm (min rout skOut.length) skOut) * C02.normTol (bout * sout) (key.base2k * key.mat.size) ∧
        (2 : Ks.R N) ^ (a.base2k * a.size) * Ks.ι N (valP key.base2k N (phase sIn aConv))
          = (2 : Ks.R N) ^ (key.base2k * convSize a key) * Ks.ι N (valP a.base2k N (phase sIn a)) + Ks.ι N E1
            + (2 : Ks.R N) ^ (key.base2k * convSize a key + a.base2k * a.size) * Ks.ι N Q1 ∧
        (2 : Ks.R N) ^ (key.base2k * key.mat.size) * Ks.ι N (valP bout N (phase skOut res))
          = (2 : Ks.R N) ^ (bout * sout) *
              (∑ i ∈ Finset.range key.mat.colsIn, Ks.ι N (sIn.getD i []) *
                  Gadget.usedVal (Ks.radix N key.base2k) key.mat.size key.dsize key.mat.rows aConv.size (Ks.inLimb N (aDftOf aConv) i)
                + Ks.ι N (valP key.base2k N (fit N key.mat.size (aConv.cols.getD 0 [])))
                + Ks.ι N (Ks.errL N key.base2k (aDftOf aConv) key EL) - Ks.ι N (Ks.dropL N key.base2k skOut (aDftOf aConv) key))
            + Ks.ι N E3
            + (2 : Ks.R N) ^ (bout * sout + key.base2k * key.mat.size) *
                (Ks.ι N Q3 + Ks.ι N (Ks.errL N key.base2k (aDftOf aConv) key KL)
                  - ∑ i ∈ Finset.range key.mat.colsIn,
                      Gadget.head (Ks.radix N key.base2k) key.dsize key.mat.rows aConv.size (Ks.inLimb N (aDftOf aConv) i)
                        (Ks.keyPhase N skOut key.mat i)) := by
  have hrout' : rout + 1 = key.mat.colsOut := by rw [hrout]; unfold Ks.Key.rankOut; omega
  have hpk : (0 : Int) < 2 ^ key.base2k := by positivity
  exact glwe_keyswitch_value big128 N bout sout rout a key sIn skOut EL KL Hin
    (prodBound key.dsize key.mat.colsIn key.mat.rows N (Hin + 2 ^ key.base2k) Dm) hN ha hrank hrout hc0 hD hM hS hbi1 hbi hbk1 hbk hbo1 hbo
    hIn0 hIn hInB (prodBound_nonneg _ _ _ _ _ _ (by linarith) hDm0) hadm
    (prodOf_conv_bound N rout a key Hin Dm ha hrout' hD hbi1 hbi hbk1 hbk hIn0 hIn hInB hDm0 hm) hEL hKL hkey

/-- **`glwe_keyswitch_decrypts_adm`** — the end-to-end theorem `glwe_keyswitch_decrypts` (covered regime) with the head-room DERIVED from digit
bounds: input digits `≤ Hin` (`Hin + 8 ≤ 2^62`), key digits `≤ Dm`, and ONE decidable admissible-shape inequality
`dsize·(rank_in·dnum)·N·(Hin + 2^b_key)·Dm + (Hin + 2^b_key) + 8 ≤ 2^62` (FFT64) resp. `2^126` (NTT120) — no hypothesis on the executed product
buffer is left. -/
theorem glwe_keyswitch_decrypts_adm (big128 : Bool) (N bout sout rout : Nat) (a : Ks.Ct) (key : Ks.Key) (sIn skOut : List Poly)
    (EL KL : ℕ → ℕ → Poly) (Hin Dm : Int)
    (hN : 0 < N) (ha : GWF N a) (hrank : a.rank = key.rankIn) (hrout : rout = key.rankOut) (hc0 : 0 < key.mat.colsOut)
    (hD : 1 ≤ key.dsize) (hM : ∀ j q, (key.mat.entry j q).length = N) (hS : key.mat.rows * key.dsize ≤ key.mat.size)
    (hbi1 : 1 ≤ a.base2k) (hbi : a.base2k ≤ 62) (hbk1 : 1 ≤ key.base2k) (hbk : key.base2k ≤ 62) (hbo1 : 1 ≤ bout) (hbo : bout ≤ 62)
    (hIn0 : 0 ≤ Hin) (hIn : Hin + 8 ≤ 2 ^ 62) (hInB : ∀ c ∈ a.cols, ∀ l ∈ c, ∀ x ∈ l, |x| ≤ Hin)
    (hDm0 : 0 ≤ Dm) (hm : ∀ j q, normInf (key.mat.entry j q) ≤ Dm) (hadm : ksAdmissible big128 key N Hin Dm)
    (hs : key.mat.colsIn ≤ sIn.length)
    (hEL : ∀ i r, (EL i r).length = N) (hKL : ∀ i r, (KL i r).length = N)
    (hkey : ∀ i, i < key.mat.colsIn → ∀ r, r < key.mat.rows →
      Gadget.val (Ks.radix N key.base2k) key.mat.size (Ks.keyPhase N skOut key.mat i r) =
        Ks.ι N (sIn.getD i []) * Ks.radix N key.base2k ^ (key.mat.size - (r + 1) * key.dsize) + Ks.ι N (EL i r)
          + Ks.radix N key.base2k ^ key.mat.size * Ks.ι N (KL i r))
    (hcov1 : convSize a key ≤ key.mat.size) (hcov2 : convSize a key ≤ key.mat.rows * key.dsize) :
    ∃ res aConv, Ks.keyswitch big128 bout sout rout a key = .ok res ∧ Ks.convIn a key = .ok aConv ∧
      GWF N res ∧ res.base2k = bout ∧ res.size = sout ∧ res.rank = rout ∧
      ∃ (E1 E3 : Poly) (Q : Ks.R N), E1.length = N ∧ E3.length = N ∧
        normInf E1 ≤ (1 + snorm (min a.rank sIn.length) sIn) * C02.normTol (key.base2k * convSize a key) (a.base2k * a.size) ∧
        normInf E3 ≤ (1 + snorm (min rout skOut.length) skOut) * C02.normTol (bout * sout) (key.base2k * key.mat.size) ∧
        (2 : Ks.R N) ^ (a.base2k * a.size + key.base2k * key.mat.size) * Ks.ι N (valP bout N (phase skOut res))
          = (2 : Ks.R N) ^ (bout * sout + key.base2k * key.mat.size) * Ks.ι N (valP a.base2k N (phase sIn a))
            + Ks.ι N (ksErr (2 ^ (bout * sout + key.base2k * (key.mat.size - convSize a key))) (2 ^ (a.base2k * a.size + bout * sout))
                (2 ^ (a.base2k * a.size)) E1 (Ks.errL N key.base2k (aDftOf aConv) key EL)
                (Ks.dropL N key.base2k skOut (aDftOf aConv) key) E3)
            + (2 : Ks.R N) ^ (a.base2k * a.size + bout * sout + key.base2k * key.mat.size) * Q ∧
        normInf (ksErr (2 ^ (bout * sout + key.base2k * (key.mat.size - convSize a key))) (2 ^ (a.base2k * a.size + bout * sout))
                (2 ^ (a.base2k * a.size)) E1 (Ks.errL N key.base2k (aDftOf aConv) key EL)
                (Ks.dropL N key.base2k skOut (aDftOf aConv) key) E3)
          ≤ 2 ^ (bout * sout + key.base2k * (key.mat.size - convSize a key)) *
              ((1 + snorm (min a.rank sIn.length) sIn) * C02.normTol (key.base2k * convSize a key) (a.base2k * a.size))
            + 2 ^ (a.base2k * a.size + bout * sout) * gadgetBound N key.base2k (aDftOf aConv) key EL
            + 2 ^ (a.base2k * a.size + bout * sout) * dropBound N key.base2k skOut (aDftOf aConv) key
            + 2 ^ (a.base2k * a.size) *
              ((1 + snorm (min rout skOut.length) skOut) * C02.normTol (bout * sout) (key.base2k * key.mat.size)) := by
  have hrout' : rout + 1 = key.mat.colsOut := by rw [hrout]; unfold Ks.Key.rankOut; omega
  have hpk : (0 : Int) < 2 ^ key.base2k := by positivity
  exact glwe_keyswitch_decrypts big128 N bout sout rout a key sIn skOut EL KL Hin
    (prodBound key.dsize key.mat.colsIn key.mat.rows N (Hin + 2 ^ key.base2k) Dm) hN ha hrank hrout hc0 hD hM hS hbi1 hbi hbk1 hbk hbo1 hbo
    hIn0 hIn hInB (prodBound_nonneg _ _ _ _ _ _ (by linarith) hDm0) hadm
    (prodOf_conv_bound N rout a key Hin Dm ha hrout' hD hbi1 hbi hbk1 hbk hIn0 hIn hInB hDm0 hm) hs hEL hKL hkey hcov1 hcov2

/-- **`glwe_keyswitch_assign_decrypts_adm`** — the in-place form, head-room derived. -/
theorem glwe_keyswitch_assign_decrypts_adm (big128 : Bool) (N : Nat) (a : Ks.Ct) (key : Ks.Key) (sIn skOut : List Poly)
    (EL KL : ℕ → ℕ → Poly) (Hin Dm : Int)
    (hN : 0 < N) (ha : GWF N a) (hrank : a.rank = key.rankIn) (hrout : a.rank = key.rankOut) (hc0 : 0 < key.mat.colsOut)
    (hD : 1 ≤ key.dsize) (hM : ∀ j q, (key.mat.entry j q).length = N) (hS : key.mat.rows * key.dsize ≤ key.mat.size)
    (hbi1 : 1 ≤ a.base2k) (hbi : a.base2k ≤ 62) (hbk1 : 1 ≤ key.base2k) (hbk : key.base2k ≤ 62)
    (hIn0 : 0 ≤ Hin) (hIn : Hin + 8 ≤ 2 ^ 62) (hInB : ∀ c ∈ a.cols, ∀ l ∈ c, ∀ x ∈ l, |x| ≤ Hin)
    (hDm0 : 0 ≤ Dm) (hm : ∀ j q, normInf (key.mat.entry j q) ≤ Dm) (hadm : ksAdmissible big128 key N Hin Dm)
    (hs : key.mat.colsIn ≤ sIn.length)
    (hEL : ∀ i r, (EL i r).length = N) (hKL : ∀ i r, (KL i r).length = N)
    (hkey : ∀ i, i < key.mat.colsIn → ∀ r, r < key.mat.rows →
      Gadget.val (Ks.radix N key.base2k) key.mat.size (Ks.keyPhase N skOut key.mat i r) =
        Ks.ι N (sIn.getD i []) * Ks.radix N key.base2k ^ (key.mat.size - (r + 1) * key.dsize) + Ks.ι N (EL i r)
          + Ks.radix N key.base2k ^ key.mat.size * Ks.ι N (KL i r))
    (hcov1 : convSize a key ≤ key.mat.size) (hcov2 : convSize a key ≤ key.mat.rows * key.dsize) :
    ∃ res aConv, Ks.keyswitch big128 a.base2k a.size a.rank a key = .ok res ∧ Ks.convIn a key = .ok aConv ∧
      GWF N res ∧ res.base2k = a.base2k ∧ res.size = a.size ∧ res.rank = a.rank ∧
      ∃ (E1 E3 : Poly) (Q : Ks.R N), E1.length = N ∧ E3.length = N ∧
        normInf E1 ≤ (1 + snorm (min a.rank sIn.length) sIn) * C02.normTol (key.base2k * convSize a key) (a.base2k * a.size) ∧
        normInf E3 ≤ (1 + snorm (min a.rank skOut.length) skOut) * C02.normTol (a.base2k * a.size) (key.base2k * key.mat.size) ∧
        (2 : Ks.R N) ^ (a.base2k * a.size + key.base2k * key.mat.size) * Ks.ι N (valP a.base2k N (phase skOut res))
          = (2 : Ks.R N) ^ (a.base2k * a.size + key.base2k * key.mat.size) * Ks.ι N (valP a.base2k N (phase sIn a))
            + Ks.ι N (ksErr (2 ^ (a.base2k * a.size + key.base2k * (key.mat.size - convSize a key))) (2 ^ (a.base2k * a.size + a.base2k * a.size))
                (2 ^ (a.base2k * a.size)) E1 (Ks.errL N key.base2k (aDftOf aConv) key EL)
                (Ks.dropL N key.base2k skOut (aDftOf aConv) key) E3)
            + (2 : Ks.R N) ^ (a.base2k * a.size + a.base2k * a.size + key.base2k * key.mat.size) * Q ∧
        normInf (ksErr (2 ^ (a.base2k * a.size + key.base2k * (key.mat.size - convSize a key))) (2 ^ (a.base2k * a.size + a.base2k * a.size))
                (2 ^ (a.base2k * a.size)) E1 (Ks.errL N key.base2k (aDftOf aConv) key EL)
                (Ks.dropL N key.base2k skOut (aDftOf aConv) key) E3)
          ≤ 2 ^ (a.base2k * a.size + key.base2k * (key.mat.size - convSize a key)) *
              ((1 + snorm (min a.rank sIn.length) sIn) * C02.normTol (key.base2k * convSize a key) (a.base2k * a.size))
            + 2 ^ (a.base2k * a.size + a.base2k * a.size) * gadgetBound N key.base2k (aDftOf aConv) key EL
            + 2 ^ (a.base2k * a.size + a.base2k * a.size) * dropBound N key.base2k skOut (aDftOf aConv) key
            + 2 ^ (a.base2k * a.size) *
              ((1 + snorm (min a.rank skOut.length) skOut) * C02.normTol (a.base2k * a.size) (key.base2k * key.mat.size)) :=
  glwe_keyswitch_decrypts_adm big128 N a.base2k a.size a.rank a key sIn skOut EL KL Hin Dm hN ha hrank hrout hc0 hD hM hS hbi1 hbi hbk1 hbk
    hbi1 hbi hIn0 hIn hInB hDm0 hm hadm hs hEL hKL hkey hcov1 hcov2

/-! ## Part 2: the general regime — the limbs of the input the key does not reach, as one explicit list with a closed bound -/

theorem rowsOf_min (aSize dsize dnum di : ℕ) (hd : 0 < dsize) (hdi : di < dsize) :
    Gadget.rowsOf (min aSize (dnum * dsize)) dsize dnum di = Gadget.rowsOf aSize dsize dnum di := by
  unfold Gadget.rowsOf
  by_cases h : aSize ≤ dnum * dsize
  · rw [Nat.min_eq_left h]
  · have hmin : min aSize (dnum * dsize) = dnum * dsize := Nat.min_eq_right (by omega)
    have e1 : (dnum * dsize + di) / dsize = dnum := by
      rw [Nat.add_comm, Nat.add_mul_div_right _ _ hd, Nat.div_eq_of_lt hdi, Nat.zero_add]
    have e2 : dnum ≤ (aSize + di) / dsize := by
      rw [Nat.le_div_iff_mul_le hd]; omega
    rw [hmin, e1]; omega

/-- **the used part of an input column, every regime**: the product reads exactly the limbs `m < min(aSize, dnum·dsize)`, each once
(generalises `Gadget.usedVal_eq_val`, which needs `aSize ≤ dnum·dsize`). -/
theorem usedVal_general {R : Type*} [CommRing R] (β : R) (S dsize dnum aSize : ℕ) (a : ℕ → R) (hd : 0 < dsize) :
    Gadget.usedVal β S dsize dnum aSize a = ∑ m ∈ Finset.range (min aSize (dnum * dsize)), a m * β ^ (S - 1 - m) := by
  rw [← Gadget.usedVal_eq_val β S dsize dnum (min aSize (dnum * dsize)) a hd (Nat.min_le_right _ _)]
  unfold Gadget.usedVal
  apply Finset.sum_congr rfl
  intro di hdi
  rw [rowsOf_min _ _ _ _ hd (Finset.mem_range.mp hdi)]

/-- the first `X` limbs of a column at the weights of an `S`-limb number, against the whole column minus its tail `c.drop X`
(`X ≤ min(|c|, S)`; one of the two powers is `1`) -/
theorem col_used_value (N b S X : Nat) (c : Col) (hc : LimbsN N c) (hX1 : X ≤ c.length) (hX2 : X ≤ S) :
    Ks.radix N b ^ (c.length - S) * ∑ m ∈ Finset.range X, Ks.ι N (limbOr0 N c m) * Ks.radix N b ^ (S - 1 - m)
      = Ks.radix N b ^ (S - c.length) * (Ks.ι N (valP b N c) - Ks.ι N (valP b N (c.drop X))) := by
  have hd : LimbsN N (c.drop X) := fun l hl => hc l (List.mem_of_mem_drop hl)
  rw [Core.ι_valP N b c hc, Core.ι_valP N b _ hd, ← Ks.radix_eq, List.length_drop]
  have hsplit := Finset.sum_range_add (fun k => Ks.ι N (limbOr0 N c k) * Ks.radix N b ^ (c.length - 1 - k)) X (c.length - X)
  rw [Nat.add_sub_of_le hX1] at hsplit
  have htail : ∑ k ∈ Finset.range (c.length - X), Ks.ι N (limbOr0 N (c.drop X) k) * Ks.radix N b ^ (c.length - X - 1 - k)
      = ∑ k ∈ Finset.range (c.length - X), Ks.ι N (limbOr0 N c (X + k)) * Ks.radix N b ^ (c.length - 1 - (X + k)) := by
    apply Finset.sum_congr rfl
    intro k _
    have e1 : limbOr0 N (c.drop X) k = limbOr0 N c (X + k) := by
      unfold limbOr0
      rw [List.getD_eq_getElem?_getD, List.getD_eq_getElem?_getD, List.getElem?_drop]
    have e2 : c.length - X - 1 - k = c.length - 1 - (X + k) := by omega
    rw [e1, e2]
  rw [hsplit, htail, add_sub_cancel_right, Finset.mul_sum, Finset.mul_sum]
  apply Finset.sum_congr rfl
  intro m hm
  have hm' := Finset.mem_range.mp hm
  have e : (c.length - S) + (S - 1 - m) = (S - c.length) + (c.length - 1 - m) := by omega
  calc Ks.radix N b ^ (c.length - S) * (Ks.ι N (limbOr0 N c m) * Ks.radix N b ^ (S - 1 - m))
      = Ks.ι N (limbOr0 N c m) * Ks.radix N b ^ ((c.length - S) + (S - 1 - m)) := by rw [pow_add]; ring
    _ = Ks.radix N b ^ (S - c.length) * (Ks.ι N (limbOr0 N c m) * Ks.radix N b ^ (c.length - 1 - m)) := by rw [e, pow_add]; ring

/-- `ι(val(fit_S c))`, any length of `c`: the limbs `k < min(|c|, S)` at the weights of an `S`-limb number -/
theorem ι_valP_fit_gen (N b S : Nat) (c : Col) (hc : LimbsN N c) :
    Ks.ι N (valP b N (fit N S c))
      = ∑ k ∈ Finset.range (min c.length S), Ks.ι N (limbOr0 N c k) * Ks.radix N b ^ (S - 1 - k) := by
  rw [Core.ι_valP N b _ (fit_wf hc S).2, (fit_wf hc S).1, ← Ks.radix_eq]
  have e : ∀ k, k < S → limbOr0 N (fit N S c) k = limbOr0 N c k := by
    intro k h1
    unfold limbOr0
    rw [List.getD_eq_getElem?_getD, fit_getElem?, if_pos h1, Option.getD_some]
  rw [Finset.sum_congr rfl (fun k hk => by rw [e k (Finset.mem_range.mp hk)])]
  symm
  apply Finset.sum_subset (Finset.range_subset_range.mpr (Nat.min_le_right _ _))
  intro k hk hk'
  have hk1 := Finset.mem_range.mp hk
  have h2 : c.length ≤ k := by
    have : ¬ k < min c.length S := by simpa using hk'
    omega
  unfold limbOr0
  rw [getD_of_ge c k h2, Ks.ι_zero, zero_mul]

/-- **the truncated part of the input, as ONE coefficient list** (at the scale of the `a.size` limbs of `a`, radix `2^b`):
`Σ_{i<rin} s_i ⋆ val(limbs m ≥ L of mask column i) + val(limbs m ≥ T of the body)`; in the key switch `L = min(a.size, dnum·dsize)` (the mask
limbs the gadget product does not read) and `T = min(a.size, key.size)` (the body limbs dropped by `vec_znx_big_add_small_assign`). -/
def truncL (N b L T : Nat) (sIn : List Poly) (rin : Nat) (a : Ks.Ct) : Poly :=
  polyAdd (sumPolys N ((List.range rin).map (fun i => Hal.negMul (sIn.getD i []) (valP b N ((a.cols.getD (i + 1) []).drop L)))))
    (valP b N ((a.cols.getD 0 []).drop T))

theorem truncL_length (N b L T : Nat) (sIn : List Poly) (rin : Nat) (a : Ks.Ct) : (truncL N b L T sIn rin a).length = N := by
  unfold truncL
  rw [Hal.polyAdd_length, Ks.sumPolys_range_length N _ _ (fun j _ => by rw [Hal.negMul_length]; simp), valP_length, Nat.min_self]

theorem ι_truncL (N b L T : Nat) (sIn : List Poly) (rin : Nat) (a : Ks.Ct) (hN : 0 < N) :
    Ks.ι N (truncL N b L T sIn rin a)
      = ∑ i ∈ Finset.range rin, Ks.ι N (sIn.getD i []) * Ks.ι N (valP b N ((a.cols.getD (i + 1) []).drop L))
        + Ks.ι N (valP b N ((a.cols.getD 0 []).drop T)) := by
  unfold truncL
  rw [Ks.ι_add N _ _ (by rw [Ks.sumPolys_range_length N _ _ (fun j _ => by rw [Hal.negMul_length]; simp), valP_length]),
    Ks.ι_sumPolys_range N _ _ (fun j _ => by rw [Hal.negMul_length]; simp)]
  congr 1
  apply Finset.sum_congr rfl
  intro i _
  rw [Ks.ι_negMul N _ _ (by simp) hN]

/-- `Σ_{k<n} 2^(b·k)`, the weight of `n` limbs -/
def geomB (b : Nat) : Nat → Int
  | 0 => 0
  | n + 1 => geomB b n * 2 ^ b + 1

theorem geomB_nonneg (b n : Nat) : 0 ≤ geomB b n := by
  induction n with
  | zero => simp [geomB]
  | succ n ih => unfold geomB; positivity

/-- `geomB b (n+1) ≤ 2·2^(b·n) − 1`: the tail of `n+1` limbs weighs less than two units of its first limb -/
theorem geomB_succ_le (b n : Nat) (hb : 1 ≤ b) : geomB b (n + 1) ≤ 2 * 2 ^ (b * n) - 1 := by
  have h2 : (2 : Int) ≤ 2 ^ b := by
    calc (2 : Int) = 2 ^ 1 := by norm_num
      _ ≤ 2 ^ b := pow_le_pow_right₀ (by norm_num) hb
  induction n with
  | zero => simp [geomB]
  | succ n ih =>
    have e : (2 : Int) ^ (b * (n + 1)) = 2 ^ (b * n) * 2 ^ b := by rw [Nat.mul_succ, pow_add]
    have hp : (0 : Int) < 2 ^ (b * n) := by positivity
    have hg := geomB_nonneg b (n + 1)
    show geomB b (n + 1) * 2 ^ b + 1 ≤ _
    rw [e]
    nlinarith [mul_le_mul_of_nonneg_right ih (by linarith : (0 : Int) ≤ 2 ^ b)]

theorem geomB_le (b n : Nat) (hb : 1 ≤ b) : geomB b n ≤ 2 * 2 ^ (b * (n - 1)) := by
  cases n with
  | zero => simp [geomB]
  | succ n =>
    have := geomB_succ_le b n hb
    simp only [Nat.add_sub_cancel]
    linarith

theorem valCoeff_snoc (b : Nat) (xs : Col) (l : Poly) (t : Nat) :
    valCoeff b (xs ++ [l]) t = valCoeff b xs t * 2 ^ b + l.getD t 0 := by
  unfold valCoeff
  rw [List.foldl_append]
  rfl

/-- the value of `n` limbs with digits bounded by `D` is bounded by `D·Σ_{k<n} 2^(b·k)` -/
theorem valCoeff_abs_le (b : Nat) (c : Col) (D : Int) (hD : 0 ≤ D) (h : ∀ l ∈ c, ∀ x ∈ l, |x| ≤ D) (t : Nat) :
    |valCoeff b c t| ≤ D * geomB b c.length := by
  induction c using List.reverseRecOn with
  | nil => simp [valCoeff, geomB]
  | append_singleton xs l ih =>
    have ih' := ih (fun l' hl' => h l' (by simp [hl']))
    have hl : |l.getD t 0| ≤ D := by
      rw [List.getD_eq_getElem?_getD]
      cases hj : l[t]? with
      | none => simpa using hD
      | some x => simpa using h l (by simp) x (List.mem_of_getElem? hj)
    rw [valCoeff_snoc, List.length_append, List.length_singleton]
    show _ ≤ D * (geomB b xs.length * 2 ^ b + 1)
    have hp : (0 : Int) ≤ 2 ^ b := by positivity
    calc |valCoeff b xs t * 2 ^ b + l.getD t 0| ≤ |valCoeff b xs t * 2 ^ b| + |l.getD t 0| := abs_add_le _ _
      _ = |valCoeff b xs t| * 2 ^ b + |l.getD t 0| := by rw [abs_mul, abs_of_nonneg hp]
      _ ≤ (D * geomB b xs.length) * 2 ^ b + D := add_le_add (mul_le_mul_of_nonneg_right ih' hp) hl
      _ = D * (geomB b xs.length * 2 ^ b + 1) := by ring

theorem normInf_valP_le (b N : Nat) (c : Col) (D : Int) (hD : 0 ≤ D) (h : ∀ l ∈ c, ∀ x ∈ l, |x| ≤ D) :
    normInf (valP b N c) ≤ D * geomB b c.length := by
  apply normInf_le_of_forall _ (mul_nonneg hD (geomB_nonneg _ _))
  intro x hx
  unfold valP at hx
  obtain ⟨t, _, rfl⟩ := List.mem_map.mp hx
  exact valCoeff_abs_le b c D hD h t

theorem norm1_bridge (p : Poly) : CoreEnc.norm1 p = norm1 p := by
  induction p with
  | nil => simp [CoreEnc.norm1]
  | cons x xs ih =>
    have : CoreEnc.norm1 (x :: xs) = |x| + CoreEnc.norm1 xs := by simp [CoreEnc.norm1]
    rw [this, ih]; rfl

theorem snorm_eq_sum (m : Nat) (s : List Poly) : snorm m s = ∑ i ∈ Finset.range m, norm1 (s.getD i []) := by
  induction m with
  | zero => simp [snorm]
  | succ m ih => rw [snorm_succ, Finset.sum_range_succ, ih, norm1_bridge]

/-- the closed bound of the truncated part: digits `≤ Dg`, `a.size − L` truncated mask limbs, `a.size − T` truncated body limbs:
`‖truncL‖∞ ≤ ‖sIn‖₁·Dg·Σ_{k<a.size−L} 2^(b·k) + Dg·Σ_{k<a.size−T} 2^(b·k)` -/
def truncBound (b L T : Nat) (sIn : List Poly) (rin aSize : Nat) (Dg : Int) : Int :=
  snorm rin sIn * (Dg * geomB b (aSize - L)) + Dg * geomB b (aSize - T)

theorem normInf_truncL_le (N b L T : Nat) (sIn : List Poly) (rin : Nat) (a : Ks.Ct) (Dg : Int) (hDg : 0 ≤ Dg) (ha : GWF N a)
    (hrin : rin ≤ a.rank) (hdig : ∀ c ∈ a.cols, ∀ l ∈ c, ∀ x ∈ l, |x| ≤ Dg) :
    normInf (truncL N b L T sIn rin a) ≤ truncBound b L T sIn rin a.size Dg := by
  have hcol : ∀ i X, i ≤ a.rank → normInf (valP b N ((a.cols.getD i []).drop X)) ≤ Dg * geomB b (a.size - X) := by
    intro i X hi
    have hw := ha.col_wf i hi
    have hmem : a.cols.getD i [] ∈ a.cols := col_mem i (by rw [ha.len]; omega)
    have := normInf_valP_le b N ((a.cols.getD i []).drop X) Dg hDg
      (fun l hl x hx => hdig _ hmem l (List.mem_of_mem_drop hl) x hx)
    rw [List.length_drop] at this
    have hlen : (a.cols.getD i []).length = a.size := hw.1
    rw [hlen] at this
    exact this
  unfold truncL truncBound
  refine (normInf_polyAdd_le _ _).trans (add_le_add ?_ (hcol 0 T (Nat.zero_le _)))
  refine (Ks.normInf_sumPolys_range_le N rin _ (fun i => norm1 (sIn.getD i []) * (Dg * geomB b (a.size - L))) ?_).trans ?_
  · intro j hj
    exact (normInf_negMul_le _ _).trans (mul_le_mul_of_nonneg_left (hcol (j + 1) L (by omega)) (norm1_nonneg _))
  · rw [snorm_eq_sum, Finset.sum_mul]

theorem geomB_mono (b : Nat) {m n : Nat} (h : m ≤ n) : geomB b m ≤ geomB b n := by
  induction n with
  | zero => have : m = 0 := by omega
            rw [this]
  | succ n ih =>
    by_cases hm : m = n + 1
    · rw [hm]
    · have h1 := ih (by omega)
      have h2 := geomB_nonneg b n
      have hp : (1 : Int) ≤ 2 ^ b := one_le_pow₀ (by norm_num)
      show geomB b m ≤ geomB b n * 2 ^ b + 1
      nlinarith

/-- nothing is truncated in the covered regime -/
theorem truncBound_covered (b L T : Nat) (sIn : List Poly) (rin aSize : Nat) (Dg : Int) (h1 : aSize ≤ L) (h2 : aSize ≤ T) :
    truncBound b L T sIn rin aSize Dg = 0 := by
  unfold truncBound
  rw [Nat.sub_eq_zero_of_le h1, Nat.sub_eq_zero_of_le h2]
  simp [geomB]

/-- **closed form of the truncation bound**: `truncBound ≤ (1 + ‖sIn‖₁)·Dg·2·2^(b·(aSize − L − 1))` (`L ≤ T`), i.e. relative to the `aSize` limbs of
the input (divide by `2^(b·aSize)`) at most `(1 + ‖sIn‖₁)·(2·Dg/2^b)·2^(−b·L)` -/
theorem truncBound_le (b L T : Nat) (sIn : List Poly) (rin aSize : Nat) (Dg : Int) (hb : 1 ≤ b) (hDg : 0 ≤ Dg) (hLT : L ≤ T) :
    truncBound b L T sIn rin aSize Dg ≤ (1 + snorm rin sIn) * (Dg * (2 * 2 ^ (b * (aSize - L - 1)))) := by
  unfold truncBound
  have h1 := geomB_le b (aSize - L) hb
  have h2 : geomB b (aSize - T) ≤ geomB b (aSize - L) := geomB_mono b (by omega)
  have hs := snorm_nonneg rin sIn
  have e1 : Dg * geomB b (aSize - L) ≤ Dg * (2 * 2 ^ (b * (aSize - L - 1))) := mul_le_mul_of_nonneg_left h1 hDg
  have e2 : Dg * geomB b (aSize - T) ≤ Dg * (2 * 2 ^ (b * (aSize - L - 1))) := mul_le_mul_of_nonneg_left (h2.trans h1) hDg
  have e3 := mul_le_mul_of_nonneg_left e1 hs
  linarith

/-- **general regime, the input side**: for every limb count of `a` (the converted input), with `L = min(a.size, dnum·dsize)` and
`T = min(a.size, S)`, `β^(a.size − S)·(Σ_i s_i·usedVal(a_{i+1}) + val_S(fit body)) = β^(S − a.size)·(val(phase_{sIn} a) − ι(truncL))`
(natural subtraction: one of the two powers is `1`; `a.size ≤ S` scales the input up, `a.size > S` scales the used part up). -/
theorem general_input_value (N : Nat) (a : Ks.Ct) (key : Ks.Key) (sIn : List Poly) (hN : 0 < N) (ha : GWF N a)
    (hrank : a.rank = key.mat.colsIn) (hs : key.mat.colsIn ≤ sIn.length) (hD : 1 ≤ key.dsize)
    (hS : key.mat.rows * key.dsize ≤ key.mat.size) :
    Ks.radix N key.base2k ^ (a.size - key.mat.size) *
        (∑ i ∈ Finset.range key.mat.colsIn, Ks.ι N (sIn.getD i []) *
            Gadget.usedVal (Ks.radix N key.base2k) key.mat.size key.dsize key.mat.rows a.size (Ks.inLimb N (aDftOf a) i)
          + Ks.ι N (valP key.base2k N (fit N key.mat.size (a.cols.getD 0 []))))
      = Ks.radix N key.base2k ^ (key.mat.size - a.size) *
          (Ks.ι N (valP key.base2k N (phase sIn a))
            - Ks.ι N (truncL N key.base2k (min a.size (key.mat.rows * key.dsize)) (min a.size key.mat.size) sIn key.mat.colsIn a)) := by
  obtain ⟨_, _, _, _, dact, _⟩ := aDft_spec a ha
  have hwf : ∀ c ∈ a.cols, ColWF N a.size c := ha.2.2
  have e1 := Core.ι_valP_phase_cols N hN key.base2k a.size sIn a.cols ha.2.1 hwf
  have hph : phase sIn (Ks.mkCt key.base2k N a.cols) = phase sIn a := rfl
  have hmin : min (a.cols.length - 1) sIn.length = key.mat.colsIn := by
    have : a.cols.length - 1 = a.rank := rfl
    rw [this, hrank]; omega
  rw [hph, hmin] at e1
  rw [e1, ι_truncL _ _ _ _ _ _ _ hN]
  have hb := ha.col_wf 0 (Nat.zero_le _)
  have hbody := col_used_value N key.base2k key.mat.size (min a.size key.mat.size) (a.cols.getD 0 []) hb.2
    (by rw [hb.1]; exact Nat.min_le_left _ _) (Nat.min_le_right _ _)
  rw [hb.1] at hbody
  have hfit := ι_valP_fit_gen N key.base2k key.mat.size (a.cols.getD 0 []) hb.2
  rw [hb.1] at hfit
  have hmask : ∀ i ∈ Finset.range key.mat.colsIn,
      Ks.radix N key.base2k ^ (a.size - key.mat.size) * (Ks.ι N (sIn.getD i []) *
        Gadget.usedVal (Ks.radix N key.base2k) key.mat.size key.dsize key.mat.rows a.size (Ks.inLimb N (aDftOf a) i))
      = Ks.radix N key.base2k ^ (key.mat.size - a.size) *
          (Ks.ι N (sIn.getD i []) * Ks.ι N (valP key.base2k N (a.cols.getD (i + 1) []))
            - Ks.ι N (sIn.getD i []) * Ks.ι N (valP key.base2k N ((a.cols.getD (i + 1) []).drop (min a.size (key.mat.rows * key.dsize))))) := by
    intro i hi
    have hi' : i < a.rank := by rw [hrank]; exact Finset.mem_range.mp hi
    have hc := ha.col_wf (i + 1) (by omega)
    rw [usedVal_general _ _ _ _ _ _ (by omega)]
    have e : ∀ m, Ks.inLimb N (aDftOf a) i m = Ks.ι N (limbOr0 N (a.cols.getD (i + 1) []) m) := by
      intro m; unfold Ks.inLimb; rw [dact i hi']
    simp only [e]
    have h := col_used_value N key.base2k key.mat.size (min a.size (key.mat.rows * key.dsize)) (a.cols.getD (i + 1) []) hc.2
      (by rw [hc.1]; exact Nat.min_le_left _ _) ((Nat.min_le_right _ _).trans hS)
    rw [hc.1] at h
    linear_combination Ks.ι N (sIn.getD i []) * h
  rw [mul_add, Finset.mul_sum, Finset.sum_congr rfl hmask, ← Finset.mul_sum, Finset.sum_sub_distrib, hfit, hbody]
  ring

/-- **`glwe_keyswitch_decrypts_general`** — END-TO-END theorem of the executed `Ks.keyswitch` in the GENERAL regime: NO coverage hypothesis
(any limb count `sc = convSize a key` of the converted input against `S = key.size` and `dnum·dsize`), head-room derived from digit bounds
(`ksAdmissible`).  With `L = min(sc, dnum·dsize)` (mask limbs read by the product), `T = min(sc, S)` (body limbs kept) and `M = max(S, sc)`:

`2^(b_in·s_a + b_key·M)·val(phase_{skOut} res) = 2^(b_out·s_out + b_key·M)·val(phase_{sIn} a) + ι(Err') + 2^(b_in·s_a + b_out·s_out + b_key·M)·Q`,

`Err' = ksErr(c1, c2, c3; E₁, errL, dropL, E₃) − c4·truncL`, `c1 = 2^(b_out·s_out + b_key·(S−sc))`, `c2 = 2^(b_in·s_a + b_out·s_out + b_key·(sc−S))`,
`c3 = 2^(b_in·s_a + b_key·(sc−S))`, `c4 = 2^(b_in·s_a + b_out·s_out + b_key·(S−sc))` (natural subtractions), and the FIVE-term bound
`‖Err'‖∞ ≤ c1·(1+‖sIn‖₁)·tol_conv + c2·gadgetBound + c2·dropBound + c3·(1+‖skOut‖₁)·tol_norm + c4·truncBound`, where
`truncBound = ‖sIn‖₁·(Hin+2^b_key)·geomB(sc−L) + (Hin+2^b_key)·geomB(sc−T)` and `geomB b n = Σ_{k<n} 2^(b·k) ≤ 2·2^(b·(n−1))` (`geomB_le`): on the
torus (divide by `2^(b_in·s_a + b_out·s_out + b_key·M)`) the truncation costs at most
`(‖sIn‖₁·2·(Hin+2^b_key)/2^b_key)·2^(−b_key·L) + (2·(Hin+2^b_key)/2^b_key)·2^(−b_key·T)`.  In the covered regime `truncL` is the zero list. -/
theorem glwe_keyswitch_decrypts_general (big128 : Bool) (N bout sout rout : Nat) (a : Ks.Ct) (key : Ks.Key) (sIn skOut : List Poly)
    (EL KL : ℕ → ℕ → Poly) (Hin Dm : Int)
    (hN : 0 < N) (ha : GWF N a) (hrank : a.rank = key.rankIn) (hrout : rout = key.rankOut) (hc0 : 0 < key.mat.colsOut)
    (hD : 1 ≤ key.dsize) (hM : ∀ j q, (key.mat.entry j q).length = N) (hS : key.mat.rows * key.dsize ≤ key.mat.size)
    (hbi1 : 1 ≤ a.base2k) (hbi : a.base2k ≤ 62) (hbk1 : 1 ≤ key.base2k) (hbk : key.base2k ≤ 62) (hbo1 : 1 ≤ bout) (hbo : bout ≤ 62)
    (hIn0 : 0 ≤ Hin) (hIn : Hin + 8 ≤ 2 ^ 62) (hInB : ∀ c ∈ a.cols, ∀ l ∈ c, ∀ x ∈ l, |x| ≤ Hin)
    (hDm0 : 0 ≤ Dm) (hm : ∀ j q, normInf (key.mat.entry j q) ≤ Dm) (hadm : ksAdmissible big128 key N Hin Dm)
    (hs : key.mat.colsIn ≤ sIn.length)
    (hEL : ∀ i r, (EL i r).length = N) (hKL : ∀ i r, (KL i r).length = N)
    (hkey : ∀ i, i < key.mat.colsIn → ∀ r, r < key.mat.rows →
      Gadget.val (Ks.radix N key.base2k) key.mat.size (Ks.keyPhase N skOut key.mat i r) =
        Ks.ι N (sIn.getD i []) * Ks.radix N key.base2k ^ (key.mat.size - (r + 1) * key.dsize) + Ks.ι N (EL i r)
          + Ks.radix N key.base2k ^ key.mat.size * Ks.ι N (KL i r)) :
    ∃ res aConv, Ks.keyswitch big128 bout sout rout a key = .ok res ∧ Ks.convIn a key = .ok aConv ∧
      GWF N res ∧ res.base2k = bout ∧ res.size = sout ∧ res.rank = rout ∧
      ∃ (E1 E3 : Poly) (Q : Ks.R N), E1.length = N ∧ E3.length = N ∧
        normInf E1 ≤ (1 + snorm (min a.rank sIn.length) sIn) * C02.normTol (key.base2k * convSize a key) (a.base2k * a.size) ∧
        normInf E3 ≤ (1 + snorm (min rout skOut.length) skOut) * C02.normTol (bout * sout) (key.base2k * key.mat.size) ∧
        (2 : Ks.R N) ^ (a.base2k * a.size + key.base2k * max key.mat.size (convSize a key)) * Ks.ι N (valP bout N (phase skOut res))
          = (2 : Ks.R N) ^ (bout * sout + key.base2k * max key.mat.size (convSize a key)) * Ks.ι N (valP a.base2k N (phase sIn a))
            + Ks.ι N (polyAdd
                (ksErr (2 ^ (bout * sout + key.base2k * (key.mat.size - convSize a key)))
                  (2 ^ (a.base2k * a.size + bout * sout + key.base2k * (convSize a key - key.mat.size)))
                  (2 ^ (a.base2k * a.size + key.base2k * (convSize a key - key.mat.size))) E1
                  (Ks.errL N key.base2k (aDftOf aConv) key EL) (Ks.dropL N key.base2k skOut (aDftOf aConv) key) E3)
                (polyScale (-(2 ^ (a.base2k * a.size + bout * sout + key.base2k * (key.mat.size - convSize a key))))
                  (truncL N key.base2k (min (convSize a key) (key.mat.rows * key.dsize)) (min (convSize a key) key.mat.size)
                    sIn key.mat.colsIn aConv)))
            + (2 : Ks.R N) ^ (a.base2k * a.size + bout * sout + key.base2k * max key.mat.size (convSize a key)) * Q ∧
        normInf (polyAdd
                (ksErr (2 ^ (bout * sout + key.base2k * (key.mat.size - convSize a key)))
                  (2 ^ (a.base2k * a.size + bout * sout + key.base2k * (convSize a key - key.mat.size)))
                  (2 ^ (a.base2k * a.size + key.base2k * (convSize a key - key.mat.size))) E1
                  (Ks.errL N key.base2k (aDftOf aConv) key EL) (Ks.dropL N key.base2k skOut (aDftOf aConv) key) E3)
                (polyScale (-(2 ^ (a.base2k * a.size + bout * sout + key.base2k * (key.mat.size - convSize a key))))
                  (truncL N key.base2k (min (convSize a key) (key.mat.rows * key.dsize)) (min (convSize a key) key.mat.size)
                    sIn key.mat.colsIn aConv)))
          ≤ 2 ^ (bout * sout + key.base2k * (key.mat.size - convSize a key)) *
              ((1 + snorm (min a.rank sIn.length) sIn) * C02.normTol (key.base2k * convSize a key) (a.base2k * a.size))
            + 2 ^ (a.base2k * a.size + bout * sout + key.base2k * (convSize a key - key.mat.size)) *
                gadgetBound N key.base2k (aDftOf aConv) key EL
            + 2 ^ (a.base2k * a.size + bout * sout + key.base2k * (convSize a key - key.mat.size)) *
                dropBound N key.base2k skOut (aDftOf aConv) key
            + 2 ^ (a.base2k * a.size + key.base2k * (convSize a key - key.mat.size)) *
              ((1 + snorm (min rout skOut.length) skOut) * C02.normTol (bout * sout) (key.base2k * key.mat.size))
            + 2 ^ (a.base2k * a.size + bout * sout + key.base2k * (key.mat.size - convSize a key)) *
                truncBound key.base2k (min (convSize a key) (key.mat.rows * key.dsize)) (min (convSize a key) key.mat.size)
                  sIn key.mat.colsIn (convSize a key) (Hin + 2 ^ key.base2k) := by
  obtain ⟨res, aConv, hok, hconv, gwC, hbC, hrC, hsC, gwR, hbR, hsR, hrR, E1, Q1, E3, Q3, hE1, hQ1, hE3, hQ3, hn1, hn3, h1, h3⟩ :=
    glwe_keyswitch_value_adm big128 N bout sout rout a key sIn skOut EL KL Hin Dm hN ha hrank hrout hc0 hD hM hS hbi1 hbi hbk1 hbk hbo1 hbo
      hIn0 hIn hInB hDm0 hm hadm hEL hKL hkey
  have hrank' : a.rank = key.mat.colsIn := hrank
  have hpk : (0 : Int) < 2 ^ key.base2k := by positivity
  -- the digit bound of the converted input
  have hdigC : ∀ c ∈ aConv.cols, ∀ l ∈ c, ∀ x ∈ l, |x| ≤ Hin + 2 ^ key.base2k := by
    obtain ⟨aConv', hconv', _, _, _, _, hdig', _⟩ := convIn_phase N a key Hin ha hbi1 hbi hbk1 hbk hIn0 hIn hInB
    rw [hconv] at hconv'
    injection hconv' with e
    subst e
    exact hdig'
  obtain ⟨_, _, _, _, _, dA⟩ := aDft_spec aConv gwC
  have hGl : (Ks.errL N key.base2k (aDftOf aConv) key EL).length = N := Ks.errL_length N _ _ _ EL hEL
  have hDl : (Ks.dropL N key.base2k skOut (aDftOf aConv) key).length = N := by
    unfold Ks.dropL
    apply Ks.sumPolys_range_length
    intro i _
    apply Ks.sumPolys_range_length
    intro di _
    apply Ks.sumPolys_range_length
    intro r _
    apply Ks.sumPolys_range_length
    intro l _
    exact Ks.dropTermL_length N _ skOut _ key i di r l hc0 hM
  have hgen := general_input_value N aConv key sIn hN gwC (hrC.trans hrank') hs hD hS
  have hTl := truncL_length N key.base2k (min (convSize a key) (key.mat.rows * key.dsize)) (min (convSize a key) key.mat.size)
    sIn key.mat.colsIn aConv
  have hTb := normInf_truncL_le N key.base2k (min (convSize a key) (key.mat.rows * key.dsize)) (min (convSize a key) key.mat.size)
    sIn key.mat.colsIn aConv (Hin + 2 ^ key.base2k) (by linarith) gwC (by rw [hrC, hrank']) hdigC
  rw [hsC] at hTb
  refine ⟨res, aConv, hok, hconv, gwR, hbR, hsR, hrR, E1, E3,
    Ks.ι N Q1 + (Ks.ι N Q3 + Ks.ι N (Ks.errL N key.base2k (aDftOf aConv) key KL)
      - ∑ i ∈ Finset.range key.mat.colsIn,
          Gadget.head (Ks.radix N key.base2k) key.dsize key.mat.rows aConv.size (Ks.inLimb N (aDftOf aConv) i)
            (Ks.keyPhase N skOut key.mat i)), hE1, hE3, hn1, hn3, ?_, ?_⟩
  · rw [Ks.ι_add N _ _ (by rw [Hal.polyScale_length, hTl]; unfold ksErr; simp [hE1, hGl, hDl, hE3]), Ks.ι_polyScale,
      ι_ksErr N _ _ _ _ _ _ _ hE1 hGl hDl hE3]
    generalize hU : (∑ i ∈ Finset.range key.mat.colsIn, Ks.ι N (sIn.getD i []) *
        Gadget.usedVal (Ks.radix N key.base2k) key.mat.size key.dsize key.mat.rows aConv.size (Ks.inLimb N (aDftOf aConv) i)
      + Ks.ι N (valP key.base2k N (fit N key.mat.size (aConv.cols.getD 0 [])))) = U at h3 hgen
    rw [hsC] at hgen
    simp only [Ks.radix_pow] at hgen
    push_cast at hgen h3 ⊢
    have hrel1 : (2 : Ks.R N) ^ (key.base2k * (key.mat.size - convSize a key)) * (2 : Ks.R N) ^ (key.base2k * convSize a key)
        = (2 : Ks.R N) ^ (key.base2k * max key.mat.size (convSize a key)) := by
      rw [← pow_add, ← Nat.mul_add]
      congr 2
      omega
    have hrel2 : (2 : Ks.R N) ^ (key.base2k * (convSize a key - key.mat.size)) * (2 : Ks.R N) ^ (key.base2k * key.mat.size)
        = (2 : Ks.R N) ^ (key.base2k * max key.mat.size (convSize a key)) := by
      rw [← pow_add, ← Nat.mul_add]
      congr 2
      omega
    simp only [pow_add] at h1 h3 ⊢
    generalize (2 : Ks.R N) ^ (a.base2k * a.size) = x1 at *
    generalize (2 : Ks.R N) ^ (key.base2k * convSize a key) = xc at *
    generalize (2 : Ks.R N) ^ (key.base2k * (key.mat.size - convSize a key)) = xd at *
    generalize (2 : Ks.R N) ^ (key.base2k * (convSize a key - key.mat.size)) = xu at *
    generalize (2 : Ks.R N) ^ (key.base2k * key.mat.size) = xS at *
    generalize (2 : Ks.R N) ^ (key.base2k * max key.mat.size (convSize a key)) = xM at *
    generalize (2 : Ks.R N) ^ (bout * sout) = xo at *
    linear_combination x1 * xu * h3 + x1 * xo * hgen + xo * xd * h1
      + (x1 * xo * (Ks.ι N Q3 + Ks.ι N (Ks.errL N key.base2k (aDftOf aConv) key KL)
          - ∑ i ∈ Finset.range key.mat.colsIn,
              Gadget.head (Ks.radix N key.base2k) key.dsize key.mat.rows aConv.size (Ks.inLimb N (aDftOf aConv) i)
                (Ks.keyPhase N skOut key.mat i))
          - x1 * Ks.ι N (valP bout N (phase skOut res))) * hrel2
      + (xo * Ks.ι N (valP a.base2k N (phase sIn a)) + x1 * xo * Ks.ι N Q1) * hrel1
  · refine le_trans (normInf_polyAdd_le _ _) ?_
    rw [normInf_polyScale, abs_neg]
    refine add_le_add (le_trans (normInf_ksErr_le _ _ _ _ _ _ _) ?_) ?_
    · have p1 : (0 : Int) ≤ 2 ^ (bout * sout + key.base2k * (key.mat.size - convSize a key)) := by positivity
      have p2 : (0 : Int) ≤ 2 ^ (a.base2k * a.size + bout * sout + key.base2k * (convSize a key - key.mat.size)) := by positivity
      have p3 : (0 : Int) ≤ 2 ^ (a.base2k * a.size + key.base2k * (convSize a key - key.mat.size)) := by positivity
      rw [abs_of_nonneg p1, abs_of_nonneg p2, abs_of_nonneg p3]
      have b2 : normInf (Ks.errL N key.base2k (aDftOf aConv) key EL) ≤ gadgetBound N key.base2k (aDftOf aConv) key EL :=
        Ks.normInf_errL_le N _ _ _ EL
      have b3 : normInf (Ks.dropL N key.base2k skOut (aDftOf aConv) key) ≤ dropBound N key.base2k skOut (aDftOf aConv) key :=
        Ks.normInf_dropL_le N _ skOut _ key
      have m1 := mul_le_mul_of_nonneg_left hn1 p1
      have m2 := mul_le_mul_of_nonneg_left b2 p2
      have m3 := mul_le_mul_of_nonneg_left b3 p2
      have m4 := mul_le_mul_of_nonneg_left hn3 p3
      linarith
    · have p4 : (0 : Int) ≤ 2 ^ (a.base2k * a.size + bout * sout + key.base2k * (key.mat.size - convSize a key)) := by positivity
      rw [abs_of_nonneg p4]
      exact mul_le_mul_of_nonneg_left hTb p4

/-- **`glwe_keyswitch_assign_decrypts_general`** — the in-place form `glwe_keyswitch_assign(res, key)` in the general regime. -/
theorem glwe_keyswitch_assign_decrypts_general (big128 : Bool) (N : Nat) (a : Ks.Ct) (key : Ks.Key) (sIn skOut : List Poly)
    (EL KL : ℕ → ℕ → Poly) (Hin Dm : Int)
    (hN : 0 < N) (ha : GWF N a) (hrank : a.rank = key.rankIn) (hrout : a.rank = key.rankOut) (hc0 : 0 < key.mat.colsOut)
    (hD : 1 ≤ key.dsize) (hM : ∀ j q, (key.mat.entry j q).length = N) (hS : key.mat.rows * key.dsize ≤ key.mat.size)
    (hbi1 : 1 ≤ a.base2k) (hbi : a.base2k ≤ 62) (hbk1 : 1 ≤ key.base2k) (hbk : key.base2k ≤ 62)
    (hIn0 : 0 ≤ Hin) (hIn : Hin + 8 ≤ 2 ^ 62) (hInB : ∀ c ∈ a.cols, ∀ l ∈ c, ∀ x ∈ l, |x| ≤ Hin)
    (hDm0 : 0 ≤ Dm) (hm : ∀ j q, normInf (key.mat.entry j q) ≤ Dm) (hadm : ksAdmissible big128 key N Hin Dm)
    (hs : key.mat.colsIn ≤ sIn.length)
    (hEL : ∀ i r, (EL i r).length = N) (hKL : ∀ i r, (KL i r).length = N)
    (hkey : ∀ i, i < key.mat.colsIn → ∀ r, r < key.mat.rows →
      Gadget.val (Ks.radix N key.base2k) key.mat.size (Ks.keyPhase N skOut key.mat i r) =
        Ks.ι N (sIn.getD i []) * Ks.radix N key.base2k ^ (key.mat.size - (r + 1) * key.dsize) + Ks.ι N (EL i r)
          + Ks.radix N key.base2k ^ key.mat.size * Ks.ι N (KL i r)) :
    ∃ res aConv, Ks.keyswitch big128 a.base2k a.size a.rank a key = .ok res ∧ Ks.convIn a key = .ok aConv ∧
      GWF N res ∧ res.base2k = a.base2k ∧ res.size = a.size ∧ res.rank = a.rank ∧
      ∃ (E1 E3 : Poly) (Q : Ks.R N), E1.length = N ∧ E3.length = N ∧
        normInf E1 ≤ (1 + snorm (min a.rank sIn.length) sIn) * C02.normTol (key.base2k * convSize a key) (a.base2k * a.size) ∧
        normInf E3 ≤ (1 + snorm (min a.rank skOut.length) skOut) * C02.normTol (a.base2k * a.size) (key.base2k * key.mat.size) ∧
        (2 : Ks.R N) ^ (a.base2k * a.size + key.base2k * max key.mat.size (convSize a key)) * Ks.ι N (valP a.base2k N (phase skOut res))
          = (2 : Ks.R N) ^ (a.base2k * a.size + key.base2k * max key.mat.size (convSize a key)) * Ks.ι N (valP a.base2k N (phase sIn a))
            + Ks.ι N (polyAdd
                (ksErr (2 ^ (a.base2k * a.size + key.base2k * (key.mat.size - convSize a key)))
                  (2 ^ (a.base2k * a.size + a.base2k * a.size + key.base2k * (convSize a key - key.mat.size)))
                  (2 ^ (a.base2k * a.size + key.base2k * (convSize a key - key.mat.size))) E1
                  (Ks.errL N key.base2k (aDftOf aConv) key EL) (Ks.dropL N key.base2k skOut (aDftOf aConv) key) E3)
                (polyScale (-(2 ^ (a.base2k * a.size + a.base2k * a.size + key.base2k * (key.mat.size - convSize a key))))
                  (truncL N key.base2k (min (convSize a key) (key.mat.rows * key.dsize)) (min (convSize a key) key.mat.size)
                    sIn key.mat.colsIn aConv)))
            + (2 : Ks.R N) ^ (a.base2k * a.size + a.base2k * a.size + key.base2k * max key.mat.size (convSize a key)) * Q ∧
        normInf (polyAdd
                (ksErr (2 ^ (a.base2k * a.size + key.base2k * (key.mat.size - convSize a key)))
                  (2 ^ (a.base2k * a.size + a.base2k * a.size + key.base2k * (convSize a key - key.mat.size)))
                  (2 ^ (a.base2k * a.size + key.base2k * (convSize a key - key.mat.size))) E1
                  (Ks.errL N key.base2k (aDftOf aConv) key EL) (Ks.dropL N key.base2k skOut (aDftOf aConv) key) E3)
                (polyScale (-(2 ^ (a.base2k * a.size + a.base2k * a.size + key.base2k * (key.mat.size - convSize a key))))
                  (truncL N key.base2k (min (convSize a key) (key.mat.rows * key.dsize)) (min (convSize a key) key.mat.size)
                    sIn key.mat.colsIn aConv)))
          ≤ 2 ^ (a.base2k * a.size + key.base2k * (key.mat.size - convSize a key)) *
              ((1 + snorm (min a.rank sIn.length) sIn) * C02.normTol (key.base2k * convSize a key) (a.base2k * a.size))
            + 2 ^ (a.base2k * a.size + a.base2k * a.size + key.base2k * (convSize a key - key.mat.size)) *
                gadgetBound N key.base2k (aDftOf aConv) key EL
            + 2 ^ (a.base2k * a.size + a.base2k * a.size + key.base2k * (convSize a key - key.mat.size)) *
                dropBound N key.base2k skOut (aDftOf aConv) key
            + 2 ^ (a.base2k * a.size + key.base2k * (convSize a key - key.mat.size)) *
              ((1 + snorm (min a.rank skOut.length) skOut) * C02.normTol (a.base2k * a.size) (key.base2k * key.mat.size))
            + 2 ^ (a.base2k * a.size + a.base2k * a.size + key.base2k * (key.mat.size - convSize a key)) *
                truncBound key.base2k (min (convSize a key) (key.mat.rows * key.dsize)) (min (convSize a key) key.mat.size)
                  sIn key.mat.colsIn (convSize a key) (Hin + 2 ^ key.base2k) :=
  glwe_keyswitch_decrypts_general big128 N a.base2k a.size a.rank a key sIn skOut EL KL Hin Dm hN ha hrank hrout hc0 hD hM hS hbi1 hbi hbk1 hbk
    hbi1 hbi hIn0 hIn hInB hDm0 hm hadm hs hEL hKL hkey

/-! ### closed instance of the general regime: `N = 1`, rank 1 → rank 0, a key of ONE row (`dnum = 1`, `dsize = 1`, radix `2^4`, 2 limbs) against an
input of TWO limbs — `dnum·dsize = 1 < 2 = a.size`: limb 1 of the mask is not read by the product, it is the truncation `truncL = [3]` -/

/-- a key of one row, `dsize = 1`, two limbs, radix `2^4` -/
def exKeyT : Ks.Key := { base2k := 4, dsize := 1, p := 1,
                         mat := { n := 1, rows := 1, colsIn := 1, colsOut := 1, size := 2, data := [[[[1], [0]]]] } }

/-- a rank-1 ciphertext of two limbs in the key radix: body `[2],[1]`, mask `[1],[3]` -/
def exCtT : Ks.Ct := Ks.mkCt 4 1 [[[2], [1]], [[1], [3]]]

/-- the key error of the example, defined by the key equation for the input secret `[[1]]` -/
def exELT : ℕ → ℕ → Poly := Ks.keyErrL 1 4 [] exKeyT (fun _ => [1])

example (big128 : Bool) :
    ∃ res aConv, Ks.keyswitch big128 3 2 0 exCtT exKeyT = .ok res ∧ Ks.convIn exCtT exKeyT = .ok aConv ∧ aConv = exCtT ∧
      exKeyT.mat.rows * exKeyT.dsize < convSize exCtT exKeyT ∧
      truncL 1 4 (min (convSize exCtT exKeyT) (exKeyT.mat.rows * exKeyT.dsize)) (min (convSize exCtT exKeyT) exKeyT.mat.size)
        [[1]] 1 exCtT = [3] ∧
      GWF 1 res ∧ res.base2k = 3 ∧ res.size = 2 ∧ res.rank = 0 ∧
      ∃ (E1 E3 : Poly) (Q : Ks.R 1), E1.length = 1 ∧ E3.length = 1 ∧
        normInf E1 ≤ (1 + snorm (min exCtT.rank ([[1]] : List Poly).length) [[1]]) *
          C02.normTol (exKeyT.base2k * convSize exCtT exKeyT) (exCtT.base2k * exCtT.size) ∧
        normInf E3 ≤ (1 + snorm (min 0 ([] : List Poly).length) []) * C02.normTol (3 * 2) (exKeyT.base2k * exKeyT.mat.size) ∧
        (2 : Ks.R 1) ^ (exCtT.base2k * exCtT.size + exKeyT.base2k * max exKeyT.mat.size (convSize exCtT exKeyT)) *
            Ks.ι 1 (valP 3 1 (phase [] res))
          = (2 : Ks.R 1) ^ (3 * 2 + exKeyT.base2k * max exKeyT.mat.size (convSize exCtT exKeyT)) *
              Ks.ι 1 (valP exCtT.base2k 1 (phase [[1]] exCtT))
            + Ks.ι 1 (polyAdd
                (ksErr (2 ^ (3 * 2 + exKeyT.base2k * (exKeyT.mat.size - convSize exCtT exKeyT)))
                  (2 ^ (exCtT.base2k * exCtT.size + 3 * 2 + exKeyT.base2k * (convSize exCtT exKeyT - exKeyT.mat.size)))
                  (2 ^ (exCtT.base2k * exCtT.size + exKeyT.base2k * (convSize exCtT exKeyT - exKeyT.mat.size))) E1
                  (Ks.errL 1 exKeyT.base2k (aDftOf aConv) exKeyT exELT) (Ks.dropL 1 exKeyT.base2k [] (aDftOf aConv) exKeyT) E3)
                (polyScale (-(2 ^ (exCtT.base2k * exCtT.size + 3 * 2 + exKeyT.base2k * (exKeyT.mat.size - convSize exCtT exKeyT))))
                  (truncL 1 exKeyT.base2k (min (convSize exCtT exKeyT) (exKeyT.mat.rows * exKeyT.dsize))
                    (min (convSize exCtT exKeyT) exKeyT.mat.size) [[1]] exKeyT.mat.colsIn aConv)))
            + (2 : Ks.R 1) ^ (exCtT.base2k * exCtT.size + 3 * 2 + exKeyT.base2k * max exKeyT.mat.size (convSize exCtT exKeyT)) * Q := by
  have hM := Ks.entry_length exKeyT.mat 1 rfl (by decide)
  have hz : Ks.ι 1 [0] = 0 := Ks.ι_zero 1 1
  have hconv : Ks.convIn exCtT exKeyT = .ok exCtT := rfl
  obtain ⟨res, aConv, h1, h2, h3, h4, h5, h6, E1, E3, Q, h7, h8, h9, h10, h11, _⟩ :=
    glwe_keyswitch_decrypts_general big128 1 3 2 0 exCtT exKeyT [[1]] [] exELT (fun _ _ => [0]) 3 1
      (by decide) (by decide) rfl rfl (by decide) (by decide) hM (by decide)
      (by decide) (by decide) (by decide) (by decide) (by decide) (by decide)
      (by norm_num) (by norm_num)
      (by intro c hc l hl x hx; revert x l c; decide)
      (by norm_num) (entry_normInf exKeyT.mat 1 (by norm_num) (by decide))
      (by cases big128 <;> decide)
      (by decide)
      (fun i r => Ks.keyErrL_length 1 4 [] exKeyT _ i r (by decide) hM (fun _ => rfl))
      (fun _ _ => rfl)
      (by
        intro i hi r _
        have hi0 : i = 0 := by have : i < 1 := hi; omega
        subst hi0
        have h := Ks.keyErrL_spec 1 4 [] exKeyT (fun _ => [1]) 0 r (by decide) hM (fun _ => rfl)
        rw [hz, mul_zero, add_zero]
        exact h)
  have hA : aConv = exCtT := by
    rw [hconv] at h2
    injection h2 with e
    exact e.symm
  exact ⟨res, aConv, h1, h2, hA, by decide, by decide, h3, h4, h5, h6, E1, E3, Q, h7, h8, h9, h10, h11⟩

end KsDec
