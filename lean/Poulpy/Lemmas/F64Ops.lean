import Poulpy.Lemmas.F64Round

/-!
# Operation-level facts of the binary64 model: `fl(x ∘ y) = round(x ∘ y)`, error `≤ 2^-53·|x ∘ y|`

All statements are about the executable definitions `F64.add`, `sub`, `mul`, `neg`, `ofInt`, `toI64` through the
real value `F64.val` of a bit pattern and the finiteness predicate `F64.Fin64`.
-/

namespace F64

/-- unit roundoff of binary64 -/
noncomputable def u : ℝ := (2:ℝ) ^ (-53:Int)
/-- half of the smallest subnormal: the absolute rounding error in the subnormal range -/
noncomputable def η : ℝ := (2:ℝ) ^ (-1075:Int)

theorem u_pos : 0 < u := by unfold u; positivity
theorem η_pos : 0 < η := by unfold η; positivity

theorem val_of_decode {b : Nat} {d : Dy} (h : decode b = some d) : val b = d.val := by
  unfold val; rw [h]

theorem Dy.val_abs (d : Dy) : |d.val| = (d.m:ℝ) * (2:ℝ) ^ d.e := by
  unfold Dy.val
  have h : (0:ℝ) ≤ (d.m:ℝ) * (2:ℝ) ^ d.e := by positivity
  cases d.neg <;> simp [abs_of_nonneg h]

theorem Dy.val_zero (s : Bool) (e : Int) : (Dy.mk s 0 e).val = 0 := by simp [Dy.val]

/-- **`round` is round-to-nearest**: for an exact value of magnitude below `2^1023` the result is finite and within
`max (2^-53·|x|) 2^-1075` of it; it is exact when the significand needs no more bits than the format has. -/
theorem val_round (d : Dy) (hx : |d.val| < (2:ℝ) ^ (1023:Int)) :
    Fin64 (round d) ∧ |val (round d) - d.val| ≤ max (u * |d.val|) η ∧
      (d.m ≠ 0 → quantum d.m d.e ≤ d.e → val (round d) = d.val) ∧
      (d.m ≠ 0 → |val (round d) - d.val| ≤ (2:ℝ) ^ (quantum d.m d.e - 1)) := by
  by_cases hm : d.m = 0
  · have hd : d = ⟨d.neg, 0, d.e⟩ := by cases d; simp_all
    have h0 := round_zero d.neg d.e
    rw [← hd] at h0
    have hv : d.val = 0 := by rw [hd]; exact Dy.val_zero _ _
    refine ⟨⟨_, h0⟩, ?_, fun h => absurd hm h, fun h => absurd hm h⟩
    rw [val_of_decode h0, hv, Dy.val_zero]; simp [η_pos.le]
  · rw [Dy.val_abs] at hx
    obtain ⟨r, hr, hneg, herr, hex⟩ := round_spec d hm hx
    have hval : val (round d) - d.val = (if d.neg then -1 else 1) * ((r.m:ℝ) * (2:ℝ) ^ r.e - (d.m:ℝ) * (2:ℝ) ^ d.e) := by
      rw [val_of_decode hr]; unfold Dy.val; rw [hneg]; ring
    have habs : |val (round d) - d.val| = |(r.m:ℝ) * (2:ℝ) ^ r.e - (d.m:ℝ) * (2:ℝ) ^ d.e| := by
      rw [hval]; cases d.neg <;> simp [abs_sub_comm]
    refine ⟨⟨_, hr⟩, ?_, ?_, ?_⟩
    · rw [habs, Dy.val_abs]
      exact le_trans herr (half_ulp_le d.m d.e hm)
    · intro _ hq
      have := hex hq
      rw [val_of_decode hr]; unfold Dy.val; rw [hneg, this]
    · intro _; rw [habs]; exact herr


theorem half_ulp_le_normal (m : Nat) (e : Int) (hm : m ≠ 0) (h : -1074 < quantum m e) :
    (2:ℝ) ^ (quantum m e - 1) ≤ (2:ℝ) ^ (-53:Int) * ((m:ℝ) * (2:ℝ) ^ e) := by
  rcases quantum_cases m e with ⟨h', _⟩ | ⟨h', _⟩
  · omega
  · have hb := (mag_bounds m e hm).1
    have h2 : (2:ℝ) ≠ 0 := by norm_num
    calc (2:ℝ) ^ (quantum m e - 1) = (2:ℝ) ^ (-53:Int) * (2:ℝ) ^ ((Nat.log2 m : Int) + e) := by
          rw [← zpow_add₀ h2, h']; congr 1; push_cast; ring
      _ ≤ (2:ℝ) ^ (-53:Int) * ((m:ℝ) * (2:ℝ) ^ e) := mul_le_mul_of_nonneg_left hb (by positivity)

/-- no underflow error when the exact value is a multiple of the subnormal quantum (sums of doubles,
integers): the error is at most `2^-53·|x|` -/
theorem val_round_grid (d : Dy) (hx : |d.val| < (2:ℝ) ^ (1023:Int)) (he : -1074 ≤ d.e) :
    Fin64 (round d) ∧ |val (round d) - d.val| ≤ u * |d.val| := by
  obtain ⟨hf, h1, h2, h3⟩ := val_round d hx
  refine ⟨hf, ?_⟩
  by_cases hm : d.m = 0
  · have hv : d.val = 0 := by unfold Dy.val; rw [hm]; simp
    rw [hv] at h1 ⊢
    have hd : d = ⟨d.neg, 0, d.e⟩ := by cases d; simp_all
    have h0 := round_zero d.neg d.e
    rw [← hd] at h0
    rw [val_of_decode h0, Dy.val_zero]; simp
  · rcases quantum_cases d.m d.e with ⟨hq, _⟩ | ⟨_, hq⟩
    · rw [h2 hm (by omega)]; simp; exact mul_nonneg u_pos.le (abs_nonneg _)
    · refine le_trans (h3 hm) ?_
      rw [Dy.val_abs]; exact half_ulp_le_normal d.m d.e hm hq

/-- `decode` as a function of the three fields -/
def decodeF (s : Bool) (ef mf : Nat) : Option Dy :=
  if ef = 2047 then none
  else if ef = 0 then some ⟨s, mf, -1074⟩
  else some ⟨s, mf + 2 ^ 52, (ef : Int) - 1075⟩

theorem decode_eq (b : Nat) : decode b = decodeF (decide (b / 2 ^ 63 % 2 = 1)) (b / 2 ^ 52 % 2048) (b % 2 ^ 52) := rfl

theorem decodeF_sign {s : Bool} {ef mf : Nat} {d : Dy} (h : decodeF s ef mf = some d) (s' : Bool) :
    decodeF s' ef mf = some ⟨s', d.m, d.e⟩ := by
  unfold decodeF at *
  split_ifs at h ⊢ <;> cases h <;> rfl

theorem decodeF_neg_field {s : Bool} {ef mf : Nat} {d : Dy} (h : decodeF s ef mf = some d) : d.neg = s := by
  unfold decodeF at h
  split_ifs at h <;> cases h <;> rfl

theorem decode_neg {a : Nat} {d : Dy} (h : decode a = some d) : decode (neg a) = some ⟨!d.neg, d.m, d.e⟩ := by
  rw [decode_eq] at h ⊢
  have e1 : neg a / 2 ^ 52 % 2048 = a / 2 ^ 52 % 2048 := by unfold neg; split <;> omega
  have e2 : neg a % 2 ^ 52 = a % 2 ^ 52 := by unfold neg; split <;> omega
  have key : (neg a / 2 ^ 63 % 2 = 1) ↔ ¬ (a / 2 ^ 63 % 2 = 1) := by unfold neg; split <;> omega
  have e3 : decide (neg a / 2 ^ 63 % 2 = 1) = !decide (a / 2 ^ 63 % 2 = 1) := by
    simp only [key, decide_not]
  rw [e1, e2, e3, ← decodeF_neg_field h]
  exact decodeF_sign h _

theorem neg_spec (a : Nat) (ha : Fin64 a) : Fin64 (neg a) ∧ val (neg a) = - val a := by
  obtain ⟨d, hd⟩ := ha
  have h := decode_neg hd
  refine ⟨⟨_, h⟩, ?_⟩
  rw [val_of_decode h, val_of_decode hd]; unfold Dy.val
  cases d.neg <;> simp

theorem mul_spec (a b : Nat) (ha : Fin64 a) (hb : Fin64 b) (hx : |val a * val b| < (2:ℝ) ^ (1023:Int)) :
    Fin64 (mul a b) ∧ |val (mul a b) - val a * val b| ≤ max (u * |val a * val b|) η := by
  obtain ⟨x, hx'⟩ := ha
  obtain ⟨y, hy'⟩ := hb
  have hmul : mul a b = round ⟨x.neg != y.neg, x.m * y.m, x.e + y.e⟩ := by unfold mul; rw [hx', hy']
  have hval : (Dy.mk (x.neg != y.neg) (x.m * y.m) (x.e + y.e)).val = val a * val b := by
    rw [val_of_decode hx', val_of_decode hy']; unfold Dy.val
    simp only
    rw [zpow_add₀ (by norm_num : (2:ℝ) ≠ 0)]; push_cast
    cases x.neg <;> cases y.neg <;> simp <;> ring
  rw [hmul]; rw [← hval] at hx ⊢
  obtain ⟨hf, h1, _⟩ := val_round _ hx
  exact ⟨hf, h1⟩


theorem Dy.val_eq_toInt (d : Dy) : d.val = (d.toInt : ℝ) * (2:ℝ) ^ d.e := by
  unfold Dy.val Dy.toInt; cases d.neg <;> simp

theorem decode_zero_pat (s : Bool) : decode (pack s 0) = some ⟨s, 0, -1074⟩ :=
  decode_pack s 0 ⟨false, 0, -1074⟩ (by decide) rfl

theorem val_eq_zero_of_m {b : Nat} {d : Dy} (h : decode b = some d) (hm : d.m = 0) : val b = 0 := by
  rw [val_of_decode h]; unfold Dy.val; rw [hm]; simp

/-- **`add` is the correctly rounded sum**; sums of doubles are multiples of `2^-1074`, so there is no underflow
error: `|fl(x + y) − (x + y)| ≤ 2^-53·|x + y|` -/
theorem add_spec (a b : Nat) (ha : Fin64 a) (hb : Fin64 b) (hx : |val a + val b| < (2:ℝ) ^ (1023:Int)) :
    Fin64 (add a b) ∧ |val (add a b) - (val a + val b)| ≤ u * |val a + val b| := by
  obtain ⟨x, hx'⟩ := ha
  obtain ⟨y, hy'⟩ := hb
  have h2 : (2:ℝ) ≠ 0 := by norm_num
  unfold add; rw [hx', hy']; simp only
  split
  · rename_i h
    have h0 := decode_zero_pat (x.neg && y.neg)
    refine ⟨⟨_, h0⟩, ?_⟩
    rw [val_of_decode h0, Dy.val_zero, val_eq_zero_of_m hx' h.1, val_eq_zero_of_m hy' h.2]; simp
  · split
    · rename_i _ h
      refine ⟨⟨_, hy'⟩, ?_⟩
      rw [val_eq_zero_of_m hx' h]; simp; exact mul_nonneg u_pos.le (abs_nonneg _)
    · split
      · rename_i _ _ h
        refine ⟨⟨_, hx'⟩, ?_⟩
        rw [val_eq_zero_of_m hy' h]; simp; exact mul_nonneg u_pos.le (abs_nonneg _)
      · -- general case
        set e0 := min x.e y.e with he0
        set s : Int := x.toInt * 2 ^ (x.e - e0).toNat + y.toInt * 2 ^ (y.e - e0).toNat with hs
        have hxe : (2:ℝ) ^ x.e = (2:ℝ) ^ (x.e - e0).toNat * (2:ℝ) ^ e0 := by
          rw [two_zpow_toNat _ (by omega), ← zpow_add₀ h2]; congr 1; ring
        have hye : (2:ℝ) ^ y.e = (2:ℝ) ^ (y.e - e0).toNat * (2:ℝ) ^ e0 := by
          rw [two_zpow_toNat _ (by omega), ← zpow_add₀ h2]; congr 1; ring
        have hsum : (s:ℝ) * (2:ℝ) ^ e0 = val a + val b := by
          rw [val_of_decode hx', val_of_decode hy', Dy.val_eq_toInt, Dy.val_eq_toInt, hxe, hye, hs]
          push_cast; ring
        have he0' : -1074 ≤ e0 := by
          have := (decode_bounds hx').2.1; have := (decode_bounds hy').2.1; omega
        split
        · rename_i hs0
          have h0 : decode 0 = some ⟨false, 0, -1074⟩ := by decide
          refine ⟨⟨_, h0⟩, ?_⟩
          rw [← hsum, hs0, val_of_decode h0, Dy.val_zero]; simp
        · rename_i hs0
          have hdv : (Dy.mk (decide (s < 0)) s.natAbs e0).val = val a + val b := by
            rw [← hsum]; unfold Dy.val; simp only
            by_cases hneg : s < 0
            · simp only [hneg, decide_true, if_true]
              have : (s.natAbs : ℝ) = -(s:ℝ) := by
                have h1 : (s.natAbs : Int) = -s := by omega
                have h2 : ((s.natAbs : Int) : ℝ) = ((-s : Int) : ℝ) := by rw [h1]
                simpa using h2
              rw [this]; ring
            · simp only [hneg, decide_false]
              have : (s.natAbs : ℝ) = (s:ℝ) := by
                have h1 : (s.natAbs : Int) = s := by omega
                have h2 : ((s.natAbs : Int) : ℝ) = ((s : Int) : ℝ) := by rw [h1]
                simpa using h2
              rw [this]; simp
          rw [← hdv] at hx ⊢
          exact val_round_grid _ hx he0'

theorem sub_spec (a b : Nat) (ha : Fin64 a) (hb : Fin64 b) (hx : |val a - val b| < (2:ℝ) ^ (1023:Int)) :
    Fin64 (sub a b) ∧ |val (sub a b) - (val a - val b)| ≤ u * |val a - val b| := by
  obtain ⟨hn, hv⟩ := neg_spec b hb
  have := add_spec a (neg b) ha hn (by rw [hv]; simpa [sub_eq_add_neg] using hx)
  rw [hv] at this
  simpa [sub, sub_eq_add_neg] using this


/-- `x as f64`: correctly rounded, exact below `2^53` -/
theorem ofInt_spec (x : Int) (hx : |(x:ℝ)| < (2:ℝ) ^ (1023:Int)) :
    Fin64 (ofInt x) ∧ |val (ofInt x) - (x:ℝ)| ≤ u * |(x:ℝ)| ∧ (x.natAbs < 2 ^ 53 → val (ofInt x) = (x:ℝ)) := by
  have hdv : (Dy.mk (decide (x < 0)) x.natAbs 0).val = (x:ℝ) := by
    unfold Dy.val; simp only [zpow_zero, mul_one]
    by_cases hneg : x < 0
    · simp only [hneg, decide_true, if_true]
      have h1 : (x.natAbs : Int) = -x := by omega
      have h2 : ((x.natAbs : Int) : ℝ) = ((-x : Int) : ℝ) := by rw [h1]
      have : (x.natAbs : ℝ) = -(x:ℝ) := by simpa using h2
      rw [this]; ring
    · simp only [hneg, decide_false]
      have h1 : (x.natAbs : Int) = x := by omega
      have h2 : ((x.natAbs : Int) : ℝ) = ((x : Int) : ℝ) := by rw [h1]
      have : (x.natAbs : ℝ) = (x:ℝ) := by simpa using h2
      rw [this]; simp
  unfold ofInt
  rw [← hdv] at hx ⊢
  obtain ⟨hf, herr⟩ := val_round_grid _ hx (by norm_num)
  refine ⟨hf, herr, ?_⟩
  intro hlt
  by_cases hm : x.natAbs = 0
  · have h0 := round_zero (decide (x < 0)) 0
    rw [hm, val_of_decode h0, Dy.val_zero, Dy.val_zero]
  · obtain ⟨_, _, hex, _⟩ := val_round _ hx
    apply hex hm
    show quantum x.natAbs 0 ≤ 0
    have : Nat.log2 x.natAbs < 53 := (Nat.log2_lt hm).2 hlt
    unfold quantum; push_cast; omega

theorem decode_pow2Neg (k : Nat) (hk : k ≤ 1022) : decode (pow2Neg k) = some ⟨false, 2 ^ 52, -52 - (k:Int)⟩ := by
  rw [decode_eq]; unfold pow2Neg
  have e1 : (1023 - k) * 2 ^ 52 / 2 ^ 52 % 2048 = 1023 - k := by omega
  have e2 : (1023 - k) * 2 ^ 52 % 2 ^ 52 = 0 := by omega
  have e3 : ¬ ((1023 - k) * 2 ^ 52 / 2 ^ 63 % 2 = 1) := by omega
  rw [e1, e2]; unfold decodeF
  rw [if_neg (by omega), if_neg (by omega)]
  simp only [e3, decide_false, Nat.zero_add]
  congr 2; omega

theorem val_pow2Neg (k : Nat) (hk : k ≤ 1022) : Fin64 (pow2Neg k) ∧ val (pow2Neg k) = (2:ℝ) ^ (-(k:Int)) := by
  have h := decode_pow2Neg k hk
  refine ⟨⟨_, h⟩, ?_⟩
  rw [val_of_decode h]; unfold Dy.val; simp only [Bool.false_eq_true, if_false, one_mul]
  have e52 : ((2 ^ 52 : Nat) : ℝ) = (2:ℝ) ^ (52:Int) := by norm_num
  rw [e52, ← zpow_add₀ (by norm_num : (2:ℝ) ≠ 0)]; congr 1; ring

/-- round half away from zero of a non-negative dyadic that is within `1/2` of a natural number gives that number -/
theorem halfAway_core (m : Nat) (e : Int) (c : Nat) (h : |(m:ℝ) * (2:ℝ) ^ e - (c:ℝ)| < 1 / 2) :
    (if 0 ≤ e then m * 2 ^ e.toNat else (m + 2 ^ ((-e).toNat - 1)) / 2 ^ (-e).toNat) = c := by
  have h2 : (2:ℝ) ≠ 0 := by norm_num
  split
  · rename_i he
    rw [← two_zpow_toNat e he] at h
    have h' : |(((m * 2 ^ e.toNat : Nat) : Int) : ℝ) - ((c : Int) : ℝ)| < 1 / 2 := by push_cast; exact h
    rw [← Int.cast_sub, ← Int.cast_abs] at h'
    have : |((m * 2 ^ e.toNat : Nat) : Int) - (c : Int)| < 1 := by
      by_contra hc
      have : (1:ℝ) ≤ ((|((m * 2 ^ e.toNat : Nat) : Int) - (c : Int)| : Int) : ℝ) := by exact_mod_cast not_lt.mp hc
      linarith
    have := abs_lt.mp this
    omega
  · rename_i he
    obtain ⟨s, hs⟩ : ∃ s : Nat, (-e).toNat = s + 1 := ⟨(-e).toNat - 1, by omega⟩
    rw [hs]; simp only [Nat.add_sub_cancel]
    have hP : (2:ℕ) ^ (s + 1) = 2 * 2 ^ s := by rw [pow_succ]; ring
    have hze : (2:ℝ) ^ e = 1 / ((2:ℝ) * (2:ℝ) ^ s) := by
      have : e = -((s + 1 : Nat) : Int) := by omega
      rw [this, zpow_neg, zpow_natCast, pow_succ, one_div, mul_comm]
    rw [hze] at h
    have hHpos : (0:ℝ) < (2:ℝ) ^ s := by positivity
    have hlt := abs_lt.mp h
    have k1 : (c:ℝ) * (2 * (2:ℝ) ^ s) < (m:ℝ) + (2:ℝ) ^ s := by
      have := hlt.1
      have e1 : (m:ℝ) * (1 / (2 * (2:ℝ) ^ s)) = (m:ℝ) / (2 * (2:ℝ) ^ s) := by ring
      rw [e1] at this
      have : (c:ℝ) - 1 / 2 < (m:ℝ) / (2 * (2:ℝ) ^ s) := by linarith
      rw [lt_div_iff₀ (by positivity)] at this
      nlinarith
    have k2 : (m:ℝ) + (2:ℝ) ^ s < ((c:ℝ) + 1) * (2 * (2:ℝ) ^ s) := by
      have := hlt.2
      have e1 : (m:ℝ) * (1 / (2 * (2:ℝ) ^ s)) = (m:ℝ) / (2 * (2:ℝ) ^ s) := by ring
      rw [e1] at this
      have : (m:ℝ) / (2 * (2:ℝ) ^ s) < (c:ℝ) + 1 / 2 := by linarith
      rw [div_lt_iff₀ (by positivity)] at this
      nlinarith
    have n1 : c * (2 * 2 ^ s) < m + 2 ^ s := by exact_mod_cast k1
    have n2 : m + 2 ^ s < (c + 1) * (2 * 2 ^ s) := by exact_mod_cast k2
    rw [hP]
    apply Nat.div_eq_of_lt_le
    · rw [Nat.mul_comm] at n1; exact Nat.le_of_lt (by rw [Nat.mul_comm]; exact n1)
    · exact n2


/-- `.round() as i64` returns the integer the value is within `1/2` of (no saturation for `|c| ≤ 2^62`) -/
theorem roundToI64_spec (y : Nat) (hy : Fin64 y) (c : Int) (h : |val y - (c:ℝ)| < 1 / 2) (hc : |c| ≤ 2 ^ 62) :
    roundToI64 y = c := by
  obtain ⟨d, hd⟩ := hy
  rw [val_of_decode hd] at h
  have ht : (0:ℝ) ≤ (d.m:ℝ) * (2:ℝ) ^ d.e := by positivity
  have hcl := abs_le.mp hc
  unfold roundToI64; rw [hd]; simp only
  set r := (if 0 ≤ d.e then d.m * 2 ^ d.e.toNat else (d.m + 2 ^ ((-d.e).toNat - 1)) / 2 ^ (-d.e).toNat) with hr
  unfold Dy.val at h
  cases hneg : d.neg
  · rw [hneg] at h; simp only [Bool.false_eq_true, if_false, one_mul] at h
    have hc0 : 0 ≤ c := by
      by_contra hc'
      have : (c:ℝ) ≤ -1 := by exact_mod_cast (by omega : c ≤ -1)
      have := (abs_lt.mp h).2; linarith
    obtain ⟨n, rfl⟩ := Int.eq_ofNat_of_zero_le hc0
    have := halfAway_core d.m d.e n (by simpa using h)
    rw [← hr] at this
    simp only [Bool.false_eq_true, if_false, this]
    rw [if_neg (by omega), if_neg (by omega)]
  · rw [hneg] at h; simp only [if_true] at h
    have hc0 : c ≤ 0 := by
      by_contra hc'
      have : (1:ℝ) ≤ (c:ℝ) := by exact_mod_cast (by omega : 1 ≤ c)
      have := (abs_lt.mp h).1; linarith
    obtain ⟨n, hn⟩ := Int.eq_ofNat_of_zero_le (by omega : 0 ≤ -c)
    have hcn : (c:ℝ) = -(n:ℝ) := by
      have : c = -(n:Int) := by omega
      rw [this]; push_cast; ring
    have := halfAway_core d.m d.e n (by
      rw [hcn] at h
      have e1 : -1 * ((d.m:ℝ) * (2:ℝ) ^ d.e) - -(n:ℝ) = -((d.m:ℝ) * (2:ℝ) ^ d.e - (n:ℝ)) := by ring
      rw [e1, abs_neg] at h; exact h)
    rw [← hr] at this
    simp only [if_true, this]
    rw [if_neg (by omega), if_neg (by omega)]; omega

/-- one coefficient of `reim_to_znx_i64_ref(divisor = 2^k)`: if the scaled value, *after* the rounding of the
multiplication by `2^-k`, is within `1/2` of an integer, that integer is returned -/
theorem toI64_spec (k : Nat) (hk : k ≤ 1022) (a : Nat) (ha : Fin64 a) (c : Int) (hc : |c| ≤ 2 ^ 62)
    (hx : |val a * (2:ℝ) ^ (-(k:Int))| < (2:ℝ) ^ (1023:Int))
    (h : |val a * (2:ℝ) ^ (-(k:Int)) - (c:ℝ)| + max (u * |val a * (2:ℝ) ^ (-(k:Int))|) η < 1 / 2) :
    toI64 k a = c := by
  obtain ⟨hp, hv⟩ := val_pow2Neg k hk
  have hm := mul_spec a (pow2Neg k) ha hp (by rw [hv]; exact hx)
  rw [hv] at hm
  unfold toI64
  apply roundToI64_spec _ hm.1 c _ hc
  have := abs_sub_le (val (mul a (pow2Neg k))) (val a * (2:ℝ) ^ (-(k:Int))) (c:ℝ)
  linarith [hm.2]


theorem η_eq : η = u * (2:ℝ) ^ (-1022:Int) := by
  unfold η u; rw [← zpow_add₀ (by norm_num : (2:ℝ) ≠ 0)]; norm_num

/-! ### The interface used by the error analysis: one rounding costs `u·B` for any a-priori bound `B` on the exact
result (`2^-1022 ≤ B` absorbs the underflow term of a product; sums never underflow) -/

theorem mul_err (a b : Nat) (B : ℝ) (ha : Fin64 a) (hb : Fin64 b) (h : |val a * val b| ≤ B)
    (hB1 : (2:ℝ) ^ (-1022:Int) ≤ B) (hB2 : B < (2:ℝ) ^ (1023:Int)) :
    Fin64 (mul a b) ∧ |val (mul a b) - val a * val b| ≤ u * B := by
  obtain ⟨hf, he⟩ := mul_spec a b ha hb (lt_of_le_of_lt h hB2)
  refine ⟨hf, le_trans he (max_le ?_ ?_)⟩
  · exact mul_le_mul_of_nonneg_left h u_pos.le
  · rw [η_eq]; exact mul_le_mul_of_nonneg_left hB1 u_pos.le

theorem add_err (a b : Nat) (B : ℝ) (ha : Fin64 a) (hb : Fin64 b) (h : |val a + val b| ≤ B) (hB2 : B < (2:ℝ) ^ (1023:Int)) :
    Fin64 (add a b) ∧ |val (add a b) - (val a + val b)| ≤ u * B := by
  obtain ⟨hf, he⟩ := add_spec a b ha hb (lt_of_le_of_lt h hB2)
  exact ⟨hf, le_trans he (mul_le_mul_of_nonneg_left h u_pos.le)⟩

theorem sub_err (a b : Nat) (B : ℝ) (ha : Fin64 a) (hb : Fin64 b) (h : |val a - val b| ≤ B) (hB2 : B < (2:ℝ) ^ (1023:Int)) :
    Fin64 (sub a b) ∧ |val (sub a b) - (val a - val b)| ≤ u * B := by
  obtain ⟨hf, he⟩ := sub_spec a b ha hb (lt_of_le_of_lt h hB2)
  exact ⟨hf, le_trans he (mul_le_mul_of_nonneg_left h u_pos.le)⟩

/-- standard model `fl(x·y) = x·y·(1+δ)`, `|δ| ≤ 2^-53`, in the normal range -/
theorem mul_rel (a b : Nat) (ha : Fin64 a) (hb : Fin64 b) (hlo : (2:ℝ) ^ (-1022:Int) ≤ |val a * val b|)
    (hhi : |val a * val b| < (2:ℝ) ^ (1023:Int)) :
    Fin64 (mul a b) ∧ ∃ δ : ℝ, |δ| ≤ u ∧ val (mul a b) = val a * val b * (1 + δ) := by
  obtain ⟨hf, he⟩ := mul_err a b _ ha hb le_rfl hlo hhi
  refine ⟨hf, (val (mul a b) - val a * val b) / (val a * val b), ?_, ?_⟩
  · have hpos : 0 < |val a * val b| := lt_of_lt_of_le (by positivity) hlo
    rw [abs_div, div_le_iff₀ hpos]; exact he
  · have hne : val a * val b ≠ 0 := by
      intro h0; rw [h0, abs_zero] at hlo
      have : (0:ℝ) < (2:ℝ) ^ (-1022:Int) := by positivity
      linarith
    rw [mul_add, mul_one, mul_div_cancel₀ _ hne]; ring

/-- standard model `fl(x+y) = (x+y)(1+δ)`, `|δ| ≤ 2^-53`, with no lower range restriction -/
theorem add_rel (a b : Nat) (ha : Fin64 a) (hb : Fin64 b) (hhi : |val a + val b| < (2:ℝ) ^ (1023:Int)) :
    Fin64 (add a b) ∧ ∃ δ : ℝ, |δ| ≤ u ∧ val (add a b) = (val a + val b) * (1 + δ) := by
  obtain ⟨hf, he⟩ := add_spec a b ha hb hhi
  refine ⟨hf, ?_⟩
  by_cases h0 : val a + val b = 0
  · refine ⟨0, by simp [u_pos.le], ?_⟩
    rw [h0, abs_zero, mul_zero] at he
    have := abs_nonpos_iff.mp he
    rw [h0]; linarith
  · refine ⟨(val (add a b) - (val a + val b)) / (val a + val b), ?_, ?_⟩
    · rw [abs_div, div_le_iff₀ (abs_pos.mpr h0)]; exact he
    · rw [mul_add, mul_one, mul_div_cancel₀ _ h0]; ring

end F64
