import Poulpy.Lemmas.RingAuto
import Poulpy.Lemmas.RingWrap
import Poulpy.Lemmas.NegRing
import Poulpy.Lemmas.NegHal
import Poulpy.Lemmas.GadgetPhase

/-!
# The Galois automorphism `σ_g : X ↦ X^g` is a ring endomorphism of `ℤ[X]/(X^N+1)`

`σ g a := znxAutomorphismW id g a` is the model's automorphism kernel instantiated with the exact
(non-wrapping) negation.  This file proves, for `N = a.length = b.length`, `0 < N` and an admissible
`g` (`GalOk g N`; for `N = 2^k` every odd `g`, `galOk_pow2`):

* additivity / homogeneity (`auto_add`, `auto_smul`, `auto_zero`),
* **multiplicativity for the exact negacyclic product** (`auto_negMul`, `auto_negMul_hal`), by
  transfer to `AdjoinRoot (X^N+1)`: the class of `σ_g a` is the image of the class of `a` under the
  ring endomorphism `root ↦ root^(g mod 2N)` (`mk_auto`),
* the `i64` kernel agrees with the exact one when no coefficient is `i64::MIN` (`auto_w64_eq_id`),
* the **phase corollaries** `automorphism_phase` and `automorphism_phase_key`: applying `σ_g` to every
  column of a ciphertext gives a ciphertext whose phase under `σ_g(s)` is `σ_g(phase)`.
-/

open Polynomial

namespace AutoMul

/-- the exact Galois automorphism `X ↦ X^g` on a coefficient list -/
abbrev σ (g : Int) (a : Poly) : Poly := znxAutomorphismW id g a

theorem allT (a : Poly) : AllP (fun _ => True) a := fun _ _ => trivial

theorem σ_length (g : Int) (a : Poly) : (σ g a).length = a.length := auto_length id g a

theorem σ_coeffZ (g : Int) (a : Poly) (hn : 0 < a.length) (hg : GalOk g a.length) (i : Int) :
    coeffZ id (σ g a) (i * g) = coeffZ id a i :=
  auto_coeffZ negOnZ g a hn (allT a) hg i

/-! ### 1. linearity -/

theorem getD_addL (a b : Poly) (h : a.length = b.length) (i : Nat) :
    (addL a b).getD i 0 = a.getD i 0 + b.getD i 0 := by
  simp only [addL, List.getD_eq_getElem?_getD, List.getElem?_zipWith]
  by_cases hi : i < a.length
  · rw [List.getElem?_eq_getElem hi, List.getElem?_eq_getElem (h ▸ hi)]; rfl
  · rw [List.getElem?_eq_none (by omega), List.getElem?_eq_none (by omega)]; rfl

theorem getD_smulL (c : Int) (a : Poly) (i : Nat) : (smulL c a).getD i 0 = c * a.getD i 0 := by
  simp only [smulL, List.getD_eq_getElem?_getD, List.getElem?_map]
  cases a[i]? <;> simp

theorem addL_length' (a b : Poly) (h : a.length = b.length) : (addL a b).length = a.length := by
  simp [addL, h]

theorem coeffZ_addL (a b : Poly) (h : a.length = b.length) (k : Int) :
    coeffZ id (addL a b) k = coeffZ id a k + coeffZ id b k := by
  unfold coeffZ
  simp only [addL_length' a b h, ← h, getD_addL a b h, id]
  split
  · rfl
  · ring

theorem coeffZ_smulL (c : Int) (a : Poly) (k : Int) :
    coeffZ id (smulL c a) k = c * coeffZ id a k := by
  unfold coeffZ
  simp only [smulL_length, getD_smulL, id]
  split
  · rfl
  · ring

/-- `σ_g (a + b) = σ_g a + σ_g b` -/
theorem auto_add (g : Int) (a b : Poly) (h : a.length = b.length) (hn : 0 < a.length) (hg : GalOk g a.length) :
    σ g (addL a b) = addL (σ g a) (σ g b) := by
  have hl : (addL a b).length = a.length := addL_length' a b h
  have hs : (σ g a).length = (σ g b).length := by rw [σ_length, σ_length, h]
  apply coeffZ_ext_mul id g _ _
    (by rw [σ_length, hl, addL_length' _ _ hs, σ_length]) (by rw [σ_length, hl]; exact hn)
    (by rw [σ_length, hl]; exact hg)
  intro i
  rw [σ_coeffZ g _ (by rw [hl]; exact hn) (by rw [hl]; exact hg), coeffZ_addL a b h, coeffZ_addL _ _ hs,
    σ_coeffZ g a hn hg, σ_coeffZ g b (by rw [← h]; exact hn) (by rw [← h]; exact hg)]

/-- `σ_g (c · a) = c · σ_g a` -/
theorem auto_smul (g : Int) (c : Int) (a : Poly) (hn : 0 < a.length) (hg : GalOk g a.length) :
    σ g (smulL c a) = smulL c (σ g a) := by
  have hl : (smulL c a).length = a.length := smulL_length c a
  apply coeffZ_ext_mul id g _ _
    (by rw [σ_length, hl, smulL_length, σ_length]) (by rw [σ_length, hl]; exact hn)
    (by rw [σ_length, hl]; exact hg)
  intro i
  rw [σ_coeffZ g _ (by rw [hl]; exact hn) (by rw [hl]; exact hg), coeffZ_smulL, coeffZ_smulL,
    σ_coeffZ g a hn hg]

theorem coeffZ_zero (n : Nat) (k : Int) : coeffZ id (znxZero n) k = 0 := by
  have : ∀ i, (znxZero n).getD i 0 = 0 := by
    intro i
    simp only [znxZero, List.getD_eq_getElem?_getD, List.getElem?_replicate]
    split <;> rfl
  unfold coeffZ
  simp only [this, id]
  split <;> rfl

/-- `σ_g 0 = 0` -/
theorem auto_zero (g : Int) (n : Nat) (hn : 0 < n) (hg : GalOk g n) : σ g (znxZero n) = znxZero n := by
  have hl : (znxZero n).length = n := znxZero_length n
  apply coeffZ_ext_mul id g _ _ (by rw [σ_length]) (by rw [σ_length, hl]; exact hn)
    (by rw [σ_length, hl]; exact hg)
  intro i
  rw [σ_coeffZ g _ (by rw [hl]; exact hn) (by rw [hl]; exact hg), coeffZ_zero, coeffZ_zero]

/-! ### 4. the wrapping kernels agree with the exact one when no negation wraps -/

theorem autoLoop_congr (w w' : Int → Int) (n p : Nat) (l : List Int) (h : ∀ x ∈ l, w (-x) = w' (-x))
    (k : Nat) (res : Poly) : autoLoop w n p l k res = autoLoop w' n p l k res := by
  induction l generalizing k res with
  | nil => rfl
  | cons x t ih =>
    simp only [autoLoop]
    rw [h x List.mem_cons_self]
    exact ih (fun y hy => h y (List.mem_cons_of_mem _ hy)) _ _

/-- the automorphism kernel only uses the wrap function through `x ↦ w (-x)` on the coefficients of `a` -/
theorem autoInto_congr (w w' : Int → Int) (g : Int) (res0 a : Poly) (h : ∀ x ∈ a, w (-x) = w' (-x)) :
    znxAutomorphismIntoW w g res0 a = znxAutomorphismIntoW w' g res0 a := by
  unfold znxAutomorphismIntoW
  dsimp only
  have hsub : ∀ x ∈ a.take res0.length, x ∈ a := fun x hx => List.mem_of_mem_take hx
  revert hsub
  generalize a.take res0.length = t
  intro hsub
  cases t with
  | nil => rfl
  | cons a0 rest =>
    exact autoLoop_congr _ _ _ _ _ (fun x hx => h x (hsub x (List.mem_cons_of_mem _ hx))) _ _

theorem auto_congr_w (w w' : Int → Int) (g : Int) (a : Poly) (h : ∀ x ∈ a, w (-x) = w' (-x)) :
    znxAutomorphismW w g a = znxAutomorphismW w' g a :=
  autoInto_congr w w' g _ a h

/-- the `i64` kernel computes the exact automorphism when no coefficient is `i64::MIN` (nor out of range) -/
theorem auto_w64_eq_id (g : Int) (a : Poly) (h : ∀ x ∈ a, -(2 ^ 63) < x ∧ x < 2 ^ 63) :
    znxAutomorphism g a = σ g a := by
  apply auto_congr_w
  intro x hx
  have := h x hx
  unfold w64
  simp only [id]
  omega

/-- same for the `i128` accumulator kernel -/
theorem auto_w128_eq_id (g : Int) (a : Poly) (h : ∀ x ∈ a, -(2 ^ 127) < x ∧ x < 2 ^ 127) :
    znxAutomorphismW w128 g a = σ g a := by
  apply auto_congr_w
  intro x hx
  have := h x hx
  unfold w128
  simp only [id]
  omega

/-! ### 2. multiplicativity -/

section Eval
variable {S : Type*} [CommRing S]

/-- evaluation of a coefficient list at `z` (Horner) -/
def evL (z : S) : List Int → S
  | [] => 0
  | c :: r => (c : S) + z * evL z r

theorem evL_eq_sum (z : S) (a : List Int) :
    evL z a = ∑ i ∈ Finset.range a.length, ((a.getD i 0 : Int) : S) * z ^ i := by
  induction a with
  | nil => simp [evL]
  | cons c r ih =>
    rw [evL, ih, List.length_cons, Finset.sum_range_succ', Finset.mul_sum]
    simp only [List.getD_cons_zero, pow_zero, mul_one, List.getD_cons_succ]
    rw [add_comm]
    congr 1
    apply Finset.sum_congr rfl
    intro i _
    rw [pow_succ]; ring

/-- **evaluation form of the automorphism**: if `z^N = -1` then `(σ_g a)(z) = a(z^g)` -/
theorem evL_auto (z : S) (g : Int) (a : Poly) (hn : 0 < a.length) (hg : GalOk g a.length)
    (hz : z ^ a.length = -1) :
    evL z (σ g a) = evL (z ^ (g % (2 * (a.length : Int))).toNat) a := by
  rw [evL_eq_sum, evL_eq_sum, σ_length]
  generalize he : (g % (2 * (a.length : Int))).toNat = e
  have hc : Nat.Coprime e a.length := he ▸ hg.2
  have hmaps : ∀ i ∈ Finset.range a.length, (i * e) % (2 * a.length) % a.length ∈ Finset.range a.length :=
    fun i _ => Finset.mem_range.mpr (Nat.mod_lt _ hn)
  have hinj : Set.InjOn (fun i => (i * e) % (2 * a.length) % a.length) (Finset.range a.length : Finset Nat) := by
    intro i hi j hj h
    simp only [Finset.coe_range, Set.mem_Iio] at hi hj
    beta_reduce at h
    rw [Nat.mod_mod_of_dvd _ (Dvd.intro_left 2 rfl), Nat.mod_mod_of_dvd _ (Dvd.intro_left 2 rfl)] at h
    exact mul_mod_inj a.length e hc i j hi hj h
  symm
  apply Finset.sum_nbij (fun i => (i * e) % (2 * a.length) % a.length) hmaps hinj
    (Finset.surjOn_of_injOn_of_card_le _ hmaps hinj (le_refl _))
  intro i hi
  have hi' : i < a.length := Finset.mem_range.mp hi
  have hget := autoInto_get id g (znxZero a.length) a hn (znxZero_length _) hg.2 i hi'
  rw [he] at hget
  change (σ g a)[(i * e) % (2 * a.length) % a.length]? = _ at hget
  have hdiv : i * e = 2 * a.length * (i * e / (2 * a.length)) + (i * e) % (2 * a.length) :=
    (Nat.div_add_mod _ _).symm
  have hpow : (z ^ e) ^ i = z ^ ((i * e) % (2 * a.length)) := by
    rw [← pow_mul, Nat.mul_comm e i]
    conv_lhs => rw [hdiv]
    rw [pow_add, show 2 * a.length * (i * e / (2 * a.length)) = a.length * (2 * (i * e / (2 * a.length))) by ring,
      pow_mul, hz, pow_mul, neg_one_sq, one_pow, one_mul]
  rw [hpow]
  have hr : (i * e) % (2 * a.length) < 2 * a.length := Nat.mod_lt _ (by omega)
  generalize (i * e) % (2 * a.length) = r at hget hr ⊢
  by_cases h1 : r < a.length
  · rw [Nat.mod_eq_of_lt h1] at hget ⊢
    simp only [h1, if_true] at hget
    rw [List.getD_eq_getElem?_getD (l := σ g a), hget]
    rfl
  · have hm : r % a.length = r - a.length := by
      rw [Nat.mod_eq_sub_mod (by omega), Nat.mod_eq_of_lt (by omega)]
    rw [hm] at hget ⊢
    simp only [h1, if_false, id] at hget
    rw [List.getD_eq_getElem?_getD (l := σ g a), hget]
    have : z ^ r = -(z ^ (r - a.length)) := by
      conv_lhs => rw [show r = a.length + (r - a.length) by omega]
      rw [pow_add, hz]; ring
    rw [this]
    simp
end Eval

theorem eval₂_toPoly {S : Type*} [CommRing S] (i : ℤ →+* S) (z : S) (l : List Int) :
    eval₂ i z (toPoly l) = evL z l := by
  induction l with
  | nil => simp [toPoly, evL]
  | cons c r ih =>
    simp only [toPoly, evL, eval₂_add, eval₂_mul, eval₂_C, eval₂_X, ih]
    rw [eq_intCast]

section Transfer
variable (N : ℕ)

/-- the class of a coefficient list in `ℤ[X]/(X^N+1)` is its value at the adjoined root -/
theorem mk_toPoly (l : List Int) :
    AdjoinRoot.mk (X ^ N + 1 : ℤ[X]) (toPoly l) = evL (AdjoinRoot.root (X ^ N + 1 : ℤ[X])) l := by
  induction l with
  | nil => simp [toPoly, evL]
  | cons c r ih => simp [toPoly, evL, ih]

theorem root_pow_N : (AdjoinRoot.root (X ^ N + 1 : ℤ[X])) ^ N = -1 := by
  have h0 := AdjoinRoot.eval₂_root (X ^ N + 1 : ℤ[X])
  simp [eval₂_add, eval₂_pow] at h0
  linear_combination h0

theorem galOk_odd {g : Int} {n : Nat} (hn : 0 < n) (hg : GalOk g n) : Odd (g % (2 * (n : Int))).toNat := by
  have h0 : 0 ≤ g % (2 * (n : Int)) := Int.emod_nonneg _ (by omega)
  have : g % (2 * (n : Int)) % 2 = 1 := by rw [Int.emod_emod_of_dvd _ (Dvd.intro _ rfl)]; exact hg.1
  rw [Nat.odd_iff]
  omega

/-- the ring endomorphism `X ↦ X^e` (`e` odd) of `ℤ[X]/(X^N+1)` -/
noncomputable def galHom (e : ℕ) (he : Odd e) :
    AdjoinRoot (X ^ N + 1 : ℤ[X]) →+* AdjoinRoot (X ^ N + 1 : ℤ[X]) :=
  AdjoinRoot.lift (AdjoinRoot.of _) ((AdjoinRoot.root (X ^ N + 1 : ℤ[X])) ^ e) (by
    rw [eval₂_add, eval₂_pow, eval₂_X, eval₂_one, ← pow_mul, Nat.mul_comm, pow_mul, root_pow_N, he.neg_one_pow]
    ring)

/-- **the class of `σ_g a` is the image of the class of `a` under `X ↦ X^(g mod 2N)`** -/
theorem mk_auto (g : Int) (a : Poly) (ha : a.length = N) (hN : 0 < N) (hg : GalOk g N) :
    AdjoinRoot.mk (X ^ N + 1 : ℤ[X]) (toPoly (σ g a))
      = galHom N (g % (2 * (N : Int))).toNat (galOk_odd hN hg) (AdjoinRoot.mk _ (toPoly a)) := by
  subst ha
  rw [mk_toPoly, evL_auto _ g a hN hg (root_pow_N _), galHom, AdjoinRoot.lift_mk, eval₂_toPoly]

end Transfer

/-- **`σ_g (a · b) = σ_g a · σ_g b`** for the exact product of `ℤ[X]/(X^N+1)` -/
theorem auto_negMul (g : Int) (a b : Poly) (h : a.length = b.length) (hn : 0 < a.length) (hg : GalOk g a.length) :
    σ g (negMul a b) = negMul (σ g a) (σ g b) := by
  have hb : b.length = a.length := h.symm
  apply toPoly_mk_inj a.length _ _ (by rw [σ_length, negMul_length, hb])
    (by rw [negMul_length, σ_length, hb]) hn
  rw [mk_auto a.length g _ (by rw [negMul_length, hb]) hn hg, mk_negMul a.length a b hb hn, map_mul,
    mk_negMul a.length _ _ (by rw [σ_length, hb]) hn, mk_auto a.length g a rfl hn hg,
    mk_auto a.length g b hb hn hg]

/-! ### 3. the HAL specification operations -/

theorem auto_negMul_hal (g : Int) (a b : Poly) (h : a.length = b.length) (hn : 0 < a.length) (hg : GalOk g a.length) :
    σ g (Hal.negMul a b) = Hal.negMul (σ g a) (σ g b) := by
  simp only [Hal.negMul_eq]
  exact auto_negMul g a b h hn hg

theorem auto_polyAdd (g : Int) (a b : Poly) (h : a.length = b.length) (hn : 0 < a.length) (hg : GalOk g a.length) :
    σ g (Hal.polyAdd a b) = Hal.polyAdd (σ g a) (σ g b) :=
  auto_add g a b h hn hg

/-! ### 5. the phase of an automorphed ciphertext -/

theorem allLen_map_σ {N : Nat} (g : Int) (l : List Poly) (h : Ks.AllLen N l) : Ks.AllLen N (l.map (σ g)) := by
  intro p hp
  obtain ⟨q, hq, rfl⟩ := List.mem_map.mp hp
  rw [σ_length]; exact h q hq

/-- generalised accumulator form of `automorphism_phase` -/
theorem auto_foldl_phase (N : Nat) (g : Int) (hN : 0 < N) (hg : GalOk g N) (sk ms : List Poly) (b : Poly)
    (hsk : Ks.AllLen N sk) (hms : Ks.AllLen N ms) (hb : b.length = N) :
    (List.zipWith Hal.negMul (sk.map (σ g)) (ms.map (σ g))).foldl Hal.polyAdd (σ g b)
      = σ g ((List.zipWith Hal.negMul sk ms).foldl Hal.polyAdd b) := by
  induction sk generalizing ms b with
  | nil => simp
  | cons s ss ih =>
    cases ms with
    | nil => simp
    | cons m mt =>
      have hs : s.length = N := hsk.head
      have hm : m.length = N := hms.head
      have hsm : (Hal.negMul s m).length = N := by rw [Hal.negMul_length, hm]
      simp only [List.map_cons, List.zipWith_cons_cons, List.foldl_cons]
      rw [← auto_negMul_hal g s m (by rw [hs, hm]) (by rw [hs]; exact hN) (by rw [hs]; exact hg),
        ← auto_polyAdd g b _ (by rw [hb, hsm]) (by rw [hb]; exact hN) (by rw [hb]; exact hg)]
      exact ih mt _ hsk.tail hms.tail (by simp [Hal.polyAdd, hb, hsm])

/-- **Applying `σ_g` to every column of a ciphertext gives a ciphertext whose phase under `σ_g(s)` is
`σ_g` of the original phase.** -/
theorem automorphism_phase (N : Nat) (g : Int) (hN : 0 < N) (hg : GalOk g N) (sk cs : List Poly)
    (hsk : Ks.AllLen N sk) (hcs : Ks.AllLen N cs) :
    Ks.phaseRow (sk.map (σ g)) (cs.map (σ g)) = σ g (Ks.phaseRow sk cs) := by
  cases cs with
  | nil => rfl
  | cons b ms =>
    simp only [List.map_cons, Ks.phaseRow]
    exact auto_foldl_phase N g hN hg sk ms b hsk hcs.tail hcs.head

/-- **Automorphism-key form**: a ciphertext with phase `φ` under the secret `σ_{g⁻¹}(s)` (the secret
an automorphism key of `g` switches from) has, after `σ_g` on its columns, phase `σ_g(φ)` under `s`.
The hypothesis `hinv` is `σ_g ∘ σ_{g⁻¹} = id` on the secret (`C03.autokey_secret_roundtrip`). -/
theorem automorphism_phase_key (N : Nat) (g gInv : Int) (hN : 0 < N) (hg : GalOk g N) (sk sk' cs : List Poly)
    (hsk : Ks.AllLen N sk) (hcs : Ks.AllLen N cs) (hsk' : sk' = sk.map (σ gInv))
    (hinv : ∀ s ∈ sk, σ g (σ gInv s) = s) :
    Ks.phaseRow sk (cs.map (σ g)) = σ g (Ks.phaseRow sk' cs) := by
  have hl : Ks.AllLen N sk' := hsk' ▸ allLen_map_σ gInv sk hsk
  have e : sk'.map (σ g) = sk := by
    rw [hsk', List.map_map]
    conv_rhs => rw [← List.map_id sk]
    apply List.map_congr_left
    intro s hs
    exact hinv s hs
  rw [← automorphism_phase N g hN hg sk' cs hl hcs, e]

/-- `i64` form of `automorphism_phase`: the columns are transformed by the actual `i64` kernel
`znxAutomorphism` (no coefficient equal to `i64::MIN`), the secret and the phase by the exact `σ_g` -/
theorem automorphism_phase_w64 (N : Nat) (g : Int) (hN : 0 < N) (hg : GalOk g N) (sk cs : List Poly)
    (hsk : Ks.AllLen N sk) (hcs : Ks.AllLen N cs)
    (hr : ∀ c ∈ cs, ∀ x ∈ c, -(2 ^ 63) < x ∧ x < 2 ^ 63) :
    Ks.phaseRow (sk.map (σ g)) (cs.map (znxAutomorphism g)) = σ g (Ks.phaseRow sk cs) := by
  have e : cs.map (znxAutomorphism g) = cs.map (σ g) :=
    List.map_congr_left (fun c hc => auto_w64_eq_id g c (hr c hc))
  rw [e, automorphism_phase N g hN hg sk cs hsk hcs]

/-! ### 7. concrete checks (`N = 4`, `g = 3`) -/

example : σ 3 (negMul [1, 2, 3, 4] [5, -6, 7, 8]) = negMul (σ 3 [1, 2, 3, 4]) (σ 3 [5, -6, 7, 8]) := by decide

example : σ 3 [1, 2, 3, 4] = [1, 4, -3, 2] := by decide

example : σ 3 (negMul [1, 2, 3, 4] [5, -6, 7, 8]) = negMul (σ 3 [1, 2, 3, 4]) (σ 3 [5, -6, 7, 8]) :=
  auto_negMul 3 _ _ rfl (by decide) (galOk_pow2 2 (by decide))

example (a b : Poly) (k : Nat) (g : Int) (ha : a.length = 2 ^ k) (hb : b.length = 2 ^ k) (hg : g % 2 = 1) :
    σ g (negMul a b) = negMul (σ g a) (σ g b) :=
  auto_negMul g a b (by rw [ha, hb]) (by rw [ha]; positivity) (by rw [ha]; exact galOk_pow2 k hg)

example : znxAutomorphism 3 [1, 2, 3, 4] = σ 3 [1, 2, 3, 4] :=
  auto_w64_eq_id 3 _ (by decide)

end AutoMul
