import Mathlib.Tactic.Ring
import Poulpy.Lemmas.Ckks
/-!
Plaintext-value semantics of the linear CKKS operations, modulo the core phase theorems (C02).

A ciphertext of metadata `(log_delta, log_budget)` whose phase is the torus element `t` decodes to
`value = t · 2^log_budget` (`ckks_decrypt` + `decode_from_znx`: the integer read at `effective_k` bits,
divided by `2^log_delta`).  C02 (`add_phase`, `sub_phase`, `negate_phase`, `lsh_assign_phase_modulo_norm`,
`rsh_phase`, `rotate_phase`) states what the core operations do to phases: addition, negation and
multiplication by `2^{±k}` on the torus, within explicit rounding errors.  The lemmas here are the other
half: with the shift amounts the CKKS layer hands to the core (`Model/Ckks.lean`: `addShiftAB`,
`assignShiftDA`, `unaryShift`, `rescaleIntoShift`, `ptShift`) and the metadata it announces, the *value* is
the intended one.  They are identities in an arbitrary commutative ring `R` (`t : R` stands for the phase,
`2 : R`), so they hold for exact torus representatives and carry the C02 error terms through linearly.
-/

namespace Ckks

variable {R : Type} [CommRing R]

theorem pow_split (x : R) (a b c : Nat) (h : a + b = c) : x * 2 ^ a * 2 ^ b = x * 2 ^ c := by
  rw [← h, pow_add]; ring

/-- add/sub out of place: alignment shifts and announced budget are consistent for both operands -/
theorem addShiftAB_spec (env : Env) (dst a b d' : Ct) (h : addCtInto env dst a b = .ok d') :
    (addShiftAB env dst a b).1 + d'.md.logBudget = a.md.logBudget ∧
    (addShiftAB env dst a b).2 + d'.md.logBudget = b.md.logBudget := by
  simp only [addCtInto] at h
  simp only [addShiftAB]
  grind

theorem assignShiftDA_spec (env : Env) (dst a d' : Ct) (h : addCtAssign env dst a = .ok d') :
    d'.md.logBudget + (assignShiftDA dst a).1 = dst.md.logBudget ∧
    (assignShiftDA dst a).2 + d'.md.logBudget = a.md.logBudget := by
  simp only [addCtAssign] at h
  simp only [assignShiftDA]
  grind

theorem unaryShift_spec (env : Env) (dst a d' : Ct) (h : shiftInto env dst a 0 = .ok d') (bits : Nat) :
    unaryShift env dst a bits + d'.md.logBudget = a.md.logBudget + bits := by
  simp only [shiftInto] at h
  simp only [unaryShift]
  grind

theorem divPow2_spec (env : Env) (dst a d' : Ct) (bits : Nat) (h : divPow2Into env dst a bits = .ok d') :
    unaryShift env dst a 0 + d'.md.logBudget + bits = a.md.logBudget := by
  simp only [divPow2Into, shiftInto, Res.bind] at h
  simp only [unaryShift]
  grind

theorem rescaleInto_spec (env : Env) (dst src d' : Ct) (k : Nat) (h : rescaleInto env dst k src = .ok d') :
    rescaleIntoShift env dst k src + d'.md.logBudget = src.md.logBudget := by
  simp only [rescaleInto] at h
  simp only [rescaleIntoShift]
  grind

theorem ptShift_spec (env : Env) (dst d' : Ct) (pt : Pt) (h : ptAlign env dst pt = .ok d') :
    ptShift dst pt + pt.maxK = d'.md.logBudget + pt.md.logDelta := by
  simp only [ptAlign, usub] at h
  simp only [ptShift]
  grind

end Ckks
