import Poulpy.Lemmas.Fft64AvxVmp

open Complex

namespace Fft64Avx
open F64 Fft64

/-- Ref/AVX agreement for the vector-matrix product -/
theorem vmp_ref_avx_agree (K : Nat) (hK2 : 2 ≤ K) (omg iomg : Array Nat) (τ Ma Mb : ℝ) (rows : List (Poly × Poly))
    (hacc : TableAccurate τ K omg iomg)
    (hlen : ∀ r ∈ rows, r.1.length = 2 ^ (K + 1) ∧ r.2.length = 2 ^ (K + 1))
    (hM : ∀ r ∈ rows, (∀ c ∈ r.1, c.natAbs ≤ 2 ^ 50 - 1 ∧ |(c:ℝ)| ≤ Ma) ∧ (∀ c ∈ r.2, c.natAbs ≤ 2 ^ 50 - 1 ∧ |(c:ℝ)| ≤ Mb))
    (hdomA : VmpDomainAvx K rows.length τ Ma Mb) (hdomR : VmpDomain K rows.length τ Ma Mb) :
    vmpPipelineAvx K omg iomg 1 rows = .ok (vmpPipeline K omg iomg rows) := by
  rw [vmpAvx_pipeline_exact K hK2 omg iomg τ Ma Mb rows hacc hlen hM hdomA,
    vmp_pipeline_exact K omg iomg τ Ma Mb rows hacc hlen
      (fun r hr => ⟨fun c hc => ⟨by have := ((hM r hr).1 c hc).1; omega, ((hM r hr).1 c hc).2⟩,
        fun c hc => ⟨by have := ((hM r hr).2 c hc).1; omega, ((hM r hr).2 c hc).2⟩⟩) hdomR]

/-- the AVX vmp domain is inhabited and decidable by evaluation: `n = 8`, 3 rows, operands below `2^12` -/
theorem vmpDomainAvx_example : VmpDomainAvx 2 3 τ51 4096 4096 := by
  have hτ0 : 0 ≤ τ51 := by unfold τ51; positivity
  have hτ1 : τ51 ≤ 1 := by unfold τ51; exact zpow_le_one_of_nonpos₀ (by norm_num) (by norm_num)
  have hη : η ≤ 1 / 2048 := η_small
  refine ⟨hτ0, hτ1, by norm_num, by norm_num, by norm_num, by norm_num, le_big _ _ ?_ (by norm_num), le_big _ _ ?_ (by norm_num),
    le_big _ _ ?_ (by norm_num), le_big _ _ ?_ (by norm_num), ?_, ?_⟩
  · simp only [A0, γf, κ, u, τ51]; norm_num
  · simp only [A0, γf, κ, u, τ51]; norm_num
  · simp only [accRA, accIter, accStep, QP, qOf, AP, EF, AF, A0, errB, γf, κ, u, τ51]; norm_num
  · simp only [EaccA, accRA, accIter, accStep, QP, qOf, AP, EF, AF, A0, errB, γf, γi, κ, u, τ51]; norm_num
  · simp only [accRA, accIter, accStep, AP, AF, A0]; norm_num
  · have : errB (γi τ51) 2 (accRA 2 3 τ51 4096 4096).2 (EaccA 2 3 τ51 4096 4096) / 2 ^ 2 * (1 + u) + u * ((accRA 2 3 τ51 4096 4096).2 + 1) ≤ 1 / 4 := by
      simp only [EaccA, accRA, accIter, accStep, QP, qOf, AP, EF, AF, A0, errB, γf, γi, κ, u, τ51]; norm_num
    linarith

end Fft64Avx
