import Poulpy.Lemmas.CkksContract
/-!
Composition through multiplications (C16 value semantics).

`mul_ct_sem` / `mul_pt_sem` say: the result decodes to the negacyclic product of the decoded operands, modulo
`2^β'`.  The decoded operand of a tracked ciphertext is only known modulo its own `2^β` (the exact phase carries the
wraps `q·2^β` of `mask ⋆ s`), so the product of the tracked plaintexts is *not* obviously what the result tracks:
the cross term `2^βa·q_a ⋆ dec(b)` has to vanish modulo `2^β'`.  It does, for the reason multiplication works at all:
the core multiplies operands **masked to `effective_k = log_delta + log_budget` bits** (`cnv_prepare_*` with
`msb_mask_bottom_limb`), so the value entering the product is a multiple of `2^-log_delta`, and the metadata of the
result satisfies `β' + δ_b ≤ β_a`, `β' + δ_a ≤ β_b` (`mulCt_grid`: `β' = min β − max δ − offset`) — the CKKS budget
invariant at the level of values.  No "the value stays inside the budget" hypothesis is needed for the tracking
modulo `2^β'`; it is needed only to read the tracked value without the modulus.
-/

namespace Ckks
open Ckks.Sem

/-! ### algebra of `qNegMul` (port of `Lemmas/NegMul.lean` to rational coefficient lists) -/

@[simp] theorem qAdd_length (a b : List ℚ) : (qAdd a b).length = min a.length b.length := by simp [qAdd]
@[simp] theorem qScale_length (c : ℚ) (a : List ℚ) : (qScale c a).length = a.length := by simp [qScale]

theorem qMulX_length (l : List ℚ) : (qMulX l).length = l.length := by
  unfold qMulX
  cases h : l.getLast? with
  | none => simp [List.getLast?_eq_none_iff.mp h]
  | some z =>
    have hne : l ≠ [] := by intro e; subst e; simp at h
    simp [List.length_dropLast]
    have : 0 < l.length := by cases l with
      | nil => exact absurd rfl hne
      | cons _ _ => simp
    omega

theorem qNegMul_length (a b : List ℚ) : (qNegMul a b).length = b.length := by
  induction a with
  | nil => simp [qNegMul]
  | cons a0 as ih => simp [qNegMul, qMulX_length, ih]

theorem qAdd_comm (a b : List ℚ) : qAdd a b = qAdd b a := by
  unfold qAdd
  induction a generalizing b with
  | nil => cases b <;> simp
  | cons x xs ih => cases b with
    | nil => simp
    | cons y ys => simp [List.zipWith, add_comm, ih]

theorem qAdd_assoc (a b c : List ℚ) : qAdd (qAdd a b) c = qAdd a (qAdd b c) := by
  unfold qAdd
  induction a generalizing b c with
  | nil => simp
  | cons x xs ih => cases b with
    | nil => simp
    | cons y ys => cases c with
      | nil => simp
      | cons z zs => simp [List.zipWith, add_assoc, ih]

theorem qScale_add_left (c d : ℚ) (a : List ℚ) : qScale (c + d) a = qAdd (qScale c a) (qScale d a) := by
  unfold qScale qAdd
  induction a with
  | nil => simp
  | cons x xs ih => simp [List.zipWith, add_mul, ih]

theorem qMulX_add (a b : List ℚ) (h : a.length = b.length) : qMulX (qAdd a b) = qAdd (qMulX a) (qMulX b) := by
  rcases List.eq_nil_or_concat a with rfl | ⟨a', x, rfl⟩
  · have : b = [] := by cases b <;> simp_all
    subst this; simp [qMulX, qAdd]
  · rcases List.eq_nil_or_concat b with rfl | ⟨b', y, rfl⟩
    · simp at h
    · have hl : a'.length = b'.length := by simpa using h
      have e : qAdd (a' ++ [x]) (b' ++ [y]) = qAdd a' b' ++ [x + y] := by
        unfold qAdd
        rw [List.zipWith_append (by simpa using hl)]
        simp
      simp only [List.concat_eq_append] at *
      rw [e]
      simp [qMulX, qAdd]
      ring

theorem qAdd_exchange (a b c d : List ℚ) : qAdd (qAdd a b) (qAdd c d) = qAdd (qAdd a c) (qAdd b d) := by
  rw [qAdd_assoc, ← qAdd_assoc b c d, qAdd_comm b c, qAdd_assoc c b d, ← qAdd_assoc]

theorem qNegMul_add_right (a b b' : List ℚ) (h : b.length = b'.length) :
    qNegMul a (qAdd b b') = qAdd (qNegMul a b) (qNegMul a b') := by
  induction a with
  | nil =>
    simp only [qNegMul, qAdd]
    induction b generalizing b' with
    | nil => simp
    | cons x xs ih => cases b' with
      | nil => simp at h
      | cons y ys =>
        have hl : xs.length = ys.length := by simpa using h
        simpa [List.zipWith] using ih ys hl
  | cons a0 as ih =>
    simp only [qNegMul]
    rw [ih, qScale_add, qMulX_add _ _ (by rw [qNegMul_length, qNegMul_length]; exact h), qAdd_exchange]

theorem qNegMul_add_left (a a' b : List ℚ) (h : a.length = a'.length) :
    qNegMul (qAdd a a') b = qAdd (qNegMul a b) (qNegMul a' b) := by
  induction a generalizing a' with
  | nil =>
    have : a' = [] := by cases a' <;> simp_all
    subst this
    have z : ∀ b : List ℚ, qAdd (b.map (fun _ => (0:ℚ))) (b.map (fun _ => (0:ℚ))) = b.map (fun _ => (0:ℚ)) := by
      intro b
      induction b with
      | nil => simp [qAdd]
      | cons x xs ih => simpa [qAdd] using ih
    simp only [qNegMul, qAdd, List.zipWith_nil_left]
    exact (z b).symm
  | cons x xs ih =>
    cases a' with
    | nil => simp at h
    | cons y ys =>
      have hl : xs.length = ys.length := by simpa using h
      have e : qAdd (x :: xs) (y :: ys) = (x + y) :: qAdd xs ys := by simp [qAdd]
      rw [e]
      simp only [qNegMul]
      rw [ih ys hl, qScale_add_left, qMulX_add _ _ (by rw [qNegMul_length, qNegMul_length]), qAdd_exchange]

/-! ### sup-norm -/

/-- every coefficient within `B` -/
def SupLe (X : List ℚ) (B : ℚ) : Prop := ∀ x ∈ X, |x| ≤ B

theorem SupLe.getD {X : List ℚ} {B : ℚ} (h : SupLe X B) (hB : 0 ≤ B) (t : Nat) : |X.getD t 0| ≤ B := by
  rw [List.getD_eq_getElem?_getD]
  cases e : X[t]? with
  | none => simpa using hB
  | some v => simpa using h v (List.mem_of_getElem? e)

theorem supLe_qAdd {X Y : List ℚ} {A B : ℚ} (hx : SupLe X A) (hy : SupLe Y B) : SupLe (qAdd X Y) (A + B) := by
  intro z hz
  obtain ⟨a, ha, b, hb, rfl⟩ := Bound.mem_zipWith hz
  exact (abs_add_le a b).trans (add_le_add (hx a ha) (hy b hb))

theorem supLe_qScale {X : List ℚ} {A : ℚ} (c : ℚ) (hx : SupLe X A) : SupLe (qScale c X) (|c| * A) := by
  intro z hz
  simp only [qScale, List.mem_map] at hz
  obtain ⟨x, hx', rfl⟩ := hz
  rw [abs_mul]; exact mul_le_mul_of_nonneg_left (hx x hx') (abs_nonneg c)

theorem supLe_qMulX {X : List ℚ} {A : ℚ} (hx : SupLe X A) : SupLe (qMulX X) A := by
  intro z hz
  unfold qMulX at hz
  cases h : X.getLast? with
  | none => rw [h] at hz; simp at hz
  | some l =>
    rw [h] at hz
    simp only [List.mem_cons] at hz
    rcases hz with rfl | hz
    · rw [abs_neg]; exact hx l (List.mem_of_getLast? h)
    · exact hx z (List.mem_of_mem_dropLast hz)

theorem supLe_qNegMul {X Y : List ℚ} {A B : ℚ} (hx : SupLe X A) (hy : SupLe Y B) (hA : 0 ≤ A) (hB : 0 ≤ B) :
    SupLe (qNegMul X Y) (X.length * A * B) := by
  induction X with
  | nil =>
    intro z hz
    simp only [qNegMul, List.mem_map] at hz
    obtain ⟨_, _, rfl⟩ := hz
    simp
  | cons a0 as ih =>
    simp only [qNegMul]
    have h1 := supLe_qScale a0 hy
    have h2 := supLe_qMulX (ih (fun x hx' => hx x (by simp [hx'])))
    have := supLe_qAdd h1 h2
    intro z hz
    have hz' := this z hz
    have ha0 : |a0| ≤ A := hx a0 (by simp)
    have : |a0| * B ≤ A * B := mul_le_mul_of_nonneg_right ha0 hB
    simp only [List.length_cons]
    push_cast
    nlinarith

theorem qAdd_getD {X Y : List ℚ} (h : X.length = Y.length) (t : Nat) : (qAdd X Y).getD t 0 = X.getD t 0 + Y.getD t 0 := by
  simp only [qAdd, List.getD_eq_getElem?_getD, List.getElem?_zipWith]
  by_cases ht : t < X.length
  · have ht' : t < Y.length := h ▸ ht
    simp [List.getElem?_eq_getElem ht, List.getElem?_eq_getElem ht']
  · have ht' : ¬ t < Y.length := h ▸ ht
    simp [List.getElem?_eq_none (Nat.le_of_not_lt ht), List.getElem?_eq_none (Nat.le_of_not_lt ht')]


/-! ### the composition lemma -/

theorem list_eq_of_getD {X Y : List ℚ} {N : Nat} (h1 : X.length = N) (h2 : Y.length = N)
    (h : ∀ t, t < N → X.getD t 0 = Y.getD t 0) : X = Y := by
  apply List.ext_getElem (by rw [h1, h2])
  intro t ht1 ht2
  have := h t (h1 ▸ ht1)
  simpa [List.getD_eq_getElem?_getD, List.getElem?_eq_getElem ht1, List.getElem?_eq_getElem ht2] using this

theorem getD_range_map {α : Type} (f : Nat → α) (N t : Nat) (d : α) (ht : t < N) : ((List.range N).map f).getD t d = f t := by
  simp [List.getD_eq_getElem?_getD, ht]

/-- a list of rationals on the grid `2^-δ·ℤ` is the scaled cast of an integer list -/
theorem grid_list {X : List ℚ} {N δ : Nat} (hl : X.length = N) (hg : ∀ t, t < N → ∃ n : ℤ, X.getD t 0 * 2 ^ δ = n) :
    ∃ x : Poly, x.length = N ∧ X = qScale (1 / 2 ^ δ) (castP x) := by
  have hg' : ∀ t, ∃ n : ℤ, t < N → X.getD t 0 * 2 ^ δ = n := fun t => by
    by_cases ht : t < N
    · obtain ⟨n, hn⟩ := hg t ht; exact ⟨n, fun _ => hn⟩
    · exact ⟨0, fun h => absurd h ht⟩
  choose f hf using hg'
  refine ⟨(List.range N).map f, by simp, ?_⟩
  apply list_eq_of_getD hl (by simp [castP])
  intro t ht
  rw [qScale_getD, castP_getD, getD_range_map f N t 0 ht, ← hf t ht]
  have : (2 : ℚ) ^ δ ≠ 0 := by positivity
  field_simp

/-- the coefficients of `2^β·castP q ⋆ (2^-δ·castP y)` are multiples of `2^β'` when `β' + δ ≤ β` -/
theorem cross_left (q y : Poly) (β δ β' : Nat) (h : β' + δ ≤ β) (t : Nat) :
    ∃ k : ℤ, (qNegMul (qScale (2 ^ β) (castP q)) (qScale (1 / 2 ^ δ) (castP y))).getD t 0 = k * 2 ^ β' := by
  rw [qNegMul_scale_left, qNegMul_scale_right, qScale_scale, ← castP_negMul, qScale_getD, castP_getD]
  obtain ⟨j, rfl⟩ : ∃ j, β = β' + δ + j := ⟨β - (β' + δ), by omega⟩
  refine ⟨2 ^ j * (Hal.negMul q y).getD t 0, ?_⟩
  push_cast
  rw [pow_add, pow_add]
  have : (2 : ℚ) ^ δ ≠ 0 := by positivity
  field_simp

theorem cross_right (x q : Poly) (β δ β' : Nat) (h : β' + δ ≤ β) (t : Nat) :
    ∃ k : ℤ, (qNegMul (qScale (1 / 2 ^ δ) (castP x)) (qScale (2 ^ β) (castP q))).getD t 0 = k * 2 ^ β' := by
  rw [qNegMul_scale_left, qNegMul_scale_right, qScale_scale, ← castP_negMul, qScale_getD, castP_getD]
  obtain ⟨j, rfl⟩ : ∃ j, β = β' + δ + j := ⟨β - (β' + δ), by omega⟩
  refine ⟨2 ^ j * (Hal.negMul x q).getD t 0, ?_⟩
  push_cast
  rw [pow_add, pow_add]
  have : (2 : ℚ) ^ δ ≠ 0 := by positivity
  field_simp

/-- decomposition of a tracked operand: `X = (M + e) + 2^β·q` with `|e| ≤ E`, `q` integers -/
theorem near_split {X M : List ℚ} {N β : Nat} {E : ℚ} (hX : X.length = N) (hM : M.length = N)
    (h : ∀ t, t < N → Near (X.getD t 0) (M.getD t 0) (2 ^ β) E) :
    ∃ (e : List ℚ) (q : Poly), e.length = N ∧ q.length = N ∧ SupLe e E ∧
      X = qAdd (qAdd M e) (qScale (2 ^ β) (castP q)) := by
  have h' : ∀ t, ∃ (q : ℤ) (e : ℚ), t < N → (X.getD t 0 = M.getD t 0 + e + q * 2 ^ β ∧ |e| ≤ E) := fun t => by
    by_cases ht : t < N
    · obtain ⟨q, e, h1, h2⟩ := h t ht; exact ⟨q, e, fun _ => ⟨h1, h2⟩⟩
    · exact ⟨0, 0, fun hh => absurd hh ht⟩
  choose q e hqe using h'
  refine ⟨(List.range N).map e, (List.range N).map q, by simp, by simp, ?_, ?_⟩
  · intro x hx
    simp only [List.mem_map, List.mem_range] at hx
    obtain ⟨t, ht, rfl⟩ := hx
    exact (hqe t ht).2
  · apply list_eq_of_getD hX (by simp [hM, castP])
    intro t ht
    rw [qAdd_getD (by simp [hM, castP]), qAdd_getD (by simp [hM]), qScale_getD, castP_getD,
      getD_range_map e N t 0 ht, getD_range_map q N t 0 ht, (hqe t ht).1]
    ring

/-- **composition through a product.**  `A`, `B`: the decoded (masked) operands, on the grids `2^-δa·ℤ`, `2^-δb·ℤ`,
tracking the plaintexts `Ma`, `Mb` modulo `2^βa`, `2^βb` within `Ea`, `Eb`; `|Ma| ≤ Ba`, `|Mb| ≤ Bb` coefficientwise.
If the result budget satisfies `β' + δb ≤ βa` and `β' + δa ≤ βb`, the product of the decoded operands tracks the
product of the plaintexts modulo `2^β'` within `N·(Ba·Eb + Ea·(Bb + Eb))`. -/
theorem mul_comp {N : Nat} {A B Ma Mb : List ℚ} {βa βb δa δb β' : Nat} {Ea Eb Ba Bb : ℚ}
    (hA : A.length = N) (hB : B.length = N) (hMa : Ma.length = N) (hMb : Mb.length = N)
    (nA : ∀ t, t < N → Near (A.getD t 0) (Ma.getD t 0) (2 ^ βa) Ea)
    (nB : ∀ t, t < N → Near (B.getD t 0) (Mb.getD t 0) (2 ^ βb) Eb)
    (gA : ∀ t, t < N → ∃ n : ℤ, A.getD t 0 * 2 ^ δa = n) (gB : ∀ t, t < N → ∃ n : ℤ, B.getD t 0 * 2 ^ δb = n)
    (sA : SupLe Ma Ba) (sB : SupLe Mb Bb) (hBa : 0 ≤ Ba) (hBb : 0 ≤ Bb) (hEa : 0 ≤ Ea) (hEb : 0 ≤ Eb)
    (h1 : β' + δb ≤ βa) (h2 : β' + δa ≤ βb) (t : Nat) (ht : t < N) :
    Near ((qNegMul A B).getD t 0) ((qNegMul Ma Mb).getD t 0) (2 ^ β') (N * (Ba * Eb + Ea * (Bb + Eb))) := by
  obtain ⟨ea, qa, hea, hqa, sea, eA⟩ := near_split hA hMa nA
  obtain ⟨eb, qb, heb, hqb, seb, eB⟩ := near_split hB hMb nB
  obtain ⟨bfull, hbl, eBg⟩ := grid_list hB gB
  -- the centred left operand `Ma + ea` is on the grid of `A`
  have gA0 : ∀ t, t < N → ∃ n : ℤ, (qAdd Ma ea).getD t 0 * 2 ^ δa = n := by
    intro t ht
    obtain ⟨n, hn⟩ := gA t ht
    have := congrArg (fun l => l.getD t 0) eA
    rw [qAdd_getD (by simp [hMa, hea, hqa, castP]), qScale_getD, castP_getD] at this
    refine ⟨n - qa.getD t 0 * 2 ^ (βa + δa), ?_⟩
    push_cast
    rw [← hn, this, pow_add]; ring
  obtain ⟨a0, ha0l, eA0⟩ := grid_list (by simp [hMa, hea]) gA0
  set A0 := qAdd Ma ea with hA0
  set B0 := qAdd Mb eb with hB0
  have lA0 : A0.length = N := by simp [hA0, hMa, hea]
  have lB0 : B0.length = N := by simp [hB0, hMb, heb]
  have lQa : (qScale (2 ^ βa) (castP qa)).length = N := by simp [castP, hqa]
  have lQb : (qScale (2 ^ βb) (castP qb)).length = N := by simp [castP, hqb]
  -- expand
  have e1 : qNegMul A B = qAdd (qNegMul A0 B) (qNegMul (qScale (2 ^ βa) (castP qa)) B) := by
    rw [eA]; exact qNegMul_add_left _ _ _ (by rw [lA0, lQa])
  have e2 : qNegMul A0 B = qAdd (qNegMul A0 B0) (qNegMul A0 (qScale (2 ^ βb) (castP qb))) := by
    rw [eB]; exact qNegMul_add_right _ _ _ (by rw [lB0, lQb])
  have e3 : qNegMul A0 B0 = qAdd (qNegMul Ma B0) (qNegMul ea B0) := qNegMul_add_left _ _ _ (by rw [hMa, hea])
  have e4 : qNegMul Ma B0 = qAdd (qNegMul Ma Mb) (qNegMul Ma eb) := qNegMul_add_right _ _ _ (by rw [hMb, heb])
  obtain ⟨k1, hk1⟩ : ∃ k : ℤ, (qNegMul (qScale (2 ^ βa) (castP qa)) B).getD t 0 = k * 2 ^ β' := by
    rw [eBg]; exact cross_left qa bfull βa δb β' h1 t
  obtain ⟨k2, hk2⟩ : ∃ k : ℤ, (qNegMul A0 (qScale (2 ^ βb) (castP qb))).getD t 0 = k * 2 ^ β' := by
    rw [eA0]; exact cross_right a0 qb βb δa β' h2 t
  have hsB0 : SupLe B0 (Bb + Eb) := supLe_qAdd sB seb
  have b1 := (supLe_qNegMul sA seb hBa hEb).getD (by positivity) t
  have b2 := (supLe_qNegMul sea hsB0 hEa (by linarith)).getD (by positivity) t
  rw [hMa] at b1
  rw [hea] at b2
  refine ⟨k2 + k1, (qNegMul Ma eb).getD t 0 + (qNegMul ea B0).getD t 0, ?_, ?_⟩
  · rw [e1, qAdd_getD (by rw [qNegMul_length, qNegMul_length]), e2, qAdd_getD (by rw [qNegMul_length, qNegMul_length, lB0, lQb]),
      e3, qAdd_getD (by rw [qNegMul_length, qNegMul_length]), e4, qAdd_getD (by rw [qNegMul_length, qNegMul_length, hMb, heb]),
      hk1, hk2]
    push_cast; ring
  · calc |(qNegMul Ma eb).getD t 0 + (qNegMul ea B0).getD t 0|
        ≤ |(qNegMul Ma eb).getD t 0| + |(qNegMul ea B0).getD t 0| := abs_add_le _ _
      _ ≤ N * Ba * Eb + N * Ea * (Bb + Eb) := add_le_add b1 b2
      _ = N * (Ba * Eb + Ea * (Bb + Eb)) := by ring


/-! ### ct × ct on tracked ciphertexts -/

open Core Core.Ops C02L Ckks.CoreSem

/-- `am` is the operand `a` as the multiplication reads it (`cnv_prepare_*`: the first `⌈effective_k / base2k⌉` limbs,
the bottom one masked by `msb_mask_bottom_limb`): its decoded value is on the grid `2^-log_delta·ℤ` and within `ε` of
the decoded value of `a` (`ε ≈ (1 + Σ‖sᵢ‖₁)·2^-log_delta`: the bits below `effective_k` of every column) -/
structure MaskedOf (s : List Poly) (N : Nat) (a : DCt) (am : GLWE) (ε : ℚ) : Prop where
  grid : ∀ t, t < N → ∃ n : ℤ, decG s am a.md.logBudget t * 2 ^ a.md.logDelta = n
  near : ∀ t, t < N → |decG s am a.md.logBudget t - decC s a t| ≤ ε

/-- the budget invariant at the level of values: the result budget of an accepted ct × ct multiplication leaves room for
the other operand's precision -/
theorem mulCt_grid {env : Env} {dst a b : Ct} {q : MulP} (h : mulCtParams env dst a b = .ok q) :
    q.budget + b.md.logDelta ≤ a.md.logBudget ∧ q.budget + a.md.logDelta ≤ b.md.logBudget := by
  simp only [mulCtParams] at h
  grind

theorem _root_.Ckks.Sem.Near.shift {x x' y m ε ε' : ℚ} (h : Near x y m ε) (hx : |x' - x| ≤ ε') : Near x' y m (ε + ε') := by
  obtain ⟨q, e, a, b⟩ := h
  refine ⟨q, e + (x' - x), by rw [a]; ring, (abs_add_le _ _).trans (add_le_add b hx)⟩

/-- **ct × ct, composed with the tracking of the operands**: if `a` and `b` track the plaintext polynomials `Ma`, `Mb`
(modulo their own budgets), the product tracks `Ma ⋆ Mb` modulo its budget, within the product's own `U·ulp` plus
`N·(Ba·E'b + E'a·(Bb + E'b))`, `E' = E + ε` (tracking error plus masking error of each operand) -/
theorem mul_ct_tracks {env : Env} {N : Nat} {dst a b c' : DCt} {m : Ct} (hm : mulInto env dst.ct a.ct b.ct = .ok m)
    (hmd : c'.md = m.md) {s : List Poly} {U εa εb : ℚ} {am bm : GLWE}
    (ha : MaskedOf s N a am εa) (hb : MaskedOf s N b bm εb)
    (hc : ∀ q, mulCtParams env dst.ct a.ct b.ct = .ok q →
      ProdContract s N c'.g am (phaseP s N bm) (bm.base2k * bm.size) q.cnv U)
    {Ma Mb : List ℚ} {Ea Eb Ba Bb : ℚ} (hMa : Ma.length = N) (hMb : Mb.length = N)
    (ta : ∀ t, t < N → Near (decC s a t) (Ma.getD t 0) (wrap a) Ea)
    (tb : ∀ t, t < N → Near (decC s b t) (Mb.getD t 0) (wrap b) Eb)
    (sA : SupLe Ma Ba) (sB : SupLe Mb Bb) (hBa : 0 ≤ Ba) (hBb : 0 ≤ Bb) (hEa : 0 ≤ Ea) (hEb : 0 ≤ Eb)
    (hεa : 0 ≤ εa) (hεb : 0 ≤ εb) :
    ∀ t, t < N → Near (decC s c' t) ((qNegMul Ma Mb).getD t 0) (wrap c')
      (U * ulp c' + N * (Ba * (Eb + εb) + (Ea + εa) * (Bb + (Eb + εb)))) := by
  obtain ⟨q, hq, hqm⟩ := mulInto_params hm
  have hk := mulCt_scale hq
  obtain ⟨g1, g2⟩ := mulCt_grid hq
  have hβ : c'.md.logBudget = q.budget := by rw [hmd, hqm]
  intro t ht
  have h0 := prod_near (hc q hq) c'.md.logBudget a.md.logBudget b.md.logBudget
    (by rw [hβ]; simpa [DCt.ct] using hk) t ht
  rw [← decPG_eq] at h0
  have lenA : (decPG s N am a.md.logBudget).length = N := by simp [decPG]
  have lenB : (decPG s N bm b.md.logBudget).length = N := by simp [decPG]
  have hcomp := mul_comp (βa := a.md.logBudget) (βb := b.md.logBudget) (δa := a.md.logDelta) (δb := b.md.logDelta)
    (β' := c'.md.logBudget) (Ea := Ea + εa) (Eb := Eb + εb) lenA lenB hMa hMb
    (fun t ht => by rw [decPG_getD _ _ _ _ _ ht]; exact Near.shift (ta t ht) (ha.near t ht))
    (fun t ht => by rw [decPG_getD _ _ _ _ _ ht]; exact Near.shift (tb t ht) (hb.near t ht))
    (fun t ht => by rw [decPG_getD _ _ _ _ _ ht]; exact ha.grid t ht)
    (fun t ht => by rw [decPG_getD _ _ _ _ _ ht]; exact hb.grid t ht)
    sA sB hBa hBb (by linarith) (by linarith)
    (by rw [hβ]; simpa [DCt.ct] using g1) (by rw [hβ]; simpa [DCt.ct] using g2) t ht
  exact h0.trans hcomp

end Ckks
