import Poulpy.Model.HalSpec
import Mathlib.Tactic.Linarith
import Mathlib.Tactic.Ring

/-! The AND of `reim_from_znx_masked` / the NTT120 masked load with a mask `−2^s`: the low `s` bits are cleared. -/

namespace Hal

/-- on naturals below `2^64`: `u &&& (2^64 − 2^s) = u − u mod 2^s` -/
theorem land_high_mask (u s : Nat) (hu : u < 2 ^ 64) (hs : s ≤ 64) : Nat.land u (2 ^ 64 - 2 ^ s) = u - u % 2 ^ s := by
  apply Nat.eq_of_testBit_eq
  intro i
  have hm : 2 ^ 64 - 2 ^ s = (2 ^ (64 - s) - 1) * 2 ^ s := by
    rw [Nat.sub_mul, ← Nat.pow_add, Nat.one_mul]
    congr 2
    omega
  have hr : u - u % 2 ^ s = (u / 2 ^ s) * 2 ^ s := by
    have := Nat.div_add_mod u (2 ^ s)
    rw [Nat.mul_comm] at this
    omega
  show (u &&& (2 ^ 64 - 2 ^ s)).testBit i = _
  rw [Nat.testBit_and, hm, hr, Nat.testBit_mul_two_pow, Nat.testBit_mul_two_pow, Nat.testBit_two_pow_sub_one,
    Nat.testBit_div_two_pow]
  by_cases hsi : s ≤ i
  · have e : i - s + s = i := by omega
    simp only [hsi, decide_true, Bool.true_and, e]
    by_cases hi : i < 64
    · have : i - s < 64 - s := by omega
      simp [this]
    · have hlt : u < 2 ^ i := Nat.lt_of_lt_of_le hu (Nat.pow_le_pow_right (by decide) (by omega))
      rw [Nat.testBit_lt_two_pow hlt]
      simp
  · simp [hsi]

/-- **the masked load clears exactly the low `s` bits**: for an `i64` value `x` and the mask `−2^s`
(`s ≤ 63`), `x & mask = x − x mod 2^s` (floor modulus: two's-complement AND). -/
theorem maskCoeff_neg_two_pow (s : Nat) (hs : s ≤ 63) (x : Int) (hx1 : -(2 ^ 63) ≤ x) (hx2 : x < 2 ^ 63) :
    maskCoeff (-(2 ^ s)) x = x - x % 2 ^ s := by
  unfold maskCoeff
  have hp0 : (0 : Int) < 2 ^ s := by positivity
  have hpq : (2 : Int) ^ s * 2 ^ (64 - s) = 2 ^ 64 := by rw [← pow_add]; congr 1; omega
  have hpq' : (2 : Int) ^ s * 2 ^ (63 - s) = 2 ^ 63 := by rw [← pow_add]; congr 1; omega
  have hple : (2 : Int) ^ s ≤ 2 ^ 63 := by
    have : (2 : Int) ^ s ≤ 2 ^ s * 2 ^ (63 - s) := le_mul_of_one_le_right hp0.le (one_le_pow₀ (by norm_num))
    rw [hpq'] at this; exact this
  -- the mask as a natural number
  have hum : ((-(2 ^ s) : Int) % 2 ^ 64).toNat = 2 ^ 64 - 2 ^ s := by
    have e : (-(2 ^ s) : Int) % 2 ^ 64 = 2 ^ 64 - 2 ^ s := by
      have h1 : (-(2 ^ s) : Int) % 2 ^ 64 = (-(2 ^ s) + 2 ^ 64) % 2 ^ 64 := (Int.add_emod_right _ _).symm
      rw [h1, Int.emod_eq_of_lt (by linarith) (by linarith)]
      ring
    rw [e]
    have hn : (2 : Nat) ^ s ≤ 2 ^ 64 := Nat.pow_le_pow_right (by decide) (by omega)
    have : ((2 ^ 64 - 2 ^ s : Nat) : Int) = 2 ^ 64 - 2 ^ s := by rw [Nat.cast_sub hn]; norm_num
    rw [← this, Int.toNat_natCast]
  simp only []
  rw [hum]
  have hux0 : 0 ≤ x % 2 ^ 64 := Int.emod_nonneg _ (by norm_num)
  have hux1 : x % 2 ^ 64 < 2 ^ 64 := Int.emod_lt_of_pos _ (by norm_num)
  have hu : (x % 2 ^ 64).toNat < 2 ^ 64 := by
    have := Int.toNat_of_nonneg hux0
    have h2 : ((x % 2 ^ 64).toNat : Int) < 2 ^ 64 := by rw [this]; exact hux1
    exact_mod_cast h2
  rw [land_high_mask _ s hu (by omega)]
  -- back to integers
  have hcast : (((x % 2 ^ 64).toNat - (x % 2 ^ 64).toNat % 2 ^ s : Nat) : Int) = x % 2 ^ 64 - (x % 2 ^ 64) % 2 ^ s := by
    have hle : (x % 2 ^ 64).toNat % 2 ^ s ≤ (x % 2 ^ 64).toNat := Nat.mod_le _ _
    rw [Nat.cast_sub hle, Int.toNat_of_nonneg hux0]
    congr 1
    have : (((x % 2 ^ 64).toNat % 2 ^ s : Nat) : Int) = ((x % 2 ^ 64).toNat : Int) % ((2 ^ s : Nat) : Int) := Int.natCast_mod _ _
    rw [this, Int.toNat_of_nonneg hux0]
    push_cast
    rfl
  rw [Int.ofNat_eq_natCast, hcast]
  have hmm : (x % 2 ^ 64) % 2 ^ s = x % 2 ^ s := Int.emod_emod_of_dvd x ⟨2 ^ (64 - s), hpq.symm⟩
  rw [hmm]
  have hm0 : 0 ≤ x % 2 ^ s := Int.emod_nonneg _ hp0.ne'
  have hm1 : x % 2 ^ s < 2 ^ s := Int.emod_lt_of_pos _ hp0
  -- x − x % p ≥ −2^63
  have hlow : -(2 ^ 63) ≤ x - x % 2 ^ s := by
    have hd := Int.mul_ediv_add_emod x (2 ^ s)
    have hq : -(2 ^ (63 - s)) ≤ x / 2 ^ s := by
      apply Int.le_ediv_of_mul_le hp0
      rw [neg_mul, mul_comm, hpq']; exact hx1
    have : (2 : Int) ^ s * -(2 ^ (63 - s)) ≤ 2 ^ s * (x / 2 ^ s) := mul_le_mul_of_nonneg_left hq hp0.le
    rw [mul_neg, hpq'] at this
    linarith
  unfold w64
  by_cases hx : 0 ≤ x
  · have : x % 2 ^ 64 = x := Int.emod_eq_of_lt hx (by linarith)
    rw [this]
    omega
  · have : x % 2 ^ 64 = x + 2 ^ 64 := by
      have h1 : x % 2 ^ 64 = (x + 2 ^ 64) % 2 ^ 64 := (Int.add_emod_right _ _).symm
      rw [h1, Int.emod_eq_of_lt (by linarith) (by linarith)]
    rw [this]
    omega

end Hal
