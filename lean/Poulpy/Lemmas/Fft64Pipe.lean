import Poulpy.Lemmas.Fft64Exact

open Complex

namespace Fft64
open F64 NttMath

/-! ## Assembly: conversions, slot-wise product, and the pipeline -/

/-- input conversion: integers below `2^53` are exact, the packed vector is bounded by `3/2·M` -/
theorem close_from (M : ℝ) : ∀ (l1 l2 : List Int), l1.length = l2.length →
    (∀ x ∈ l1, x.natAbs < 2 ^ 53 ∧ |(x:ℝ)| ≤ M) → (∀ y ∈ l2, y.natAbs < 2 ^ 53 ∧ |(y:ℝ)| ≤ M) →
    Close 0 (3 / 2 * M) ((l1.map ofInt).zip (l2.map ofInt)) (List.zipWith (fun x y => x + I * y) (l1.map cc) (l2.map cc)) := by
  intro l1
  induction l1 with
  | nil => intro l2 _ _ _; simp [Close]
  | cons x xs ih =>
    intro l2 hl h1 h2
    cases l2 with
    | nil => simp at hl
    | cons y ys =>
      have hx := h1 x (by simp)
      have hy := h2 y (by simp)
      have big : ∀ z : Int, z.natAbs < 2 ^ 53 → |(z:ℝ)| < (2:ℝ) ^ (1023:Int) := by
        intro z hz
        have h1 : |(z:ℝ)| = ((z.natAbs : Nat) : ℝ) := by
          rw [← Int.cast_abs, Int.abs_eq_natAbs]; simp
        have h2 : ((z.natAbs : Nat) : ℝ) < (2:ℝ) ^ (53:Nat) := by exact_mod_cast hz
        have h3 : (2:ℝ) ^ (53:Nat) ≤ (2:ℝ) ^ (1023:Int) := by
          rw [← zpow_natCast]; exact two_pow_le _ _ (by norm_num)
        rw [h1]; exact lt_of_lt_of_le h2 h3
      obtain ⟨fx, _, ex⟩ := ofInt_spec x (big x hx.1)
      obtain ⟨fy, _, ey⟩ := ofInt_spec y (big y hy.1)
      have hM0 : 0 ≤ M := le_trans (abs_nonneg _) hx.2
      simp only [List.map_cons, List.zip_cons_cons, List.zipWith_cons_cons]
      refine List.Forall₂.cons ⟨⟨fx, fy⟩, ?_, ?_⟩ (ih ys (by simpa using hl) (fun z hz => h1 z (by simp [hz])) (fun z hz => h2 z (by simp [hz])))
      · have : cval (ofInt x, ofInt y) = cc x + I * cc y := by
          apply Complex.ext <;> simp [cval, ex hx.1, ey hy.1, cc]
        rw [this, sub_self, norm_zero]
      · apply norm_le_of_comp_abs _ _ hM0 <;> simp [cc] <;> [exact hx.2; exact hy.2]

theorem forall₂_zipWith₂ {α β α' β' α'' β'' : Type} {R1 : α → β → Prop} {R2 : α' → β' → Prop} {S : α'' → β'' → Prop}
    (f : α → α' → α'') (g : β → β' → β'')
    (h : ∀ a x b y, R1 a x → R2 b y → S (f a b) (g x y)) :
    ∀ {l1 m1 l2 m2}, List.Forall₂ R1 l1 m1 → List.Forall₂ R2 l2 m2 →
      List.Forall₂ S (List.zipWith f l1 l2) (List.zipWith g m1 m2) := by
  intro l1 m1 l2 m2 h1
  induction h1 generalizing l2 m2 with
  | nil => intro _; simp
  | cons hab _ ih =>
    intro h2
    cases h2 with
    | nil => simp
    | cons hcd ht => simp only [List.zipWith_cons_cons]; exact List.Forall₂.cons (h _ _ _ _ hab hcd) (ih ht)

/-- slot-wise complex product (`reim_mul`): three roundings per component plus the propagated input errors -/
theorem close_mul (Ea Aa Eb Ab : ℝ) (hAa : 1 ≤ Aa) (hAb : 1 ≤ Ab) (hEa : 0 ≤ Ea) (hEb : 0 ≤ Eb)
    (hbig : (Aa + Ea) * (Ab + Eb) ≤ (2:ℝ) ^ (1000:Int)) :
    ∀ {xc yc : List C64} {x y : List ℂ}, Close Ea Aa xc x → Close Eb Ab yc y →
    Close (3 / 2 * (κ * ((Aa + Ea) * (Ab + Eb))) + (Aa + Ea) * Eb + Ea * Ab) (Aa * Ab)
      (pointwise cmul xc yc) (List.zipWith (· * ·) x y) := by
  intro xc yc x y h1 h2
  unfold pointwise
  refine forall₂_zipWith₂ cmul (· * ·) ?_ h1 h2
  intro a x b y ⟨fa, ea, na⟩ ⟨fb, eb, nb⟩
  have ma : ‖cval a‖ ≤ Aa + Ea := by have := norm_le_insert' (cval a) x; linarith
  have mb : ‖cval (b.1, b.2)‖ ≤ Ab + Eb := by
    show ‖cval b‖ ≤ Ab + Eb
    have := norm_le_insert' (cval b) y; linarith
  have hP1 : (2:ℝ) ^ (-1022:Int) ≤ (Aa + Ea) * (Ab + Eb) := by
    have : (2:ℝ) ^ (-1022:Int) ≤ 1 := zpow_le_one_of_nonpos₀ (by norm_num) (by norm_num)
    nlinarith
  obtain ⟨f1, f2, hp⟩ := prod_stage a b.1 b.2 fa fb.1 fb.2 _ _ ma mb hP1 hbig
  refine ⟨⟨f1, f2⟩, ?_, ?_⟩
  · show ‖cval (cmul a b) - x * y‖ ≤ _
    have e : cval (cmul a b) - x * y = (cval (cmul a b) - cval a * cval b) + cval a * (cval b - y) + (cval a - x) * y := by ring
    rw [e]
    refine le_trans norm_add₃_le ?_
    rw [Complex.norm_mul, Complex.norm_mul]
    have t1 : ‖cval a‖ * ‖cval b - y‖ ≤ (Aa + Ea) * Eb := mul_le_mul ma eb (norm_nonneg _) (by linarith)
    have t2 : ‖cval a - x‖ * ‖y‖ ≤ Ea * Ab := mul_le_mul ea nb (norm_nonneg _) hEa
    have t0 : ‖cval (cmul a b) - cval a * cval b‖ ≤ 3 / 2 * (κ * ((Aa + Ea) * (Ab + Eb))) := hp
    linarith
  · show ‖x * y‖ ≤ Aa * Ab
    rw [Complex.norm_mul]; exact mul_le_mul na nb (norm_nonneg _) (by linarith)

/-- output conversion of one slot: within `1/2` (after the rounding of the scaling) of `2^K·(x + i·y)` -/
theorem to_slot (K : Nat) (hK : K ≤ 1022) (E A : ℝ) (hE : 0 ≤ E)
    (hA62 : A / 2 ^ K ≤ (2:ℝ) ^ (62:Nat))
    (hmain : E / 2 ^ K * (1 + u) + u * (A / 2 ^ K) + η < 1 / 2)
    (w : C64) (x y : Int) (hw : CFin w) (hc : ‖cval w - (2:ℂ) ^ K * (cc x + I * cc y)‖ ≤ E)
    (hn : ‖(2:ℂ) ^ K * (cc x + I * cc y)‖ ≤ A) : toI64 K w.1 = x ∧ toI64 K w.2 = y := by
  set s : ℝ := 2 ^ K with hs
  have hs0 : 0 < s := by positivity
  have hzp : (2:ℝ) ^ (-(K:Int)) = 1 / s := by rw [zpow_neg, zpow_natCast, one_div]
  have hX : (2:ℂ) ^ K * (cc x + I * cc y) = ⟨s * x, s * y⟩ := by
    apply Complex.ext
    · have : ((2:ℂ) ^ K) = ((s : ℝ) : ℂ) := by rw [hs]; push_cast; ring
      rw [this]; simp [cc]
    · have : ((2:ℂ) ^ K) = ((s : ℝ) : ℂ) := by rw [hs]; push_cast; ring
      rw [this]; simp [cc]
  rw [hX] at hc hn
  have hu := u_pos
  have hη := η_pos
  have comp : ∀ (v : Nat) (z : Int), Fin64 v → |val v - s * z| ≤ E → |s * (z:ℝ)| ≤ A → toI64 K v = z := by
    intro v z fv e1 e2
    have hz : |(z:ℝ)| ≤ A / s := by
      rw [le_div_iff₀ hs0, mul_comm, ← abs_of_pos hs0, ← abs_mul]; simpa [abs_of_pos hs0] using e2
    have hd : |val v * (1 / s) - (z:ℝ)| ≤ E / s := by
      have : val v * (1 / s) - (z:ℝ) = (val v - s * z) / s := by field_simp
      rw [this, abs_div, abs_of_pos hs0]; exact div_le_div_of_nonneg_right e1 hs0.le
    have hv : |val v * (1 / s)| ≤ A / s + E / s := by
      have := abs_sub_abs_le_abs_sub (val v * (1 / s)) (z:ℝ)
      linarith
    have hz62 : |z| ≤ 2 ^ 62 := by
      have : |(z:ℝ)| ≤ (2:ℝ) ^ (62:Nat) := le_trans hz hA62
      have h2 : ((|z| : Int) : ℝ) ≤ (2:ℝ) ^ (62:Nat) := by rw [Int.cast_abs]; exact this
      exact_mod_cast h2
    have hAE : 0 ≤ E / s := div_nonneg hE hs0.le
    apply toI64_spec K hK v fv z hz62
    · rw [hzp]
      have hA0 : 0 ≤ A / s := le_trans (abs_nonneg _) hz
      have h0 : 0 ≤ u * (A / s) := by positivity
      have h0' : 0 ≤ E / s * u := by positivity
      have h1 : E / s < 1 := by nlinarith
      have h2 : (2:ℝ) ^ (62:Nat) + 1 < (2:ℝ) ^ (1023:Int) := by
        have e : (2:ℝ) ^ (1023:Int) = (2:ℝ) ^ (62:Nat) * (2:ℝ) ^ (961:Nat) := by
          rw [← pow_add, ← zpow_natCast]; norm_num
        have : (2:ℝ) ≤ (2:ℝ) ^ (961:Nat) := by
          calc (2:ℝ) = 2 ^ 1 := by norm_num
            _ ≤ 2 ^ 961 := pow_le_pow_right₀ (by norm_num) (by norm_num)
        have h62 : (2:ℝ) ≤ (2:ℝ) ^ (62:Nat) := by
          calc (2:ℝ) = 2 ^ 1 := by norm_num
            _ ≤ 2 ^ 62 := pow_le_pow_right₀ (by norm_num) (by norm_num)
        rw [e]
        generalize (2:ℝ) ^ (62:Nat) = a at *
        generalize (2:ℝ) ^ (961:Nat) = b at *
        clear e
        nlinarith
      have := lt_of_le_of_lt hv (by linarith : A / s + E / s < (2:ℝ) ^ (62:Nat) + 1)
      exact lt_trans this h2
    · rw [hzp]
      have : max (u * |val v * (1 / s)|) η ≤ u * (A / s + E / s) + η := by
        apply max_le
        · have := mul_le_mul_of_nonneg_left hv hu.le; linarith
        · have : 0 ≤ u * (A / s + E / s) := by
            have : 0 ≤ A / s := le_trans (abs_nonneg _) hz
            positivity
          linarith
      nlinarith
  have hre := le_trans (abs_re_le_norm _) hc
  have him := le_trans (abs_im_le_norm _) hc
  have nre := le_trans (abs_re_le_norm _) hn
  have nim := le_trans (abs_im_le_norm _) hn
  simp only [Complex.sub_re, Complex.sub_im, cval_re, cval_im] at hre him nre nim
  exact ⟨comp w.1 x hw.1 hre nre, comp w.2 y hw.2 him nim⟩

theorem close_to (K : Nat) (hK : K ≤ 1022) (E A : ℝ) (hE : 0 ≤ E)
    (hA62 : A / 2 ^ K ≤ (2:ℝ) ^ (62:Nat)) (hmain : E / 2 ^ K * (1 + u) + u * (A / 2 ^ K) + η < 1 / 2) :
    ∀ (l1 l2 : List Int) (W : List C64), l1.length = l2.length →
      Close E A W (List.zipWith (fun x y => (2:ℂ) ^ K * (cc x + I * cc y)) l1 l2) →
      W.map (fun w => toI64 K w.1) = l1 ∧ W.map (fun w => toI64 K w.2) = l2 := by
  intro l1
  induction l1 with
  | nil => intro l2 W hl h; cases l2 <;> simp_all [Close]
  | cons x xs ih =>
    intro l2 W hl h
    cases l2 with
    | nil => simp at hl
    | cons y ys =>
      simp only [List.zipWith_cons_cons] at h
      cases h with
      | cons hw ht =>
        obtain ⟨e1, e2⟩ := to_slot K hK E A hE hA62 hmain _ x y hw.1 hw.2.1 hw.2.2
        obtain ⟨i1, i2⟩ := ih ys _ (by simpa using hl) ht
        simp [e1, e2, i1, i2]

end Fft64
