import Poulpy.Lemmas.BytesRT
/-
Acceptance = a function of (stream, capacity): the three HAL readers accept exactly `vecAccept` / `scalarAccept` /
`matAccept`; histories of reads preserve the capacity.  Consumed by Props/C18.lean.
-/
namespace Ser

theorem hdrWord_zero (bs : Bytes) : hdrWord bs 0 = leVal (bs.take 8) := by simp [hdrWord]

theorem vec_isOk_eq (r : VecZnx) (bs : Bytes) : (VecZnx.readFrom r bs).isOk = vecAccept r.capacity bs := by
  unfold VecZnx.readFrom vecAccept VecZnx.capacity hdrWord
  simp only [readU64_bind, List.drop_drop, Nat.reduceAdd, Nat.reduceMul, List.drop_zero]
  by_cases hlen : 40 ≤ bs.length
  · have h1 : ¬ bs.length < 8 := by omega
    have h2 : ¬ (List.drop 8 bs).length < 8 := by simp; omega
    have h3 : ¬ (List.drop 16 bs).length < 8 := by simp; omega
    have h4 : ¬ (List.drop 24 bs).length < 8 := by simp; omega
    have h5 : ¬ (List.drop 32 bs).length < 8 := by simp; omega
    simp only [h1, h2, h3, h4, h5, ↓reduceIte, hlen, decide_true, Bool.true_and]
    cases hexp : cm3x8 (leVal (List.take 8 bs)) (leVal (List.take 8 (List.drop 8 bs))) (leVal (List.take 8 (List.drop 16 bs))) with
    | none => simp [failWith_apply, Res.isOk]
    | some expected =>
      simp only []
      by_cases he : expected = leVal (List.take 8 (List.drop 32 bs))
      · subst he
        simp only [ne_eq, not_true_eq_false, ↓reduceIte, getS_bind, beq_self_eq_true, Bool.true_and]
        by_cases hb : r.data.length < leVal (List.take 8 (List.drop 32 bs))
        · have : ¬ leVal (List.take 8 (List.drop 32 bs)) ≤ r.data.length := by omega
          simp [hb, this, failWith_apply, Res.isOk]
        · have hb' : leVal (List.take 8 (List.drop 32 bs)) ≤ r.data.length := by omega
          simp only [hb, ↓reduceIte, hb', decide_true, Bool.true_and]
          by_cases hc : (decide (leVal (List.take 8 (List.drop 16 bs)) > leVal (List.take 8 (List.drop 24 bs))) ||
              !Option.any (fun cap => decide (cap ≤ r.data.length))
                (cm3x8 (leVal (List.take 8 bs)) (leVal (List.take 8 (List.drop 8 bs))) (leVal (List.take 8 (List.drop 24 bs))))) = true
          · rw [if_pos hc]
            simp only [failWith_apply, Res.isOk]
            simp only [Bool.or_eq_true, decide_eq_true_eq, Bool.not_eq_true'] at hc
            rcases hc with hc | hc
            · have : ¬ leVal (List.take 8 (List.drop 16 bs)) ≤ leVal (List.take 8 (List.drop 24 bs)) := by omega
              simp [this]
            · simp [hc]
          · rw [if_neg hc, readExactInto_bind]
            simp only [Bool.or_eq_true, decide_eq_true_eq, Bool.not_eq_true', not_or, Nat.not_lt, Bool.not_eq_false] at hc
            obtain ⟨hsz, hany⟩ := hc
            have hg : ¬ (leVal (List.take 8 (List.drop 32 bs)) > r.data.length) := by omega
            simp only [hg, ↓reduceIte, hsz, decide_true, hany, Bool.true_and, List.length_drop]
            by_cases hs : bs.length - 40 < leVal (List.take 8 (List.drop 32 bs))
            · have : ¬ leVal (List.take 8 (List.drop 32 bs)) ≤ bs.length - 40 := by omega
              simp [hs, this, Res.isOk]
            · have : leVal (List.take 8 (List.drop 32 bs)) ≤ bs.length - 40 := by omega
              simp [hs, this, modifyS_apply, Res.isOk]
      · have : ¬ (some expected == some (leVal (List.take 8 (List.drop 32 bs)))) = true := by simpa using he
        simp [he, failWith_apply, Res.isOk, this]
  · have hf : decide (40 ≤ bs.length) = false := by simpa using hlen
    simp only [hf, Bool.false_and]
    simp only [List.length_drop]
    split; · rfl
    split; · rfl
    split; · rfl
    split; · rfl
    split; · rfl
    omega

theorem scalar_isOk_eq (r : ScalarZnx) (bs : Bytes) : (ScalarZnx.readFrom r bs).isOk = scalarAccept r.capacity bs := by
  unfold ScalarZnx.readFrom scalarAccept ScalarZnx.capacity hdrWord
  simp only [readU64_bind, List.drop_drop, Nat.reduceAdd, Nat.reduceMul, List.drop_zero]
  by_cases hlen : 24 ≤ bs.length
  · have h1 : ¬ bs.length < 8 := by omega
    have h2 : ¬ (List.drop 8 bs).length < 8 := by simp; omega
    have h3 : ¬ (List.drop 16 bs).length < 8 := by simp; omega
    simp only [h1, h2, h3, ↓reduceIte, hlen, decide_true, Bool.true_and]
    cases hexp : (checkedMul (leVal (List.take 8 bs)) (leVal (List.take 8 (List.drop 8 bs)))).bind (fun x => checkedMul x 8) with
    | none => simp [failWith_apply, Res.isOk]
    | some expected =>
      simp only []
      by_cases he : expected = leVal (List.take 8 (List.drop 16 bs))
      · subst he
        simp only [ne_eq, not_true_eq_false, ↓reduceIte, getS_bind, beq_self_eq_true, Bool.true_and]
        by_cases hb : r.data.length < leVal (List.take 8 (List.drop 16 bs))
        · have : ¬ leVal (List.take 8 (List.drop 16 bs)) ≤ r.data.length := by omega
          simp [hb, this, failWith_apply, Res.isOk]
        · have hb' : leVal (List.take 8 (List.drop 16 bs)) ≤ r.data.length := by omega
          simp only [hb, ↓reduceIte, hb', decide_true, Bool.true_and]
          rw [readExactInto_bind]
          have hg : ¬ (leVal (List.take 8 (List.drop 16 bs)) > r.data.length) := by omega
          simp only [hg, ↓reduceIte, List.length_drop]
          by_cases hs : bs.length - 24 < leVal (List.take 8 (List.drop 16 bs))
          · have : ¬ leVal (List.take 8 (List.drop 16 bs)) ≤ bs.length - 24 := by omega
            simp [hs, this, Res.isOk]
          · have : leVal (List.take 8 (List.drop 16 bs)) ≤ bs.length - 24 := by omega
            simp [hs, this, modifyS_apply, Res.isOk]
      · have : ¬ (some expected == some (leVal (List.take 8 (List.drop 16 bs)))) = true := by simpa using he
        simp [he, failWith_apply, Res.isOk, this]
  · have hf : decide (24 ≤ bs.length) = false := by simpa using hlen
    simp only [hf, Bool.false_and]
    simp only [List.length_drop]
    split; · rfl
    split; · rfl
    split; · rfl
    omega

theorem mat_isOk_eq (r : MatZnx) (bs : Bytes) : (MatZnx.readFrom r bs).isOk = matAccept r.capacity bs := by
  unfold MatZnx.readFrom matAccept MatZnx.capacity hdrWord
  simp only [readU64_bind, List.drop_drop, Nat.reduceAdd, Nat.reduceMul, List.drop_zero]
  by_cases hlen : 48 ≤ bs.length
  · have h1 : ¬ bs.length < 8 := by omega
    have h2 : ¬ (List.drop 8 bs).length < 8 := by simp; omega
    have h3 : ¬ (List.drop 16 bs).length < 8 := by simp; omega
    have h4 : ¬ (List.drop 24 bs).length < 8 := by simp; omega
    have h5 : ¬ (List.drop 32 bs).length < 8 := by simp; omega
    have h6 : ¬ (List.drop 40 bs).length < 8 := by simp; omega
    simp only [h1, h2, h3, h4, h5, h6, ↓reduceIte, hlen, decide_true, Bool.true_and]
    cases hexp : cmMat (leVal (List.take 8 (List.drop 16 bs))) (leVal (List.take 8 (List.drop 24 bs))) (leVal (List.take 8 bs))
        (leVal (List.take 8 (List.drop 32 bs))) (leVal (List.take 8 (List.drop 8 bs))) with
    | none => simp [failWith_apply, Res.isOk]
    | some expected =>
      simp only []
      by_cases he : expected = leVal (List.take 8 (List.drop 40 bs))
      · subst he
        simp only [ne_eq, not_true_eq_false, ↓reduceIte, getS_bind, beq_self_eq_true, Bool.true_and]
        by_cases hb : r.data.length < leVal (List.take 8 (List.drop 40 bs))
        · have : ¬ leVal (List.take 8 (List.drop 40 bs)) ≤ r.data.length := by omega
          simp [hb, this, failWith_apply, Res.isOk]
        · have hb' : leVal (List.take 8 (List.drop 40 bs)) ≤ r.data.length := by omega
          simp only [hb, ↓reduceIte, hb', decide_true, Bool.true_and]
          rw [readExactInto_bind]
          have hg : ¬ (leVal (List.take 8 (List.drop 40 bs)) > r.data.length) := by omega
          simp only [hg, ↓reduceIte, List.length_drop]
          by_cases hs : bs.length - 48 < leVal (List.take 8 (List.drop 40 bs))
          · have : ¬ leVal (List.take 8 (List.drop 40 bs)) ≤ bs.length - 48 := by omega
            simp [hs, this, Res.isOk]
          · have : leVal (List.take 8 (List.drop 40 bs)) ≤ bs.length - 48 := by omega
            simp [hs, this, modifyS_apply, Res.isOk]
      · have : ¬ (some expected == some (leVal (List.take 8 (List.drop 40 bs)))) = true := by simpa using he
        simp [he, failWith_apply, Res.isOk, this]
  · have hf : decide (48 ≤ bs.length) = false := by simpa using hlen
    simp only [hf, Bool.false_and]
    simp only [List.length_drop]
    split; · rfl
    split; · rfl
    split; · rfl
    split; · rfl
    split; · rfl
    split; · rfl
    omega

/-! ### histories preserve the capacity -/

theorem vec_state_capacity (r : VecZnx) (bs : Bytes) : (VecZnx.readFrom r bs).state.capacity = r.capacity := by
  have g := vec_read_good r bs
  cases h : VecZnx.readFrom r bs with
  | ok a v rest => rw [h] at g; exact (vecOk_inv g).2
  | err k v => rw [h] at g; simp only [Good] at g; simp [Res.state, g]
  | panic c v => rw [h] at g; exact g.elim

theorem scalar_state_capacity (r : ScalarZnx) (bs : Bytes) : (ScalarZnx.readFrom r bs).state.capacity = r.capacity := by
  have g := scalar_read_good r bs
  cases h : ScalarZnx.readFrom r bs with
  | ok a v rest => rw [h] at g; exact (scalarOk_inv g).2
  | err k v => rw [h] at g; simp only [Good] at g; simp [Res.state, g]
  | panic c v => rw [h] at g; exact g.elim

theorem mat_state_capacity (r : MatZnx) (bs : Bytes) : (MatZnx.readFrom r bs).state.capacity = r.capacity := by
  have g := mat_read_good r bs
  cases h : MatZnx.readFrom r bs with
  | ok a v rest => rw [h] at g; exact (matOk_inv g).2
  | err k v => rw [h] at g; simp only [Good] at g; simp [Res.state, g]
  | panic c v => rw [h] at g; exact g.elim

theorem vec_readSeq_capacity (r : VecZnx) (hist : List Bytes) : (VecZnx.readSeq r hist).capacity = r.capacity := by
  induction hist generalizing r with
  | nil => rfl
  | cons bs rest ih => simp only [VecZnx.readSeq]; rw [ih, vec_state_capacity]

theorem scalar_readSeq_capacity (r : ScalarZnx) (hist : List Bytes) : (ScalarZnx.readSeq r hist).capacity = r.capacity := by
  induction hist generalizing r with
  | nil => rfl
  | cons bs rest ih => simp only [ScalarZnx.readSeq]; rw [ih, scalar_state_capacity]

theorem mat_readSeq_capacity (r : MatZnx) (hist : List Bytes) : (MatZnx.readSeq r hist).capacity = r.capacity := by
  induction hist generalizing r with
  | nil => rfl
  | cons bs rest ih => simp only [MatZnx.readSeq]; rw [ih, mat_state_capacity]

end Ser
