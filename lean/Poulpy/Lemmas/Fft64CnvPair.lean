import Poulpy.Lemmas.Fft64CnvAvx

open Complex

namespace Fft64Cnv
open F64 Fft64 Fft64Avx NttMath Hal

/-! ## `cnv_pairwise_apply_dft(i ≠ j)`: `reim_add` of two prepared columns, then the same convolution -/

/-- the sum of two `(EF τ M, AF M)`-close vectors, one `f64` addition per component, is `(EF τ' 2M, AF 2M)`-close when the
per-level growth at `τ'` absorbs the extra rounding: `(1 + γf τ/2)(1 + 3u/2) ≤ 1 + γf τ'/2` -/
theorem close_add (K : Nat) (hK : 1 ≤ K) (τ τ' M : ℝ) (hτ0 : 0 ≤ τ) (hM : 1 ≤ M)
    (hf : (1 + γf τ / 2) * (1 + 3 / 2 * u) ≤ 1 + γf τ' / 2)
    (hbig : 2 * (AF K M + EF K τ M) ≤ (2:ℝ) ^ (1000:Int)) :
    ∀ {x y : List C64} {X Y : List ℂ}, Close (EF K τ M) (AF K M) x X → Close (EF K τ M) (AF K M) y Y →
      Close (EF K τ' (2 * M)) (AF K (2 * M)) (List.zipWith (fun p q : C64 => (add p.1 q.1, add p.2 q.2)) x y) (List.zipWith (· + ·) X Y) := by
  have hu := u_pos
  have hγ := γf_nonneg τ hτ0
  set f := 1 + γf τ / 2 with hfdef
  set f' := 1 + γf τ' / 2 with hf'def
  have hf1 : 1 ≤ f := by rw [hfdef]; linarith
  have hF1 : 1 ≤ f ^ K := one_le_pow₀ hf1
  have hpow : f ^ K * (1 + 3 / 2 * u) ≤ f' ^ K := by
    have h1 : (f * (1 + 3 / 2 * u)) ^ K ≤ f' ^ K := pow_le_pow_left₀ (by positivity) hf K
    rw [mul_pow] at h1
    have h2 : (1 + 3 / 2 * u) ≤ (1 + 3 / 2 * u) ^ K := by
      calc (1 + 3 / 2 * u) = (1 + 3 / 2 * u) ^ 1 := by ring
        _ ≤ (1 + 3 / 2 * u) ^ K := pow_le_pow_right₀ (by linarith) hK
    have h3 : f ^ K * (1 + 3 / 2 * u) ≤ f ^ K * (1 + 3 / 2 * u) ^ K := mul_le_mul_of_nonneg_left h2 (by positivity)
    linarith
  set B := AF K M + EF K τ M with hB
  have hBeq : B = 2 ^ K * f ^ K * (3 / 2 * M) := AFEF_eq K τ M
  have hB0 : 0 ≤ B := by rw [hBeq]; positivity
  have hE : 2 * EF K τ M + 3 * u * B ≤ EF K τ' (2 * M) := by
    have e1 : EF K τ M = 2 ^ K * (3 / 2 * M) * (f ^ K - 1) := by unfold EF A0 errB; ring
    have e2 : EF K τ' (2 * M) = 2 ^ K * (3 / 2 * M) * (2 * (f' ^ K - 1)) := by unfold EF A0 errB; ring
    rw [e1, e2, hBeq]
    have hc : 0 ≤ (2:ℝ) ^ K * (3 / 2 * M) := by positivity
    have : 2 * (2 ^ K * (3 / 2 * M) * (f ^ K - 1)) + 3 * u * (2 ^ K * f ^ K * (3 / 2 * M)) =
        2 ^ K * (3 / 2 * M) * (2 * (f ^ K * (1 + 3 / 2 * u) - 1)) := by ring
    rw [this]
    apply mul_le_mul_of_nonneg_left _ hc
    linarith
  have hAF2 : AF K (2 * M) = 2 * AF K M := by unfold AF A0; ring
  have hlt : 2 * B < (2:ℝ) ^ (1023:Int) := lt_of_le_of_lt hbig (two_pow_lt _ _ (by norm_num))
  intro x y X Y hx
  induction hx generalizing y Y with
  | nil => intro _; simp [Close]
  | @cons p P _ _ hp _ ih =>
    intro hy
    cases hy with
    | nil => simp [Close]
    | @cons q Q _ _ hq hqt =>
      simp only [List.zipWith_cons_cons]
      refine List.Forall₂.cons ?_ (ih hqt)
      obtain ⟨⟨fp1, fp2⟩, ep, np⟩ := hp
      obtain ⟨⟨fq1, fq2⟩, eq, nq⟩ := hq
      have bp : ‖cval p‖ ≤ B := by
        have := norm_sub_norm_le (cval p) P; linarith
      have bq : ‖cval q‖ ≤ B := by
        have := norm_sub_norm_le (cval q) Q; linarith
      have p1 := le_trans (abs_re_le_norm (cval p)) bp
      have p2 := le_trans (abs_im_le_norm (cval p)) bp
      have q1 := le_trans (abs_re_le_norm (cval q)) bq
      have q2 := le_trans (abs_im_le_norm (cval q)) bq
      rw [cval_re] at p1 q1
      rw [cval_im] at p2 q2
      obtain ⟨k1, e1⟩ := add_err p.1 q.1 (2 * B) fp1 fq1 (by have := abs_add_le (val p.1) (val q.1); linarith) hlt
      obtain ⟨k2, e2⟩ := add_err p.2 q.2 (2 * B) fp2 fq2 (by have := abs_add_le (val p.2) (val q.2); linarith) hlt
      refine ⟨⟨k1, k2⟩, ?_, ?_⟩
      · have hr : ‖cval (add p.1 q.1, add p.2 q.2) - (cval p + cval q)‖ ≤ 3 / 2 * (u * (2 * B)) := by
          apply norm_le_of_comp_abs _ _ (by positivity)
          · simpa only [Complex.sub_re, Complex.add_re, cval_re] using e1
          · simpa only [Complex.sub_im, Complex.add_im, cval_im] using e2
        have e' : cval (add p.1 q.1, add p.2 q.2) - (P + Q) =
            (cval (add p.1 q.1, add p.2 q.2) - (cval p + cval q)) + (cval p - P) + (cval q - Q) := by ring
        rw [e']
        have t1 := norm_add_le ((cval (add p.1 q.1, add p.2 q.2) - (cval p + cval q)) + (cval p - P)) (cval q - Q)
        have t2 := norm_add_le (cval (add p.1 q.1, add p.2 q.2) - (cval p + cval q)) (cval p - P)
        linarith
      · rw [hAF2]
        have := norm_add_le P Q
        linarith

theorem zipWith_getD_same {α β : Type} (f : α → α → β) (da : α) (db : β) (hd : f da da = db) :
    ∀ (l1 l2 : List α), l1.length = l2.length → ∀ j, (List.zipWith f l1 l2).getD j db = f (l1.getD j da) (l2.getD j da) := by
  intro l1
  induction l1 with
  | nil => intro l2 h j; cases l2 with
    | nil => simp [hd]
    | cons _ _ => simp at h
  | cons a as ih =>
    intro l2 h j
    cases l2 with
    | nil => simp at h
    | cons b bs =>
      cases j with
      | zero => simp
      | succ j => simpa using ih bs (by simpa using h) j

theorem addvec_zero (K : Nat) :
    List.zipWith (fun p q : C64 => (add p.1 q.1, add p.2 q.2)) (zeroVec K) (zeroVec K) = zeroVec K := by
  unfold zeroVec
  rw [List.zipWith_replicate]
  simp only [min_self]
  congr 1

theorem polyAdd_zero (n : Nat) : polyAdd (zeroP n) (zeroP n) = zeroP n := by
  unfold polyAdd zeroP
  rw [List.zipWith_replicate]; simp

/-- `reim_add` of two prepared columns against `Hal.colAdd` of the integer prepared columns -/
theorem prepAdd_rel (K : Nat) (hK : 1 ≤ K) (τ τ' M : ℝ) (hτ0 : 0 ≤ τ) (hM : 1 ≤ M)
    (hf : (1 + γf τ / 2) * (1 + 3 / 2 * u) ≤ 1 + γf τ' / 2)
    (hbig : 2 * (AF K M + EF K τ M) ≤ (2:ℝ) ^ (1000:Int))
    (p0 p1 : List (List C64)) (X0 X1 : Col) (h0 : PrepRel K τ M p0 X0) (h1 : PrepRel K τ M p1 X1) (hl : X0.length = X1.length)
    (hlen0 : ∀ j, (limbOr0 (2 * 2 ^ K) X0 j).length = 2 ^ (K + 1)) (hlen1 : ∀ j, (limbOr0 (2 * 2 ^ K) X1 j).length = 2 ^ (K + 1)) :
    PrepRel K τ' (2 * M) (prepAdd p0 p1) (colAdd (2 * 2 ^ K) X0 X1) := by
  have hpl : p0.length = p1.length := by rw [h0.1, h1.1, hl]
  refine ⟨by simp [prepAdd, colAdd, h0.1, h1.1, hl], ?_⟩
  intro j
  have e1 : (prepAdd p0 p1).getD j (zeroVec K) =
      List.zipWith (fun p q : C64 => (add p.1 q.1, add p.2 q.2)) (p0.getD j (zeroVec K)) (p1.getD j (zeroVec K)) :=
    zipWith_getD_same (fun l1 l2 => List.zipWith (fun p q : C64 => (add p.1 q.1, add p.2 q.2)) l1 l2) (zeroVec K) (zeroVec K)
      (addvec_zero K) p0 p1 hpl j
  have e2 : limbOr0 (2 * 2 ^ K) (colAdd (2 * 2 ^ K) X0 X1) j = polyAdd (limbOr0 (2 * 2 ^ K) X0 j) (limbOr0 (2 * 2 ^ K) X1 j) := by
    unfold colAdd
    by_cases hj : j < max X0.length X1.length
    · show ((List.range (max X0.length X1.length)).map _).getD j _ = _
      rw [mapRange_getD _ _ _ _ hj]
    · show ((List.range (max X0.length X1.length)).map _).getD j _ = _
      rw [mapRange_getD_ge _ _ _ _ (by omega)]
      have a0 : limbOr0 (2 * 2 ^ K) X0 j = zeroP (2 * 2 ^ K) := by
        unfold limbOr0; rw [List.getD_eq_getElem?_getD, List.getElem?_eq_none (by omega)]; rfl
      have a1 : limbOr0 (2 * 2 ^ K) X1 j = zeroP (2 * 2 ^ K) := by
        unfold limbOr0; rw [List.getD_eq_getElem?_getD, List.getElem?_eq_none (by omega)]; rfl
      rw [a0, a1, polyAdd_zero]
  rw [e1, e2, mapC_polyAdd]
  unfold addL
  rw [packC_add, fwdE_add _ _ _ _ (packC_length K _ (by simpa using hlen0 j)) (packC_length K _ (by simpa using hlen1 j))]
  exact close_add K hK τ τ' M hτ0 hM hf hbig (h0.2 j) (h1.2 j)

theorem limbOr0_colAdd (n : Nat) (X0 X1 : Col) (j : Nat) :
    limbOr0 n (colAdd n X0 X1) j = polyAdd (limbOr0 n X0 j) (limbOr0 n X1 j) := by
  unfold colAdd
  by_cases hj : j < max X0.length X1.length
  · show ((List.range (max X0.length X1.length)).map _).getD j _ = _
    rw [mapRange_getD _ _ _ _ hj]
  · show ((List.range (max X0.length X1.length)).map _).getD j _ = _
    rw [mapRange_getD_ge _ _ _ _ (by omega)]
    have a0 : limbOr0 n X0 j = zeroP n := by
      unfold limbOr0; rw [List.getD_eq_getElem?_getD, List.getElem?_eq_none (by omega)]; rfl
    have a1 : limbOr0 n X1 j = zeroP n := by
      unfold limbOr0; rw [List.getD_eq_getElem?_getD, List.getElem?_eq_none (by omega)]; rfl
    rw [a0, a1, polyAdd_zero]

theorem tableAccurate_mono (τ τ' : ℝ) (h : τ ≤ τ') (K : Nat) (omg iomg : Array Nat) (hacc : TableAccurate τ K omg iomg) :
    TableAccurate τ' K omg iomg :=
  ⟨fun l hl b hb => ⟨(hacc.1 l hl b hb).1, le_trans (hacc.1 l hl b hb).2 h⟩,
   fun l hl b hb => ⟨(hacc.2 l hl b hb).1, le_trans (hacc.2 l hl b hb).2 h⟩⟩

/-- the conditions at `τ` that the prepare step needs, from the range condition of the domain at `τ'`, `2M` -/
theorem pair_side (K : Nat) (τ τ' M : ℝ) (hτ0 : 0 ≤ τ) (hM : 1 ≤ M)
    (hf : (1 + γf τ / 2) * (1 + 3 / 2 * u) ≤ 1 + γf τ' / 2)
    (hr : 2 ^ K * (1 + γf τ' / 2) ^ K * (A0 (2 * M) + 0) ≤ (2:ℝ) ^ (999:Int)) :
    2 ^ K * (1 + γf τ / 2) ^ K * (A0 M + 0) ≤ (2:ℝ) ^ (999:Int) ∧ 2 * (AF K M + EF K τ M) ≤ (2:ℝ) ^ (1000:Int) := by
  have hu := u_pos
  have hγ := γf_nonneg τ hτ0
  have hff : 1 + γf τ / 2 ≤ 1 + γf τ' / 2 := by
    refine le_trans ?_ hf
    have : (0:ℝ) ≤ (1 + γf τ / 2) * (3 / 2 * u) := by positivity
    nlinarith
  have hp : (1 + γf τ / 2) ^ K ≤ (1 + γf τ' / 2) ^ K := pow_le_pow_left₀ (by linarith) hff K
  have h2 : 2 ^ K * (1 + γf τ / 2) ^ K * (A0 (2 * M) + 0) ≤ (2:ℝ) ^ (999:Int) := by
    refine le_trans ?_ hr
    have : (0:ℝ) ≤ A0 (2 * M) + 0 := by unfold A0; positivity
    exact mul_le_mul_of_nonneg_right (mul_le_mul_of_nonneg_left hp (by positivity)) this
  have e2 : A0 (2 * M) + 0 = 2 * (A0 M + 0) := by unfold A0; ring
  have hnn : 0 ≤ 2 ^ K * (1 + γf τ / 2) ^ K * (A0 M + 0) := by unfold A0; positivity
  constructor
  · rw [e2] at h2
    have e : 2 ^ K * (1 + γf τ / 2) ^ K * (2 * (A0 M + 0)) = 2 * (2 ^ K * (1 + γf τ / 2) ^ K * (A0 M + 0)) := by ring
    rw [e] at h2
    exact le_trans (by linarith) h2
  · rw [AFEF_eq]
    have e3 : 2 * (2 ^ K * (1 + γf τ / 2) ^ K * (3 / 2 * M)) = 2 ^ K * (1 + γf τ / 2) ^ K * (A0 (2 * M) + 0) := by unfold A0; ring
    rw [e3]
    exact le_trans h2 (two_pow_le _ _ (by norm_num))

theorem cnvPrepareCol_length (n rs : Nat) (m : Int) (a : Col) : (cnvPrepareCol n rs m a).length = rs := by simp [cnvPrepareCol]

theorem colAdd_limb_len (K : Nat) (X0 X1 : Col) (h0 : ∀ j, (limbOr0 (2 * 2 ^ K) X0 j).length = 2 ^ (K + 1))
    (h1 : ∀ j, (limbOr0 (2 * 2 ^ K) X1 j).length = 2 ^ (K + 1)) (j : Nat) :
    (limbOr0 (2 * 2 ^ K) (colAdd (2 * 2 ^ K) X0 X1) j).length = 2 ^ (K + 1) := by
  rw [limbOr0_colAdd]; unfold polyAdd; simp [h0 j, h1 j]

/-- **`fft64_cnv_pairwise_matches_spec`** (FFT64Ref): tables accurate to `τ`, domain stated at `τ'` (one extra rounding per
operand absorbed in the per-level growth) with doubled operand bounds -/
theorem cnv_pairwise_exact (K : Nat) (hK2 : 2 ≤ K) (omg iomg : Array Nat) (τ τ' Ma Mb : ℝ) (rs off sl sr : Nat) (ml mr : Int)
    (a0 a1 b0 b1 : Col) (hacc : TableAccurate τ K omg iomg) (hτ0 : 0 ≤ τ) (hττ : τ ≤ τ')
    (hf : (1 + γf τ / 2) * (1 + 3 / 2 * u) ≤ 1 + γf τ' / 2) (hsl : 1 ≤ sl) (hsr : 1 ≤ sr) (hMa : 1 ≤ Ma) (hMb : 1 ≤ Mb)
    (hA0 : PrepOK K Ma (cnvPrepareCol (2 * 2 ^ K) sl ml a0)) (hA1 : PrepOK K Ma (cnvPrepareCol (2 * 2 ^ K) sl ml a1))
    (hB0 : PrepOK K Mb (cnvPrepareCol (2 * 2 ^ K) sr mr b0)) (hB1 : PrepOK K Mb (cnvPrepareCol (2 * 2 ^ K) sr mr b1))
    (hdom : ∀ R, 1 ≤ R → R ≤ min sl sr → VmpDomain K R τ' (2 * Ma) (2 * Mb)) :
    cnvPairwise refOps K omg iomg rs off sl sr ml mr a0 a1 b0 b1 =
      .ok (cnvApplyCol (2 * 2 ^ K) rs off
        (colAdd (2 * 2 ^ K) (cnvPrepareCol (2 * 2 ^ K) sl ml a0) (cnvPrepareCol (2 * 2 ^ K) sl ml a1))
        (colAdd (2 * 2 ^ K) (cnvPrepareCol (2 * 2 ^ K) sr mr b0) (cnvPrepareCol (2 * 2 ^ K) sr mr b1))) := by
  have hacc' := tableAccurate_mono τ τ' hττ K omg iomg hacc
  have a1' := accF_of_flat τ _ K hacc.1 K 0 0 (by omega) (by norm_num)
  have a2' := accI_of_flat τ' _ K hacc'.2 K 0 0 (by omega) (by norm_num)
  rw [jval_zero] at a1' a2'
  have hd1 := hdom 1 le_rfl (by omega)
  have hτ1 : τ ≤ 1 := le_trans hττ hd1.τ1
  obtain ⟨ra, bigA⟩ := pair_side K τ τ' Ma hτ0 hMa hf hd1.ra
  obtain ⟨rb, bigB⟩ := pair_side K τ τ' Mb hτ0 hMb hf hd1.rb
  set X0 := cnvPrepareCol (2 * 2 ^ K) sl ml a0 with hX0
  set X1 := cnvPrepareCol (2 * 2 ^ K) sl ml a1 with hX1
  set Y0 := cnvPrepareCol (2 * 2 ^ K) sr mr b0 with hY0
  set Y1 := cnvPrepareCol (2 * 2 ^ K) sr mr b1 with hY1
  obtain ⟨p0, ep0, rp0⟩ := cnvPrepare_rel K omg τ Ma sl ml a0 hτ0 hτ1 hMa a1' ra hA0
  obtain ⟨p1, ep1, rp1⟩ := cnvPrepare_rel K omg τ Ma sl ml a1 hτ0 hτ1 hMa a1' ra hA1
  obtain ⟨q0, eq0, rq0⟩ := cnvPrepare_rel K omg τ Mb sr mr b0 hτ0 hτ1 hMb a1' rb hB0
  obtain ⟨q1, eq1, rq1⟩ := cnvPrepare_rel K omg τ Mb sr mr b1 hτ0 hτ1 hMb a1' rb hB1
  have lX0 := limbOr0_ok K Ma (by linarith) X0 hA0
  have lX1 := limbOr0_ok K Ma (by linarith) X1 hA1
  have lY0 := limbOr0_ok K Mb (by linarith) Y0 hB0
  have lY1 := limbOr0_ok K Mb (by linarith) Y1 hB1
  have hXl : X0.length = X1.length := by rw [hX0, hX1, cnvPrepareCol_length, cnvPrepareCol_length]
  have hYl : Y0.length = Y1.length := by rw [hY0, hY1, cnvPrepareCol_length, cnvPrepareCol_length]
  have rpa := prepAdd_rel K (by omega) τ τ' Ma hτ0 hMa hf bigA p0 p1 X0 X1 rp0 rp1 hXl lX0 lX1
  have rpb := prepAdd_rel K (by omega) τ τ' Mb hτ0 hMb hf bigB q0 q1 Y0 Y1 rq0 rq1 hYl lY0 lY1
  set A := colAdd (2 * 2 ^ K) X0 X1 with hAdef
  set B := colAdd (2 * 2 ^ K) Y0 Y1 with hBdef
  have hAlen : A.length = sl := by simp [hAdef, colAdd, hX0, hX1]
  have hBlen : B.length = sr := by simp [hBdef, colAdd, hY0, hY1]
  have h8 : ¬ (2 * 2 ^ K < 8) := by
    have : 2 ^ 2 ≤ 2 ^ K := Nat.pow_le_pow_right (by norm_num) hK2
    omega
  unfold cnvPairwise
  rw [ep0, ep1, eq0, eq1]; simp only
  unfold cnvApply
  rw [if_neg h8, if_neg (by rw [rpa.1, rpb.1, hAlen, hBlen]; omega)]
  unfold cnvApplyCol
  simp only [rpa.1, rpb.1]
  congr 1
  apply List.map_congr_left
  intro k _
  split
  · exact cnvLimb_exact K iomg τ' (2 * Ma) (2 * Mb) _ _ A B _ a2' (colAdd_limb_len K X0 X1 lX0 lX1) (colAdd_limb_len K Y0 Y1 lY0 lY1)
      rpa rpb (by omega) (by omega) (by rw [hAlen, hBlen]; exact hdom)
  · rfl

/-- the same on FFT64Avx (the fused-lane domain at `τ'`, doubled bounds; the range assertions concern the four operands only) -/
theorem cnvAvx_pairwise_exact (K : Nat) (hK2 : 2 ≤ K) (omg iomg : Array Nat) (τ τ' Ma Mb : ℝ) (rs off sl sr : Nat) (ml mr : Int)
    (a0 a1 b0 b1 : Col) (hacc : TableAccurate τ K omg iomg) (hτ0 : 0 ≤ τ) (hττ : τ ≤ τ')
    (hf : (1 + γf τ / 2) * (1 + 3 / 2 * u) ≤ 1 + γf τ' / 2) (hsl : 1 ≤ sl) (hsr : 1 ≤ sr) (hMa : 1 ≤ Ma) (hMb : 1 ≤ Mb)
    (hrawA0 : ∀ j, j < min sl a0.length → ∀ c ∈ limbOr0 (2 * 2 ^ K) a0 j, c.natAbs ≤ 2 ^ 50 - 1)
    (hrawA1 : ∀ j, j < min sl a1.length → ∀ c ∈ limbOr0 (2 * 2 ^ K) a1 j, c.natAbs ≤ 2 ^ 50 - 1)
    (hrawB0 : ∀ j, j < min sr b0.length → ∀ c ∈ limbOr0 (2 * 2 ^ K) b0 j, c.natAbs ≤ 2 ^ 50 - 1)
    (hrawB1 : ∀ j, j < min sr b1.length → ∀ c ∈ limbOr0 (2 * 2 ^ K) b1 j, c.natAbs ≤ 2 ^ 50 - 1)
    (hA0 : PrepOKA K Ma (cnvPrepareCol (2 * 2 ^ K) sl ml a0)) (hA1 : PrepOKA K Ma (cnvPrepareCol (2 * 2 ^ K) sl ml a1))
    (hB0 : PrepOKA K Mb (cnvPrepareCol (2 * 2 ^ K) sr mr b0)) (hB1 : PrepOKA K Mb (cnvPrepareCol (2 * 2 ^ K) sr mr b1))
    (hdom : ∀ R, 1 ≤ R → R ≤ min sl sr → LaneDomainAvx K R τ' (2 * Ma) (2 * Mb)) :
    cnvPairwise avxOps K omg iomg rs off sl sr ml mr a0 a1 b0 b1 =
      .ok (cnvApplyCol (2 * 2 ^ K) rs off
        (colAdd (2 * 2 ^ K) (cnvPrepareCol (2 * 2 ^ K) sl ml a0) (cnvPrepareCol (2 * 2 ^ K) sl ml a1))
        (colAdd (2 * 2 ^ K) (cnvPrepareCol (2 * 2 ^ K) sr mr b0) (cnvPrepareCol (2 * 2 ^ K) sr mr b1))) := by
  have hacc' := tableAccurate_mono τ τ' hττ K omg iomg hacc
  have a1' := accF_of_flat τ _ K hacc.1 K 0 0 (by omega) (by norm_num)
  have a2' := accI_of_flat τ' _ K hacc'.2 K 0 0 (by omega) (by norm_num)
  rw [jval_zero] at a1' a2'
  have hd1 := hdom 1 le_rfl (by omega)
  have hτ1 : τ ≤ 1 := le_trans hττ hd1.τ1
  obtain ⟨ra, bigA⟩ := pair_side K τ τ' Ma hτ0 hMa hf hd1.ra
  obtain ⟨rb, bigB⟩ := pair_side K τ τ' Mb hτ0 hMb hf hd1.rb
  set X0 := cnvPrepareCol (2 * 2 ^ K) sl ml a0 with hX0
  set X1 := cnvPrepareCol (2 * 2 ^ K) sl ml a1 with hX1
  set Y0 := cnvPrepareCol (2 * 2 ^ K) sr mr b0 with hY0
  set Y1 := cnvPrepareCol (2 * 2 ^ K) sr mr b1 with hY1
  obtain ⟨p0, ep0, rp0⟩ := cnvPrepareAvx_rel K omg τ Ma sl ml a0 hτ0 hτ1 hMa a1' ra hrawA0 hA0
  obtain ⟨p1, ep1, rp1⟩ := cnvPrepareAvx_rel K omg τ Ma sl ml a1 hτ0 hτ1 hMa a1' ra hrawA1 hA1
  obtain ⟨q0, eq0, rq0⟩ := cnvPrepareAvx_rel K omg τ Mb sr mr b0 hτ0 hτ1 hMb a1' rb hrawB0 hB0
  obtain ⟨q1, eq1, rq1⟩ := cnvPrepareAvx_rel K omg τ Mb sr mr b1 hτ0 hτ1 hMb a1' rb hrawB1 hB1
  have lX0 := limbOr0_ok K Ma (by linarith) X0 (prepOK_of_A K Ma X0 hA0)
  have lX1 := limbOr0_ok K Ma (by linarith) X1 (prepOK_of_A K Ma X1 hA1)
  have lY0 := limbOr0_ok K Mb (by linarith) Y0 (prepOK_of_A K Mb Y0 hB0)
  have lY1 := limbOr0_ok K Mb (by linarith) Y1 (prepOK_of_A K Mb Y1 hB1)
  have hXl : X0.length = X1.length := by rw [hX0, hX1, cnvPrepareCol_length, cnvPrepareCol_length]
  have hYl : Y0.length = Y1.length := by rw [hY0, hY1, cnvPrepareCol_length, cnvPrepareCol_length]
  have rpa := prepAdd_rel K (by omega) τ τ' Ma hτ0 hMa hf bigA p0 p1 X0 X1 rp0 rp1 hXl lX0 lX1
  have rpb := prepAdd_rel K (by omega) τ τ' Mb hτ0 hMb hf bigB q0 q1 Y0 Y1 rq0 rq1 hYl lY0 lY1
  set A := colAdd (2 * 2 ^ K) X0 X1 with hAdef
  set B := colAdd (2 * 2 ^ K) Y0 Y1 with hBdef
  have hAlen : A.length = sl := by simp [hAdef, colAdd, hX0, hX1]
  have hBlen : B.length = sr := by simp [hBdef, colAdd, hY0, hY1]
  have h8 : ¬ (2 * 2 ^ K < 8) := by
    have : 2 ^ 2 ≤ 2 ^ K := Nat.pow_le_pow_right (by norm_num) hK2
    omega
  unfold cnvPairwise
  rw [ep0, ep1, eq0, eq1]; simp only
  unfold cnvApply
  rw [if_neg h8, if_neg (by rw [rpa.1, rpb.1, hAlen, hBlen]; omega)]
  unfold cnvApplyCol
  simp only [rpa.1, rpb.1]
  congr 1
  apply List.map_congr_left
  intro k _
  split
  · exact cnvLimbAvx_exact K iomg τ' (2 * Ma) (2 * Mb) _ _ A B _ a2' (colAdd_limb_len K X0 X1 lX0 lX1) (colAdd_limb_len K Y0 Y1 lY0 lY1)
      rpa rpb (by omega) (by omega) (by rw [hAlen, hBlen]; exact hdom)
  · rfl

end Fft64Cnv
