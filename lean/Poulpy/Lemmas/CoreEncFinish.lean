/-
Helper lemmas for C01: error placement, message addition, final normalisation and the exact
phase of a `body :: masks` ciphertext.
-/
import Poulpy.Lemmas.CoreEncSk

namespace CoreEnc
open NormL

/-- a limb list truncated / zero-extended to `size` limbs (what `vec_znx_add_assign` adds of a
plaintext of a different size) -/
def fitLimbs (size : Nat) (l : List Int) : List Int := l.take size ++ List.replicate (size - l.length) 0

/-- a column truncated / zero-extended to `size` limbs -/
def fitCol (n size : Nat) (c : Col) : Col := c.take size ++ List.replicate (size - c.length) (Poly.zero n)

theorem coefAt_fitCol (n size : Nat) (c : Col) (t : Nat) : coefAt (fitCol n size c) t = fitLimbs size (coefAt c t) := by
  have h0 : (List.replicate n (0 : Int))[t]?.getD 0 = 0 := by
    rw [List.getElem?_replicate]; split <;> rfl
  simp [coefAt, fitCol, fitLimbs, Poly.zero, List.map_take, h0]

theorem valI_mapIdx_add (b : Nat) (d : Int) : ∀ (l : List Int) (limb : Nat), limb < l.length →
    valI b (l.mapIdx (fun j x => if j = limb then x + d else x)) = valI b l + d * 2 ^ (b * (l.length - 1 - limb)) := by
  intro l
  induction l with
  | nil => intro limb h; simp at h
  | cons x rest ih =>
    intro limb h
    rw [List.mapIdx_cons]
    cases limb with
    | zero =>
      have hid : rest.mapIdx (fun i x => if i + 1 = 0 then x + d else x) = rest := by
        have : (fun (i : Nat) (x : Int) => if i + 1 = 0 then x + d else x) = fun _ x => x := by
          funext i x; simp
        rw [this]
        exact List.ext_getElem (by simp) (by intros; simp)
      simp only [hid, valI, if_true, List.length_cons, Nat.add_sub_cancel, Nat.sub_zero]
      ring
    | succ k =>
      have hk : k < rest.length := by simpa using h
      have hf : (fun (i : Nat) (x : Int) => if i + 1 = k + 1 then x + d else x) = fun i x => if i = k then x + d else x := by
        funext i x; simp
      have h0 : ¬ (0 = k + 1) := by omega
      simp only [hf, valI, List.length_mapIdx, ih k hk, List.length_cons, h0, if_false]
      have : rest.length + 1 - 1 - (k + 1) = rest.length - 1 - k := by omega
      rw [this]; ring

theorem coefAt_addNormal {n : Nat} (g : Int → Int → Int) (limb : Nat) (c : Col) (e : Poly) (hc : WF n c) (he : e.length = n)
    (t : Nat) (ht : t < n) :
    coefAt (c.mapIdx (fun j l => if j = limb then List.zipWith g l e else l)) t
      = (coefAt c t).mapIdx (fun j x => if j = limb then g x (e.getD t 0) else x) := by
  unfold coefAt
  apply List.ext_getElem
  · simp
  · intro j h1 h2
    simp only [List.length_map, List.length_mapIdx] at h1
    have hl : (c[j]).length = n := hc _ (List.getElem_mem h1)
    simp only [List.getElem_map, List.getElem_mapIdx]
    by_cases hj : j = limb
    · subst hj
      simp only [if_true, List.getD_eq_getElem?_getD]
      simp [List.getElem?_zipWith, List.getElem?_eq_getElem (show t < (c[j]).length by omega),
        List.getElem?_eq_getElem (show t < e.length by omega)]
    · simp [hj]

theorem mapIdx_length_WF {n : Nat} (g : Int → Int → Int) (limb : Nat) (c : Col) (e : Poly) (hc : WF n c) (he : e.length = n) :
    WF n (c.mapIdx (fun j l => if j = limb then List.zipWith g l e else l)) := by
  intro l hl
  obtain ⟨j, hj, rfl⟩ := List.getElem_of_mem hl
  simp only [List.length_mapIdx] at hj
  simp only [List.getElem_mapIdx]
  have := hc _ (List.getElem_mem hj)
  split <;> simp [this, he]

theorem mapIdx_wrap_eq {B E : Int} (hBE : B + E < 2 ^ 63) (l : List Int) (limb : Nat) (d : Int) (hl : ∀ x ∈ l, |x| ≤ B) (hd : |d| ≤ E) :
    l.mapIdx (fun j x => if j = limb then w64 (x + d) else x) = l.mapIdx (fun j x => if j = limb then x + d else x) := by
  apply List.ext_getElem
  · simp
  · intro j h1 h2
    simp only [List.length_mapIdx] at h1
    simp only [List.getElem_mapIdx]
    split
    · apply w64_id
      have := abs_add_le (l[j]) d
      have := hl _ (List.getElem_mem h1)
      linarith
    · rfl

theorem mapIdx_bound {B E : Int} (hE : 0 ≤ E) (l : List Int) (limb : Nat) (d : Int) (hl : ∀ x ∈ l, |x| ≤ B) (hd : |d| ≤ E) :
    ∀ v ∈ l.mapIdx (fun j x => if j = limb then x + d else x), |v| ≤ B + E := by
  intro v hv
  obtain ⟨j, hj, rfl⟩ := List.getElem_of_mem hv
  simp only [List.length_mapIdx] at hj
  simp only [List.getElem_mapIdx]
  have := hl _ (List.getElem_mem hj)
  split
  · have := abs_add_le (l[j]) d
    linarith
  · linarith

theorem valI_fitLimbs_add (b : Nat) (l m : List Int) :
    valI b (List.zipWith (· + ·) (l.take (min m.length l.length)) (m.take (min m.length l.length)) ++ l.drop (min m.length l.length))
      = valI b l + valI b (fitLimbs l.length m) := by
  have hsplit : valI b l = valI b (l.take (min m.length l.length) ++ l.drop (min m.length l.length)) := by
    rw [List.take_append_drop]
  rw [hsplit, valI_append, valI_append, valI_zipWith_add b _ _ (by simp)]
  unfold fitLimbs
  rw [valI_append, valI_replicate_zero]
  have htake : m.take (min m.length l.length) = m.take l.length := by
    rcases Nat.le_total m.length l.length with h | h
    · rw [Nat.min_eq_left h, List.take_of_length_le (le_refl _), List.take_of_length_le h]
    · rw [Nat.min_eq_right h]
  have hlen : (List.replicate (l.length - m.length) (0 : Int)).length = (l.drop (min m.length l.length)).length := by
    simp only [List.length_replicate, List.length_drop]; omega
  rw [htake, hlen]; ring

end CoreEnc
