/-
C08 lemmas: the radix dispatch of `vec_znx_normalize` / `vec_znx_big_normalize` (equal radices → the
same-radix kernels, different radices → `vec_znx_normalize_cross_base2k`), value theorems for every
pair of radices and every offset.  Used by Props/C08, Props/C01, Props/C02.
-/
import Poulpy.Lemmas.NormFused
import Poulpy.Lemmas.NormCross7
import Poulpy.Lemmas.NormCrossTerm

namespace NormL

/-- the NTT120 same-radix path is the `i128` same-radix normalisation (the truncation to `i64` is a no-op) -/
theorem bigNormalizeCoef128_same {b : Nat} {H : Int} (hr : HeadRoom 128 b 0 H) (hb : b ≤ 63)
    (rs : Nat) (off : Int) (a : List Int) (ha : ∀ x ∈ a, |x| ≤ H) :
    bigNormalizeCoef128 b rs off b a = some (normalizeInterCoef 128 b rs off a) := by
  have h := normalizeInterCoef_value hr rs off a ha
  unfold bigNormalizeCoef128
  simp only [if_true]
  congr 1
  have hw : ∀ d ∈ normalizeInterCoef 128 b rs off a, w64 d = id d := by
    intro d hd
    have hbal := (h.2.1 d hd)
    have h1 : (2 : Int) ^ (b - 1) ≤ 2 ^ 62 := two_pow_le (by omega)
    unfold w64
    rw [Int.emod_eq_of_lt (by have := hbal.1; linarith) (by have := hbal.2; linarith)]; simp
  rw [List.map_congr_left hw, List.map_id]

/-- same radix, in the shape of the cross-radix statement -/
theorem normalizeInterCoef_value' {bits b rs : Nat} {H : Int} {a : List Int} (c : CrossCtx bits b b rs 0 H a) (off : Int) :
    (normalizeInterCoef bits b rs off a).length = rs ∧ (∀ d ∈ normalizeInterCoef bits b rs off a, |d| ≤ 2 ^ b - 1) ∧
    TorusNear (valI b (normalizeInterCoef bits b rs off a)) (b * rs) (valI b a * 2 ^ off.toNat) (b * a.length + (-off).toNat) ∧
    (((b * a.length : Nat) : Int) - off ≤ ((b * rs : Nat) : Int) →
      TorusEq (valI b (normalizeInterCoef bits b rs off a)) (b * rs) (valI b a * 2 ^ off.toNat) (b * a.length + (-off).toNat)) := by
  have hv := normalizeInterCoef_value c.headRoomH rs off a c.ha
  have hb1 : 1 ≤ b := c.hrb1
  refine ⟨hv.1, ?_, hv.2.2.1, hv.2.2.2⟩
  · intro d hd
    have := (hv.2.1 d hd).abs_le
    have h2 := half_le_full hb1
    have h3 : (1 : Int) ≤ 2 ^ (b - 1) := by
      have := two_pow_le (Nat.zero_le (b - 1)); simpa using this
    linarith

/-- **`vec_znx_normalize` / FFT64 `vec_znx_big_normalize`, any radix pair, every offset** -/
theorem normalizeCoef_value {ab rb rs : Nat} {H : Int} {a : List Int}
    (c : CrossCtx 64 ab rb rs 0 H a) (off : Int) {out : List Int} (h : normalizeCoef rb rs off ab a = some out) :
    out.length = rs ∧ (∀ d ∈ out, |d| ≤ 2 ^ rb - 1) ∧
    TorusNear (valI rb out) (rb * rs) (valI ab a * 2 ^ off.toNat) (ab * a.length + (-off).toNat) ∧
    (((ab * a.length : Nat) : Int) - off ≤ ((rb * rs : Nat) : Int) →
      TorusEq (valI rb out) (rb * rs) (valI ab a * 2 ^ off.toNat) (ab * a.length + (-off).toNat)) := by
  unfold normalizeCoef at h
  by_cases hr : rb = ab
  · subst hr
    simp only [if_true, Option.some.injEq] at h
    subst h
    exact normalizeInterCoef_value' c off
  · rw [if_neg hr] at h
    exact normalizeCrossCoef_value c off h

/-- **NTT120 `vec_znx_big_normalize`, any radix pair, every offset** -/
theorem bigNormalizeCoef128_value {ab rb rs : Nat} {H : Int} {a : List Int}
    (c : CrossCtx 128 ab rb rs 0 H a) (off : Int) {out : List Int} (h : bigNormalizeCoef128 rb rs off ab a = some out) :
    out.length = rs ∧ (∀ d ∈ out, |d| ≤ 2 ^ rb - 1) ∧
    TorusNear (valI rb out) (rb * rs) (valI ab a * 2 ^ off.toNat) (ab * a.length + (-off).toNat) ∧
    (((ab * a.length : Nat) : Int) - off ≤ ((rb * rs : Nat) : Int) →
      TorusEq (valI rb out) (rb * rs) (valI ab a * 2 ^ off.toNat) (ab * a.length + (-off).toNat)) := by
  by_cases hr : rb = ab
  · subst hr
    have hb63 : rb ≤ 63 := by have := c.hrb; omega
    rw [bigNormalizeCoef128_same c.headRoomH hb63 rs off a c.ha] at h
    simp only [Option.some.injEq] at h
    subst h
    exact normalizeInterCoef_value' c off
  · unfold bigNormalizeCoef128 at h
    rw [if_neg hr] at h
    exact normalizeCrossCoef_value c off h

/-- the dispatch always returns (radices ≥ 1) -/
theorem normalizeCoef_exists (rb rs : Nat) (off : Int) (ab : Nat) (a : List Int) (hab1 : 1 ≤ ab) (hrb1 : 1 ≤ rb) :
    ∃ out, normalizeCoef rb rs off ab a = some out := by
  unfold normalizeCoef
  by_cases hr : rb = ab
  · rw [if_pos hr]; exact ⟨_, rfl⟩
  · rw [if_neg hr]; exact normalizeCrossCoef_exists 64 rb rs off ab a hab1 hrb1

theorem bigNormalizeCoef128_exists (rb rs : Nat) (off : Int) (ab : Nat) (a : List Int) (hab1 : 1 ≤ ab) (hrb1 : 1 ≤ rb) :
    ∃ out, bigNormalizeCoef128 rb rs off ab a = some out := by
  unfold bigNormalizeCoef128
  by_cases hr : rb = ab
  · rw [if_pos hr]; exact ⟨_, rfl⟩
  · rw [if_neg hr]; exact normalizeCrossCoef_exists 128 rb rs off ab a hab1 hrb1

theorem mapM_option_exists {α β : Type} (l : List α) (f : α → Option β) (h : ∀ x ∈ l, ∃ y, f x = some y) :
    ∃ ys, l.mapM f = some ys := by
  induction l with
  | nil => exact ⟨[], rfl⟩
  | cons x xs ih =>
    obtain ⟨y, hy⟩ := h x (by simp)
    obtain ⟨ys, hys⟩ := ih (fun z hz => h z (by simp [hz]))
    exact ⟨y :: ys, by simp [List.mapM_cons, hy, hys]⟩

theorem mapCoefs?_exists (n size : Nat) (f : Nat → Option (List Int)) (h : ∀ i, i < n → ∃ o, f i = some o) :
    ∃ out, mapCoefs? n size f = some out := by
  obtain ⟨ys, hys⟩ := mapM_option_exists (List.range n) f (fun i hi => h i (List.mem_range.mp hi))
  exact ⟨_, by unfold mapCoefs?; rw [hys]; rfl⟩

/-- **`vec_znx_normalize` / `vec_znx_big_normalize` on a column always return** (radices ≥ 1) -/
theorem normalizeCol?_exists (rb rs : Nat) (off : Int) (a : Col) (ab n : Nat) (hab1 : 1 ≤ ab) (hrb1 : 1 ≤ rb) :
    ∃ out, normalizeCol? rb rs off a ab n = some out :=
  mapCoefs?_exists n rs _ (fun i _ => normalizeCoef_exists rb rs off ab _ hab1 hrb1)

theorem bigNormalizeCol128?_exists (rb rs : Nat) (off : Int) (a : Col) (ab n : Nat) (hab1 : 1 ≤ ab) (hrb1 : 1 ≤ rb) :
    ∃ out, bigNormalizeCol128? rb rs off a ab n = some out :=
  mapCoefs?_exists n rs _ (fun i _ => bigNormalizeCoef128_exists rb rs off ab _ hab1 hrb1)

end NormL
