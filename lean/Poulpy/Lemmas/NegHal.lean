import Poulpy.Model.HalSpec
import Poulpy.Lemmas.NegRing
import Poulpy.Lemmas.EpPhase

/-!
`Hal.negMul` (HAL specification model) and the root `negMul` (ring model, `Model/Ring.lean`) are the
same function; the ring laws proved by transfer from `AdjoinRoot (X^N+1)` in `Lemmas/NegRing.lean`
therefore hold for `Hal.negMul`.  Used by the tensor-phase theorem of C05.
-/

namespace Hal

theorem mulX_eq (l : Poly) : Hal.mulX l = _root_.mulX l := rfl

theorem negMul_eq (a b : Poly) : Hal.negMul a b = _root_.negMul a b := by
  induction a with
  | nil => rfl
  | cons a0 as ih =>
    show polyAdd (polyScale a0 b) (Hal.mulX (Hal.negMul as b)) = addL (smulL a0 b) (_root_.mulX (_root_.negMul as b))
    rw [ih]
    rfl

/-- associativity of the exact negacyclic product on lists of length `N` -/
theorem negMul_assoc (N : Nat) (a b c : Poly) (hb : b.length = N) (hc : c.length = N) (hN : 0 < N) :
    Hal.negMul (Hal.negMul a b) c = Hal.negMul a (Hal.negMul b c) := by
  simp only [negMul_eq]
  exact _root_.negMul_assoc N a b c hb hc hN

/-- commutativity -/
theorem negMul_comm (N : Nat) (a b : Poly) (ha : a.length = N) (hb : b.length = N) (hN : 0 < N) :
    Hal.negMul a b = Hal.negMul b a := by
  simp only [negMul_eq]
  exact _root_.negMul_comm N a b ha hb hN

/-- left-linearity over the sums the HAL model uses -/
theorem negMul_sumR_left (n : Nat) (x : Poly) (f : Nat → Poly) (k : Nat) (hx : x.length = n)
    (hf : ∀ i, i < k → (f i).length = n) :
    Hal.negMul (sumR n f k) x = sumR n (fun i => Hal.negMul (f i) x) k := by
  induction k with
  | zero => simp [sumR_zero, negMul_zeroP_left, hx]
  | succ k ih =>
    rw [sumR_succ, sumR_succ, negMul_add_left _ _ _ (by
      rw [sumR_length n f k (fun i hi => hf i (by omega)), hf k (by omega)]), ih (fun i hi => hf i (by omega))]

end Hal
