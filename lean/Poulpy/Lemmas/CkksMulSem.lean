import Poulpy.Lemmas.CkksMask
import Poulpy.Lemmas.CkksMulPt
import Poulpy.Lemmas.CkksCnv
import Poulpy.Lemmas.CkksAccBound
import Poulpy.Lemmas.CkksPt
/-!
# C16: the product contracts, discharged

* `ProdContractZ` — the product contract with the bit slack `z` of a negative `cnv_offset_lo` (`cnv_offset < base2k`: the
  normalisation shifts *left* by `z` bits); `ProdContract` is `z = 0`; `prod_near_z` is `prod_near` for it.
* `mulPt_contract` — `Core.mulPlain` on the data the CKKS layer passes **satisfies** the contract, with `U = 1 + Σ‖sᵢ‖₁`, for the
  masked operand (`Mask.masked`), from `MulPt.mulPlain_coeff` (C05 `mul_plain_phase_value` + C08 total normalisation theorems)
  under the numeric accumulator head-room `sb·N·4^b + 8 ≤ 2^(bits−2)`.
* `dMulPtInto_sem` — **`ckks_mul_pt_vec_znx_into`, no contract**.
-/

namespace Ckks
open Hal Core Core.Ops C02L Ckks.Sem Ckks.CoreSem KsDec

/-- product contract with bit slack `z` -/
structure ProdContractZ (s : List Poly) (N : Nat) (g' a : GLWE) (Y : Poly) (Py cnv z : Nat) (U : ℚ) : Prop where
  rel : ∀ t, t < N → ∃ q e : Int,
    2 ^ (a.base2k * a.size + Py + z) * valCoeff g'.base2k (phase s g') t
      = 2 ^ (cnv + z) * 2 ^ (g'.base2k * g'.size) * (Hal.negMul (phaseP s N a) Y).getD t 0 + e
        + q * 2 ^ (g'.base2k * g'.size + (a.base2k * a.size + Py + z)) ∧
    |(e : ℚ)| ≤ U * 2 ^ (a.base2k * a.size + Py + z)

theorem ProdContract.toZ {s : List Poly} {N : Nat} {g' a : GLWE} {Y : Poly} {Py cnv : Nat} {U : ℚ}
    (h : ProdContract s N g' a Y Py cnv U) : ProdContractZ s N g' a Y Py cnv 0 U :=
  ⟨fun t ht => by simpa using h.rel t ht⟩

theorem prod_near_z {s : List Poly} {N : Nat} {g' a : GLWE} {Y : Poly} {Py cnv z : Nat} {U : ℚ}
    (h : ProdContractZ s N g' a Y Py cnv z U) (β' βa βy : Nat) (hk : cnv + β' = βa + βy) (t : Nat) (ht : t < N) :
    Near (decG s g' β' t) ((qNegMul (decPG s N a βa) (qScale (2 ^ βy / 2 ^ Py) (castP Y))).getD t 0) (2 ^ β')
      (U * ulpG g' β') := by
  obtain ⟨q, e, hrel, he⟩ := h.rel t ht
  have := dec_of_lsh _ _ e q (g'.base2k * g'.size) (a.base2k * a.size + Py + z) (cnv + z) β' (βa + βy + z) 0 U hrel he (by omega)
  rw [decPG_eq, qNegMul_scale_left, qNegMul_scale_right, qScale_scale, ← castP_negMul, qScale_getD, castP_getD]
  simp only [decG, ulpG]
  rw [show U * (2 ^ β' / 2 ^ (g'.base2k * g'.size)) = U * 2 ^ β' / 2 ^ (g'.base2k * g'.size) by ring]
  have hmid : 2 ^ βa / 2 ^ (a.base2k * a.size) * (2 ^ βy / 2 ^ Py) * (((Hal.negMul (phaseP s N a) Y).getD t 0 : Int) : ℚ)
      = dec ((Hal.negMul (phaseP s N a) Y).getD t 0) (a.base2k * a.size + Py + z) (βa + βy + z) * 2 ^ 0 := by
    simp only [dec, tor, pow_zero, mul_one]
    rw [pow_add, pow_add, pow_add, pow_add]
    field_simp
  rw [hmid]
  exact this

theorem phase_cols_eq (s : List Poly) {g1 g2 : GLWE} (h : g1.cols = g2.cols) : phase s g1 = phase s g2 := by
  unfold phase phaseBig GLWE.rank
  rw [h]

/-- a fully used bottom limb (`K = b·L`): the mask is `!0`, the prepared column has the value of the column -/
theorem prep_full_val (N L b : Nat) (hb : b ≤ 63) (hb1 : 1 ≤ b) (c : Col) (hc : c.length = L) (hL : 1 ≤ L) (hl : LimbsN N c)
    (hr : ∀ l ∈ c, ∀ x ∈ l, -(2 ^ 63) ≤ x ∧ x < 2 ^ 63) :
    valP b N (Hal.cnvPrepareCol N L (msbMaskBottomLimb b (b * L)) c) = valP b N c := by
  unfold valP
  apply List.map_congr_left
  intro t ht
  have ht' : t < N := List.mem_range.mp ht
  have hlt : b * (L - 1) < b * L := Nat.mul_lt_mul_of_pos_left (by omega) (by omega)
  obtain ⟨h1, h2⟩ := Mask.prep_val_snoc N L b (b * L) hb c hc hL hl hlt (Nat.le_refl _) hr t ht'
  rw [h1, h2]
  simp

/-- **`Core.mulPlain` on the CKKS operands satisfies the product contract** (masked operand, `U = 1 + Σ‖sᵢ‖₁`) -/
theorem mulPt_contract {N b r K : Nat} (hN : 0 < N) (big : Bool) (rs cnv : Nat) {g : GLWE} (ha : Mask.MaskAdm N b r K g)
    (pg : Col) (sb : Nat) (hpg : ColWF N sb pg) (hsb : 1 ≤ sb) (hpd : ∀ l ∈ pg, ∀ x ∈ l, |x| ≤ 2 ^ b)
    (hhi : (cnvOffsetSplit b cnv).1 ≤ divCeil K b + sb - 1)
    (hroom : (sb : Int) * (N * 2 ^ b * 2 ^ b) + 8 ≤ 2 ^ (bitsOf big - 2)) :
    ∃ res, mulPlain big N b rs cnv b (effCols b K g) K pg (b * sb) = some res ∧ res.length = r + 1 ∧
      (∀ c ∈ res, ColWF N rs c) ∧ (∀ c ∈ res, ∀ l ∈ c, ∀ x ∈ l, |x| ≤ 2 ^ (b - 1)) ∧
      ∀ s : List Poly, ProdContractZ s N (Ks.mkCt b N res) (Mask.masked N b K g) (valP b N pg) (b * sb) cnv
        (-(cnvOffsetSplit b cnv).2).toNat (sn r s) := by
  have hb0 : 0 < b := ha.hb1
  set L := divCeil K b with hLd
  have hL1 : 1 ≤ L := Ckks.divCeil_pos K b hb0 ha.hK
  have hK2 : K ≤ b * L := by rw [Nat.mul_comm]; exact Ckks.le_divCeil_mul K b hb0
  have hK1 : b * (L - 1) < K := by
    have := Ckks.divCeil_mul_lt K b hb0
    rw [← hLd] at this
    have e : L * b = b * (L - 1) + b := by
      have : L = (L - 1) + 1 := by omega
      conv_lhs => rw [this, Nat.add_mul, Nat.one_mul, Nat.mul_comm]
    omega
  obtain ⟨hgn, hne, hcols⟩ := ha.gb.wf
  -- the operand columns
  obtain ⟨c0, cs, hg⟩ : ∃ c0 cs, g.cols = c0 :: cs := by
    cases h : g.cols with
    | nil => exact absurd h hne
    | cons c0 cs => exact ⟨c0, cs, rfl⟩
  have hcsl : cs.length = r := by
    have := ha.gb.rk
    unfold GLWE.rank at this
    rw [hg] at this; simpa using this
  have heff : effCols b K g = c0.take L :: cs.map (fun c => c.take L) := by simp [effCols, hg, hLd]
  have hlen : ∀ c ∈ g.cols, (c.take L).length = L := by
    intro c hc; rw [List.length_take, (hcols c hc).1]; exact Nat.min_eq_left ha.hL
  have hlim : ∀ c ∈ g.cols, ∀ l ∈ c.take L, l.length = N := fun c hc l hl => (hcols c hc).2 l (List.mem_of_mem_take hl)
  have hdig : ∀ c ∈ g.cols, ∀ l ∈ c.take L, ∀ x ∈ l, |x| ≤ 2 ^ b := by
    intro c hc l hl x hx
    have := ha.gb.nb c hc l (List.mem_of_mem_take hl) x hx
    linarith
  have hpgl : pg.length = sb := hpg.1
  have hpow : (2 : Int) ^ b < 2 ^ 63 := by
    have : (2 : Int) ^ b ≤ 2 ^ 62 := pow_le_pow_right₀ (by norm_num) ha.hb
    norm_num at this ⊢; omega
  have hPMd : ∀ l ∈ Hal.cnvPrepareCol N pg.length (msbMaskBottomLimb b (b * sb)) pg, ∀ x ∈ l, |x| ≤ 2 ^ b := by
    rw [hpgl]
    exact Mask.prep_digits N sb b (b * sb) ha.hb pg hpgl hsb hpg.2
      (Nat.mul_lt_mul_of_pos_left (by omega) hb0) (Nat.le_refl _) hpd
  have hPMv : valP b N (Hal.cnvPrepareCol N pg.length (msbMaskBottomLimb b (b * sb)) pg) = valP b N pg := by
    rw [hpgl]
    exact prep_full_val N sb b (by have := ha.hb; omega) ha.hb1 pg hpgl hsb hpg.2 (fun l hl x hx => by
      have := abs_le.mp (hpd l hl x hx)
      constructor <;> linarith [this.1, this.2])
  have hmem0 : c0 ∈ g.cols := by rw [hg]; simp
  have hmems : ∀ c ∈ cs, c ∈ g.cols := fun c hc => by rw [hg]; simp [hc]
  have hacc : ∀ c ∈ (prepAll N (msbMaskBottomLimb b K) (c0.take L :: cs.map (fun c => c.take L))).map (fun x =>
        Hal.cnvApplyCol N (L + pg.length - (cnvOffsetSplit b cnv).1) (cnvOffsetSplit b cnv).1 x
          (Hal.cnvPrepareCol N pg.length (msbMaskBottomLimb b (b * sb)) pg)), ∀ l ∈ c, ∀ x ∈ l,
        |x| ≤ (sb : Int) * (N * 2 ^ b * 2 ^ b) := by
    intro c hc
    obtain ⟨x, hx, rfl⟩ := List.mem_map.mp hc
    have hxx : ∃ c1 ∈ g.cols, x = Hal.cnvPrepareCol N L (msbMaskBottomLimb b K) (c1.take L) := by
      simp only [prepAll, List.map_cons, List.map_map, List.mem_cons, List.mem_map, Function.comp] at hx
      rcases hx with rfl | ⟨c1, hc1, rfl⟩
      · exact ⟨c0, hmem0, by rw [hlen c0 hmem0]⟩
      · exact ⟨c1, hmems c1 hc1, by rw [hlen c1 (hmems c1 hc1)]⟩
    obtain ⟨c1, hc1, rfl⟩ := hxx
    have hb' := AccBound.cnvApplyCol_bound N (L + pg.length - (cnvOffsetSplit b cnv).1) (cnvOffsetSplit b cnv).1
      (Hal.cnvPrepareCol N L (msbMaskBottomLimb b K) (c1.take L))
      (Hal.cnvPrepareCol N pg.length (msbMaskBottomLimb b (b * sb)) pg) (2 ^ b) (2 ^ b) (by positivity) (by positivity)
      (Mask.prep_digits N L b K ha.hb _ (hlen c1 hc1) hL1 (hlim c1 hc1) hK1 hK2 (hdig c1 hc1)) hPMd
      (cnvPrepareCol_limbs N _ _ _ (hlim c1 hc1))
    simpa [hpgl] using hb'
  obtain ⟨res, hok, hrl, hwf, _, hrel⟩ := MulPt.mulPlain_coeff N hN big b rs cnv ha.hb1 ha.hb (c0.take L) (cs.map (fun c => c.take L)) K pg
    (b * sb) L (hlen c0 hmem0)
    (by intro x hx; obtain ⟨c, hc, rfl⟩ := List.mem_map.mp hx; exact hlen c (hmems c hc))
    (hlim c0 hmem0)
    (by intro x hx; obtain ⟨c, hc, rfl⟩ := List.mem_map.mp hx; exact hlim c (hmems c hc))
    hpg.2 hL1 (by rw [hpgl]; exact hsb) (by rw [hpgl]; exact hhi)
    ((sb : Int) * (N * 2 ^ b * 2 ^ b)) (by positivity) hroom hacc
  have hrd : ∀ c ∈ res, ∀ l ∈ c, ∀ x ∈ l, |x| ≤ 2 ^ (b - 1) := by
    have hok' := hok
    unfold mulPlain at hok'
    simp only [List.getD_cons_zero, hlen c0 hmem0] at hok'
    exact Cnv.cnvList_balanced N big b rs _ _ _ ha.hb1 ha.hb _ _ _ (by positivity) hroom hacc res hok'
  refine ⟨res, by rw [heff]; exact hok, by rw [hrl]; simp [hcsl], hwf, hrd, fun s => ⟨fun t ht => ?_⟩⟩
  obtain ⟨q, e, he, hbd⟩ := hrel s t ht
  have hsz' : (Ks.mkCt b N res).size = rs := by
    unfold GLWE.size Ks.mkCt
    cases hres : res with
    | nil => rw [hres] at hrl; simp at hrl
    | cons r0 rr => simpa using (hwf r0 (by rw [hres]; simp)).1
  obtain ⟨_, hmsz, _, hmbk⟩ := Mask.masked_wf ha
  have hmm : Mask.masked N b K g = Ks.mkCt b N (prepAll N (msbMaskBottomLimb b K) (c0.take L :: cs.map (fun c => c.take L))) := by
    unfold Mask.masked; rw [heff]
  have hPP : phaseP s N (Mask.masked N b K g)
      = valP b N (phase s (Ks.mkCt b N (prepAll N (msbMaskBottomLimb b K) (c0.take L :: cs.map (fun c => c.take L))))) := by
    unfold phaseP valP; rw [hmbk, hmm]
  refine ⟨q, e, ?_, ?_⟩
  · rw [hPP, hmbk, hmsz, hsz']
    show 2 ^ (b * L + b * sb + _) * valCoeff b _ t = _
    rw [hPMv, hpgl] at he
    rw [← Nat.mul_add]
    exact he
  · rw [hmbk, hmsz, ← Nat.mul_add]
    rw [hpgl, List.length_map, hcsl] at hbd
    unfold sn
    exact_mod_cast hbd

/-- the plaintext message of a ZNX plaintext: coefficient `t` is `Y_t / 2^log_delta`, `Y_t` the integer its limbs hold -/
def ptMsg (env : Env) (N : Nat) (pt : Pt) (pg : Col) : List ℚ := qScale (1 / 2 ^ pt.md.logDelta) (castP (valP env.base2k N pg))

theorem mulPtZnx_ok {env : Env} {dst a : Ct} {pt : Pt} {m : Ct} (h : mulPtZnxInto env dst a pt = .ok m) :
    env.base2k = pt.base2k ∧ ∃ q, mulPtParams env dst a pt.md pt.maxK = .ok q ∧ plainCheck env a pt q.cnv = none ∧
      m = { dst with md := ⟨q.delta, q.budget⟩ } := by
  unfold mulPtZnxInto at h
  split at h
  · cases h
  · next hb =>
    push Not at hb
    refine ⟨hb, ?_⟩
    split at h
    · cases h
    · next q hq =>
      refine ⟨q, hq, ?_⟩
      unfold finishMul at h
      split at h
      · cases h
      · next hc => injection h with h; exact ⟨hc, h.symm⟩

/-- **`ckks_mul_pt_vec_znx_into`, no contract** (piece 3 + 4 composed): the data the model computes — `Core.mulPlain` on the
first `⌈effective_k/b⌉` limbs of `a` and the plaintext limbs, C05's executable model tied limb for limb — decodes to the
negacyclic product of the decoded **masked** operand by the plaintext message, modulo `2^log_budget`, within
`(1 + Σ‖sᵢ‖₁)` units of the result's last limb.  Hypotheses beyond well-formedness: the covered offset regime `hhi`
(`cnv_offset_hi ≤ sa + sb − 1`: at least one accumulator limb) and the numeric accumulator head-room `hroom`. -/
theorem dMulPtInto_sem {env : Env} {N r : Nat} (hN : 0 < N) {big : Bool} {dst a : DCt} {pt : Pt} {pg : Col} {Hd : Int}
    (hd : GB N env.base2k r Hd dst.g) (ha : Mask.MaskAdm N env.base2k r a.md.effK a.g) (hp : PtOK env N pt pg) {m : Ct}
    (hm : withPt env pt dst.ct (mulPtZnxInto env dst.ct a.ct pt) = .ok m)
    (hhi : ∀ q, mulPtParams env dst.ct a.ct pt.md pt.maxK = .ok q →
      (cnvOffsetSplit env.base2k q.cnv).1 ≤ divCeil a.md.effK env.base2k + pt.size - 1)
    (hroom : (pt.size : Int) * (N * 2 ^ env.base2k * 2 ^ env.base2k) + 8 ≤ 2 ^ (bitsOf big - 2)) :
    ∃ c', dMulPtInto env N big dst a pt pg = .ok c' ∧ c'.ct = m ∧ DOK env N r c' ∧
      ∀ s t, t < N → Near (decC s c' t)
        ((qNegMul (decPG s N (Mask.masked N env.base2k a.md.effK a.g) a.md.logBudget) (ptMsg env N pt pg)).getD t 0)
        (wrap c') (sn r s * ulp c') := by
  obtain ⟨hbld, hal⟩ := withPt_ok2 hm
  obtain ⟨hbk, q, hq, hchk, hmq⟩ := mulPtZnx_ok hal
  have hb0 : 0 < env.base2k := ha.hb1
  have heff : pt.md.effK ≠ 0 := by
    unfold ptBuild at hbld
    split at hbld
    · cases hbld
    · split at hbld
      · cases hbld
      · assumption
  have hsz1 : 1 ≤ pt.size := by
    unfold Pt.size; rw [← hbk]; exact Ckks.divCeil_pos _ _ hb0 (by omega)
  have hmaxK : pt.maxK = env.base2k * pt.size := by unfold Pt.maxK; rw [← hbk, Nat.mul_comm]
  have htake : pg.take (divCeil pt.maxK env.base2k) = pg := by
    have : divCeil pt.maxK env.base2k = pt.size := by
      unfold Pt.maxK; rw [← hbk]; exact Ckks.divCeil_mul_self _ _ hb0
    rw [this, List.take_of_length_le (by rw [hp.wf.1])]
  obtain ⟨res, hok, hrl, hwf, hrd, hc⟩ := mulPt_contract hN big dst.g.size q.cnv ha pg pt.size hp.wf hsz1
    (fun l hl x hx => hp.nb l hl x hx) (hhi q hq) hroom
  have hne : res ≠ [] := by intro e; rw [e] at hrl; simp at hrl
  have hsz' : ({ dst.g with cols := res } : GLWE).size = dst.g.size := by
    show (res.getD 0 []).length = dst.g.size
    cases hres : res with
    | nil => exact absurd hres hne
    | cons r0 rr => simpa using (hwf r0 (by rw [hres]; simp)).1
  refine ⟨⟨{ dst.g with cols := res }, m.md⟩, ?_, ?_, ?_, fun s t ht => ?_⟩
  · simp only [dMulPtInto, withMeta_ok _ _ _ hm, hq, htake]
    rw [hmaxK, hok]
    rfl
  · rw [hmq]; simp only [DCt.ct, hsz']
  · refine ⟨⟨hd.wf.1, hne, fun c hc' => by rw [hsz']; exact hwf c hc'⟩, hd.bk, ?_, hrd⟩
    show res.length - 1 = r
    rw [hrl]; rfl
  · have hk := mulPt_scale hq
    have hfit : pt.md.logDelta ≤ pt.maxK := by
      have := Ckks.le_divCeil_mul pt.md.effK env.base2k hb0
      have h2 : pt.maxK = divCeil pt.md.effK env.base2k * env.base2k := by unfold Pt.maxK Pt.size; rw [← hbk]
      have h3 : pt.md.effK = pt.md.logDelta + pt.md.logBudget := rfl
      omega
    have hmd : m.md = ⟨q.delta, q.budget⟩ := by rw [hmq]
    have hcz : ProdContractZ s N ({ dst.g with cols := res } : GLWE) (Mask.masked N env.base2k a.md.effK a.g)
        (valP env.base2k N pg) pt.maxK q.cnv (-(cnvOffsetSplit env.base2k q.cnv).2).toNat (sn r s) := by
      have h0 := hc s
      rw [hmaxK]
      refine ⟨fun t ht => ?_⟩
      obtain ⟨q', e, h1, h2⟩ := h0.rel t ht
      refine ⟨q', e, ?_, h2⟩
      have hph : phase s ({ dst.g with cols := res } : GLWE) = phase s (Ks.mkCt env.base2k N res) := phase_cols_eq s rfl
      have hs2 : (Ks.mkCt env.base2k N res).size = ({ dst.g with cols := res } : GLWE).size := rfl
      rw [hph]
      show _ * valCoeff dst.g.base2k _ t = _ * 2 ^ (dst.g.base2k * _) * _ + _ + _ * 2 ^ (dst.g.base2k * _ + _)
      rw [hd.bk, ← hs2]
      exact h1
    have := prod_near_z hcz m.md.logBudget a.md.logBudget (pt.maxK - pt.md.logDelta)
      (by rw [hmd]; simp only [DCt.ct] at hk ⊢; omega) t ht
    have e : (2 : ℚ) ^ (pt.maxK - pt.md.logDelta) / 2 ^ pt.maxK = 1 / 2 ^ pt.md.logDelta := by
      obtain ⟨j, hj⟩ : ∃ j, pt.maxK = pt.md.logDelta + j := ⟨pt.maxK - pt.md.logDelta, by omega⟩
      rw [hj, Nat.add_sub_cancel_left, pow_add]
      field_simp
    rw [e] at this
    exact this

theorem mulPt_budget {env : Env} {dst a : Ct} {p : Meta} {cnvBase : Nat} {q : MulP} (h : mulPtParams env dst a p cnvBase = .ok q) :
    q.budget + p.logDelta ≤ a.md.logBudget := by
  simp only [mulPtParams] at h
  grind

theorem ptMsg_length (env : Env) (N : Nat) (pt : Pt) (pg : Col) : (ptMsg env N pt pg).length = N := by
  simp [ptMsg, qScale, castP]

theorem ptMsg_grid (env : Env) (N : Nat) (pt : Pt) (pg : Col) (t : Nat) :
    ∃ n : ℤ, (ptMsg env N pt pg).getD t 0 * 2 ^ pt.md.logDelta = n := by
  refine ⟨(valP env.base2k N pg).getD t 0, ?_⟩
  rw [ptMsg, qScale_getD, castP_getD]
  field_simp

/-- **`ckks_mul_pt_vec_znx_into` composed with the tracking of the operand, no contract**: if `a` tracks the plaintext polynomial
`Ma` (modulo its budget, within `Ea`), the result tracks `Ma ⋆ pt` modulo its budget within the product's own rounding
`(1 + Σ‖sᵢ‖₁)·ulp` plus `N·(Ea + (1 + Σ‖sᵢ‖₁)·2^-log_delta)·‖pt‖∞` -/
theorem dMulPtInto_tracks {env : Env} {N r : Nat} (hN : 0 < N) {big : Bool} {dst a : DCt} {pt : Pt} {pg : Col} {Hd : Int}
    (hd : GB N env.base2k r Hd dst.g) (ha : Mask.MaskAdm N env.base2k r a.md.effK a.g) (hp : PtOK env N pt pg) {m : Ct}
    (hm : withPt env pt dst.ct (mulPtZnxInto env dst.ct a.ct pt) = .ok m)
    (hhi : ∀ q, mulPtParams env dst.ct a.ct pt.md pt.maxK = .ok q →
      (cnvOffsetSplit env.base2k q.cnv).1 ≤ divCeil a.md.effK env.base2k + pt.size - 1)
    (hroom : (pt.size : Int) * (N * 2 ^ env.base2k * 2 ^ env.base2k) + 8 ≤ 2 ^ (bitsOf big - 2))
    {s : List Poly} {Ma : List ℚ} {Ea Ba Bp : ℚ} (hMa : Ma.length = N)
    (ta : ∀ t, t < N → Near (decC s a t) (Ma.getD t 0) (wrap a) Ea)
    (sA : SupLe Ma Ba) (sP : SupLe (ptMsg env N pt pg) Bp) (hBa : 0 ≤ Ba) (hBp : 0 ≤ Bp) (hEa : 0 ≤ Ea) :
    ∃ c', dMulPtInto env N big dst a pt pg = .ok c' ∧ c'.ct = m ∧ DOK env N r c' ∧
      ∀ t, t < N → Near (decC s c' t) ((qNegMul Ma (ptMsg env N pt pg)).getD t 0) (wrap c')
        (sn r s * ulp c' + N * ((Ea + sn r s / 2 ^ a.md.logDelta) * Bp)) := by
  obtain ⟨c', hok, hcm, hgb, hv⟩ := dMulPtInto_sem hN hd ha hp hm hhi hroom
  refine ⟨c', hok, hcm, hgb, fun t ht => ?_⟩
  obtain ⟨_, hal⟩ := withPt_ok2 hm
  obtain ⟨_, q, hq, _, hmq⟩ := mulPtZnx_ok hal
  have hβ : c'.md.logBudget = q.budget := by
    have : c'.ct.md = m.md := by rw [hcm]
    simp only [DCt.ct] at this
    rw [this, hmq]
  have hbud := mulPt_budget hq
  have hmk := Mask.maskedOf_prep ha s
  have hsn : 0 ≤ sn r s / 2 ^ a.md.logDelta := div_nonneg (by have := sn_pos r s; linarith) (by positivity)
  have lenA : (decPG s N (Mask.masked N env.base2k a.md.effK a.g) a.md.logBudget).length = N := by simp [decPG]
  have hcomp := mul_comp (βa := a.md.logBudget) (βb := c'.md.logBudget + a.md.logDelta) (δa := a.md.logDelta) (δb := pt.md.logDelta)
    (β' := c'.md.logBudget) (Ea := Ea + sn r s / 2 ^ a.md.logDelta) (Eb := 0) lenA (ptMsg_length env N pt pg) hMa (ptMsg_length env N pt pg)
    (fun t ht => by rw [decPG_getD _ _ _ _ _ ht]; exact Near.shift (ta t ht) (hmk.near t ht))
    (fun t _ => Near.refl _ _)
    (fun t ht => by rw [decPG_getD _ _ _ _ _ ht]; exact hmk.grid t ht)
    (fun t _ => ptMsg_grid env N pt pg t)
    sA sP hBa hBp (by linarith) (le_refl _)
    (by rw [hβ]; simpa [DCt.ct] using hbud) (le_refl _) t ht
  exact ((hv s t ht).trans hcomp).mono (le_of_eq (by ring))

end Ckks
