/-
Helper lemmas for C08: the cross-radix `vec_znx_normalize`, part 3 — the outer loop over the limbs
of `a`: first limb (rounding shift by `take` bits / alignment by `pad` bits), generic step, fold.
-/
import Poulpy.Lemmas.NormCross2

namespace NormL

/-- body of the `'outer` loop (the lambda folded over `0..mid_range` in `normalizeCrossCoef`);
`take = (a_tot_bits - a_start_bit) % a_base2k`, `pad = (res_tot_bits - res_start_bit) % res_base2k` -/
def crossOuterBody (bits ab rb lsh : Nat) (a : List Int) (aStart take pad : Nat) (st : CrossSt) (j : Nat) : CrossSt :=
  if st.done then st else
    let aLimb := aStart - j - 1
    let m := middleStepS bits ab lsh (a.getD aLimb 0) st.aCarry
    let st1 := { st with aNorm := m.1, aCarry := m.2, aTakeLeft := ab }
    let st2 : CrossSt :=
      if j = 0 then
        if take ≠ 0 then
          { st1 with aNorm := (if bits = 64 then mulPow2NegRef st1.aNorm take else mulPow2Neg128 st1.aNorm take),
                     aTakeLeft := ab - take }
        else if pad ≠ 0 then
          { st1 with resAccLeft := st1.resAccLeft - pad }
        else st1
      else st1
    crossInner bits ab rb aLimb (ab + 2) st2

/-- bit position reached after `k ≥ 1` limbs of `a` -/
def crossQ (pinit ab take k : Nat) : Nat := pinit + k * ab - take

/-- state after `k ≥ 1` iterations of the outer loop -/
def COut (ab rb rs lsh : Nat) (H : Int) (a : List Int) (K : Int) (pinit take aStart k : Nat) (st : CrossSt) : Prop :=
  (k < aStart ∧ CCont ab rb rs lsh H a K (crossQ pinit ab take k) (aStart - k) st) ∨
  (∃ k', 1 ≤ k' ∧ k' ≤ k ∧ CFull rb rs K (crossQ pinit ab take k') st) ∨
  CFlush rb rs H K (crossQ pinit ab take aStart) st

/-- initial state of the outer loop -/
def crossSt0 (rb rs resStart ab : Nat) (cD : Int) : CrossSt :=
  { res := List.replicate rs 0, aNorm := 0, aCarry := cD, resCarry := 0, resAccLeft := rb,
    resLimb := resStart - 1, aTakeLeft := ab, done := false, stuck := false }

section
variable {bits ab rb rs lsh : Nat} {H : Int} {a : List Int}

theorem crossOuter_step (c : CrossCtx bits ab rb rs lsh H a) {K : Int} {pinit take pad aStart k : Nat} {st : CrossSt}
    (hk1 : 1 ≤ k) (hka : k < aStart) (haS : aStart ≤ a.length) (htake : take < ab)
    (h : COut ab rb rs lsh H a K pinit take aStart k st) :
    COut ab rb rs lsh H a K pinit take aStart (k + 1) (crossOuterBody bits ab rb lsh a aStart take pad st k) := by
  rcases h with ⟨_, hc⟩ | hf | hf
  · have hk0 : k ≠ 0 := by omega
    have hnd : st.done = false := hc.nd
    unfold crossOuterBody
    rw [if_neg (by rw [hnd]; simp)]
    simp only [hk0, if_false]
    have hal : aStart - k - 1 + 1 = aStart - k := by omega
    have hc' : CCont ab rb rs lsh H a K (crossQ pinit ab take k) (aStart - k - 1 + 1) st := by rw [hal]; exact hc
    have hinv := cross_next_limb c (aLimb := aStart - k - 1) (by omega) hc'
    have hq : crossQ pinit ab take k + ab = crossQ pinit ab take (k + 1) := by
      unfold crossQ
      have : ab ≤ k * ab := Nat.le_mul_of_pos_left ab (by omega)
      rw [Nat.add_mul]; omega
    rw [hq] at hinv
    have hex := crossInner_spec c (ab + 2) _ hinv (by simp)
    have hal2 : aStart - k - 1 = aStart - (k + 1) := by omega
    rcases hex with ⟨hne, hcc⟩ | hfull | ⟨h0, hfl⟩
    · exact Or.inl ⟨by omega, by rw [← hal2]; exact hcc⟩
    · exact Or.inr (Or.inl ⟨k + 1, by omega, le_refl _, hfull⟩)
    · refine Or.inr (Or.inr ?_)
      have : k + 1 = aStart := by omega
      rw [this] at hfl; exact hfl
  · obtain ⟨k', hk'1, hk'2, hf⟩ := hf
    have : st.done = true := hf.dn
    unfold crossOuterBody; rw [if_pos this]; exact Or.inr (Or.inl ⟨k', hk'1, by omega, hf⟩)
  · have : st.done = true := hf.dn
    unfold crossOuterBody; rw [if_pos this]; exact Or.inr (Or.inr hf)

theorem getD_replicate_zero (n i : Nat) : (List.replicate n (0 : Int)).getD i 0 = 0 := by
  simp [List.getD_eq_getElem?_getD, List.getElem?_replicate]
  split <;> rfl

/-- the first limb: normalise it, align it with the result (rounding shift by `take` bits when `a`
has more precision than the result, `pad` empty low bits in the result otherwise), run the inner loop -/
theorem crossOuter_first (c : CrossCtx bits ab rb rs lsh H a) {aStart take pad resStart : Nat} {cD : Int}
    (haS1 : 1 ≤ aStart) (haS : aStart ≤ a.length) (htake : take < ab) (hpad : pad < rb)
    (hboth : take = 0 ∨ pad = 0) (hrs1 : 1 ≤ resStart) (hrs : resStart ≤ rs) (hcD : |cD| ≤ H + 3) :
    ∃ K ρ : Int,
      2 ^ take * K = 2 ^ (rb * (rs - resStart) + pad) * (crossTop ab lsh a aStart cD - ρ) ∧
      2 * |ρ| ≤ 2 ^ take ∧ (take = 0 → ρ = 0) ∧
      COut ab rb rs lsh H a K (rb * (rs - resStart) + pad) take aStart 1
        (crossOuterBody bits ab rb lsh a aStart take pad (crossSt0 rb rs resStart ab cD) 0) := by
  have hab1 : 1 ≤ ab := by have := c.hlsh; omega
  have hj : aStart - 1 < a.length := by omega
  have hx : |a.getD (aStart - 1) 0| ≤ H := by
    have : a.getD (aStart - 1) 0 ∈ a := by
      rw [List.getD_eq_getElem?_getD, List.getElem?_eq_getElem hj]; simp
    exact c.ha _ this
  obtain ⟨hv, hbal, hcb⟩ := cross_middle c hx (cin := cD) (by linarith)
  set n := (middleStepS bits ab lsh (a.getD (aStart - 1) 0) cD).1 with hn
  set c' := (middleStepS bits ab lsh (a.getD (aStart - 1) 0) cD).2 with hc'
  set T' := crossTop ab lsh a (aStart - 1) c' with hT'
  have hT : crossTop ab lsh a aStart cD = n + 2 ^ ab * T' := by
    have := crossTop_succ ab lsh a (aStart - 1) hj cD
    rw [show aStart - 1 + 1 = aStart by omega] at this
    rw [this, hv, hT']; unfold crossTop; ring
  have hnabs := hbal.abs_le
  have hhalf := half_le_full hab1
  have hpinit0 : crossPos rb rs (crossSt0 rb rs resStart ab cD) = rb * (rs - resStart) := by
    unfold crossPos crossSt0; simp only
    have : rs - 1 - (resStart - 1) = rs - resStart := by omega
    rw [this]; omega
  have hRb := two_pow_pos rb
  have hzero_lims : ∀ d ∈ List.replicate rs (0 : Int), |d| ≤ 2 ^ rb - 1 := by
    intro d hd; rw [(List.mem_replicate.mp hd).2]; simp; linarith
  have hfuel : ∀ (K : Int) (q : Nat) (st2 : CrossSt), CInv ab rb rs lsh H a K q (aStart - 1) true st2 →
      q = crossQ (rb * (rs - resStart) + pad) ab take 1 →
      COut ab rb rs lsh H a K (rb * (rs - resStart) + pad) take aStart 1
        (crossInner bits ab rb (aStart - 1) (ab + 2) st2) := by
    intro K q st2 hinv hq
    have hex := crossInner_spec c (ab + 2) _ hinv (by have := hinv.atl2; omega)
    rw [hq] at hex
    rcases hex with ⟨hne, hcc⟩ | hfull | ⟨h0, hfl⟩
    · exact Or.inl ⟨by omega, hcc⟩
    · exact Or.inr (Or.inl ⟨1, le_refl _, le_refl _, hfull⟩)
    · refine Or.inr (Or.inr ?_)
      have : aStart = 1 := by omega
      rw [show crossQ (rb * (rs - resStart) + pad) ab take aStart = crossQ (rb * (rs - resStart) + pad) ab take 1 by
        rw [this]]
      exact hfl
  unfold crossOuterBody
  have hnd0 : (crossSt0 rb rs resStart ab cD).done = false := rfl
  simp only [hnd0, Bool.false_eq_true, if_false, if_true, Nat.sub_zero]
  have hca : (crossSt0 rb rs resStart ab cD).aCarry = cD := rfl
  simp only [hca, ← hn, ← hc']
  by_cases htk : take = 0
  · -- no rounding
    subst htk
    simp only [ne_eq, not_true_eq_false, if_false, pow_zero, one_mul]
    refine ⟨2 ^ (rb * (rs - resStart) + pad) * (n + 2 ^ ab * T'), 0, by rw [hT]; ring, by simp, fun _ => rfl, ?_⟩
    by_cases hpd : pad = 0
    · subst hpd
      simp only [ne_eq, not_true_eq_false, if_false, Nat.add_zero]
      apply hfuel _ (rb * (rs - resStart) + ab) _ _ (by unfold crossQ; omega)
      refine ⟨by simp [crossSt0], by simp only [crossSt0]; omega, le_refl _, le_refl _, ?_, rfl, rfl, rfl, ?_, hcb,
        ?_, ?_, hzero_lims, ?_, ?_, (by intro h'; cases h')⟩
      · simp only [crossSt0, if_true]; omega
      · simp only; linarith
      · simp only [crossSt0, getD_replicate_zero]; simp
      · intro i _; simp only [crossSt0, getD_replicate_zero]
      · have := hpinit0; unfold crossPos crossSt0 at this ⊢; simp only at this ⊢; omega
      · have := hpinit0; unfold crossPos crossSt0 at this ⊢; simp only at this ⊢
        rw [this, valI_replicate_zero]; ring
    · simp only [ne_eq, hpd, not_false_eq_true, if_true]
      apply hfuel _ (rb * (rs - resStart) + pad + ab) _ _ (by unfold crossQ; omega)
      have hpos : rb * (rs - 1 - (resStart - 1)) + (rb - (rb - pad)) = rb * (rs - resStart) + pad := by
        have : rs - 1 - (resStart - 1) = rs - resStart := by omega
        rw [this]; omega
      refine ⟨by simp [crossSt0], by simp only [crossSt0]; omega, by simp only [crossSt0]; omega, le_refl _, ?_,
        rfl, rfl, rfl, ?_, hcb, ?_, ?_, hzero_lims, ?_, ?_, (by intro h'; cases h')⟩
      · simp only [crossSt0, if_true]; omega
      · simp only; linarith
      · simp only [crossSt0, getD_replicate_zero]
        have : (1 : Int) ≤ 2 ^ (rb - (rb - pad)) := by
          have := two_pow_le (Nat.zero_le (rb - (rb - pad))); simpa using this
        simp; linarith
      · intro i _; simp only [crossSt0, getD_replicate_zero]
      · unfold crossPos crossSt0; simp only; omega
      · unfold crossPos crossSt0; simp only
        rw [hpos, valI_replicate_zero]; ring
  · -- rounding shift of the first digit by `take` bits
    have hpd : pad = 0 := by omega
    subst hpd
    simp only [ne_eq, htk, not_false_eq_true, if_true, Nat.add_zero]
    have hn62 : |n| ≤ 2 ^ (bits - 2) := by
      have h1 : (2 : Int) ^ (ab - 1) ≤ 2 ^ 61 := two_pow_le (by have := c.hab; omega)
      have h2 : (2 : Int) ^ 61 ≤ 2 ^ (bits - 2) := two_pow_le (by rcases c.hbits with h | h <;> omega)
      linarith
    have hn62' : |n| ≤ 2 ^ 62 := by
      have h1 : (2 : Int) ^ (ab - 1) ≤ 2 ^ 61 := two_pow_le (by have := c.hab; omega)
      have : (2 : Int) ^ 61 ≤ 2 ^ 62 := by norm_num
      linarith
    obtain ⟨ρ, hρ, hρb⟩ := mulPow2Neg_spec c.hbits (k := take) (by omega) (by have := c.hab; omega) hn62'
    set n' := (if bits = 64 then mulPow2NegRef n take else mulPow2Neg128 n take) with hn'
    have hT2 := two_pow_pos take
    have htk1 : 1 ≤ take := by omega
    have hth := half_le_full htk1
    have e1 : (2 : Int) ^ ab = 2 ^ take * 2 ^ (ab - take) := by rw [← pow_add]; congr 1; omega
    refine ⟨2 ^ (rb * (rs - resStart)) * (n' + 2 ^ (ab - take) * T'), ρ, ?_, by linarith, (by intro h0; first | exact absurd h0 htk | exact h0.elim), ?_⟩
    · rw [hT, e1]
      have : n = n' * 2 ^ take + ρ := hρ
      rw [this]; ring
    · apply hfuel _ (rb * (rs - resStart) + (ab - take)) _ _ (by unfold crossQ; omega)
      refine ⟨by simp [crossSt0], by simp only [crossSt0]; omega, le_refl _, by simp only; omega, ?_, rfl, rfl, rfl, ?_,
        hcb, ?_, ?_, hzero_lims, ?_, ?_, (by intro h'; cases h')⟩
      · simp only [crossSt0, if_true]; omega
      · -- 2|n'| ≤ 2^(ab-take) + 1
        simp only
        have h1 : 2 ^ take * |n'| ≤ |n| + |ρ| := by
          have : n' * 2 ^ take = n - ρ := by linarith
          have h2 : |n' * 2 ^ take| ≤ |n| + |ρ| := by rw [this]; exact abs_sub _ _
          rw [abs_mul, abs_of_pos hT2] at h2; linarith
        have hA := two_pow_pos (ab - take)
        have hq := abs_nonneg n'
        by_contra hne
        have h3 : 2 ^ (ab - take) + 2 ≤ 2 * |n'| := by omega
        have h4 : 2 ^ take * (2 ^ (ab - take) + 2) ≤ 2 ^ take * (2 * |n'|) :=
          mul_le_mul_of_nonneg_left h3 (le_of_lt hT2)
        nlinarith
      · simp only [crossSt0, getD_replicate_zero]; simp
      · intro i _; simp only [crossSt0, getD_replicate_zero]
      · have := hpinit0; unfold crossPos crossSt0 at this ⊢; simp only at this ⊢; omega
      · have := hpinit0; unfold crossPos crossSt0 at this ⊢; simp only at this ⊢
        rw [this, valI_replicate_zero]; ring

/-- the whole outer loop: after `m ≥ 1` of the `aStart` limbs -/
theorem crossOuter_fold (c : CrossCtx bits ab rb rs lsh H a) {aStart take pad resStart : Nat} {cD : Int}
    (haS1 : 1 ≤ aStart) (haS : aStart ≤ a.length) (htake : take < ab) (hpad : pad < rb)
    (hboth : take = 0 ∨ pad = 0) (hrs1 : 1 ≤ resStart) (hrs : resStart ≤ rs) (hcD : |cD| ≤ H + 3) :
    ∃ K ρ : Int,
      2 ^ take * K = 2 ^ (rb * (rs - resStart) + pad) * (crossTop ab lsh a aStart cD - ρ) ∧
      2 * |ρ| ≤ 2 ^ take ∧ (take = 0 → ρ = 0) ∧
      ∀ m, 1 ≤ m → m ≤ aStart →
        COut ab rb rs lsh H a K (rb * (rs - resStart) + pad) take aStart m
          ((List.range m).foldl (crossOuterBody bits ab rb lsh a aStart take pad) (crossSt0 rb rs resStart ab cD)) := by
  obtain ⟨K, ρ, h1, h2, h3, h4⟩ := crossOuter_first c haS1 haS htake hpad hboth hrs1 hrs hcD
  refine ⟨K, ρ, h1, h2, h3, ?_⟩
  intro m hm1
  induction m, hm1 using Nat.le_induction with
  | base => intro _; simpa [List.range_succ] using h4
  | succ m hm ih =>
    intro hle
    rw [List.range_succ, List.foldl_append]
    simp only [List.foldl_cons, List.foldl_nil]
    exact crossOuter_step c hm (by omega) haS htake (ih (by omega))

end

end NormL
