import Poulpy.Lemmas.CkksDotStep
/-!
# C16: `ckks_mul_many` on tracked operands

`mul_many_rec` is a balanced product tree: one input is an aligned copy, two a product, more are split in two halves whose products go to
scratch ciphertexts (`take_glwe` at `min effective_k − ⌈log₂ len⌉·log_delta` bits) and are multiplied into the destination.  The tracked
result (`mmTrack`) is computed along the metadata recursion; every product node is a `ckks_mul_into`, so the theorem needs the product
contract on the triples the tree executes (`MulAdmAll`, with a constant that may depend on the three metadata: the temporaries have their
own limb counts).
-/

namespace Ckks
open Hal Core Core.Ops C02L Ckks.Sem Ckks.CoreSem KsDec AutoMul

/-- a scratch ciphertext of `k` bits is well formed (zero digits) and has the metadata `tmpOfK` -/
theorem bufOfK_dok {env : Env} {N r : Nat} {like : DCt} (hl : DOK env N r like) (k : Nat) :
    DOK env N r (bufOfK env N like k) ∧ (bufOfK env N like k).ct = tmpOfK env k := by
  obtain ⟨⟨hn, hne, hcols⟩, hbk, hrk, _⟩ := hl
  have hlen : 0 < like.g.cols.length := List.length_pos_of_ne_nil hne
  have hsz : (bufOfK env N like k).g.size = divCeil k env.base2k := by
    show ((zeroC N like.g.cols.length (divCeil k env.base2k)).getD 0 []).length = divCeil k env.base2k
    simp [zeroC, List.getD_eq_getElem?_getD, hlen]
  refine ⟨⟨⟨hn, ?_, ?_⟩, hbk, ?_, ?_⟩, ?_⟩
  · show zeroC N like.g.cols.length (divCeil k env.base2k) ≠ []
    simp [zeroC]; omega
  · intro c hc
    rw [hsz]
    have : c = List.replicate (divCeil k env.base2k) (List.replicate N 0) := by
      have : c ∈ zeroC N like.g.cols.length (divCeil k env.base2k) := hc
      simp [zeroC] at this; exact this.2
    subst this
    refine ⟨by simp, ?_⟩
    intro l hl; simp at hl; rw [hl.2]; simp
  · show (zeroC N like.g.cols.length (divCeil k env.base2k)).length - 1 = r
    simp only [zeroC, List.length_replicate]
    exact hrk
  · intro c hc l hl x hx
    have : c ∈ zeroC N like.g.cols.length (divCeil k env.base2k) := hc
    simp [zeroC] at this
    rw [this.2] at hl
    simp at hl
    rw [hl.2] at hx
    simp at hx
    rw [hx.2]; simp [half_nonneg]
  · simp only [DCt.ct, tmpOfK, hsz]
    rfl

/-- a tracked result at the level of the metadata: the ciphertext metadata, the coefficients, the error budget, the magnitude bound -/
structure TR where
  ct : Ct
  M : Nat → ℚ
  E : ℚ
  B : ℚ

def TOp.tr (x : TOp) : TR := ⟨x.c.ct, x.M, x.E, x.B⟩

/-- a product node of the tree -/
def mulNode (env : Env) (N : Nat) (σ : ℚ) (UcM : Ct → Ct → Ct → ℚ) (dst : Ct) (x y : TR) : Option TR :=
  match mulInto env dst x.ct y.ct with
  | .ok m => some ⟨m, fun t => (qNegMul (polyOf N x.M) (polyOf N y.M)).getD t 0,
      UcM dst x.ct y.ct * ulpM env m + N * (x.B * (y.E + σ / 2 ^ y.ct.md.logDelta)
        + (x.E + σ / 2 ^ x.ct.md.logDelta) * (y.B + (y.E + σ / 2 ^ y.ct.md.logDelta))),
      N * x.B * y.B⟩
  | _ => none

/-- the tracked result of `mul_many_rec`, along the metadata recursion -/
def mmTrack (env : Env) (N : Nat) (σ : ℚ) (UcM : Ct → Ct → Ct → ℚ) : Nat → Ct → List TR → Option TR
  | 0, _, _ => none
  | fuel + 1, dst, ins =>
    match ins with
    | [] => none
    | [x] =>
      match shiftInto env dst x.ct 0 with
      | .ok m => some ⟨m, fun t => 1 * x.M t, σ * ulpM env m + 1 * x.E, x.B⟩
      | _ => none
    | [x, y] => mulNode env N σ UcM dst x y
    | a :: b :: c :: rest =>
      let all := a :: b :: c :: rest
      let mid := all.length / 2
      let left := all.take mid
      let right := all.drop mid
      let δ := a.ct.md.logDelta
      let lk := minEff (left.map TR.ct) - ceilLog2 left.length * δ
      let rk := minEff (right.map TR.ct) - ceilLog2 right.length * δ
      match mmTrack env N σ UcM fuel (tmpOfK env lk) left, mmTrack env N σ UcM fuel (tmpOfK env rk) right with
      | some l, some r => mulNode env N σ UcM dst l r
      | _, _ => none

/-- the product contract on every triple of at most `S` limbs a tree may execute, with a constant depending on the three metadata -/
def MulAdmAll (env : Env) (N r : Nat) (mk : MulKey) (s : List Poly) (S : Nat) (UcM : Ct → Ct → Ct → ℚ) : Prop :=
  (∀ d a b, 0 ≤ UcM d a b) ∧
  ∀ d a b : DCt, DOK env N r d → DOK env N r a → DOK env N r b → d.g.size ≤ S → a.g.size ≤ S → b.g.size ≤ S →
    ∀ mt, mulInto env d.ct a.ct b.ct = .ok mt →
    ∀ q, mulCtParams env d.ct a.ct b.ct = .ok q → MulAdm env N r s (UcM d.ct a.ct b.ct) d a b (dMulInto env N mk d a b) q

/-- what a tracked data result and the tracked metadata result have to do with each other -/
def TRel (env : Env) (N r : Nat) (s : List Poly) (c' : DCt) (tr : TR) : Prop :=
  c'.ct = tr.ct ∧ DOK env N r c' ∧ (∀ t, t < N → Near (decC s c' t) (tr.M t) (wrap c') tr.E) ∧ (∀ t, t < N → |tr.M t| ≤ tr.B) ∧
    0 ≤ tr.E ∧ 0 ≤ tr.B

theorem TOp.rel {env : Env} {N r : Nat} {s : List Poly} {x : TOp} (h : x.ok env N r s) : TRel env N r s x.c x.tr :=
  ⟨rfl, h.1, h.2.1, h.2.2.1, h.2.2.2.1, h.2.2.2.2⟩

/-- one product node on tracked operands -/
theorem mulNode_sem {env : Env} (he : EnvOK env) {N r : Nat} {mk : MulKey} {s : List Poly} {S : Nat} {UcM : Ct → Ct → Ct → ℚ}
    (hall : MulAdmAll env N r mk s S UcM) {dst a b : DCt} {ta tb : TR} (hd : DOK env N r dst) (ha : TRel env N r s a ta) (hb : TRel env N r s b tb)
    (hdS : dst.g.size ≤ S) (haS : a.g.size ≤ S) (hbS : b.g.size ≤ S)
    {m : Ct} (hm : mulInto env dst.ct ta.ct tb.ct = .ok m) :
    ∃ c' tr, dMulInto env N mk dst a b = .ok c' ∧ mulNode env N (sn r s) UcM dst.ct ta tb = some tr ∧ tr.ct = m ∧ TRel env N r s c' tr ∧
      c'.g.size = dst.g.size := by
  obtain ⟨hac, haok, hat, haB, haE, haB0⟩ := ha
  obtain ⟨hbc, hbok, hbt, hbB, hbE, hbB0⟩ := hb
  have hm' : mulInto env dst.ct a.ct b.ct = .ok m := by rw [hac, hbc]; exact hm
  obtain ⟨q, hq, hmq, hl1, hl2⟩ := mulInto_lims hm'
  obtain ⟨c', h1, hct, hok, hv⟩ := mul_core he haok hbok hq hl1.1 hl1.2 hl2.1 hl2.2 (hall.1 _ _ _)
    (hall.2 dst a b hd haok hbok hdS haS hbS m hm' q hq)
  have hcm : c'.ct = m := by rw [hct, hmq]
  have hcs : c'.g.size = dst.g.size := by
    have := congrArg Ct.size hct
    simpa [DCt.ct] using this
  obtain ⟨v1, v2⟩ := hv ta.M tb.M ta.E tb.E ta.B tb.B hat hbt haB hbB haE hbE haB0 hbB0
  have hσ : 0 ≤ sn r s := le_trans zero_le_one (sn_pos r s)
  have e1 : a.md.logDelta = ta.ct.md.logDelta := by rw [← hac]; rfl
  have e2 : b.md.logDelta = tb.ct.md.logDelta := by rw [← hbc]; rfl
  have eu : ulp c' = ulpM env m := by rw [ulp_eq_ulpM hok, hcm]
  have eU : UcM dst.ct a.ct b.ct = UcM dst.ct ta.ct tb.ct := by rw [hac, hbc]
  have h0 : 0 ≤ ulpM env m := by unfold ulpM; positivity
  have hE := specMul_E_nonneg (N := N) hσ (hall.1 dst.ct ta.ct tb.ct) h0 ta.ct.md.logDelta tb.ct.md.logDelta haE hbE haB0 hbB0
  have hB : (0 : ℚ) ≤ N * ta.B * tb.B := by positivity
  have hnode : mulNode env N (sn r s) UcM dst.ct ta tb = some ⟨m, fun t => (qNegMul (polyOf N ta.M) (polyOf N tb.M)).getD t 0,
      UcM dst.ct ta.ct tb.ct * ulpM env m + N * (ta.B * (tb.E + sn r s / 2 ^ tb.ct.md.logDelta)
        + (ta.E + sn r s / 2 ^ ta.ct.md.logDelta) * (tb.B + (tb.E + sn r s / 2 ^ tb.ct.md.logDelta))),
      N * ta.B * tb.B⟩ := by
    simp only [mulNode, hm]
  refine ⟨c', _, h1, hnode, rfl, ⟨hcm, hok, ?_, v2, hE, hB⟩, hcs⟩
  intro t ht
  have := v1 t ht
  rw [eu, eU, e1, e2] at this
  exact this

theorem shiftInto_budget {env : Env} {dst a m : Ct} {e : Nat} (h : shiftInto env dst a e = .ok m) : m.md.logBudget ≤ a.md.logBudget := by
  simp only [shiftInto] at h; grind

theorem foldl_min_le (xs : List Nat) (init : Nat) : xs.foldl min init ≤ init ∧ ∀ x ∈ xs, xs.foldl min init ≤ x := by
  induction xs generalizing init with
  | nil => simp
  | cons y ys ih =>
    simp only [List.foldl_cons]
    obtain ⟨h1, h2⟩ := ih (min init y)
    refine ⟨le_trans h1 (Nat.min_le_left _ _), fun x hx => ?_⟩
    rcases List.mem_cons.mp hx with rfl | hx
    · exact le_trans h1 (Nat.min_le_right _ _)
    · exact h2 x hx

theorem minEff_le {l : List Ct} {c : Ct} (hc : c ∈ l) : minEff l ≤ c.md.effK := by
  unfold minEff
  exact (foldl_min_le _ _).2 _ (List.mem_map.mpr ⟨c, hc, rfl⟩)

/-! ### the three recursions on three or more inputs -/

theorem mulManyRec_tree (env : Env) (fuel : Nat) (dst : Ct) (ins : List Ct) (h : 3 ≤ ins.length) :
    mulManyRec env (fuel + 1) dst ins =
      if ins.all (fun z => z.md.logDelta == (ins.map (fun c => c.md.logDelta)).headD 0) then
        mulTree env (mulManyRec env fuel) dst ins ((ins.map (fun c => c.md.logDelta)).headD 0)
      else .err .other dst := by
  match ins, h with
  | a :: b :: c :: rest, _ => rfl

theorem dMulManyRec_tree (env : Env) (N : Nat) (mk : MulKey) (fuel : Nat) (dst : DCt) (ins : List DCt) (h : 3 ≤ ins.length) :
    dMulManyRec env N mk (fuel + 1) dst ins =
      Core.Ops.bind (dMulManyRec env N mk fuel (bufOfK env N dst (minEff ((ins.take (ins.length / 2)).map DCt.ct)
          - ceilLog2 (ins.take (ins.length / 2)).length * (ins.map (fun c => c.md.logDelta)).headD 0)) (ins.take (ins.length / 2))) fun l =>
      Core.Ops.bind (dMulManyRec env N mk fuel (bufOfK env N dst (minEff ((ins.drop (ins.length / 2)).map DCt.ct)
          - ceilLog2 (ins.drop (ins.length / 2)).length * (ins.map (fun c => c.md.logDelta)).headD 0)) (ins.drop (ins.length / 2))) fun r =>
      dMulInto env N mk dst l r := by
  match ins, h with
  | a :: b :: c :: rest, _ => rfl

theorem mmTrack_tree (env : Env) (N : Nat) (σ : ℚ) (UcM : Ct → Ct → Ct → ℚ) (fuel : Nat) (dst : Ct) (ins : List TR) (h : 3 ≤ ins.length) :
    mmTrack env N σ UcM (fuel + 1) dst ins =
      match mmTrack env N σ UcM fuel (tmpOfK env (minEff ((ins.take (ins.length / 2)).map TR.ct)
          - ceilLog2 (ins.take (ins.length / 2)).length * (ins.map (fun c => c.ct.md.logDelta)).headD 0)) (ins.take (ins.length / 2)),
        mmTrack env N σ UcM fuel (tmpOfK env (minEff ((ins.drop (ins.length / 2)).map TR.ct)
          - ceilLog2 (ins.drop (ins.length / 2)).length * (ins.map (fun c => c.ct.md.logDelta)).headD 0)) (ins.drop (ins.length / 2)) with
      | some l, some r => mulNode env N σ UcM dst l r
      | _, _ => none := by
  match ins, h with
  | a :: b :: c :: rest, _ => rfl

/-- an operand of a product tree: tracked, at most `S` limbs, `effective_k` inside its limbs -/
def TOp.okS (env : Env) (N r : Nat) (s : List Poly) (S : Nat) (x : TOp) : Prop :=
  x.ok env N r s ∧ x.c.g.size ≤ S ∧ x.c.md.effK ≤ S * env.base2k

/-- the tree case, given the recursion on the two halves -/
theorem dMulManyRec_tree_tracks {env : Env} (he : EnvOK env) {N r : Nat} {mk : MulKey} {s : List Poly} {S : Nat} {UcM : Ct → Ct → Ct → ℚ}
    (hall : MulAdmAll env N r mk s S UcM) (fuel : Nat)
    (ih : ∀ {dst : DCt} (_ : DOK env N r dst) (_ : dst.g.size ≤ S) (L : List TOp) (_ : ∀ x ∈ L, x.okS env N r s S) {m : Ct}
      (_ : mulManyRec env fuel dst.ct (L.map (fun x => x.c.ct)) = .ok m),
      ∃ c' tr, dMulManyRec env N mk fuel dst (L.map (fun x => x.c)) = .ok c' ∧
        mmTrack env N (sn r s) UcM fuel dst.ct (L.map TOp.tr) = some tr ∧ tr.ct = m ∧ TRel env N r s c' tr ∧ c'.g.size = dst.g.size)
    {dst : DCt} (hd : DOK env N r dst) (hdS : dst.g.size ≤ S) (L : List TOp) (h3 : 3 ≤ L.length) (hL : ∀ x ∈ L, x.okS env N r s S) {m : Ct}
    (hm : mulManyRec env (fuel + 1) dst.ct (L.map (fun x => x.c.ct)) = .ok m) :
    ∃ c' tr, dMulManyRec env N mk (fuel + 1) dst (L.map (fun x => x.c)) = .ok c' ∧
      mmTrack env N (sn r s) UcM (fuel + 1) dst.ct (L.map TOp.tr) = some tr ∧ tr.ct = m ∧ TRel env N r s c' tr ∧ c'.g.size = dst.g.size := by
  rw [mulManyRec_tree env fuel dst.ct _ (by simpa using h3)] at hm
  split at hm
  · unfold mulTree at hm
    simp only [List.length_map, ← List.map_take, ← List.map_drop, List.map_map, Function.comp_def] at hm
    set δ := (L.map (fun x => x.c.ct.md.logDelta)).headD 0 with hδ
    cases hl : mulManyRec env fuel (tmpOfK env (minEff ((L.take (L.length / 2)).map (fun x => x.c.ct))
        - ceilLog2 (L.take (L.length / 2)).length * δ)) ((L.take (L.length / 2)).map (fun x => x.c.ct)) with
    | ok ml =>
      rw [hl] at hm
      simp only at hm
      cases hr : mulManyRec env fuel (tmpOfK env (minEff ((L.drop (L.length / 2)).map (fun x => x.c.ct))
          - ceilLog2 (L.drop (L.length / 2)).length * δ)) ((L.drop (L.length / 2)).map (fun x => x.c.ct)) with
      | ok mr =>
        rw [hr] at hm
        simp only at hm
        obtain ⟨bl, hbl⟩ := bufOfK_dok (N := N) hd (minEff ((L.take (L.length / 2)).map (fun x => x.c.ct))
          - ceilLog2 (L.take (L.length / 2)).length * δ)
        obtain ⟨br, hbr⟩ := bufOfK_dok (N := N) hd (minEff ((L.drop (L.length / 2)).map (fun x => x.c.ct))
          - ceilLog2 (L.drop (L.length / 2)).length * δ)
        -- the halves are not empty, so the scratch ciphertexts have at most `S` limbs
        have hmid1 : 1 ≤ L.length / 2 := by omega
        have hmid2 : L.length / 2 < L.length := by omega
        have hbufS : ∀ (l : List TOp) (k' : Nat), l ≠ [] → (∀ x ∈ l, x.okS env N r s S) →
            (bufOfK env N dst (minEff (l.map (fun x => x.c.ct)) - k')).g.size ≤ S := by
          intro l k' hne hl'
          obtain ⟨x, hx⟩ := List.exists_mem_of_ne_nil l hne
          have h1 : minEff (l.map (fun x => x.c.ct)) ≤ x.c.ct.md.effK := minEff_le (List.mem_map.mpr ⟨x, hx, rfl⟩)
          have h2 := (hl' x hx).2.2
          have h3 : (bufOfK env N dst (minEff (l.map (fun x => x.c.ct)) - k')).ct = tmpOfK env (minEff (l.map (fun x => x.c.ct)) - k') :=
            (bufOfK_dok (N := N) hd _).2
          have h4 : (bufOfK env N dst (minEff (l.map (fun x => x.c.ct)) - k')).g.size
              = divCeil (minEff (l.map (fun x => x.c.ct)) - k') env.base2k := congrArg Ct.size h3
          rw [h4]
          apply Ckks.divCeil_le_of_le_mul _ _ _ he.lo
          have : x.c.ct.md.effK = x.c.md.effK := rfl
          omega
        have hneL : L.take (L.length / 2) ≠ [] := by
          intro h
          have h1 := congrArg List.length h
          rw [List.length_take, List.length_nil] at h1
          omega
        have hneR : L.drop (L.length / 2) ≠ [] := by
          intro h
          have h1 := congrArg List.length h
          rw [List.length_drop, List.length_nil] at h1
          omega
        have hLl : ∀ x ∈ L.take (L.length / 2), x.okS env N r s S := fun x hx => hL x (List.mem_of_mem_take hx)
        have hLr : ∀ x ∈ L.drop (L.length / 2), x.okS env N r s S := fun x hx => hL x (List.mem_of_mem_drop hx)
        have hblS := hbufS _ (ceilLog2 (L.take (L.length / 2)).length * δ) hneL hLl
        have hbrS := hbufS _ (ceilLog2 (L.drop (L.length / 2)).length * δ) hneR hLr
        obtain ⟨cl, tl, l1, l2, l3, l4, l5⟩ := ih bl hblS (L.take (L.length / 2)) hLl (m := ml) (by rw [hbl]; exact hl)
        obtain ⟨cr, tr', r1, r2, r3, r4, r5⟩ := ih br hbrS (L.drop (L.length / 2)) hLr (m := mr) (by rw [hbr]; exact hr)
        obtain ⟨c', tr, h1, h2, h3', h4, h5⟩ := mulNode_sem he hall hd l4 r4 hdS (by rw [l5]; exact hblS) (by rw [r5]; exact hbrS)
          (m := m) (by rw [l3, r3]; exact hm)
        refine ⟨c', tr, ?_, ?_, h3', h4, h5⟩
        · rw [dMulManyRec_tree env N mk fuel dst _ (by simpa using h3)]
          simp only [List.length_map, ← List.map_take, ← List.map_drop, List.map_map, Function.comp_def]
          have e1 : (fun x : TOp => DCt.ct x.c) = (fun x : TOp => x.c.ct) := rfl
          have e2 : (fun x : TOp => x.c.md.logDelta) = (fun x : TOp => x.c.ct.md.logDelta) := rfl
          rw [e1, e2, ← hδ, l1]
          simp only [Core.Ops.bind]
          rw [r1]
          exact h1
        · rw [mmTrack_tree env N (sn r s) UcM fuel dst.ct _ (by simpa using h3)]
          simp only [List.length_map, ← List.map_take, ← List.map_drop, List.map_map, Function.comp_def]
          have e1 : (fun x : TOp => (TOp.tr x).ct) = (fun x : TOp => x.c.ct) := rfl
          have e2 : (fun x : TOp => (TOp.tr x).ct.md.logDelta) = (fun x : TOp => x.c.ct.md.logDelta) := rfl
          rw [e1, e2, ← hδ]
          rw [hbl] at l2
          rw [hbr] at r2
          rw [l2, r2]
          exact h2
      | err e x => rw [hr] at hm; cases hm
      | panic p => rw [hr] at hm; cases hm
    | err e x => rw [hl] at hm; cases hm
    | panic p => rw [hl] at hm; cases hm
  · cases hm

/-- **`mul_many_rec` on tracked operands** -/
theorem dMulManyRec_tracks {env : Env} (he : EnvOK env) {N r : Nat} {mk : MulKey} {s : List Poly} {S : Nat} {UcM : Ct → Ct → Ct → ℚ}
    (hall : MulAdmAll env N r mk s S UcM) :
    ∀ (fuel : Nat) {dst : DCt} (_ : DOK env N r dst) (_ : dst.g.size ≤ S) (L : List TOp) (_ : ∀ x ∈ L, x.okS env N r s S) {m : Ct}
      (_ : mulManyRec env fuel dst.ct (L.map (fun x => x.c.ct)) = .ok m),
      ∃ c' tr, dMulManyRec env N mk fuel dst (L.map (fun x => x.c)) = .ok c' ∧
        mmTrack env N (sn r s) UcM fuel dst.ct (L.map TOp.tr) = some tr ∧ tr.ct = m ∧ TRel env N r s c' tr ∧ c'.g.size = dst.g.size
  | 0, _, _, _, _, _, _, hm => by simp [mulManyRec] at hm
  | fuel + 1, dst, hd, hdS, L, hL, m, hm => by
    have hσ : 0 ≤ sn r s := le_trans zero_le_one (sn_pos r s)
    match L, hL, hm with
    | [], _, hm => simp [mulManyRec] at hm
    | [x], hL, hm =>
      have hx := (hL x (by simp)).1
      have hm' : shiftInto env dst.ct x.c.ct 0 = .ok m := by simpa [mulManyRec] using hm
      obtain ⟨c', h1, hct, hok, hv⟩ := dMulPow2Into_sem he hd hx.1 0 (show mulPow2Into env dst.ct x.c.ct 0 = .ok m from hm')
      have hcs : c'.g.size = dst.g.size := by
        have h2 := congrArg Ct.size hct
        have h3 : m.size = dst.ct.size := by simp only [shiftInto] at hm'; grind
        simp only [DCt.ct] at h2 h3
        rw [h2, h3]
      refine ⟨c', ⟨m, fun t => 1 * x.M t, sn r s * ulpM env m + 1 * x.E, x.B⟩, ?_, ?_, rfl, ⟨hct, hok, fun t ht => ?_, ?_, ?_, hx.2.2.2.2⟩, hcs⟩
      · simp only [List.map_cons, List.map_nil, dMulManyRec]; exact h1
      · simp only [List.map_cons, List.map_nil, mmTrack, TOp.tr, hm']
      · have h0 := (hv s t ht).mono (one_unit hσ (le_of_lt (ulp_pos c')) (trl_le_one _ _ _ _))
        rw [pow_zero, mul_one, ← one_mul (decC s x.c t)] at h0
        have hb : c'.md.logBudget ≤ x.c.md.logBudget := by
          have := shiftInto_budget hm'
          have e : c'.md = m.md := by have := congrArg Ct.md hct; simpa [DCt.ct] using this
          rw [e]; exact this
        have := Near.comp1 (β' := c'.md.logBudget) (β := x.c.md.logBudget) h0 (hx.2.1 t ht) (dvd_one hb)
        rw [ulp_eq_ulpM hok, hct] at this
        simpa [wrap] using this
      · intro t ht
        show |1 * x.M t| ≤ x.B
        rw [one_mul]; exact hx.2.2.1 t ht
      · have h0 : 0 ≤ ulpM env m := by unfold ulpM; positivity
        have := hx.2.2.2.1
        positivity
    | [x, y], hL, hm =>
      have hm' : mulInto env dst.ct x.c.ct y.c.ct = .ok m := by
        simp only [List.map_cons, List.map_nil, mulManyRec] at hm
        split at hm
        · exact hm
        · cases hm
      obtain ⟨c', tr, h1, h2, h3, h4, h5⟩ := mulNode_sem he hall hd (TOp.rel (hL x (by simp)).1) (TOp.rel (hL y (by simp)).1) hdS
        (hL x (by simp)).2.1 (hL y (by simp)).2.1 hm'
      exact ⟨c', tr, by simp only [List.map_cons, List.map_nil, dMulManyRec]; exact h1,
        by simp only [List.map_cons, List.map_nil, mmTrack]; exact h2, h3, h4, h5⟩
    | x1 :: x2 :: x3 :: rest, hL, hm =>
      exact dMulManyRec_tree_tracks he hall fuel (fun hd' hS' L' hL' _ hm' => dMulManyRec_tracks he hall fuel hd' hS' L' hL' hm') hd hdS
        (x1 :: x2 :: x3 :: rest) (by simp) hL hm

/-! ### `ckks_mul_many` as a call of a program -/

/-- the product constant for operands with fewer limbs than the destination: `Uc` is the constant at equal limb counts, the tensor of
narrower operands is known to fewer bits -/
def UcScaled (env : Env) (Uc : ℚ) : Ct → Ct → Ct → ℚ := fun d a b => Uc * 2 ^ (env.base2k * (d.size - max a.size b.size))

theorem UcScaled_nonneg {env : Env} {Uc : ℚ} (h : 0 ≤ Uc) (d a b : Ct) : 0 ≤ UcScaled env Uc d a b := by
  unfold UcScaled; positivity

/-- the tracked operand the metadata pool `P` and the tracked state `τ` give for slot `a` -/
def trAt (P : Pool) (τ : TS) (a : Nat) : TR := ⟨(P[a]?).getD ⟨⟨0, 0⟩, 0⟩, τ.M a, τ.E a, τ.B a⟩

def specMulMany (env : Env) (N : Nat) (σ Uc : ℚ) (P : Pool) (τ : TS) (d : Nat) (as : List Nat) : TS :=
  match P[d]? with
  | some cd =>
    match mmTrack env N σ (UcScaled env Uc) (as.length + 1) cd (as.map (trAt P τ)) with
    | some tr => ⟨upd τ.M d tr.M, upd τ.E d tr.E, upd τ.B d tr.B⟩
    | none => τ
  | none => τ

/-- **`ckks_mul_many`** on a pool, under the product contract of the triples the tree executes -/
theorem xstep_mulMany {env : Env} (he : EnvOK env) {N r : Nat} {mk : MulKey} {ak : AutKeys} {pool : DPool}
    (hp : AllOK env N r pool) {d : Nat} {as : List Nat} {mp : Pool}
    (hm : stepR env (DPool.cts pool) (.mulMany d as) = .ok mp) (s : List Poly) {Uc : ℚ} {S : Nat}
    (hall : MulAdmAll env N r mk s S (UcScaled env Uc))
    (hdS : ∀ cd, pool[d]? = some cd → cd.g.size ≤ S)
    (hasS : ∀ a ∈ as, ∀ ca, pool[a]? = some ca → ca.g.size ≤ S ∧ ca.md.effK ≤ S * env.base2k) :
    XGoal env N r mk ak s pool (.mulMany d as) mp (fun τ => specMulMany env N (sn r s) Uc (DPool.cts pool) τ d as) := by
  obtain ⟨cd, cs, m, hd, hg, hf, rfl⟩ := opN_ok' (show opN _ d as (mulMany env) = .ok mp from hm)
  obtain ⟨xd, hxd, rfl⟩ := cts_some hd
  obtain ⟨xs, hxs, rfl, hall'⟩ := dgetAll_of_getAll pool d as cs hg
  have hl1 : as.length = xs.length := hall'.length_eq
  have j1 : (as.zip xs).map Prod.fst = as := List.map_fst_zip (by omega)
  have j2 : (as.zip xs).map Prod.snd = xs := List.map_snd_zip (by omega)
  have hZ := forall₂_mem_zip hall'
  have hmemA : ∀ z ∈ as.zip xs, z.1 ∈ as := fun z hz => (List.of_mem_zip hz).1
  have key : ∀ f : Nat → DCt → TOp, (∀ a x, (f a x).c = x) → (∀ z ∈ as.zip xs, (f z.1 z.2).ok env N r s) →
      ∃ c' tr, dMulMany env N mk xd xs = .ok c' ∧ c'.ct = m ∧ DOK env N r c' ∧
        mmTrack env N (sn r s) (UcScaled env Uc) (as.length + 1) xd.ct ((as.zip xs).map (fun z => (f z.1 z.2).tr)) = some tr ∧
        (∀ t, t < N → Near (decC s c' t) (tr.M t) (wrap c') tr.E) ∧ (∀ t, t < N → |tr.M t| ≤ tr.B) ∧ 0 ≤ tr.E ∧ 0 ≤ tr.B := by
    intro f hfc hfok
    have e1 : ((as.zip xs).map (fun z => f z.1 z.2)).map (fun x => x.c) = xs := by
      rw [List.map_map]; simp only [Function.comp_def, hfc]; exact j2
    have e3 : ((as.zip xs).map (fun z => f z.1 z.2)).map (fun x => x.c.ct) = xs.map DCt.ct := by
      have : (fun x : TOp => x.c.ct) = DCt.ct ∘ (fun x => x.c) := rfl
      rw [this, ← List.map_map, e1]
    have hlen : ((as.zip xs).map (fun z => f z.1 z.2)).length = as.length := by simp; omega
    obtain ⟨c', tr, h1, h2, h3, h4, h5⟩ := dMulManyRec_tracks he hall (as.length + 1) (hp.get hxd) (hdS xd hxd)
      ((as.zip xs).map (fun z => f z.1 z.2))
      (by
        intro x hx
        obtain ⟨z, hz, rfl⟩ := List.mem_map.mp hx
        refine ⟨hfok z hz, ?_⟩
        rw [hfc]
        exact hasS z.1 (hmemA z hz) z.2 (hZ z hz))
      (m := m) (by
        rw [e3]
        have : mulMany env xd.ct (xs.map DCt.ct) = .ok m := hf
        unfold mulMany at this
        rw [List.length_map, ← hl1] at this
        exact this)
    obtain ⟨g1, g2, g3, g4, g5, g6⟩ := h4
    rw [e1] at h1
    refine ⟨c', tr, ?_, by rw [g1, h3], g2, ?_, g3, g4, g5, g6⟩
    · have hmd : c'.md = m.md := by
        have := congrArg Ct.md (g1.trans h3)
        simpa [DCt.ct] using this
      simp only [dMulMany, withMeta_ok _ _ _ hf, ← hl1, h1, Core.Ops.bind]
      rw [← hmd]
    · simpa only [List.map_map, Function.comp_def] using h2
  obtain ⟨c', _, h1, hct, hok, _, _, _, _, _⟩ := key (fun _ x => ⟨x, fun t => decC s x t, 0, supN N (fun t => decC s x t)⟩) (fun _ _ => rfl)
    (fun z hz => ⟨hp.get (hZ z hz), fun t _ => Near.refl _ _, fun t ht => le_supN N _ ht, le_refl _, supN_nonneg _ _⟩)
  refine ⟨pool.set d c', ?_, by rw [cts_set, hct], hp.set d hok, fun τ hτ => ?_⟩
  · simp only [xstep, dopN, hxd, hxs, dput, h1, Core.Ops.bind]
  · obtain ⟨c'', tr, h1', _, _, htr, hv, hb, hE, hB⟩ := key (fun a x => ⟨x, τ.M a, τ.E a, τ.B a⟩) (fun _ _ => rfl)
      (fun z hz => ⟨hp.get (hZ z hz), hτ.1 _ _ (hZ z hz), hτ.2.1 _, hτ.2.2.1 _, hτ.2.2.2 _⟩)
    have : c'' = c' := by
      have := h1'.symm.trans h1
      injection this
    subst this
    have etr : (as.zip xs).map (fun z => (TOp.tr ⟨z.2, τ.M z.1, τ.E z.1, τ.B z.1⟩)) = as.map (trAt (DPool.cts pool) τ) := by
      conv_rhs => rw [← j1, List.map_map]
      apply List.map_congr_left
      intro z hz
      simp only [Function.comp_def, TOp.tr, trAt, cts_getElem?, hZ z hz, Option.map_some, Option.getD_some]
    rw [etr] at htr
    simp only [specMulMany, hd, htr]
    exact hτ.set d c'' _ _ _ hv hb hE hB

end Ckks
