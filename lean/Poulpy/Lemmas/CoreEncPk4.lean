/-
Helper lemmas for C01: the public-key error expression coefficient by coefficient, and its bound.
-/
import Poulpy.Lemmas.CoreEncPk3

namespace CoreEnc
open NormL

/-- `‖acc + Σ sᵢ⋆vᵢ‖∞ ≤ A + (Σ‖sᵢ‖₁)·E` -/
theorem linComb_bounded {E : Int} (hE : 0 ≤ E) : ∀ (sk vs : List Poly) (acc : Poly) (A : Int),
    (∀ x ∈ acc, |x| ≤ A) → (∀ v ∈ vs, ∀ x ∈ v, |x| ≤ E) → ∀ x ∈ linComb sk vs acc, |x| ≤ A + sumNorm1 sk * E := by
  intro sk
  induction sk with
  | nil => intro vs acc A h _ x hx; cases vs <;> simp [linComb, sumNorm1] at hx ⊢ <;> exact h x hx
  | cons s ss ih =>
    intro vs acc A h hv x hx
    have hs := sumNorm1_nonneg ss
    have hn := norm1_nonneg s
    cases vs with
    | nil =>
      simp only [linComb] at hx
      have := h x hx
      simp only [sumNorm1, List.map_cons, List.sum_cons] at hs ⊢
      nlinarith
    | cons v vs =>
      simp only [linComb] at hx
      have h1 := polyAdd_bounded acc (Hal.negMul s v) h (negMul_bound s v (hv v (by simp)))
      have := ih vs _ _ h1 (fun w hw => hv w (by simp [hw])) x hx
      simp only [sumNorm1, List.map_cons, List.sum_cons] at this ⊢
      linarith

theorem getD_bound {B : Int} (hB : 0 ≤ B) (l : Poly) (h : ∀ x ∈ l, |x| ≤ B) (t : Nat) : |l.getD t 0| ≤ B := by
  rw [List.getD_eq_getElem?_getD]
  by_cases ht : t < l.length
  · simp only [List.getElem?_eq_getElem ht, Option.getD_some]; exact h _ (List.getElem_mem ht)
  · simp [List.getElem?_eq_none (Nat.le_of_not_lt ht), hB]

end CoreEnc
