/-
Column-level value specification of the same-radix normalisations used by encryption and
decryption (`vec_znx_normalize`, `vec_znx_big_normalize` with offset 0), obtained from the
per-coefficient value theorem of the C08 slice (`NormL.normalizeInterCoef_value`).
-/
import Poulpy.Lemmas.CoreEncBasic

namespace CoreEnc
open NormL

/-- all coefficients of all limbs bounded by `H` -/
def Bounded (H : Int) (c : Col) : Prop := ∀ l ∈ c, ∀ x ∈ l, |x| ≤ H

theorem coefAt_bounded {H : Int} (hH : 0 ≤ H) {c : Col} (hc : Bounded H c) (t : Nat) : ∀ x ∈ coefAt c t, |x| ≤ H := by
  intro x hx
  simp only [coefAt, List.mem_map] at hx
  obtain ⟨l, hl, rfl⟩ := hx
  rw [List.getD_eq_getElem?_getD]
  by_cases h : t < l.length
  · simp only [List.getElem?_eq_getElem h, Option.getD_some]
    exact hc l hl _ (List.getElem_mem h)
  · simp [List.getElem?_eq_none (Nat.le_of_not_lt h), hH]

theorem mapCoefs_mem {n size : Nat} {f : Nat → List Int} {l : Poly} {x : Int}
    (hl : l ∈ mapCoefs n size f) (hx : x ∈ l) : ∃ i, i < n ∧ ∃ j, j < size ∧ x = (f i).getD j 0 := by
  simp only [mapCoefs, ofCoefs, List.mem_map, List.mem_range] at hl
  obtain ⟨j, hj, rfl⟩ := hl
  simp only [List.map_map, List.mem_map, List.mem_range, Function.comp] at hx
  obtain ⟨i, hi, rfl⟩ := hx
  exact ⟨i, hi, j, hj, rfl⟩

/-- the per-coefficient output of a same-radix, offset-0 normalisation on a back end of accumulator
width `bits` -/
def normOut (bits b rs : Nat) (l : List Int) : List Int :=
  if bits = 64 then normalizeInterCoef 64 b rs 0 l else (normalizeInterCoef 128 b rs 0 l).map w64

theorem splitOffset_zero (b : Nat) : splitOffset b 0 = (0, 0) := by
  simp [splitOffset]

theorem w64_balanced {b : Nat} (hb : b ≤ 63) {d : Int} (h : Balanced b d) : w64 d = d := by
  have h1 : (2 : Int) ^ (b - 1) ≤ 2 ^ 62 := two_pow_le (by omega)
  unfold w64
  rw [Int.emod_eq_of_lt (by have := h.1; linarith) (by have := h.2; linarith)]; ring

theorem normOut_spec {bits b : Nat} {H : Int} (hbits : bits = 64 ∨ bits = 128) (hr : HeadRoom bits b 0 H) (hb : b ≤ 63)
    (rs : Nat) (l : List Int) (hl : ∀ x ∈ l, |x| ≤ H) :
    (normOut bits b rs l).length = rs ∧ (∀ d ∈ normOut bits b rs l, Balanced b d) ∧
    TorusNear (valI b (normOut bits b rs l)) (b * rs) (valI b l) (b * l.length) ∧
    (l.length ≤ rs → TorusEq (valI b (normOut bits b rs l)) (b * rs) (valI b l) (b * l.length)) := by
  have h := normalizeInterCoef_value hr rs 0 l hl
  simp only [Int.toNat_zero, pow_zero, mul_one, neg_zero, Nat.add_zero, sub_zero] at h
  have hout : normOut bits b rs l = normalizeInterCoef bits b rs 0 l := by
    unfold normOut
    rcases hbits with rfl | rfl
    · simp
    · simp only [show ¬ (128 = 64) by decide, if_false]
      have hw : ∀ d ∈ normalizeInterCoef 128 b rs 0 l, w64 d = id d := fun d hd => w64_balanced hb (h.2.1 d hd)
      rw [List.map_congr_left hw, List.map_id]
  rw [hout]
  refine ⟨h.1, h.2.1, h.2.2.1, fun hle => h.2.2.2 ?_⟩
  exact_mod_cast Nat.mul_le_mul_left b hle

theorem bigNormalize_eq (bits b rs n : Nat) (hbits : bits = 64 ∨ bits = 128) (a : Col) :
    Core.bigNormalize bits b rs a b n = some (mapCoefs n rs (fun i => normOut bits b rs (coefAt a i))) := by
  unfold Core.bigNormalize
  rcases hbits with rfl | rfl
  · simp only [if_true, bigNormalizeCol64?, normalizeCol?]
    apply mapCoefs?_congr; intro i _; simp [normalizeCoef, normOut]
  · simp only [show ¬ (128 = 64) by decide, if_false, bigNormalizeCol128?]
    apply mapCoefs?_congr; intro i _; simp [bigNormalizeCoef128, normOut]

theorem normalizeCol_eq (b rs n : Nat) (a : Col) :
    normalizeCol? b rs 0 a b n = some (mapCoefs n rs (fun i => normOut 64 b rs (coefAt a i))) := by
  unfold normalizeCol?
  apply mapCoefs?_congr; intro i _; simp [normalizeCoef, normOut]

/-- **column-level specification** of a same-radix, offset-0 normalisation: output shape, balanced
digits, value within one unit of the last output limb of the input's value on the torus, exactly
when the output has at least as many limbs as the input. -/
theorem normCol_spec {bits b : Nat} {H : Int} (hbits : bits = 64 ∨ bits = 128) (hr : HeadRoom bits b 0 H) (hb : b ≤ 63)
    (rs n : Nat) (a : Col) (ha : Bounded H a) :
    let out := mapCoefs n rs (fun i => normOut bits b rs (coefAt a i))
    out.length = rs ∧ WF n out ∧ Bounded (2 ^ (b - 1)) out ∧
    ∀ t, t < n →
      TorusNear (valI b (coefAt out t)) (b * rs) (valI b (coefAt a t)) (b * a.length) ∧
      (a.length ≤ rs → TorusEq (valI b (coefAt out t)) (b * rs) (valI b (coefAt a t)) (b * a.length)) := by
  intro out
  have hspec := fun i => normOut_spec hbits hr hb rs (coefAt a i) (coefAt_bounded hr.hH0 ha i)
  refine ⟨mapCoefs_length _ _ _, mapCoefs_WF _ _ _, ?_, ?_⟩
  · intro l hl x hx
    obtain ⟨i, _, j, hj, rfl⟩ := mapCoefs_mem hl hx
    have hlen := (hspec i).1
    rw [List.getD_eq_getElem?_getD, List.getElem?_eq_getElem (by omega)]
    exact ((hspec i).2.1 _ (List.getElem_mem _)).abs_le
  · intro t ht
    have hc : coefAt out t = normOut bits b rs (coefAt a t) := coefAt_mapCoefs n rs _ t ht (hspec t).1
    rw [hc]
    have := (hspec t).2.2
    rw [coefAt_length] at this
    exact this

end CoreEnc
