import Mathlib.Tactic.Ring
import Mathlib.Tactic.Linarith
import Mathlib.Tactic.Positivity
import Mathlib.Tactic.FieldSimp
import Mathlib.Algebra.Order.Field.Basic
/-!
Exact value semantics of CKKS ciphertexts: the arithmetic layer.

For one coefficient of the phase polynomial of a ciphertext, `X : ℤ` is its integer value on
`P = base2k · size` bits (`Core.valCoeff base2k (Core.phase s ct) t`), i.e. the torus element `X / 2^P`.
The CKKS metadata give it a meaning: with `β = log_budget`,

  `dec X P β = X / 2^P · 2^β`   (the **decoded coefficient**: message · 1, defined modulo `2^β`;
                                 the integer stored at `effective_k` bits is `dec · 2^log_delta`).

The core phase theorems of C02 are integer congruences between such readings (`lsh_phase`,
`lsh_add_phase`, `lsh_assign_phase`, `rsh_phase`, `normalize_assign_phase`, `add_phase_value` …).  The
lemmas below turn each shape into a statement about `dec`, with the error in the announced unit (the
result's last limb, scaled to the message: `2^β / 2^P`).
-/

namespace Ckks.Sem

/-- torus reading of `X` over `2^P` -/
def tor (X : ℤ) (P : ℕ) : ℚ := (X : ℚ) / 2 ^ P

/-- decoded coefficient: torus value times `2^log_budget` -/
def dec (X : ℤ) (P β : ℕ) : ℚ := tor X P * 2 ^ β

/-- `x` equals `y` modulo `m` up to an error of absolute value at most `ε` -/
def Near (x y m ε : ℚ) : Prop := ∃ (q : ℤ) (e : ℚ), x = y + e + q * m ∧ |e| ≤ ε

theorem Near.refl (x m : ℚ) : Near x x m 0 := ⟨0, 0, by simp, by simp⟩

theorem Near.mono {x y m ε ε' : ℚ} (h : Near x y m ε) (hε : ε ≤ ε') : Near x y m ε' := by
  obtain ⟨q, e, h1, h2⟩ := h
  exact ⟨q, e, h1, h2.trans hε⟩

theorem Near.trans {x y z m ε₁ ε₂ : ℚ} (h₁ : Near x y m ε₁) (h₂ : Near y z m ε₂) : Near x z m (ε₁ + ε₂) := by
  obtain ⟨q₁, e₁, a₁, b₁⟩ := h₁
  obtain ⟨q₂, e₂, a₂, b₂⟩ := h₂
  refine ⟨q₁ + q₂, e₁ + e₂, ?_, (abs_add_le _ _).trans (add_le_add b₁ b₂)⟩
  rw [a₁, a₂]; push_cast; ring

theorem Near.add {x y x' y' m ε₁ ε₂ : ℚ} (h₁ : Near x y m ε₁) (h₂ : Near x' y' m ε₂) :
    Near (x + x') (y + y') m (ε₁ + ε₂) := by
  obtain ⟨q₁, e₁, a₁, b₁⟩ := h₁
  obtain ⟨q₂, e₂, a₂, b₂⟩ := h₂
  refine ⟨q₁ + q₂, e₁ + e₂, ?_, (abs_add_le _ _).trans (add_le_add b₁ b₂)⟩
  rw [a₁, a₂]; push_cast; ring

theorem Near.neg {x y m ε : ℚ} (h : Near x y m ε) : Near (-x) (-y) m ε := by
  obtain ⟨q, e, a, b⟩ := h
  refine ⟨-q, -e, ?_, by rwa [abs_neg]⟩
  rw [a]; push_cast; ring

theorem Near.sub {x y x' y' m ε₁ ε₂ : ℚ} (h₁ : Near x y m ε₁) (h₂ : Near x' y' m ε₂) :
    Near (x - x') (y - y') m (ε₁ + ε₂) := by
  have := h₁.add h₂.neg
  simpa [sub_eq_add_neg] using this

/-- multiplying by an integer power of two that divides into the modulus: `x·2^k` modulo `m·2^k` -/
theorem Near.mul_pow {x y m ε : ℚ} (h : Near x y m ε) (k : ℕ) :
    Near (x * 2 ^ k) (y * 2 ^ k) (m * 2 ^ k) (ε * 2 ^ k) := by
  obtain ⟨q, e, a, b⟩ := h
  refine ⟨q, e * 2 ^ k, ?_, ?_⟩
  · rw [a]; ring
  · rw [abs_mul, abs_of_pos (by positivity : (0 : ℚ) < 2 ^ k)]
    exact mul_le_mul_of_nonneg_right b (by positivity)

/-- a congruence modulo `m·2^j` is a congruence modulo `m` -/
theorem Near.coarsen {x y m ε : ℚ} (h : Near x y (m * 2 ^ j) ε) : Near x y m ε := by
  obtain ⟨q, e, a, b⟩ := h
  refine ⟨q * 2 ^ j, e, ?_, b⟩
  rw [a]; push_cast; ring

/-- divide a relation known at the scale `2^k` -/
theorem Near.div_pow {x y m ε : ℚ} {k : ℕ} (h : Near (x * 2 ^ k) y (m * 2 ^ k) (ε * 2 ^ k)) :
    Near x (y / 2 ^ k) m ε := by
  obtain ⟨q, e, a, b⟩ := h
  have hk : (0 : ℚ) < 2 ^ k := by positivity
  refine ⟨q, e / 2 ^ k, ?_, ?_⟩
  · have : x = (x * 2 ^ k) / 2 ^ k := by field_simp
    rw [this, a]; field_simp
  · rw [abs_div, abs_of_pos hk, div_le_iff₀ hk]; exact b

/-- a relation modulo `2^β` holds modulo `2^β'` for `β' ≤ β` -/
theorem Near.coarsen_le {x y ε : ℚ} {β β' : ℕ} (h : Near x y (2 ^ β) ε) (hle : β' ≤ β) : Near x y (2 ^ β') ε := by
  obtain ⟨j, rfl⟩ : ∃ j, β = β' + j := ⟨β - β', by omega⟩
  rw [pow_add] at h
  exact h.coarsen

theorem two_pow_pos (n : ℕ) : (0 : ℚ) < 2 ^ n := by positivity

/-! ## from the integer congruences of C02 to decoded values -/

/-- shape of `C02.lsh_phase` / `lsh_assign_phase` (one operand, left shift by `k`):
`2^Pa · X' = 2^k · 2^Pr · Xa + e + q · 2^(Pr+Pa)`, `|e| ≤ U · 2^Pa` (`U` units of the result's last limb).
If the metadata satisfy `k + β' = βa + bits`, the decoded value is multiplied by `2^bits`. -/
theorem dec_of_lsh (X' Xa e q : ℤ) (Pr Pa k β' βa bits : ℕ) (U : ℚ)
    (hrel : 2 ^ Pa * X' = 2 ^ k * 2 ^ Pr * Xa + e + q * 2 ^ (Pr + Pa)) (he : |(e : ℚ)| ≤ U * 2 ^ Pa)
    (hk : k + β' = βa + bits) :
    Near (dec X' Pr β') (dec Xa Pa βa * 2 ^ bits) (2 ^ β') (U * 2 ^ β' / 2 ^ Pr) := by
  have hrelq : (2 : ℚ) ^ Pa * X' = 2 ^ k * 2 ^ Pr * Xa + e + q * (2 ^ Pr * 2 ^ Pa) := by
    have : ((2 ^ Pa * X' : ℤ) : ℚ) = ((2 ^ k * 2 ^ Pr * Xa + e + q * 2 ^ (Pr + Pa) : ℤ) : ℚ) := by rw [hrel]
    rw [pow_add] at this
    push_cast at this
    exact this
  have hpow : (2 : ℚ) ^ k * 2 ^ β' = 2 ^ βa * 2 ^ bits := by rw [← pow_add, ← pow_add, hk]
  have hA := two_pow_pos Pa
  have hB := two_pow_pos Pr
  have hC := two_pow_pos β'
  refine ⟨q, (e : ℚ) / (2 ^ Pr * 2 ^ Pa) * 2 ^ β', ?_, ?_⟩
  · simp only [dec, tor]
    generalize (2 : ℚ) ^ Pa = A at *
    generalize (2 : ℚ) ^ Pr = B at *
    generalize (2 : ℚ) ^ β' = C at *
    generalize (2 : ℚ) ^ k = K at *
    generalize (2 : ℚ) ^ βa = D at *
    generalize (2 : ℚ) ^ bits = E at *
    have h1 : (X' : ℚ) / B * C = (A * X') / (A * B) * C := by field_simp
    rw [h1, hrelq]
    have h2 : (K * B * Xa + e + q * (B * A)) / (A * B) * C = (Xa : ℚ) / A * (K * C) + e / (B * A) * C + q * C := by
      field_simp
    rw [h2, hpow]; ring
  · rw [abs_mul, abs_div, abs_of_pos hC, abs_of_pos (by positivity : (0 : ℚ) < 2 ^ Pr * 2 ^ Pa)]
    have hU : U * 2 ^ β' / 2 ^ Pr = U * 2 ^ Pa / (2 ^ Pr * 2 ^ Pa) * 2 ^ β' := by field_simp
    rw [hU]
    gcongr

/-- shape of `C02.lsh_add_phase` / `lsh_sub_phase` (`σ = ±1`): the result accumulates a shifted operand,
`2^Pa · X'' = 2^Pa · Xr + σ · 2^k · 2^Pr · Xa + e + q · 2^(Pr+Pa)` -/
theorem dec_of_lsh_acc (X'' Xr Xa e q σ : ℤ) (Pr Pa k β' βa : ℕ) (U : ℚ)
    (hrel : 2 ^ Pa * X'' = 2 ^ Pa * Xr + σ * (2 ^ k * 2 ^ Pr) * Xa + e + q * 2 ^ (Pr + Pa))
    (he : |(e : ℚ)| ≤ U * 2 ^ Pa) (hk : k + β' = βa) :
    Near (dec X'' Pr β') (dec Xr Pr β' + σ * dec Xa Pa βa) (2 ^ β') (U * 2 ^ β' / 2 ^ Pr) := by
  have hrelq : (2 : ℚ) ^ Pa * X'' = 2 ^ Pa * Xr + σ * (2 ^ k * 2 ^ Pr) * Xa + e + q * (2 ^ Pr * 2 ^ Pa) := by
    have : ((2 ^ Pa * X'' : ℤ) : ℚ) = ((2 ^ Pa * Xr + σ * (2 ^ k * 2 ^ Pr) * Xa + e + q * 2 ^ (Pr + Pa) : ℤ) : ℚ) := by
      rw [hrel]
    rw [pow_add] at this
    push_cast at this
    exact this
  have hpow : (2 : ℚ) ^ k * 2 ^ β' = 2 ^ βa := by rw [← pow_add, hk]
  have hA := two_pow_pos Pa
  have hB := two_pow_pos Pr
  have hC := two_pow_pos β'
  refine ⟨q, (e : ℚ) / (2 ^ Pr * 2 ^ Pa) * 2 ^ β', ?_, ?_⟩
  · simp only [dec, tor]
    generalize (2 : ℚ) ^ Pa = A at *
    generalize (2 : ℚ) ^ Pr = B at *
    generalize (2 : ℚ) ^ β' = C at *
    generalize (2 : ℚ) ^ k = K at *
    generalize (2 : ℚ) ^ βa = D at *
    have h1 : (X'' : ℚ) / B * C = (A * X'') / (A * B) * C := by field_simp
    rw [h1, hrelq]
    have h2 : (A * Xr + σ * (K * B) * Xa + e + q * (B * A)) / (A * B) * C
        = (Xr : ℚ) / B * C + σ * ((Xa : ℚ) / A * (K * C)) + e / (B * A) * C + q * C := by
      field_simp
    rw [h2, hpow]
  · rw [abs_mul, abs_div, abs_of_pos hC, abs_of_pos (by positivity : (0 : ℚ) < 2 ^ Pr * 2 ^ Pa)]
    have hU : U * 2 ^ β' / 2 ^ Pr = U * 2 ^ Pa / (2 ^ Pr * 2 ^ Pa) * 2 ^ β' := by field_simp
    rw [hU]
    gcongr

/-- shape of `C02.lsh_assign_phase` / `normalize_assign_phase` (in place, exact):
`X' · 2^P = X · 2^k · 2^P + q · 2^(P+P)` -/
theorem dec_of_lsh_assign (X' X q : ℤ) (P k β' β bits : ℕ)
    (hrel : X' * 2 ^ P = X * 2 ^ k * 2 ^ P + q * 2 ^ (P + P)) (hk : k + β' = β + bits) :
    Near (dec X' P β') (dec X P β * 2 ^ bits) (2 ^ β') 0 := by
  have h := dec_of_lsh X' X 0 q P P k β' β bits 0 (by rw [mul_comm, hrel]; ring) (by simp) hk
  simpa using h

/-- the in-place operations that do not touch the data (`ckks_div_pow2_assign`): the reading is the same,
only the budget moves -/
theorem dec_budget (X : ℤ) (P β' β bits : ℕ) (h : β' + bits = β) : dec X P β' * 2 ^ bits = dec X P β := by
  simp only [dec]; rw [mul_assoc, ← pow_add, h]


/-- shape of the exact kernels (`glwe_add_into`, `glwe_sub`, `glwe_add_assign`, `glwe_sub_assign`,
`glwe_negate`) once the truncation of longer operands is accounted for: three limb counts, no wrap,
`2^(Po+Pa) · X' = σo · 2^(Pr+Pa) · Xo + σa · 2^(Pr+Po) · Xa + e` -/
theorem dec_of_exact3 (X' Xo Xa e σo σa : ℤ) (Pr Po Pa β : ℕ) (U : ℚ)
    (hrel : 2 ^ (Po + Pa) * X' = σo * 2 ^ (Pr + Pa) * Xo + σa * 2 ^ (Pr + Po) * Xa + e)
    (he : |(e : ℚ)| ≤ U * 2 ^ (Po + Pa)) :
    Near (dec X' Pr β) (σo * dec Xo Po β + σa * dec Xa Pa β) (2 ^ β) (U * 2 ^ β / 2 ^ Pr) := by
  have hrelq : (2 : ℚ) ^ Po * 2 ^ Pa * X' = σo * (2 ^ Pr * 2 ^ Pa) * Xo + σa * (2 ^ Pr * 2 ^ Po) * Xa + e := by
    have : ((2 ^ (Po + Pa) * X' : ℤ) : ℚ) = ((σo * 2 ^ (Pr + Pa) * Xo + σa * 2 ^ (Pr + Po) * Xa + e : ℤ) : ℚ) := by
      rw [hrel]
    rw [pow_add, pow_add, pow_add] at this
    push_cast at this
    exact this
  have hA := two_pow_pos Pa
  have hB := two_pow_pos Pr
  have hC := two_pow_pos β
  have hO := two_pow_pos Po
  refine ⟨0, (e : ℚ) / (2 ^ Pr * (2 ^ Po * 2 ^ Pa)) * 2 ^ β, ?_, ?_⟩
  · simp only [dec, tor]
    generalize (2 : ℚ) ^ Pa = A at *
    generalize (2 : ℚ) ^ Pr = B at *
    generalize (2 : ℚ) ^ β = C at *
    generalize (2 : ℚ) ^ Po = O at *
    have h1 : (X' : ℚ) / B * C = (O * A * X') / (O * A * B) * C := by field_simp
    rw [h1, hrelq]
    field_simp
    ring
  · rw [abs_mul, abs_div, abs_of_pos hC, abs_of_pos (by positivity : (0 : ℚ) < 2 ^ Pr * (2 ^ Po * 2 ^ Pa))]
    have hU : U * 2 ^ β / 2 ^ Pr = U * (2 ^ Po * 2 ^ Pa) / (2 ^ Pr * (2 ^ Po * 2 ^ Pa)) * 2 ^ β := by field_simp
    rw [hU, ← pow_add]
    gcongr

end Ckks.Sem
