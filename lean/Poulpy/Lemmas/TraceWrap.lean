import Poulpy.Lemmas.TraceExec
import Poulpy.Lemmas.TraceNoise

/-!
# The entry / exit wrapper of `glwe_trace`: radix conversions and copies around the executed loop

`Ks.trace big128 keyBase2k keys skip resBase2k resSize a` (Model/Core/Ks.lean) builds `tmp` in the key radix with
`⌈max(a.size·a.base2k, resSize·resBase2k)/keyBase2k⌉` limbs — a `glwe_copy` of `a` if `a` is already in the key radix, a `glwe_normalize`
otherwise —, runs `Ks.traceAssign` on it (same radix: the loop), and copies / normalises into the result layout.  `Ks.traceAssign` on a
ciphertext whose radix differs from the keys' normalises in, runs the loop, and normalises out.

* `glweNormalize_stage`, `glweCopy_stage` — the two stages (`Ks.glweNormalize`, `Ks.glweCopy`) with one and the same phase relation
  `2^(ab·Sa)·val(φ r) = 2^(rb·rs)·val(φ a) + e + q·2^(rb·rs + ab·Sa)`, `|e| ≤ (1+‖sk‖₁)·U`: `U = normTol` for the normalisation
  (C08 discharged, `KsDec.norm_stage`), `U = 0` for a zero-extending copy, `U = 2^(b·rs)·truncTol` for a truncating copy;
* `wrap_compose` — the ring-level composition entry ∘ loop ∘ exit: **the wrap `Q_in` of the entry conversion goes through `traceOp`, and is
  absorbed because `traceOp [j…K−1] Q_in = 2^n • y`** (`TraceJump.trace_suffix`);
* **`glwe_trace_decrypts_exec`** (the executed `Ks.trace`, the four copy / normalise combinations) and
  **`glwe_trace_assign_decrypts_cross`** (`Ks.traceAssign`, `res.base2k ≠ keyBase2k`).
-/

namespace KsDec
open Hal Core Core.Ops C02L AutoMul TraceJump

/-! ### 1. the conversion stages -/

/-- **`Ks.glweNormalize`** (`glwe_normalize(res, a)`, any pair of radices, C08 discharged): it returns a well-formed ciphertext of `rs` limbs
of radix `2^rb`, same rank, digits `≤ 2^rb − 1`, whose phase is the phase of `a` re-expressed — exactly when no precision is lost, within
`(1+‖sk‖₁)` units of the result's last limb otherwise. -/
theorem glweNormalize_stage (N rb rs : Nat) (a : Ks.Ct) (Hin : Int) (ha : GWF N a)
    (hab1 : 1 ≤ a.base2k) (hab : a.base2k ≤ 62) (hrb1 : 1 ≤ rb) (hrb : rb ≤ 62)
    (hH0 : 0 ≤ Hin) (hH : Hin + 8 ≤ 2 ^ 62) (hb : GBound Hin a) :
    ∃ r, Ks.glweNormalize rb rs a = .ok r ∧ GWF N r ∧ r.base2k = rb ∧ r.size = rs ∧ r.rank = a.rank ∧ GBound (2 ^ rb - 1) r ∧
      ∀ (s : List Poly) t, t < N → ∃ q e : Int,
        2 ^ (a.base2k * a.size) * valCoeff rb (phase s r) t
          = 2 ^ (rb * rs) * valCoeff a.base2k (phase s a) t + e + q * 2 ^ (rb * rs + a.base2k * a.size) ∧
        |e| ≤ (1 + snorm (min a.rank s.length) s) * C02.normTol (rb * rs) (a.base2k * a.size) := by
  obtain ⟨cs, hok, hlen, hwf, hdig, hph⟩ := norm_stage false N rb rs a.base2k a.size Hin a.cols
    hrb1 hrb hab1 hab hH0 (by simpa [bitsOf] using hH) ha.2.1 ha.2.2 hb
  have hcsne : cs ≠ [] := by
    intro h; rw [h] at hlen; exact ha.2.1 (List.eq_nil_of_length_eq_zero hlen.symm)
  obtain ⟨gw, gs⟩ := gwf_mk (N := N) rb rs cs hcsne hwf
  refine ⟨Ks.mkCt rb N cs, ?_, gw, rfl, gs, ?_, hdig, ?_⟩
  · unfold Ks.glweNormalize
    have e : a.cols.map (fun c => Ks.ofOpt (normalizeCol? rb rs 0 c a.base2k a.n) "fuel")
        = a.cols.map (fun c => Ks.bigNormalize false rb rs c a.base2k N) := by
      apply List.map_congr_left
      intro c _
      rw [ha.1]
      rfl
    rw [e, hok, ha.1]
    rfl
  · show cs.length - 1 = a.cols.length - 1
    rw [hlen]
  · intro s t ht
    obtain ⟨q, e, h1, h2⟩ := hph s t ht
    exact ⟨q, e, h1, h2⟩

/-- the weight of a dropped tail of `m` limbs with digits `≤ H`, in units of the last limb: `H·Σ_{j<m} 2^(b·j)` (`geomB`, KsHeadRoom) -/
def truncTol (b m : ℕ) (H : ℤ) : ℤ := H * geomB b m

theorem truncTol_nonneg (b m : ℕ) (H : ℤ) (hH : 0 ≤ H) : 0 ≤ truncTol b m H := mul_nonneg hH (geomB_nonneg b m)

theorem truncTol_zero (b : ℕ) (H : ℤ) : truncTol b 0 H = 0 := by simp [truncTol, geomB]

/-- normalised digits (`≤ 2^b − 1`): a dropped tail of `m` limbs is worth less than one unit of the limb above it -/
theorem truncTol_unit (b m : ℕ) : truncTol b m (2 ^ b - 1) = 2 ^ (b * m) - 1 := by
  unfold truncTol
  induction m with
  | zero => simp [geomB]
  | succ m ih =>
    have e : geomB b (m + 1) = geomB b m * 2 ^ b + 1 := rfl
    rw [e, Nat.mul_succ, pow_add]
    linear_combination (2 ^ b : ℤ) * ih

/-- tolerance of a `glwe_copy` from `Sa` to `rs` limbs of radix `2^b`, digits `≤ H`: `0` for a zero extension, the dropped tail (scaled by
`2^(b·rs)` as in the phase relation) for a truncation -/
def copyTol (b Sa rs : ℕ) (H : ℤ) : ℤ := if Sa ≤ rs then 0 else 2 ^ (b * rs) * truncTol b (Sa - rs) H

theorem copyTol_nonneg (b Sa rs : ℕ) (H : ℤ) (hH : 0 ≤ H) : 0 ≤ copyTol b Sa rs H := by
  unfold copyTol
  split
  · exact le_refl _
  · exact mul_nonneg (by positivity) (truncTol_nonneg _ _ _ hH)

/-- normalised digits: the truncating copy loses less than one unit of the result's last limb (same scale as `C02.normTol`) -/
theorem copyTol_unit_lt (b Sa rs : ℕ) (h : rs < Sa) : copyTol b Sa rs (2 ^ b - 1) < 2 ^ (b * Sa) := by
  unfold copyTol
  rw [if_neg (by omega), truncTol_unit]
  have e : (2 : ℤ) ^ (b * Sa) = 2 ^ (b * rs) * 2 ^ (b * (Sa - rs)) := by
    rw [← pow_add]; congr 1; rw [← Nat.mul_add]; congr 1; omega
  rw [e]
  have hp : (0 : ℤ) < 2 ^ (b * rs) := by positivity
  nlinarith

theorem glweCopy_cols (b rs : ℕ) (a : Ks.Ct) : (Ks.glweCopy b rs a).cols = a.cols.map (fun c => fit a.n rs c) := by
  unfold Ks.glweCopy Ks.mkCt
  simp only
  apply List.map_congr_left
  intro c _
  exact vecCopy_nf rs c

/-- **`Ks.glweCopy`** (`glwe_copy(res, a)`, same radix `2^b`, `rs` limbs): total; the result is well formed, same rank, digits within those of
`a`; its phase is the phase of `a` zero-extended (exact) or truncated (error `≤ (1+‖sk‖₁)·2^(b·rs)·truncTol`), in the same form as
`glweNormalize_stage`. -/
theorem glweCopy_stage (N b rs : Nat) (a : Ks.Ct) (H : Int) (ha : GWF N a) (hab : a.base2k = b) (hH0 : 0 ≤ H) (hb : GBound H a) :
    GWF N (Ks.glweCopy b rs a) ∧ (Ks.glweCopy b rs a).base2k = b ∧ (Ks.glweCopy b rs a).size = rs ∧
      (Ks.glweCopy b rs a).rank = a.rank ∧ GBound H (Ks.glweCopy b rs a) ∧
      ∀ (s : List Poly) t, t < N → ∃ q e : Int,
        2 ^ (a.base2k * a.size) * valCoeff b (phase s (Ks.glweCopy b rs a)) t
          = 2 ^ (b * rs) * valCoeff a.base2k (phase s a) t + e + q * 2 ^ (b * rs + a.base2k * a.size) ∧
        |e| ≤ (1 + snorm (min a.rank s.length) s) * copyTol b a.size rs H := by
  have hn : a.n = N := ha.1
  have hcols : (Ks.glweCopy b rs a).cols = a.cols.map (fun c => fit N rs c) := by rw [glweCopy_cols, hn]
  have hne : a.cols.map (fun c => fit N rs c) ≠ [] := by simpa using ha.2.1
  have hwf : ∀ c ∈ a.cols.map (fun c => fit N rs c), ColWF N rs c := by
    intro c hc
    obtain ⟨c0, hc0, rfl⟩ := List.mem_map.mp hc
    exact fit_wf (ha.2.2 c0 hc0).2 rs
  obtain ⟨gw0, gs0⟩ := gwf_mk (N := N) b rs _ hne hwf
  have hmk : Ks.glweCopy b rs a = Ks.mkCt b N (a.cols.map (fun c => fit N rs c)) := by
    have : Ks.glweCopy b rs a = Ks.mkCt b a.n (Ks.glweCopy b rs a).cols := rfl
    rw [this, hcols, hn]
  rw [hmk]
  have hrk : (Ks.mkCt b N (a.cols.map (fun c => fit N rs c))).rank = a.rank := by simp [GLWE.rank, Ks.mkCt]
  refine ⟨gw0, rfl, gs0, hrk, ?_, ?_⟩
  · intro c hc l hl x hx
    obtain ⟨c0, hc0, rfl⟩ := List.mem_map.mp hc
    exact fit_bound N rs c0 H hH0 (hb c0 hc0) l hl x hx
  · intro s
    have hcol : ∀ i, i ≤ a.rank → col (Ks.mkCt b N (a.cols.map (fun c => fit N rs c))) i = fit N rs (col a i) := by
      intro i hi
      have hi' : i < a.cols.length := by rw [ha.len]; omega
      show (a.cols.map (fun c => fit N rs c)).getD i [] = fit N rs (a.cols.getD i [])
      simp [List.getD_eq_getElem?_getD, List.getElem?_eq_getElem hi']
    have := torus_phase3 gw0 gw0 ha rfl (by rw [hrk]) b b a.base2k
      (2 ^ (a.base2k * a.size)) 0 (2 ^ (b * rs)) (2 ^ (b * rs + a.base2k * a.size)) (copyTol b a.size rs H)
      (fun i hi t _ => by
        rw [hrk] at hi
        have hlen : (col a i).length = a.size := (ha.col_wf i hi).1
        have hdig : ∀ l ∈ col a i, ∀ x ∈ l, |x| ≤ H := hb _ (col_mem i (by rw [ha.len]; omega))
        rw [hcol i hi, hab]
        unfold copyTol
        split
        next hle =>
          refine ⟨0, 0, ?_, by simp⟩
          rw [valCoeff_fit_extend b N rs (col a i) t (by rw [hlen]; exact hle), hlen]
          have e : (2 : ℤ) ^ (b * rs) = 2 ^ (b * a.size) * 2 ^ (b * (rs - a.size)) := by
            rw [← pow_add]; congr 1; rw [← Nat.mul_add]; congr 1; omega
          rw [e]; ring
        next hlt =>
          have hle : rs ≤ (col a i).length := by rw [hlen]; omega
          have hsplit := valCoeff_fit_truncate b N rs (col a i) t hle
          have htail := valCoeff_abs_le b ((col a i).drop rs) H hH0 (fun l hl => hdig l (List.mem_of_mem_drop hl)) t
          rw [List.length_drop, hlen] at htail
          rw [hlen] at hsplit
          refine ⟨0, -(2 ^ (b * rs) * valCoeff b ((col a i).drop rs) t), ?_, ?_⟩
          · have e : (2 : ℤ) ^ (b * a.size) = 2 ^ (b * rs) * 2 ^ (b * (a.size - rs)) := by
              rw [← pow_add]; congr 1; rw [← Nat.mul_add]; congr 1; omega
            rw [hsplit, e]; ring
          · rw [abs_neg, abs_mul, abs_of_pos (by positivity : (0 : ℤ) < 2 ^ (b * rs))]
            exact mul_le_mul_of_nonneg_left htail (by positivity)) s
    intro t ht
    rw [hrk] at this
    obtain ⟨q, e, he, hb'⟩ := this t ht
    exact ⟨q, e, by linear_combination he, hb'⟩

/-! ### 2. entry and exit of `glwe_trace` -/

theorem divCeil_covers (x b : ℕ) (hb : 1 ≤ b) : x ≤ b * Ks.divCeil x b := by
  unfold Ks.divCeil
  have h1 := Nat.div_add_mod (x + b - 1) b
  have h2 := Nat.mod_lt (x + b - 1) (by omega : 0 < b)
  generalize b * ((x + b - 1) / b) = z at h1 ⊢
  omega

/-- limb count of the temporary of `glwe_trace`: `⌈max(a.size·a.base2k, rs·rb) / bk⌉` -/
def traceTmpSize (a : Ks.Ct) (bk rb rs : ℕ) : ℕ := Ks.divCeil (max (a.size * a.base2k) (rs * rb)) bk

theorem traceTmpSize_covers (a : Ks.Ct) (bk rb rs : ℕ) (hb : 1 ≤ bk) : a.base2k * a.size ≤ bk * traceTmpSize a bk rb rs := by
  have := divCeil_covers (max (a.size * a.base2k) (rs * rb)) bk hb
  have h2 := Nat.le_max_left (a.size * a.base2k) (rs * rb)
  unfold traceTmpSize
  rw [Nat.mul_comm a.base2k a.size]
  omega

theorem ι_of_normInf_le_zero (N : Nat) (E : Poly) (h : normInf E ≤ 0) : Ks.ι N E = 0 := by
  have hz : E = zeroP E.length := by
    unfold zeroP
    rw [List.eq_replicate_iff]
    refine ⟨rfl, fun x hx => ?_⟩
    have := (normInf_le_iff (le_refl (0 : Int))).mp h x hx
    exact abs_nonpos_iff.mp this
  rw [hz, Ks.ι_zero]

/-- **the entry stage** of `glwe_trace` (`glwe_copy` when `a` is in the key radix, `glwe_normalize` otherwise) into `St` limbs of the key
radix that cover the precision of `a` (`ab·Sa ≤ bk·St`): it returns, the result keeps the invariant of the loop (digits `≤ H`), and the
phase is re-expressed **exactly**: `2^(ab·Sa) • φ(tmp) = 2^(bk·St) • φ(a) + 2^(bk·St+ab·Sa) • Q`. -/
theorem trace_entry (N bk St : ℕ) (hN : 0 < N) (a : Ks.Ct) (sk : List Poly) (Ha H : ℤ) (ha : GWF N a)
    (hab1 : 1 ≤ a.base2k) (hab : a.base2k ≤ 62) (hbk1 : 1 ≤ bk) (hbk : bk ≤ 62)
    (hHa0 : 0 ≤ Ha) (hHa8 : Ha + 8 ≤ 2 ^ 62) (hbda : GBound Ha a) (hHaH : a.base2k = bk → Ha ≤ H) (hH : 2 ^ bk - 1 ≤ H)
    (hcov : a.base2k * a.size ≤ bk * St) :
    ∃ tmp, (if a.base2k = bk then Outcome.ok (Ks.glweCopy bk St a) else Ks.glweNormalize bk St a) = .ok tmp ∧
      GWF N tmp ∧ tmp.base2k = bk ∧ tmp.size = St ∧ tmp.rank = a.rank ∧ GBound H tmp ∧
      ∃ Q : Ks.R N, (2 ^ (a.base2k * a.size) : ℤ) • Ks.ι N (valP bk N (phase sk tmp))
        = (2 ^ (bk * St) : ℤ) • Ks.ι N (valP a.base2k N (phase sk a)) + (2 ^ (bk * St + a.base2k * a.size) : ℤ) • Q := by
  have fin : ∀ tmp : Ks.Ct, (∀ t, t < N → ∃ q e : Int,
        2 ^ (a.base2k * a.size) * valCoeff bk (phase sk tmp) t
          = 2 ^ (bk * St) * valCoeff a.base2k (phase sk a) t + e + q * 2 ^ (bk * St + a.base2k * a.size) ∧ |e| ≤ 0) →
      ∃ Q : Ks.R N, (2 ^ (a.base2k * a.size) : ℤ) • Ks.ι N (valP bk N (phase sk tmp))
        = (2 ^ (bk * St) : ℤ) • Ks.ι N (valP a.base2k N (phase sk a)) + (2 ^ (bk * St + a.base2k * a.size) : ℤ) • Q := by
    intro tmp h
    obtain ⟨E, Q, _, _, hn, hrel⟩ := coeff_to_ring N hN (phase sk tmp) (phase sk a) bk a.base2k _ _ _ 0 h
    refine ⟨Ks.ι N Q, ?_⟩
    rw [ι_of_normInf_le_zero N E hn, add_zero] at hrel
    simp only [zsmul_eq_mul]
    exact hrel
  by_cases hc : a.base2k = bk
  · rw [if_pos hc]
    obtain ⟨g1, g2, g3, g4, g5, hph⟩ := glweCopy_stage N bk St a Ha ha hc hHa0 hbda
    refine ⟨_, rfl, g1, g2, g3, g4, GBound.mono g5 (hHaH hc), fin _ ?_⟩
    intro t ht
    obtain ⟨q, e, h1, h2⟩ := hph sk t ht
    have hle : a.size ≤ St := by
      rw [hc] at hcov
      exact Nat.le_of_mul_le_mul_left hcov (by omega)
    have : copyTol bk a.size St Ha = 0 := by unfold copyTol; rw [if_pos hle]
    rw [this, mul_zero] at h2
    exact ⟨q, e, h1, h2⟩
  · rw [if_neg hc]
    obtain ⟨tmp, hok, g1, g2, g3, g4, g5, hph⟩ := glweNormalize_stage N bk St a Ha ha hab1 hab hbk1 hbk hHa0 hHa8 hbda
    refine ⟨tmp, hok, g1, g2, g3, g4, GBound.mono g5 hH, fin _ ?_⟩
    intro t ht
    obtain ⟨q, e, h1, h2⟩ := hph sk t ht
    have : C02.normTol (bk * St) (a.base2k * a.size) = 0 := by unfold C02.normTol; rw [if_pos hcov]
    rw [this, mul_zero] at h2
    exact ⟨q, e, h1, h2⟩

/-- tolerance of the exit stage of `glwe_trace` (per unit of `1+‖sk‖₁`, at the scale `2^(bk·St + rb·rs)` of the phase relation):
`copyTol` when the result is in the key radix (`< 2^(bk·St)`, i.e. less than one unit of the result's last limb, for normalised digits
`H = 2^bk − 1`: `copyTol_unit_lt`; `0` when nothing is truncated), `normTol` otherwise (`2^(bk·St)`: one unit; `0` when no precision is lost) -/
def exitTol (bk St rb rs : ℕ) (H : ℤ) : ℤ := if rb = bk then copyTol bk St rs H else C02.normTol (rb * rs) (bk * St)

theorem exitTol_nonneg (bk St rb rs : ℕ) (H : ℤ) (hH : 0 ≤ H) : 0 ≤ exitTol bk St rb rs H := by
  unfold exitTol
  split
  · exact copyTol_nonneg _ _ _ _ hH
  · unfold C02.normTol; split <;> positivity

/-- **the exit stage** of `glwe_trace` (`glwe_copy` when the result is in the key radix, `glwe_normalize` otherwise) -/
theorem trace_exit (N bk rb rs : ℕ) (hN : 0 < N) (t : Ks.Ct) (sk : List Poly) (H : ℤ) (ht : GWF N t) (htb : t.base2k = bk)
    (hbk1 : 1 ≤ bk) (hbk : bk ≤ 62) (hrb1 : 1 ≤ rb) (hrb : rb ≤ 62) (hH0 : 0 ≤ H) (hH8 : H + 8 ≤ 2 ^ 62) (hbd : GBound H t) :
    ∃ r, (if rb = bk then Outcome.ok (Ks.glweCopy rb rs t) else Ks.glweNormalize rb rs t) = .ok r ∧
      GWF N r ∧ r.base2k = rb ∧ r.size = rs ∧ r.rank = t.rank ∧
      ∃ (E : Poly) (Q : Ks.R N), E.length = N ∧
        normInf E ≤ (1 + snorm (min t.rank sk.length) sk) * exitTol bk t.size rb rs H ∧
        (2 ^ (bk * t.size) : ℤ) • Ks.ι N (valP rb N (phase sk r))
          = (2 ^ (rb * rs) : ℤ) • Ks.ι N (valP bk N (phase sk t)) + Ks.ι N E + (2 ^ (rb * rs + bk * t.size) : ℤ) • Q := by
  have fin : ∀ r : Ks.Ct, (∀ u, u < N → ∃ q e : Int,
        2 ^ (bk * t.size) * valCoeff rb (phase sk r) u
          = 2 ^ (rb * rs) * valCoeff bk (phase sk t) u + e + q * 2 ^ (rb * rs + bk * t.size) ∧
          |e| ≤ (1 + snorm (min t.rank sk.length) sk) * exitTol bk t.size rb rs H) →
      ∃ (E : Poly) (Q : Ks.R N), E.length = N ∧
        normInf E ≤ (1 + snorm (min t.rank sk.length) sk) * exitTol bk t.size rb rs H ∧
        (2 ^ (bk * t.size) : ℤ) • Ks.ι N (valP rb N (phase sk r))
          = (2 ^ (rb * rs) : ℤ) • Ks.ι N (valP bk N (phase sk t)) + Ks.ι N E + (2 ^ (rb * rs + bk * t.size) : ℤ) • Q := by
    intro r h
    obtain ⟨E, Q, hE, _, hn, hrel⟩ := coeff_to_ring N hN (phase sk r) (phase sk t) rb bk _ _ _ _ h
    refine ⟨E, Ks.ι N Q, hE, hn, ?_⟩
    simp only [zsmul_eq_mul]
    exact hrel
  by_cases hc : rb = bk
  · rw [if_pos hc]
    obtain ⟨g1, g2, g3, g4, _, hph⟩ := glweCopy_stage N rb rs t H ht (by rw [htb, hc]) hH0 hbd
    refine ⟨_, rfl, g1, g2, g3, g4, fin _ ?_⟩
    intro u hu
    obtain ⟨q, e, h1, h2⟩ := hph sk u hu
    have : exitTol bk t.size rb rs H = copyTol rb t.size rs H := by unfold exitTol; rw [if_pos hc, hc]
    rw [this]
    rw [htb] at h1
    rw [hc] at h1 h2 ⊢
    exact ⟨q, e, h1, h2⟩
  · rw [if_neg hc]
    obtain ⟨r, hok, g1, g2, g3, g4, _, hph⟩ := glweNormalize_stage N rb rs t H ht (by rw [htb]; exact hbk1) (by rw [htb]; exact hbk)
      hrb1 hrb hH0 hH8 hbd
    refine ⟨r, hok, g1, g2, g3, g4, fin _ ?_⟩
    intro u hu
    obtain ⟨q, e, h1, h2⟩ := hph sk u hu
    have : exitTol bk t.size rb rs H = C02.normTol (rb * rs) (bk * t.size) := by unfold exitTol; rw [if_neg hc]
    rw [this]
    rw [htb] at h1 h2
    exact ⟨q, e, h1, h2⟩

/-! ### 3. the composition in `R N` -/

/-- **entry ∘ loop ∘ exit**: from the exact entry relation (wrap `Q₁`), the loop relation of `glwe_trace_loop_decrypts` (scale `c`, noise `ErrL`,
wrap `z`) and the exit relation (error `E₂`, wrap `Q₂`), one relation between the result and the partial trace of the input.  The entry wrap
`2^(Pt+Pa) • Q₁` goes through `traceOp [j, …, K−1]`, which is `ℤ`-linear and maps `Q₁` to `2^n • y` (`trace_suffix`): after the loop's division
by `2^n` it is still an integer multiple of the modulus — **it is absorbed**, like the wraps of the levels. -/
theorem wrap_compose (K j n : ℕ) (hjn : j + n = K) (Pa Pt Pr : ℕ) (c : ℤ) (xa xtmp xt xr eL e2 Q1 Q2 z : Ks.R (2 ^ K))
    (hE1 : (2 ^ Pa : ℤ) • xtmp = (2 ^ Pt : ℤ) • xa + (2 ^ (Pt + Pa) : ℤ) • Q1)
    (hL : (c * 2 ^ n : ℤ) • xt = c • traceOp (2 ^ K) (List.range' j n) xtmp + eL + (c * 2 ^ n * 2 ^ Pt : ℤ) • z)
    (hE2 : (2 ^ Pt : ℤ) • xr = (2 ^ Pr : ℤ) • xt + e2 + (2 ^ (Pr + Pt) : ℤ) • Q2) :
    ∃ Z, (c * 2 ^ n * 2 ^ Pa * 2 ^ Pt : ℤ) • xr
      = (c * 2 ^ Pt * 2 ^ Pr : ℤ) • traceOp (2 ^ K) (List.range' j n) xa + (2 ^ (Pr + Pa) : ℤ) • eL + (c * 2 ^ n * 2 ^ Pa : ℤ) • e2
        + (c * 2 ^ n * 2 ^ Pa * 2 ^ Pt * 2 ^ Pr : ℤ) • Z := by
  obtain ⟨y, _, hy⟩ := trace_suffix K j n hjn Q1
  have hT := congrArg (traceOp (2 ^ K) (List.range' j n)) hE1
  rw [traceOp_zsmul, traceOp_add, traceOp_zsmul, traceOp_zsmul, hy] at hT
  refine ⟨y + z + Q2, ?_⟩
  simp only [zsmul_eq_mul, nsmul_eq_mul] at hT hL hE2 ⊢
  push_cast at hT hL hE2 ⊢
  linear_combination ((c : Ks.R (2 ^ K)) * 2 ^ n * 2 ^ Pa) * hE2 + ((2 : Ks.R (2 ^ K)) ^ Pr * 2 ^ Pa) * hL
    + ((c : Ks.R (2 ^ K)) * 2 ^ Pr) * hT

/-! ### 4. the executed pipeline: entry stage, loop, exit stage -/

/-- `Ks.traceAssign` on a ciphertext in the key radix: its two assertions pass or it does not return `ok`, and it is the loop -/
theorem traceAssign_same_radix (big128 : Bool) (K skip : ℕ) (keys : List Ks.Key) (res r : Ks.Ct) (hn : res.n = 2 ^ K)
    (hrun : Ks.traceAssign big128 res.base2k keys skip res = .ok r) :
    skip ≤ K ∧ Ks.traceLoop big128 keys res ((List.range (K - skip)).map (fun t => skip + t)) = .ok r := by
  unfold Ks.traceAssign at hrun
  simp only [hn, Ks.log2Nat, Nat.log2_two_pow] at hrun
  split at hrun
  · cases hrun
  · rename_i hsk1
    split at hrun
    · cases hrun
    · rw [if_neg (by simp)] at hrun
      exact ⟨by omega, hrun⟩

/-- **the pipeline** entry stage (copy / normalise into `St ≥ ⌈ab·Sa/bk⌉` limbs of the key radix) → `Ks.traceLoop` over the levels
`skip, …, K−1` → exit stage (copy / normalise into `rs` limbs of radix `2^rb`), every stage executed.  With `Pa = ab·Sa`, `Pt = bk·St`,
`Pr = rb·rs`, `c = 2^(Pt + bk·Sk)`, `n = K − skip`, `sn = 1 + ‖sk‖₁`:

`(c·2^n·2^Pa·2^Pt) • φ(r) = (c·2^Pt·2^Pr) • traceOp [skip…K−1] (φ(a)) + 2^(Pr+Pa) • ι ErrL + (c·2^n·2^Pa) • ι E₂ + (c·2^n·2^Pa·2^Pt·2^Pr) • Z`,

`‖ErrL‖∞ ≤ 2^n·Σ_i (c·2·sn + BA i)` (the loop: `glwe_trace_loop_decrypts`), `‖E₂‖∞ ≤ sn·exitTol` (the exit stage).  Dividing by
`c·2^n·2^Pa·2^Pt·2^Pr`: the result decrypts, modulo 1, to `2^(−n)·traceOp(φ(a)/2^Pa)` + the loop noise `ErrL/(c·2^n·2^Pt)` + the exit error
`E₂/(2^Pt·2^Pr)` (at most `sn` units of the result's last limb; none when no precision is lost).  The entry stage contributes NO error
(the temporary covers the precision of `a`) and its wrap is absorbed (`wrap_compose`). -/
theorem trace_pipeline (big128 : Bool) (K skip : ℕ) (hle : skip ≤ K) (hK : K + 1 ≤ 64) (keys : List Ks.Key) (sk : List Poly)
    (bk St rb rs : ℕ) (a tmp t r : Ks.Ct) (Sk : ℕ) (Ha H : ℤ) (BA : ℕ → ℤ)
    (hsk : Ks.AllLen (2 ^ K) sk) (ha : GWF (2 ^ K) a) (hab1 : 1 ≤ a.base2k) (hab : a.base2k ≤ 62) (hrb1 : 1 ≤ rb) (hrb : rb ≤ 62)
    (hHa0 : 0 ≤ Ha) (hHa8 : Ha + 8 ≤ 2 ^ 62) (hbda : GBound Ha a) (hHaH : a.base2k = bk → Ha ≤ H)
    (hh : NormL.HeadRoom 64 bk 0 H) (hb62 : bk ≤ 62) (hH : 2 ^ bk - 1 ≤ H) (hH8 : H + 8 ≤ 2 ^ 62)
    (hcov : a.base2k * a.size ≤ bk * St)
    (hkeys : ∀ i p key, Ks.traceGalois (2 ^ K) i = .ok p → key ∈ keys → key.p = p →
      key.mat.size = Sk ∧ ∃ gInv EL KL Dm, TraceKeyOk big128 (2 ^ K) bk St a.rank sk key gInv EL KL Dm (BA i))
    (hent : (if a.base2k = bk then Outcome.ok (Ks.glweCopy bk St a) else Ks.glweNormalize bk St a) = .ok tmp)
    (hloop : Ks.traceLoop big128 keys tmp ((List.range (K - skip)).map (fun t => skip + t)) = .ok t)
    (hexit : (if rb = bk then Outcome.ok (Ks.glweCopy rb rs t) else Ks.glweNormalize rb rs t) = .ok r) :
    GWF (2 ^ K) r ∧ r.base2k = rb ∧ r.size = rs ∧ r.rank = a.rank ∧
    ∃ (ErrL E2 : Poly) (Z : Ks.R (2 ^ K)), ErrL.length = 2 ^ K ∧ E2.length = 2 ^ K ∧
      normInf ErrL ≤ 2 ^ (K - skip) * ∑ u ∈ Finset.range (K - skip),
        (2 ^ (bk * St + bk * Sk) * (2 * (1 + snorm (min a.rank sk.length) sk)) + BA (skip + u)) ∧
      normInf E2 ≤ (1 + snorm (min a.rank sk.length) sk) * exitTol bk St rb rs H ∧
      (2 ^ (bk * St + bk * Sk) * 2 ^ (K - skip) * 2 ^ (a.base2k * a.size) * 2 ^ (bk * St) : ℤ) •
          Ks.ι (2 ^ K) (valP rb (2 ^ K) (phase sk r))
        = (2 ^ (bk * St + bk * Sk) * 2 ^ (bk * St) * 2 ^ (rb * rs) : ℤ) •
            traceOp (2 ^ K) ((List.range (K - skip)).map (fun u => skip + u)) (Ks.ι (2 ^ K) (valP a.base2k (2 ^ K) (phase sk a)))
          + (2 ^ (rb * rs + a.base2k * a.size) : ℤ) • Ks.ι (2 ^ K) ErrL
          + (2 ^ (bk * St + bk * Sk) * 2 ^ (K - skip) * 2 ^ (a.base2k * a.size) : ℤ) • Ks.ι (2 ^ K) E2
          + (2 ^ (bk * St + bk * Sk) * 2 ^ (K - skip) * 2 ^ (a.base2k * a.size) * 2 ^ (bk * St) * 2 ^ (rb * rs) : ℤ) • Z := by
  have hN : 0 < 2 ^ K := by positivity
  have hbk1 : 1 ≤ bk := hh.hlsh
  obtain ⟨tmp', hent', gt, htb, hts, htr, htbd, Q1, hE1⟩ := trace_entry (2 ^ K) bk St hN a sk Ha H ha hab1 hab hbk1 hb62 hHa0 hHa8 hbda
    hHaH hH hcov
  obtain rfl : tmp' = tmp := by
    have := hent'.symm.trans hent
    injection this
  obtain ⟨g1, g2, g3, g4, g5, ErrL, z, hl, hn, hrel⟩ := glwe_trace_loop_decrypts' big128 K skip (K - skip) (by omega) hK keys sk tmp' t Sk H BA
    hsk gt (by rw [htb]; exact hh) (by rw [htb]; exact hb62) (by rw [htb]; exact hH) htbd (by rw [htb, hts, htr]; exact hkeys) hloop
  obtain ⟨r', hex, e1, e2, e3, e4, E2, Q2, hE2l, hE2n, hE2⟩ := trace_exit (2 ^ K) bk rb rs hN t sk H g1 (g2.trans htb) hbk1 hb62 hrb1 hrb
    hh.hH0 hH8 g5
  obtain rfl : r' = r := by
    have := hex.symm.trans hexit
    injection this
  rw [htb, hts] at hrel hn
  rw [htr] at hn
  rw [g3, hts] at hE2 hE2n
  rw [g4, htr] at hE2n
  have e : (List.range (K - skip)).map (fun u => skip + u) = List.range' skip (K - skip) := List.range'_eq_map_range.symm
  rw [e] at hrel ⊢
  obtain ⟨Z, hZ⟩ := wrap_compose K skip (K - skip) (by omega) (a.base2k * a.size) (bk * St) (rb * rs) (2 ^ (bk * St + bk * Sk))
    _ _ _ _ _ _ Q1 Q2 z hE1 hrel hE2
  exact ⟨e1, e2, e3, e4.trans (g4.trans htr), ErrL, E2, Z, hl, hE2l, hn, hE2n, hZ⟩

/-- **`glwe_trace_decrypts_exec`** — END-TO-END theorem of the executed `Ks.trace big128 bk keys skip rb rs a` (`glwe_trace(res, skip, a, keys)`,
`res` given by its radix `2^rb` and limb count `rs`; `bk` the radix of the keys), all four copy / normalise combinations of the entry and
exit stages.

Hypotheses: `a` well formed, radix in `1..62`, digits `≤ Ha` (`Ha + 8 ≤ 2^62`; `Ha ≤ H` if `a` is already in the key radix); `H` the digit
bound of the loop (C08 head-room `H + 2^bk + 4 ≤ 2^63`, `2^bk − 1 ≤ H`, `H + 8 ≤ 2^62` for the exit normalisation); every key carrying the
Galois element of a level satisfies `TraceKeyOk` for the temporary's layout (`St = traceTmpSize a bk rb rs` limbs of radix `2^bk`, rank of `a`).

Conclusion: the assertions pass (`skip ≤ K`), the result has the requested layout, and the relation of `trace_pipeline` holds. -/
theorem glwe_trace_decrypts_exec (big128 : Bool) (K skip : ℕ) (hK : K + 1 ≤ 64) (keys : List Ks.Key) (sk : List Poly)
    (bk rb rs : ℕ) (a r : Ks.Ct) (Sk : ℕ) (Ha H : ℤ) (BA : ℕ → ℤ)
    (hsk : Ks.AllLen (2 ^ K) sk) (ha : GWF (2 ^ K) a) (hab1 : 1 ≤ a.base2k) (hab : a.base2k ≤ 62) (hrb1 : 1 ≤ rb) (hrb : rb ≤ 62)
    (hHa0 : 0 ≤ Ha) (hHa8 : Ha + 8 ≤ 2 ^ 62) (hbda : GBound Ha a) (hHaH : a.base2k = bk → Ha ≤ H)
    (hh : NormL.HeadRoom 64 bk 0 H) (hb62 : bk ≤ 62) (hH : 2 ^ bk - 1 ≤ H) (hH8 : H + 8 ≤ 2 ^ 62)
    (hkeys : ∀ i p key, Ks.traceGalois (2 ^ K) i = .ok p → key ∈ keys → key.p = p →
      key.mat.size = Sk ∧
        ∃ gInv EL KL Dm, TraceKeyOk big128 (2 ^ K) bk (traceTmpSize a bk rb rs) a.rank sk key gInv EL KL Dm (BA i))
    (hrun : Ks.trace big128 bk keys skip rb rs a = .ok r) :
    skip ≤ K ∧ GWF (2 ^ K) r ∧ r.base2k = rb ∧ r.size = rs ∧ r.rank = a.rank ∧
    ∃ (ErrL E2 : Poly) (Z : Ks.R (2 ^ K)), ErrL.length = 2 ^ K ∧ E2.length = 2 ^ K ∧
      normInf ErrL ≤ 2 ^ (K - skip) * ∑ u ∈ Finset.range (K - skip),
        (2 ^ (bk * traceTmpSize a bk rb rs + bk * Sk) * (2 * (1 + snorm (min a.rank sk.length) sk)) + BA (skip + u)) ∧
      normInf E2 ≤ (1 + snorm (min a.rank sk.length) sk) * exitTol bk (traceTmpSize a bk rb rs) rb rs H ∧
      (2 ^ (bk * traceTmpSize a bk rb rs + bk * Sk) * 2 ^ (K - skip) * 2 ^ (a.base2k * a.size) * 2 ^ (bk * traceTmpSize a bk rb rs) : ℤ) •
          Ks.ι (2 ^ K) (valP rb (2 ^ K) (phase sk r))
        = (2 ^ (bk * traceTmpSize a bk rb rs + bk * Sk) * 2 ^ (bk * traceTmpSize a bk rb rs) * 2 ^ (rb * rs) : ℤ) •
            traceOp (2 ^ K) ((List.range (K - skip)).map (fun u => skip + u)) (Ks.ι (2 ^ K) (valP a.base2k (2 ^ K) (phase sk a)))
          + (2 ^ (rb * rs + a.base2k * a.size) : ℤ) • Ks.ι (2 ^ K) ErrL
          + (2 ^ (bk * traceTmpSize a bk rb rs + bk * Sk) * 2 ^ (K - skip) * 2 ^ (a.base2k * a.size) : ℤ) • Ks.ι (2 ^ K) E2
          + (2 ^ (bk * traceTmpSize a bk rb rs + bk * Sk) * 2 ^ (K - skip) * 2 ^ (a.base2k * a.size)
              * 2 ^ (bk * traceTmpSize a bk rb rs) * 2 ^ (rb * rs) : ℤ) • Z := by
  have hN : 0 < 2 ^ K := by positivity
  have hbk1 : 1 ≤ bk := hh.hlsh
  have hcov := traceTmpSize_covers a bk rb rs hbk1
  obtain ⟨tmp, hent, gt, htb, _, _, _, _⟩ := trace_entry (2 ^ K) bk (traceTmpSize a bk rb rs) hN a sk Ha H ha hab1 hab hbk1 hb62
    hHa0 hHa8 hbda hHaH hH hcov
  have hrun' : Ks.obind (if a.base2k = bk then Outcome.ok (Ks.glweCopy bk (traceTmpSize a bk rb rs) a)
        else Ks.glweNormalize bk (traceTmpSize a bk rb rs) a) (fun tmp =>
      Ks.obind (Ks.traceAssign big128 bk keys skip tmp) (fun t =>
        if rb = bk then Outcome.ok (Ks.glweCopy rb rs t) else Ks.glweNormalize rb rs t)) = .ok r := hrun
  rw [hent] at hrun'
  simp only [Ks.obind] at hrun'
  cases hta : Ks.traceAssign big128 bk keys skip tmp with
  | err s => rw [hta] at hrun'; simp at hrun'
  | panic s => rw [hta] at hrun'; simp at hrun'
  | ok t =>
    rw [hta] at hrun'
    simp only at hrun'
    obtain ⟨hle, hloop⟩ := traceAssign_same_radix big128 K skip keys tmp t gt.1 (by rw [htb]; exact hta)
    exact ⟨hle, trace_pipeline big128 K skip hle hK keys sk bk (traceTmpSize a bk rb rs) rb rs a tmp t r Sk Ha H BA hsk ha hab1 hab hrb1 hrb
      hHa0 hHa8 hbda hHaH hh hb62 hH hH8 hcov hkeys hent hloop hrun'⟩

/-- **`glwe_trace_assign_decrypts_cross`** — the executed `Ks.traceAssign big128 bk keys skip res` (`glwe_trace_assign`) on a ciphertext whose
radix differs from the keys' (`res.base2k ≠ bk`): `glwe_normalize` into `St = ⌈res.size·res.base2k / bk⌉` limbs of the key radix (exact),
the loop, `glwe_normalize` back into the layout of `res` (error `≤ (1+‖sk‖₁)·normTol(Pa, bk·St)`: one unit of the last limb of `res` unless
`bk·St = Pa`).  Same relation as `trace_pipeline`, with `rb = res.base2k`, `rs = res.size`. -/
theorem glwe_trace_assign_decrypts_cross (big128 : Bool) (K skip : ℕ) (hK : K + 1 ≤ 64) (keys : List Ks.Key) (sk : List Poly)
    (bk : ℕ) (res r : Ks.Ct) (Sk : ℕ) (Ha H : ℤ) (BA : ℕ → ℤ) (hne : res.base2k ≠ bk)
    (hsk : Ks.AllLen (2 ^ K) sk) (hr : GWF (2 ^ K) res) (hab1 : 1 ≤ res.base2k) (hab : res.base2k ≤ 62)
    (hHa0 : 0 ≤ Ha) (hHa8 : Ha + 8 ≤ 2 ^ 62) (hbda : GBound Ha res)
    (hh : NormL.HeadRoom 64 bk 0 H) (hb62 : bk ≤ 62) (hH : 2 ^ bk - 1 ≤ H) (hH8 : H + 8 ≤ 2 ^ 62)
    (hkeys : ∀ i p key, Ks.traceGalois (2 ^ K) i = .ok p → key ∈ keys → key.p = p →
      key.mat.size = Sk ∧
        ∃ gInv EL KL Dm, TraceKeyOk big128 (2 ^ K) bk (Ks.divCeil (res.size * res.base2k) bk) res.rank sk key gInv EL KL Dm (BA i))
    (hrun : Ks.traceAssign big128 bk keys skip res = .ok r) :
    skip ≤ K ∧ GWF (2 ^ K) r ∧ r.base2k = res.base2k ∧ r.size = res.size ∧ r.rank = res.rank ∧
    ∃ (ErrL E2 : Poly) (Z : Ks.R (2 ^ K)), ErrL.length = 2 ^ K ∧ E2.length = 2 ^ K ∧
      normInf ErrL ≤ 2 ^ (K - skip) * ∑ u ∈ Finset.range (K - skip),
        (2 ^ (bk * Ks.divCeil (res.size * res.base2k) bk + bk * Sk) * (2 * (1 + snorm (min res.rank sk.length) sk)) + BA (skip + u)) ∧
      normInf E2 ≤ (1 + snorm (min res.rank sk.length) sk) *
        C02.normTol (res.base2k * res.size) (bk * Ks.divCeil (res.size * res.base2k) bk) ∧
      (2 ^ (bk * Ks.divCeil (res.size * res.base2k) bk + bk * Sk) * 2 ^ (K - skip) * 2 ^ (res.base2k * res.size)
          * 2 ^ (bk * Ks.divCeil (res.size * res.base2k) bk) : ℤ) • Ks.ι (2 ^ K) (valP res.base2k (2 ^ K) (phase sk r))
        = (2 ^ (bk * Ks.divCeil (res.size * res.base2k) bk + bk * Sk) * 2 ^ (bk * Ks.divCeil (res.size * res.base2k) bk)
            * 2 ^ (res.base2k * res.size) : ℤ) •
            traceOp (2 ^ K) ((List.range (K - skip)).map (fun u => skip + u)) (Ks.ι (2 ^ K) (valP res.base2k (2 ^ K) (phase sk res)))
          + (2 ^ (res.base2k * res.size + res.base2k * res.size) : ℤ) • Ks.ι (2 ^ K) ErrL
          + (2 ^ (bk * Ks.divCeil (res.size * res.base2k) bk + bk * Sk) * 2 ^ (K - skip) * 2 ^ (res.base2k * res.size) : ℤ) •
              Ks.ι (2 ^ K) E2
          + (2 ^ (bk * Ks.divCeil (res.size * res.base2k) bk + bk * Sk) * 2 ^ (K - skip) * 2 ^ (res.base2k * res.size)
              * 2 ^ (bk * Ks.divCeil (res.size * res.base2k) bk) * 2 ^ (res.base2k * res.size) : ℤ) • Z := by
  have hN : 0 < 2 ^ K := by positivity
  have hbk1 : 1 ≤ bk := hh.hlsh
  have hn : res.n = 2 ^ K := hr.1
  have hcov : res.base2k * res.size ≤ bk * Ks.divCeil (res.size * res.base2k) bk := by
    rw [Nat.mul_comm res.base2k res.size]; exact divCeil_covers _ _ hbk1
  generalize hSt : Ks.divCeil (res.size * res.base2k) bk = St at *
  obtain ⟨tmp, hent, gt, htb, _, _, _, _⟩ := trace_entry (2 ^ K) bk St hN res sk Ha H hr hab1 hab hbk1 hb62
    hHa0 hHa8 hbda (fun h => absurd h hne) hH hcov
  have hent' : Ks.glweNormalize bk St res = .ok tmp := by rw [if_neg hne] at hent; exact hent
  unfold Ks.traceAssign at hrun
  simp only [hn, Ks.log2Nat, Nat.log2_two_pow] at hrun
  split at hrun
  · cases hrun
  · rename_i hsk1
    split at hrun
    · cases hrun
    · rw [hSt, hent'] at hrun
      simp only [Ks.obind] at hrun
      have hle : skip ≤ K := by omega
      cases hlo : Ks.traceLoop big128 keys tmp ((List.range (K - skip)).map (fun t => skip + t)) with
      | err s => rw [hlo] at hrun; simp at hrun
      | panic s => rw [hlo] at hrun; simp at hrun
      | ok t =>
        rw [hlo] at hrun
        simp only at hrun
        have hexit : (if res.base2k = bk then Outcome.ok (Ks.glweCopy res.base2k res.size t)
            else Ks.glweNormalize res.base2k res.size t) = .ok r := by rw [if_neg hne]; exact hrun
        have := trace_pipeline big128 K skip hle hK keys sk bk St res.base2k res.size res tmp t r Sk Ha H BA hsk hr hab1 hab hab1 hab
          hHa0 hHa8 hbda (fun h => absurd h hne) hh hb62 hH hH8 hcov hkeys hent hlo hexit
        have he : exitTol bk St res.base2k res.size H = C02.normTol (res.base2k * res.size) (bk * St) := by
          unfold exitTol; rw [if_neg hne]
        rw [he] at this
        exact ⟨hle, this⟩

/-! ### 5. a closed instance: radix `2^2` in, keys in radix `2^4`, radix `2^2` out (`N = 2`, one level, the key of Lemmas/TraceNoise.lean) -/

/-- rank 1, four limbs of radix `2^2` (`N = 2`); phase `−7 + 101·X` at scale `2^8` under `1 + X` -/
def trA : Ks.Ct := Ks.mkCt 2 2 [[[1, 0], [-1, 1], [0, 1], [1, -1]], [[0, 1], [1, 0], [-1, 1], [1, 1]]]

/-- the result of the executed `glwe_trace` into four limbs of radix `2^2` -/
def trAOut : Ks.Ct := Ks.mkCt 2 2 [[[-1, -1], [-1, -2], [-1, 1], [1, -1]], [[0, -2], [-2, 1], [-2, -2], [1, 1]]]

theorem trA_run (big128 : Bool) : Ks.trace big128 4 [trKey] 0 2 4 trA = .ok trAOut := by
  cases big128 <;> decide +kernel

/-- **closed instance of `glwe_trace_decrypts_exec`**: input in radix `2^2` (4 limbs), the key `trKey` (radix `2^4`), result in radix `2^2`
(4 limbs): entry `glwe_normalize` into `⌈8/4⌉ = 2` limbs of radix `2^4`, the level `0`, exit `glwe_normalize`; both accumulator widths.
Every hypothesis by evaluation; the exit stage loses no precision (`E₂ = 0`); the loop noise is that of `trace_closed_instance`. -/
theorem trace_wrap_closed_instance (big128 : Bool) :
    ∃ (ErrL E2 : Poly) (Z : Ks.R (2 ^ 1)), ErrL.length = 2 ^ 1 ∧ E2.length = 2 ^ 1 ∧
      normInf ErrL ≤ 2 * (2 ^ 16 * (6 + 32)) ∧ normInf E2 ≤ 0 ∧
      (2 ^ 16 * 2 ^ 1 * 2 ^ 8 * 2 ^ 8 : ℤ) • Ks.ι (2 ^ 1) (valP 2 (2 ^ 1) (phase trSk trAOut))
        = (2 ^ 16 * 2 ^ 8 * 2 ^ 8 : ℤ) • traceOp (2 ^ 1) [0] (Ks.ι (2 ^ 1) [-7, 101])
          + (2 ^ 16 : ℤ) • Ks.ι (2 ^ 1) ErrL + (2 ^ 16 * 2 ^ 1 * 2 ^ 8 : ℤ) • Ks.ι (2 ^ 1) E2
          + (2 ^ 16 * 2 ^ 1 * 2 ^ 8 * 2 ^ 8 * 2 ^ 8 : ℤ) • Z := by
  have hk := traceKeyOk_of_d1 (trKey_d1 big128)
  obtain ⟨_, _, _, _, _, ErrL, E2, Z, h1, h2, h3, h4, h5⟩ := glwe_trace_decrypts_exec big128 1 0 (by norm_num) [trKey] trSk 4 2 4 trA trAOut
    2 1 (2 ^ 60) (fun _ => traceBA (2 ^ 1) 4 2 trKey.mat.size trKey.mat.colsIn trKey.mat.rows (1 + snorm (min 1 trSk.length) trSk) 1)
    (by intro p hp; simp [trSk] at hp; subst hp; rfl) (by decide) (by decide) (by decide) (by decide) (by decide)
    (by norm_num) (by norm_num) (by intro c hc l hl x hx; revert x l c; decide) (by intro h; exact absurd h (by decide))
    C02.hr4b (by decide) (by norm_num) (by norm_num)
    (by
      intro i p key _ hm _
      obtain rfl : key = trKey := by simpa using hm
      exact ⟨rfl, -1, trEL, fun _ _ => [0, 0], 2, hk⟩)
    (trA_run big128)
  have e1 : valP 2 (2 ^ 1) (phase trSk trA) = [-7, 101] := by decide +kernel
  have e3 : snorm (min trA.rank trSk.length) trSk = 2 := by decide +kernel
  have e4 : traceBA (2 ^ 1) 4 2 trKey.mat.size trKey.mat.colsIn trKey.mat.rows (1 + snorm (min 1 trSk.length) trSk) 1 = 2 ^ 16 * 32 := by
    have : snorm (min 1 trSk.length) trSk = 2 := by decide +kernel
    rw [this]
    show traceBA (2 ^ 1) 4 2 2 1 2 (1 + 2) 1 = _
    unfold traceBA C02.normTol; norm_num
  have e5 : traceTmpSize trA 4 2 4 = 2 := by decide
  have e6 : trA.base2k = 2 := rfl
  have e7 : trA.size = 4 := rfl
  have e8 : exitTol 4 2 2 4 (2 ^ 60) = 0 := by unfold exitTol C02.normTol; norm_num
  rw [e5] at h3 h4 h5
  rw [e3, e4] at h3
  rw [e3, e8] at h4
  rw [e6, e7, e1] at h5
  refine ⟨ErrL, E2, Z, h1, h2, ?_, by simpa using h4, h5⟩
  norm_num [Finset.sum_range_one] at h3 ⊢
  exact h3

/-- the result of the executed `glwe_trace` into ONE limb of the key radix `2^4` (exit stage: truncating `glwe_copy`) -/
def trAOut1 : Ks.Ct := Ks.mkCt 4 2 [[[-5, -6]], [[-2, -7]]]

theorem trA_run1 (big128 : Bool) : Ks.trace big128 4 [trKey] 0 4 1 trA = .ok trAOut1 := by
  cases big128 <;> decide +kernel

/-- **closed instance, truncating exit**: the same input, result = one limb of radix `2^4`: entry `glwe_normalize` into 2 limbs, the level `0`,
exit `glwe_copy` dropping one limb; loop digit bound `H = 2^4 − 1`, so the exit error is `≤ (1+‖sk‖₁)·2^4·(2^4−1) < (1+‖sk‖₁)·2^8`:
less than `1+‖sk‖₁ = 3` units of the result's last limb. -/
theorem trace_wrap_closed_instance_trunc (big128 : Bool) :
    ∃ (ErrL E2 : Poly) (Z : Ks.R (2 ^ 1)), ErrL.length = 2 ^ 1 ∧ E2.length = 2 ^ 1 ∧
      normInf ErrL ≤ 2 * (2 ^ 16 * (6 + 32)) ∧ normInf E2 ≤ 3 * (2 ^ 4 * (2 ^ 4 - 1)) ∧
      (2 ^ 16 * 2 ^ 1 * 2 ^ 8 * 2 ^ 8 : ℤ) • Ks.ι (2 ^ 1) (valP 4 (2 ^ 1) (phase trSk trAOut1))
        = (2 ^ 16 * 2 ^ 8 * 2 ^ 4 : ℤ) • traceOp (2 ^ 1) [0] (Ks.ι (2 ^ 1) [-7, 101])
          + (2 ^ 12 : ℤ) • Ks.ι (2 ^ 1) ErrL + (2 ^ 16 * 2 ^ 1 * 2 ^ 8 : ℤ) • Ks.ι (2 ^ 1) E2
          + (2 ^ 16 * 2 ^ 1 * 2 ^ 8 * 2 ^ 8 * 2 ^ 4 : ℤ) • Z := by
  have hk := traceKeyOk_of_d1 (trKey_d1 big128)
  obtain ⟨_, _, _, _, _, ErrL, E2, Z, h1, h2, h3, h4, h5⟩ := glwe_trace_decrypts_exec big128 1 0 (by norm_num) [trKey] trSk 4 4 1 trA trAOut1
    2 1 (2 ^ 4 - 1) (fun _ => traceBA (2 ^ 1) 4 2 trKey.mat.size trKey.mat.colsIn trKey.mat.rows (1 + snorm (min 1 trSk.length) trSk) 1)
    (by intro p hp; simp [trSk] at hp; subst hp; rfl) (by decide) (by decide) (by decide) (by decide) (by decide)
    (by norm_num) (by norm_num) (by intro c hc l hl x hx; revert x l c; decide) (by intro h; exact absurd h (by decide))
    ⟨by norm_num, by norm_num, by norm_num, by norm_num, by norm_num⟩ (by decide) (by norm_num) (by norm_num)
    (by
      intro i p key _ hm _
      obtain rfl : key = trKey := by simpa using hm
      exact ⟨rfl, -1, trEL, fun _ _ => [0, 0], 2, hk⟩)
    (trA_run1 big128)
  have e1 : valP 2 (2 ^ 1) (phase trSk trA) = [-7, 101] := by decide +kernel
  have e3 : snorm (min trA.rank trSk.length) trSk = 2 := by decide +kernel
  have e4 : traceBA (2 ^ 1) 4 2 trKey.mat.size trKey.mat.colsIn trKey.mat.rows (1 + snorm (min 1 trSk.length) trSk) 1 = 2 ^ 16 * 32 := by
    have : snorm (min 1 trSk.length) trSk = 2 := by decide +kernel
    rw [this]
    show traceBA (2 ^ 1) 4 2 2 1 2 (1 + 2) 1 = _
    unfold traceBA C02.normTol; norm_num
  have e5 : traceTmpSize trA 4 4 1 = 2 := by decide
  have e6 : trA.base2k = 2 := rfl
  have e7 : trA.size = 4 := rfl
  have e8 : exitTol 4 2 4 1 (2 ^ 4 - 1) = 2 ^ 4 * (2 ^ 4 - 1) := by
    unfold exitTol copyTol truncTol
    simp [geomB]
  rw [e5] at h3 h4 h5
  rw [e3, e4] at h3
  rw [e3, e8] at h4
  rw [e6, e7, e1] at h5
  refine ⟨ErrL, E2, Z, h1, h2, ?_, by linarith, h5⟩
  norm_num [Finset.sum_range_one] at h3 ⊢
  exact h3

end KsDec
