import Poulpy.Lemmas.TensorValue
import Poulpy.Lemmas.EpTotal

/-!
relinearise ∘ tensor: in the covered regime (the tensor's limbs fit the tensor key), what `glwe_tensor_relinearize` adds up — the pair
columns through the gadget product, the first `rank+1` columns directly — is the phase of the tensor under the grouped secret.
-/

namespace Core
open Hal Ks Finset C02L Core.Ops KsDec

/-- the tensor's pair columns as handed to the gadget product when the tensor is in the key radix -/
def relinInput (n : Nat) (a : List Col) (g : GGLWE) : List Col :=
  (List.range g.colsIn).map (fun i =>
    Hal.dftApplyCol n 1 0 (((a.getD 0 []).length * g.base2k + g.base2k - 1) / g.base2k) (a.getD (g.colsOut + i) []))

theorem relinInput_eq (N : Nat) (T : List Col) (g : GGLWE) (rsT : Nat) (hb1 : 1 ≤ g.base2k) (hT0 : 0 < T.length)
    (hTlen : T.length = g.colsOut + g.colsIn) (hTwf : ∀ c ∈ T, ColWF N rsT c) :
    relinInput N T g = (List.range g.colsIn).map (fun i => T.getD (g.colsOut + i) []) := by
  unfold relinInput
  apply List.map_congr_left
  intro i hi
  have hi' := List.mem_range.mp hi
  have h0 : (T.getD 0 []).length = rsT := by
    rw [List.getD_eq_getElem?_getD, List.getElem?_eq_getElem hT0]; exact (hTwf _ (List.getElem_mem hT0)).1
  have hk : g.colsOut + i < T.length := by omega
  have h1 : (T.getD (g.colsOut + i) []).length = rsT := by
    rw [List.getD_eq_getElem?_getD, List.getElem?_eq_getElem hk]; exact (hTwf _ (List.getElem_mem hk)).1
  have e : (rsT * g.base2k + g.base2k - 1) / g.base2k = rsT := by
    have : rsT * g.base2k + g.base2k - 1 = g.base2k * rsT + (g.base2k - 1) := by
      rw [Nat.mul_comm]; omega
    rw [this, Nat.mul_add_div (by omega), Nat.div_eq_of_lt (by omega)]; omega
  rw [h0, e]
  have := dftApplyCol_id N (T.getD (g.colsOut + i) [])
  rw [h1] at this
  exact this

/-- **covered regime**: pair columns through `usedVal` + first columns at `S` limbs = `β^{S − rsT}` × the tensor phase under the grouped secret -/
theorem relin_covered_value (N : Nat) (hN : 0 < N) (T : List Col) (g : GGLWE) (sk skG : List Poly) (σ' : ℕ → R N) (rsT : Nat)
    (hTlen : T.length = g.colsOut + g.colsIn) (hc1 : 1 ≤ g.colsOut) (hTwf : ∀ c ∈ T, ColWF N rsT c)
    (hb1 : 1 ≤ g.base2k) (hd : 1 ≤ g.dsize) (h1 : rsT ≤ g.size) (h2 : rsT ≤ g.dnum * g.dsize)
    (hskl : g.colsOut - 1 ≤ sk.length) (hskGl : skG.length = T.length - 1)
    (hskG1 : ∀ k, k < g.colsOut - 1 → skG.getD k [] = sk.getD k [])
    (hskG2 : ∀ p, p < g.colsIn → ι N (skG.getD (g.colsOut - 1 + p) []) = σ' p) :
    1 * ∑ p ∈ range g.colsIn, σ' p * Gadget.usedVal ((2 : R N) ^ g.base2k) g.size g.dsize g.dnum ((relinInput N T g).getD 0 []).length
          (Ks.inLimb N (mkBuf g.n g.colsIn ((relinInput N T g).getD 0 []).length (relinInput N T g)) p)
      + ι N (valP g.base2k N (phase sk (Ks.mkCt g.base2k N ((List.range g.colsOut).map (fun j => fit N g.size (T.getD j []))))))
      = ((2 : R N) ^ g.base2k) ^ (g.size - rsT) * ι N (valP g.base2k N (phase skG (Ks.mkCt g.base2k N T))) := by
  have hT0 : 0 < T.length := by omega
  have hTne : T ≠ [] := by intro h; rw [h] at hT0; simp at hT0
  have hcol : ∀ k, k < T.length → ColWF N rsT (T.getD k []) := by
    intro k hk
    rw [List.getD_eq_getElem?_getD, List.getElem?_eq_getElem hk]; exact hTwf _ (List.getElem_mem hk)
  have hri := relinInput_eq N T g rsT hb1 hT0 hTlen hTwf
  -- the tensor phase as a sum
  have hΦ := ι_valP_phase_cols N hN g.base2k rsT skG T hTne hTwf
  rw [hskGl, Nat.min_self] at hΦ
  have hsplit : T.length - 1 = (g.colsOut - 1) + g.colsIn := by omega
  rw [hsplit, Finset.sum_range_add] at hΦ
  -- the first columns
  have hfwf : ∀ c ∈ (List.range g.colsOut).map (fun j => fit N g.size (T.getD j [])), ColWF N g.size c := by
    intro c hc
    obtain ⟨j, hj, rfl⟩ := List.mem_map.mp hc
    exact fit_wf (hcol j (by have := List.mem_range.mp hj; omega)).2 g.size
  have hfne : (List.range g.colsOut).map (fun j => fit N g.size (T.getD j [])) ≠ [] := by
    intro h; have := congrArg List.length h; simp at this; omega
  have hF := ι_valP_phase_cols N hN g.base2k g.size sk _ hfne hfwf
  simp only [List.length_map, List.length_range] at hF
  rw [Nat.min_eq_left hskl] at hF
  have hfget : ∀ j, j < g.colsOut → ((List.range g.colsOut).map (fun j => fit N g.size (T.getD j []))).getD j [] = fit N g.size (T.getD j []) :=
    fun j hj => getD_range_map g.colsOut j _ hj
  have hfit : ∀ j, j < g.colsOut → ι N (valP g.base2k N (fit N g.size (T.getD j [])))
      = ((2 : R N) ^ g.base2k) ^ (g.size - rsT) * ι N (valP g.base2k N (T.getD j [])) := by
    intro j hj
    have hc := hcol j (by omega)
    have := ι_valP_fit N g.base2k g.size (T.getD j []) hc.2 (by rw [hc.1]; exact h1)
    rw [hc.1, Ks.radix_eq] at this
    exact this
  rw [hF, hfget 0 (by omega), hfit 0 (by omega), hΦ]
  have e1 : ∑ i ∈ range (g.colsOut - 1), ι N (sk.getD i []) *
        ι N (valP g.base2k N (((List.range g.colsOut).map (fun j => fit N g.size (T.getD j []))).getD (i + 1) []))
      = ((2 : R N) ^ g.base2k) ^ (g.size - rsT) * ∑ i ∈ range (g.colsOut - 1), ι N (skG.getD i []) * ι N (valP g.base2k N (T.getD (i + 1) [])) := by
    rw [Finset.mul_sum]
    apply Finset.sum_congr rfl
    intro i hi
    have hi' : i < g.colsOut - 1 := mem_range.mp hi
    rw [hfget (i + 1) (by omega), hfit (i + 1) (by omega), hskG1 i hi']
    ring
  have e2 : ∑ p ∈ range g.colsIn, σ' p * Gadget.usedVal ((2 : R N) ^ g.base2k) g.size g.dsize g.dnum ((relinInput N T g).getD 0 []).length
        (Ks.inLimb N (mkBuf g.n g.colsIn ((relinInput N T g).getD 0 []).length (relinInput N T g)) p)
      = ((2 : R N) ^ g.base2k) ^ (g.size - rsT) * ∑ p ∈ range g.colsIn, ι N (skG.getD (g.colsOut - 1 + p) []) *
          ι N (valP g.base2k N (T.getD (g.colsOut - 1 + p + 1) [])) := by
    rw [Finset.mul_sum]
    apply Finset.sum_congr rfl
    intro p hp
    have hp' : p < g.colsIn := mem_range.mp hp
    have hk : g.colsOut + p < T.length := by omega
    have hc := hcol (g.colsOut + p) hk
    have hlen0 : ((relinInput N T g).getD 0 []).length = rsT := by
      rw [hri, getD_range_map g.colsIn 0 _ (by omega)]
      exact (hcol (g.colsOut + 0) (by omega)).1
    rw [hlen0, C03.used_value_is_input_value _ _ _ _ _ _ (by omega) h2, hskG2 p hp']
    have hin : ∀ m, Ks.inLimb N (mkBuf g.n g.colsIn rsT (relinInput N T g)) p m = ι N (limbOr0 N (T.getD (g.colsOut + p) []) m) := by
      intro m
      unfold Ks.inLimb Buf.act mkBuf
      simp only []
      rw [hri, getD_range_map g.colsIn p _ hp', List.take_of_length_le (by rw [hc.1])]
    simp only [hin]
    have hat := ι_valP_at N g.base2k g.size (T.getD (g.colsOut + p) []) hc.2 (by rw [hc.1]; exact h1)
    rw [hc.1, Ks.radix_eq] at hat
    have e3 : g.colsOut - 1 + p + 1 = g.colsOut + p := by omega
    rw [e3, hat]
    ring
  rw [e1, one_mul, e2]
  ring

end Core
