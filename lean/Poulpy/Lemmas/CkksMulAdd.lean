import Poulpy.Lemmas.CkksDot
import Poulpy.Lemmas.CkksXStep
/-!
# C16: `ckks_mul_{add,sub}_ct_into`, `ckks_mul_{add,sub}_pt_vec_znx_into` on tracked states

The product goes into `take_mul_tmp(dst)` (a scratch ciphertext with the destination's layout), then
`ckks_{add,sub}_assign(dst, tmp)` — the normalising in-place sum of the linear fragment.  The value theorem composes the product
theorems (`mul_core` under `MulAdm`, `mulPt_core` discharged) with `dAddAssign_sem`.
-/

namespace Ckks
open Hal Core Core.Ops C02L Ckks.Sem Ckks.CoreSem KsDec AutoMul

theorem mulAddWith_ok {env : Env} {dst : Ct} {prod : Ct → Res Ct} {m : Ct} (h : mulAddWith env dst prod = .ok m) :
    ∃ mt, prod (mulTmp dst) = .ok mt ∧ addCtAssign env dst mt = .ok m := by
  unfold mulAddWith at h
  cases hp : prod (mulTmp dst) with
  | ok t => rw [hp] at h; exact ⟨t, rfl, h⟩
  | err e x => rw [hp] at h; cases h
  | panic p => rw [hp] at h; cases h

theorem tmpLike_dok {env : Env} {N r : Nat} {d : DCt} (hd : DOK env N r d) : DOK env N r (tmpLike N d) :=
  (tmpLike_gb hd).1.mono (half_nonneg _)

/-- the second half of a `mul_add` / `mul_sub`: the product `tmp` is in the temporary -/
theorem dMulAddWith_sem {env : Env} (he : EnvOK env) {N r : Nat} {cd : DCt} (hcd : DOK env N r cd) (sub : Bool)
    {prodD : DCt → Outcome DCt} {tmp : DCt} (hprod : prodD (tmpLike N cd) = .ok tmp) (htok : DOK env N r tmp)
    {m : Ct} (hadd : addCtAssign env cd.ct tmp.ct = .ok m) :
    ∃ c', dMulAddWith env N sub cd prodD = .ok c' ∧ c'.ct = m ∧ DOK env N r c' ∧
      c'.md.logBudget ≤ cd.md.logBudget ∧ c'.md.logBudget ≤ tmp.md.logBudget ∧
      ∀ s t, t < N → Near (decC s c' t) (decC s cd t + sg sub * decC s tmp t) (wrap c') (sn r s * ulp c') := by
  obtain ⟨c', h1, hct, hok, hv⟩ := dAddAssign_sem he hcd htok sub hadd
  have hb := addCtAssign_budget hadd
  have hmd : c'.md = m.md := by have := congrArg Ct.md hct; simpa [DCt.ct] using this
  refine ⟨c', by simp only [dMulAddWith, hprod, Core.Ops.bind]; exact h1, hct, hok, ?_, ?_, hv⟩
  · rw [hmd]; exact hb.1
  · rw [hmd]; exact hb.2

/-- tracking through the sum -/
theorem mulAdd_tracks {s : List Poly} {N : Nat} {cd tmp c' : DCt} {sub : Bool} {e0 : ℚ}
    (hv : ∀ t, t < N → Near (decC s c' t) (decC s cd t + sg sub * decC s tmp t) (wrap c') e0)
    (hb1 : c'.md.logBudget ≤ cd.md.logBudget) (hb2 : c'.md.logBudget ≤ tmp.md.logBudget)
    {Md V : Nat → ℚ} {Ed Et : ℚ} (hd : ∀ t, t < N → Near (decC s cd t) (Md t) (wrap cd) Ed)
    (ht : ∀ t, t < N → Near (decC s tmp t) (V t) (wrap tmp) Et) :
    ∀ t, t < N → Near (decC s c' t) (1 * Md t + sg sub * V t) (wrap c') (e0 + (1 * Ed + 1 * Et)) := by
  intro t htN
  have h0 := hv t htN
  rw [← one_mul (decC s cd t)] at h0
  have := Near.comp2 (β' := c'.md.logBudget) (βa := cd.md.logBudget) (βb := tmp.md.logBudget) h0 (hd t htN) (ht t htN)
    (dvd_one hb1) (dvd_sg sub hb2)
  simpa [abs_sg, wrap] using this

/-- one unit of the last limb of the temporary a `mul_add` produces: from the metadata of the product into `take_mul_tmp(dst)` -/
def tmpUlp (env : Env) (P : Pool) (d : Nat) (prod : Ct → Res Ct) : ℚ :=
  match P[d]? with
  | some cd =>
    match prod (mulTmp cd) with
    | .ok mt => ulpM env mt
    | _ => 0
  | none => 0

theorem tmpUlp_eq {env : Env} {P : Pool} {d : Nat} {cd mt : Ct} {prod : Ct → Res Ct} (hd : P[d]? = some cd)
    (hp : prod (mulTmp cd) = .ok mt) : tmpUlp env P d prod = ulpM env mt := by
  simp only [tmpUlp, hd, hp]

/-! ### ct × ct -/

theorem mulInto_lims {env : Env} {dst a b m : Ct} (hf : mulInto env dst a b = .ok m) :
    ∃ q, mulCtParams env dst a b = .ok q ∧ m = { dst with md := ⟨q.delta, q.budget⟩ } ∧
      (¬ effLimbs env a > a.size ∧ effLimbs env a ≠ 0) ∧ (¬ effLimbs env b > b.size ∧ effLimbs env b ≠ 0) := by
  obtain ⟨q, hq, _⟩ := mulInto_params hf
  have hf' := hf
  simp only [mulInto, hq] at hf'
  obtain ⟨hchk, hmq⟩ := finishMul_ok' hf'
  refine ⟨q, hq, hmq, ?_⟩
  unfold tensorCheck at hchk
  split at hchk
  · cases hchk
  · next h1 =>
    split at hchk
    · cases hchk
    · next h2 =>
      split at hchk
      · cases hchk
      · next h3 =>
        push Not at h3
        exact ⟨⟨h1, h3.1⟩, ⟨h2, h3.2⟩⟩

def specMulAdd (N : Nat) (σ Uc u ut : ℚ) (δa δb : Nat) (sub : Bool) (τ : TS) (d a b : Nat) : TS :=
  ⟨upd τ.M d (fun t => 1 * τ.M d t + sg sub * (qNegMul (polyOf N (τ.M a)) (polyOf N (τ.M b))).getD t 0),
   upd τ.E d (σ * u + (1 * τ.E d + 1 * (Uc * ut + N * (τ.B a * (τ.E b + σ / 2 ^ δb) + (τ.E a + σ / 2 ^ δa) * (τ.B b + (τ.E b + σ / 2 ^ δb)))))),
   upd τ.B d (τ.B d + N * τ.B a * τ.B b)⟩

/-- the metadata-level product of slots `a`, `b` into a temporary -/
def prodCt (env : Env) (P : Pool) (a b : Nat) : Ct → Res Ct := fun t =>
  match P[a]?, P[b]? with
  | some ca, some cb => mulInto env t ca cb
  | _, _ => .err .badSlot t

theorem abs_add_sg_le {x y bx by' : ℚ} (sub : Bool) (hx : |x| ≤ bx) (hy : |y| ≤ by') : |1 * x + sg sub * y| ≤ bx + by' := by
  have h1 : |sg sub * y| = |y| := by rw [abs_mul, abs_sg, one_mul]
  calc |1 * x + sg sub * y| ≤ |1 * x| + |sg sub * y| := abs_add_le _ _
    _ = |x| + |y| := by rw [one_mul, h1]
    _ ≤ bx + by' := add_le_add hx hy

/-- **`ckks_mul_add_ct_into` / `ckks_mul_sub_ct_into`** on a pool, contract form -/
theorem xstep_mulAdd {env : Env} (he : EnvOK env) {N r : Nat} {mk : MulKey} {ak : AutKeys} {pool : DPool}
    (hp : AllOK env N r pool) {sub : Bool} {d a b : Nat} {mp : Pool} (hm : stepR env (DPool.cts pool) (.mulAddCt d a b) = .ok mp)
    (s : List Poly) {Uc : ℚ} (hUc : 0 ≤ Uc)
    (hadm : ∀ cd ca cb, pool[d]? = some cd → pool[a]? = some ca → pool[b]? = some cb →
      ∀ mt, mulInto env (tmpLike N cd).ct ca.ct cb.ct = .ok mt → ∀ q, mulCtParams env (tmpLike N cd).ct ca.ct cb.ct = .ok q →
        MulAdm env N r s Uc (tmpLike N cd) ca cb (dMulInto env N mk (tmpLike N cd) ca cb) q) :
    XGoal env N r mk ak s pool (.mulAdd sub d a b) mp
      (fun τ => specMulAdd N (sn r s) Uc (ulpAt env mp d) (tmpUlp env (DPool.cts pool) d (prodCt env (DPool.cts pool) a b))
        (mdAt (DPool.cts pool) a).logDelta (mdAt (DPool.cts pool) b).logDelta sub τ d a b) := by
  obtain ⟨cd, ca, cb, m, hd, ha, hb, hda, hdb, hf, rfl⟩ := op3_ok' (show op3 _ d a b (mulAddCt env) = .ok mp from hm)
  obtain ⟨xd, hxd, rfl⟩ := cts_some hd
  obtain ⟨xa, hxa, rfl⟩ := cts_some ha
  obtain ⟨xb, hxb, rfl⟩ := cts_some hb
  obtain ⟨mt, hpm, hadd⟩ := mulAddWith_ok (show mulAddWith env xd.ct (fun t => mulInto env t xa.ct xb.ct) = .ok m from hf)
  have hxdok := hp.get hxd
  have htct : (tmpLike N xd).ct = mulTmp xd.ct := tmpLike_ct N hxdok
  have hpm' : mulInto env (tmpLike N xd).ct xa.ct xb.ct = .ok mt := by rw [htct]; exact hpm
  obtain ⟨q, hq, hmq, hl1, hl2⟩ := mulInto_lims hpm'
  obtain ⟨tmp, ht1, htc, htok, htv⟩ := mul_core he (hp.get hxa) (hp.get hxb) hq hl1.1 hl1.2 hl2.1 hl2.2 hUc
    (hadm xd xa xb hxd hxa hxb mt hpm' q hq)
  have htmt : tmp.ct = mt := by rw [htc, hmq]
  obtain ⟨c', h1, hct, hok, hb1, hb2, hv⟩ := dMulAddWith_sem he hxdok sub (prodD := fun t => dMulInto env N mk t xa xb) ht1 htok
    (by rw [htmt]; exact hadd)
  refine ⟨pool.set d c', dop3_ok hxd hxa hxb hda hdb h1, by rw [cts_set, hct], hp.set d hok, fun τ hτ => ?_⟩
  simp only [specMulAdd]
  have hut : tmpUlp env (DPool.cts pool) d (prodCt env (DPool.cts pool) a b) = ulp tmp := by
    rw [tmpUlp_eq hd (mt := mt) (by simp only [prodCt, ha, hb]; exact hpm), ← htmt, ← ulp_eq_ulpM htok]
  rw [ulpAt_set hd, ← hct, ← ulp_eq_ulpM hok, mdAt_some ha, mdAt_some hb, hut]
  obtain ⟨h2, h3⟩ := htv (τ.M a) (τ.M b) (τ.E a) (τ.E b) (τ.B a) (τ.B b) (hτ.1 a xa hxa) (hτ.1 b xb hxb) (hτ.2.1 a) (hτ.2.1 b)
    (hτ.2.2.1 a) (hτ.2.2.1 b) (hτ.2.2.2 a) (hτ.2.2.2 b)
  have hσ : 0 ≤ sn r s := le_trans zero_le_one (sn_pos r s)
  have hEp := specMul_E_nonneg (N := N) hσ hUc (ulp_pos tmp).le xa.ct.md.logDelta xb.ct.md.logDelta
    (hτ.2.2.1 a) (hτ.2.2.1 b) (hτ.2.2.2 a) (hτ.2.2.2 b)
  refine hτ.set d c' _ _ _ (mulAdd_tracks (hv s) hb1 hb2 (hτ.1 d xd hxd) h2) (fun t ht => ?_) ?_ ?_
  · exact abs_add_sg_le sub (hτ.2.1 d t ht) (h3 t ht)
  · have := hτ.2.2.1 d
    have : 0 ≤ sn r s * ulp c' := mul_nonneg hσ (ulp_pos c').le
    linarith
  · have := hτ.2.2.2 d; have := hτ.2.2.2 a; have := hτ.2.2.2 b; positivity

/-! ### ct × plaintext -/

def specMulAddPt (env : Env) (N : Nat) (σ u ut : ℚ) (δa : Nat) (sub : Bool) (τ : TS) (d a : Nat) (pt : Pt) (pg : Col) : TS :=
  let Bp := supN N (fun t => (ptMsg env N pt pg).getD t 0)
  ⟨upd τ.M d (fun t => 1 * τ.M d t + sg sub * (qNegMul (polyOf N (τ.M a)) (ptMsg env N pt pg)).getD t 0),
   upd τ.E d (σ * u + (1 * τ.E d + 1 * (σ * ut + N * ((τ.E a + σ / 2 ^ δa) * Bp)))),
   upd τ.B d (τ.B d + N * τ.B a * Bp)⟩

/-- the metadata-level plaintext product of slot `a` into a temporary -/
def prodPt (env : Env) (P : Pool) (a : Nat) (pt : Pt) : Ct → Res Ct := fun t =>
  match P[a]? with
  | some ca => mulPtZnxInto env t ca pt
  | none => .err .badSlot t

/-- **`ckks_mul_add_pt_vec_znx_into` / `ckks_mul_sub_pt_vec_znx_into`** on a pool — no contract -/
theorem xstep_mulAddPt {env : Env} (he : EnvOK env) {N r : Nat} (hN : 0 < N) {mk : MulKey} {ak : AutKeys} {pool : DPool}
    (hp : AllOK env N r pool) {sub : Bool} {d a : Nat} {pt : Pt} {pg : Col} (hpt : PtOK env N pt pg) {mp : Pool}
    (hm : stepR env (DPool.cts pool) (.mulAddPtZnx d a pt) = .ok mp)
    (hhi : ∀ cd ca, pool[d]? = some cd → pool[a]? = some ca → ∀ q, mulPtParams env (tmpLike N cd).ct ca.ct pt.md pt.maxK = .ok q →
      (cnvOffsetSplit env.base2k q.cnv).1 ≤ divCeil ca.md.effK env.base2k + pt.size - 1)
    (hroom : (pt.size : Int) * (N * 2 ^ env.base2k * 2 ^ env.base2k) + 8 ≤ 2 ^ (bitsOf mk.big - 2)) (s : List Poly) :
    XGoal env N r mk ak s pool (.mulAddPt sub d a pt pg) mp
      (fun τ => specMulAddPt env N (sn r s) (ulpAt env mp d) (tmpUlp env (DPool.cts pool) d (prodPt env (DPool.cts pool) a pt))
        (mdAt (DPool.cts pool) a).logDelta sub τ d a pt pg) := by
  obtain ⟨cd, ca, m, hd, ha, hda, hf, rfl⟩ := op2_ok' (show op2 _ d a (fun cd ca => withPt env pt cd (mulAddPtZnx env cd ca pt)) = .ok mp from hm)
  obtain ⟨xd, hxd, rfl⟩ := cts_some hd
  obtain ⟨xa, hxa, rfl⟩ := cts_some ha
  obtain ⟨hbld, hf2⟩ := withPt_ok2 hf
  obtain ⟨mt, hpm, hadd⟩ := mulAddWith_ok (show mulAddWith env xd.ct (fun t => mulPtZnxInto env t xa.ct pt) = .ok m from hf2)
  have hxdok := hp.get hxd
  have htct : (tmpLike N xd).ct = mulTmp xd.ct := tmpLike_ct N hxdok
  have hpm' : withPt env pt (tmpLike N xd).ct (mulPtZnxInto env (tmpLike N xd).ct xa.ct pt) = .ok mt := by
    rw [withPt_none (ptBuild_irrel hbld), htct]; exact hpm
  obtain ⟨tmp, ht1, htmt, htok, htv⟩ := mulPt_core he hN (big := mk.big) (tmpLike_dok hxdok) (hp.get hxa) hpt hpm'
    (hhi xd xa hxd hxa) hroom s
  obtain ⟨c', h1, hct, hok, hb1, hb2, hv⟩ := dMulAddWith_sem he hxdok sub (prodD := fun t => dMulPtInto env N mk.big t xa pt pg) ht1 htok
    (by rw [htmt]; exact hadd)
  refine ⟨pool.set d c', dop2_ok hxd hxa hda h1, by rw [cts_set, hct], hp.set d hok, fun τ hτ => ?_⟩
  simp only [specMulAddPt]
  have hut : tmpUlp env (DPool.cts pool) d (prodPt env (DPool.cts pool) a pt) = ulp tmp := by
    rw [tmpUlp_eq hd (mt := mt) (by simp only [prodPt, ha]; exact hpm), ← htmt, ← ulp_eq_ulpM htok]
  rw [ulpAt_set hd, ← hct, ← ulp_eq_ulpM hok, mdAt_some ha, hut]
  obtain ⟨h2, h3⟩ := htv (τ.M a) (τ.E a) (τ.B a) (hτ.1 a xa hxa) (hτ.2.1 a) (hτ.2.2.1 a) (hτ.2.2.2 a)
  have hσ : 0 ≤ sn r s := le_trans zero_le_one (sn_pos r s)
  have hsup0 := supN_nonneg N (fun t => (ptMsg env N pt pg).getD t 0)
  have hEp : 0 ≤ sn r s * ulp tmp + N * ((τ.E a + sn r s / 2 ^ xa.ct.md.logDelta) * supN N (fun t => (ptMsg env N pt pg).getD t 0)) := by
    have h4 : 0 ≤ sn r s / 2 ^ xa.ct.md.logDelta := div_nonneg hσ (by positivity)
    have h5 := hτ.2.2.1 a
    have h6 := ulp_pos tmp
    positivity
  refine hτ.set d c' _ _ _ (mulAdd_tracks (hv s) hb1 hb2 (hτ.1 d xd hxd) h2) (fun t ht => ?_) ?_ ?_
  · exact abs_add_sg_le sub (hτ.2.1 d t ht) (h3 t ht)
  · have := hτ.2.2.1 d
    have : 0 ≤ sn r s * ulp c' := mul_nonneg hσ (ulp_pos c').le
    linarith
  · have := hτ.2.2.2 d; have := hτ.2.2.2 a; positivity

end Ckks
