import Poulpy.Lemmas.ScratchCore3
/-
Third batch, poulpy-bin-fhe and poulpy-ckks: every `tmp_bytes` formula is a multiple of 64 when `8 ∣ n`
(`M64`, needed where a region is followed by an aligned take), facts for the blind rotation, the circuit
bootstrapping, the BDD helpers and the CKKS products, and the requirement of `fhe_uint_prepare`.
-/

namespace Scratch

/-! ### multiples of 64 -/

def M64 (x : Nat) : Prop := x % 64 = 0

theorem M64.add {a b : Nat} (ha : M64 a) (hb : M64 b) : M64 (a + b) := by unfold M64 at *; omega
theorem M64.max {a b : Nat} (ha : M64 a) (hb : M64 b) : M64 (max a b) := by unfold M64 at *; omega
theorem M64.ite {c : Prop} [Decidable c] {a b : Nat} (ha : M64 a) (hb : M64 b) : M64 (if c then a else b) := by
  split <;> assumption
theorem M64.zero : M64 0 := rfl
theorem M64.mulr {a : Nat} (ha : M64 a) (c : Nat) : M64 (a * c) := by
  unfold M64 at *; rw [Nat.mul_mod, ha]; simp
theorem M64.mull {a : Nat} (ha : M64 a) (c : Nat) : M64 (c * a) := by rw [Nat.mul_comm]; exact ha.mulr c
theorem M64.or {a b : Nat} (ha : M64 a) (hb : M64 b) : M64 (a ||| b) := by
  unfold M64 at *
  have : (a ||| b) % 2 ^ 6 = a % 2 ^ 6 ||| b % 2 ^ 6 := Nat.or_mod_two_pow
  simpa [ha, hb] using this

theorem idft_mod64 (be : BE) {n : Nat} (hn : n % 8 = 0) : idftTmp be n % 64 = 0 := by
  cases be <;> simp only [idftTmp]; omega
theorem rsh_mod64 {n : Nat} (hn : n % 8 = 0) : rshTmp n % 64 = 0 := by unfold rshTmp; omega
theorem lsh_mod64 {n : Nat} (hn : n % 8 = 0) : lshTmp n % 64 = 0 := by unfold lshTmp; omega
theorem bigAuto_mod64 (be : BE) {n : Nat} (hn : n % 8 = 0) : bigAutoTmp be n % 64 = 0 := by
  unfold bigAutoTmp; cases be <;> simp only [BE.big] <;> omega
theorem mat_mod64 {n : Nat} (hn : n % 8 = 0) (r ci co s : Nat) : matBytes n r ci co s % 64 = 0 := by
  unfold matBytes; exact (show M64 (vecBytes n co s) from vec_mod64 hn co s).mull _

theorem vec_m64 {n : Nat} (hn : n % 8 = 0) (c s : Nat) : M64 (vecBytes n c s) := vec_mod64 hn c s
theorem gbytes_m64 {n : Nat} (hn : n % 8 = 0) (g : G) : M64 (g.bytes n) := gbytes_mod64 hn g
theorem scalar_m64 {n : Nat} (hn : n % 8 = 0) (c : Nat) : M64 (scalarBytes n c) := scalar_mod64 hn c
theorem dft_m64 (be : BE) {n : Nat} (hn : n % 8 = 0) (c s : Nat) : M64 (dftBytes be n c s) := dft_mod64 be hn c s
theorem big_m64 (be : BE) {n : Nat} (hn : n % 8 = 0) (c s : Nat) : M64 (bigBytes be n c s) := big_mod64 be hn c s
theorem svp_m64 (be : BE) {n : Nat} (hn : n % 8 = 0) (c : Nat) : M64 (svpBytes be n c) := svp_mod64 be hn c
theorem mat_m64 {n : Nat} (hn : n % 8 = 0) (r ci co s : Nat) : M64 (matBytes n r ci co s) := mat_mod64 hn r ci co s
theorem norm_m64 {n : Nat} (hn : n % 8 = 0) : M64 (normTmp n) := norm_mod64 hn
theorem bignorm_m64 (be : BE) {n : Nat} (hn : n % 8 = 0) : M64 (bigNormTmp be n) := bignorm_mod64 be hn
theorem vmp_m64 (a r c : Nat) : M64 (vmpTmp a r c) := vmpTmp_mod64 a r c
theorem one_m64 {n : Nat} (hn : n % 8 = 0) : M64 (oneLimbTmp n) := one_mod64 hn
theorem idft_m64 (be : BE) {n : Nat} (hn : n % 8 = 0) : M64 (idftTmp be n) := idft_mod64 be hn
theorem rsh_m64 {n : Nat} (hn : n % 8 = 0) : M64 (rshTmp n) := rsh_mod64 hn
theorem lsh_m64 {n : Nat} (hn : n % 8 = 0) : M64 (lshTmp n) := lsh_mod64 hn
theorem bigAuto_m64 (be : BE) {n : Nat} (hn : n % 8 = 0) : M64 (bigAutoTmp be n) := bigAuto_mod64 be hn
theorem prep_m64 (be : BE) {n : Nat} (hn : n % 8 = 0) : M64 (vmpPrepTmp be n) := prep_mod64 be hn

/-- closes `M64 e` for `e` built from layout byte counts, HAL scratch sizes, `+`, `max`, `if`, `|||`, `* c`
(syntactic matching only: nothing is unfolded) -/
macro "m64 " hn:term : tactic =>
  `(tactic| repeat' (with_reducible first
    | assumption
    | exact vec_m64 $hn _ _ | exact gbytes_m64 $hn _ | exact scalar_m64 $hn _ | exact dft_m64 _ $hn _ _
    | exact big_m64 _ $hn _ _ | exact svp_m64 _ $hn _ | exact mat_m64 $hn _ _ _ _
    | exact norm_m64 $hn | exact bignorm_m64 _ $hn | exact vmp_m64 _ _ _ | exact one_m64 $hn
    | exact idft_m64 _ $hn | exact rsh_m64 $hn | exact lsh_m64 $hn | exact bigAuto_m64 _ $hn
    | exact prep_m64 _ $hn | exact M64.zero
    | apply M64.add | apply M64.max | apply M64.ite | apply M64.or | apply M64.mulr | apply M64.mull))

theorem tbGglweProduct_m64 (be : BE) {n : Nat} (hn : n % 8 = 0) (s : Nat) (k : K) : M64 (tbGglweProduct be n s k) := by
  unfold tbGglweProduct; simp only; m64 hn
theorem tbKsInternal_m64 (be : BE) {n : Nat} (hn : n % 8 = 0) (a : G) (k : K) : M64 (tbKsInternal be n a k) := by
  unfold tbKsInternal; have := tbGglweProduct_m64 be hn a.size k; m64 hn
theorem tbGlweKeyswitch_m64 (be : BE) {n : Nat} (hn : n % 8 = 0) (res a : G) (k : K) : M64 (tbGlweKeyswitch be n res a k) := by
  unfold tbGlweKeyswitch tbGlweNormalize; simp only
  have := tbKsInternal_m64 be hn a k
  have := tbKsInternal_m64 be hn (a.conv k.b2k) k
  m64 hn
theorem tbExtInternal_m64 (be : BE) {n : Nat} (hn : n % 8 = 0) (a : G) (k : K) : M64 (tbExtInternal be n a k) :=
  tbExtInternal_mod64 be n a k hn
theorem tbGlweExternalProduct_m64 (be : BE) {n : Nat} (hn : n % 8 = 0) (res a : G) (k : K) :
    M64 (tbGlweExternalProduct be n res a k) := by
  unfold tbGlweExternalProduct tbGlweNormalize; simp only
  have := tbExtInternal_m64 be hn a k
  have := tbExtInternal_m64 be hn (a.conv k.b2k) k
  m64 hn
theorem tbGlweAutomorphism_m64 (be : BE) {n : Nat} (hn : n % 8 = 0) (res a : G) (k : K) :
    M64 (tbGlweAutomorphism be n res a k) := by
  unfold tbGlweAutomorphism; have := tbGlweKeyswitch_m64 be hn res a k; m64 hn
theorem tbGlweTraceAssign_m64 (be : BE) {n : Nat} (hn : n % 8 = 0) (res a : G) (k : K) :
    M64 (tbGlweTraceAssign be n res a k) := by
  unfold tbGlweTraceAssign; simp only; have := tbGlweAutomorphism_m64 be hn res a k; m64 hn
theorem tbGlweTrace_m64 (be : BE) {n : Nat} (hn : n % 8 = 0) (res a : G) (k : K) : M64 (tbGlweTrace be n res a k) := by
  unfold tbGlweTrace tbGlweNormalize; simp only
  have := tbGlweTraceAssign_m64 be hn res a k
  have := tbGlweTraceAssign_m64 be hn (traceTmp res a k) (traceTmp res a k) k
  m64 hn
theorem tbGgswExpandRows_m64 (be : BE) {n : Nat} (hn : n % 8 = 0) (res : G) (t : K) : M64 (tbGgswExpandRows be n res t) := by
  unfold tbGgswExpandRows; simp only
  have := tbGglweProduct_m64 be hn (ceilDiv res.maxK t.b2k) t
  m64 hn
theorem tbBlindRotation_m64 (be : BE) {n : Nat} (hn : n % 8 = 0) (block ext : Nat) (res : G) (brk : K) :
    M64 (tbBlindRotation be n block ext res brk) := by
  unfold tbBlindRotation; simp only
  have := tbGlweExternalProduct_m64 be hn res res brk
  m64 hn
theorem tbCbt_m64 (be : BE) {n : Nat} (hn : n % 8 = 0) (block ext : Nat) (res : W) (brk atk tsk : K) :
    M64 (tbCbt be n block ext res brk atk tsk) := by
  unfold tbCbt tbCbtOld tbGlweNormalize tbGlweRotate; simp only
  have := tbBlindRotation_m64 be hn block ext res.g brk
  have := tbBlindRotation_m64 be hn block ext (cbtBrkGlwe brk) brk
  have := tbGlweTrace_m64 be hn res.g res.g atk
  have := tbGlweTrace_m64 be hn res.g (cbtAtkGlwe brk atk) atk
  have := tbGgswExpandRows_m64 be hn res.g tsk
  m64 hn
theorem tbLweFromGlwe_m64 (be : BE) {n : Nat} (hn : n % 8 = 0) (lwe : L) (a : G) (k : K) : M64 (tbLweFromGlwe be n lwe a k) := by
  unfold tbLweFromGlwe; have := tbGlweKeyswitch_m64 be hn ⟨1, lwe.size, lwe.b2k⟩ a k; m64 hn
theorem tbGetBitLwe_m64 (be : BE) {n : Nat} (hn : n % 8 = 0) (bits : G) (ksLwe : K) (ksGlwe : Option K) :
    M64 (tbGetBitLwe be n bits ksLwe ksGlwe) := by
  unfold tbGetBitLwe; simp only
  cases ksGlwe with
  | none => exact tbLweFromGlwe_m64 be hn _ _ _
  | some kg =>
    simp only
    have := tbGlweKeyswitch_m64 be hn (getBitTmp bits ksLwe) bits kg
    have := tbLweFromGlwe_m64 be hn ⟨bits.size, bits.b2k⟩ (getBitTmp bits ksLwe) ksLwe
    m64 hn

/-! ### blind rotation -/

theorem idft_Facts (be : BE) (n : Nat) : Facts (treeIdft be n) (idftTmp be n) := by
  cases be
  · simp only [treeIdft, idftTmp]; exact Facts.done
  · simp only [treeIdft, idftTmp]; exact Facts.leaf _

theorem oneLimb_Facts (n : Nat) : Facts (treeOneLimb n) (oneLimbTmp n) := by simp only [treeOneLimb]; exact Facts.leaf _
theorem normalize_Facts (n : Nat) : Facts (treeNormalize n) (normTmp n) := by simp only [treeNormalize]; exact Facts.leaf _
theorem glweNormalize_Facts (n : Nat) : Facts (treeGlweNormalize n) (normTmp n) := by
  obtain ⟨h1, h2, h3⟩ := glweNormalize_facts n
  exact ⟨h1, h2, Nat.le_of_eq h3⟩
theorem rotateAssign_Facts (n : Nat) : Facts (treeGlweRotateAssign n) (tbGlweRotate n) := by
  unfold treeGlweRotateAssign; exact (oneLimb_Facts n).need _ (Nat.le_refl _)
theorem vmp_Facts (a r c : Nat) : Facts (treeVmp a r c) (vmpTmp a r c) := by simp only [treeVmp]; exact Facts.leaf _

theorem normTmp_le_bigNorm (be : BE) (n : Nat) : normTmp n ≤ bigNormTmp be n := by
  unfold normTmp bigNormTmp; cases be <;> simp only [BE.big] <;> omega
theorem oneLimb_le_bigNorm (be : BE) (n : Nat) : oneLimbTmp n ≤ bigNormTmp be n := by
  unfold oneLimbTmp bigNormTmp; cases be <;> simp only [BE.big] <;> omega
theorem bigNorm_le_extProduct (be : BE) (n : Nat) (res a : G) (k : K) : bigNormTmp be n ≤ tbGlweExternalProduct be n res a k := by
  unfold tbGlweExternalProduct; simp only; omega

theorem blindRotationStandard_facts (be : BE) (n nLwe : Nat) (res : G) (brk : K) (hn : n % 8 = 0)
    (hr : res.rank = brk.rankOut) (hb0 : 0 < brk.b2k) (hd : 1 ≤ brk.dsize) :
    Facts (treeBlindRotationStandard be n nLwe res brk) (res.bytes n + tbGlweExternalProduct be n res res brk) := by
  unfold treeBlindRotationStandard
  have he : Facts _ _ := externalProduct_facts be n res res brk hn hr hb0 hd
  have h1 := normTmp_le_bigNorm be n
  have h2 := oneLimb_le_bigNorm be n
  have h3 := bigNorm_le_extProduct be n res res brk
  exact Facts.take _ (gbytes_mod64 hn res)
    ((((he.alt (oneLimb_Facts n)).loop nLwe).alt (glweNormalize_Facts n)).mono (by omega))

theorem blockTail_facts (be : BE) (n cnt : Nat) (brk : K) (hn : n % 8 = 0) :
    Facts (.take (bigBytes be n 1 brk.size) (loop cnt (.alt (treeIdft be n) (treeBigNormalize be n))))
      (bigBytes be n 1 brk.size + max (bigNormTmp be n) (idftTmp be n)) :=
  Facts.take _ (big_mod64 be hn 1 brk.size) ((((idft_Facts be n).alt (bigNorm_Facts be n)).loop cnt).mono (by omega))

theorem blindRotationBlock_facts (be : BE) (n blocks block : Nat) (res : G) (brk : K) (hn : n % 8 = 0)
    (hr : res.rank = brk.rankOut) (hblk : 1 < block) :
    Facts (treeBlindRotationBlock be n blocks block res brk) (tbBlindRotation be n block 1 res brk) := by
  unfold treeBlindRotationBlock treeBlockTail
  simp only
  have hor1 : vmpTmp brk.dnum brk.dnum (res.rank + 1) ≤
      vmpTmp brk.dnum brk.dnum (res.rank + 1) ||| (bigBytes be n 1 brk.size + max (bigNormTmp be n) (idftTmp be n)) := Nat.left_le_or
  have hor2 : bigBytes be n 1 brk.size + max (bigNormTmp be n) (idftTmp be n) ≤
      vmpTmp brk.dnum brk.dnum (res.rank + 1) ||| (bigBytes be n 1 brk.size + max (bigNormTmp be n) (idftTmp be n)) := Nat.right_le_or
  have body := (((vmp_Facts brk.dnum brk.dnum (res.rank + 1)).loop block).alt (blockTail_facts be n (res.rank + 1) brk hn)).loop blocks
  have h := Facts.take _ (dft_mod64 be hn (res.rank + 1) brk.dnum) (Facts.take _ (dft_mod64 be hn (res.rank + 1) brk.size)
    (Facts.take _ (dft_mod64 be hn (res.rank + 1) brk.size) (Facts.take _ (dft_mod64 be hn 1 brk.size) body)))
  refine h.mono ?_
  unfold tbBlindRotation
  simp only [if_pos hblk, ← hr, Nat.lt_irrefl, if_false, Nat.mul_one]
  generalize vmpTmp brk.dnum brk.dnum (res.rank + 1) ||| (bigBytes be n 1 brk.size + max (bigNormTmp be n) (idftTmp be n)) = o at hor1 hor2
  omega

theorem blindRotationExt_facts (be : BE) (n blocks block ext : Nat) (res : G) (brk : K) (hn : n % 8 = 0)
    (hr : res.rank = brk.rankOut) (hblk : 1 < block) (hext : 1 < ext) :
    Facts (treeBlindRotationExt be n blocks block ext res brk) (tbBlindRotation be n block ext res brk) := by
  unfold treeBlindRotationExt
  simp only
  have hor1 : vmpTmp brk.dnum brk.dnum (res.rank + 1) ≤
      vmpTmp brk.dnum brk.dnum (res.rank + 1) ||| (bigBytes be n 1 brk.size + max (bigNormTmp be n) (idftTmp be n)) := Nat.left_le_or
  have hor2 : bigBytes be n 1 brk.size + max (bigNormTmp be n) (idftTmp be n) ≤
      vmpTmp brk.dnum brk.dnum (res.rank + 1) ||| (bigBytes be n 1 brk.size + max (bigNormTmp be n) (idftTmp be n)) := Nat.right_le_or
  have body := (((vmp_Facts brk.dnum brk.dnum (res.rank + 1)).loop (block * ext)).alt
    (blockTail_facts be n (ext * (res.rank + 1)) brk hn)).loop blocks
  have h := Facts.takeMany ext _ (vec_mod64 hn (res.rank + 1) res.size)
    (Facts.takeMany ext _ (dft_mod64 be hn (res.rank + 1) brk.dnum)
      (Facts.takeMany ext _ (dft_mod64 be hn (res.rank + 1) brk.size)
        (Facts.takeMany ext _ (dft_mod64 be hn (res.rank + 1) brk.size)
          (Facts.take _ (dft_mod64 be hn 1 brk.size) body))))
  refine h.mono ?_
  unfold tbBlindRotation
  simp only [if_pos hblk, if_pos hext, ← hr]
  rw [Nat.mul_comm (vecBytes n (res.rank + 1) res.size) ext, Nat.mul_comm (dftBytes be n (res.rank + 1) brk.dnum) ext,
    Nat.mul_comm (dftBytes be n (res.rank + 1) brk.size) ext]
  generalize vmpTmp brk.dnum brk.dnum (res.rank + 1) ||| (bigBytes be n 1 brk.size + max (bigNormTmp be n) (idftTmp be n)) = o at hor1 hor2
  generalize ext * vecBytes n (res.rank + 1) res.size = x1
  generalize ext * dftBytes be n (res.rank + 1) brk.dnum = x2
  generalize ext * dftBytes be n (res.rank + 1) brk.size = x3
  omega

/-- `blind_rotation_execute` for every dispatch (`ext > 1` requires a block key) -/
theorem blindRotation_facts (be : BE) (n nLwe block ext : Nat) (res : G) (brk : K) (hn : n % 8 = 0)
    (hr : res.rank = brk.rankOut) (hb0 : 0 < brk.b2k) (hd : 1 ≤ brk.dsize) (hext : 1 < ext → 1 < block) (hext0 : 1 ≤ ext) :
    Facts (treeBlindRotation be n nLwe block ext res brk) (tbBlindRotation be n block ext res brk) := by
  unfold treeBlindRotation
  by_cases he : 1 < ext
  · rw [if_pos he]; exact blindRotationExt_facts be n _ block ext res brk hn hr (hext he) he
  · rw [if_neg he]
    have he1 : ext = 1 := by omega
    subst he1
    by_cases hb : 1 < block
    · rw [if_pos hb]; exact blindRotationBlock_facts be n _ block res brk hn hr hb
    · rw [if_neg hb]
      have := blindRotationStandard_facts be n nLwe res brk hn hr hb0 hd
      unfold tbBlindRotation
      rwa [if_neg hb]

theorem brkEncryptSk_facts (be : BE) (n nLwe : Nat) (brk : K) (hn : n % 8 = 0) :
    Facts (treeBrkEncryptSk be n nLwe brk) (tbGgxEncryptSk be n brk.size) := by
  unfold treeBrkEncryptSk
  exact (show Facts _ _ from ggswEncryptSk_facts be n brk hn).loop nLwe

theorem brkCompressedEncryptSk_facts (be : BE) (n nLwe : Nat) (brk : K) (hn : n % 8 = 0) :
    Facts (treeBrkCompressedEncryptSk be n nLwe brk) (tbGgxEncryptSk be n brk.size) := brkEncryptSk_facts be n nLwe brk hn

/-! ### circuit bootstrapping, its keys, BDD keys -/

theorem cbtConstant_facts (be : BE) (n nLwe block ext iters : Nat) (res : W) (brk atk tsk : K) (hn : n % 8 = 0)
    (hb0 : 0 < brk.b2k) (hd : 1 ≤ brk.dsize) (hext : 1 < ext → 1 < block) (hext0 : 1 ≤ ext)
    (hai : res.g.rank = atk.rankIn) (hao : res.g.rank = atk.rankOut)
    (hti : tsk.rankIn = res.g.rank) (hto : tsk.rankOut = res.g.rank) :
    Facts (treeCbtConstant be n nLwe block ext iters res brk atk tsk) (tbCbt be n block ext res brk atk tsk) := by
  unfold treeCbtConstant
  simp only
  have hbr := blindRotation_facts be n nLwe block ext (cbtBrkGlwe brk) brk hn rfl hb0 hd hext hext0
  have hnm : Facts (if brk.b2k = atk.b2k then AllocTree.done else treeGlweNormalize n) (tbGlweNormalize n) :=
    Facts.ite (Facts.done.mono (Nat.zero_le _)) (glweNormalize_Facts n)
  have htr : Facts _ _ := trace_facts be n iters res.g (cbtAtkGlwe brk atk) atk hn hai hao
  have hex : Facts _ _ := expandRows_facts be n res.dnum res.g tsk hn hti hto
  have h := (Facts.take _ (gbytes_mod64 hn (cbtAtkGlwe brk atk))
    ((Facts.take _ (gbytes_mod64 hn (cbtBrkGlwe brk)) (hbr.alt hnm)).alt ((htr.alt (rotateAssign_Facts n)).loop res.dnum))).alt hex
  refine h.need _ ?_
  unfold tbCbt
  simp only
  omega

theorem cbtKeyEncryptSk_facts (be : BE) (n nLwe nAtk : Nat) (brk atk tsk : K) (hn : n % 8 = 0) :
    Facts (treeCbtKeyEncryptSk be n nLwe nAtk brk atk tsk) (tbCbtKeyEncryptSk be n brk atk tsk) := by
  unfold treeCbtKeyEncryptSk tbCbtKeyEncryptSk
  have h1 : Facts _ _ := automorphismKeyEncryptSk_facts be n atk hn
  have h3 : Facts _ _ := gglweToGgswKeyEncryptSk_facts be n tsk hn
  exact (Facts.alt3 (h1.loop nAtk) (brkEncryptSk_facts be n nLwe brk hn) h3).mono (by omega)

theorem bddKeyEncryptSk_facts (be : BE) (n nLwe nAtk : Nat) (brk atk tsk ksLwe : K) (ksGlwe : Option K) (hn : n % 8 = 0)
    (hr : 1 ≤ ksLwe.rankIn) :
    Facts (treeBddKeyEncryptSk be n nLwe nAtk brk atk tsk ksLwe ksGlwe) (tbBddKeyEncryptSk be n brk atk tsk ksLwe ksGlwe) := by
  unfold treeBddKeyEncryptSk tbBddKeyEncryptSk
  have h2 : Facts _ _ := glweToLweKeyEncryptSk_facts be n ksLwe hn hr
  have h3 := cbtKeyEncryptSk_facts be n nLwe nAtk brk atk tsk hn
  cases ksGlwe with
  | none => exact (Facts.alt3 (Facts.done) h2 h3).mono (by simp only; omega)
  | some kg =>
    have h1 : Facts _ _ := switchingKeyEncryptSk_facts be n kg hn
    exact (Facts.alt3 h1 h2 h3).mono (by simp only; omega)

/-! ### fhe_uint_prepare: the one tree with an unaligned take (the LWE) -/

theorem getBitLwe_facts (be : BE) (n idx : Nat) (bits : G) (ksLwe : K) (ksGlwe : Option K) (hn : n % 8 = 0)
    (hout : ksLwe.rankOut = 1)
    (hnone : ksGlwe = none → bits.rank = ksLwe.rankIn)
    (hsome : ∀ kg, ksGlwe = some kg → bits.rank = kg.rankIn ∧ kg.rankOut = 1 ∧ ksLwe.rankIn = 1) :
    Facts (treeGetBitLwe be n idx bits ksLwe ksGlwe) (tbGetBitLwe be n bits ksLwe ksGlwe) := by
  unfold treeGetBitLwe tbGetBitLwe
  cases ksGlwe with
  | none => exact lweFromGlwe_facts be n _ bits ksLwe idx hn (hnone rfl) hout
  | some kg =>
    obtain ⟨h1, h2, h3⟩ := hsome kg rfl
    simp only
    have hk : Facts _ _ := keyswitch_facts be n (getBitTmp bits ksLwe) bits kg hn h1 (by simp [getBitTmp, h2])
    have hl : Facts _ _ := lweFromGlwe_facts be n ⟨bits.size, bits.b2k⟩ (getBitTmp bits ksLwe) ksLwe idx hn (by simp [getBitTmp, h3]) hout
    exact Facts.take _ (gbytes_mod64 hn _) (hk.alt hl)

/-- a 64-multiple region, an arbitrary-length one, then an aligned remainder needing at most a multiple `x` of 64 -/
theorem req_take_take_le (g l x : Nat) (X : AllocTree) (hX : req X ≤ x) (hg : g % 64 = 0) (hx : x % 64 = 0) :
    req (.take g (.take l X)) ≤ roundUp (x + g + l) := by
  simp only [req]
  unfold roundUp pad alignOff
  split <;> split <;> omega

/-- requirement of one worker: its per-thread region suffices -/
theorem fheUintPrepareWorker_req (be : BE) (n nLwe block iters bitsPer idx : Nat) (res : W) (bits : G)
    (brk atk tsk ksLwe : K) (ksGlwe : Option K) (hn : n % 8 = 0)
    (hb0 : 0 < brk.b2k) (hd : 1 ≤ brk.dsize)
    (hai : res.g.rank = atk.rankIn) (hao : res.g.rank = atk.rankOut)
    (hti : tsk.rankIn = res.g.rank) (hto : tsk.rankOut = res.g.rank)
    (hout : ksLwe.rankOut = 1) (hnone : ksGlwe = none → bits.rank = ksLwe.rankIn)
    (hsome : ∀ kg, ksGlwe = some kg → bits.rank = kg.rankIn ∧ kg.rankOut = 1 ∧ ksLwe.rankIn = 1) :
    fits (treeFheUintPrepareWorker be n nLwe block iters bitsPer idx res bits brk atk tsk ksLwe ksGlwe) = true ∧
    req (treeFheUintPrepareWorker be n nLwe block iters bitsPer idx res bits brk atk tsk ksLwe ksGlwe) ≤
      tbFheUintPrepare be n block res bits brk atk tsk ksLwe ksGlwe := by
  have hg := getBitLwe_facts be n idx bits ksLwe ksGlwe hn hout hnone hsome
  have hc := cbtConstant_facts be n nLwe block 1 iters res brk atk tsk hn hb0 hd (by omega) (Nat.le_refl 1) hai hao hti hto
  have hp := prepare_facts be n 1
  have hX := (Facts.alt3 hg hc hp).loop bitsPer
  obtain ⟨x1, x2, x3⟩ := hX
  have hreq := Nat.le_trans (req_le_reqA_of_aligned _ x2) x3
  have m1 : M64 (tbCbt be n block 1 res brk atk tsk) := tbCbt_m64 be hn block 1 res brk atk tsk
  have m2 : M64 (tbGetBitLwe be n bits ksLwe ksGlwe) := tbGetBitLwe_m64 be hn bits ksLwe ksGlwe
  have m3 : M64 (tbPrepare be n) := prep_mod64 be hn
  have m4 : M64 (res.bytes n) := mat_mod64 hn _ _ _ _
  unfold treeFheUintPrepareWorker tbFheUintPrepare
  refine ⟨by simp [fits, x1], ?_⟩
  have hx : M64 (max (max (tbCbt be n block 1 res brk atk tsk) (tbGetBitLwe be n bits ksLwe ksGlwe)) (tbPrepare be n)) :=
    (m1.max m2).max m3
  exact req_take_take_le _ _ _ _ (Nat.le_trans hreq (by omega)) m4 hx

/-! ### BDD arithmetic helpers -/

theorem glweBlindRotation_facts (be : BE) (n bitMask : Nat) (res : G) (k : K) (hn : n % 8 = 0)
    (hres : res.rank = k.rankOut) (hb : res.b2k = k.b2k) (hb0 : 0 < k.b2k) (hd : 1 ≤ k.dsize) :
    Facts (treeGlweBlindRotation be n bitMask res k) (tbGlweBlindRotation be n res k) := by
  unfold treeGlweBlindRotation tbGlweBlindRotation
  have hc : Facts _ _ := cmux_facts be n res k hn hres hb hb0 hd
  exact (Facts.take _ (gbytes_mod64 hn res) (hc.loop bitMask)).mono (by omega)

theorem ggswBlindRotation_facts (be : BE) (n cells bitMask : Nat) (res : G) (k : K) (hn : n % 8 = 0)
    (hres : res.rank = k.rankOut) (hb : res.b2k = k.b2k) (hb0 : 0 < k.b2k) (hd : 1 ≤ k.dsize) :
    Facts (treeGgswBlindRotation be n cells bitMask res k) (tbGlweBlindRotation be n res k) := by
  unfold treeGgswBlindRotation
  exact (glweBlindRotation_facts be n bitMask res k hn hres hb hb0 hd).loop cells

theorem normTmp_le_cmux (be : BE) (n : Nat) (res : G) (k : K) : normTmp n ≤ tbCmux be n res k := by
  have := normTmp_le_bigNorm be n
  unfold tbCmux; omega

theorem scalarToGgswBlindRotation_facts (be : BE) (n cells bitMask : Nat) (res : G) (k : K) (hn : n % 8 = 0)
    (hres : res.rank = k.rankOut) (hb : res.b2k = k.b2k) (hb0 : 0 < k.b2k) (hd : 1 ≤ k.dsize) :
    Facts (treeScalarToGgswBlindRotation be n cells bitMask res k) (tbScalarToGgswBlindRotation be n res k) := by
  unfold treeScalarToGgswBlindRotation tbScalarToGgswBlindRotation
  have h := glweBlindRotation_facts be n bitMask res k hn hres hb hb0 hd
  have hn' := normTmp_le_cmux be n res k
  refine (Facts.take _ (gbytes_mod64 hn res) (((normalize_Facts n).alt h).loop cells)).mono ?_
  unfold tbGlweBlindRotation at *; omega

theorem glweBlindSelection_facts (be : BE) (n steps : Nat) (res : G) (k : K) (hn : n % 8 = 0)
    (hres : res.rank = k.rankOut) (hb : res.b2k = k.b2k) (hb0 : 0 < k.b2k) (hd : 1 ≤ k.dsize) :
    Facts (treeGlweBlindSelection be n steps res k) (tbGlweBlindRotation be n res k) := by
  unfold treeGlweBlindSelection tbGlweBlindRotation
  have hc : Facts _ _ := cmux_facts be n res k hn hres hb hb0 hd
  exact ((hc.alt (Facts.take _ (gbytes_mod64 hn res) hc)).loop steps).mono (by omega)

theorem retrieve_facts (be : BE) (n steps : Nat) (res : G) (k : K) (hn : n % 8 = 0)
    (hres : res.rank = k.rankOut) (hb : res.b2k = k.b2k) (hb0 : 0 < k.b2k) (hd : 1 ≤ k.dsize) :
    Facts (treeRetrieve be n steps res k) (tbRetrieve be n res k) := by
  unfold treeRetrieve treeCmuxAssignNeg tbRetrieve
  have hc : Facts _ _ := cmux_facts be n res k hn hres hb hb0 hd
  exact ((Facts.take _ (gbytes_mod64 hn res) hc).loop steps).mono (by omega)

theorem glweBlindRetrieval_facts (be : BE) (n steps : Nat) (res : G) (k : K) (hn : n % 8 = 0)
    (hrad : res.b2k = k.b2k) (hb0 : 0 < k.b2k) (hd : 1 ≤ k.dsize) :
    Facts (treeGlweBlindRetrieval be n steps res k) (tbCswap be n res res k) := by
  unfold treeGlweBlindRetrieval
  exact (show Facts _ _ from cswap_facts be n res res k hn hrad hb0 hd).loop steps

theorem fheUintEncryptSk_facts (be : BE) (n : Nat) (g : G) (hn : n % 8 = 0) :
    Facts (treeFheUintEncryptSk be n g) (tbFheUintEncryptSk be n g) := by
  unfold treeFheUintEncryptSk tbFheUintEncryptSk
  exact Facts.take _ (vec_mod64 hn _ _) (glweEncryptSk_facts be n g hn)

theorem fheUintDecrypt_facts (be : BE) (n : Nat) (g : G) (hn : n % 8 = 0) :
    Facts (treeFheUintDecrypt be n g) (tbFheUintDecrypt be n g) := by
  unfold treeFheUintDecrypt tbFheUintDecrypt
  exact Facts.take _ (vec_mod64 hn _ _) (glweDecrypt_facts be n g hn)

theorem execBdd_Facts (be : BE) (n threads state : Nat) (res : G) (k : K) (hn : n % 8 = 0)
    (hres : res.rank = k.rankOut) (hb : res.b2k = k.b2k) (hb0 : 0 < k.b2k) (hd : 1 ≤ k.dsize) :
    Facts (treeExecBdd be n threads state res k) (threads * tbExecBdd be n state res k) := by
  obtain ⟨c1, c2, c3⟩ := cmux_facts be n res k hn hres hb hb0 hd
  obtain ⟨t1, t2, t3⟩ := takeMany_facts (res.bytes n) (treeCmux be n res k) (gbytes_mod64 hn res) c1 c2 (2 * state)
  have hlen := tbExecBdd_mod64 be n state res k hn
  have hbody : req (treeEvalLevel be n state res k) ≤ tbExecBdd be n state res k := by
    refine Nat.le_trans (req_le_reqA_of_aligned _ t2) ?_
    unfold treeEvalLevel tbExecBdd
    rw [t3]; omega
  refine ⟨?_, ?_, ?_⟩
  · simp only [treeExecBdd, fits, Bool.and_eq_true, Bool.or_eq_true, decide_eq_true_eq]
    exact ⟨⟨Or.inr hbody, t1⟩, trivial⟩
  · simp only [treeExecBdd, aligned, Bool.and_eq_true, Bool.or_eq_true, beq_iff_eq]
    exact ⟨⟨Or.inl hlen, t2⟩, trivial⟩
  · simp only [treeExecBdd, reqA]; omega

/-- the two-word circuits: the output bits, then the (multi-threaded) evaluation and the packing on the rest -/
theorem bdd2w1w_facts (be : BE) (n threads bits state rounds iters : Nat) (res : G) (k atk : K) (hn : n % 8 = 0)
    (hres : res.rank = k.rankOut) (hb : res.b2k = k.b2k) (hb0 : 0 < k.b2k) (hd : 1 ≤ k.dsize)
    (hai : res.rank = atk.rankIn) (hao : res.rank = atk.rankOut) :
    Facts (treeBdd2w1w be n threads bits state rounds iters res k atk) (tbBdd2w1w be n threads bits state res k atk) := by
  unfold treeBdd2w1w tbBdd2w1w
  have he := execBdd_Facts be n threads state res k hn hres hb hb0 hd
  have hp : Facts _ _ := glwePack_facts be n rounds iters res atk hn hai hao
  exact Facts.takeMany bits _ (gbytes_mod64 hn res) (he.alt hp)

/-! ### poulpy-ckks: products and composites -/

theorem glweRsh_Facts (n : Nat) : Facts (treeGlweRsh n) (tbGlweShift n) := by
  unfold treeGlweRsh treeRsh; exact (Facts.leaf _).need _ (by unfold tbGlweShift; omega)
theorem glweLsh_Facts (n : Nat) : Facts (treeGlweLsh n) (tbGlweShift n) := by
  unfold treeGlweLsh treeLsh; exact (Facts.leaf _).need _ (by unfold tbGlweShift; omega)
theorem glweNormalizeNeed_Facts (n : Nat) : Facts (treeGlweNormalize n) (tbGlweNormalize n) := glweNormalize_Facts n

theorem ckksShiftNorm_Facts (n : Nat) : Facts (treeCkksShiftNorm n) (tbCkksShiftNorm n) := by
  unfold treeCkksShiftNorm
  exact (Facts.alt3 (glweRsh_Facts n) (glweLsh_Facts n) (glweNormalizeNeed_Facts n)).mono (by unfold tbCkksShiftNorm; omega)

theorem ckksShift_Facts (n : Nat) : Facts (treeCkksShift n) (tbCkksShift n) := glweLsh_Facts n

theorem ckksMul_facts (be : BE) (n off ea eb : Nat) (ct : G) (t : K) (hn : n % 8 = 0)
    (hea : ea ≤ ct.size) (heb : eb ≤ ct.size) (hb : 0 < ct.b2k) (hoff : cnvHi off ct.b2k ≤ ea + eb)
    (hpw : PairwiseCovered be n ct.size (limbBoundWorst (ct.size + ct.size) ct.size ct.b2k ct.b2k) (min ct.size ct.size) ct.size ct.size) :
    Facts (treeCkksMul be n off ea eb ct t) (tbCkksMul be n ct t) := by
  unfold treeCkksMul tbCkksMul tensorBytes
  have hr : Facts _ _ := relinearize_facts be n t.size ct t hn (Nat.le_refl _)
  exact Facts.take _ (vec_mod64 hn _ _) ((tensorApply_facts be n off ct ct ct.size ea eb hn hea heb hb hoff hpw).alt hr)

theorem ckksSquare_facts (be : BE) (n off ea : Nat) (ct : G) (t : K) (hn : n % 8 = 0) (hea : ea ≤ ct.size) (hb : 0 < ct.b2k)
    (hoff : cnvHi off ct.b2k ≤ 2 * ea) (hpws : PairwiseCovered be n 0 (limbBoundWorst (2 * ct.size) ct.size ct.b2k ct.b2k) ct.size ct.size ct.size) :
    Facts (treeCkksSquare be n off ea ct t) (tbCkksSquare be n ct t) := by
  unfold treeCkksSquare tbCkksSquare tensorBytes
  have hr : Facts _ _ := relinearize_facts be n t.size ct t hn (Nat.le_refl _)
  exact Facts.take _ (vec_mod64 hn _ _) ((tensorSquare_facts be n off ct ct ea hn hea hb hoff hpws).alt hr)

theorem ckksMulPtVecRnx_facts (be : BE) (n off : Nat) (res a : G) (ptSize ea : Nat) (hn : n % 8 = 0) (hea : ea ≤ a.size)
    (hoff : cnvHi off a.b2k ≤ ea + ptSize) :
    Facts (treeCkksMulPtVecRnx be n off res a ptSize ea) (tbCkksMulPtVecRnx be n res a ptSize) := by
  unfold treeCkksMulPtVecRnx tbCkksMulPtVecRnx
  exact Facts.take _ (vec_mod64 hn _ _) (mulPlain_facts be n off res a ptSize ea ptSize hn hea (Nat.le_refl _) hoff)

theorem ckksMulPtConst_facts (be : BE) (n off : Nat) (res a : G) (bSize : Nat) (hn : n % 8 = 0) :
    Facts (treeCkksMulPtConst be n off res a bSize) (tbCkksMulPtConst be n res a bSize) := by
  unfold treeCkksMulPtConst tbCkksMulPtConst
  have hm : Facts _ _ := mulConst_facts be n off res a bSize hn
  exact Facts.take _ (gbytes_mod64 hn res) (hm.alt (rotateAssign_Facts n))

/-- every composite `GLWE::bytes_of(res) + X.max(ckks_add_tmp_bytes)` from the facts of its product `X` -/
theorem ckksComposite_facts {n : Nat} (res : G) {tx : AllocTree} {x : Nat} (hn : n % 8 = 0) (h : Facts tx x) :
    Facts (treeCkksComposite n res tx) (tbCkksComposite n res x) := by
  unfold treeCkksComposite tbCkksComposite
  exact Facts.take _ (gbytes_mod64 hn res) (h.alt (ckksShiftNorm_Facts n))

theorem ckksMulMany_facts (be : BE) (n off ea eb : Nat) (ct : G) (t : K) (hn : n % 8 = 0)
    (hea : ea ≤ ct.size) (heb : eb ≤ ct.size) (hb : 0 < ct.b2k) (hoff : cnvHi off ct.b2k ≤ ea + eb)
    (hpw : PairwiseCovered be n ct.size (limbBoundWorst (ct.size + ct.size) ct.size ct.b2k ct.b2k) (min ct.size ct.size) ct.size ct.size) :
    ∀ l, Facts (treeCkksMulMany be n off ea eb ct t l) (2 * l * ct.bytes n + tbCkksMul be n ct t) := by
  intro l
  have hm := ckksMul_facts be n off ea eb ct t hn hea heb hb hoff hpw
  induction l with
  | zero => simpa [treeCkksMulMany] using hm
  | succ l ih =>
    simp only [treeCkksMulMany]
    refine (Facts.take _ (gbytes_mod64 hn ct) (Facts.take _ (gbytes_mod64 hn ct) (ih.alt hm))).mono ?_
    have : 2 * (l + 1) * ct.bytes n = 2 * l * ct.bytes n + ct.bytes n + ct.bytes n := by ring
    rw [this]
    generalize 2 * l * ct.bytes n = x
    omega

theorem ckksDotProductCt_facts (be : BE) (n off ea eb cnt : Nat) (ct : G) (t : K) (hn : n % 8 = 0)
    (hea : ea ≤ ct.size) (heb : eb ≤ ct.size) (hb : 0 < ct.b2k) (hoff : cnvHi off ct.b2k ≤ ea + eb)
    (hpw : PairwiseCovered be n ct.size (limbBoundWorst (ct.size + ct.size) ct.size ct.b2k ct.b2k) (min ct.size ct.size) ct.size ct.size) :
    Facts (treeCkksDotProductCt be n off ea eb cnt ct t) (tbCkksDotProductCt be n cnt ct t) := by
  unfold treeCkksDotProductCt tbCkksDotProductCt
  by_cases hc : cnt ≤ 1
  · rw [if_pos hc, if_pos hc]; exact ckksMul_facts be n off ea eb ct t hn hea heb hb hoff hpw
  · rw [if_neg hc, if_neg hc]
    have hr : Facts _ _ := relinearize_facts be n t.size ct t hn (Nat.le_refl _)
    have hta := tensorApply_facts be n off ct ct ct.size ea eb hn hea heb hb hoff hpw
    have h := Facts.takeMany (2 * cnt) _ (gbytes_mod64 hn ct)
      ((ckksShift_Facts n).alt (Facts.take _ (show tensorBytes n ct % 64 = 0 from vec_mod64 hn _ _) ((hta.loop cnt).alt hr)))
    refine h.mono ?_
    simp only
    generalize 2 * cnt * ct.bytes n = x
    omega

theorem roundUp_mod64 (x : Nat) : roundUp x % 64 = 0 := by unfold roundUp pad alignOff; omega

theorem le_foldl_max (l : List Nat) : ∀ (a : Nat), a ≤ l.foldl max a ∧ ∀ x ∈ l, x ≤ l.foldl max a := by
  induction l with
  | nil => intro a; simp
  | cons y ys ih =>
    intro a
    obtain ⟨i1, i2⟩ := ih (max a y)
    refine ⟨by simp only [List.foldl_cons]; omega, ?_⟩
    intro x hx
    simp only [List.mem_cons] at hx
    simp only [List.foldl_cons]
    rcases hx with rfl | hx
    · omega
    · exact i2 x hx

end Scratch
