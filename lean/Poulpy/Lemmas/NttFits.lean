import Poulpy.Lemmas.AvxNttLoop
import Poulpy.Lemmas.NttRange

/-!
`fitsTable`: every field of the real NTT120 tables is a `u64`.  C10's whole-transform theorems (`Avx.Ntt.nttAvx_real`,
`inttAvx_real`) carry this as a hypothesis ("checked on every table the tie uses"); here it is proved for every table
`NttTable::new(n)` / `NttTableInv::new(n)` the constructors return, from the shape of the constructors alone
(`wu64`, `maskOf`, `pack_omega` and `modq_pow` all produce 64-bit words, the bit-size assertions bound `half_bs`).
-/

namespace Ntt120
open Avx.Ntt (fitsTable fitsLevel)

theorem maskOf_lt64 (h : Nat) : maskOf h < 2 ^ 64 := by unfold maskOf subU64; exact Nat.mod_lt _ (by decide)
theorem wu64_lt64 (x : Nat) : wu64 x < 2 ^ 64 := Nat.mod_lt _ (by decide)

theorem packOmega_lt64 (t hb q : Nat) (ht : t < 2 ^ 64) : packOmega t hb q < 2 ^ 64 := by
  unfold packOmega; exact Nat.or_lt_two_pow (wu64_lt64 _) ht

theorem packedPowers_lt64 (q hb : Nat) : ∀ (c pow step : Nat), pow < 2 ^ 64 → ∀ x ∈ packedPowers q hb c pow step, x < 2 ^ 64 := by
  intro c
  induction c with
  | zero => intro pow step _ x hx; simp [packedPowers] at hx
  | succ c ih =>
    intro pow step hp x hx
    simp only [packedPowers, List.mem_cons] at hx
    rcases hx with rfl | hx
    · exact packOmega_lt64 _ _ _ hp
    · exact ih _ step (lt_of_le_of_lt (Nat.mod_le _ _) (wu64_lt64 _)) x hx

theorem modqPow_lt64 (x : Nat) (n : Int) (q : Nat) : modqPow x n q < 2 ^ 64 := by
  unfold modqPow wu32
  exact lt_trans (Nat.mod_lt _ (by decide)) (by decide)

/-- all fields of a level are `u64` -/
def FitL (l : Level) : Prop := l.1.q2bs < 2 ^ 64 ∧ l.1.mask < 2 ^ 64 ∧ l.1.halfBs < 2 ^ 64 ∧ ∀ x ∈ l.2, x < 2 ^ 64

theorem fitsLevel_of (l : Level) (h : FitL l) : fitsLevel l = true := by
  unfold fitsLevel
  simp only [Bool.and_eq_true, decide_eq_true_eq, List.all_eq_true]
  exact ⟨⟨⟨h.1, h.2.1⟩, h.2.2.1⟩, h.2.2.2⟩

theorem fwdLevels_fit (q logQ omega n bsAfter : Nat) :
    ∀ (fuel nn bs : Nat) (ls : List Level) (b : Nat), fwdLevels q logQ omega n bsAfter fuel nn bs = .ok (ls, b) → ∀ l ∈ ls, FitL l := by
  intro fuel
  induction fuel with
  | zero =>
    intro nn bs ls b h
    simp only [fwdLevels, Outcome.ok.injEq, Prod.mk.injEq] at h
    obtain ⟨rfl, rfl⟩ := h
    intro l hl; simp at hl
  | succ f ih =>
    intro nn bs ls b h
    unfold fwdLevels at h
    simp only [] at h
    generalize (if (bs == 64) = true then bsAfter else bs) = bsx at h
    by_cases h4 : nn ≥ 4
    · rw [if_pos h4] at h
      by_cases hnb : max (bsx + 1) ((bsx + 1 + 1) / 2 + logQ + 1) > 64
      · rw [if_pos hnb] at h; cases h
      · rw [if_neg hnb] at h
        cases hrec : fwdLevels q logQ omega n bsAfter f (nn / 2) (max (bsx + 1) ((bsx + 1 + 1) / 2 + logQ + 1)) with
        | ok v =>
          obtain ⟨ls', b'⟩ := v
          rw [hrec] at h
          simp only [Outcome.ok.injEq, Prod.mk.injEq] at h
          obtain ⟨rfl, rfl⟩ := h
          intro l hl
          simp only [List.mem_cons] at hl
          rcases hl with rfl | hl
          · refine ⟨wu64_lt64 _, maskOf_lt64 _, by simp only []; omega, ?_⟩
            exact packedPowers_lt64 _ _ _ _ _ (modqPow_lt64 _ _ _)
          · exact ih _ _ _ _ hrec l hl
        | err e => rw [hrec] at h; cases h
        | panic c => rw [hrec] at h; cases h
    · rw [if_neg h4] at h
      cases hrec : fwdLevels q logQ omega n bsAfter f (nn / 2) (bsx + 1) with
      | ok v =>
        obtain ⟨ls', b'⟩ := v
        rw [hrec] at h
        simp only [Outcome.ok.injEq, Prod.mk.injEq] at h
        obtain ⟨rfl, rfl⟩ := h
        intro l hl
        simp only [List.mem_cons] at hl
        rcases hl with rfl | hl
        · exact ⟨wu64_lt64 _, by simp only []; omega, by simp only []; omega, fun x hx => by simp at hx⟩
        · exact ih _ _ _ _ hrec l hl
      | err e => rw [hrec] at h; cases h
      | panic c => rw [hrec] at h; cases h

theorem invLevels_fit (q logQ omega n bsAfter : Nat) :
    ∀ (fuel nn bs : Nat) (ls : List Level) (b : Nat), invLevels q logQ omega n bsAfter fuel nn bs = .ok (ls, b) → ∀ l ∈ ls, FitL l := by
  intro fuel
  induction fuel with
  | zero =>
    intro nn bs ls b h
    simp only [invLevels, Outcome.ok.injEq, Prod.mk.injEq] at h
    obtain ⟨rfl, rfl⟩ := h
    intro l hl; simp at hl
  | succ f ih =>
    intro nn bs ls b h
    unfold invLevels at h
    simp only [] at h
    generalize (if (bs == 64) = true then bsAfter else bs) = bsx at h
    by_cases hnb : 1 + max bsx ((bsx + 1) / 2 + logQ + 1) > 64
    · rw [if_pos hnb] at h; cases h
    · rw [if_neg hnb] at h
      cases hrec : invLevels q logQ omega n bsAfter f (nn * 2) (1 + max bsx ((bsx + 1) / 2 + logQ + 1)) with
      | ok v =>
        obtain ⟨ls', b'⟩ := v
        rw [hrec] at h
        simp only [Outcome.ok.injEq, Prod.mk.injEq] at h
        obtain ⟨rfl, rfl⟩ := h
        intro l hl
        simp only [List.mem_cons] at hl
        rcases hl with rfl | hl
        · refine ⟨wu64_lt64 _, maskOf_lt64 _, by simp only []; omega, ?_⟩
          exact packedPowers_lt64 _ _ _ _ _ (modqPow_lt64 _ _ _)
        · exact ih _ _ _ _ hrec l hl
      | err e => rw [hrec] at h; cases h
      | panic c => rw [hrec] at h; cases h

theorem fitsTable_of (t : TableK) (hl : ∀ l ∈ t.levels, FitL l) (h1 : t.reduc.h < 2 ^ 64) (h2 : t.reduc.mask < 2 ^ 64) (h3 : t.reduc.cst < 2 ^ 64) :
    fitsTable t = true := by
  unfold fitsTable
  simp only [Bool.and_eq_true, decide_eq_true_eq, List.all_eq_true]
  exact ⟨⟨⟨fun l hl' => fitsLevel_of l (hl l hl'), h1⟩, h2⟩, h3⟩

/-- **every table `NttTable::<P>::new(n)` returns consists of `u64` fields** (given that the reduction constants do) -/
theorem nttTable_fits (P : PrimeSet) (k n : Nat) (t : TableK) (ht : nttTableK P k n = .ok t)
    (h1 : (reducOf P k).1.h < 2 ^ 64) (h2 : (reducOf P k).1.mask < 2 ^ 64) (h3 : (reducOf P k).1.cst < 2 ^ 64) : fitsTable t = true := by
  unfold nttTableK at ht
  split at ht
  · cases ht
  · simp only [] at ht
    split at ht
    · simp only [Outcome.ok.injEq] at ht
      subst ht
      exact fitsTable_of _ (fun l hl => by simp at hl) h1 h2 h3
    · cases hrec : fwdLevels (P.qs.getD k 1) P.logQ (modqPow (P.omega.getD k 0) ((2 ^ 16 / n : Nat) : Int) (P.qs.getD k 1)) n
          (reducOf P k).2 (Nat.log2 n) n (32 + P.logQ + 1) with
      | ok v =>
        obtain ⟨ls, b⟩ := v
        rw [hrec] at ht
        simp only [Outcome.ok.injEq] at ht
        subst ht
        refine fitsTable_of _ ?_ h1 h2 h3
        intro l hl
        simp only [List.mem_cons] at hl
        rcases hl with rfl | hl
        · exact ⟨by simp only []; omega, maskOf_lt64 _, by simp only []; omega, packedPowers_lt64 _ _ _ _ _ (by omega)⟩
        · exact fwdLevels_fit _ _ _ _ _ _ _ _ _ _ hrec l hl
      | err e => rw [hrec] at ht; cases ht
      | panic c => rw [hrec] at ht; cases ht

/-- **every table `NttTableInv::<P>::new(n)` returns consists of `u64` fields** -/
theorem inttTable_fits (P : PrimeSet) (k n : Nat) (t : TableK) (ht : inttTableK P k n = .ok t)
    (h1 : (reducOf P k).1.h < 2 ^ 64) (h2 : (reducOf P k).1.mask < 2 ^ 64) (h3 : (reducOf P k).1.cst < 2 ^ 64) : fitsTable t = true := by
  unfold inttTableK at ht
  split at ht
  · cases ht
  · simp only [] at ht
    split at ht
    · simp only [Outcome.ok.injEq] at ht
      subst ht
      exact fitsTable_of _ (fun l hl => by simp at hl) h1 h2 h3
    · cases hrec : invLevels (P.qs.getD k 1) P.logQ (modqPow (P.omega.getD k 0) ((2 ^ 16 / n : Nat) : Int) (P.qs.getD k 1)) n
          (reducOf P k).2 (Nat.log2 n - 1) 4 ((reducOf P k).2 + 1) with
      | ok v =>
        obtain ⟨ls, b⟩ := v
        rw [hrec] at ht
        simp only [] at ht
        generalize hbsx : (if (b == 64) = true then (reducOf P k).2 else b) = bsx at ht
        by_cases hnb : (bsx + 1) / 2 + P.logQ + 1 > 64
        · rw [if_pos hnb] at ht; cases ht
        · rw [if_neg hnb] at ht
          simp only [Outcome.ok.injEq] at ht
          subst ht
          refine fitsTable_of _ ?_ h1 h2 h3
          intro l hl
          simp only [List.mem_cons, List.mem_append, List.cons_append, List.not_mem_nil, or_false] at hl
          rcases hl with rfl | hl | rfl
          · exact ⟨wu64_lt64 _, by simp only []; omega, by simp only []; omega, fun x hx => by simp at hx⟩
          · exact invLevels_fit _ _ _ _ _ _ _ _ _ _ hrec l hl
          · refine ⟨wu64_lt64 _, maskOf_lt64 _, ?_, packedPowers_lt64 _ _ _ _ _ (modqPow_lt64 _ _ _)⟩
            simp only []
            omega
      | err e => rw [hrec] at ht; cases ht
      | panic c => rw [hrec] at ht; cases ht

/-- Primes29/30/31: the reduction constants are `u64` -/
theorem reduc_fits : ∀ P ∈ [primes29, primes30, primes31], ∀ k, k < 4 →
    (reducOf P k).1.h < 2 ^ 64 ∧ (reducOf P k).1.mask < 2 ^ 64 ∧ (reducOf P k).1.cst < 2 ^ 64 := by decide +kernel

end Ntt120
