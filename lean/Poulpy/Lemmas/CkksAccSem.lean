import Poulpy.Lemmas.CkksAcc
import Poulpy.Lemmas.CkksProg
import Poulpy.Model.CkksMulData
/-!
# C16: `ckks_add_many` and the un-normalised accumulation of the dot products, value theorems

`accStep_sem`: one `ckks_add_assign_unsafe` into an accumulator whose limbs are bounded by `H` (not normalised);
`addManyFold_sem`: the chain; `dAddMany_sem`: **`ckks_add_many`**, no contract, with the term-count-generalised accumulator
bound `n·2^(b−1) ≤ 2^62` (what `ensure_accumulation_fits` checks: `n ≤ 2^(63−b)`).
-/

namespace Ckks
open Hal Core Core.Ops C02L Ckks.Sem Ckks.CoreSem

theorem addCtAssign_shape {env : Env} {dst a m : Ct} (h : addCtAssign env dst a = .ok m) :
    m.size = dst.size ∧ m.md.logBudget = min dst.md.logBudget a.md.logBudget := by
  simp only [addCtAssign] at h
  split at h
  · cases h
  · injection h with h; subst h; exact ⟨rfl, rfl⟩

/-- one `ckks_add_assign_unsafe(dst, a)` into an un-normalised accumulator -/
theorem accStep_sem {env : Env} (he : EnvOK env) {N r : Nat} {dst a : DCt} {H : Int} (hHh : half env.base2k ≤ H)
    (hH : H + half env.base2k ≤ 2 ^ 62) (hd : GB N env.base2k r H dst.g) (ha : DOK env N r a) {m : Ct}
    (hm : addCtAssign env dst.ct a.ct = .ok m) :
    ∃ g1, addAssignData N false dst a = .ok g1 ∧ GB N env.base2k r (H + half env.base2k) g1 ∧ g1.size = dst.g.size ∧
      ∀ s t, t < N → Near (decG s g1 m.md.logBudget t) (decC s dst t + decC s a t) (2 ^ m.md.logBudget)
        (sn r s * ulpG g1 m.md.logBudget) := by
  obtain ⟨hs1, hs2⟩ := assignShiftDA_spec env dst.ct a.ct m hm
  simp only [DCt.ct] at hs1 hs2
  have hh0 := half_nonneg env.base2k
  have hH0 : 0 ≤ H := le_trans hh0 hHh
  have hH62 : H ≤ 2 ^ 62 := by linarith
  have hHlt : H < 2 ^ 62 := by
    have : (0 : Int) < half env.base2k := by unfold half; positivity
    linarith
  have hσ : ∀ s, 0 ≤ sn r s := fun s => le_trans zero_le_one (sn_pos r s)
  by_cases hlt : dst.md.logBudget < a.md.logBudget
  · have hsh : assignShiftDA dst.ct a.ct = (0, a.md.logBudget - dst.md.logBudget) := by
      unfold assignShiftDA; exact if_pos hlt
    have hsh' : assignShiftDA ⟨dst.md, dst.g.size⟩ ⟨a.md, a.g.size⟩ = (0, a.md.logBudget - dst.md.logBudget) := hsh
    rw [hsh'] at hs1 hs2
    have e1 : m.md.logBudget = dst.md.logBudget := by simpa using hs1
    obtain ⟨g1, h1, hg1, sz1, hv1⟩ := lsh_add_stepH he.lo he.hi hH0 hH62 hd ha.full (a.md.logBudget - dst.md.logBudget)
      m.md.logBudget a.md.logBudget (by simpa using hs2)
    refine ⟨g1, ?_, hg1, sz1, fun s t ht => ?_⟩
    · simp only [addAssignData, if_pos hlt, hsh, Bool.false_eq_true, if_false]; exact h1
    · have := hv1 s t ht
      simpa [decC, e1] using this
  · have hsh : assignShiftDA dst.ct a.ct = (dst.md.logBudget - a.md.logBudget, 0) := by
      unfold assignShiftDA; exact if_neg hlt
    have hsh' : assignShiftDA ⟨dst.md, dst.g.size⟩ ⟨a.md, a.g.size⟩ = (dst.md.logBudget - a.md.logBudget, 0) := hsh
    rw [hsh'] at hs1 hs2
    have e2 : m.md.logBudget = a.md.logBudget := by simpa using hs2
    by_cases hgt : dst.md.logBudget > a.md.logBudget
    · obtain ⟨g0, h0, hg0, sz0, hv0⟩ := lsh_assign_stepH he.lo he.hi hH0 hH62 hd (dst.md.logBudget - a.md.logBudget)
        m.md.logBudget dst.md.logBudget 0 (by omega)
      obtain ⟨g1, h1, hg1, sz1, hv1⟩ := add_assign_step he.lo he.hi hg0 ha m.md.logBudget
      refine ⟨g1, ?_, hg1.mono (by rw [← half_add_half he.lo]; linarith), by rw [sz1, sz0], fun s t ht => ?_⟩
      · simp only [addAssignData, if_neg hlt, if_pos hgt, hsh, h0, Core.Ops.bind, Bool.false_eq_true, if_false]; exact h1
      · have a0 := hv0 s t ht
        simp only [pow_zero, mul_one] at a0
        have := ((hv1 s t ht).trans (a0.add (Near.refl (decG s a.g m.md.logBudget t) _))).mono
          (by simpa using one_unit (hσ s) (le_of_lt (ulpG_pos g1 m.md.logBudget)) (trq_le_one g0.size a.g.size))
        simpa [decC, e2] using this
    · have e1 : m.md.logBudget = dst.md.logBudget := by omega
      obtain ⟨g1, h1, hg1, sz1, hv1⟩ := add_assign_stepH he.lo he.hi hH0 hHlt hd ha m.md.logBudget
      refine ⟨g1, ?_, hg1, sz1, fun s t ht => ?_⟩
      · simp only [addAssignData, if_neg hlt, if_neg hgt, Bool.false_eq_true, if_false]; exact h1
      · have := (hv1 s t ht).mono (one_unit (hσ s) (le_of_lt (ulpG_pos g1 m.md.logBudget)) (trq_le_one dst.g.size a.g.size))
        rw [e1] at this ⊢
        have e3 : dst.md.logBudget = a.md.logBudget := by omega
        simp only [decC]
        rw [← e3]
        simpa using this

/-- the metadata chain of `add_assign_unsafe` -/
def metaFold (env : Env) (r : Res Ct) (cs : List Ct) : Res Ct := cs.foldl (fun r c => r.bind (fun d' => addCtAssign env d' c)) r

theorem metaFold_not_ok (env : Env) (cs : List Ct) {r : Res Ct} (hr : ∀ m, r ≠ .ok m) : ∀ m, metaFold env r cs ≠ .ok m := by
  induction cs generalizing r with
  | nil => exact hr
  | cons c cs ih =>
    intro m
    unfold metaFold
    simp only [List.foldl_cons]
    apply ih
    intro m'
    cases r with
    | ok x => exact absurd rfl (hr x)
    | err e x => simp [Res.bind]
    | panic p => simp [Res.bind]

/-- the data chain of `add_assign_unsafe` (as written in `dAddMany`) -/
def dataFold (env : Env) (N : Nat) (r : Outcome DCt) (cs : List DCt) : Outcome DCt :=
  cs.foldl (fun (acc : Outcome DCt) c =>
    bind acc fun d =>
      bind (addAssignData N false d c) fun g2 =>
      match addCtAssign env d.ct c.ct with
      | .ok m2 => .ok ⟨g2, m2.md⟩
      | _ => .panic "model") r

theorem ulpG_mono {g g' : GLWE} (h1 : g.base2k = g'.base2k) (h2 : g.size = g'.size) {β β' : Nat} (h : β' ≤ β) : ulpG g' β' ≤ ulpG g β := by
  unfold ulpG
  rw [h1, h2]
  apply div_le_div_of_nonneg_right _ (by positivity)
  exact pow_le_pow_right₀ (by norm_num) h

/-- **the chain of `ckks_add_assign_unsafe`**: starting from an accumulator `d0` with limbs within `H0`, adding `cs` (balanced
digits) one by one without normalisation -/
theorem addManyFold_sem {env : Env} (he : EnvOK env) {N r : Nat} (cs : List DCt) (hcs : ∀ c ∈ cs, DOK env N r c)
    {d0 : DCt} {H0 : Int} (hHh : half env.base2k ≤ H0) (hH : H0 + cs.length * half env.base2k ≤ 2 ^ 62)
    (hd : GB N env.base2k r H0 d0.g) {mfin : Ct} (hm : metaFold env (.ok d0.ct) (cs.map DCt.ct) = .ok mfin) :
    ∃ dfin, dataFold env N (.ok d0) cs = .ok dfin ∧ dfin.ct = mfin ∧ GB N env.base2k r (H0 + cs.length * half env.base2k) dfin.g ∧
      dfin.g.size = d0.g.size ∧ dfin.md.logBudget ≤ d0.md.logBudget ∧
      ∀ s t, t < N → Near (decC s dfin t) (decC s d0 t + (cs.map (fun c => decC s c t)).sum) (wrap dfin)
        (cs.length * (sn r s * ulp d0)) := by
  induction cs generalizing d0 H0 with
  | nil =>
    simp only [List.map_nil, metaFold, List.foldl_nil] at hm
    injection hm with hm
    refine ⟨d0, rfl, hm, by simpa using hd, rfl, le_refl _, fun s t _ => ?_⟩
    simpa using Near.refl (decC s d0 t) (wrap d0)
  | cons c cs ih =>
    have hh0 := half_nonneg env.base2k
    simp only [List.length_cons] at hH ⊢
    push_cast at hH ⊢
    have hlen0 : (0 : Int) ≤ (cs.length : Int) * half env.base2k := by positivity
    -- first metadata step must be ok
    simp only [List.map_cons, metaFold, List.foldl_cons] at hm
    cases h1 : addCtAssign env d0.ct c.ct with
    | ok m1 =>
      simp only [Res.bind, h1] at hm
      obtain ⟨g1, e1, hg1, sz1, hv1⟩ := accStep_sem he hHh (by linarith) hd (hcs c (by simp)) h1
      obtain ⟨hsz1, hb1⟩ := addCtAssign_shape h1
      have hct1 : (⟨g1, m1.md⟩ : DCt).ct = m1 := ct_eq (by rw [hsz1, sz1]; rfl)
      obtain ⟨dfin, e2, hct, hgb, hsz, hbud, hv⟩ := ih (fun x hx => hcs x (by simp [hx])) (d0 := ⟨g1, m1.md⟩) (H0 := H0 + half env.base2k)
        (by linarith) (by linarith) hg1 (by rw [hct1]; exact hm)
      have hβ1 : m1.md.logBudget ≤ d0.md.logBudget := by rw [hb1]; exact Nat.min_le_left _ _
      refine ⟨dfin, ?_, hct, hgb.mono (by linarith), by rw [hsz]; exact sz1, le_trans hbud hβ1, fun s t ht => ?_⟩
      · simp only [dataFold, List.foldl_cons, Core.Ops.bind, e1, h1]
        exact e2
      · have a1 := hv s t ht
        have a2 := hv1 s t ht
        -- `decC ⟨g1, m1.md⟩ = decG g1 β1`
        have a2' : Near (decC s ⟨g1, m1.md⟩ t) (decC s d0 t + decC s c t) (2 ^ m1.md.logBudget) (sn r s * ulpG g1 m1.md.logBudget) := a2
        have hdvd := dvd_one (β := m1.md.logBudget) (β' := dfin.md.logBudget) hbud
        have a3 := (a2'.scale hdvd)
        simp only [one_mul, abs_one] at a3
        have a4 : Near (decC s ⟨g1, m1.md⟩ t + (cs.map (fun c => decC s c t)).sum)
            (decC s d0 t + decC s c t + (cs.map (fun c => decC s c t)).sum) (wrap dfin) (sn r s * ulpG g1 m1.md.logBudget + 0) :=
          a3.add (Near.refl _ _)
        have hu1 : ulpG g1 m1.md.logBudget ≤ ulp d0 := by
          unfold ulp
          exact ulpG_mono (by rw [hd.bk, hg1.bk]) sz1.symm hβ1
        have hu2 : ulp (⟨g1, m1.md⟩ : DCt) ≤ ulp d0 := hu1
        have hσ : 0 ≤ sn r s := le_trans zero_le_one (sn_pos r s)
        have := (a1.trans a4).mono (show (cs.length : ℚ) * (sn r s * ulp (⟨g1, m1.md⟩ : DCt)) + (sn r s * ulpG g1 m1.md.logBudget + 0)
            ≤ ((cs.length : ℚ) + 1) * (sn r s * ulp d0) by
          have h1 : (cs.length : ℚ) * (sn r s * ulp (⟨g1, m1.md⟩ : DCt)) ≤ (cs.length : ℚ) * (sn r s * ulp d0) := by gcongr
          have h2 : sn r s * ulpG g1 m1.md.logBudget ≤ sn r s * ulp d0 := by gcongr
          linarith)
        simp only [List.map_cons, List.sum_cons]
        rw [show decC s d0 t + (decC s c t + (cs.map (fun c => decC s c t)).sum)
          = decC s d0 t + decC s c t + (cs.map (fun c => decC s c t)).sum by ring]
        exact this
    | err e x =>
      exfalso
      simp only [Res.bind, h1] at hm
      exact metaFold_not_ok env _ (r := .err e x) (by simp) mfin hm
    | panic p =>
      exfalso
      simp only [Res.bind, h1] at hm
      exact metaFold_not_ok env _ (r := .panic p) (by simp) mfin hm

theorem metaFold_size (env : Env) (cs : List Ct) {d m : Ct} (h : metaFold env (.ok d) cs = .ok m) : m.size = d.size := by
  induction cs generalizing d with
  | nil => simp only [metaFold, List.foldl_nil] at h; injection h with h; rw [h]
  | cons c cs ih =>
    simp only [metaFold, List.foldl_cons] at h
    cases h1 : addCtAssign env d c with
    | ok m1 =>
      simp only [Res.bind, h1] at h
      rw [ih h, (addCtAssign_shape h1).1]
    | err e x => simp only [Res.bind, h1] at h; exact absurd h (metaFold_not_ok env _ (r := .err e x) (by simp) m)
    | panic p => simp only [Res.bind, h1] at h; exact absurd h (metaFold_not_ok env _ (r := .panic p) (by simp) m)

theorem accFits_bound {env : Env} {n : Nat} (h : accFits env n = true) (hb1 : 1 ≤ env.base2k) :
    (n : Int) * half env.base2k ≤ 2 ^ 62 := by
  simp only [accFits, Bool.and_eq_true, decide_eq_true_eq] at h
  obtain ⟨hb, hn⟩ := h
  unfold half
  have h1 : ((n : Nat) : Int) ≤ 2 ^ (63 - env.base2k) := by exact_mod_cast hn
  have h2 : (2 : Int) ^ (63 - env.base2k) * 2 ^ (env.base2k - 1) = 2 ^ 62 := by
    rw [← pow_add]; congr 1; omega
  calc (n : Int) * 2 ^ (env.base2k - 1) ≤ 2 ^ (63 - env.base2k) * 2 ^ (env.base2k - 1) :=
        mul_le_mul_of_nonneg_right h1 (by positivity)
    _ = 2 ^ 62 := h2

/-- **`ckks_add_many`, no contract.**  If the metadata model accepts the call, the data path (aligned copy, or
`add_into_unsafe` + `add_assign_unsafe` chain + one `glwe_normalize_assign`) returns a well-formed ciphertext of balanced digits
that decodes to the **sum** of the decoded inputs modulo `2^log_budget`, within `n·(1 + Σ‖sᵢ‖₁)` units of the last limb at the
largest input budget `β0`.  The accumulator head-room is `ensure_accumulation_fits` (`n ≤ 2^(63−b)` ⟹ `n·2^(b−1) ≤ 2^62`). -/
theorem dAddMany_sem {env : Env} (he : EnvOK env) {N r : Nat} {dst : DCt} {ins : List DCt} (hd : DOK env N r dst)
    (hins : ∀ c ∈ ins, DOK env N r c) {m : Ct} (hm : addMany env dst.ct (ins.map DCt.ct) = .ok m)
    (β0 : Nat) (hβ0 : ∀ c ∈ ins, c.md.logBudget ≤ β0) :
    ∃ c', dAddMany env N dst ins = .ok c' ∧ c'.ct = m ∧ DOK env N r c' ∧
      ∀ s t, t < N → Near (decC s c' t) ((ins.map (fun c => decC s c t)).sum) (wrap c')
        (ins.length * (sn r s * (2 ^ β0 / 2 ^ (env.base2k * dst.g.size)))) := by
  have hσ : ∀ s, 0 ≤ sn r s := fun s => le_trans zero_le_one (sn_pos r s)
  match ins, hins, hm, hβ0 with
  | [], _, hm, _ => simp [addMany] at hm
  | [a], hins, hm, hβ0 =>
    have ha := hins a (by simp)
    have hm' : shiftInto env dst.ct a.ct 0 = .ok m := by simpa [addMany] using hm
    have hsp := unaryShift_spec env dst.ct a.ct m hm' 0
    obtain ⟨g', e1, hg, sz, hv⟩ := lsh_step he.lo he.hi hd ha.full (unaryShift env dst.ct a.ct 0) m.md.logBudget a.md.logBudget 0
      (by simpa [DCt.ct] using hsp)
    have hsz : m.size = dst.g.size := (shiftInto_shape hm').1
    refine ⟨⟨g', m.md⟩, ?_, ct_eq (by rw [sz, hsz]), hg, fun s t ht => ?_⟩
    · simp only [dAddMany, withMeta_ok _ _ _ hm, e1, Core.Ops.bind]
    · have h1 := hv s t ht
      simp only [pow_zero, mul_one] at h1
      have hβ : m.md.logBudget ≤ β0 := by
        have := hβ0 a (by simp)
        simp only [DCt.ct] at hsp; omega
      have hu : ulpG g' m.md.logBudget ≤ 2 ^ β0 / 2 ^ (env.base2k * dst.g.size) := by
        unfold ulpG; rw [hg.bk, sz]
        apply div_le_div_of_nonneg_right _ (by positivity)
        exact pow_le_pow_right₀ (by norm_num) hβ
      have := h1.mono (show sn r s * trl env.base2k dst.g.size a.g.size (unaryShift env dst.ct a.ct 0) * ulpG g' m.md.logBudget
          ≤ (1 : ℚ) * (sn r s * (2 ^ β0 / 2 ^ (env.base2k * dst.g.size))) by
        have h2 := one_unit (hσ s) (le_of_lt (ulpG_pos g' m.md.logBudget)) (trl_le_one env.base2k dst.g.size a.g.size (unaryShift env dst.ct a.ct 0))
        have h3 : sn r s * ulpG g' m.md.logBudget ≤ sn r s * (2 ^ β0 / 2 ^ (env.base2k * dst.g.size)) :=
          mul_le_mul_of_nonneg_left hu (hσ s)
        linarith)
      simpa [decC, wrap] using this
  | a :: b :: rest, hins, hm, hβ0 =>
    have ha := hins a (by simp)
    have hb := hins b (by simp)
    have hrest : ∀ c ∈ rest, DOK env N r c := fun c hc => hins c (by simp [hc])
    simp only [addMany, List.map_cons, List.length_cons, List.length_map] at hm
    cases hfit : accFits env (rest.length + 1 + 1) with
    | false => simp [hfit] at hm
    | true =>
      simp only [hfit, Bool.not_true, Bool.false_eq_true, if_false] at hm
      cases h1 : addCtInto env dst.ct a.ct b.ct with
      | ok m1 =>
        simp only [Res.bind, h1] at hm
        have hm2 : metaFold env (.ok m1) (rest.map DCt.ct) = .ok m := hm
        obtain ⟨g1, e1, hg1, sz1, hv1⟩ := addIntoData_sem he hd ha hb false h1
        have hsz1 : m1.size = dst.g.size := by simp only [addCtInto, DCt.ct] at h1; grind
        have hct1 : (⟨g1, m1.md⟩ : DCt).ct = m1 := ct_eq (by rw [hsz1, sz1])
        have hbound := accFits_bound hfit he.lo
        push_cast at hbound
        have hfull : full env.base2k = half env.base2k + half env.base2k := (half_add_half he.lo).symm
        have hh0 := half_nonneg env.base2k
        obtain ⟨dfin, e2, hct, hgb, hsz, hbud, hv⟩ := addManyFold_sem he rest hrest (d0 := ⟨g1, m1.md⟩) (H0 := full env.base2k)
          (by rw [hfull]; linarith) (by rw [hfull]; linarith) hg1 (by rw [hct1]; exact hm2)
        obtain ⟨g', e3, hg, sz, hvn⟩ := normalize_assign_stepH he.lo he.hi (by rw [hfull]; positivity) (by rw [hfull]; linarith) hgb m.md.logBudget
        have hmsz : m.size = dst.g.size := by rw [metaFold_size env _ hm2, hsz1]
        have hdm : dfin.md = m.md := by
          have := congrArg Ct.md hct
          simpa [DCt.ct] using this
        refine ⟨⟨g', m.md⟩, ?_, ct_eq (by rw [sz, hsz, hmsz]; exact sz1.symm), hg, fun s t ht => ?_⟩
        · have hm0 : addMany env dst.ct ((a :: b :: rest).map DCt.ct) = .ok m := by
            simp only [addMany, List.map_cons, List.length_cons, List.length_map, hfit, Bool.not_true, Bool.false_eq_true, if_false, h1, Res.bind]
            exact hm2
          rw [dAddMany, withMeta_ok _ _ _ hm0]
          show Core.Ops.bind (addIntoData env N false dst a b) (fun g1 =>
            match addCtInto env dst.ct a.ct b.ct with
            | .ok m1 => Core.Ops.bind (dataFold env N (.ok ⟨g1, m1.md⟩) rest)
                (fun d => Core.Ops.bind (glweNormalizeAssign N d.g) fun g' => .ok (⟨g', m.md⟩ : DCt))
            | _ => .panic "model") = _
          rw [e1]
          show (match addCtInto env dst.ct a.ct b.ct with
            | .ok m1 => Core.Ops.bind (dataFold env N (.ok ⟨g1, m1.md⟩) rest)
                (fun d => Core.Ops.bind (glweNormalizeAssign N d.g) fun g' => .ok (⟨g', m.md⟩ : DCt))
            | _ => .panic "model") = _
          simp only [h1]
          rw [e2]
          show Core.Ops.bind (glweNormalizeAssign N dfin.g) (fun g' => .ok (⟨g', m.md⟩ : DCt)) = _
          rw [e3]
          rfl
        · have a1 := hvn s t ht
          have a2 := hv s t ht
          have a3 := hv1 s t ht
          simp only [sg, Bool.false_eq_true, if_false, one_mul] at a3
          have hβfin : dfin.md.logBudget = m.md.logBudget := by rw [hdm]
          have a2' : Near (decG s dfin.g m.md.logBudget t) (decG s g1 m1.md.logBudget t + (rest.map (fun c => decC s c t)).sum)
              (2 ^ m.md.logBudget) (rest.length * (sn r s * ulpG g1 m1.md.logBudget)) := by
            simpa [decC, wrap, ulp, hβfin] using a2
          have hbud' : m.md.logBudget ≤ m1.md.logBudget := by rw [← hβfin]; exact hbud
          have a3' := (a3.scale (dvd_one hbud')).add (Near.refl ((rest.map (fun c => decC s c t)).sum) (2 ^ m.md.logBudget))
          simp only [one_mul, abs_one] at a3'
          have hβ1 : m1.md.logBudget ≤ β0 := le_trans (addCtInto_budget h1).1 (hβ0 a (by simp))
          have hu : ulpG g1 m1.md.logBudget ≤ 2 ^ β0 / 2 ^ (env.base2k * dst.g.size) := by
            unfold ulpG; rw [hg1.bk, sz1]
            apply div_le_div_of_nonneg_right _ (by positivity)
            exact pow_le_pow_right₀ (by norm_num) hβ1
          have := ((a1.trans a2').trans a3').mono (show (0 : ℚ) + rest.length * (sn r s * ulpG g1 m1.md.logBudget)
              + (2 * sn r s * ulpG g1 m1.md.logBudget + 0)
              ≤ ((rest.length : ℚ) + 1 + 1) * (sn r s * (2 ^ β0 / 2 ^ (env.base2k * dst.g.size))) by
            have h2 : sn r s * ulpG g1 m1.md.logBudget ≤ sn r s * (2 ^ β0 / 2 ^ (env.base2k * dst.g.size)) :=
              mul_le_mul_of_nonneg_left hu (hσ s)
            have h3 : (0 : ℚ) ≤ rest.length := by positivity
            nlinarith)
          simp only [List.map_cons, List.sum_cons, List.length_cons]
          push_cast
          rw [show decC s a t + (decC s b t + (rest.map (fun c => decC s c t)).sum)
            = decC s a t + decC s b t + (rest.map (fun c => decC s c t)).sum by ring]
          simpa [decC, wrap] using this
      | err e x => simp only [Res.bind, h1] at hm; cases hm
      | panic p => simp only [Res.bind, h1] at hm; cases hm

end Ckks
