import Poulpy.Lemmas.CoreOpsShift2
import Poulpy.Lemmas.CoreOpsProg

/-!
Accumulated error of a chain of operations on one ciphertext: the per-coefficient torus relation
`X·2^a = Y·2^b + e + q·2^m`, `|e| ≤ U`, composes (powers of two), is preserved by negation and
rotation, and doubles its tolerance under `X^k − 1`.
-/

namespace C02L
open Hal Core Core.Ops CoreEnc

/-- coefficient-wise: `X/2^b'… ` — `X·2^a = Y·2^b + e + q·2^m` with `|e| ≤ U`, for every coefficient `t < N` -/
def PRel (N : Nat) (X : Poly) (a : Nat) (Y : Poly) (b m : Nat) (U : Int) : Prop :=
  ∀ t, t < N → ∃ q e : Int, X.getD t 0 * 2 ^ a = Y.getD t 0 * 2 ^ b + e + q * 2 ^ m ∧ |e| ≤ U

theorem PRel.refl (N : Nat) (X : Poly) (m : Nat) : PRel N X 0 X 0 m 0 :=
  fun t _ => ⟨0, 0, by simp, by simp⟩

/-- composition: `X₂ ~ X₁` after `X₁ ~ Y` -/
theorem PRel.trans {N : Nat} {X2 X1 Y : Poly} {a2 b2 m2 a1 b1 m1 : Nat} {U2 U1 : Int}
    (h2 : PRel N X2 a2 X1 b2 m2 U2) (h1 : PRel N X1 a1 Y b1 m1 U1) :
    PRel N X2 (a2 + a1) Y (b1 + b2) (min (m1 + b2) (m2 + a1)) (U1 * 2 ^ b2 + U2 * 2 ^ a1) := by
  intro t ht
  obtain ⟨q2, e2, h2e, h2b⟩ := h2 t ht
  obtain ⟨q1, e1, h1e, h1b⟩ := h1 t ht
  set m := min (m1 + b2) (m2 + a1) with hm
  refine ⟨q1 * 2 ^ (m1 + b2 - m) + q2 * 2 ^ (m2 + a1 - m), e1 * 2 ^ b2 + e2 * 2 ^ a1, ?_, ?_⟩
  · have p1 : (2 : Int) ^ (m1 + b2 - m) * 2 ^ m = 2 ^ m1 * 2 ^ b2 := by
      rw [← pow_add, ← pow_add]; congr 1; omega
    have p2 : (2 : Int) ^ (m2 + a1 - m) * 2 ^ m = 2 ^ m2 * 2 ^ a1 := by
      rw [← pow_add, ← pow_add]; congr 1; omega
    rw [pow_add, pow_add]
    linear_combination (2 ^ a1) * h2e + (2 ^ b2) * h1e - q1 * p1 - q2 * p2
  · have t1 : |e1 * 2 ^ b2| ≤ U1 * 2 ^ b2 := by
      rw [abs_mul, abs_of_pos (by positivity : (0 : Int) < 2 ^ b2)]
      exact mul_le_mul_of_nonneg_right h1b (by positivity)
    have t2 : |e2 * 2 ^ a1| ≤ U2 * 2 ^ a1 := by
      rw [abs_mul, abs_of_pos (by positivity : (0 : Int) < 2 ^ a1)]
      exact mul_le_mul_of_nonneg_right h2b (by positivity)
    exact (abs_add_le _ _).trans (by linarith)

theorem polyNeg_getD (x : Poly) (t : Nat) : (polyNeg x).getD t 0 = -(x.getD t 0) := by
  simp only [polyNeg, List.getD_eq_getElem?_getD, List.getElem?_map]
  cases x[t]? <;> simp

theorem PRel.neg {N : Nat} {X Y : Poly} {a b m : Nat} {U : Int} (h : PRel N X a Y b m U) :
    PRel N (polyNeg X) a (polyNeg Y) b m U := by
  intro t ht
  obtain ⟨q, e, he, hb⟩ := h t ht
  refine ⟨-q, -e, ?_, by simpa using hb⟩
  rw [polyNeg_getD, polyNeg_getD]
  linear_combination -he

/-- a coefficient of `X^k·p` is a signed coefficient of `p` -/
theorem rotP_coef (k : Int) (p : Poly) (t : Nat) (ht : t < p.length) :
    ∃ σ, σ < p.length ∧ ∃ ε : Int, (ε = 1 ∨ ε = -1) ∧ ∀ p' : Poly, p'.length = p.length →
      (rotP k p').getD t 0 = ε * p'.getD σ 0 := by
  have hn : (0 : Int) < p.length := by omega
  set s := (((t : Int) - k) % (2 * (p.length : Int))).toNat with hs
  have hs0 : 0 ≤ ((t : Int) - k) % (2 * (p.length : Int)) := Int.emod_nonneg _ (by omega)
  have hs1 : ((t : Int) - k) % (2 * (p.length : Int)) < 2 * (p.length : Int) := Int.emod_lt_of_pos _ (by omega)
  have hs2 : s < 2 * p.length := by omega
  by_cases c : s < p.length
  · refine ⟨s, c, 1, Or.inl rfl, fun p' hl => ?_⟩
    rw [rotP, rotate_getD id k p' t (by omega)]
    unfold coeffZ
    simp only [hl, ← hs, c, if_true]
    ring
  · refine ⟨s - p.length, by omega, -1, Or.inr rfl, fun p' hl => ?_⟩
    rw [rotP, rotate_getD id k p' t (by omega)]
    unfold coeffZ
    simp only [hl, ← hs, c, if_false, id]
    ring

theorem PRel.rot {N : Nat} {X Y : Poly} {a b m : Nat} {U : Int} (k : Int) (hX : X.length = N) (hY : Y.length = N)
    (h : PRel N X a Y b m U) : PRel N (rotP k X) a (rotP k Y) b m U := by
  intro t ht
  obtain ⟨σ, hσ, ε, hε, hc⟩ := rotP_coef k X t (by omega)
  obtain ⟨q, e, he, hb⟩ := h σ (by omega)
  refine ⟨ε * q, ε * e, ?_, ?_⟩
  · rw [hc X rfl, hc Y (by omega)]
    linear_combination ε * he
  · rcases hε with rfl | rfl <;> simpa using hb

theorem polySub_getD (x y : Poly) (t : Nat) (h : x.length = y.length) :
    (polySub x y).getD t 0 = x.getD t 0 - y.getD t 0 := by
  simp only [polySub, List.getD_eq_getElem?_getD, List.getElem?_zipWith]
  by_cases ht : t < x.length
  · simp [List.getElem?_eq_getElem ht, List.getElem?_eq_getElem (h ▸ ht)]
  · simp [List.getElem?_eq_none (by omega : x.length ≤ t), List.getElem?_eq_none (by omega : y.length ≤ t)]

theorem PRel.mxp {N : Nat} {X Y : Poly} {a b m : Nat} {U : Int} (k : Int) (hX : X.length = N) (hY : Y.length = N)
    (h : PRel N X a Y b m U) : PRel N (mxpP k X) a (mxpP k Y) b m (2 * U) := by
  intro t ht
  obtain ⟨q1, e1, he1, hb1⟩ := (h.rot k hX hY) t ht
  obtain ⟨q2, e2, he2, hb2⟩ := h t ht
  refine ⟨q1 - q2, e1 - e2, ?_, ?_⟩
  · rw [mxpP, mxpP, polySub_getD _ _ _ (by simp [rotP_length]), polySub_getD _ _ _ (by simp [rotP_length])]
    linear_combination he1 - he2
  · have := abs_sub e1 e2
    linarith

/-! ### `valP` commutes with limb-wise linear maps -/

theorem linT_scale {N : Nat} {T : Poly → Poly} (hT : LinT N T) (c : Int) (x : Poly) (hx : x.length = N) :
    T (polyScale c x) = polyScale c (T x) := by
  have e : ∀ y : Poly, y.length = N → Hal.negMul [c] y = polyScale c y := by
    intro y hy
    simp only [Hal.negMul]
    have z : y.map (fun _ => (0 : Int)) = zeroP N := by simp [zeroP, List.map_const', hy]
    rw [z, mulX_zero, polyAdd_zero_right _ N (by simp [hy])]
  rw [← e x hx, hT.mul [c] x hx, e _ (hT.len x hx)]

theorem valP_map {N : Nat} {T : Poly → Poly} (hT : LinT N T) (b : Nat) (c : Col) (hc : LimbsN N c) :
    valP b N (c.map T) = T (valP b N c) := by
  induction c using List.reverseRecOn with
  | nil => simp [valP_nil, hT.zero]
  | append_singleton xs l ih =>
    have hl : l.length = N := hc l (by simp)
    have hxs : LimbsN N xs := fun l' h' => hc l' (by simp [h'])
    rw [List.map_append, List.map_singleton, valP_snoc _ _ _ _ (hT.len l hl), valP_snoc _ _ _ _ hl, ih hxs,
      hT.add _ _ (by simp) hl, linT_scale hT _ _ (by simp)]

/-! ### chains of in-place operations on one pool entry -/

/-- the in-place operations on a single ciphertext -/
inductive UOp where
  | neg | rot (k : Int) | mxp (k : Int) | rsh (k : Nat) | lsh (k : Nat) | norm
deriving Repr

def UOp.toOp (r : Nat) : UOp → Op
  | .neg => .negateAssign r
  | .rot k => .rotateAssign k r
  | .mxp k => .mulXpMinusOneAssign k r
  | .rsh k => .rsh k r
  | .lsh k => .lshAssign r k
  | .norm => .normalizeAssign r

/-- the exact ring map of the operation on plaintexts (the scalings are tracked by the exponents) -/
def UOp.T : UOp → Poly → Poly
  | .neg => polyNeg
  | .rot k => rotP k
  | .mxp k => mxpP k
  | _ => id

def TRun : List UOp → Poly → Poly
  | [], y => y
  | u :: rest, y => TRun rest (u.T y)

/-- accumulated relation `X·2^a = T(Y)·2^b + e + q·2^m`, `|e| ≤ U` -/
structure Acc where
  a : Nat
  b : Nat
  m : Nat
  U : Int
deriving Repr

/-- one operation more (`P = base2k·size` bits of precision, `sn = Σ‖sᵢ‖₁`): negation and rotation keep
the tolerance, `X^k − 1` doubles it, a right shift adds `(1 + sn)` units of the last limb, left shift and
re-normalisation add nothing -/
def accStep (P : Nat) (sn : Int) (acc : Acc) : UOp → Acc
  | .neg | .rot _ => acc
  | .mxp _ => { acc with U := 2 * acc.U }
  | .rsh k => { a := (P + k) + acc.a, b := acc.b + P, m := min (acc.m + P) ((P + (P + k)) + acc.a),
                U := acc.U * 2 ^ P + ((1 + sn) * 2 ^ (P + k)) * 2 ^ acc.a }
  | .lsh k => { a := P + acc.a, b := acc.b + (k + P), m := min (acc.m + (k + P)) ((P + P) + acc.a),
                U := acc.U * 2 ^ (k + P) + 0 * 2 ^ acc.a }
  | .norm => { a := P + acc.a, b := acc.b + P, m := min (acc.m + P) ((P + P) + acc.a), U := acc.U * 2 ^ P + 0 * 2 ^ acc.a }

def accRun (P : Nat) (sn : Int) : Acc → List UOp → Acc
  | acc, [] => acc
  | acc, u :: rest => accRun P sn (accStep P sn acc u) rest

/-- head-room along a run on entry `r`: before every operation the entry is `GSmall` and `GBound H` -/
def HRun (H : Int) (r : Nat) : Pool → List Op → Prop
  | _, [] => True
  | p, op :: rest => (∀ c, p.objs[r]? = some (Obj.ct c) → GSmall c ∧ GBound H c) ∧ ∀ p', step p op = .ok p' → HRun H r p' rest

theorem PRel_of_val {N : Nat} (b : Nat) (X Y : Col) (a b' m : Nat) (U : Int)
    (h : ∀ t, t < N → ∃ q e : Int, valCoeff b X t * 2 ^ a = valCoeff b Y t * 2 ^ b' + e + q * 2 ^ m ∧ |e| ≤ U) :
    PRel N (valP b N X) a (valP b N Y) b' m U := by
  intro t ht
  rw [valP_getD _ _ _ _ ht, valP_getD _ _ _ _ ht]
  exact h t ht

theorem put_same (p : Pool) (r : Nat) (o o' : Obj) (h : p.objs[r]? = some o') : (putObj p r o).objs[r]? = some o := by
  rw [put_get p r o o' h r]; simp

instance instDecGSmall (g : GLWE) : Decidable (GSmall g) := by unfold GSmall ColSmall PolySmall; infer_instance
instance instDecGBound (H : Int) (g : GLWE) : Decidable (GBound H g) := by unfold GBound; infer_instance

/-- executable form of `HRun` -/
def hRunB (H : Int) (r : Nat) : Pool → List Op → Bool
  | _, [] => true
  | p, op :: rest =>
    (match p.objs[r]? with
      | some (.ct c) => decide (GSmall c ∧ GBound H c)
      | _ => true) &&
    match step p op with
    | .ok p' => hRunB H r p' rest
    | _ => true

theorem hrun_of_B (H : Int) (r : Nat) : ∀ (ops : List Op) (p : Pool), hRunB H r p ops = true → HRun H r p ops := by
  intro ops
  induction ops with
  | nil => intro p _; trivial
  | cons op rest ih =>
    intro p h
    simp only [hRunB, Bool.and_eq_true] at h
    refine ⟨fun c hc => ?_, fun p' hp' => ih p' ?_⟩
    · have h1 := h.1
      rw [hc] at h1
      simpa using h1
    · have h2 := h.2
      rw [hp'] at h2
      exact h2

theorem T_length {N : Nat} (u : UOp) (Y : Poly) (hY : Y.length = N) : (u.T Y).length = N := by
  cases u <;> simp [UOp.T, hY, rotP_length, mxpP, polySub_length]

end C02L
