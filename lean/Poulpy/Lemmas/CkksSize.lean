import Poulpy.Lemmas.CkksXProg
/-!
# C16: no call of the evaluator fragment changes the number of limbs of a ciphertext

(`ckks_reallocate_limbs`, `ckks_compact_limbs*` are the only calls that do; they are not part of `XOp`.)
-/

namespace Ckks
open Hal Core Core.Ops C02L Ckks.Sem Ckks.CoreSem KsDec AutoMul

theorem size_addCtInto {env : Env} {dst a b m : Ct} (h : addCtInto env dst a b = .ok m) : m.size = dst.size := by
  simp only [addCtInto] at h; grind
theorem size_addCtAssign {env : Env} {dst a m : Ct} (h : addCtAssign env dst a = .ok m) : m.size = dst.size := by
  simp only [addCtAssign] at h; grind
theorem size_shiftInto {env : Env} {dst a m : Ct} {e : Nat} (h : shiftInto env dst a e = .ok m) : m.size = dst.size := by
  simp only [shiftInto] at h; grind
theorem size_negInto {env : Env} {dst a m : Ct} (h : negInto env dst a = .ok m) : m.size = dst.size := by
  simp only [negInto, shiftInto] at h; grind
theorem size_divPow2Into {env : Env} {dst a m : Ct} {bits : Nat} (h : divPow2Into env dst a bits = .ok m) : m.size = dst.size := by
  simp only [divPow2Into, shiftInto, Res.bind] at h; grind
theorem size_divPow2Assign {env : Env} {dst m : Ct} {bits : Nat} (h : divPow2Assign env dst bits = .ok m) : m.size = dst.size := by
  simp only [divPow2Assign] at h; grind
theorem size_rescaleInto {env : Env} {dst a m : Ct} {k : Nat} (h : rescaleInto env dst k a = .ok m) : m.size = dst.size := by
  simp only [rescaleInto] at h; grind
theorem size_rescaleAssign {env : Env} {dst m : Ct} {k : Nat} (h : rescaleAssign env dst k = .ok m) : m.size = dst.size := by
  simp only [rescaleAssign] at h; grind
theorem size_rotateInto {env : Env} {dst a m : Ct} {k : Int} (h : rotateInto env dst a k = .ok m) : m.size = dst.size := by
  simp only [rotateInto, shiftInto] at h; grind
theorem size_rotateAssign {env : Env} {dst m : Ct} {k : Int} (h : rotateAssign env dst k = .ok m) : m.size = dst.size := by
  simp only [rotateAssign] at h; grind
theorem size_ptAlign {env : Env} {dst m : Ct} {pt : Pt} (h : ptAlign env dst pt = .ok m) : m.size = dst.size := by
  simp only [ptAlign] at h; grind

theorem size_addPtZnxInto {env : Env} {dst a m : Ct} {pt : Pt} (h : addPtZnxInto env dst a pt = .ok m) : m.size = dst.size := by
  unfold addPtZnxInto at h
  cases h1 : shiftInto env dst a 0 with
  | ok d => rw [h1] at h; simp only [Res.bind] at h; rw [size_ptAlign h, size_shiftInto h1]
  | err e x => rw [h1] at h; simp [Res.bind] at h
  | panic p => rw [h1] at h; simp [Res.bind] at h

theorem size_mulInto {env : Env} {dst a b m : Ct} (h : mulInto env dst a b = .ok m) : m.size = dst.size := by
  obtain ⟨q, _, hm, _⟩ := mulInto_lims h
  rw [hm]

theorem size_squareInto {env : Env} {dst a m : Ct} (h : squareInto env dst a = .ok m) : m.size = dst.size := by
  obtain ⟨q, _, _, hm⟩ := squareInto_params h
  rw [hm]

theorem size_mulPtZnxInto {env : Env} {dst a m : Ct} {pt : Pt} (h : mulPtZnxInto env dst a pt = .ok m) : m.size = dst.size := by
  obtain ⟨_, q, _, _, hm⟩ := mulPtZnx_ok h
  rw [hm]

theorem size_mulAddWith {env : Env} {dst m : Ct} {prod : Ct → Res Ct} (h : mulAddWith env dst prod = .ok m) : m.size = dst.size := by
  obtain ⟨mt, _, h2⟩ := mulAddWith_ok h
  exact size_addCtAssign h2

theorem size_metaFold {env : Env} (cs : List Ct) {d m : Ct} (h : metaFold env (.ok d) cs = .ok m) : m.size = d.size :=
  metaFold_size env cs h

theorem size_addMany {env : Env} {dst m : Ct} {ins : List Ct} (h : addMany env dst ins = .ok m) : m.size = dst.size := by
  match ins, h with
  | [], h => simp [addMany] at h
  | [a], h =>
    have h' : shiftInto env dst a 0 = .ok m := by simpa [addMany] using h
    exact size_shiftInto h'
  | a :: b :: rest, h =>
    simp only [addMany] at h
    split at h
    · cases h
    · cases h1 : addCtInto env dst a b with
      | ok m1 =>
        simp only [Res.bind, h1] at h
        rw [metaFold_size env _ (d := m1) h, size_addCtInto h1]
      | err e x => simp only [Res.bind, h1] at h; cases h
      | panic p => simp only [Res.bind, h1] at h; cases h

theorem size_accStep {env : Env} {d m : Ct} {t : Ct → Res Ct} (h : accStep env (.ok d) t = .ok m) : m.size = d.size := by
  simp only [accStep, Res.bind] at h
  cases ht : t (mulTmp d) with
  | ok tmp => rw [ht] at h; exact size_addCtAssign h
  | err e x => rw [ht] at h; cases h
  | panic p => rw [ht] at h; cases h

theorem size_accumulate {env : Env} : ∀ (ts : List (Ct → Res Ct)) {d m : Ct}, ts.foldl (accStep env) (.ok d) = .ok m → m.size = d.size
  | [], d, m, h => by simp only [List.foldl_nil] at h; injection h with h; rw [h]
  | t :: ts, d, m, h => by
    simp only [List.foldl_cons] at h
    cases h1 : accStep env (.ok d) t with
    | ok d1 => rw [h1] at h; rw [size_accumulate ts h, size_accStep h1]
    | err e x => rw [h1] at h; exact absurd h (accumulate_not_ok env ts (r := .err e x) (by simp) m)
    | panic p => rw [h1] at h; exact absurd h (accumulate_not_ok env ts (r := .panic p) (by simp) m)

theorem size_dotWith {env : Env} {dst m : Ct} {n : Nat} {first : Ct → Res Ct} {others : List (Ct → Res Ct)}
    (hf : ∀ d, first dst = .ok d → d.size = dst.size) (h : dotWith env dst n first others = .ok m) : m.size = dst.size := by
  unfold dotWith at h
  split at h
  · cases h
  · split at h
    · cases h
    · cases h1 : first dst with
      | ok d => rw [h1] at h; simp only [Res.bind, accumulate] at h; rw [size_accumulate others h, hf d h1]
      | err e x => rw [h1] at h; simp [Res.bind] at h
      | panic p => rw [h1] at h; simp [Res.bind] at h

theorem size_dotPtZnx {env : Env} {dst m : Ct} {as : List Ct} {pt : Pt} (h : dotPtZnx env dst as pt = .ok m) : m.size = dst.size := by
  unfold dotPtZnx at h
  match as, h with
  | [], h => cases h
  | a0 :: rest, h => exact size_dotWith (fun d hd => size_mulPtZnxInto hd) h

theorem size_finishMul {dst m : Ct} {p : MulP} {chk : Option Panic} (h : finishMul dst p chk = .ok m) : m.size = dst.size := by
  rw [(finishMul_ok' h).2]

theorem size_dotCt {env : Env} {dst m : Ct} {as bs : List Ct} (h : dotCt env dst as bs = .ok m) : m.size = dst.size := by
  unfold dotCt at h
  split at h
  · cases h
  · split at h
    · cases h
    · split at h
      · cases h
      · match as, bs, h with
        | [], _, h => simp at h
        | _ :: _, [], h => simp at h
        | a0 :: ta, b0 :: tb, h =>
          simp only at h
          split at h
          · exact size_mulInto h
          · split at h
            · cases h1 : mulInto env dst a0 b0 with
              | ok d => rw [h1] at h; simp only [Res.bind, accumulate] at h; rw [size_accumulate _ h, size_mulInto h1]
              | err e x => rw [h1] at h; simp [Res.bind] at h
              | panic p => rw [h1] at h; simp [Res.bind] at h
            · split at h
              · split at h
                · exact size_finishMul h
                · cases h
              · cases h

theorem size_mulManyRec {env : Env} : ∀ (fuel : Nat) {dst m : Ct} {ins : List Ct}, mulManyRec env fuel dst ins = .ok m → m.size = dst.size
  | 0, _, _, _, h => by simp [mulManyRec] at h
  | fuel + 1, dst, m, ins, h => by
    unfold mulManyRec at h
    match ins, h with
    | [], h => cases h
    | [x], h => exact size_shiftInto h
    | [x, y], h =>
      simp only at h
      split at h
      · exact size_mulInto h
      · cases h
    | a :: b :: c :: rest, h =>
      simp only at h
      split at h
      · unfold mulTree at h
        simp only at h
        split at h
        · cases h
        · cases h
        · split at h
          · cases h
          · cases h
          · exact size_mulInto h
      · cases h

theorem size_mulMany {env : Env} {dst m : Ct} {ins : List Ct} (h : mulMany env dst ins = .ok m) : m.size = dst.size :=
  size_mulManyRec _ h

theorem withPt_size {env : Env} {pt : Pt} {dst m : Ct} {f : Res Ct} (hf : ∀ m, f = .ok m → m.size = dst.size)
    (h : withPt env pt dst f = .ok m) : m.size = dst.size := hf m (withPt_ok2 h).2

/-! ### the pool -/

def sizes (P : Pool) : List Nat := P.map Ct.size

theorem sizes_set {P : Pool} {d : Nat} {cd m : Ct} (hd : P[d]? = some cd) (hm : m.size = cd.size) : sizes (P.set d m) = sizes P := by
  unfold sizes
  rw [List.map_set]
  apply List.ext_getElem?
  intro i
  by_cases hi : i = d
  · subst hi
    have hl : i < P.length := by
      rcases Nat.lt_or_ge i P.length with h1 | h1
      · exact h1
      · rw [List.getElem?_eq_none h1] at hd; cases hd
    have hP : P[i] = cd := by
      have := List.getElem?_eq_getElem hl
      rw [this] at hd; injection hd
    simp [hl, hm, hP]
  · simp [List.getElem?_set, Ne.symm hi]

/-- **every call of the fragment keeps the limb count of every ciphertext** -/
theorem stepR_sizes {env : Env} {P P' : Pool} (op : XOp) (h : stepR env P op.toOp = .ok P') : sizes P' = sizes P := by
  cases op with
  | lin op =>
    cases op with
    | add sub d a b =>
      obtain ⟨cd, ca, cb, m, hd, _, _, _, _, hf, rfl⟩ := op3_ok' (show op3 _ d a b (addCtInto env) = .ok P' from h)
      exact sizes_set hd (size_addCtInto hf)
    | addAssign sub d a =>
      obtain ⟨cd, ca, m, hd, _, _, hf, rfl⟩ := op2_ok' (show op2 _ d a (addCtAssign env) = .ok P' from h)
      exact sizes_set hd (size_addCtAssign hf)
    | neg d a =>
      obtain ⟨cd, ca, m, hd, _, _, hf, rfl⟩ := op2_ok' (show op2 _ d a (negInto env) = .ok P' from h)
      exact sizes_set hd (size_negInto hf)
    | negAssign d =>
      obtain ⟨cd, m, hd, hf, rfl⟩ := op1_ok' (show op1 _ d (fun cd => .ok cd) = .ok P' from h)
      injection hf with hf
      exact sizes_set hd (by rw [hf])
    | mulPow2 d a bits =>
      obtain ⟨cd, ca, m, hd, _, _, hf, rfl⟩ := op2_ok' (show op2 _ d a (fun cd ca => mulPow2Into env cd ca bits) = .ok P' from h)
      exact sizes_set hd (size_shiftInto hf)
    | mulPow2Assign d bits =>
      obtain ⟨cd, m, hd, hf, rfl⟩ := op1_ok' (show op1 _ d (fun cd => .ok cd) = .ok P' from h)
      injection hf with hf
      exact sizes_set hd (by rw [hf])
    | divPow2 d a bits =>
      obtain ⟨cd, ca, m, hd, _, _, hf, rfl⟩ := op2_ok' (show op2 _ d a (fun cd ca => divPow2Into env cd ca bits) = .ok P' from h)
      exact sizes_set hd (size_divPow2Into hf)
    | divPow2Assign d bits =>
      obtain ⟨cd, m, hd, hf, rfl⟩ := op1_ok' (show op1 _ d (fun cd => divPow2Assign env cd bits) = .ok P' from h)
      exact sizes_set hd (size_divPow2Assign hf)
    | rescale d k a =>
      obtain ⟨cd, ca, m, hd, _, _, hf, rfl⟩ := op2_ok' (show op2 _ d a (fun cd ca => rescaleInto env cd k ca) = .ok P' from h)
      exact sizes_set hd (size_rescaleInto hf)
    | rescaleAssign d k =>
      obtain ⟨cd, m, hd, hf, rfl⟩ := op1_ok' (show op1 _ d (fun cd => rescaleAssign env cd k) = .ok P' from h)
      exact sizes_set hd (size_rescaleAssign hf)
    | align a b =>
      have h' : alignStep env P a b = .ok P' := h
      unfold alignStep at h'
      cases ha : P[a]? with
      | none => simp [ha] at h'
      | some ca =>
        cases hb : P[b]? with
        | none => simp [ha, hb] at h'
        | some cb =>
          simp only [ha, hb] at h'
          split at h'
          · cases h'
          · split at h'
            · split at h'
              · cases h'
              · next k _ =>
                cases hr : rescaleAssign env cb k with
                | ok m => rw [hr] at h'; simp only [putRes] at h'; injection h' with h'; rw [← h']; exact sizes_set hb (size_rescaleAssign hr)
                | err e x => rw [hr] at h'; simp [putRes] at h'
                | panic p => rw [hr] at h'; simp [putRes] at h'
            · split at h'
              · cases h'
              · next k _ =>
                cases hr : rescaleAssign env ca k with
                | ok m => rw [hr] at h'; simp only [putRes] at h'; injection h' with h'; rw [← h']; exact sizes_set ha (size_rescaleAssign hr)
                | err e x => rw [hr] at h'; simp [putRes] at h'
                | panic p => rw [hr] at h'; simp [putRes] at h'
    | addPt sub d a pt pg =>
      obtain ⟨cd, ca, m, hd, _, _, hf, rfl⟩ := op2_ok' (show op2 _ d a (fun cd ca => withPt env pt cd (addPtZnxInto env cd ca pt)) = .ok P' from h)
      exact sizes_set hd (withPt_size (fun m hm => size_addPtZnxInto hm) hf)
    | addPtAssign sub d pt pg =>
      obtain ⟨cd, m, hd, hf, rfl⟩ := op1_ok' (show op1 _ d (fun cd => withPt env pt cd (addPtZnxAssign env cd pt)) = .ok P' from h)
      exact sizes_set hd (withPt_size (fun m hm => size_ptAlign hm) hf)
  | mul d a b =>
    obtain ⟨cd, ca, cb, m, hd, _, _, _, _, hf, rfl⟩ := op3_ok' (show op3 _ d a b (mulInto env) = .ok P' from h)
    exact sizes_set hd (size_mulInto hf)
  | mulAssign d a =>
    obtain ⟨cd, ca, m, hd, _, _, hf, rfl⟩ := op2_ok' (show op2 _ d a (fun cd ca => mulInto env cd cd ca) = .ok P' from h)
    exact sizes_set hd (size_mulInto hf)
  | square d a =>
    obtain ⟨cd, ca, m, hd, _, _, hf, rfl⟩ := op2_ok' (show op2 _ d a (squareInto env) = .ok P' from h)
    exact sizes_set hd (size_squareInto hf)
  | squareAssign d =>
    obtain ⟨cd, m, hd, hf, rfl⟩ := op1_ok' (show op1 _ d (fun cd => squareInto env cd cd) = .ok P' from h)
    exact sizes_set hd (size_squareInto hf)
  | mulPt d a pt pg =>
    obtain ⟨cd, ca, m, hd, _, _, hf, rfl⟩ := op2_ok' (show op2 _ d a (fun cd ca => withPt env pt cd (mulPtZnxInto env cd ca pt)) = .ok P' from h)
    exact sizes_set hd (withPt_size (fun m hm => size_mulPtZnxInto hm) hf)
  | mulPtAssign d pt pg =>
    obtain ⟨cd, m, hd, hf, rfl⟩ := op1_ok' (show op1 _ d (fun cd => withPt env pt cd (mulPtZnxInto env cd cd pt)) = .ok P' from h)
    exact sizes_set hd (withPt_size (fun m hm => size_mulPtZnxInto hm) hf)
  | mulAdd sub d a b =>
    obtain ⟨cd, ca, cb, m, hd, _, _, _, _, hf, rfl⟩ := op3_ok' (show op3 _ d a b (mulAddCt env) = .ok P' from h)
    exact sizes_set hd (size_mulAddWith hf)
  | mulAddPt sub d a pt pg =>
    obtain ⟨cd, ca, m, hd, _, _, hf, rfl⟩ := op2_ok' (show op2 _ d a (fun cd ca => withPt env pt cd (mulAddPtZnx env cd ca pt)) = .ok P' from h)
    exact sizes_set hd (withPt_size (fun m hm => size_mulAddWith hm) hf)
  | addMany d as =>
    obtain ⟨cd, cs, m, hd, _, hf, rfl⟩ := opN_ok' (show opN _ d as (addMany env) = .ok P' from h)
    exact sizes_set hd (size_addMany hf)
  | mulMany d as =>
    obtain ⟨cd, cs, m, hd, _, hf, rfl⟩ := opN_ok' (show opN _ d as (mulMany env) = .ok P' from h)
    exact sizes_set hd (size_mulMany hf)
  | dotCt d as bs =>
    obtain ⟨cd, cs, ds, m, hd, _, _, hf, rfl⟩ := opNN_ok' (show opNN _ d as bs (dotCt env) = .ok P' from h)
    exact sizes_set hd (size_dotCt hf)
  | dotPt d as pt pgs =>
    obtain ⟨cd, cs, m, hd, _, hf, rfl⟩ := opN_ok' (show opN _ d as (fun cd cs => withPt env pt cd (dotPtZnx env cd cs pt)) = .ok P' from h)
    exact sizes_set hd (withPt_size (fun m hm => size_dotPtZnx hm) hf)
  | rot d a k =>
    obtain ⟨cd, ca, m, hd, _, _, hf, rfl⟩ := op2_ok' (show op2 _ d a (fun cd ca => rotateInto env cd ca k) = .ok P' from h)
    exact sizes_set hd (size_rotateInto hf)
  | rotAssign d k =>
    obtain ⟨cd, m, hd, hf, rfl⟩ := op1_ok' (show op1 _ d (fun cd => rotateAssign env cd k) = .ok P' from h)
    exact sizes_set hd (size_rotateAssign hf)
  | conj d a =>
    obtain ⟨cd, ca, m, hd, _, _, hf, rfl⟩ := op2_ok' (show op2 _ d a (fun cd ca => mulPow2Into env cd ca 0) = .ok P' from h)
    exact sizes_set hd (size_shiftInto hf)
  | conjAssign d =>
    obtain ⟨cd, m, hd, hf, rfl⟩ := op1_ok' (show op1 _ d (fun cd => .ok cd) = .ok P' from h)
    injection hf with hf
    exact sizes_set hd (by rw [hf])

end Ckks
