/-
C16 — the float → integer conversion of `to_znx` (`Model/CkksConv.lean`): outcome characterisation
(exact precondition of "never panics"), the metadata bound under which the magnitude limit implies it,
and the value of the encoded digits (C08 round trip).
-/
import Poulpy.Model.CkksConv
import Poulpy.Lemmas.NormCodec
import Mathlib.Tactic.Linarith
import Mathlib.Tactic.NormNum

namespace Ckks
open NormL

/-! ### one coefficient -/

theorem toIntW_ok_of_convertible (ty : FloatTy) (W ld : Nat) (m e : Int)
    (h : (FVal.fin m e).convertible W ld) :
    toIntW ty W ld (.fin m e) = .ok (roundHalfAway m (e + ld)) := by
  unfold FVal.convertible at h
  simp only [toIntW]
  rw [if_pos h]

/-- the conversion never returns an error value; it panics exactly for an `f64` input that is not
finite or whose rounded scaled value is outside `[-2^W, 2^W)` -/
theorem toIntW_panic_iff (ty : FloatTy) (W ld : Nat) (x : FVal) :
    (∃ p, toIntW ty W ld x = .panic p) ↔ ty = .f64 ∧ ¬ x.convertible W ld := by
  cases x with
  | nan => cases ty <;> simp [toIntW, FVal.convertible]
  | inf n => cases ty <;> simp [toIntW, FVal.convertible]
  | fin m e =>
    by_cases h : (FVal.fin m e).convertible W ld
    · rw [toIntW_ok_of_convertible ty W ld m e h]; simp [h]
    · have h' := h
      unfold FVal.convertible at h'
      cases ty <;> simp only [toIntW, if_neg h'] <;> simp [h]

theorem toIntW_not_err (ty : FloatTy) (W ld : Nat) (x : FVal) (e : String) : toIntW ty W ld x ≠ .err e := by
  cases x with
  | nan => cases ty <;> simp [toIntW]
  | inf n => cases ty <;> simp [toIntW]
  | fin m e' =>
    cases ty <;> simp only [toIntW] <;> split <;> simp

theorem satW_range (W : Nat) (n : Bool) : -(2 : Int) ^ W ≤ satW W n ∧ satW W n < 2 ^ W := by
  have hp : (0 : Int) < 2 ^ W := by positivity
  cases n
  · show -(2 : Int) ^ W ≤ 2 ^ W - 1 ∧ (2 : Int) ^ W - 1 < 2 ^ W
    constructor <;> linarith
  · show -(2 : Int) ^ W ≤ -(2 : Int) ^ W ∧ -(2 : Int) ^ W < 2 ^ W
    constructor <;> linarith

/-- `f128`: the C cast always returns — saturated outside the range, `0` for NaN -/
theorem toIntW_f128_total (W ld : Nat) (x : FVal) : ∃ v, toIntW .f128 W ld x = .ok v ∧ -(2 : Int) ^ W ≤ v ∧ v < 2 ^ W := by
  have hp : (0 : Int) < 2 ^ W := by positivity
  cases x with
  | nan => exact ⟨0, rfl, by linarith, hp⟩
  | inf n => exact ⟨satW W n, rfl, satW_range W n⟩
  | fin m e =>
    by_cases h : (FVal.fin m e).convertible W ld
    · exact ⟨_, toIntW_ok_of_convertible _ W ld m e h, h.1, h.2⟩
    · have h' := h
      unfold FVal.convertible at h'
      exact ⟨satW W (decide (roundHalfAway m (e + ld) < 0)), by simp only [toIntW, if_neg h'], satW_range W _⟩

/-! ### the whole vector -/

theorem sequenceOutcome_ok {α : Type} : ∀ (l : List (Outcome α)) (vs : List α),
    l = vs.map .ok → sequenceOutcome l = .ok vs
  | _, [], rfl => rfl
  | _, v :: vs, rfl => by
    simp only [List.map_cons, sequenceOutcome, sequenceOutcome_ok _ vs rfl]

theorem sequenceOutcome_panic {α : Type} : ∀ (l : List (Outcome α)),
    (∀ x ∈ l, ∀ e, x ≠ .err e) → (∃ x ∈ l, ∃ p, x = .panic p) → ∃ p, sequenceOutcome l = .panic p
  | [], _, h => by obtain ⟨x, hx, _⟩ := h; simp at hx
  | x :: rest, hne, h => by
    cases x with
    | panic p => exact ⟨p, by simp [sequenceOutcome]⟩
    | err e => exact absurd rfl (hne _ (by simp) e)
    | ok a =>
      have hr : ∃ x ∈ rest, ∃ p, x = .panic p := by
        obtain ⟨y, hy, p, hp⟩ := h
        rcases List.mem_cons.mp hy with rfl | hy
        · cases hp
        · exact ⟨y, hy, p, hp⟩
      obtain ⟨p, hp⟩ := sequenceOutcome_panic rest (fun y hy => hne y (List.mem_cons_of_mem _ hy)) hr
      exact ⟨p, by simp [sequenceOutcome, hp]⟩

/-- the three `ensure!`s of `to_znx` -/
def VecHeads (ty : FloatTy) (b : Nat) (md : Meta) (n : Nat) (vals : List FVal) : Prop :=
  md.logDelta ≤ ty.maxPrec ∧ vals.length = n ∧ divCeil md.effK b ≠ 0

instance (ty : FloatTy) (b : Nat) (md : Meta) (n : Nat) (vals : List FVal) : Decidable (VecHeads ty b md n vals) := by
  unfold VecHeads; infer_instance

theorem toZnxVec_err (ty : FloatTy) (b : Nat) (md : Meta) (n : Nat) (vals : List FVal)
    (h : ¬ VecHeads ty b md n vals) : toZnxVec ty b md n vals = .err "other" := by
  unfold VecHeads at h
  unfold toZnxVec
  simp only
  by_cases h1 : md.logDelta > ty.maxPrec
  · rw [if_pos h1]
  · rw [if_neg h1]
    by_cases h2 : vals.length ≠ n
    · rw [if_pos h2]
    · rw [if_neg h2]
      by_cases h3 : divCeil md.effK b = 0
      · rw [if_pos h3]
      · exact absurd ⟨by omega, by simpa using h2, h3⟩ h

/-- all coefficients convertible: `to_znx` succeeds and writes the digits of the rounded scaled values -/
theorem toZnxVec_ok (ty : FloatTy) (b : Nat) (md : Meta) (n : Nat) (vals : List FVal)
    (hh : VecHeads ty b md n vals) (ms : List (Int × Int)) (hv : vals = ms.map (fun p => .fin p.1 p.2))
    (hc : ∀ x ∈ vals, x.convertible (intPathW md.logDelta md.logBudget) md.logDelta) :
    toZnxVec ty b md n vals = .ok (ms.map (fun p =>
      encodeW (intPathW md.logDelta md.logBudget) b (divCeil md.effK b * b) (divCeil md.effK b)
        (roundHalfAway p.1 (p.2 + md.logDelta)))) := by
  obtain ⟨h1, h2, h3⟩ := hh
  unfold toZnxVec
  simp only
  rw [if_neg (by omega), if_neg (by simpa using h2), if_neg h3]
  have hseq : vals.map (toIntW ty (intPathW md.logDelta md.logBudget) md.logDelta)
      = (ms.map (fun p => roundHalfAway p.1 (p.2 + md.logDelta))).map .ok := by
    subst hv
    simp only [List.map_map]
    apply List.map_congr_left
    intro p hp
    exact toIntW_ok_of_convertible ty _ _ p.1 p.2 (hc _ (List.mem_map.mpr ⟨p, hp, rfl⟩))
  rw [sequenceOutcome_ok _ _ hseq]
  simp only [List.map_map]
  rfl

/-- `f64`: one coefficient outside the range of the selected integer type (or not finite) and the call
panics — after the `ensure!`s, so a refused destination is still an error value -/
theorem toZnxVec_f64_panic (b : Nat) (md : Meta) (n : Nat) (vals : List FVal)
    (hh : VecHeads .f64 b md n vals)
    (hc : ∃ x ∈ vals, ¬ x.convertible (intPathW md.logDelta md.logBudget) md.logDelta) :
    ∃ p, toZnxVec .f64 b md n vals = .panic p := by
  obtain ⟨h1, h2, h3⟩ := hh
  obtain ⟨x, hx, hnc⟩ := hc
  obtain ⟨p, hp⟩ := sequenceOutcome_panic (vals.map (toIntW .f64 (intPathW md.logDelta md.logBudget) md.logDelta))
    (by intro y hy e
        obtain ⟨z, _, rfl⟩ := List.mem_map.mp hy
        exact toIntW_not_err _ _ _ z e)
    ⟨_, List.mem_map.mpr ⟨x, hx, rfl⟩, (toIntW_panic_iff .f64 _ _ x).mpr ⟨rfl, hnc⟩⟩
  refine ⟨p, ?_⟩
  unfold toZnxVec
  simp only
  rw [if_neg (by omega), if_neg (by simpa using h2), if_neg h3, hp]

/-- `f128`: never a panic, whatever the values -/
theorem toZnxVec_f128_no_panic (b : Nat) (md : Meta) (n : Nat) (vals : List FVal) (p : String) :
    toZnxVec .f128 b md n vals ≠ .panic p := by
  by_cases hh : VecHeads .f128 b md n vals
  · obtain ⟨h1, h2, h3⟩ := hh
    have : ∃ vs : List Int, vals.map (toIntW .f128 (intPathW md.logDelta md.logBudget) md.logDelta) = vs.map .ok := by
      clear h2
      induction vals with
      | nil => exact ⟨[], rfl⟩
      | cons x rest ih =>
        obtain ⟨vs, hvs⟩ := ih
        obtain ⟨v, hv, _⟩ := toIntW_f128_total (intPathW md.logDelta md.logBudget) md.logDelta x
        exact ⟨v :: vs, by simp [hv, hvs]⟩
    obtain ⟨vs, hvs⟩ := this
    unfold toZnxVec
    simp only
    rw [if_neg (by omega), if_neg (by simpa using h2), if_neg h3, sequenceOutcome_ok _ _ hvs]
    simp
  · rw [toZnxVec_err _ _ _ _ _ hh]; simp

/-! ### the magnitude limit of the metadata and the integer path -/

/-- a value inside the magnitude limit the metadata declare is convertible as long as the declared
precision does not exceed 128 bits … -/
theorem inRange_convertible (md : Meta) (h : md.effK ≤ 128) (x : FVal) (hx : x.inRange md) :
    x.convertible (intPathW md.logDelta md.logBudget) md.logDelta := by
  cases x with
  | nan => exact hx.elim
  | inf n => exact hx.elim
  | fin m e =>
    unfold FVal.inRange at hx
    unfold FVal.convertible
    set v := roundHalfAway m (e + md.logDelta)
    have hab : |v| < 2 ^ (md.effK - 1) := by
      have : ((v.natAbs : Nat) : Int) < ((2 ^ (md.effK - 1) : Nat) : Int) := by exact_mod_cast hx
      rwa [Int.natCast_natAbs, Nat.cast_pow, Nat.cast_ofNat] at this
    have hW : (2 : Int) ^ (md.effK - 1) ≤ 2 ^ (intPathW md.logDelta md.logBudget) := by
      apply pow_le_pow_right₀ (by norm_num)
      unfold intPathW Meta.effK at *
      split <;> omega
    have := abs_lt.mp hab
    constructor <;> linarith [this.1, this.2]

/-- … and not beyond: at 129 declared bits the value `2^127·2^-log_delta` is inside the limit
(`< 2^128·2^-log_delta`) and is not convertible -/
theorem inRange_not_convertible_129 : ∃ (md : Meta) (x : FVal), md.effK = 129 ∧ x.inRange md ∧
    ¬ x.convertible (intPathW md.logDelta md.logBudget) md.logDelta :=
  ⟨⟨40, 89⟩, .fin 1 87, rfl, by decide, by decide⟩

/-! ### value of the digits (C08) -/

theorem divCeil_eq_encSize (k b : Nat) (hb : 1 ≤ b) : divCeil k b = encSize b k := by
  unfold divCeil encSize
  congr 1
  omega

theorem encSize_mul (s b : Nat) (hb : 1 ≤ b) : encSize b (s * b) = s := by
  unfold encSize
  have : s * b + b - 1 = b - 1 + b * s := by
    rw [Nat.mul_comm]; omega
  rw [this, Nat.add_mul_div_left _ _ (by omega), Nat.div_eq_of_lt (by omega)]
  omega

theorem encLsh_mul (s b : Nat) : encLsh b (s * b) = 0 := by
  unfold encLsh
  simp

/-- digits written for a value inside the magnitude limit, `log_delta + log_budget ≤ 127`: decoding
them (`decode_vec_i128` at the same `k`) gives the value back modulo `2^k`, exactly when
`4|v| < 2^k` -/
theorem encodeW_decode (b : Nat) (md : Meta) (hb2 : 2 ≤ b) (hb : b ≤ 61) (hk1 : 1 ≤ md.effK) (hk : md.effK ≤ 127)
    (v : Int) (hv : v.natAbs < 2 ^ (md.effK - 1)) :
    let size := divCeil md.effK b
    ∃ q : Int, decodeCoefVec 128 b (size * b) (encodeW (intPathW md.logDelta md.logBudget) b (size * b) size v)
        = .ok (wrapN 128 (v - q * 2 ^ (size * b))) ∧ (4 * |v| < 2 ^ (size * b) → q = 0) := by
  intro size
  have hab : |v| < 2 ^ (md.effK - 1) := by
    have : ((v.natAbs : Nat) : Int) < ((2 ^ (md.effK - 1) : Nat) : Int) := by exact_mod_cast hv
    rwa [Int.natCast_natAbs, Nat.cast_pow, Nat.cast_ofNat] at this
  have hs1 : 1 ≤ size := by
    show 1 ≤ divCeil md.effK b
    unfold divCeil
    exact (Nat.le_div_iff_mul_le (by omega)).mpr (by omega)
  have hes : encSize b (size * b) = size := encSize_mul size b (by omega)
  have hkk : 1 ≤ size * b := by
    have : 1 * 1 ≤ size * b := Nat.mul_le_mul hs1 (by omega)
    omega
  have h61 : (2 : Int) ^ b ≤ 2 ^ 61 := pow_le_pow_right₀ (by norm_num) hb
  have hb1 : (2 : Int) ^ (b - 1) ≤ 2 ^ 61 := pow_le_pow_right₀ (by norm_num) (by omega)
  unfold encodeW intPathW
  by_cases hp : md.logDelta + md.logBudget ≤ 63
  · rw [if_pos hp, if_pos rfl]
    have hr : HeadRoom 64 b (encLsh b (size * b)) (2 ^ 62) := by
      rw [encLsh_mul]
      exact ⟨by norm_num, by omega, by omega, by positivity, by norm_num; linarith⟩
    have hle : |v| ≤ 2 ^ 62 := by
      have : (2 : Int) ^ (md.effK - 1) ≤ 2 ^ 62 := pow_le_pow_right₀ (by norm_num) (by unfold Meta.effK; omega)
      linarith
    obtain ⟨q, _, _, h3, h4⟩ := encode_decode_roundtrip hr (by omega) hkk (by rw [hes]) v hle
    exact ⟨q, h3, h4 hb2⟩
  · rw [if_neg hp, if_neg (by decide)]
    have hr : HeadRoom 64 b (encLsh b (size * b)) (2 ^ 61) := by
      rw [encLsh_mul]
      exact ⟨by norm_num, by omega, by omega, by positivity, by norm_num; linarith⟩
    have hle : |v| ≤ 2 ^ 126 := by
      have : (2 : Int) ^ (md.effK - 1) ≤ 2 ^ 126 := pow_le_pow_right₀ (by norm_num) (by omega)
      linarith
    obtain ⟨q, _, _, h3, h4⟩ := encode128_decode_roundtrip hr hb1 (by omega) hkk (by rw [hes]) v hle
    exact ⟨q, h3, h4 hb2⟩

end Ckks
