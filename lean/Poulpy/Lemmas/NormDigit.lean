/-
Helper lemmas for C08: digit / carry extraction (`Model/Digit.lean`).
-/
import Mathlib.Tactic.Ring
import Mathlib.Tactic.Positivity
import Mathlib.Tactic.Linarith
import Mathlib.Tactic.LinearCombination
import Poulpy.Model.Encoding

namespace NormL

theorem two_pow_pos (n : Nat) : (0 : Int) < 2 ^ n := by positivity

theorem two_pow_succ_pred {b : Nat} (hb : 1 ≤ b) : (2 : Int) ^ b = 2 * 2 ^ (b - 1) := by
  obtain ⟨n, rfl⟩ : ∃ n, b = n + 1 := ⟨b - 1, by omega⟩
  simp [pow_succ]; ring

theorem two_pow_le {m n : Nat} (h : m ≤ n) : (2 : Int) ^ m ≤ 2 ^ n :=
  pow_le_pow_right₀ (by norm_num) h

/-- `wrapN` is the identity on the machine range -/
theorem wrapN_eq {bits : Nat} (hbits : 1 ≤ bits) {x : Int}
    (h1 : -(2 ^ (bits - 1)) ≤ x) (h2 : x < 2 ^ (bits - 1)) : wrapN bits x = x := by
  unfold wrapN
  have h := two_pow_succ_pred hbits
  have : (x + 2 ^ (bits - 1)) % 2 ^ bits = x + 2 ^ (bits - 1) :=
    Int.emod_eq_of_lt (by linarith) (by linarith)
  rw [this]; ring

theorem wrapN_eq_abs {bits : Nat} (hbits : 1 ≤ bits) {x : Int} (h : |x| < 2 ^ (bits - 1)) : wrapN bits x = x := by
  have := abs_lt.mp h
  exact wrapN_eq hbits (by linarith) this.2

/-- balanced residue + carry·2^b = x (the division in `bcarry` is exact) -/
theorem bmod_add_bcarry (b : Nat) (x : Int) : bmod b x + bcarry b x * 2 ^ b = x := by
  unfold bcarry bmod
  have hp : (0 : Int) < 2 ^ b := two_pow_pos b
  have key : x - ((x + 2 ^ (b - 1)) % 2 ^ b - 2 ^ (b - 1)) = ((x + 2 ^ (b - 1)) / 2 ^ b) * 2 ^ b := by
    have := Int.emod_add_mul_ediv (x + 2 ^ (b - 1)) (2 ^ b)
    linarith
  rw [key, Int.mul_ediv_cancel _ (ne_of_gt hp)]
  have := Int.emod_add_mul_ediv (x + 2 ^ (b - 1)) (2 ^ b)
  linarith

theorem bmod_range {b : Nat} (hb : 1 ≤ b) (x : Int) : -(2 ^ (b - 1)) ≤ bmod b x ∧ bmod b x < 2 ^ (b - 1) := by
  unfold bmod
  have hp : (0 : Int) < 2 ^ b := two_pow_pos b
  have h2 := two_pow_succ_pred hb
  have h1 := Int.emod_nonneg (x + 2 ^ (b - 1)) (ne_of_gt hp)
  have h3 := Int.emod_lt_of_pos (x + 2 ^ (b - 1)) hp
  constructor <;> linarith

theorem bmod_abs_le {b : Nat} (hb : 1 ≤ b) (x : Int) : |bmod b x| ≤ 2 ^ (b - 1) := by
  have := bmod_range hb x
  exact abs_le.mpr ⟨this.1, le_of_lt this.2⟩

/-- a value already in the balanced range is its own digit -/
theorem bmod_of_range {b : Nat} (hb : 1 ≤ b) {x : Int} (h1 : -(2 ^ (b - 1)) ≤ x) (h2 : x < 2 ^ (b - 1)) :
    bmod b x = x := by
  unfold bmod
  have h := two_pow_succ_pred hb
  rw [Int.emod_eq_of_lt (by linarith) (by linarith)]; ring

theorem bmod_zero (b : Nat) (hb : 1 ≤ b) : bmod b 0 = 0 :=
  bmod_of_range hb (by have := two_pow_pos (b - 1); linarith) (two_pow_pos _)

theorem bcarry_zero (b : Nat) (hb : 1 ≤ b) : bcarry b 0 = 0 := by
  unfold bcarry; rw [bmod_zero b hb]; simp

/-- congruence: the digit only depends on `x` modulo `2^b` -/
theorem bmod_add_mul (b : Nat) (x k : Int) : bmod b (x + k * 2 ^ b) = bmod b x := by
  unfold bmod
  have : x + k * 2 ^ b + 2 ^ (b - 1) = (x + 2 ^ (b - 1)) + k * 2 ^ b := by ring
  rw [this, Int.add_mul_emod_self_right]

/-- `2^b·|carry| ≤ |x| + 2^(b-1)` -/
theorem bcarry_mul_le {b : Nat} (hb : 1 ≤ b) (x : Int) : 2 ^ b * |bcarry b x| ≤ |x| + 2 ^ (b - 1) := by
  have h := bmod_add_bcarry b x
  have hd := bmod_abs_le hb x
  have hp : (0 : Int) < 2 ^ b := two_pow_pos b
  have : bcarry b x * 2 ^ b = x - bmod b x := by linarith
  have h2 : |bcarry b x * 2 ^ b| ≤ |x| + |bmod b x| := by
    rw [this]; exact abs_sub _ _
  rw [abs_mul, abs_of_pos hp] at h2
  linarith

/-- `2·|carry| ≤ |x| + 1`: a carry is at most half the input (rounded) -/
theorem bcarry_two_le {b : Nat} (hb : 1 ≤ b) (x : Int) : 2 * |bcarry b x| ≤ |x| + 1 := by
  have h := bcarry_mul_le hb x
  have h2 := two_pow_succ_pred hb
  have hq : (0 : Int) ≤ |bcarry b x| := abs_nonneg _
  have hp1 : (1 : Int) ≤ 2 ^ (b - 1) := by
    have := two_pow_le (Nat.zero_le (b - 1)); simpa using this
  by_cases hz : |bcarry b x| = 0
  · rw [hz]; have := abs_nonneg x; linarith
  · have hq1 : 1 ≤ |bcarry b x| := by omega
    -- (2|q| - 1)·2^(b-1) ≤ |x|
    have : (2 * |bcarry b x| - 1) * 2 ^ (b - 1) ≤ |x| := by rw [h2] at h; linarith
    have : (2 * |bcarry b x| - 1) * 1 ≤ (2 * |bcarry b x| - 1) * 2 ^ (b - 1) :=
      mul_le_mul_of_nonneg_left hp1 (by linarith)
    linarith

/-- the shift implementation of `get_digit` computes the balanced residue, for every `Int` -/
theorem getDigitW_eq_bmod {bits b : Nat} (hb : 1 ≤ b) (hbb : b ≤ bits) (x : Int) :
    getDigitW bits b x = bmod b x := by
  unfold getDigitW sarI shlW wrapN bmod
  set s := bits - b with hs
  have hS : (0 : Int) < 2 ^ s := two_pow_pos s
  have e1 : (2 : Int) ^ bits = 2 ^ s * 2 ^ b := by rw [← pow_add]; congr 1; omega
  have e2 : (2 : Int) ^ (bits - 1) = 2 ^ s * 2 ^ (b - 1) := by rw [← pow_add]; congr 1; omega
  have e3 : x * 2 ^ s + 2 ^ (bits - 1) = 2 ^ s * (x + 2 ^ (b - 1)) := by rw [e2]; ring
  rw [e3, e1, Int.mul_emod_mul_of_pos _ _ hS, e2, ← mul_sub, Int.mul_ediv_cancel_left _ (ne_of_gt hS)]

/-- `get_carry` is the exact carry as long as `x - digit` does not leave the machine range -/
theorem getCarryW_eq_bcarry {bits b : Nat} (hbits : 1 ≤ bits) {x : Int}
    (h : |x - bmod b x| < 2 ^ (bits - 1)) : getCarryW bits b x (bmod b x) = bcarry b x := by
  unfold getCarryW sarI bcarry
  rw [wrapN_eq_abs hbits h]

end NormL
