import Poulpy.Lemmas.GadgetExec
import Mathlib.Algebra.Polynomial.Div
/-!
`Ks.ι N` is a bijection between coefficient lists of length `N` and `ℤ[X]/(X^N+1)`.

The composed value theorems of C03 / C04 / C05 are identities in `R N = AdjoinRoot (X^N+1)`.  To read them
coefficient by coefficient (the form of the C02 `lsh` family and of the C16 contracts) one needs that two lists
of length `N` with the same class are equal (`ι_injective`: `X^N+1` is monic of degree `N`, a multiple of it of
degree `< N` is zero) and that every ring element — the unnamed multiples of the torus modulus in those
statements — is the class of a list (`ι_surjective`: remainder modulo the monic `X^N+1`).
-/

namespace Ks
open Hal Polynomial

theorem toPoly_coeff (l : List Int) (k : Nat) : (toPoly l).coeff k = l.getD k 0 := by
  induction l generalizing k with
  | nil => simp [toPoly]
  | cons c rest ih =>
    cases k with
    | zero => simp [toPoly]
    | succ k =>
      show (C c + X * toPoly rest).coeff (k + 1) = _
      rw [coeff_add, coeff_C_succ, coeff_X_mul, ih]; simp

theorem toPoly_degree_lt (l : List Int) {N : Nat} (h : l.length ≤ N) : (toPoly l).degree < N := by
  rw [degree_lt_iff_coeff_zero]
  intro m hm
  rw [toPoly_coeff, List.getD_eq_getElem?_getD, List.getElem?_eq_none (by omega)]
  rfl

theorem modulus_monic (N : Nat) (hN : 0 < N) : (X ^ N + 1 : ℤ[X]).Monic := by
  have : (1 : ℤ[X]) = C 1 := by simp
  rw [this]
  exact monic_X_pow_add_C 1 (by omega)

theorem modulus_degree (N : Nat) (hN : 0 < N) : (X ^ N + 1 : ℤ[X]).degree = N := by
  have : (1 : ℤ[X]) = C 1 := by simp
  rw [this]
  exact degree_X_pow_add_C hN 1

theorem toPoly_injective {a b : List Int} (h : a.length = b.length) (he : toPoly a = toPoly b) : a = b := by
  apply List.ext_getElem h
  intro k h1 h2
  have := congrArg (fun p => p.coeff k) he
  simp only [toPoly_coeff, List.getD_eq_getElem?_getD, List.getElem?_eq_getElem h1, List.getElem?_eq_getElem h2,
    Option.getD_some] at this
  exact this

/-- two lists of length `N` with the same class in `ℤ[X]/(X^N+1)` are equal -/
theorem ι_injective {N : Nat} (hN : 0 < N) {a b : Poly} (ha : a.length = N) (hb : b.length = N) (h : ι N a = ι N b) : a = b := by
  unfold ι at h
  rw [AdjoinRoot.mk_eq_mk] at h
  have hdeg : (toPoly a - toPoly b).degree < (X ^ N + 1 : ℤ[X]).degree := by
    rw [modulus_degree N hN]
    exact lt_of_le_of_lt (degree_sub_le _ _) (max_lt (toPoly_degree_lt a (le_of_eq ha)) (toPoly_degree_lt b (le_of_eq hb)))
  have hz := eq_zero_of_dvd_of_degree_lt h hdeg
  exact toPoly_injective (by rw [ha, hb]) (sub_eq_zero.mp hz)

/-- every element of `ℤ[X]/(X^N+1)` is the class of a list of length `N` -/
theorem ι_surjective {N : Nat} (hN : 0 < N) (r : R N) : ∃ p : Poly, p.length = N ∧ ι N p = r := by
  obtain ⟨g, rfl⟩ := AdjoinRoot.mk_surjective r
  have hm := modulus_monic N hN
  refine ⟨(List.range N).map (fun k => (g %ₘ (X ^ N + 1 : ℤ[X])).coeff k), by simp, ?_⟩
  have hp : toPoly ((List.range N).map (fun k => (g %ₘ (X ^ N + 1 : ℤ[X])).coeff k)) = g %ₘ (X ^ N + 1 : ℤ[X]) := by
    ext k
    rw [toPoly_coeff]
    by_cases hk : k < N
    · simp [List.getD_eq_getElem?_getD, hk]
    · have hd : (g %ₘ (X ^ N + 1 : ℤ[X])).degree < N := by
        have := degree_modByMonic_lt g hm
        rwa [modulus_degree N hN] at this
      rw [degree_lt_iff_coeff_zero] at hd
      simp [List.getD_eq_getElem?_getD, hk, hd k (by omega)]
  unfold ι
  rw [hp, AdjoinRoot.mk_eq_mk]
  exact ⟨-(g /ₘ (X ^ N + 1 : ℤ[X])), by
    have := modByMonic_add_div g (q := (X ^ N + 1 : ℤ[X]))
    linear_combination this⟩

end Ks
