import Poulpy.Lemmas.GadgetExec
import Poulpy.Lemmas.KsNoise
import Mathlib.Algebra.Polynomial.Div
/-!
`Ks.ι N` is a bijection between coefficient lists of length `N` and `ℤ[X]/(X^N+1)`.

The composed value theorems of C03 / C04 / C05 are identities in `R N = AdjoinRoot (X^N+1)`.  To read them
coefficient by coefficient (the form of the C02 `lsh` family and of the C16 contracts) one needs that two lists
of length `N` with the same class are equal (`ι_injective`: `X^N+1` is monic of degree `N`, a multiple of it of
degree `< N` is zero) and that every ring element — the unnamed multiples of the torus modulus in those
statements — is the class of a list (`ι_surjective`: remainder modulo the monic `X^N+1`).
-/

namespace Ks
open Hal Polynomial

theorem toPoly_coeff (l : List Int) (k : Nat) : (toPoly l).coeff k = l.getD k 0 := by
  induction l generalizing k with
  | nil => simp [toPoly]
  | cons c rest ih =>
    cases k with
    | zero => simp [toPoly]
    | succ k =>
      show (C c + X * toPoly rest).coeff (k + 1) = _
      rw [coeff_add, coeff_C_succ, coeff_X_mul, ih]; simp

theorem toPoly_degree_lt (l : List Int) {N : Nat} (h : l.length ≤ N) : (toPoly l).degree < N := by
  rw [degree_lt_iff_coeff_zero]
  intro m hm
  rw [toPoly_coeff, List.getD_eq_getElem?_getD, List.getElem?_eq_none (by omega)]
  rfl

theorem modulus_monic (N : Nat) (hN : 0 < N) : (X ^ N + 1 : ℤ[X]).Monic := by
  have : (1 : ℤ[X]) = C 1 := by simp
  rw [this]
  exact monic_X_pow_add_C 1 (by omega)

theorem modulus_degree (N : Nat) (hN : 0 < N) : (X ^ N + 1 : ℤ[X]).degree = N := by
  have : (1 : ℤ[X]) = C 1 := by simp
  rw [this]
  exact degree_X_pow_add_C hN 1

theorem toPoly_injective {a b : List Int} (h : a.length = b.length) (he : toPoly a = toPoly b) : a = b := by
  apply List.ext_getElem h
  intro k h1 h2
  have := congrArg (fun p => p.coeff k) he
  simp only [toPoly_coeff, List.getD_eq_getElem?_getD, List.getElem?_eq_getElem h1, List.getElem?_eq_getElem h2,
    Option.getD_some] at this
  exact this

/-- two lists of length `N` with the same class in `ℤ[X]/(X^N+1)` are equal -/
theorem ι_injective {N : Nat} (hN : 0 < N) {a b : Poly} (ha : a.length = N) (hb : b.length = N) (h : ι N a = ι N b) : a = b := by
  unfold ι at h
  rw [AdjoinRoot.mk_eq_mk] at h
  have hdeg : (toPoly a - toPoly b).degree < (X ^ N + 1 : ℤ[X]).degree := by
    rw [modulus_degree N hN]
    exact lt_of_le_of_lt (degree_sub_le _ _) (max_lt (toPoly_degree_lt a (le_of_eq ha)) (toPoly_degree_lt b (le_of_eq hb)))
  have hz := eq_zero_of_dvd_of_degree_lt h hdeg
  exact toPoly_injective (by rw [ha, hb]) (sub_eq_zero.mp hz)

/-- every element of `ℤ[X]/(X^N+1)` is the class of a list of length `N` -/
theorem ι_surjective {N : Nat} (hN : 0 < N) (r : R N) : ∃ p : Poly, p.length = N ∧ ι N p = r := by
  obtain ⟨g, rfl⟩ := AdjoinRoot.mk_surjective r
  have hm := modulus_monic N hN
  refine ⟨(List.range N).map (fun k => (g %ₘ (X ^ N + 1 : ℤ[X])).coeff k), by simp, ?_⟩
  have hp : toPoly ((List.range N).map (fun k => (g %ₘ (X ^ N + 1 : ℤ[X])).coeff k)) = g %ₘ (X ^ N + 1 : ℤ[X]) := by
    ext k
    rw [toPoly_coeff]
    by_cases hk : k < N
    · simp [List.getD_eq_getElem?_getD, hk]
    · have hd : (g %ₘ (X ^ N + 1 : ℤ[X])).degree < N := by
        have := degree_modByMonic_lt g hm
        rwa [modulus_degree N hN] at this
      rw [degree_lt_iff_coeff_zero] at hd
      simp [List.getD_eq_getElem?_getD, hk, hd k (by omega)]
  unfold ι
  rw [hp, AdjoinRoot.mk_eq_mk]
  exact ⟨-(g /ₘ (X ^ N + 1 : ℤ[X])), by
    have := modByMonic_add_div g (q := (X ^ N + 1 : ℤ[X]))
    linear_combination this⟩


theorem getD_polyAdd' (a b : Poly) (h : a.length = b.length) (t : Nat) : (polyAdd a b).getD t 0 = a.getD t 0 + b.getD t 0 := by
  simp only [polyAdd, List.getD_eq_getElem?_getD, List.getElem?_zipWith]
  by_cases ht : t < a.length
  · have ht' : t < b.length := h ▸ ht
    simp [List.getElem?_eq_getElem ht, List.getElem?_eq_getElem ht']
  · have ht' : ¬ t < b.length := h ▸ ht
    simp [List.getElem?_eq_none (Nat.le_of_not_lt ht), List.getElem?_eq_none (Nat.le_of_not_lt ht')]

theorem getD_polyScale' (c : Int) (a : Poly) (t : Nat) : (polyScale c a).getD t 0 = c * a.getD t 0 := by
  simp only [polyScale, List.getD_eq_getElem?_getD, List.getElem?_map]
  cases a[t]? <;> simp

/-- **from `ℤ[X]/(X^N+1)` back to coefficients**: a relation `A·ι P = C·ι Z + ι E + M·Q` between classes of lists of length `N`
(with an arbitrary ring element `Q`, the unnamed multiple of the torus modulus of the composed theorems) holds coefficient by
coefficient with an integer list `q` in place of `Q` -/
theorem ring_to_coeff {N : Nat} (hN : 0 < N) (P Z E : Poly) (hP : P.length = N) (hZ : Z.length = N) (hE : E.length = N)
    (A C M : Int) (Q : R N) (h : (A : R N) * ι N P = (C : R N) * ι N Z + ι N E + (M : R N) * Q) :
    ∃ q : Poly, q.length = N ∧ ∀ t, A * P.getD t 0 = C * Z.getD t 0 + E.getD t 0 + M * q.getD t 0 := by
  obtain ⟨q, hq, rfl⟩ := ι_surjective hN Q
  refine ⟨q, hq, ?_⟩
  have e : ι N (polyScale A P) = ι N (polyAdd (polyAdd (polyScale C Z) E) (polyScale M q)) := by
    rw [ι_add N _ _ (by simp [polyScale, hZ, hE, hq]), ι_add N _ _ (by simp [polyScale, hZ, hE]), ι_polyScale, ι_polyScale, ι_polyScale]
    exact h
  have := ι_injective hN (by simp [polyScale, hP]) (by simp [polyScale, hZ, hE, hq]) e
  intro t
  have ht := congrArg (fun l => l.getD t 0) this
  rw [getD_polyScale', getD_polyAdd' _ _ (by simp [polyScale, hZ, hE, hq]), getD_polyAdd' _ _ (by simp [polyScale, hZ, hE]),
    getD_polyScale', getD_polyScale'] at ht
  exact ht

theorem two_pow_cast (N k : Nat) : (2 : R N) ^ k = (((2 : Int) ^ k : Int) : R N) := by push_cast; rfl

end Ks
