import Poulpy.Model.Avx
import Std.Tactic.BVDecide
/-
Helper lemmas for C10 (lane level).  The four `bv_decide` calls here are the only SAT-backed steps of
the 64-bit part; every kernel theorem in `Props/C10.lean` is obtained from them by rewriting.
-/
namespace Avx
open Vec

/-- `get_digit_avx` with the constants of `normalize_consts_avx(b)` = `get_digit_i64(b, ·)` -/
theorem digit_eq (b x : W) (h1 : 1#64 ≤ b) (h2 : b ≤ 63#64) :
    getDigitAvx x (mkConsts b) = getDigit b x := by
  simp only [getDigitAvx, mkConsts, getDigit, rshl, rsar, and_si256, xor_si256, sub_epi64]
  bv_decide

/-- `get_carry_avx` (logical shift + sign fill) = `get_carry_i64` (arithmetic shift) -/
theorem carry_eq (b x d : W) (h1 : 1#64 ≤ b) (h2 : b ≤ 63#64) :
    getCarryAvx x d (mkConsts b) = getCarry b x d := by
  simp only [getCarryAvx, mkConsts, getCarry, rsar, and_si256, or_si256, sub_epi64, srlv_epi64, cmpgt_epi64,
    setzero_si256, allOnes]
  bv_decide

/-- `_mm256_sllv_epi64(d, set1(lsh))` = Rust `d << lsh` for `lsh < 64` -/
theorem sllv_eq (d lsh : W) (h : lsh < 64#64) : sllv_epi64 d lsh = rshl d lsh := by
  simp only [sllv_epi64, rshl]
  bv_decide

theorem klsh_ok (b lsh : W) (h2 : b ≤ 63#64) (h3 : lsh < b) (h0 : lsh ≠ 0#64) :
    1#64 ≤ b - lsh ∧ b - lsh ≤ 63#64 := by
  bv_decide

theorem lsh_lt64 (b lsh : W) (h2 : b ≤ 63#64) (h3 : lsh < b) : lsh < 64#64 := by
  bv_decide

/-- digit extraction with the `lsh`-dependent constants -/
theorem digitK (b lsh x : W) (h1 : 1#64 ≤ b) (h2 : b ≤ 63#64) (h3 : lsh < b) :
    getDigitAvx x (kLsh b lsh) = getDigit (bLsh b lsh) x := by
  unfold kLsh bLsh
  by_cases h0 : lsh = 0#64
  · simp only [h0, if_true]; exact digit_eq b x h1 h2
  · simp only [h0, if_false]
    exact digit_eq (b - lsh) x (klsh_ok b lsh h2 h3 h0).1 (klsh_ok b lsh h2 h3 h0).2

theorem carryK (b lsh x d : W) (h1 : 1#64 ≤ b) (h2 : b ≤ 63#64) (h3 : lsh < b) :
    getCarryAvx x d (kLsh b lsh) = getCarry (bLsh b lsh) x d := by
  unfold kLsh bLsh
  by_cases h0 : lsh = 0#64
  · simp only [h0, if_true]; exact carry_eq b x d h1 h2
  · simp only [h0, if_false]
    exact carry_eq (b - lsh) x d (klsh_ok b lsh h2 h3 h0).1 (klsh_ok b lsh h2 h3 h0).2

theorem sllIf_eq (lsh d : W) (h : lsh < 64#64) : sllIf lsh d = shlIf lsh d := by
  unfold sllIf shlIf
  by_cases h0 : lsh = 0#64
  · simp only [h0, if_true]
  · simp only [h0, if_false]; exact sllv_eq d lsh h

/-- the two shared bodies -/
theorem middleCore_eq (b lsh v c : W) (h1 : 1#64 ≤ b) (h2 : b ≤ 63#64) (h3 : lsh < b) :
    Vec.middleCore b lsh v c = Ref.middleCore b lsh v c := by
  simp only [Vec.middleCore, Ref.middleCore, digitK b lsh _ h1 h2 h3, carryK b lsh _ _ h1 h2 h3,
    sllIf_eq lsh _ (lsh_lt64 b lsh h2 h3), digit_eq b _ h1 h2, carry_eq b _ _ h1 h2, add_epi64]

theorem finalCore_eq (b lsh v c : W) (h1 : 1#64 ≤ b) (h2 : b ≤ 63#64) (h3 : lsh < b) :
    Vec.finalCore b lsh v c = Ref.finalCore b lsh v c := by
  simp only [Vec.finalCore, Ref.finalCore, digitK b lsh _ h1 h2 h3,
    sllIf_eq lsh _ (lsh_lt64 b lsh h2 h3), digit_eq b _ h1 h2, add_epi64]

/-- the power-of-two multiplication, `k ≠ 0`, `-63 ≤ k ≤ 63` -/
theorem mulPow2Val_eq (k v : W) (h1 : BitVec.sle (-63#64) k) (h2 : BitVec.sle k 63#64) (h0 : k ≠ 0#64) :
    Vec.mulPow2Val k v = Ref.mulPow2Val k v := by
  simp only [Vec.mulPow2Val, Ref.mulPow2Val, rshl, rsar, and_si256, or_si256, sub_epi64, add_epi64, srl_epi64,
    sll_epi64, srli_epi64, cvtsi32_si128, cmpgt_epi64, setzero_si256, allOnes]
  bv_decide

/-! ### loop structure -/

theorem mainIdx_eq (n : Nat) : mainIdx n = List.range (4 * (n / 4)) := by
  unfold mainIdx
  rw [Nat.shiftRight_eq_div_pow]
  show (List.range (n / 4)).flatMap _ = _
  induction (n / 4) with
  | zero => rfl
  | succ k ih =>
    rw [List.range_succ, List.flatMap_append, ih]
    simp only [List.flatMap_cons, List.flatMap_nil, List.append_nil]
    have : 4 * (k + 1) = 4 * k + 1 + 1 + 1 + 1 := by omega
    rw [this, List.range_succ, List.range_succ, List.range_succ, List.range_succ]
    simp [List.append_assoc]

theorem tailIdx_eq (n : Nat) : tailIdx n = List.range' (4 * (n / 4)) (n - 4 * (n / 4)) := by
  unfold tailIdx
  rw [Nat.shiftRight_eq_div_pow, Nat.shiftLeft_eq]
  have e : n / 2 ^ 2 * 2 ^ 2 = 4 * (n / 4) := by omega
  rw [e]
  split
  · rfl
  · have : n - 4 * (n / 4) = 0 := by omega
    rw [this]; rfl

theorem chunks_eq {α : Type} (l : List α) (k : Nat) (h : 4 * k ≤ l.length) :
    (List.range k).flatMap (fun i => (l.drop (4 * i)).take 4) = l.take (4 * k) := by
  induction k with
  | zero => simp
  | succ k ih =>
    rw [List.range_succ, List.flatMap_append, ih (by omega)]
    simp only [List.flatMap_cons, List.flatMap_nil, List.append_nil]
    have : 4 * (k + 1) = 4 * k + 4 := by omega
    rw [this, List.take_add]

/-! ### `i128` split-lane arithmetic of `ntt120/vec_znx_big_avx.rs` -/
open Vec128

theorem sra_epi64_eq (v : W) (imm : BitVec 32) (h : imm ≤ 64#32) :
    sra_epi64 v imm = (if imm = 64#32 then v.sshiftRight 63 else v.sshiftRight' (imm.zeroExtend 64)) := by
  simp only [sra_epi64, srai_epi32_31, shuffle_epi32_F5, srl_epi64, sll_epi64, cvtsi64_si128, cmpeq_epi64, or_si256,
    and_si256, allOnes]
  bv_decide

theorem add4_eq (a b : W128) : pairW (add4 (lo a) (hi a) (lo b) (hi b)) = a + b := by
  simp only [pairW, join, add4, ugtOne, lo, hi, msb, add_epi64, sub_epi64, xor_si256, cmpgt_epi64, setzero_si256, allOnes]
  bv_decide
theorem sub4_eq (a b : W128) : pairW (sub4 (lo a) (hi a) (lo b) (hi b)) = a - b := by
  simp only [pairW, join, sub4, ugtOne, lo, hi, msb, sub_epi64, xor_si256, cmpgt_epi64, setzero_si256, allOnes]
  bv_decide
theorem neg4_eq (a : W128) : pairW (neg4 (lo a) (hi a)) = -a := by
  simp only [pairW, join, neg4, lo, hi, add_epi64, sub_epi64, xor_si256, cmpeq_epi64, setzero_si256, allOnes]
  bv_decide
theorem ext4_eq (a : W) : pairW (ext4 a) = sext a := by
  simp only [pairW, join, ext4, sext, sra_epi64, srai_epi32_31, shuffle_epi32_F5, srl_epi64, sll_epi64, cvtsi64_si128,
    cmpeq_epi64, or_si256, and_si256, allOnes]
  bv_decide
theorem ext4_fst (a : W) : (ext4 a).1 = lo (sext a) := by
  simp only [ext4, lo, sext]
  bv_decide
theorem ext4_snd (a : W) : (ext4 a).2 = hi (sext a) := by
  simp only [ext4, hi, sext, sra_epi64, srai_epi32_31, shuffle_epi32_F5, srl_epi64, sll_epi64, cvtsi64_si128,
    cmpeq_epi64, or_si256, and_si256, allOnes]
  bv_decide
theorem join_lo_hi (a : W128) : join (lo a) (hi a) = a := by
  simp only [join, lo, hi]
  bv_decide

/-- the `i64` and the `i128` rounding shifts agree on sign-extended inputs with two bits of head-room -/
theorem mulPow2_i64_i128 (k v : W) (h1 : BitVec.sle (-63#64) k = true) (h2 : BitVec.slt k 0#64 = true)
    (hv : BitVec.sle (-(1#64 <<< 62)) v = true ∧ BitVec.slt v (1#64 <<< 62) = true) :
    (Ref.mulPow2Val k v).signExtend 128 = Ref128.mulPow2Assign k (v.signExtend 128) := by
  simp only [Ref.mulPow2Val, Ref128.mulPow2Assign, rshl, rsar, rshl128, rsar128]
  bv_decide

end Avx
