import Poulpy.Model.Avx
import Std.Tactic.BVDecide
/-
Helper lemmas for C10 (lane level).  The four `bv_decide` calls here are the only SAT-backed steps of
the 64-bit part; every kernel theorem in `Props/C10.lean` is obtained from them by rewriting.
-/
namespace Avx
open Vec

/-- `get_digit_avx` with the constants of `normalize_consts_avx(b)` = `get_digit_i64(b, ·)` -/
theorem digit_eq (b x : W) (h1 : 1#64 ≤ b) (h2 : b ≤ 63#64) :
    getDigitAvx x (mkConsts b) = getDigit b x := by
  simp only [getDigitAvx, mkConsts, getDigit, rshl, rsar, and_si256, xor_si256, sub_epi64]
  bv_decide

/-- `get_carry_avx` (logical shift + sign fill) = `get_carry_i64` (arithmetic shift) -/
theorem carry_eq (b x d : W) (h1 : 1#64 ≤ b) (h2 : b ≤ 63#64) :
    getCarryAvx x d (mkConsts b) = getCarry b x d := by
  simp only [getCarryAvx, mkConsts, getCarry, rsar, and_si256, or_si256, sub_epi64, srlv_epi64, cmpgt_epi64,
    setzero_si256, allOnes]
  bv_decide

/-- `_mm256_sllv_epi64(d, set1(lsh))` = Rust `d << lsh` for `lsh < 64` -/
theorem sllv_eq (d lsh : W) (h : lsh < 64#64) : sllv_epi64 d lsh = rshl d lsh := by
  simp only [sllv_epi64, rshl]
  bv_decide

theorem klsh_ok (b lsh : W) (h2 : b ≤ 63#64) (h3 : lsh < b) (h0 : lsh ≠ 0#64) :
    1#64 ≤ b - lsh ∧ b - lsh ≤ 63#64 := by
  bv_decide

theorem lsh_lt64 (b lsh : W) (h2 : b ≤ 63#64) (h3 : lsh < b) : lsh < 64#64 := by
  bv_decide

/-- digit extraction with the `lsh`-dependent constants -/
theorem digitK (b lsh x : W) (h1 : 1#64 ≤ b) (h2 : b ≤ 63#64) (h3 : lsh < b) :
    getDigitAvx x (kLsh b lsh) = getDigit (bLsh b lsh) x := by
  unfold kLsh bLsh
  by_cases h0 : lsh = 0#64
  · simp only [h0, if_true]; exact digit_eq b x h1 h2
  · simp only [h0, if_false]
    exact digit_eq (b - lsh) x (klsh_ok b lsh h2 h3 h0).1 (klsh_ok b lsh h2 h3 h0).2

theorem carryK (b lsh x d : W) (h1 : 1#64 ≤ b) (h2 : b ≤ 63#64) (h3 : lsh < b) :
    getCarryAvx x d (kLsh b lsh) = getCarry (bLsh b lsh) x d := by
  unfold kLsh bLsh
  by_cases h0 : lsh = 0#64
  · simp only [h0, if_true]; exact carry_eq b x d h1 h2
  · simp only [h0, if_false]
    exact carry_eq (b - lsh) x d (klsh_ok b lsh h2 h3 h0).1 (klsh_ok b lsh h2 h3 h0).2

theorem sllIf_eq (lsh d : W) (h : lsh < 64#64) : sllIf lsh d = shlIf lsh d := by
  unfold sllIf shlIf
  by_cases h0 : lsh = 0#64
  · simp only [h0, if_true]
  · simp only [h0, if_false]; exact sllv_eq d lsh h

/-- the two shared bodies -/
theorem middleCore_eq (b lsh v c : W) (h1 : 1#64 ≤ b) (h2 : b ≤ 63#64) (h3 : lsh < b) :
    Vec.middleCore b lsh v c = Ref.middleCore b lsh v c := by
  simp only [Vec.middleCore, Ref.middleCore, digitK b lsh _ h1 h2 h3, carryK b lsh _ _ h1 h2 h3,
    sllIf_eq lsh _ (lsh_lt64 b lsh h2 h3), digit_eq b _ h1 h2, carry_eq b _ _ h1 h2, add_epi64]

theorem finalCore_eq (b lsh v c : W) (h1 : 1#64 ≤ b) (h2 : b ≤ 63#64) (h3 : lsh < b) :
    Vec.finalCore b lsh v c = Ref.finalCore b lsh v c := by
  simp only [Vec.finalCore, Ref.finalCore, digitK b lsh _ h1 h2 h3,
    sllIf_eq lsh _ (lsh_lt64 b lsh h2 h3), digit_eq b _ h1 h2, add_epi64]

/-- the power-of-two multiplication, `k ≠ 0`, `-63 ≤ k ≤ 63` -/
theorem mulPow2Val_eq (k v : W) (h1 : BitVec.sle (-63#64) k) (h2 : BitVec.sle k 63#64) (h0 : k ≠ 0#64) :
    Vec.mulPow2Val k v = Ref.mulPow2Val k v := by
  simp only [Vec.mulPow2Val, Ref.mulPow2Val, rshl, rsar, and_si256, or_si256, sub_epi64, add_epi64, srl_epi64,
    sll_epi64, srli_epi64, cvtsi32_si128, cmpgt_epi64, setzero_si256, allOnes]
  bv_decide

/-- the conditional negate of `znx_automorphism_avx`: `(vals ^ sign_mask) - sign_mask` -/
theorem condNegate_eq (v t m : W) :
    sub_epi64 (xor_si256 v (cmpgt_epi64 t m)) (cmpgt_epi64 t m) = if BitVec.slt m t then -v else v := by
  simp only [sub_epi64, xor_si256, cmpgt_epi64, allOnes]
  bv_decide

/-! ### loop structure -/

theorem mainIdx_eq (n : Nat) : mainIdx n = List.range (4 * (n / 4)) := by
  unfold mainIdx
  rw [Nat.shiftRight_eq_div_pow]
  show (List.range (n / 4)).flatMap _ = _
  induction (n / 4) with
  | zero => rfl
  | succ k ih =>
    rw [List.range_succ, List.flatMap_append, ih]
    simp only [List.flatMap_cons, List.flatMap_nil, List.append_nil]
    have : 4 * (k + 1) = 4 * k + 1 + 1 + 1 + 1 := by omega
    rw [this, List.range_succ, List.range_succ, List.range_succ, List.range_succ]
    simp [List.append_assoc]

theorem tailIdx_eq (n : Nat) : tailIdx n = List.range' (4 * (n / 4)) (n - 4 * (n / 4)) := by
  unfold tailIdx
  rw [Nat.shiftRight_eq_div_pow, Nat.shiftLeft_eq]
  have e : n / 2 ^ 2 * 2 ^ 2 = 4 * (n / 4) := by omega
  rw [e]
  split
  · rfl
  · have : n - 4 * (n / 4) = 0 := by omega
    rw [this]; rfl

theorem chunks_eq {α : Type} (l : List α) (k : Nat) (h : 4 * k ≤ l.length) :
    (List.range k).flatMap (fun i => (l.drop (4 * i)).take 4) = l.take (4 * k) := by
  induction k with
  | zero => simp
  | succ k ih =>
    rw [List.range_succ, List.flatMap_append, ih (by omega)]
    simp only [List.flatMap_cons, List.flatMap_nil, List.append_nil]
    have : 4 * (k + 1) = 4 * k + 4 := by omega
    rw [this, List.take_add]

/-! ### `i128` split-lane arithmetic of `ntt120/vec_znx_big_avx.rs` -/
open Vec128

theorem sra_epi64_eq (v : W) (imm : BitVec 32) (h : imm ≤ 64#32) :
    sra_epi64 v imm = (if imm = 64#32 then v.sshiftRight 63 else v.sshiftRight' (imm.zeroExtend 64)) := by
  simp only [sra_epi64, srai_epi32_31, shuffle_epi32_F5, srl_epi64, sll_epi64, cvtsi64_si128, cmpeq_epi64, or_si256,
    and_si256, allOnes]
  bv_decide

theorem add4_eq (a b : W128) : pairW (add4 (lo a) (hi a) (lo b) (hi b)) = a + b := by
  simp only [pairW, join, add4, ugtOne, lo, hi, msb, add_epi64, sub_epi64, xor_si256, cmpgt_epi64, setzero_si256, allOnes]
  bv_decide
theorem sub4_eq (a b : W128) : pairW (sub4 (lo a) (hi a) (lo b) (hi b)) = a - b := by
  simp only [pairW, join, sub4, ugtOne, lo, hi, msb, sub_epi64, xor_si256, cmpgt_epi64, setzero_si256, allOnes]
  bv_decide
theorem neg4_eq (a : W128) : pairW (neg4 (lo a) (hi a)) = -a := by
  simp only [pairW, join, neg4, lo, hi, add_epi64, sub_epi64, xor_si256, cmpeq_epi64, setzero_si256, allOnes]
  bv_decide
theorem ext4_eq (a : W) : pairW (ext4 a) = sext a := by
  simp only [pairW, join, ext4, sext, sra_epi64, srai_epi32_31, shuffle_epi32_F5, srl_epi64, sll_epi64, cvtsi64_si128,
    cmpeq_epi64, or_si256, and_si256, allOnes]
  bv_decide
theorem ext4_fst (a : W) : (ext4 a).1 = lo (sext a) := by
  simp only [ext4, lo, sext]
  bv_decide
theorem ext4_snd (a : W) : (ext4 a).2 = hi (sext a) := by
  simp only [ext4, hi, sext, sra_epi64, srai_epi32_31, shuffle_epi32_F5, srl_epi64, sll_epi64, cvtsi64_si128,
    cmpeq_epi64, or_si256, and_si256, allOnes]
  bv_decide
theorem join_lo_hi (a : W128) : join (lo a) (hi a) = a := by
  simp only [join, lo, hi]
  bv_decide

/-! ### the `nfc_*` chunks: `i128` normalisation on split lanes (block lemmas by `bv_decide`, then rewriting) -/

theorem dig128 (b : W) (v : W128) (h1 : 1#64 ≤ b) (h2 : b ≤ 64#64) :
    getDigit128 b v = sext (digExtract (b.truncate 32) (lo v)) := by
  simp only [digExtract, getDigit128, rshl128, rsar128, lo, sext, sra_epi64, srai_epi32_31, shuffle_epi32_F5, srl_epi64, sll_epi64, cvtsi64_si128, cmpeq_epi64, or_si256, and_si256, allOnes]
  bv_decide
theorem lo_sext (w : W) : lo (sext w) = w := by
  simp only [lo, sext]; bv_decide
theorem lo_add (a b : W128) : lo (a + b) = lo a + lo b := by
  simp only [lo]; bv_decide
theorem lo_shl (w lsh : W) (h : lsh < 64#64) : lo (rshl128 (sext w) lsh) = sll_epi64 w (cvtsi64_si128 (lsh.truncate 32)) := by
  simp only [lo, rshl128, sext, sll_epi64, cvtsi64_si128]; bv_decide
theorem shl_zero (d : W128) : rshl128 d 0#64 = d := by
  simp only [rshl128]; bv_decide
theorem trunc_bl (b lsh : W) : (bLsh b lsh).truncate 32 = b.truncate 32 - lsh.truncate 32 := by
  unfold bLsh; by_cases h : lsh = 0#64
  · subst h; simp
  · simp only [h, if_false]; bv_decide
theorem bl_ok (b lsh : W) (h1 : 1#64 ≤ b) (h2 : b ≤ 64#64) (h3 : lsh < b) : 1#64 ≤ bLsh b lsh ∧ bLsh b lsh ≤ 64#64 ∧ lsh < 64#64 := by
  unfold bLsh; by_cases h : lsh = 0#64
  · subst h; simp only [if_true]; exact ⟨h1, h2, by decide⟩
  · simp only [h, if_false]; bv_decide

theorem sll_zero (w : W) : sll_epi64 w (cvtsi64_si128 (BitVec.truncate 32 (0#64))) = w := by
  simp only [sll_epi64, cvtsi64_si128]; bv_decide

theorem finalChunk_eq (b lsh r : W) (c : W128) (h1 : 1#64 ≤ b) (h2 : b ≤ 64#64) (h3 : lsh < b) :
    finalChunk (mkShifts b lsh) r (lo c) = Ref128.finalCore b lsh r c := by
  obtain ⟨k1, k2, k3⟩ := bl_ok b lsh h1 h2 h3
  have e : BitVec.signExtend 128 r = sext r := rfl
  unfold Ref128.finalCore finalChunk mkShifts
  by_cases h0 : lsh = 0#64
  · subst h0
    simp only [if_true, e, dig128 _ _ k1 k2, dig128 b _ h1 h2, lo_sext, lo_add, trunc_bl, add_epi64, sll_zero]
  · simp only [h0, if_false, e, dig128 _ _ k1 k2, dig128 b _ h1 h2, lo_sext, lo_add, lo_shl _ _ k3, trunc_bl, add_epi64]
theorem split_sext (w : W) : join w (sra_epi64 w 63#32) = sext w := by
  simp only [join, sext, sra_epi64, srai_epi32_31, shuffle_epi32_F5, srl_epi64, sll_epi64, cvtsi64_si128, cmpeq_epi64, or_si256, and_si256, allOnes]
  bv_decide
theorem split_sub (al ah bl bh : W) :
    join (sub_epi64 al bl) (sub_epi64 (sub_epi64 ah bh) (ugtOne bl al)) = join al ah - join bl bh := by
  simp only [join, ugtOne, msb, sub_epi64, xor_si256, cmpgt_epi64, setzero_si256, allOnes]
  bv_decide
theorem split_add (al ah bl bh : W) :
    join (add_epi64 al bl) (add_epi64 (add_epi64 ah bh) (ugtOne al (add_epi64 al bl))) = join al ah + join bl bh := by
  simp only [join, ugtOne, msb, add_epi64, sub_epi64, xor_si256, cmpgt_epi64, setzero_si256, allOnes]
  bv_decide
theorem split_sar (k xl xh : W) (h1 : 1#64 ≤ k) (h2 : k ≤ 64#64) :
    join (or_si256 (srl_epi64 xl (cvtsi64_si128 (k.truncate 32))) (sll_epi64 xh (cvtsi64_si128 (64#32 - k.truncate 32))))
      (sra_epi64 xh (k.truncate 32)) = rsar128 (join xl xh) k := by
  simp only [join, rsar128, sra_epi64, srai_epi32_31, shuffle_epi32_F5, srl_epi64, sll_epi64, cvtsi64_si128, cmpeq_epi64, or_si256, and_si256, allOnes]
  bv_decide
theorem split_shl_digit (b lsh x : W) (h1 : 1#64 ≤ b) (h2 : b ≤ 64#64) (h3 : lsh < b) :
    rshl128 (sext (digExtract (b.truncate 32 - lsh.truncate 32) x)) lsh
      = sext (sll_epi64 (digExtract (b.truncate 32 - lsh.truncate 32) x) (cvtsi64_si128 (lsh.truncate 32))) := by
  simp only [rshl128, sext, digExtract, sra_epi64, srai_epi32_31, shuffle_epi32_F5, srl_epi64, sll_epi64, cvtsi64_si128, cmpeq_epi64, or_si256, and_si256, allOnes]
  bv_decide (config := { timeout := 60 })

theorem lo_join (l h : W) : lo (join l h) = l := by
  simp only [lo, join]; bv_decide
theorem hi_join (l h : W) : hi (join l h) = h := by
  simp only [hi, join]; bv_decide

theorem middleChunk_eq (b lsh : W) (v c : W128) (h1 : 1#64 ≤ b) (h2 : b ≤ 64#64) (h3 : lsh < b) :
    Vec128.middleCore b lsh v c = Ref128.middleCore b lsh v c := by
  obtain ⟨k1, k2, k3⟩ := bl_ok b lsh h1 h2 h3
  have hv := join_lo_hi v
  have hc := join_lo_hi c
  generalize lo v = vl at hv
  generalize hi v = vh at hv
  generalize lo c = cl at hc
  generalize hi c = ch at hc
  subst hv; subst hc
  have hsh : ∀ d : W128, (if lsh = 0#64 then d else rshl128 d lsh) = rshl128 d lsh := by
    intro d; by_cases h : lsh = 0#64
    · subst h; simp only [if_true, shl_zero]
    · simp only [h, if_false]
  unfold Vec128.middleCore Ref128.middleCore middleChunk mkShifts
  simp only [getCarry128, hsh, dig128 _ _ k1 k2, dig128 b _ h1 h2, lo_join, hi_join, trunc_bl]
  simp only [split_shl_digit b lsh _ h1 h2 h3]
  simp only [← split_sext, ← split_sub, ← split_add, ← split_sar _ _ _ k1 k2, ← split_sar b _ _ h1 h2, lo_join, trunc_bl]

theorem hi_sext (w : W) : hi (sext w) = sra_epi64 w 63#32 := by
  simp only [hi, sext, sra_epi64, srai_epi32_31, shuffle_epi32_F5, srl_epi64, sll_epi64, cvtsi64_si128, cmpeq_epi64,
    or_si256, and_si256, allOnes]
  bv_decide

/-- the `i64` and the `i128` rounding shifts agree on sign-extended inputs with two bits of head-room -/
theorem mulPow2_i64_i128 (k v : W) (h1 : BitVec.sle (-63#64) k = true) (h2 : BitVec.slt k 0#64 = true)
    (hv : BitVec.sle (-(1#64 <<< 62)) v = true ∧ BitVec.slt v (1#64 <<< 62) = true) :
    (Ref.mulPow2Val k v).signExtend 128 = Ref128.mulPow2Assign k (v.signExtend 128) := by
  simp only [Ref.mulPow2Val, Ref128.mulPow2Assign, rshl, rsar, rshl128, rsar128]
  bv_decide

end Avx
