import Poulpy.Lemmas.AvxNttLoop
import Poulpy.Lemmas.Ntt120Top

/-!
Remaining NTT120 kernels: `add_ccc_ref`, `vec_mat1col_product_baa_ref`, `fill_reduction_meta`, the
`bbb` kernel with the actual constants (all three prime sets), and the fused Barrett CRT of
`vec_znx_idft_apply_consume` (`compact_all_blocks_scalar`).
-/

namespace Ntt120
open Avx.Ntt

/-! ### `add_ccc_ref` -/

/-- `add_ccc_ref`: the canonical sum of two `u32` words modulo the prime, no wrap -/
theorem addCccK_spec (q x y : Nat) (hq0 : 0 < q) (hq : q < 2 ^ 32) (hx : x < 2 ^ 32) (hy : y < 2 ^ 32) :
    addCccK q x y = (x + y) % q ∧ addCccK q x y < q := by
  unfold addCccK
  rw [wu64_of_lt _ (by omega)]
  have := Nat.mod_lt (x + y) hq0
  rw [wu32_of_lt _ (by omega)]
  exact ⟨rfl, this⟩

/-! ### `vec_mat1col_product_baa_ref` -/

def sumLoH (h : Nat) (ts : List (Nat × Nat)) : Nat := (ts.map (fun t => t.1 * t.2 % 2 ^ h)).sum
def sumHiH (h : Nat) (ts : List (Nat × Nat)) : Nat := (ts.map (fun t => t.1 * t.2 / 2 ^ h)).sum
def dotA (ts : List (Nat × Nat)) : Nat := (ts.map (fun t => t.1 * t.2)).sum

theorem dotA_split (h : Nat) (ts : List (Nat × Nat)) : dotA ts = sumLoH h ts + 2 ^ h * sumHiH h ts := by
  induction ts with
  | nil => rfl
  | cons t ts ih =>
    simp only [dotA, sumLoH, sumHiH, List.map_cons, List.sum_cons] at *
    have := Nat.mod_add_div (t.1 * t.2) (2 ^ h)
    rw [ih]; rw [Nat.mul_add]; omega

theorem baa_fold (h : Nat) (hh : h < 64) (ts : List (Nat × Nat)) (hu : ∀ t ∈ ts, t.1 < 2 ^ 32 ∧ t.2 < 2 ^ 32) (s : Nat × Nat)
    (h1 : s.1 + ts.length * 2 ^ h ≤ 2 ^ 64) (h2 : s.2 + ts.length * 2 ^ (64 - h) ≤ 2 ^ 64) :
    ts.foldl (fun (s : Nat × Nat) t => (wu64 (s.1 + (wu64 (t.1 * t.2) &&& maskOf h)), wu64 (s.2 + (wu64 (t.1 * t.2) >>> h)))) s
      = (s.1 + sumLoH h ts, s.2 + sumHiH h ts) ∧ sumLoH h ts ≤ ts.length * 2 ^ h ∧ sumHiH h ts ≤ ts.length * 2 ^ (64 - h) := by
  induction ts generalizing s with
  | nil => simp [sumLoH, sumHiH]
  | cons t ts ih =>
    obtain ⟨a, b⟩ := hu t (by simp)
    have hp := mul_u32_lt _ _ a b
    have hlo : t.1 * t.2 % 2 ^ h < 2 ^ h := Nat.mod_lt _ (Nat.two_pow_pos h)
    have hhi : t.1 * t.2 / 2 ^ h < 2 ^ (64 - h) := by
      rw [Nat.div_lt_iff_lt_mul (Nat.two_pow_pos h), ← pow_add]
      have : 64 - h + h = 64 := by omega
      rw [this]; exact hp
    have hlen : (t :: ts).length * 2 ^ h = ts.length * 2 ^ h + 2 ^ h := by rw [List.length_cons, Nat.add_mul, Nat.one_mul]
    have hlen2 : (t :: ts).length * 2 ^ (64 - h) = ts.length * 2 ^ (64 - h) + 2 ^ (64 - h) := by rw [List.length_cons, Nat.add_mul, Nat.one_mul]
    rw [hlen, ← Nat.add_assoc] at h1
    rw [hlen2, ← Nat.add_assoc] at h2
    simp only [List.foldl_cons]
    rw [wu64_of_lt _ hp, land_maskOf _ h hh, shr_eq, wu64_of_lt (s.1 + t.1 * t.2 % 2 ^ h) (by omega),
      wu64_of_lt (s.2 + t.1 * t.2 / 2 ^ h) (by omega)]
    obtain ⟨i1, i2, i3⟩ := ih (fun t' ht' => hu t' (by simp [ht'])) (s.1 + t.1 * t.2 % 2 ^ h, s.2 + t.1 * t.2 / 2 ^ h)
      (by simp only []; omega) (by simp only []; omega)
    rw [i1]
    simp only [sumLoH, sumHiH, List.map_cons, List.sum_cons] at *
    refine ⟨by congr 1 <;> omega, ?_, ?_⟩
    · rw [hlen]; omega
    · rw [hlen2]; omega

theorem baa_room (h ell lo hi hPow : Nat) (hh : 45 ≤ h) (hh2 : h ≤ 50) (hell : ell < 10000) (l1 : lo ≤ ell * 2 ^ h)
    (l2 : hi ≤ ell * 2 ^ (64 - h)) (hp : hPow < 2 ^ 31) : hi * hPow < 2 ^ 64 ∧ lo + hi * hPow < 2 ^ 64 := by
  have m := Nat.mul_le_mul l2 (Nat.le_of_lt hp)
  rcases (by omega : h = 45 ∨ h = 46 ∨ h = 47 ∨ h = 48 ∨ h = 49 ∨ h = 50) with rfl | rfl | rfl | rfl | rfl | rfl <;>
    norm_num at l1 m <;> omega

/-- **`vec_mat1col_product_baa_ref`, one prime**: fewer than 10 000 rows of `u32` operands, split point
`45 ≤ h ≤ 50`, constant `hPow ≡ 2^h` below `2^31`: no 64-bit wrap and the result is congruent to `Σ xᵢ·yᵢ` -/
theorem baaK_spec (q h hPow : Nat) (ts : List (Nat × Nat)) (hu : ∀ t ∈ ts, t.1 < 2 ^ 32 ∧ t.2 < 2 ^ 32) (hell : ts.length < 10000)
    (hh : 45 ≤ h) (hh2 : h ≤ 50) (hp : hPow < 2 ^ 31) (e : hPow ≡ 2 ^ h [MOD q]) :
    baaK h hPow ts = sumLoH h ts + sumHiH h ts * hPow ∧ baaK h hPow ts ≡ dotA ts [MOD q] := by
  unfold baaK
  have hb1 : ts.length * 2 ^ h ≤ 10000 * 2 ^ 50 := Nat.mul_le_mul (by omega) (Nat.pow_le_pow_right (by decide) hh2)
  have hb2 : ts.length * 2 ^ (64 - h) ≤ 10000 * 2 ^ 19 := Nat.mul_le_mul (by omega) (Nat.pow_le_pow_right (by decide) (by omega))
  obtain ⟨f, l1, l2⟩ := baa_fold h (by omega) ts hu (0, 0) (by simp only []; omega) (by simp only []; omega)
  simp only []
  rw [f]
  simp only [Nat.zero_add]
  obtain ⟨m1, m2⟩ := baa_room h ts.length _ _ hPow hh hh2 hell l1 l2 hp
  rw [wu64_of_lt _ m1, wu64_of_lt _ m2]
  refine ⟨rfl, ?_⟩
  rw [dotA_split h]
  have := Nat.ModEq.mul_left (sumHiH h ts) e
  have h2 := Nat.ModEq.add_left (sumLoH h ts) this
  rw [Nat.mul_comm (2 ^ h)]
  exact h2

/-- what `baaK_spec` needs of the crate's `BaaMeta` constants of prime `k` -/
def BaaCstOK (P : PrimeSet) (k : Nat) : Prop :=
  45 ≤ (baaMeta P).h ∧ (baaMeta P).h ≤ 50 ∧ (baaMeta P).hPowRed.getD k 0 < 2 ^ 31 ∧
  (baaMeta P).hPowRed.getD k 0 ≡ 2 ^ (baaMeta P).h [MOD P.qs.getD k 1]

instance (P : PrimeSet) (k : Nat) : Decidable (BaaCstOK P k) := by unfold BaaCstOK; exact inferInstance

theorem baaCst : ∀ P ∈ [primes29, primes30, primes31], ∀ k, k < 4 → BaaCstOK P k := by decide +kernel

/-- **`vec_mat1col_product_baa_ref` with the crate's constants, all three prime sets**: every output residue is congruent to the
dot product of the `u32` operands, with no 64-bit wrap, for fewer than 10 000 rows -/
theorem baaOut_spec (P : PrimeSet) (hP : P ∈ [primes29, primes30, primes31]) (k : Nat) (hk : k < 4) (ts : List (Nat × Nat))
    (hu : ∀ t ∈ ts, t.1 < 2 ^ 32 ∧ t.2 < 2 ^ 32) (hell : ts.length < 10000) :
    baaK (baaMeta P).h ((baaMeta P).hPowRed.getD k 0) ts ≡ dotA ts [MOD P.qs.getD k 1] := by
  obtain ⟨a, b, c, d⟩ := baaCst P hP k hk
  exact (baaK_spec _ _ _ ts hu hell a b c d).2

/-! ### `fill_reduction_meta(64)` -/

/-- the reduction meta found by `fill_reduction_meta(64)` for the three prime sets, and what it guarantees:
`cst[k] ≡ 2^h`, `mask = 2^h − 1`, and every reduced 64-bit word is below `2^bs_after` -/
theorem fillReductionMeta_spec : ∀ P ∈ [primes29, primes30, primes31],
    let r := fillReductionMeta P 64
    33 ≤ r.h ∧ r.h < 64 ∧ r.mask = 2 ^ r.h - 1 ∧ r.bsAfter ≤ 48 ∧
    ∀ k, k < 4 → (r.cst.getD k 0 < 2 ^ 31 ∧ r.cst.getD k 0 ≡ 2 ^ r.h [MOD P.qs.getD k 1] ∧
      2 ^ r.h - 1 + (2 ^ 64 - 1) / 2 ^ r.h * r.cst.getD k 0 < 2 ^ r.bsAfter) := by
  decide +kernel

/-- consequently `modq_red` with that meta maps every `u64` to a congruent value below `2^48` -/
theorem modqRed_meta_spec (P : PrimeSet) (hP : P ∈ [primes29, primes30, primes31]) (k : Nat) (hk : k < 4) (x : Nat) (hx : x < 2 ^ 64) :
    modqRed x (fillReductionMeta P 64).h (fillReductionMeta P 64).mask ((fillReductionMeta P 64).cst.getD k 0) ≡ x [MOD P.qs.getD k 1] ∧
    modqRed x (fillReductionMeta P 64).h (fillReductionMeta P 64).mask ((fillReductionMeta P 64).cst.getD k 0) < 2 ^ (fillReductionMeta P 64).bsAfter ∧
    (fillReductionMeta P 64).bsAfter ≤ 48 := by
  obtain ⟨h1, h2, h3, h4, h5⟩ := fillReductionMeta_spec P hP
  obtain ⟨c1, c2, c3⟩ := h5 k hk
  rw [h3]
  obtain ⟨ev', cg⟩ := modqRed_spec (P.qs.getD k 1) x _ _ h2 c1 hx (by omega) c2
  refine ⟨cg, ?_, h4⟩
  rw [ev']
  have a1 : x % 2 ^ (fillReductionMeta P 64).h ≤ 2 ^ (fillReductionMeta P 64).h - 1 := by
    have := Nat.mod_lt x (Nat.two_pow_pos (fillReductionMeta P 64).h); omega
  have a2 : x / 2 ^ (fillReductionMeta P 64).h ≤ (2 ^ 64 - 1) / 2 ^ (fillReductionMeta P 64).h := Nat.div_le_div_right (by omega)
  have a3 := Nat.mul_le_mul_right ((fillReductionMeta P 64).cst.getD k 0) a2
  omega

/-! ### `vec_mat1col_product_bbb_ref` with the Primes31 constants

`Lemmas/Ntt120Bbb.lean` proves the kernel for constants below `2^30` and any `16 ≤ h < 32`.  The Primes31
constants only fit `2^31`; with the crate's actual split point `h = 24` the final collapse still has room
(`2^24·2^31 + 2^23·2^31` per pair of terms), so the same statement holds — no counter-example. -/

theorem lo_hi_mul_lt24 (s p : Nat) (hs : s < 2 ^ 47) (hp : p < 2 ^ 31) :
    s % 2 ^ 24 * p < 2 ^ 61 ∧ s / 2 ^ 24 * p < 2 ^ 61 := by
  have hl : s % 2 ^ 24 < 2 ^ 24 := Nat.mod_lt _ (Nat.two_pow_pos 24)
  have hhi : s / 2 ^ 24 < 2 ^ 23 := by omega
  constructor
  · calc s % 2 ^ 24 * p < 2 ^ 24 * 2 ^ 31 := Nat.mul_lt_mul'' hl hp
      _ ≤ 2 ^ 61 := by norm_num
  · calc s / 2 ^ 24 * p < 2 ^ 23 * 2 ^ 31 := Nat.mul_lt_mul'' hhi hp
      _ ≤ 2 ^ 61 := by norm_num

theorem bbbFinalK_eq24 (p2l p2h p3l p3h p4l p4h : Nat) (s : Acc4)
    (c2l : p2l < 2 ^ 31) (c2h : p2h < 2 ^ 31) (c3l : p3l < 2 ^ 31) (c3h : p3h < 2 ^ 31) (c4l : p4l < 2 ^ 31) (c4h : p4h < 2 ^ 31)
    (b1 : s.1 < 2 ^ 47) (b2 : s.2.1 < 2 ^ 47) (b3 : s.2.2.1 < 2 ^ 47) (b4 : s.2.2.2 < 2 ^ 47) :
    bbbFinalK 24 (wu64 (2 ^ 24)) p2l p2h p3l p3h p4l p4h s = collapse4 24 p2l p2h p3l p3h p4l p4h s.1 s.2.1 s.2.2.1 s.2.2.2 ∧
    collapse4 24 p2l p2h p3l p3h p4l p4h s.1 s.2.1 s.2.2.1 s.2.2.2 < 2 ^ 64 := by
  unfold bbbFinalK collapse4
  simp only [land_maskOf _ 24 (by omega), shr_eq]
  have hpw : 2 ^ 24 < 2 ^ 64 := by norm_num
  rw [wu64_of_lt _ hpw]
  obtain ⟨m2l, m2h⟩ := lo_hi_mul_lt24 s.2.1 p2l b2 c2l
  obtain ⟨_, m2h'⟩ := lo_hi_mul_lt24 s.2.1 p2h b2 c2h
  obtain ⟨m3l, _⟩ := lo_hi_mul_lt24 s.2.2.1 p3l b3 c3l
  obtain ⟨_, m3h⟩ := lo_hi_mul_lt24 s.2.2.1 p3h b3 c3h
  obtain ⟨m4l, _⟩ := lo_hi_mul_lt24 s.2.2.2 p4l b4 c4l
  obtain ⟨_, m4h⟩ := lo_hi_mul_lt24 s.2.2.2 p4h b4 c4h
  have hs1 : s.1 % 2 ^ 24 + s.1 / 2 ^ 24 * 2 ^ 24 = s.1 := by
    have := Nat.mod_add_div s.1 (2 ^ 24); rw [Nat.mul_comm] at this; exact this
  have hs1' : s.1 / 2 ^ 24 * 2 ^ 24 ≤ s.1 := by omega
  rw [wu64_of_lt (s.1 / 2 ^ 24 * 2 ^ 24) (by omega), wu64_of_lt (s.2.1 % 2 ^ 24 * p2l) (by omega),
    wu64_of_lt (s.2.1 / 2 ^ 24 * p2h) (by omega), wu64_of_lt (s.2.2.1 % 2 ^ 24 * p3l) (by omega),
    wu64_of_lt (s.2.2.1 / 2 ^ 24 * p3h) (by omega), wu64_of_lt (s.2.2.2 % 2 ^ 24 * p4l) (by omega),
    wu64_of_lt (s.2.2.2 / 2 ^ 24 * p4h) (by omega)]
  rw [wu64_of_lt (s.1 % 2 ^ 24 + s.1 / 2 ^ 24 * 2 ^ 24) (by omega)]
  rw [wu64_of_lt (s.1 % 2 ^ 24 + s.1 / 2 ^ 24 * 2 ^ 24 + s.2.1 % 2 ^ 24 * p2l) (by omega)]
  rw [wu64_of_lt (s.1 % 2 ^ 24 + s.1 / 2 ^ 24 * 2 ^ 24 + s.2.1 % 2 ^ 24 * p2l + s.2.1 / 2 ^ 24 * p2h) (by omega)]
  rw [wu64_of_lt (s.1 % 2 ^ 24 + s.1 / 2 ^ 24 * 2 ^ 24 + s.2.1 % 2 ^ 24 * p2l + s.2.1 / 2 ^ 24 * p2h + s.2.2.1 % 2 ^ 24 * p3l) (by omega)]
  rw [wu64_of_lt (s.1 % 2 ^ 24 + s.1 / 2 ^ 24 * 2 ^ 24 + s.2.1 % 2 ^ 24 * p2l + s.2.1 / 2 ^ 24 * p2h + s.2.2.1 % 2 ^ 24 * p3l +
    s.2.2.1 / 2 ^ 24 * p3h) (by omega)]
  rw [wu64_of_lt (s.1 % 2 ^ 24 + s.1 / 2 ^ 24 * 2 ^ 24 + s.2.1 % 2 ^ 24 * p2l + s.2.1 / 2 ^ 24 * p2h + s.2.2.1 % 2 ^ 24 * p3l +
    s.2.2.1 / 2 ^ 24 * p3h + s.2.2.2 % 2 ^ 24 * p4l) (by omega)]
  rw [wu64_of_lt _ (by omega)]
  exact ⟨rfl, by omega⟩

/-- **`vec_mat1col_product_bbb_ref`, one prime, split point 24, constants below `2^31`** -/
theorem bbbK_spec24 (q p2l p2h p3l p3h p4l p4h : Nat) (ps : List Pair) (hps : ∀ p ∈ ps, p.u64) (hell : ps.length < 10000)
    (c2l : p2l < 2 ^ 31) (c2h : p2h < 2 ^ 31) (c3l : p3l < 2 ^ 31) (c3h : p3h < 2 ^ 31) (c4l : p4l < 2 ^ 31) (c4h : p4h < 2 ^ 31)
    (e2l : p2l ≡ 2 ^ 32 [MOD q]) (e2h : p2h ≡ 2 ^ (32 + 24) [MOD q]) (e3l : p3l ≡ 2 ^ 64 [MOD q]) (e3h : p3h ≡ 2 ^ (64 + 24) [MOD q])
    (e4l : p4l ≡ 2 ^ 96 [MOD q]) (e4h : p4h ≡ 2 ^ (96 + 24) [MOD q]) :
    collapse4 24 p2l p2h p3l p3h p4l p4h (sum1 ps) (sum2 ps) (sum3 ps) (sum4 ps) < 2 ^ 64 ∧
    bbbK 24 (wu64 (2 ^ 24)) p2l p2h p3l p3h p4l p4h ps ≡ dot2 ps [MOD q] := by
  unfold bbbK
  obtain ⟨l1, l2, l3, l4⟩ := sums_le ps hps
  have hb : ps.length * 2 ^ 34 < 2 ^ 48 := by omega
  rw [bbb_fold ps hps (0, 0, 0, 0) (by simp only []; omega) (by simp only []; omega) (by simp only []; omega) (by simp only []; omega)]
  simp only [Nat.zero_add]
  obtain ⟨ev, eb⟩ := bbbFinalK_eq24 p2l p2h p3l p3h p4l p4h (sum1 ps, sum2 ps, sum3 ps, sum4 ps) c2l c2h c3l c3h c4l c4h
    (by simp only []; omega) (by simp only []; omega) (by simp only []; omega) (by simp only []; omega)
  simp only [] at ev eb
  rw [ev]
  refine ⟨eb, ?_⟩
  rw [dot2_split]
  unfold collapse4
  have r1 : sum1 ps % 2 ^ 24 + sum1 ps / 2 ^ 24 * 2 ^ 24 = sum1 ps := by
    have := Nat.mod_add_div (sum1 ps) (2 ^ 24); rw [Nat.mul_comm] at this; exact this
  rw [r1]
  have a2 := split_modEq q 24 p2l p2h (sum2 ps) 32 e2l e2h
  have a3 := split_modEq q 24 p3l p3h (sum3 ps) 64 e3l e3h
  have a4 := split_modEq q 24 p4l p4h (sum4 ps) 96 e4l e4h
  have := ((Nat.ModEq.add_left (sum1 ps) a2).add a3).add a4
  simpa [Nat.add_assoc] using this

/-- what `bbbK_spec24` needs of the constants of prime `k` -/
def BbbCstOK24 (P : PrimeSet) (k : Nat) : Prop :=
  let m := bbbMeta P
  let q := P.qs.getD k 1
  m.h = 24 ∧ m.s1h = wu64 (2 ^ 24) ∧
  m.s2l.getD k 0 < 2 ^ 31 ∧ m.s2h.getD k 0 < 2 ^ 31 ∧ m.s3l.getD k 0 < 2 ^ 31 ∧ m.s3h.getD k 0 < 2 ^ 31 ∧
  m.s4l.getD k 0 < 2 ^ 31 ∧ m.s4h.getD k 0 < 2 ^ 31 ∧
  m.s2l.getD k 0 ≡ 2 ^ 32 [MOD q] ∧ m.s2h.getD k 0 ≡ 2 ^ (32 + 24) [MOD q] ∧
  m.s3l.getD k 0 ≡ 2 ^ 64 [MOD q] ∧ m.s3h.getD k 0 ≡ 2 ^ (64 + 24) [MOD q] ∧
  m.s4l.getD k 0 ≡ 2 ^ 96 [MOD q] ∧ m.s4h.getD k 0 ≡ 2 ^ (96 + 24) [MOD q]

instance (P : PrimeSet) (k : Nat) : Decidable (BbbCstOK24 P k) := by unfold BbbCstOK24; exact inferInstance

theorem bbbCst31 : ∀ k, k < 4 → BbbCstOK24 primes31 k := by decide +kernel

/-- **`vec_mat1col_product_bbb_ref::<Primes31>`**: for fewer than 10 000 rows of arbitrary `u64` words every output residue is
congruent to the dot product, with no 64-bit wrap anywhere (the crate documents Primes30 only; Primes31 works as well) -/
theorem bbbOutK_spec31 (k : Nat) (hk : k < 4) (ell : Nat) (x y : Array Nat) (hell : ell < 10000)
    (hx : ∀ i, x.getD i 0 < 2 ^ 64) (hy : ∀ i, y.getD i 0 < 2 ^ 64) :
    bbbOutK (bbbMeta primes31) ell k x y ≡ dot2 ((List.range ell).map (fun i => (x.getD (4 * i + k) 0, y.getD (4 * i + k) 0))) [MOD primes31.qs.getD k 1] := by
  obtain ⟨hh, e1, c2l, c2h, c3l, c3h, c4l, c4h, e2l, e2h, e3l, e3h, e4l, e4h⟩ := bbbCst31 k hk
  unfold bbbOutK
  rw [e1, hh]
  have hps : ∀ p ∈ (List.range ell).map (fun i => ((x.getD (4 * i + k) 0, y.getD (4 * i + k) 0) : Pair)), Pair.u64 p := by
    intro p hp
    simp only [List.mem_map, List.mem_range] at hp
    obtain ⟨i, _, rfl⟩ := hp
    exact ⟨hx _, hy _⟩
  exact (bbbK_spec24 (primes31.qs.getD k 1) _ _ _ _ _ _ _ hps (by simp; exact hell) c2l c2h c3l c3h c4l c4h e2l e2h e3l e3h e4l e4h).2

/-! ### `compact_all_blocks_scalar` (the fused Barrett CRT of `vec_znx_idft_apply_consume`) -/

theorem compactCst30_lt : ∀ k, k < 4 → (compactCst (Q30 k) (CRT30 k)).1 < 2 ^ 64 ∧ (compactCst (Q30 k) (CRT30 k)).2.1 < 2 ^ 64 ∧
    (compactCst (Q30 k) (CRT30 k)).2.2 < 2 ^ 64 ∧ Q30 k < 2 ^ 30 ∧ 0 < Q30 k := by decide +kernel

/-- `reduce_q120b_crt` with the Primes30 constants is the CRT digit `(x mod q)·crt mod q`, for every q120b residue in the range
the inverse transform delivers (`x < q·2^33`, `Lemmas/NttRange.lean`).  The proof reuses C10's lane theorems
(`Avx.Ntt.reduceBAndApplyCrt_eq`, `reduceBAndApplyCrt_value`, `primes30_crtC`). -/
theorem reduceQ120bCrt30 (k : Nat) (hk : k < 4) (x : Nat) (hx : x < Q30 k * 2 ^ 33) :
    reduceQ120bCrt x (Q30 k) (compactCst (Q30 k) (CRT30 k)).1 (compactCst (Q30 k) (CRT30 k)).2.1 (compactCst (Q30 k) (CRT30 k)).2.2 (CRT30 k)
      = x % Q30 k * CRT30 k % Q30 k := by
  obtain ⟨c, e, f, g, kk⟩ := primes30_crtC k hk
  obtain ⟨s1, s2, s3, s4, _⟩ := compactCst30_lt k hk
  have hx64 : x < 2 ^ 64 := by
    have : Q30 k * 2 ^ 33 < 2 ^ 30 * 2 ^ 33 := Nat.mul_lt_mul_of_pos_right s4 (by norm_num)
    norm_num at this ⊢; omega
  have tx : (BitVec.ofNat 64 x).toNat = x := by rw [BitVec.toNat_ofNat]; exact Nat.mod_eq_of_lt hx64
  have hx' : (BitVec.ofNat 64 x).toNat < (BitVec.ofNat 64 (Q30 k)).toNat * 2 ^ 33 := by rw [tx, g]; exact hx
  have v := reduceBAndApplyCrt_value (BitVec.ofNat 64 x) _ _ _ _ _ c hx' e f
  rw [reduceBAndApplyCrt_eq (BitVec.ofNat 64 x) _ _ _ _ _ c hx', tx, g, kk] at v
  have t1 : (BitVec.ofNat 64 (compactCst (Q30 k) (CRT30 k)).1).toNat = (compactCst (Q30 k) (CRT30 k)).1 := by
    rw [BitVec.toNat_ofNat]; exact Nat.mod_eq_of_lt s1
  have t2 : (BitVec.ofNat 64 (compactCst (Q30 k) (CRT30 k)).2.1).toNat = (compactCst (Q30 k) (CRT30 k)).2.1 := by
    rw [BitVec.toNat_ofNat]; exact Nat.mod_eq_of_lt s2
  have t3 : (BitVec.ofNat 64 (compactCst (Q30 k) (CRT30 k)).2.2).toNat = (compactCst (Q30 k) (CRT30 k)).2.2 := by
    rw [BitVec.toNat_ofNat]; exact Nat.mod_eq_of_lt s3
  rw [t1, t2, t3] at v
  exact v

/-- the `u128` tail of `compact_all_blocks_scalar` (table index `v >> 120`, unconditional subtraction of `idx·Q`, one conditional
subtraction, symmetric lift) on a CRT sum `S < 4·Q` -/
def compactTail (tq v : Nat) : Outcome Int :=
  let qApprox := v >>> 120
  if qApprox ≥ 4 then .panic "bounds"
  else
    let v := (v + (2 ^ 128 - wu128 (tq * qApprox))) % 2 ^ 128
    let v := if v ≥ tq then (v + (2 ^ 128 - tq)) % 2 ^ 128 else v
    let halfQ := (tq + 1) / 2
    .ok (if v ≥ halfQ then w128 (w128 (v : Int) - w128 (tq : Int)) else w128 (v : Int))

theorem centre_w128 (Q r : Nat) (hQ2 : Q < 2 ^ 120) (hr : r < Q) :
    (if (Q + 1) / 2 ≤ r then w128 (w128 (r : Int) - w128 (Q : Int)) else w128 (r : Int)) = centre Q r := by
  have b1 : (Q : Int) < 2 ^ 120 := by exact_mod_cast hQ2
  have b2 : (r : Int) < Q := by exact_mod_cast hr
  have b3 : (0 : Int) ≤ r := Int.natCast_nonneg _
  have p : (2 : Int) ^ 120 < 2 ^ 127 := by norm_num
  have wr : w128 (r : Int) = r := w128_of_range _ (by linarith) (by linarith)
  have wq : w128 (Q : Int) = Q := w128_of_range _ (by linarith) (by linarith)
  unfold centre
  rw [wr, wq]
  split
  · exact w128_of_range _ (by linarith) (by linarith)
  · rfl

theorem compactTail_eq (Q S : Nat) (hQ1 : 4 * (2 ^ 120 - Q) ≤ Q) (hQ2 : Q < 2 ^ 120) (hS : S < 4 * Q) :
    compactTail Q S = .ok (centre Q (S % Q)) := by
  unfold compactTail
  simp only [Nat.shiftRight_eq_div_pow, ge_iff_le]
  have ha : S / 2 ^ 120 < 4 := Nat.div_lt_of_lt_mul (by omega)
  rw [if_neg (by omega)]
  have hdm := Nat.div_add_mod S (2 ^ 120)
  have hml := Nat.mod_lt S (show 0 < 2 ^ 120 by positivity)
  obtain ⟨v1, hv1, hT, hlt⟩ : ∃ v1, S = v1 + Q * (S / 2 ^ 120) ∧ Q * (S / 2 ^ 120) < 2 ^ 128 ∧ v1 < 2 * Q := by
    refine ⟨S - Q * (S / 2 ^ 120), ?_, ?_, ?_⟩
    all_goals
      rcases (by omega : S / 2 ^ 120 = 0 ∨ S / 2 ^ 120 = 1 ∨ S / 2 ^ 120 = 2 ∨ S / 2 ^ 120 = 3) with h | h | h | h <;>
        rw [h] at hdm ⊢ <;> omega
  have e1 : (S + (2 ^ 128 - wu128 (Q * (S / 2 ^ 120)))) % 2 ^ 128 = v1 := by
    unfold wu128
    rw [Nat.mod_eq_of_lt hT]
    have : S + (2 ^ 128 - Q * (S / 2 ^ 120)) = v1 + 2 ^ 128 := by omega
    rw [this, Nat.add_mod_right]; exact Nat.mod_eq_of_lt (by omega)
  rw [e1]
  have hmod : S % Q = if Q ≤ v1 then v1 - Q else v1 := by
    rw [hv1, Nat.add_mul_mod_self_left]
    split
    · rename_i h
      have : v1 = (v1 - Q) + Q := by omega
      rw [this, Nat.add_mod_right, Nat.add_sub_cancel]; exact Nat.mod_eq_of_lt (by omega)
    · exact Nat.mod_eq_of_lt (by omega)
  have e2 : (if Q ≤ v1 then (v1 + (2 ^ 128 - Q)) % 2 ^ 128 else v1) = S % Q := by
    rw [hmod]
    split
    · have : v1 + (2 ^ 128 - Q) = (v1 - Q) + 2 ^ 128 := by omega
      rw [this, Nat.add_mod_right]; exact Nat.mod_eq_of_lt (by omega)
    · rfl
  rw [e2]
  have hr : S % Q < Q := Nat.mod_lt _ (by omega)
  generalize S % Q = r at *
  exact congrArg Outcome.ok (centre_w128 Q r hQ2 hr)

theorem primes30_compact_consts :
    wu128 (wu128 (wu128 (primes30.q0 * primes30.q1) * primes30.q2) * primes30.q3) = bigQ primes30 ∧
    wu128 (wu128 (primes30.q1 * primes30.q2) * primes30.q3) = primes30.q1 * primes30.q2 * primes30.q3 ∧
    wu128 (wu128 (primes30.q0 * primes30.q2) * primes30.q3) = primes30.q0 * primes30.q2 * primes30.q3 ∧
    wu128 (wu128 (primes30.q0 * primes30.q1) * primes30.q3) = primes30.q0 * primes30.q1 * primes30.q3 ∧
    wu128 (wu128 (primes30.q0 * primes30.q1) * primes30.q2) = primes30.q0 * primes30.q1 * primes30.q2 ∧
    4 * (2 ^ 120 - bigQ primes30) ≤ bigQ primes30 ∧ bigQ primes30 < 2 ^ 120 := by decide +kernel

/-- **`compact_all_blocks_scalar` = `b_to_znx128_ref`** on one coefficient: for q120b residues in the inverse transform's output
range `x_k < Q[k]·2^33`, the fused per-prime Barrett CRT digits, the `u128` sum (no wrap), the four-entry table reduction
(index ≤ 3: no index panic) and the symmetric lift of `vec_znx_idft_apply_consume` give exactly what `vec_znx_idft_apply`'s
`b_to_znx128` gives -/
theorem compactCrt_eq_bToZnx128 (x0 x1 x2 x3 : Nat) (h0 : x0 < primes30.q0 * 2 ^ 33) (h1 : x1 < primes30.q1 * 2 ^ 33)
    (h2 : x2 < primes30.q2 * 2 ^ 33) (h3 : x3 < primes30.q3 * 2 ^ 33) :
    compactCrt primes30 [x0, x1, x2, x3] = .ok (bToZnx128Core primes30 x0 x1 x2 x3) := by
  have e0 : Q30 0 = primes30.q0 ∧ Q30 1 = primes30.q1 ∧ Q30 2 = primes30.q2 ∧ Q30 3 = primes30.q3 ∧
      CRT30 0 = primes30.c0 ∧ CRT30 1 = primes30.c1 ∧ CRT30 2 = primes30.c2 ∧ CRT30 3 = primes30.c3 := by decide
  obtain ⟨f0, f1, f2, f3, f4, f5, f6, f7⟩ := e0
  have r0 := reduceQ120bCrt30 0 (by decide) x0 (by rw [f0]; exact h0)
  have r1 := reduceQ120bCrt30 1 (by decide) x1 (by rw [f1]; exact h1)
  have r2 := reduceQ120bCrt30 2 (by decide) x2 (by rw [f2]; exact h2)
  have r3 := reduceQ120bCrt30 3 (by decide) x3 (by rw [f3]; exact h3)
  rw [f0, f4] at r0; rw [f1, f5] at r1; rw [f2, f6] at r2; rw [f3, f7] at r3
  obtain ⟨cQ, cm0, cm1, cm2, cm3, hQ1, hQ2⟩ := primes30_compact_consts
  have g := primes30_good
  have hpos : 0 < primes30.q1 * primes30.q2 * primes30.q3 ∧ 0 < primes30.q0 * primes30.q2 * primes30.q3 ∧
      0 < primes30.q0 * primes30.q1 * primes30.q3 ∧ 0 < primes30.q0 * primes30.q1 * primes30.q2 := by decide +kernel
  have a0 := crtTerm_lt primes30.q0 primes30.c0 _ x0 (by have := g.q0_gt; omega) hpos.1
  have a1 := crtTerm_lt primes30.q1 primes30.c1 _ x1 (by have := g.q1_gt; omega) hpos.2.1
  have a2 := crtTerm_lt primes30.q2 primes30.c2 _ x2 (by have := g.q2_gt; omega) hpos.2.2.1
  have a3 := crtTerm_lt primes30.q3 primes30.c3 _ x3 (by have := g.q3_gt; omega) hpos.2.2.2
  rw [bigQ_eq0] at a0; rw [bigQ_eq1] at a1; rw [bigQ_eq2] at a2; rw [bigQ_eq3] at a3
  have hlt : crtSum primes30 x0 x1 x2 x3 < 4 * bigQ primes30 := by unfold crtSum; omega
  have key : compactCrt primes30 [x0, x1, x2, x3] = compactTail (bigQ primes30) (crtSum primes30 x0 x1 x2 x3) := by
    unfold compactCrt compactTail
    simp only []
    rw [cQ, cm0, cm1, cm2, cm3]
    rw [r0, r1, r2, r3]
    have w : ∀ x, x < 2 ^ 128 → wu128 x = x := fun x h => Nat.mod_eq_of_lt h
    unfold crtTerm at a0 a1 a2 a3
    unfold crtSum crtTerm at hlt ⊢
    generalize x0 % primes30.q0 * primes30.c0 % primes30.q0 * (primes30.q1 * primes30.q2 * primes30.q3) = T0 at a0 hlt ⊢
    generalize x1 % primes30.q1 * primes30.c1 % primes30.q1 * (primes30.q0 * primes30.q2 * primes30.q3) = T1 at a1 hlt ⊢
    generalize x2 % primes30.q2 * primes30.c2 % primes30.q2 * (primes30.q0 * primes30.q1 * primes30.q3) = T2 at a2 hlt ⊢
    generalize x3 % primes30.q3 * primes30.c3 % primes30.q3 * (primes30.q0 * primes30.q1 * primes30.q2) = T3 at a3 hlt ⊢
    rw [w T0 (by omega), w T1 (by omega), w T2 (by omega), w T3 (by omega), w (T0 + T1) (by omega), w (T0 + T1 + T2) (by omega),
      w (T0 + T1 + T2 + T3) (by omega)]
  rw [key, compactTail_eq _ _ hQ1 hQ2 hlt, bToZnx128Core_eq_centre primes30 g]

end Ntt120
