/-
Assembly for C01: exact phase of `glwe_encrypt_pk` and the bound of its error expression.
-/
import Poulpy.Lemmas.CoreEncPk2

namespace CoreEnc
open NormL

theorem zip_lengths {n : Nat} : ∀ (xs ys : List Poly), (∀ x ∈ xs, x.length = n) → (∀ y ∈ ys, y.length = n) →
    ∀ p ∈ List.zip xs ys, p.1.length = p.2.length := by
  intro xs ys h1 h2 p hp
  obtain ⟨a, c⟩ := p
  have := List.of_mem_zip hp
  rw [h1 a this.1, h2 c this.2]

theorem zipWith_polyAdd_len {n : Nat} : ∀ (xs ys : List Poly), (∀ x ∈ xs, x.length = n) → (∀ y ∈ ys, y.length = n) →
    ∀ z ∈ List.zipWith Hal.polyAdd xs ys, z.length = n := by
  intro xs
  induction xs with
  | nil => intro ys _ _ z hz; simp at hz
  | cons x xs ih =>
    intro ys h1 h2 z hz
    cases ys with
    | nil => simp at hz
    | cons y ys =>
      simp only [List.zipWith_cons_cons, List.mem_cons] at hz
      rcases hz with rfl | hz
      · simp [h1 x (by simp), h2 y (by simp)]
      · exact ih ys (fun a ha => h1 a (by simp [ha])) (fun a ha => h2 a (by simp [ha])) z hz

/-- message polynomial at the ciphertext's size -/
def msgPoly (b n size : Nat) (m : Option Col) : Poly := (List.range n).map (fun t => msgValO b size t m)

section pk
variable {bits b n size kxe k : Nat} {H Hp E M : Int}

/-- **exact phase of public-key GLWE encryption** as an identity of value polynomials:
`phase(ct) = u ⋆ phase(pk) + (e_0 + Σ sᵢ⋆eᵢ)·U + m + 2^(b·size)·K`, `U = 2^(b(size−1−limb))`. -/
theorem encryptPk_phase (hbits : bits = 64 ∨ bits = 128) (hr : HeadRoom bits b 0 H) (hb1 : 1 ≤ b) (hb : b ≤ 63) (hk : 1 ≤ kxe)
    (hlimb : errLimb kxe b < size)
    (pk0 : Col) (pks : List Col) (sk : List Poly) (u : Poly) (m : Option Col) (e0 : Poly) (es : List Poly)
    (hlen : pks.length = sk.length) (hes : pks.length = es.length)
    (hpk : ∀ pk ∈ pk0 :: pks, pk.length = size ∧ WF n pk ∧ Bounded Hp (Core.colMulPoly u pk))
    (he : ∀ e ∈ e0 :: es, e.length = n ∧ ∀ x ∈ e, |x| ≤ E)
    (hm : ∀ p, m = some p → WF n p ∧ CoefBounded n M p)
    (hHp0 : 0 ≤ Hp) (hE0 : 0 ≤ E) (hM0 : 0 ≤ M) (hsum : Hp + E + M ≤ H) (h63 : Hp + E + M < 2 ^ 63) :
    ∃ (c0 : Col) (cts : List Col) (Kf : Poly),
      Core.glweEncryptPk bits b k n size kxe (pk0 :: pks) u m (e0 :: es) = some { base2k := b, k := k, n := n, cols := c0 :: cts } ∧
      cts.length = pks.length ∧ (∀ c ∈ c0 :: cts, c.length = size ∧ WF n c ∧ Bounded (2 ^ (b - 1)) c) ∧ Kf.length = n ∧
      valPoly b n (Core.phaseBig sk { base2k := b, k := k, n := n, cols := c0 :: cts }) =
        Hal.polyAdd (Hal.polyAdd (Hal.polyAdd
          (Hal.negMul u (valPoly b n (Core.phaseBig sk { base2k := b, k := k, n := n, cols := pk0 :: pks })))
          (Hal.polyScale (2 ^ (b * (size - 1 - errLimb kxe b))) (linComb sk es e0)))
          (msgPoly b n size m))
          (Hal.polyScale (2 ^ (b * size)) Kf) := by
  obtain ⟨hp1, hp2, hp3⟩ := hpk pk0 (by simp)
  obtain ⟨he1, he2⟩ := he e0 (by simp)
  -- column 0
  obtain ⟨c0, a1, a2, a3, a4, a5⟩ := encPkCol_spec (kxe := kxe) hbits hr hb1 hb hk hlimb u pk0 hp1 hp2 hp3 hHp0 e0 he1 hE0 he2 m
    (fun p hp => (hm p hp).1) hM0 (fun p hp => (hm p hp).2) hsum h63
  -- columns 1..
  obtain ⟨cts, Ks, d1, d2, d3, d4, d5, d6⟩ := encPkLoop_spec (kxe := kxe) hbits hr hb1 hb hk hlimb u hHp0 hE0 (by linarith) (by linarith)
    pks es 1 hes (fun x hx => hpk x (by simp [hx])) (fun x hx => he x (by simp [hx]))
  set U : Int := 2 ^ (b * (size - 1 - errLimb kxe b)) with hU
  set Mo : Int := 2 ^ (b * size) with hMo
  set P0 := valPoly b n pk0 with hP0
  set X0 := Hal.polyAdd (Hal.negMul u P0) (Hal.polyScale U e0) with hX0
  have hX0l : X0.length = n := by simp [hX0, hP0, Hal.negMul_length, he1]
  have hpoly0 : ∀ t, t < n → ∃ K : Int, (valPoly b n c0).getD t 0 = (Hal.polyAdd X0 (msgPoly b n size m)).getD t 0 + K * Mo := by
    intro t ht
    obtain ⟨K, hK⟩ := a5 t ht
    refine ⟨K, ?_⟩
    rw [valPoly_getD b n c0 t ht, hK, polyAdd_getD _ _ n t hX0l (by simp [msgPoly]), hX0,
      polyAdd_getD _ _ n t (by simp [hP0, Hal.negMul_length]) (by simp [he1]), polyScale_getD, hP0,
      ← valPoly_colMulPoly b n u pk0 hp2, valPoly_getD b n _ t ht]
    simp [msgPoly, List.getD_eq_getElem?_getD, ht]
    ring
  obtain ⟨K0, hK0l, hK0⟩ := cong_poly (n := n) (M := Mo) (ne_of_gt (two_pow_pos _)) (valPoly b n c0) _ (by simp)
    (by simp [hX0l, msgPoly]) hpoly0
  have hpt0 : Core.ptForCol (m.map (fun p => (p, 0))) 0 = m := by cases m <;> simp [Core.ptForCol]
  have hptc : PtCol0 (m.map (fun p => (p, 0))) := by
    intro p col h; cases m <;> simp at h; exact h.2.symm
  refine ⟨c0, cts, linComb sk Ks K0, ?_, d2, ?_, linComb_length n sk Ks K0 hK0l d5, ?_⟩
  · unfold Core.glweEncryptPk
    simp only [Core.encPkLoop, hpt0, a1, encPkLoop_none u _ hptc pks es 1 (le_refl 1), d1]
  · intro c hc
    rcases List.mem_cons.mp hc with rfl | hc
    · exact ⟨a2, a3, a4⟩
    · exact d4 c hc
  · -- algebra
    have hctl : cts.length = sk.length := by rw [d2, hlen]
    rw [phaseBig_eq_fold sk b k n c0 cts hctl, phaseBig_eq_fold sk b k n pk0 pks hlen,
      valPoly_phaseFold b n size sk cts c0 hctl a2 a3 (fun c hc => ⟨(d4 c hc).1, (d4 c hc).2.1⟩),
      valPoly_phaseFold b n size sk pks pk0 hlen hp1 hp2 (fun c hc => ⟨(hpk c (by simp [hc])).1, (hpk c (by simp [hc])).2.1⟩),
      d6, hK0]
    have hPs : ∀ v ∈ pks.map (valPoly b n), v.length = n := by intro v hv; simp at hv; obtain ⟨_, _, rfl⟩ := hv; simp
    have hA : ∀ v ∈ (pks.map (valPoly b n)).map (Hal.negMul u), v.length = n := by
      intro v hv; simp at hv; obtain ⟨_, _, rfl⟩ := hv; simp [Hal.negMul_length]
    have hB : ∀ v ∈ es.map (Hal.polyScale U), v.length = n := by
      intro v hv; simp at hv; obtain ⟨e, he', rfl⟩ := hv; simp [(he e (by simp [he'])).1]
    have hXs := zipWith_polyAdd_len _ _ hA hB
    have hKs : ∀ v ∈ Ks.map (Hal.polyScale Mo), v.length = n := by
      intro v hv; simp at hv; obtain ⟨K, hK, rfl⟩ := hv; simp [d5 K hK]
    rw [linComb_add sk _ _ _ _ (by simp [d3, hes]) (zip_lengths _ _ hXs hKs), linComb_scale, linComb_acc_add,
      hX0, linComb_add sk _ _ _ _ (by simp [hes]) (zip_lengths _ _ hA hB), linComb_scale,
      linComb_negMul u sk _ P0 (fun v hv => by rw [hPs v hv, hP0]; simp)]

end pk

end CoreEnc
