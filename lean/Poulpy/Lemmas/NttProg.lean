import Poulpy.Lemmas.NttVmp
import Poulpy.Lemmas.NttReach

/-!
Arbitrary finite compositions of DFT-domain HAL operations on the NTT120 back end.

`DExpr`: how a DFT-domain limb was produced — zero fill, `vec_znx_dft_apply` of a coefficient limb, a one-row `bbc`
product with a prepared polynomial (`svp_apply_dft_to_dft`), and the lazy `add / sub / negate` family, nested to any
depth.  `DExpr.lane` is what the back end stores (reference kernels, or the AVX2 lazy kernels when `avx`), `DExpr.spec`
is the polynomial the HAL specification assigns.

`dexpr_sound`: the stored lane represents the specified polynomial and every stored residue is `Reach`able, hence
below `2·Q_SHIFTED` (`reach_lt`); `dexpr_avx_eq_ref`: the AVX2 lazy kernels store the same bits.
-/

namespace Ntt120
open Hal (zeroP negMul sumPolys polyAdd polySub polyNeg)

def PolyOK (j : Nat) (a : Poly) : Prop := a.length = 2 ^ j ∧ ∀ x ∈ a, -(2 ^ 63) ≤ x ∧ x < 2 ^ 63

/-- all coefficient-domain inputs are `i64` polynomials of ring degree `2^j` -/
def DExpr.WF (j : Nat) : DExpr → Prop
  | .zero => True
  | .dft a => PolyOK j a
  | .svp p e => PolyOK j p ∧ e.WF j
  | .add x y => x.WF j ∧ y.WF j
  | .sub x y => x.WF j ∧ y.WF j
  | .neg x => x.WF j

theorem mem_zipWith {α β γ} (f : α → β → γ) (u : List α) (v : List β) (z : γ) (h : z ∈ List.zipWith f u v) :
    ∃ a ∈ u, ∃ b ∈ v, z = f a b := by
  rw [List.mem_iff_getElem] at h
  obtain ⟨i, hi, rfl⟩ := h
  simp only [List.length_zipWith] at hi
  exact ⟨u[i]'(by omega), List.getElem_mem _, v[i]'(by omega), List.getElem_mem _, by rw [List.getElem_zipWith]⟩

theorem zipWith_congr_mem {α β γ} (f g : α → β → γ) : ∀ (u : List α) (v : List β),
    (∀ a ∈ u, ∀ b ∈ v, f a b = g a b) → List.zipWith f u v = List.zipWith g u v := by
  intro u
  induction u with
  | nil => intro v _; rfl
  | cons a u ih =>
    intro v h
    cases v with
    | nil => rfl
    | cons b v =>
      simp only [List.zipWith_cons_cons]
      rw [h a (by simp) b (by simp), ih v (fun a' ha' b' hb' => h a' (by simp [ha']) b' (by simp [hb']))]

theorem zipWith_sub_zero (q n : Nat) (hq0 : 0 < q) (hq : q < 2 ^ 30) : ∀ (v : List Nat), v.length = n →
    List.zipWith (subBbbK q) (List.replicate n 0) v = v.map (negBK q) := by
  induction n with
  | zero => intro v hv; simp [List.length_eq_zero_iff.mp hv]
  | succ n ih =>
    intro v hv
    cases v with
    | nil => simp at hv
    | cons a v =>
      rw [List.replicate_succ, List.zipWith_cons_cons, List.map_cons, ih v (by simpa using hv)]
      congr 1
      unfold negBK subBbbK
      rw [qShifted_eq q (by omega)]
      have hy := Nat.mod_lt a (by omega : 0 < q * 2 ^ 33)
      have : 0 % (q * 2 ^ 33) = 0 := Nat.zero_mod _
      rw [this, Nat.zero_add]
      unfold subU64 wu64; omega

/-- `vec_znx_dft_negate`: represented by `0 − a`, residues in `(0, Q_SHIFTED]` -/
theorem rep_neg (P : PrimeSet) (k j : Nat) (c : LaneCtx P k j) (hq30 : P.qs.getD k 1 < 2 ^ 30) (v : List Nat) (b : Poly)
    (hv : Rep P k j v b) : Rep P k j (v.map (negBK (P.qs.getD k 1))) (polySub (zeroP (2 ^ j)) b) := by
  have hqg := c.fwd.q_gt
  have := (rep_sub P k j c hq30 _ v _ b (rep_zero P k j c) hv).1
  rw [zipWith_sub_zero _ _ (by omega) hq30 v hv.1] at this
  exact this

/-- **any composition of DFT-domain HAL operations (reference kernels)**: the stored lane represents the specified
polynomial and every stored residue is reachable in the sense of `Reach` -/
theorem dexpr_sound (P : PrimeSet) (k j : Nat) (c : LaneCtx P k j) (f : ReachFacts P k j) (e : DExpr) (hw : e.WF j) :
    Rep P k j (e.lane P k (2 ^ j) false) (e.spec (2 ^ j)) ∧ ∀ x ∈ e.lane P k (2 ^ j) false, Reach P k j false x := by
  have hq30 := f.q_lt
  obtain ⟨hh, hh2⟩ := bbcH_range P
  induction e with
  | zero =>
    refine ⟨rep_zero P k j c, ?_⟩
    intro x hx
    simp only [DExpr.lane, List.mem_replicate] at hx
    rw [hx.2]; exact Reach.zero
  | dft a =>
    obtain ⟨t, ht, ert⟩ := realNtt_len1 P k j c
    simp only [DExpr.lane, DExpr.spec]
    rw [ert]
    refine ⟨rep_dft P k j c t ht a hw.1 hw.2, ?_⟩
    intro x hx
    obtain ⟨_, up⟩ := map_bFrom (P.qs.getD k 1) (by have := c.fwd.q_gt; omega) (by have := c.fwd.q_lt; omega) a hw.2
    exact Reach.dft x (nttK_real_bound P k j c.fwd c.hj1 c.hj t ht _ (by simpa using hw.1) up x hx)
  | svp p e ih =>
    obtain ⟨hr, _⟩ := ih hw.2
    have hp := vmpPrepare_rep P k j c p hw.1.1 hw.1.2
    have := rep_slots P k j (bbcH P) c hh hh2
      [((e.lane P k (2 ^ j) false).map u32Pair, vmpPrepareLaneK (P.qs.getD k 1) (realNtt P (2 ^ j) k) p)]
      [(e.spec (2 ^ j), p)] (by simp) (by simp)
      (by
        intro i hi hi'
        simp only [List.length_singleton] at hi
        have : i = 0 := by omega
        subst this
        exact ⟨lrep_split P k j _ _ hr, hp⟩)
    simp only [DExpr.lane, DExpr.spec, bbcSlotsK_eq]
    exact ⟨this.1, fun x hx => Reach.prod x (this.2 x hx)⟩
  | add x y ihx ihy =>
    obtain ⟨rx, mx⟩ := ihx hw.1
    obtain ⟨ry, my⟩ := ihy hw.2
    simp only [DExpr.lane, DExpr.spec, Bool.false_eq_true, if_false]
    refine ⟨(rep_add P k j c hq30 _ _ _ _ rx ry).1, ?_⟩
    intro z hz
    obtain ⟨a, ha, b, hb, rfl⟩ := mem_zipWith _ _ _ _ hz
    have := Reach.add (avx := false) a b (mx a ha) (my b hb)
    simpa using this
  | sub x y ihx ihy =>
    obtain ⟨rx, mx⟩ := ihx hw.1
    obtain ⟨ry, my⟩ := ihy hw.2
    simp only [DExpr.lane, DExpr.spec, Bool.false_eq_true, if_false]
    refine ⟨(rep_sub P k j c hq30 _ _ _ _ rx ry).1, ?_⟩
    intro z hz
    obtain ⟨a, ha, b, hb, rfl⟩ := mem_zipWith _ _ _ _ hz
    have := Reach.sub (avx := false) a b (mx a ha) (my b hb)
    simpa using this
  | neg x ih =>
    obtain ⟨rx, mx⟩ := ih hw
    simp only [DExpr.lane, DExpr.spec, Bool.false_eq_true, if_false]
    refine ⟨rep_neg P k j c hq30 _ _ rx, ?_⟩
    intro z hz
    simp only [List.mem_map] at hz
    obtain ⟨a, ha, rfl⟩ := hz
    have := Reach.neg (avx := false) a (mx a ha)
    simpa using this

/-- **the AVX2 lazy kernels store the same bits as the reference kernels on every composition** (their single conditional
subtraction is only exact below `2·Q_SHIFTED`; `reach_lt` shows no composition leaves that range) -/
theorem dexpr_avx_eq_ref (P : PrimeSet) (k j : Nat) (c : LaneCtx P k j) (f : ReachFacts P k j) (e : DExpr) (hw : e.WF j) :
    e.lane P k (2 ^ j) true = e.lane P k (2 ^ j) false := by
  have hq0 : 0 < P.qs.getD k 1 := by have := f.q_gt; omega
  induction e with
  | zero => rfl
  | dft a => rfl
  | svp p e ih => simp only [DExpr.lane]; rw [ih hw.2]
  | add x y ihx ihy =>
    simp only [DExpr.lane, if_true, Bool.false_eq_true, if_false]
    rw [ihx hw.1, ihy hw.2]
    apply zipWith_congr_mem
    intro a ha b hb
    exact addBbbAvxK_eq _ a b hq0 f.q_lt (reach_lt P k j false f a ((dexpr_sound P k j c f x hw.1).2 a ha))
      (reach_lt P k j false f b ((dexpr_sound P k j c f y hw.2).2 b hb))
  | sub x y ihx ihy =>
    simp only [DExpr.lane, if_true, Bool.false_eq_true, if_false]
    rw [ihx hw.1, ihy hw.2]
    apply zipWith_congr_mem
    intro a ha b hb
    exact subBbbAvxK_eq _ a b hq0 f.q_lt (reach_lt P k j false f a ((dexpr_sound P k j c f x hw.1).2 a ha))
      (reach_lt P k j false f b ((dexpr_sound P k j c f y hw.2).2 b hb))
  | neg x ih =>
    simp only [DExpr.lane, if_true, Bool.false_eq_true, if_false]
    rw [ih hw]
    apply List.map_congr_left
    intro a ha
    exact negBAvxK_eq _ a hq0 f.q_lt (reach_lt P k j false f a ((dexpr_sound P k j c f x hw).2 a ha))

/-- every residue any composition stores is below `2·Q_SHIFTED[k]` -/
theorem dexpr_range (P : PrimeSet) (k j : Nat) (c : LaneCtx P k j) (f : ReachFacts P k j) (e : DExpr) (hw : e.WF j) (avx : Bool) :
    ∀ x ∈ e.lane P k (2 ^ j) avx, x < 2 * (P.qs.getD k 1 * 2 ^ 33) := by
  intro x hx
  have : x ∈ e.lane P k (2 ^ j) false := by
    cases avx with
    | false => exact hx
    | true => rw [dexpr_avx_eq_ref P k j c f e hw] at hx; exact hx
  exact reach_lt P k j false f x ((dexpr_sound P k j c f e hw).2 x this)

end Ntt120
