import Poulpy.Lemmas.BddSim
/-
Specification automata for the arithmetic word circuits (add/sub: ripple carry, LSB first; slt/sltu: comparison,
MSB first; sll/srl/sra: the five shift bits, then one data bit), their semantic values for an arbitrary assignment
`inp`, the one-step equation required by `BddSim.check_sound`, and the bridge from the value of the root state to the
`BitVec 32` operation.  Kernel-only: core `BitVec` lemmas (`carry_succ`, `getLsbD_add`, …), no `bv_decide`, no Mathlib.
-/

namespace BddSpecs

theorem inp2_lo (a b : BitVec 32) (i : Nat) (hi : i < 32) : inp2 a b i = a.getLsbD i := by simp [inp2, hi]
theorem inp2_hi (a b : BitVec 32) (i : Nat) : inp2 a b (32 + i) = b.getLsbD i := by
  have : ¬ (32 + i < 32) := by omega
  simp [inp2, this]

/-! ### add / sub: `S k c` = about to read `a_k` with carry `c` into position `k`; `T k c x` = `a_k = x` read, about
to read `b_k`.  `neg` complements `b` (subtraction = `a + ~b + 1`). -/

inductive AQ where
  | S (k : Nat) (c : Bool)
  | T (k : Nat) (c x : Bool)
  | L (v : Bool)
deriving DecidableEq

def addSpec (neg : Bool) (i : Nat) : AQ → SNode AQ
  | .S k c => if k ≤ i then .test k (.T k c true) (.T k c false) else .leaf false
  | .T k c x =>
    if k = i then .test (32 + k) (.L (x ^^ ((true ^^ neg) ^^ c))) (.L (x ^^ ((false ^^ neg) ^^ c)))
    else if k < i then .test (32 + k) (.S (k + 1) (Bool.atLeastTwo x (true ^^ neg) c)) (.S (k + 1) (Bool.atLeastTwo x (false ^^ neg) c))
    else .leaf false
  | .L v => .leaf v

/-- bit `k + n` of `x + y + c·2^k` seen from position `k` (`n` positions to go) -/
def addV (x y : Nat → Bool) : Nat → Nat → Bool → Bool
  | 0, k, c => x k ^^ (y k ^^ c)
  | n + 1, k, c => addV x y n (k + 1) (Bool.atLeastTwo (x k) (y k) c)

def addVal (neg : Bool) (i : Nat) (inp : Nat → Bool) : AQ → Bool
  | .S k c => if k ≤ i then addV inp (fun j => inp (32 + j) ^^ neg) (i - k) k c else false
  | .T k c x =>
    if k = i then x ^^ ((inp (32 + k) ^^ neg) ^^ c)
    else if k < i then addV inp (fun j => inp (32 + j) ^^ neg) (i - (k + 1)) (k + 1) (Bool.atLeastTwo x (inp (32 + k) ^^ neg) c)
    else false
  | .L v => v

theorem addVal_eq (neg : Bool) (i : Nat) (inp : Nat → Bool) (q : AQ) :
    addVal neg i inp q = (addSpec neg i q).eval inp (addVal neg i inp) := by
  cases q with
  | L v => rfl
  | S k c =>
    simp only [addSpec]
    by_cases hk : k ≤ i
    · rw [if_pos hk]
      simp only [addVal, if_pos hk, SNode.eval]
      by_cases he : k = i
      · subst he
        simp only [Nat.sub_self, addV, if_true]
        cases inp k <;> rfl
      · have hlt : k < i := by omega
        obtain ⟨n, hn⟩ : ∃ n, i - k = n + 1 := ⟨i - k - 1, by omega⟩
        have hn' : i - (k + 1) = n := by omega
        simp only [if_neg he, if_pos hlt, hn, hn', addV]
        cases inp k <;> rfl
    · rw [if_neg hk]; simp only [addVal, if_neg hk, SNode.eval]
  | T k c x =>
    simp only [addSpec, addVal]
    by_cases he : k = i
    · simp only [if_pos he, SNode.eval, addVal]
      cases inp (32 + k) <;> rfl
    · simp only [if_neg he]
      by_cases hlt : k < i
      · have hle : k + 1 ≤ i := by omega
        simp only [if_pos hlt, if_pos hle, SNode.eval, addVal]
        cases inp (32 + k) <;> rfl
      · simp only [if_neg hlt, SNode.eval]

/-- the value of the root state is the sum bit (ripple carry = `BitVec.carry`) -/
theorem addV_carry (x y : BitVec 32) (c : Bool) (i : Nat) (hi : i < 32) : ∀ (n k : Nat), k + n = i →
    addV (fun j => x.getLsbD j) (fun j => y.getLsbD j) n k (BitVec.carry k x y c) =
      (x + y + BitVec.setWidth 32 (BitVec.ofBool c)).getLsbD i := by
  intro n
  induction n with
  | zero =>
    intro k hk
    have : k = i := by omega
    subst this
    rw [BitVec.getLsbD_add_add_bool hi]; rfl
  | succ n ih =>
    intro k hk
    simp only [addV]
    rw [← BitVec.carry_succ]
    exact ih (k + 1) (by omega)

theorem addV_congr (x y x' y' : Nat → Bool) : ∀ (n k : Nat) (c : Bool), (∀ j, j ≤ k + n → x j = x' j ∧ y j = y' j) →
    addV x y n k c = addV x' y' n k c := by
  intro n
  induction n with
  | zero => intro k c h; simp only [addV, (h k (by omega)).1, (h k (by omega)).2]
  | succ n ih =>
    intro k c h
    simp only [addV, (h k (by omega)).1, (h k (by omega)).2]
    exact ih (k + 1) _ (fun j hj => h j (by omega))

theorem add_root (a b : BitVec 32) (i : Nat) (hi : i < 32) :
    addVal false i (inp2 a b) (.S 0 false) = (a + b).getLsbD i := by
  simp only [addVal, Nat.zero_le, if_true, Nat.sub_zero]
  rw [addV_congr _ _ (fun j => a.getLsbD j) (fun j => b.getLsbD j) i 0 false
    (fun j hj => ⟨inp2_lo a b j (by omega), by rw [inp2_hi]; simp⟩)]
  have := addV_carry a b false i hi i 0 (by omega)
  rw [BitVec.carry_zero] at this
  rw [this]
  simp

theorem sub_root (a b : BitVec 32) (i : Nat) (hi : i < 32) :
    addVal true i (inp2 a b) (.S 0 true) = (a - b).getLsbD i := by
  simp only [addVal, Nat.zero_le, if_true, Nat.sub_zero]
  rw [addV_congr _ _ (fun j => a.getLsbD j) (fun j => (~~~b).getLsbD j) i 0 true
    (fun j hj => ⟨inp2_lo a b j (by omega), by
      rw [inp2_hi, BitVec.getLsbD_not]
      have : j < 32 := by omega
      simp [this]⟩)]
  have := addV_carry a (~~~b) true i hi i 0 (by omega)
  rw [BitVec.carry_zero] at this
  rw [this, BitVec.sub_eq_add_neg, BitVec.neg_eq_not_add, BitVec.add_assoc]
  rfl

/-! ### slt / sltu: `E k` = the bits `≥ k` are equal, about to read `a_{k-1}`; `F k x` = `a_k = x` read, about to read
`b_k`; `Top`, `G` = the sign bits of the signed comparison. -/

inductive CQ where
  | E (k : Nat)
  | F (k : Nat) (x : Bool)
  | G (x : Bool)
  | Top
  | L (v : Bool)
deriving DecidableEq

def cmpSpec : CQ → SNode CQ
  | .E 0 => .leaf false
  | .E (k + 1) => .test k (.F k true) (.F k false)
  | .F k x => .test (32 + k) (if x then (if k = 0 then .L false else .E k) else .L true)
      (if x then .L false else (if k = 0 then .L false else .E k))
  | .Top => .test 31 (.G true) (.G false)
  | .G x => .test 63 (if x then .E 31 else .L false) (if x then .L true else .E 31)
  | .L v => .leaf v

/-- unsigned `<` on the low `k` bits, most significant first -/
def ltLow (x y : Nat → Bool) : Nat → Bool
  | 0 => false
  | k + 1 => if x k = y k then ltLow x y k else y k

def cmpVal (inp : Nat → Bool) : CQ → Bool
  | .E k => ltLow inp (fun j => inp (32 + j)) k
  | .F k x => if x = inp (32 + k) then ltLow inp (fun j => inp (32 + j)) k else inp (32 + k)
  | .G x => if x = inp 63 then ltLow inp (fun j => inp (32 + j)) 31 else x
  | .Top => if inp 31 = inp 63 then ltLow inp (fun j => inp (32 + j)) 31 else inp 31
  | .L v => v

theorem cmpVal_eq (inp : Nat → Bool) (q : CQ) :
    cmpVal inp q = (cmpSpec q).eval inp (cmpVal inp) := by
  cases q with
  | L v => rfl
  | Top => simp only [cmpSpec, cmpVal, SNode.eval]; cases inp 31 <;> simp
  | G x => simp only [cmpSpec, cmpVal, SNode.eval]; cases x <;> cases inp 63 <;> simp
  | E k =>
    cases k with
    | zero => rfl
    | succ k => simp only [cmpSpec, cmpVal, ltLow, SNode.eval]; cases inp k <;> simp
  | F k x =>
    simp only [cmpSpec, SNode.eval]
    cases k with
    | zero => cases x <;> cases h : inp (32 + 0) <;> simp [cmpVal, ltLow, h]
    | succ k => cases x <;> cases h : inp (32 + (k + 1)) <;> simp [cmpVal, h]

theorem ltLow_toNat (a b : BitVec 32) : ∀ k, k ≤ 32 →
    ltLow (fun j => a.getLsbD j) (fun j => b.getLsbD j) k = decide (a.toNat % 2 ^ k < b.toNat % 2 ^ k) := by
  intro k
  induction k with
  | zero => intro _; simp [ltLow, Nat.mod_one]
  | succ k ih =>
    intro hk
    simp only [ltLow]
    rw [ih (by omega), Nat.mod_pow_succ (x := a.toNat), Nat.mod_pow_succ (x := b.toNat)]
    have ha : a.getLsbD k = decide (a.toNat / 2 ^ k % 2 = 1) := by
      rw [BitVec.getLsbD, Nat.testBit_eq_decide_div_mod_eq]
    have hb : b.getLsbD k = decide (b.toNat / 2 ^ k % 2 = 1) := by
      rw [BitVec.getLsbD, Nat.testBit_eq_decide_div_mod_eq]
    rw [ha, hb]
    have hp : a.toNat % 2 ^ k < 2 ^ k := Nat.mod_lt _ (Nat.two_pow_pos k)
    have hq : b.toNat % 2 ^ k < 2 ^ k := Nat.mod_lt _ (Nat.two_pow_pos k)
    rcases Nat.mod_two_eq_zero_or_one (a.toNat / 2 ^ k) with h1 | h1 <;>
      rcases Nat.mod_two_eq_zero_or_one (b.toNat / 2 ^ k) with h2 | h2 <;>
      simp only [h1, h2, Nat.mul_zero, Nat.mul_one, Nat.add_zero] <;> simp <;> omega

theorem ltLow_inp2 (a b : BitVec 32) : ∀ k, k ≤ 32 →
    ltLow (inp2 a b) (fun j => inp2 a b (32 + j)) k = ltLow (fun j => a.getLsbD j) (fun j => b.getLsbD j) k := by
  intro k
  induction k with
  | zero => intro _; rfl
  | succ k ih =>
    intro hk
    simp only [ltLow]
    rw [ih (by omega), inp2_lo a b k (by omega), inp2_hi]

theorem sltu_root (a b : BitVec 32) : cmpVal (inp2 a b) (.E 32) = BitVec.ult a b := by
  simp only [cmpVal]
  rw [ltLow_inp2 a b 32 (Nat.le_refl _), ltLow_toNat a b 32 (Nat.le_refl _)]
  have ha : a.toNat % 2 ^ 32 = a.toNat := Nat.mod_eq_of_lt a.isLt
  have hb : b.toNat % 2 ^ 32 = b.toNat := Nat.mod_eq_of_lt b.isLt
  rw [ha, hb]
  rfl

theorem slt_root (a b : BitVec 32) : cmpVal (inp2 a b) .Top = BitVec.slt a b := by
  have hu := sltu_root a b
  simp only [cmpVal] at hu ⊢
  rw [BitVec.slt_eq_ult, ← hu]
  have h63 : inp2 a b 63 = b.getLsbD 31 := inp2_hi a b 31
  have h63' : inp2 a b (32 + 31) = b.getLsbD 31 := inp2_hi a b 31
  rw [h63, inp2_lo a b 31 (by omega), BitVec.msb_eq_getLsbD_last, BitVec.msb_eq_getLsbD_last]
  simp only [ltLow, h63', inp2_lo a b 31 (by omega)]
  cases a.getLsbD 31 <;> cases b.getLsbD 31 <;> simp

/-! ### shifters: `P k acc` = about to read shift bit `k`, the bits below give `acc`; after the five bits one data
bit (or a constant) is read.  `term acc` = the outcome is already decided (`some none` = constant 0, `some (some j)` =
data bit `j`); `dat acc` = the data bit for shift amount `acc`. -/

inductive SQ where
  | P (k acc : Nat)
  | L (v : Bool)
deriving DecidableEq

def outSpec : Option Nat → SNode SQ
  | none => .leaf false
  | some j => .test j (.L true) (.L false)

def shSpec (term : Nat → Option (Option Nat)) (dat : Nat → Option Nat) : SQ → SNode SQ
  | .P k acc =>
    match term acc with
    | some o => outSpec o
    | none => if 5 ≤ k then outSpec (dat acc) else .test (32 + k) (.P (k + 1) (acc + 2 ^ k)) (.P (k + 1) acc)
  | .L v => .leaf v

def outVal (inp : Nat → Bool) : Option Nat → Bool
  | none => false
  | some j => inp j

def shV (term : Nat → Option (Option Nat)) (dat : Nat → Option Nat) (inp : Nat → Bool) : Nat → Nat → Nat → Bool
  | 0, _, acc => match term acc with
    | some o => outVal inp o
    | none => outVal inp (dat acc)
  | n + 1, k, acc => match term acc with
    | some o => outVal inp o
    | none => if inp (32 + k) then shV term dat inp n (k + 1) (acc + 2 ^ k) else shV term dat inp n (k + 1) acc

def shVal (term : Nat → Option (Option Nat)) (dat : Nat → Option Nat) (inp : Nat → Bool) : SQ → Bool
  | .P k acc => shV term dat inp (5 - k) k acc
  | .L v => v

theorem outVal_eq (inp : Nat → Bool) (term : Nat → Option (Option Nat)) (dat : Nat → Option Nat) (o : Option Nat) :
    outVal inp o = (outSpec o).eval inp (shVal term dat inp) := by
  cases o with
  | none => rfl
  | some j => simp only [outVal, outSpec, shVal, SNode.eval]; cases inp j <;> rfl

theorem shVal_eq (term : Nat → Option (Option Nat)) (dat : Nat → Option Nat) (inp : Nat → Bool) (q : SQ) :
    shVal term dat inp q = (shSpec term dat q).eval inp (shVal term dat inp) := by
  cases q with
  | L v => rfl
  | P k acc =>
    have hP : ∀ k' acc', shVal term dat inp (.P k' acc') = shV term dat inp (5 - k') k' acc' := fun _ _ => rfl
    rw [hP]
    simp only [shSpec]
    cases ht : term acc with
    | some o =>
      simp only
      rw [← outVal_eq inp term dat o]
      cases h5 : 5 - k <;> simp [shV, ht]
    | none =>
      simp only
      by_cases hk : 5 ≤ k
      · rw [if_pos hk, ← outVal_eq inp term dat]
        have : 5 - k = 0 := by omega
        simp [this, shV, ht]
      · rw [if_neg hk]
        obtain ⟨n, hn⟩ : ∃ n, 5 - k = n + 1 := ⟨5 - k - 1, by omega⟩
        have hn' : 5 - (k + 1) = n := by omega
        simp only [hP, hn, hn', shV, ht, SNode.eval]

/-- the value of the root state, for the shift amount `s < 32` spelled by the five shift bits -/
theorem shV_root (term : Nat → Option (Option Nat)) (dat : Nat → Option Nat) (inp : Nat → Bool) (s : Nat) (fin : Bool)
    (hbits : ∀ j, j < 5 → inp (32 + j) = s.testBit j) (hs : s < 32)
    (hterm : ∀ acc o, acc ≤ s → term acc = some o → outVal inp o = fin)
    (hdat : term s = none → outVal inp (dat s) = fin) :
    ∀ (n k : Nat), k + n = 5 → shV term dat inp n k (s % 2 ^ k) = fin := by
  intro n
  induction n with
  | zero =>
    intro k hk
    have : k = 5 := by omega
    subst this
    have hs' : s % 2 ^ 5 = s := Nat.mod_eq_of_lt (by omega)
    rw [hs']
    simp only [shV]
    cases ht : term s with
    | some o => exact hterm s o (Nat.le_refl _) ht
    | none => exact hdat ht
  | succ n ih =>
    intro k hk
    simp only [shV]
    cases ht : term (s % 2 ^ k) with
    | some o => exact hterm _ o (Nat.mod_le _ _) ht
    | none =>
      simp only
      have hm : s % 2 ^ (k + 1) = s % 2 ^ k + 2 ^ k * (s / 2 ^ k % 2) := Nat.mod_pow_succ
      have hb := hbits k (by omega)
      rw [Nat.testBit_eq_decide_div_mod_eq] at hb
      rcases Nat.mod_two_eq_zero_or_one (s / 2 ^ k) with h | h
      · have : inp (32 + k) = false := by rw [hb, h]; rfl
        rw [this]
        have := ih (k + 1) (by omega)
        rw [hm, h, Nat.mul_zero, Nat.add_zero] at this
        simpa using this
      · have : inp (32 + k) = true := by rw [hb, h]; rfl
        rw [this]
        have := ih (k + 1) (by omega)
        rw [hm, h, Nat.mul_one] at this
        simpa using this

/-- the shift amount: the low five bits of `b` -/
theorem shamt (b : BitVec 32) : (b &&& 31#32).toNat = b.toNat % 32 ∧ b.toNat % 32 < 32 ∧
    ∀ j, j < 5 → b.getLsbD j = (b.toNat % 32).testBit j := by
  refine ⟨?_, Nat.mod_lt _ (by omega), ?_⟩
  · rw [BitVec.toNat_and]
    show b.toNat &&& (2 ^ 5 - 1) = b.toNat % 2 ^ 5
    exact Nat.and_two_pow_sub_one_eq_mod _ 5
  · intro j hj
    show b.getLsbD j = (b.toNat % 2 ^ 5).testBit j
    rw [Nat.testBit_mod_two_pow]
    simp [hj, BitVec.getLsbD]

def sllTerm (i : Nat) (acc : Nat) : Option (Option Nat) := if i < acc then some none else none
def sllDat (i : Nat) (acc : Nat) : Option Nat := some (i - acc)
def srlTerm (i : Nat) (acc : Nat) : Option (Option Nat) := if 32 ≤ i + acc then some none else none
def srDat (i : Nat) (acc : Nat) : Option Nat := some (i + acc)
def sraTerm (i : Nat) (acc : Nat) : Option (Option Nat) := if 31 ≤ i + acc then some (some 31) else none

theorem sll_root (a b : BitVec 32) (i : Nat) (hi : i < 32) :
    shVal (sllTerm i) (sllDat i) (inp2 a b) (.P 0 0) = (a <<< (b &&& 31#32)).getLsbD i := by
  obtain ⟨hand, hlt, hbit⟩ := shamt b
  have := shV_root (sllTerm i) (sllDat i) (inp2 a b) (b.toNat % 32) ((a <<< (b &&& 31#32)).getLsbD i)
    (fun j hj => by rw [inp2_hi, hbit j hj]) hlt
    (by
      intro acc o hacc ht
      unfold sllTerm at ht
      split at ht
      · cases ht
        rw [BitVec.getLsbD_shiftLeft', hand]
        have : i < b.toNat % 32 := by omega
        simp [outVal, this]
      · cases ht)
    (by
      intro _
      simp only [sllDat, outVal]
      rw [BitVec.getLsbD_shiftLeft', hand, inp2_lo a b _ (by omega)]
      by_cases h : i < b.toNat % 32
      · have h0 : i - b.toNat % 32 = 0 := by omega
        -- dead case: term would have fired
        simp [hi, h]
        rw [h0]
        -- `term s = none` excludes this case
        rename_i hn
        unfold sllTerm at hn
        rw [if_pos h] at hn
        cases hn
      · simp [hi, h])
    5 0 (by omega)
  simp only [Nat.pow_zero, Nat.mod_one] at this
  exact this

theorem srl_root (a b : BitVec 32) (i : Nat) (_hi : i < 32) :
    shVal (srlTerm i) (srDat i) (inp2 a b) (.P 0 0) = (a >>> (b &&& 31#32)).getLsbD i := by
  obtain ⟨hand, hlt, hbit⟩ := shamt b
  have htarget : (a >>> (b &&& 31#32)).getLsbD i = a.getLsbD (b.toNat % 32 + i) := by
    rw [BitVec.ushiftRight_eq', BitVec.getLsbD_ushiftRight, hand]
  have := shV_root (srlTerm i) (srDat i) (inp2 a b) (b.toNat % 32) ((a >>> (b &&& 31#32)).getLsbD i)
    (fun j hj => by rw [inp2_hi, hbit j hj]) hlt
    (by
      intro acc o hacc ht
      unfold srlTerm at ht
      split at ht
      · cases ht
        rw [htarget, BitVec.getLsbD_of_ge _ _ (by omega)]
        rfl
      · cases ht)
    (by
      intro hn
      unfold srlTerm at hn
      split at hn
      · cases hn
      · simp only [srDat, outVal]
        rw [htarget, inp2_lo a b _ (by omega), Nat.add_comm])
    5 0 (by omega)
  simp only [Nat.pow_zero, Nat.mod_one] at this
  exact this

theorem sra_root (a b : BitVec 32) (i : Nat) (hi : i < 32) :
    shVal (sraTerm i) (srDat i) (inp2 a b) (.P 0 0) = (BitVec.sshiftRight' a (b &&& 31#32)).getLsbD i := by
  obtain ⟨hand, hlt, hbit⟩ := shamt b
  have htarget : (BitVec.sshiftRight' a (b &&& 31#32)).getLsbD i =
      if b.toNat % 32 + i < 32 then a.getLsbD (b.toNat % 32 + i) else a.getLsbD 31 := by
    rw [BitVec.getLsbD_sshiftRight', hand, BitVec.msb_eq_getLsbD_last]
    have : ¬ (32 ≤ i) := by omega
    simp [this]
  have := shV_root (sraTerm i) (srDat i) (inp2 a b) (b.toNat % 32) ((BitVec.sshiftRight' a (b &&& 31#32)).getLsbD i)
    (fun j hj => by rw [inp2_hi, hbit j hj]) hlt
    (by
      intro acc o hacc ht
      unfold sraTerm at ht
      split at ht
      · cases ht
        rw [htarget]
        simp only [outVal]
        rw [inp2_lo a b 31 (by omega)]
        by_cases h : b.toNat % 32 + i < 32
        · have : b.toNat % 32 + i = 31 := by omega
          rw [if_pos h, this]
        · rw [if_neg h]
      · cases ht)
    (by
      intro hn
      unfold sraTerm at hn
      split at hn
      · cases hn
      · simp only [srDat, outVal]
        rw [htarget, if_pos (by omega), inp2_lo a b _ (by omega), Nat.add_comm])
    5 0 (by omega)
  simp only [Nat.pow_zero, Nat.mod_one] at this
  exact this

end BddSpecs
