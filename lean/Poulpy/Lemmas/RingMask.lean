import Poulpy.Model.Ring
import Mathlib.Tactic.Ring
import Mathlib.Tactic.Linarith

/-!
The index masks of the Rust (`p & (2n-1)` on an `i64`, `mp_2n & (n-1)` on a `usize`,
`g_exp & (cyclotomic_order-1)` on a `u64`) are what the model writes as `%`: proved here on the
two's-complement representation, so the model's `%` is a theorem about the machine operation and
not only a convention tied by the harness.
-/

/-- `usize` / `u64` masks: `x & (2^k - 1) = x % 2^k` -/
theorem mask_nat (x k : Nat) : x &&& (2 ^ k - 1) = x % 2 ^ k := Nat.and_two_pow_sub_one_eq_mod x k

/-- the mask constant `2·n as i64 - 1` for `2n = 2^k`, `k ≤ 63`, as a 64-bit pattern -/
theorem maskConst_toNat (k : Nat) (hk : k ≤ 63) : (BitVec.ofNat 64 (2 ^ k) - 1#64).toNat = 2 ^ k - 1 := by
  have h1 : (2 : Nat) ^ k < 2 ^ 64 := Nat.pow_lt_pow_right (by norm_num) (by omega)
  have h0 : 0 < (2 : Nat) ^ k := by positivity
  rw [BitVec.toNat_sub]
  simp only [BitVec.toNat_ofNat]
  rw [Nat.mod_eq_of_lt h1]
  have : (2 ^ 64 - 1 % 2 ^ 64 + 2 ^ k) = (2 ^ k - 1) + 2 ^ 64 := by norm_num; omega
  rw [this, Nat.add_mod_right, Nat.mod_eq_of_lt (by omega)]

/-- **`(p & (2n-1)) as usize = p mod 2n`** for an `i64` `p` (two's complement, negative `p` included) and
`2n = 2^k`, `k ≤ 63`: the machine mask is the mathematical (non-negative) remainder of the signed value. -/
theorem mask_i64 (p : BitVec 64) (k : Nat) (hk : k ≤ 63) :
    ((p &&& (BitVec.ofNat 64 (2 ^ k) - 1#64)).toNat : Int) = p.toInt % (2 ^ k : Int) := by
  rw [BitVec.toNat_and, maskConst_toNat k hk, mask_nat]
  have hd : ((2 : Int) ^ k) ∣ 2 ^ 64 := pow_dvd_pow 2 (by omega)
  have e : p.toInt = (p.toNat : Int) - (if 2 * p.toNat < 2 ^ 64 then 0 else 2 ^ 64) := by
    rw [BitVec.toInt_eq_toNat_cond]; split <;> simp
  rw [e]
  push_cast
  split
  · simp
  · obtain ⟨c, hc⟩ := hd
    have hc' : (18446744073709551616 : Int) = 2 ^ k * c := by rw [← hc]; norm_num
    rw [hc', show (p.toNat : Int) - 2 ^ k * c = (p.toNat : Int) + 2 ^ k * (-c) by ring, Int.add_mul_emod_self_left]

/-- the form used by the model: `mp_2n` of `znx_rotate` / `p_2n` of `znx_automorphism_ref` for degree `n = 2^j` -/
theorem mask_i64_model (p : BitVec 64) (j : Nat) (hj : j ≤ 62) :
    (p &&& (BitVec.ofNat 64 (2 * 2 ^ j) - 1#64)).toNat = (p.toInt % (2 * ((2 ^ j : Nat) : Int))).toNat := by
  have h := mask_i64 p (j + 1) (by omega)
  have e1 : (2 : Nat) * 2 ^ j = 2 ^ (j + 1) := by rw [pow_succ]; ring
  have e2 : (2 : Int) * ((2 ^ j : Nat) : Int) = 2 ^ (j + 1) := by push_cast; rw [pow_succ]; ring
  rw [e1, e2, ← h]; simp

example : ((BitVec.ofInt 64 (-3)) &&& (BitVec.ofNat 64 8 - 1#64)).toNat = 5 := by decide
