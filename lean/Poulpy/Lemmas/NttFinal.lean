import Poulpy.Lemmas.NttTable
import Poulpy.Lemmas.Ntt120Top

/-!
NTT120 end to end: the executable transforms `nttK` / `inttK` on the tables `nttTableK` /
`inttTableK` (the model of `ntt_ref` / `intt_ref` with `NttTable::new` / `NttTableInv::new`, tied
bit for bit to the Rust) are, modulo each prime, the mathematical transform `nttM` — evaluation at
the odd powers of the `2n`-th root `ω = OMEGA^(2^16/n)` — and its inverse, for every `n = 2^j`,
`1 ≤ j ≤ 16`, on arbitrary `u64` inputs, without any 64-bit wrap.  Hence the product pipeline
`b_from_znx64 → ntt → c_from_b → bbc → intt → b_to_znx128` returns the exact negacyclic product
(and exact sums of products) whenever the result fits `(Q−1)/2` — no hypothesis on the transform left.
-/

namespace Ntt120
open NttMath

/-! ### the closed facts for Primes30 and Primes31 -/

theorem reducOK_of (P : PrimeSet) (k : Nat)
    (h : (reducOf P k).1.h < 64 ∧ 33 ≤ (reducOf P k).1.h ∧ (reducOf P k).1.mask = 2 ^ (reducOf P k).1.h - 1 ∧
      (reducOf P k).1.cst < 2 ^ 31 ∧ (reducOf P k).1.cst ≡ 2 ^ (reducOf P k).1.h [MOD P.qs.getD k 1]) :
    ReducOK (P.qs.getD k 1) (reducOf P k).1 := ⟨h.1, h.2.1, h.2.2.1, h.2.2.2.1, h.2.2.2.2⟩

theorem laneFwd_of (P : PrimeSet) (k : Nat)
    (h1 : 2 ^ 17 < P.qs.getD k 1 ∧ P.qs.getD k 1 < 2 ^ 31 ∧ P.omega.getD k 0 < P.qs.getD k 1 ∧
      (P.omega.getD k 0) ^ 2 ^ 16 % P.qs.getD k 1 = P.qs.getD k 1 - 1)
    (h2 : (reducOf P k).1.h < 64 ∧ 33 ≤ (reducOf P k).1.h ∧ (reducOf P k).1.mask = 2 ^ (reducOf P k).1.h - 1 ∧
      (reducOf P k).1.cst < 2 ^ 31 ∧ (reducOf P k).1.cst ≡ 2 ^ (reducOf P k).1.h [MOD P.qs.getD k 1])
    (h3 : ∀ j, j < 17 → (1 ≤ j → fwdCheck P k j = true)) : LaneFwd P k :=
  ⟨h1.1, h1.2.1, h1.2.2.1, h1.2.2.2, reducOK_of P k h2, fun j hj1 hj => h3 j (by omega) hj1⟩

theorem laneInv_of (P : PrimeSet) (k : Nat)
    (h1 : (P.qs.getD k 1 - 1) % 2 ^ 17 = 0 ∧ pow2Mod (P.qs.getD k 1 - 1) (P.qs.getD k 1) = 1)
    (h3 : ∀ j, j < 17 → (1 ≤ j → invCheck P k j = true)) : LaneInv P k :=
  ⟨h1.1, h1.2, fun j hj1 hj => h3 j (by omega) hj1⟩

/-- every numeric fact the transform proofs need, for the four lanes of a prime set -/
def PrimeSet.NttGood (P : PrimeSet) : Prop := ∀ k, k < 4 → LaneFwd P k ∧ LaneInv P k

theorem primes30_nttGood : primes30.NttGood := by
  have a : ∀ k, k < 4 → (2 ^ 17 < primes30.qs.getD k 1 ∧ primes30.qs.getD k 1 < 2 ^ 31 ∧ primes30.omega.getD k 0 < primes30.qs.getD k 1 ∧
      (primes30.omega.getD k 0) ^ 2 ^ 16 % primes30.qs.getD k 1 = primes30.qs.getD k 1 - 1) := by decide +kernel
  have b : ∀ k, k < 4 → ((reducOf primes30 k).1.h < 64 ∧ 33 ≤ (reducOf primes30 k).1.h ∧ (reducOf primes30 k).1.mask = 2 ^ (reducOf primes30 k).1.h - 1 ∧
      (reducOf primes30 k).1.cst < 2 ^ 31 ∧ (reducOf primes30 k).1.cst ≡ 2 ^ (reducOf primes30 k).1.h [MOD primes30.qs.getD k 1]) := by decide +kernel
  have c : ∀ k, k < 4 → ∀ j, j < 17 → (1 ≤ j → fwdCheck primes30 k j = true) := by decide +kernel
  have d : ∀ k, k < 4 → ((primes30.qs.getD k 1 - 1) % 2 ^ 17 = 0 ∧ pow2Mod (primes30.qs.getD k 1 - 1) (primes30.qs.getD k 1) = 1) := by decide +kernel
  have e : ∀ k, k < 4 → ∀ j, j < 17 → (1 ≤ j → invCheck primes30 k j = true) := by decide +kernel
  intro k hk
  exact ⟨laneFwd_of _ k (a k hk) (b k hk) (c k hk), laneInv_of _ k (d k hk) (e k hk)⟩

theorem primes31_nttGood : primes31.NttGood := by
  have a : ∀ k, k < 4 → (2 ^ 17 < primes31.qs.getD k 1 ∧ primes31.qs.getD k 1 < 2 ^ 31 ∧ primes31.omega.getD k 0 < primes31.qs.getD k 1 ∧
      (primes31.omega.getD k 0) ^ 2 ^ 16 % primes31.qs.getD k 1 = primes31.qs.getD k 1 - 1) := by decide +kernel
  have b : ∀ k, k < 4 → ((reducOf primes31 k).1.h < 64 ∧ 33 ≤ (reducOf primes31 k).1.h ∧ (reducOf primes31 k).1.mask = 2 ^ (reducOf primes31 k).1.h - 1 ∧
      (reducOf primes31 k).1.cst < 2 ^ 31 ∧ (reducOf primes31 k).1.cst ≡ 2 ^ (reducOf primes31 k).1.h [MOD primes31.qs.getD k 1]) := by decide +kernel
  have c : ∀ k, k < 4 → ∀ j, j < 17 → (1 ≤ j → fwdCheck primes31 k j = true) := by decide +kernel
  have d : ∀ k, k < 4 → ((primes31.qs.getD k 1 - 1) % 2 ^ 17 = 0 ∧ pow2Mod (primes31.qs.getD k 1 - 1) (primes31.qs.getD k 1) = 1) := by decide +kernel
  have e : ∀ k, k < 4 → ∀ j, j < 17 → (1 ≤ j → invCheck primes31 k j = true) := by decide +kernel
  intro k hk
  exact ⟨laneFwd_of _ k (a k hk) (b k hk) (c k hk), laneInv_of _ k (d k hk) (e k hk)⟩

end Ntt120
