import Poulpy.Lemmas.NttTable
import Poulpy.Lemmas.Ntt120Top

/-!
NTT120 end to end: the executable transforms `nttK` / `inttK` on the tables `nttTableK` /
`inttTableK` (the model of `ntt_ref` / `intt_ref` with `NttTable::new` / `NttTableInv::new`, tied
bit for bit to the Rust) are, modulo each prime, the mathematical transform `nttM` — evaluation at
the odd powers of the `2n`-th root `ω = OMEGA^(2^16/n)` — and its inverse, for every `n = 2^j`,
`1 ≤ j ≤ 16`, on arbitrary `u64` inputs, without any 64-bit wrap.  Hence the product pipeline
`b_from_znx64 → ntt → c_from_b → bbc → intt → b_to_znx128` returns the exact negacyclic product
(and exact sums of products) whenever the result fits `(Q−1)/2` — no hypothesis on the transform left.
-/

namespace Ntt120
open NttMath

/-! ### the closed facts for Primes30 and Primes31 -/

theorem reducOK_of (P : PrimeSet) (k : Nat)
    (h : (reducOf P k).1.h < 64 ∧ 33 ≤ (reducOf P k).1.h ∧ (reducOf P k).1.mask = 2 ^ (reducOf P k).1.h - 1 ∧
      (reducOf P k).1.cst < 2 ^ 31 ∧ (reducOf P k).1.cst ≡ 2 ^ (reducOf P k).1.h [MOD P.qs.getD k 1]) :
    ReducOK (P.qs.getD k 1) (reducOf P k).1 := ⟨h.1, h.2.1, h.2.2.1, h.2.2.2.1, h.2.2.2.2⟩

theorem laneFwd_of (P : PrimeSet) (k : Nat)
    (h1 : 2 ^ 17 < P.qs.getD k 1 ∧ P.qs.getD k 1 < 2 ^ 31 ∧ P.omega.getD k 0 < P.qs.getD k 1 ∧
      (P.omega.getD k 0) ^ 2 ^ 16 % P.qs.getD k 1 = P.qs.getD k 1 - 1)
    (h2 : (reducOf P k).1.h < 64 ∧ 33 ≤ (reducOf P k).1.h ∧ (reducOf P k).1.mask = 2 ^ (reducOf P k).1.h - 1 ∧
      (reducOf P k).1.cst < 2 ^ 31 ∧ (reducOf P k).1.cst ≡ 2 ^ (reducOf P k).1.h [MOD P.qs.getD k 1])
    (h3 : ∀ j, j < 17 → (1 ≤ j → fwdCheck P k j = true)) : LaneFwd P k :=
  ⟨h1.1, h1.2.1, h1.2.2.1, h1.2.2.2, reducOK_of P k h2, fun j hj1 hj => h3 j (by omega) hj1⟩

theorem laneInv_of (P : PrimeSet) (k : Nat)
    (h1 : (P.qs.getD k 1 - 1) % 2 ^ 17 = 0 ∧ pow2Mod (P.qs.getD k 1 - 1) (P.qs.getD k 1) = 1)
    (h3 : ∀ j, j < 17 → (1 ≤ j → invCheck P k j = true)) : LaneInv P k :=
  ⟨h1.1, h1.2, fun j hj1 hj => h3 j (by omega) hj1⟩

/-- every numeric fact the transform proofs need, for the four lanes of a prime set -/
def PrimeSet.NttGood (P : PrimeSet) : Prop := ∀ k, k < 4 → LaneFwd P k ∧ LaneInv P k

theorem primes30_nttGood : primes30.NttGood := by
  have a : ∀ k, k < 4 → (2 ^ 17 < primes30.qs.getD k 1 ∧ primes30.qs.getD k 1 < 2 ^ 31 ∧ primes30.omega.getD k 0 < primes30.qs.getD k 1 ∧
      (primes30.omega.getD k 0) ^ 2 ^ 16 % primes30.qs.getD k 1 = primes30.qs.getD k 1 - 1) := by decide +kernel
  have b : ∀ k, k < 4 → ((reducOf primes30 k).1.h < 64 ∧ 33 ≤ (reducOf primes30 k).1.h ∧ (reducOf primes30 k).1.mask = 2 ^ (reducOf primes30 k).1.h - 1 ∧
      (reducOf primes30 k).1.cst < 2 ^ 31 ∧ (reducOf primes30 k).1.cst ≡ 2 ^ (reducOf primes30 k).1.h [MOD primes30.qs.getD k 1]) := by decide +kernel
  have c : ∀ k, k < 4 → ∀ j, j < 17 → (1 ≤ j → fwdCheck primes30 k j = true) := by decide +kernel
  have d : ∀ k, k < 4 → ((primes30.qs.getD k 1 - 1) % 2 ^ 17 = 0 ∧ pow2Mod (primes30.qs.getD k 1 - 1) (primes30.qs.getD k 1) = 1) := by decide +kernel
  have e : ∀ k, k < 4 → ∀ j, j < 17 → (1 ≤ j → invCheck primes30 k j = true) := by decide +kernel
  intro k hk
  exact ⟨laneFwd_of _ k (a k hk) (b k hk) (c k hk), laneInv_of _ k (d k hk) (e k hk)⟩

theorem primes31_nttGood : primes31.NttGood := by
  have a : ∀ k, k < 4 → (2 ^ 17 < primes31.qs.getD k 1 ∧ primes31.qs.getD k 1 < 2 ^ 31 ∧ primes31.omega.getD k 0 < primes31.qs.getD k 1 ∧
      (primes31.omega.getD k 0) ^ 2 ^ 16 % primes31.qs.getD k 1 = primes31.qs.getD k 1 - 1) := by decide +kernel
  have b : ∀ k, k < 4 → ((reducOf primes31 k).1.h < 64 ∧ 33 ≤ (reducOf primes31 k).1.h ∧ (reducOf primes31 k).1.mask = 2 ^ (reducOf primes31 k).1.h - 1 ∧
      (reducOf primes31 k).1.cst < 2 ^ 31 ∧ (reducOf primes31 k).1.cst ≡ 2 ^ (reducOf primes31 k).1.h [MOD primes31.qs.getD k 1]) := by decide +kernel
  have c : ∀ k, k < 4 → ∀ j, j < 17 → (1 ≤ j → fwdCheck primes31 k j = true) := by decide +kernel
  have d : ∀ k, k < 4 → ((primes31.qs.getD k 1 - 1) % 2 ^ 17 = 0 ∧ pow2Mod (primes31.qs.getD k 1 - 1) (primes31.qs.getD k 1) = 1) := by decide +kernel
  have e : ∀ k, k < 4 → ∀ j, j < 17 → (1 ≤ j → invCheck primes31 k j = true) := by decide +kernel
  intro k hk
  exact ⟨laneFwd_of _ k (a k hk) (b k hk) (c k hk), laneInv_of _ k (d k hk) (e k hk)⟩

theorem primes29_nttGood : primes29.NttGood := by
  have a : ∀ k, k < 4 → (2 ^ 17 < primes29.qs.getD k 1 ∧ primes29.qs.getD k 1 < 2 ^ 31 ∧ primes29.omega.getD k 0 < primes29.qs.getD k 1 ∧
      (primes29.omega.getD k 0) ^ 2 ^ 16 % primes29.qs.getD k 1 = primes29.qs.getD k 1 - 1) := by decide +kernel
  have b : ∀ k, k < 4 → ((reducOf primes29 k).1.h < 64 ∧ 33 ≤ (reducOf primes29 k).1.h ∧ (reducOf primes29 k).1.mask = 2 ^ (reducOf primes29 k).1.h - 1 ∧
      (reducOf primes29 k).1.cst < 2 ^ 31 ∧ (reducOf primes29 k).1.cst ≡ 2 ^ (reducOf primes29 k).1.h [MOD primes29.qs.getD k 1]) := by decide +kernel
  have c : ∀ k, k < 4 → ∀ j, j < 17 → (1 ≤ j → fwdCheck primes29 k j = true) := by decide +kernel
  have d : ∀ k, k < 4 → ((primes29.qs.getD k 1 - 1) % 2 ^ 17 = 0 ∧ pow2Mod (primes29.qs.getD k 1 - 1) (primes29.qs.getD k 1) = 1) := by decide +kernel
  have e : ∀ k, k < 4 → ∀ j, j < 17 → (1 ≤ j → invCheck primes29 k j = true) := by decide +kernel
  intro k hk
  exact ⟨laneFwd_of _ k (a k hk) (b k hk) (c k hk), laneInv_of _ k (d k hk) (e k hk)⟩

/-! ### every output of the executable networks is a `u64` -/

theorem wu64_le (x : Nat) : wu64 x ≤ 2 ^ 64 - 1 := by
  have := Nat.mod_lt x (by decide : 0 < 2 ^ 64); unfold wu64; omega
theorem subU64_le (a b : Nat) : subU64 a b ≤ 2 ^ 64 - 1 := by
  have := Nat.mod_lt (a + (2 ^ 64 - b % 2 ^ 64)) (by decide : 0 < 2 ^ 64); unfold subU64; omega
theorem spm_le (x po hb mask : Nat) : splitPrecompmul x po hb mask ≤ 2 ^ 64 - 1 := by
  unfold splitPrecompmul; exact wu64_le _

theorem fwdTail_u64 (r : ReducK) (m : StepMeta) : ∀ (tw lo hi : List Nat),
    AllLe (2 ^ 64 - 1) (fwdTail r m tw lo hi).1 ∧ AllLe (2 ^ 64 - 1) (fwdTail r m tw lo hi).2 := by
  intro tw
  induction tw with
  | nil => intro lo hi; simp [fwdTail, AllLe]
  | cons po tw ih =>
    intro lo hi
    match lo, hi with
    | [], _ => simp [fwdTail, AllLe]
    | _ :: _, [] => simp [fwdTail, AllLe]
    | a :: lo', b :: hi' =>
      obtain ⟨i1, i2⟩ := ih lo' hi'
      simp only [fwdTail]
      refine ⟨?_, ?_⟩
      · intro x hx
        rcases List.mem_cons.mp hx with rfl | hx
        · exact wu64_le _
        · exact i1 x hx
      · intro x hx
        rcases List.mem_cons.mp hx with rfl | hx
        · exact spm_le _ _ _ _
        · exact i2 x hx

theorem fwdBfly_u64 (r : ReducK) (m : StepMeta) (tw lo hi : List Nat) :
    AllLe (2 ^ 64 - 1) (fwdBfly r m tw lo hi).1 ∧ AllLe (2 ^ 64 - 1) (fwdBfly r m tw lo hi).2 := by
  match lo, hi with
  | [], _ => simp [fwdBfly, AllLe]
  | _ :: _, [] => simp [fwdBfly, AllLe]
  | a :: lo', b :: hi' =>
    obtain ⟨i1, i2⟩ := fwdTail_u64 r m tw lo' hi'
    simp only [fwdBfly]
    refine ⟨?_, ?_⟩
    · intro x hx
      rcases List.mem_cons.mp hx with rfl | hx
      · exact wu64_le _
      · exact i1 x hx
    · intro x hx
      rcases List.mem_cons.mp hx with rfl | hx
      · exact subU64_le _ _
      · exact i2 x hx

theorem nttLevels_u64 (r : ReducK) : ∀ (levels : List Level) (v : List Nat), AllLe (2 ^ 64 - 1) v →
    AllLe (2 ^ 64 - 1) (nttLevels r levels v) := by
  intro levels
  induction levels with
  | nil => intro v hv; simpa [nttLevels] using hv
  | cons l rest ih =>
    intro v _
    obtain ⟨m, tw⟩ := l
    obtain ⟨b1, b2⟩ := fwdBfly_u64 r m tw (v.take (v.length / 2)) (v.drop (v.length / 2))
    simp only [nttLevels]
    exact (ih _ b1).append (ih _ b2)

theorem zipWith_spm_u64 (f : Nat → Nat) (hb mask : Nat) (v tw : List Nat) :
    AllLe (2 ^ 64 - 1) (List.zipWith (fun x po => splitPrecompmul (f x) po hb mask) v tw) := by
  intro x hx
  rw [List.mem_iff_getElem] at hx
  obtain ⟨i, hi, rfl⟩ := hx
  rw [List.getElem_zipWith]
  exact spm_le _ _ _ _

theorem nttK_u64 (t : TableK) (v : List Nat) (hv : AllLe (2 ^ 64 - 1) v) : AllLe (2 ^ 64 - 1) (nttK t v) := by
  unfold nttK
  split
  · exact hv
  · exact nttLevels_u64 _ _ _ (zipWith_spm_u64 id _ _ _ _)

/-! ### the real transforms, one lane -/

/-- **forward transform, one lane**: for the table of size `2^j` of prime `k`, on any `u64` vector,
`ntt_ref` is, modulo the prime, the evaluation transform `nttM` at `ω = OMEGA^(2^16/n)` -/
theorem nttK_real (P : PrimeSet) (k j : Nat) (g : LaneFwd P k) (hj1 : 1 ≤ j) (hj : j ≤ 16) (t : TableK)
    (ht : nttTableK P k (2 ^ j) = .ok t) (v : List Nat) (hv : v.length = 2 ^ j) (hu : AllLe (2 ^ 64 - 1) v) :
    (nttK t v).map (cz (P.qs.getD k 1)) = nttM (omegaZ P k j) j (v.map (cz (P.qs.getD k 1))) ∧
    (nttK t v).length = 2 ^ j ∧ AllLe (2 ^ 64 - 1) (nttK t v) := by
  obtain ⟨ok, hl⟩ := nttTableK_spec P k j g hj1 hj t ht
  have hk : t.levels.length - 1 = j := by omega
  obtain ⟨e, n⟩ := nttK_spec t (omegaZ P k j) ok v (by rw [hk]; exact hv) hu
  rw [hk] at e
  exact ⟨e, by rw [n, hv], nttK_u64 t v hu⟩

/-- **inverse transform, one lane** -/
theorem inttK_real (P : PrimeSet) (k j : Nat) (g : LaneFwd P k) (gi : LaneInv P k) (hj1 : 1 ≤ j) (hj : j ≤ 16) (t : TableK)
    (ht : inttTableK P k (2 ^ j) = .ok t) (v : List Nat) (hv : v.length = 2 ^ j) (hu : AllLe (2 ^ 64 - 1) v) :
    (inttK t v).map (cz (P.qs.getD k 1)) = inttM (omegaInvZ P k j) (nInvZ P k j) j (v.map (cz (P.qs.getD k 1))) ∧
    (inttK t v).length = 2 ^ j := by
  obtain ⟨ok, hl⟩ := inttTableK_spec P k j g gi hj1 hj t ht
  have hk : t.levels.length - 1 = j := by omega
  obtain ⟨e, n⟩ := inttK_spec t (omegaInvZ P k j) (nInvZ P k j) ok v (by rw [hk]; exact hv) hu
  rw [hk] at e
  exact ⟨e, by rw [n, hv]⟩

/-- **(b) `intt_ref ∘ ntt_ref ≡ id` modulo the prime**, for every `u64` vector of length `2^j` -/
theorem intt_ntt_real (P : PrimeSet) (k j : Nat) (g : LaneFwd P k) (gi : LaneInv P k) (hj1 : 1 ≤ j) (hj : j ≤ 16) (t ti : TableK)
    (ht : nttTableK P k (2 ^ j) = .ok t) (hti : inttTableK P k (2 ^ j) = .ok ti)
    (v : List Nat) (hv : v.length = 2 ^ j) (hu : AllLe (2 ^ 64 - 1) v) :
    (inttK ti (nttK t v)).map (cz (P.qs.getD k 1)) = v.map (cz (P.qs.getD k 1)) := by
  obtain ⟨e1, n1, u1⟩ := nttK_real P k j g hj1 hj t ht v hv hu
  obtain ⟨e2, _⟩ := inttK_real P k j g gi hj1 hj ti hti _ n1 u1
  rw [e2, e1]
  exact inttM_nttM _ _ _ j (omegaInv_spec P k j g gi hj).1 (nInv_spec P k j g gi hj).1 _ (by simpa using hv)

/-! ### the integer negacyclic product read modulo `q` -/

/-- residue class of an integer coefficient -/
abbrev ci (q : Nat) (x : Int) : ZMod q := (x : ZMod q)

theorem map_polyAdd (q : Nat) (a b : Poly) : (Hal.polyAdd a b).map (ci q) = addL (a.map (ci q)) (b.map (ci q)) := by
  unfold Hal.polyAdd addL
  induction a generalizing b with
  | nil => simp
  | cons x xs ih => cases b with
    | nil => simp
    | cons y ys => simp [ih, ci]

theorem map_polyScale (q : Nat) (c : Int) (a : Poly) : (Hal.polyScale c a).map (ci q) = scaleL (ci q c) (a.map (ci q)) := by
  unfold Hal.polyScale scaleL
  simp [List.map_map, Function.comp, ci]

theorem map_mulX (q : Nat) (l : Poly) : (Hal.mulX l).map (ci q) = mulXR (l.map (ci q)) := by
  rcases List.eq_nil_or_concat l with rfl | ⟨l', z, rfl⟩
  · rfl
  · simp [List.concat_eq_append, Hal.mulX, mulXR, ci]

/-- the integer product `Hal.negMul` reduces modulo `q` to the product of `Z_q[X]/(X^n+1)` -/
theorem map_negMul (q : Nat) (a b : Poly) : (Hal.negMul a b).map (ci q) = negMulR (a.map (ci q)) (b.map (ci q)) := by
  induction a with
  | nil =>
    simp only [Hal.negMul, negMulR, List.map_nil, List.map_map]
    apply List.map_congr_left
    intro x _
    simp [ci]
  | cons a0 as ih =>
    simp only [Hal.negMul, negMulR, List.map_cons]
    rw [map_polyAdd, map_polyScale, map_mulX, ih]

theorem mulL_comm {R : Type*} [CommRing R] (a b : List R) : mulL a b = mulL b a := by
  unfold mulL
  induction a generalizing b with
  | nil => simp
  | cons x xs ih => cases b with
    | nil => simp
    | cons y ys => simp [ih, mul_comm]

/-- `b_from_znx64` on a limb: the residues of the coefficients -/
theorem map_bFrom (q : Nat) (hq : 0 < q) (hq2 : q < 2 ^ 63) (a : Poly) (ha : ∀ c ∈ a, -(2 ^ 63) ≤ c ∧ c < 2 ^ 63) :
    (a.map (fun c => bFromU64K q (asU64 c))).map (cz q) = a.map (ci q) ∧
    AllLe (2 ^ 64 - 1) (a.map (fun c => bFromU64K q (asU64 c))) := by
  refine ⟨?_, ?_⟩
  · rw [List.map_map]
    apply List.map_congr_left
    intro c hc
    have := bFromU64K_congr q hq hq2 c (ha c hc).1 (ha c hc).2
    have h2 := (ZMod.intCast_eq_intCast_iff _ _ _).mpr this
    simp only [Function.comp, cz, ci]
    rw [← h2]; simp
  · intro x hx
    simp only [List.mem_map] at hx
    obtain ⟨c, hc, rfl⟩ := hx
    have := bFromU64K_range q hq hq2 c (ha c hc).1 (ha c hc).2
    omega

/-- the slot products of `svp_apply_dft_to_dft` on two lanes: the point-wise product modulo `q` -/
theorem map_slotProducts (q h : Nat) (hq : 1 < q) (hq31 : q < 2 ^ 31) (hh : 16 ≤ h) (hh2 : h < 32) :
    ∀ (fx fp : List Nat), AllLe (2 ^ 64 - 1) fx →
      (List.zipWith (fun a b => slotProductK q h a b) fx fp).map (cz q) = mulL (fx.map (cz q)) (fp.map (cz q)) ∧
      AllLe (2 ^ 64 - 1) (List.zipWith (fun a b => slotProductK q h a b) fx fp) := by
  intro fx
  induction fx with
  | nil => intro fp _; simp [mulL, AllLe]
  | cons a as ih =>
    intro fp hle
    cases fp with
    | nil => simp [mulL, AllLe]
    | cons b bs =>
      obtain ⟨ha, has⟩ := hle.cons
      obtain ⟨i1, i2⟩ := ih bs has
      obtain ⟨m, l⟩ := slotProductK_modEq q h a b hq hq31 hh hh2 (by omega)
      simp only [List.zipWith_cons_cons, List.map_cons, mulL] at *
      refine ⟨?_, ?_⟩
      · rw [i1, cz_eq_of_modEq m]; unfold cz; push_cast; rfl
      · intro x hx
        rcases List.mem_cons.mp hx with rfl | hx
        · omega
        · exact i2 x hx

/-- **one lane of the real product pipeline**: with the tables of size `2^j` of prime `k`, the lane
`b_from_znx64 → ntt_ref → c_from_b → bbc → intt_ref` carries, modulo the prime, the exact negacyclic
product of the two `i64` limbs -/
theorem laneK_real (P : PrimeSet) (k j h : Nat) (g : LaneFwd P k) (gi : LaneInv P k) (hj1 : 1 ≤ j) (hj : j ≤ 16)
    (hh : 16 ≤ h) (hh2 : h < 32) (t ti : TableK) (ht : nttTableK P k (2 ^ j) = .ok t) (hti : inttTableK P k (2 ^ j) = .ok ti)
    (p x : Poly) (hp : p.length = 2 ^ j) (hx : x.length = 2 ^ j)
    (hpr : ∀ c ∈ p, -(2 ^ 63) ≤ c ∧ c < 2 ^ 63) (hxr : ∀ c ∈ x, -(2 ^ 63) ≤ c ∧ c < 2 ^ 63) :
    (laneK (P.qs.getD k 1) h (nttK t) (inttK ti) p x).map (cz (P.qs.getD k 1)) = (Hal.negMul p x).map (ci (P.qs.getD k 1)) ∧
    (laneK (P.qs.getD k 1) h (nttK t) (inttK ti) p x).length = 2 ^ j := by
  set q := P.qs.getD k 1 with hq
  have hqg := g.q_gt
  have hql := g.q_lt
  obtain ⟨bp, up⟩ := map_bFrom q (by omega) (by omega) p hpr
  obtain ⟨bx, ux⟩ := map_bFrom q (by omega) (by omega) x hxr
  obtain ⟨ep, np, uup⟩ := nttK_real P k j g hj1 hj t ht _ (by simpa using hp) up
  obtain ⟨ex, nx, uux⟩ := nttK_real P k j g hj1 hj t ht _ (by simpa using hx) ux
  obtain ⟨es, us⟩ := map_slotProducts q h (by omega) hql hh hh2 _ (nttK t (p.map (fun c => bFromU64K q (asU64 c)))) uux
  have ns : (List.zipWith (fun a b => slotProductK q h a b) (nttK t (x.map (fun c => bFromU64K q (asU64 c))))
      (nttK t (p.map (fun c => bFromU64K q (asU64 c))))).length = 2 ^ j := by simp [np, nx]
  obtain ⟨ei, ni⟩ := inttK_real P k j g gi hj1 hj ti hti _ ns us
  unfold laneK
  simp only []
  refine ⟨?_, ni⟩
  rw [ei, es, ex, ep, bp, bx, mulL_comm, map_negMul]
  have hω := omegaZ_pow P k j g hj
  rw [← nttM_mul _ j _ _ (by simpa using hp) (by simpa using hx) hω]
  exact inttM_nttM _ _ _ j (omegaInv_spec P k j g gi hj).1 (nInv_spec P k j g gi hj).1 _
    (by rw [negMulR_length]; simpa using hx)

/-! ### the whole pipeline -/

theorem getD_of_map_eq (q : Nat) (u : List Nat) (a : Poly) (h : u.map (cz q) = a.map (ci q)) (i : Nat) (hi : i < a.length) :
    (u.getD i 0 : Int) ≡ a.getD i 0 [ZMOD q] := by
  have hl : u.length = a.length := by simpa using congrArg List.length h
  have h1 : (u.map (cz q))[i]'(by simp [hl, hi]) = (a.map (ci q))[i]'(by simp [hi]) := by simp only [h]
  simp only [List.getElem_map] at h1
  have eu : u.getD i 0 = u[i]'(by omega) := by
    rw [List.getD_eq_getElem?_getD, List.getElem?_eq_getElem (by omega)]; rfl
  have ea : a.getD i 0 = a[i]'hi := by
    rw [List.getD_eq_getElem?_getD, List.getElem?_eq_getElem hi]; rfl
  rw [eu, ea]
  apply (ZMod.intCast_eq_intCast_iff _ _ _).mp
  simp only [cz, ci] at h1
  simpa using h1

theorem realNtt_eq (P : PrimeSet) (n k : Nat) (t : TableK) (h : nttTableK P k n = .ok t) : realNtt P n k = nttK t := by
  funext v; unfold realNtt; rw [h]
theorem realIntt_eq (P : PrimeSet) (n k : Nat) (t : TableK) (h : inttTableK P k n = .ok t) : realIntt P n k = inttK t := by
  funext v; unfold realIntt; rw [h]

/-- **the NTT120 product pipeline with the real transforms is exact below `Q/2`** — no assumption on
the transform: for `n = 2^j`, `1 ≤ j ≤ 16`, `i64` limbs `p`, `x` of length `n`, if every coefficient of
the exact negacyclic product `p ⋆ x` is at most `(Q−1)/2` in absolute value then
`b_from_znx64 → ntt_ref → c_from_b → bbc → intt_ref → b_to_znx128` returns exactly `p ⋆ x` -/
theorem svpPipeline_exact (P : PrimeSet) (g : P.Good) (ng : P.NttGood) (j : Nat) (hj1 : 1 ≤ j) (hj : j ≤ 16)
    (p x : Poly) (hp : p.length = 2 ^ j) (hx : x.length = 2 ^ j)
    (hpr : ∀ c ∈ p, -(2 ^ 63) ≤ c ∧ c < 2 ^ 63) (hxr : ∀ c ∈ x, -(2 ^ 63) ≤ c ∧ c < 2 ^ 63)
    (hbound : ∀ i, i < 2 ^ j → -(((bigQ P : Int) - 1) / 2) ≤ (Hal.negMul p x).getD i 0 ∧ (Hal.negMul p x).getD i 0 ≤ ((bigQ P : Int) - 1) / 2) :
    svpPipeline P (2 ^ j) p x = Hal.negMul p x := by
  obtain ⟨hh, hh2⟩ := bbcH_range P
  have lane : ∀ k, k < 4 → ∀ i, i < 2 ^ j →
      ((laneK (P.qs.getD k 1) (bbcH P) (realNtt P (2 ^ j) k) (realIntt P (2 ^ j) k) p x).getD i 0 : Int) ≡
        (Hal.negMul p x).getD i 0 [ZMOD (P.qs.getD k 1 : Nat)] := by
    intro k hk i hi
    obtain ⟨gf, gi⟩ := ng k hk
    obtain ⟨t, ht⟩ := nttTableK_ok P k j gf hj1 hj
    obtain ⟨ti, hti⟩ := inttTableK_ok P k j gi hj1 hj
    rw [realNtt_eq P _ k t ht, realIntt_eq P _ k ti hti]
    obtain ⟨e, _⟩ := laneK_real P k j (bbcH P) gf gi hj1 hj hh hh2 t ti ht hti p x hp hx hpr hxr
    exact getD_of_map_eq _ _ _ e i (by rw [Hal.negMul_length, hx]; exact hi)
  unfold svpPipeline nttPipeline
  simp only []
  apply List.ext_getElem
  · simp [Hal.negMul_length]
  · intro i h1 h2
    simp only [List.length_map, List.length_range] at h1
    rw [List.getElem_map, List.getElem_range]
    have hi : i < 2 ^ j := by omega
    have hb := hbound i hi
    have e : (Hal.negMul p x)[i] = (Hal.negMul p x).getD i 0 := by
      rw [List.getD_eq_getElem?_getD, List.getElem?_eq_getElem h2]; rfl
    rw [e]
    exact bToZnx128Core_exact P g _ _ _ _ _ hb.1 hb.2 (lane 0 (by omega) i hi) (lane 1 (by omega) i hi)
      (lane 2 (by omega) i hi) (lane 3 (by omega) i hi)

end Ntt120
