import Poulpy.Model.ScratchProg
/-
The generic "write before read ⇒ independent of the initial scratch contents" theorem and the
combinator lemmas used to establish `WBR` for the per-operation programs.
-/

namespace ScratchProg

variable {Val α β : Type}

theorem WBR_mono : ∀ (p : Prog Val α) {W W' : List Nat}, (∀ c, c ∈ W → c ∈ W') → WBR W p → WBR W' p := by
  intro p
  induction p with
  | ret a => intro _ _ _ _; trivial
  | read c k ih =>
    intro W W' hs h
    exact ⟨hs c h.1, fun v => ih v hs (h.2 v)⟩
  | write c v k ih =>
    intro W W' hs h
    refine ih (W := c :: W) (W' := c :: W') ?_ h
    intro x hx
    simp only [List.mem_cons] at hx ⊢
    rcases hx with rfl | hx
    · exact Or.inl rfl
    · exact Or.inr (hs x hx)

/-- **Write before read ⇒ independent.** If two initial scratch contents agree on the cells already
initialised (`W`), a write-before-read program returns the same result on both. -/
theorem run_eq_of_agree : ∀ (p : Prog Val α) (W : List Nat) (m m' : Nat → Val),
    WBR W p → (∀ c, c ∈ W → m c = m' c) → (run p m).1 = (run p m').1 := by
  intro p
  induction p with
  | ret a => intro _ _ _ _ _; rfl
  | read c k ih =>
    intro W m m' h ha
    simp only [run]
    rw [ha c h.1]
    exact ih (m' c) W m m' (h.2 (m' c)) ha
  | write c v k ih =>
    intro W m m' h ha
    simp only [run]
    apply ih (c :: W) _ _ h
    intro x hx
    simp only [List.mem_cons] at hx
    by_cases hxc : x = c
    · simp [hxc]
    · rcases hx with rfl | hx
      · exact absurd rfl hxc
      · simp [hxc, ha x hx]

theorem write_before_read_independent (p : Prog Val α) (h : WBR [] p) (m m' : Nat → Val) :
    (run p m).1 = (run p m').1 :=
  run_eq_of_agree p [] m m' h (fun _ hc => by cases hc)

theorem WBR_bind : ∀ (p : Prog Val α) (f : α → Prog Val β) (W : List Nat),
    WBR W p → (∀ a W', (∀ c, c ∈ W → c ∈ W') → WBR W' (f a)) → WBR W (p.bind f) := by
  intro p
  induction p with
  | ret a => intro f W _ hf; exact hf a W (fun _ h => h)
  | read c k ih =>
    intro f W h hf
    exact ⟨h.1, fun v => ih v f W (h.2 v) hf⟩
  | write c v k ih =>
    intro f W h hf
    exact ih f (c :: W) h (fun a W' hs => hf a W' (fun x hx => hs x (List.mem_cons_of_mem _ hx)))

theorem WBR_loopN (body : Nat → Prog Val Unit) (W : List Nat)
    (hb : ∀ i W', (∀ c, c ∈ W → c ∈ W') → WBR W' (body i)) : ∀ n, WBR W (loopN n body) := by
  intro n
  induction n generalizing W with
  | zero => trivial
  | succ n ih =>
    simp only [loopN]
    refine WBR_bind _ _ W (hb n W (fun _ h => h)) ?_
    intro _ W' hs
    exact ih W' (fun i W'' hs' => hb i W'' (fun c hc => hs' c (hs c hc)))

/-- a loop is a `Unit` program; what follows it may rely on `W` only -/
theorem WBR_loopN_then (body : Nat → Prog Val Unit) (k : Prog Val α) (W : List Nat) (n : Nat)
    (hb : ∀ i W', (∀ c, c ∈ W → c ∈ W') → WBR W' (body i))
    (hk : ∀ W', (∀ c, c ∈ W → c ∈ W') → WBR W' k) : WBR W ((loopN n body).bind (fun _ => k)) :=
  WBR_bind _ _ W (WBR_loopN body W hb n) (fun _ W' hs => hk W' hs)

theorem WBR_readAll (cs : List Nat) : ∀ (k : List Val → Prog Val α) (W : List Nat),
    (∀ c, c ∈ cs → c ∈ W) → (∀ vs, WBR W (k vs)) → WBR W (readAll cs k) := by
  induction cs with
  | nil => intro k W _ hk; exact hk []
  | cons c cs ih =>
    intro k W hs hk
    refine ⟨hs c (List.mem_cons_self), fun v => ih _ W (fun x hx => hs x (List.mem_cons_of_mem _ hx)) (fun vs => hk (v :: vs))⟩

theorem WBR_writeAll : ∀ (cs : List Nat) (vs : List Val) (k : Prog Val α) (W : List Nat),
    cs.length = vs.length → WBR (cs.reverse ++ W) k → WBR W (writeAll cs vs k) := by
  intro cs
  induction cs with
  | nil => intro vs k W _ h; cases vs <;> simpa [writeAll] using h
  | cons c cs ih =>
    intro vs k W hl h
    cases vs with
    | nil => simp at hl
    | cons v vs =>
      simp only [writeAll, WBR]
      apply ih vs k (c :: W) (by simpa using hl)
      simpa [List.reverse_cons, List.append_assoc] using h

/-- a whole-buffer kernel `dst := f(src)`: sources must be initialised; afterwards every destination cell is -/
theorem WBR_kernel (src dst : List Nat) (f : List Val → List Val) (k : Prog Val α) (W : List Nat)
    (hs : ∀ c, c ∈ src → c ∈ W) (hf : ∀ vs, (f vs).length = dst.length) (hk : WBR (dst.reverse ++ W) k) :
    WBR W (kernel src dst f k) :=
  WBR_readAll src _ W hs (fun vs => WBR_writeAll dst (f vs) k W (hf vs).symm hk)

/-! ### the per-operation programs are write-before-read -/

theorem wbr_assignViaTmp_go (size : Nat) (limb : Nat → Val) (g : Val → Val) :
    ∀ (j : Nat) (acc : List Val) (W : List Nat), WBR W (progAssignViaTmp.go size limb g j acc) := by
  intro j
  induction j with
  | zero => intro _ _; trivial
  | succ j ih =>
    intro acc W
    simp only [progAssignViaTmp.go, WBR]
    exact ⟨List.mem_cons_self, fun t => ih _ _⟩

theorem wbr_assignViaTmp (size : Nat) (limb : Nat → Val) (g : Val → Val) : WBR [] (progAssignViaTmp size limb g) :=
  wbr_assignViaTmp_go size limb g size [] []

theorem wbr_normalizeAssign_go (step : Val → Val → Val × Val) :
    ∀ (ls acc : List Val) (W : List Nat), 0 ∈ W → WBR W (progNormalizeAssign.go step ls acc) := by
  intro ls
  induction ls with
  | nil => intro _ _ _; trivial
  | cons l ls ih =>
    intro acc W h0
    simp only [progNormalizeAssign.go, WBR]
    exact ⟨h0, fun c => ih _ _ (List.mem_cons_self)⟩

theorem wbr_normalizeAssign (limbs : List Val) (first : Val → Val × Val) (step : Val → Val → Val × Val) :
    WBR [] (progNormalizeAssign limbs first step) := by
  unfold progNormalizeAssign
  split
  · trivial
  · simp only [WBR]
    exact wbr_normalizeAssign_go step _ _ _ (List.mem_cons_self)

end ScratchProg

namespace ScratchProg
variable {Val : Type}

theorem wbr_glweDecrypt (rank : Nat) (zero : Val) (dftCol : Nat → Val) (svp : Nat → Val → Val) (acc : Val → Val → Val)
    (addSmall : Val → Val) (normFirst : Val → Val × Val) (normRest : Val → Val → Val) :
    WBR [] (progGlweDecrypt rank zero dftCol svp acc addSmall normFirst normRest) := by
  unfold progGlweDecrypt
  simp only [WBR]
  refine WBR_loopN_then _ _ [0] rank ?_ ?_
  · intro i W' hs
    have h0 : 0 ∈ W' := hs 0 (by simp)
    simp only [WBR]
    refine ⟨by simp, fun d => ⟨by simp, fun d' => ⟨by simp [h0], fun c => trivial⟩⟩⟩
  · intro W' hs
    have h0 : 0 ∈ W' := hs 0 (by simp)
    simp only [WBR]
    refine ⟨h0, fun c => ⟨by simp, fun c' => ?_⟩⟩
    generalize normFirst c' = pr
    obtain ⟨o, cr⟩ := pr
    exact ⟨by simp, fun _ => trivial⟩

theorem wbr_encSkInternal (cols : Nat) (zero : Val) (dftCol : Nat → Val) (svp : Nat → Val → Val) (bigNorm : Val → Val × Val)
    (fin : Val → Val → Val) (sub : Val → Val → Val) (addNoise : Val → Val) (normFirst : Val → Val × Val)
    (normRest : Val → Val → Val) :
    WBR [] (progEncSkInternal cols zero dftCol svp bigNorm fin sub addNoise normFirst normRest) := by
  unfold progEncSkInternal
  simp only [WBR]
  refine WBR_loopN_then _ _ [0] (cols - 1) ?_ ?_
  · intro i W' hs
    have h0 : 0 ∈ W' := hs 0 (by simp)
    simp only [WBR]
    refine ⟨by simp, fun d => ⟨by simp, fun d' => ?_⟩⟩
    generalize bigNorm d' = pr
    obtain ⟨o, cr⟩ := pr
    refine ⟨by simp, fun cr' => ⟨by simp, fun ci => ⟨by simp [h0], fun c0 => trivial⟩⟩⟩
  · intro W' hs
    have h0 : 0 ∈ W' := hs 0 (by simp)
    simp only [WBR]
    refine ⟨h0, fun c => ⟨by simp, fun c' => ?_⟩⟩
    generalize normFirst c' = pr
    obtain ⟨o, cr⟩ := pr
    exact ⟨by simp, fun _ => trivial⟩

theorem wbr_keyswitch_outs (normFirst : Nat → Val → Val × Val) (normRest : Val → Val → Val) (r' : Val) :
    ∀ (j : Nat) (acc : List Val) (W : List Nat), WBR W (progKeyswitch.outs normFirst normRest r' j acc) := by
  intro j
  induction j with
  | zero => intro _ _; trivial
  | succ j ih =>
    intro acc W
    simp only [progKeyswitch.outs, WBR]
    exact ⟨by simp, fun _ => ih _ _⟩

theorem wbr_keyswitch (cols : Nat) (zero aDft : Val) (vmpTmp : Val → Val) (vmp : Val → Val → Val) (addSmall : Val → Val)
    (normFirst : Nat → Val → Val × Val) (normRest : Val → Val → Val) :
    WBR [] (progKeyswitch cols zero aDft vmpTmp vmp addSmall normFirst normRest) := by
  unfold progKeyswitch
  simp only [WBR]
  refine ⟨by simp, fun a => ⟨by simp, fun t => ⟨by simp, fun r => ⟨by simp, fun r' => wbr_keyswitch_outs _ _ _ _ _ _⟩⟩⟩⟩

theorem wbr_cnvProduct_cols (cnvTmp : Val → Val → Val) (cnv : Nat → Val → Val → Val → Val) (normFirst : Val → Val × Val)
    (normRest : Val → Val → Val) :
    ∀ (j : Nat) (acc : List Val) (W : List Nat), 0 ∈ W → 1 ∈ W → WBR W (progCnvProduct.cols_ cnvTmp cnv normFirst normRest j acc) := by
  intro j
  induction j with
  | zero => intro _ _ _ _; trivial
  | succ j ih =>
    intro acc W h0 h1
    simp only [progCnvProduct.cols_, WBR]
    refine ⟨h0, fun a => ⟨h1, fun b => ⟨by simp, fun t => ⟨by simp, fun r => ?_⟩⟩⟩⟩
    generalize normFirst r = pr
    obtain ⟨o, cr⟩ := pr
    exact ⟨by simp, fun _ => ih _ _ (by simp [h0]) (by simp [h1])⟩

theorem wbr_cnvProduct (cols : Nat) (tmpA tmpB : Val) (prepL prepR : Val → Val) (cnvTmp : Val → Val → Val)
    (cnv : Nat → Val → Val → Val → Val) (normFirst : Val → Val × Val) (normRest : Val → Val → Val) :
    WBR [] (progCnvProduct cols tmpA tmpB prepL prepR cnvTmp cnv normFirst normRest) := by
  unfold progCnvProduct
  simp only [WBR]
  exact ⟨by simp, fun ta => ⟨by simp, fun tb => wbr_cnvProduct_cols _ _ _ _ _ _ _ (by simp) (by simp)⟩⟩

theorem wbr_blindRotationBlock (block : Nat) (accDft zero : Val) (vmpTmp : Nat → Val → Val) (vmp : Nat → Val → Val → Val)
    (svp : Nat → Val → Val) (upd : Val → Val → Val → Val) (idft : Val → Val) (addSmall : Val → Val)
    (normFirst : Val → Val × Val) (normRest : Val → Val → Val) :
    WBR [] (progBlindRotationBlock block accDft zero vmpTmp vmp svp upd idft addSmall normFirst normRest) := by
  unfold progBlindRotationBlock
  simp only [WBR]
  refine WBR_loopN_then _ _ [1, 0] block ?_ ?_
  · intro i W' hs
    have h0 : 0 ∈ W' := hs 0 (by simp)
    have h1 : 1 ∈ W' := hs 1 (by simp)
    simp only [WBR]
    refine ⟨h0, fun a => ⟨by simp, fun t => ⟨by simp, fun r => ⟨by simp, fun x => ⟨by simp [h1], fun s => trivial⟩⟩⟩⟩⟩
  · intro W' hs
    have h1 : 1 ∈ W' := hs 1 (by simp)
    simp only [WBR]
    refine ⟨h1, fun s => ⟨by simp, fun b => ⟨by simp, fun b' => ?_⟩⟩⟩
    generalize normFirst b' = pr
    obtain ⟨o, cr⟩ := pr
    exact ⟨by simp, fun _ => trivial⟩

/-! ### shift / normalise family -/

theorem wbr_carrySteps (step : Nat → Val → Val × Val) :
    ∀ (j : Nat) (acc : List Val) (W : List Nat), 0 ∈ W → WBR W (carrySteps step j acc) := by
  intro j
  induction j with
  | zero => intro _ _ _; trivial
  | succ j ih =>
    intro acc W h0
    simp only [carrySteps, WBR]
    refine ⟨h0, fun c => ?_⟩
    generalize step j c = pr
    obtain ⟨o, c'⟩ := pr
    exact ih _ _ (by simp)

/-- the carry phase leaves the carry initialised for `k`, whichever path was taken, provided the zero fill is there
on the path without discarded limbs -/
theorem wbr_carryPhase {α : Type} (zeroCarry : Bool) (zero : Val) (firstCO : Nat → Val) (midCO : Nat → Val → Val) (k : Prog Val α)
    (nOut : Nat) (W : List Nat) (hz : nOut = 0 → zeroCarry = true)
    (hk : ∀ W', (∀ c, c ∈ 0 :: W → c ∈ W') → WBR W' k) : WBR W (carryPhase zeroCarry zero firstCO midCO k nOut) := by
  cases nOut with
  | zero =>
    simp only [carryPhase, hz rfl, if_true, WBR]
    exact hk _ (fun _ h => h)
  | succ m =>
    simp only [carryPhase, WBR]
    refine WBR_loopN_then _ _ (0 :: W) m ?_ ?_
    · intro i W' hs
      simp only [WBR]
      exact ⟨hs 0 (by simp), fun _ => trivial⟩
    · intro W' hs
      exact hk W' hs

theorem wbr_lsh (nOut minSize : Nat) (zero : Val) (firstCO : Nat → Val) (midCO : Nat → Val → Val) (step : Nat → Val → Val × Val)
    (zeroCarry : Bool) (hz : nOut = 0 → zeroCarry = true) :
    WBR [] (progLsh zeroCarry nOut minSize zero firstCO midCO step) := by
  unfold progLsh
  exact wbr_carryPhase zeroCarry zero firstCO midCO _ nOut [] hz (fun W' hs => wbr_carrySteps step _ _ W' (hs 0 (by simp)))

/-- without the zero fill, on the path where no limb is discarded, the first step reads a carry nobody wrote -/
theorem not_wbr_lsh_without_zero_fill (minSize : Nat) (zero : Val) (firstCO : Nat → Val) (midCO : Nat → Val → Val)
    (step : Nat → Val → Val × Val) : ¬ WBR [] (progLsh false 0 (minSize + 1) zero firstCO midCO step) := by
  unfold progLsh
  simp only [carryPhase, carrySteps]
  intro h
  exact absurd h.1 (by simp)

theorem wbr_rsh (nOut gap work : Nat) (zero : Val) (firstCO : Nat → Val) (midCO : Nat → Val → Val) (gapStep : Val → Val → Val)
    (step : Nat → Val → Val × Val) (zeroCarry zeroSpare : Bool) (hz : nOut = 0 → zeroCarry = true) (hs : gap ≠ 0 → zeroSpare = true) :
    WBR [] (progRsh zeroCarry zeroSpare nOut gap work zero firstCO midCO gapStep step) := by
  unfold progRsh
  refine wbr_carryPhase zeroCarry zero firstCO midCO _ nOut [] hz ?_
  intro W' hW
  have h0 : 0 ∈ W' := hW 0 (by simp)
  by_cases hg : gap = 0
  · simp only [hg, if_true]
    exact wbr_carrySteps step _ _ W' h0
  · simp only [hg, if_false, hs hg, if_true, WBR]
    refine WBR_loopN_then _ _ (1 :: W') gap ?_ ?_
    · intro i W'' hs'
      simp only [WBR]
      exact ⟨hs' 1 (by simp), fun z => ⟨hs' 0 (by simp [h0]), fun c => trivial⟩⟩
    · intro W'' hs'
      exact wbr_carrySteps step _ _ W'' (hs' 0 (by simp [h0]))

/-- without the zero fill of the spare limb, the gap steps read it unwritten -/
theorem not_wbr_rsh_without_spare_zero_fill (nOut gap work : Nat) (zero : Val) (firstCO : Nat → Val) (midCO : Nat → Val → Val)
    (gapStep : Val → Val → Val) (step : Nat → Val → Val × Val) :
    ¬ WBR [] (progRsh true false (nOut + 1) (gap + 1) work zero firstCO midCO gapStep step) := by
  unfold progRsh
  simp only [carryPhase, Nat.succ_ne_zero, if_false, WBR]
  intro h
  -- after the carry phase only cell 0 is initialised: the first gap step reads cell 1
  have key : ∀ (m : Nat) (W : List Nat), 1 ∉ W →
      ¬ WBR W ((loopN m (fun j => Prog.read 0 (fun c => Prog.write 0 (midCO j c) (Prog.ret ())))).bind (fun _ =>
        (loopN (gap + 1) (fun _ => Prog.read 1 (fun z => Prog.read 0 (fun c => Prog.write 0 (gapStep z c) (Prog.ret ()))))).bind
          (fun _ => carrySteps step work []))) := by
    intro m
    induction m with
    | zero =>
      intro W h1 hw
      simp only [loopN, Prog.bind, WBR] at hw
      exact h1 hw.1
    | succ m ih =>
      intro W h1 hw
      simp only [loopN, Prog.bind, WBR] at hw
      exact ih (0 :: W) (by simp [h1]) (hw.2 zero)
  exact key nOut [0] (by simp) h

/-! ### the poulpy-ckks product path -/

/-- a program placed on the rest of the scratch relies on the moved cells -/
theorem WBR_shift (k : Nat) : ∀ (p : Prog Val α) (W : List Nat), WBR W p → WBR (W.map (· + k)) (p.shift k) := by
  intro p
  induction p with
  | ret a => intro _ _; trivial
  | read c f ih =>
    intro W h
    exact ⟨List.mem_map.mpr ⟨c, h.1, rfl⟩, fun v => ih v W (h.2 v)⟩
  | write c v p ih =>
    intro W h
    simpa [Prog.shift, WBR] using ih (c :: W) h

/-- a self-contained operation stays self-contained wherever it is placed, whatever was initialised before -/
theorem WBR_shift_nil (k : Nat) (p : Prog Val α) (h : WBR [] p) (W : List Nat) : WBR W (p.shift k) :=
  WBR_mono _ (fun _ hc => by cases hc) (WBR_shift k p [] h)

theorem wbr_viaTmp {β : Type} (producer : Prog Val β) (pack : β → Val) (consumer : Val → Prog Val α)
    (hp : WBR [] producer) (hc : ∀ t, WBR [] (consumer t)) : WBR [] (progViaTmp producer pack consumer) := by
  unfold progViaTmp
  refine WBR_bind _ _ [] (WBR_shift_nil 1 producer hp []) ?_
  intro r W' _
  simp only [WBR]
  exact ⟨by simp, fun t => WBR_shift_nil 1 _ (hc t) _⟩

/-- after `fillBufs … m` the continuation may rely on the cells `0 … m − 1` (and on what was initialised before) -/
theorem WBR_fillBufs (K : Nat) (fill : Nat → Prog Val Val) (k : Prog Val α) (hf : ∀ i, WBR [] (fill i)) :
    ∀ (m : Nat) (W : List Nat),
      (∀ W', (∀ c, c ∈ W → c ∈ W') → (∀ j, j < m → j ∈ W') → WBR W' k) → WBR W (fillBufs K fill k m) := by
  intro m
  induction m with
  | zero => intro W hk; exact hk W (fun _ h => h) (fun _ h => absurd h (Nat.not_lt_zero _))
  | succ i ih =>
    intro W hk
    simp only [fillBufs]
    refine WBR_bind _ _ W (WBR_shift_nil K _ (hf i) W) ?_
    intro v W' hs
    simp only [WBR]
    refine ih (i :: W') ?_
    intro W'' hs' hj
    refine hk W'' (fun c hc => hs' c (List.mem_cons_of_mem _ (hs c hc))) ?_
    intro j hj'
    by_cases hji : j = i
    · subst hji; exact hs' j List.mem_cons_self
    · exact hj j (by omega)

theorem WBR_accumulateTerms (K T cnt : Nat) (accum : Nat → Val → Val → Val → Prog Val Val) (k : Prog Val α)
    (ha : ∀ i a b t, WBR [] (accum i a b t)) :
    ∀ (j : Nat) (W : List Nat), j < cnt → (∀ c, c < 2 * cnt → c ∈ W) → T ∈ W →
      (∀ W', (∀ c, c ∈ W → c ∈ W') → WBR W' k) → WBR W (accumulateTerms K T cnt accum k j) := by
  intro j
  induction j with
  | zero => intro W _ _ _ hk; exact hk W (fun _ h => h)
  | succ j ih =>
    intro W hj hb hT hk
    simp only [accumulateTerms, WBR]
    refine ⟨hb _ (by omega), fun a => ⟨hb _ (by omega), fun b => ⟨hT, fun t => ?_⟩⟩⟩
    refine WBR_bind _ _ W (WBR_shift_nil K _ (ha _ a b t) W) ?_
    intro t' W' hs
    simp only [WBR]
    refine ih (T :: W') (by omega) (fun c hc => List.mem_cons_of_mem _ (hs c (hb c hc))) List.mem_cons_self ?_
    intro W'' hs'
    exact hk W'' (fun c hc => hs' c (List.mem_cons_of_mem _ (hs c hc)))

theorem wbr_ckksDotProductCt (cnt : Nat) (hcnt : 0 < cnt) (rescale : Nat → Prog Val Val) (first : Val → Val → Prog Val Val)
    (accum : Nat → Val → Val → Val → Prog Val Val) (relin : Val → Prog Val α)
    (hr : ∀ i, WBR [] (rescale i)) (hf : ∀ a b, WBR [] (first a b)) (ha : ∀ i a b t, WBR [] (accum i a b t))
    (hl : ∀ t, WBR [] (relin t)) : WBR [] (progCkksDotProductCt cnt rescale first accum relin) := by
  unfold progCkksDotProductCt
  refine WBR_fillBufs _ rescale _ hr (2 * cnt) [] ?_
  intro W' _ hb
  simp only [WBR]
  refine ⟨hb 0 (by omega), fun a0 => ⟨hb cnt (by omega), fun b0 => ?_⟩⟩
  refine WBR_bind _ _ W' (WBR_shift_nil _ _ (hf a0 b0) W') ?_
  intro t W'' hs
  simp only [WBR]
  refine WBR_accumulateTerms _ _ cnt accum _ ha (cnt - 1) _ (by omega)
    (fun c hc => List.mem_cons_of_mem _ (hs c (hb c hc))) List.mem_cons_self ?_
  intro W3 hs3
  simp only [WBR]
  exact ⟨hs3 _ List.mem_cons_self, fun t' => WBR_shift_nil _ _ (hl t') _⟩

theorem wbr_mulManyLevel (left right : Prog Val Val) (product : Val → Val → Prog Val α)
    (hL : WBR [] left) (hR : WBR [] right) (hp : ∀ x y, WBR [] (product x y)) : WBR [] (progMulManyLevel left right product) := by
  unfold progMulManyLevel
  refine WBR_bind _ _ [] (WBR_shift_nil 2 left hL []) ?_
  intro l W' _
  simp only [WBR]
  refine WBR_bind _ _ _ (WBR_shift_nil 2 right hR _) ?_
  intro r W'' hs
  simp only [WBR]
  exact ⟨List.mem_cons_of_mem _ (hs 0 List.mem_cons_self), fun x => ⟨List.mem_cons_self, fun y => WBR_shift_nil 2 _ (hp x y) _⟩⟩

/-- mapping the result of a program does not change what it reads -/
theorem WBR_map {β : Type} (p : Prog Val α) (f : α → β) (W : List Nat) (h : WBR W p) : WBR W (p.bind (fun a => .ret (f a))) :=
  WBR_bind p _ W h (fun _ _ _ => trivial)

theorem wbr_productKernels (P : ProductKernels Val) : WBR [] P.prog :=
  WBR_map _ _ [] (wbr_cnvProduct P.cols P.tmpA P.tmpB P.prepL P.prepR P.cnvTmp P.cnv P.normFirst P.normRest)

theorem wbr_relinKernels (R : RelinKernels Val) (t : Val) : WBR [] (R.prog t) :=
  wbr_keyswitch R.cols R.zero (R.aDft t) R.vmpTmp R.vmp R.addSmall R.normFirst R.normRest

theorem wbr_shiftKernels (S : ShiftKernels Val) (x : Val) : WBR [] (S.prog x) :=
  wbr_lsh S.nOut S.minSize S.zero (S.firstCO x) (S.midCO x) (S.step x) true (fun _ => rfl)

theorem wbr_ckksMul (P : ProductKernels Val) (R : RelinKernels Val) : WBR [] (progCkksMul P R) :=
  wbr_viaTmp _ _ _ (wbr_productKernels P) (wbr_relinKernels R)

theorem wbr_ckksMulAddCt (P : ProductKernels Val) (R : RelinKernels Val) (packCt : List Val → Val) (S : ShiftKernels Val) :
    WBR [] (progCkksMulAddCt P R packCt S) :=
  wbr_viaTmp _ _ _ (wbr_ckksMul P R) (wbr_shiftKernels S)

theorem wbr_ckksMulAddPt (P : ProductKernels Val) (S : ShiftKernels Val) : WBR [] (progCkksMulAddPt P S) :=
  wbr_viaTmp _ _ _ (wbr_productKernels P) (wbr_shiftKernels S)

theorem wbr_ckksDotProduct (cnt : Nat) (hcnt : 0 < cnt) (S : ShiftKernels Val) (input : Nat → Val) (packCt : List Val → Val)
    (first : Val → Val → ProductKernels Val) (accum : Nat → Val → Val → Val → ProductKernels Val) (R : RelinKernels Val) :
    WBR [] (progCkksDotProduct cnt S input packCt first accum R) :=
  wbr_ckksDotProductCt cnt hcnt _ _ _ _ (fun i => WBR_map _ _ [] (wbr_shiftKernels S (input i)))
    (fun a b => wbr_productKernels (first a b)) (fun i a b t => wbr_productKernels (accum i a b t)) (wbr_relinKernels R)

theorem wbr_ckksMulMany4 (PL PR : ProductKernels Val) (RL RR : RelinKernels Val) (packCt : List Val → Val)
    (P : Val → Val → ProductKernels Val) (R : RelinKernels Val) : WBR [] (progCkksMulMany4 PL PR RL RR packCt P R) :=
  wbr_mulManyLevel _ _ _ (WBR_map _ _ [] (wbr_ckksMul PL RL)) (WBR_map _ _ [] (wbr_ckksMul PR RR)) (fun x y => wbr_ckksMul (P x y) R)

end ScratchProg
