import Poulpy.Model.Bytes
/-
Helper lemmas for Props/C18.lean and Props/C17.lean: little-endian codec, evaluation rules of the
reader monad, and the complete case analysis of the three HAL readers.
-/
namespace Ser

/-! ### little-endian codec -/

theorem leBytes_length (k v : Nat) : (leBytes k v).length = k := by
  induction k generalizing v with
  | zero => rfl
  | succ k ih => simp [leBytes, ih]

theorem leVal_leBytes (k v : Nat) (h : v < 256 ^ k) : leVal (leBytes k v) = v := by
  induction k generalizing v with
  | zero => simp at h; simp [leBytes, leVal, h]
  | succ k ih =>
    have h2 : v / 256 < 256 ^ k := by
      rw [Nat.div_lt_iff_lt_mul (by decide)]; rw [Nat.pow_succ] at h; exact h
    simp only [leBytes, leVal, UInt8.toNat_ofNat', ih _ h2]
    omega

theorem leVal_lt (bs : Bytes) : leVal bs < 256 ^ bs.length := by
  induction bs with
  | nil => simp [leVal]
  | cons b bs ih =>
    have := UInt8.toNat_lt b
    simp only [leVal, List.length_cons, Nat.pow_succ]
    omega

theorem leVal_take8_lt (bs : Bytes) : leVal (bs.take 8) < 2 ^ 64 := by
  have h := leVal_lt (bs.take 8)
  have h2 : (bs.take 8).length ≤ 8 := by simp; omega
  calc leVal (bs.take 8) < 256 ^ (bs.take 8).length := h
    _ ≤ 256 ^ 8 := Nat.pow_le_pow_right (by decide) h2
    _ = 2 ^ 64 := by decide

/-- the first 8 bytes of `leBytes 8 v ++ rest` decode to `v` -/
theorem take8_le (v : Nat) (rest : Bytes) (h : v < 2 ^ 64) : leVal ((leBytes 8 v ++ rest).take 8) = v := by
  rw [List.take_left' (leBytes_length 8 v)]
  exact leVal_leBytes 8 v (by simpa using h)

theorem drop8_le (v : Nat) (rest : Bytes) : (leBytes 8 v ++ rest).drop 8 = rest :=
  List.drop_left' (leBytes_length 8 v)

theorem take4_le (v : Nat) (rest : Bytes) (h : v < 2 ^ 32) : leVal ((leBytes 4 v ++ rest).take 4) = v := by
  rw [List.take_left' (leBytes_length 4 v)]
  exact leVal_leBytes 4 v (by simpa using h)

theorem drop4_le (v : Nat) (rest : Bytes) : (leBytes 4 v ++ rest).drop 4 = rest :=
  List.drop_left' (leBytes_length 4 v)

/-! ### checked arithmetic -/

theorem checkedMul_some {a b x : Nat} (h : checkedMul a b = some x) : x = a * b ∧ a * b < 2 ^ 64 := by
  unfold checkedMul at h; split at h <;> simp_all

theorem checkedMul_of_lt {a b : Nat} (h : a * b < 2 ^ 64) : checkedMul a b = some (a * b) := by
  unfold checkedMul; simp [h]

theorem cm3x8_some {a b c x : Nat} (h : cm3x8 a b c = some x) : x = a * b * c * 8 ∧ a * b * c * 8 < 2 ^ 64 := by
  unfold cm3x8 at h
  cases h1 : checkedMul a b with
  | none => simp [h1] at h
  | some p =>
    obtain ⟨rfl, _⟩ := checkedMul_some h1
    cases h2 : checkedMul (a * b) c with
    | none => simp [h1, h2] at h
    | some q =>
      obtain ⟨rfl, _⟩ := checkedMul_some h2
      simp only [h1, h2, Option.bind_some] at h
      exact checkedMul_some h

theorem cm3x8_of_lt {a b c : Nat} (h : a * b * c * 8 < 2 ^ 64) (hc : 0 < c ∨ a * b < 2 ^ 64) :
    cm3x8 a b c = some (a * b * c * 8) := by
  have h1 : a * b * c < 2 ^ 64 := by omega
  have h0 : a * b < 2 ^ 64 := by
    rcases hc with hc | hc
    · calc a * b ≤ a * b * c := Nat.le_mul_of_pos_right _ hc
        _ < 2 ^ 64 := h1
    · exact hc
  unfold cm3x8
  simp [checkedMul_of_lt h0, checkedMul_of_lt h1, checkedMul_of_lt h]

theorem cmMat_some {r ci n co s x : Nat} (h : cmMat r ci n co s = some x) :
    x = r * ci * n * co * s * 8 ∧ r * ci * n * co * s * 8 < 2 ^ 64 := by
  unfold cmMat at h
  cases h1 : checkedMul r ci with
  | none => simp [h1] at h
  | some p1 =>
    obtain ⟨rfl, _⟩ := checkedMul_some h1
    cases h2 : checkedMul (r * ci) n with
    | none => simp [h1, h2] at h
    | some p2 =>
      obtain ⟨rfl, _⟩ := checkedMul_some h2
      cases h3 : checkedMul (r * ci * n) co with
      | none => simp [h1, h2, h3] at h
      | some p3 =>
        obtain ⟨rfl, _⟩ := checkedMul_some h3
        cases h4 : checkedMul (r * ci * n * co) s with
        | none => simp [h1, h2, h3, h4] at h
        | some p4 =>
          obtain ⟨rfl, _⟩ := checkedMul_some h4
          simp only [h1, h2, h3, h4, Option.bind_some] at h
          exact checkedMul_some h

theorem mulU_of_lt (p : Profile) {a b : Nat} (h : a * b < 2 ^ 64) : mulU p a b = .ok (a * b) := by
  unfold mulU; simp [h]

/-! ### evaluation rules of `Rd` -/

section
variable {σ α β : Type}

theorem bind_apply (m : Rd σ α) (f : α → Rd σ β) (s : σ) (bs : Bytes) :
    (m >>= f) s bs = match m s bs with
      | .ok a s' r => f a s' r
      | .err k s' => .err k s'
      | .panic c s' => .panic c s' := rfl

theorem pure_apply (a : α) (s : σ) (bs : Bytes) : (pure a : Rd σ α) s bs = .ok a s bs := rfl

theorem readU64_bind (f : Nat → Rd σ β) (s : σ) (bs : Bytes) :
    (readU64 >>= f) s bs = if bs.length < 8 then .err "eof" s else f (leVal (bs.take 8)) s (bs.drop 8) := by
  by_cases h : bs.length < 8 <;> simp [bind_apply, readU64, readN, Rd.bind, Rd.pure, h]

theorem readU32_bind (f : Nat → Rd σ β) (s : σ) (bs : Bytes) :
    (readU32 >>= f) s bs = if bs.length < 4 then .err "eof" s else f (leVal (bs.take 4)) s (bs.drop 4) := by
  by_cases h : bs.length < 4 <;> simp [bind_apply, readU32, readN, Rd.bind, Rd.pure, h]

theorem getS_bind (f : σ → Rd σ β) (s : σ) (bs : Bytes) : (getS >>= f) s bs = f s s bs := rfl

theorem failWith_apply (k : String) (s : σ) (bs : Bytes) : (failWith k : Rd σ α) s bs = .err k s := rfl

theorem modifyS_apply (g : σ → σ) (s : σ) (bs : Bytes) : modifyS g s bs = .ok () (g s) bs := rfl

theorem readExactInto_bind (len : Nat) (get : σ → Bytes) (set : σ → Bytes → σ) (f : Unit → Rd σ β) (s : σ) (bs : Bytes) :
    (readExactInto len get set >>= f) s bs =
      if len > (get s).length then .panic "bounds" s
      else if bs.length < len then .err "eof" s
      else f () (set s (bs.take len ++ (get s).drop len)) (bs.drop len) := by
  by_cases h1 : len > (get s).length <;> by_cases h2 : bs.length < len <;> simp [bind_apply, readExactInto, h1, h2]
end

/-- length of a buffer after `buf[..len].copy_from(src)` with `len ≤ buf.len()` and enough source -/
theorem overwrite_length (src buf : Bytes) (len : Nat) (h1 : len ≤ buf.length) (h2 : len ≤ src.length) :
    (src.take len ++ buf.drop len).length = buf.length := by
  simp; omega

/-! ### complete case analysis of the HAL readers -/

/-- what a HAL reader may do to receiver `r`: an error leaves it untouched, success yields `Q`, no panic -/
def Good {σ : Type} (r : σ) (Q : σ → Bytes → Prop) : Res σ Unit → Prop
  | .ok _ r' rest => Q r' rest
  | .err _ r' => r' = r
  | .panic _ _ => False

/-- the explicit success description of `VecZnx::read_from` -/
def VecOk (r : VecZnx) (bs : Bytes) (r' : VecZnx) (rest : Bytes) : Prop :=
  40 ≤ bs.length ∧
  let n := leVal (bs.take 8)
  let cols := leVal ((bs.drop 8).take 8)
  let size := leVal ((bs.drop 16).take 8)
  let maxSize := leVal ((bs.drop 24).take 8)
  let len := leVal ((bs.drop 32).take 8)
  len = n * cols * size * 8 ∧ size ≤ maxSize ∧ n * cols * maxSize * 8 ≤ r.data.length ∧ len ≤ r.data.length ∧
  len ≤ (bs.drop 40).length ∧
  r' = ⟨n, cols, size, maxSize, (bs.drop 40).take len ++ r.data.drop len⟩ ∧ rest = (bs.drop 40).drop len

theorem vec_read_good (r : VecZnx) (bs : Bytes) : Good r (VecOk r bs) (VecZnx.readFrom r bs) := by
  unfold VecZnx.readFrom
  simp only [readU64_bind, List.drop_drop, Nat.reduceAdd]
  split; · rfl
  split; · rfl
  split; · rfl
  split; · rfl
  split; · rfl
  rename_i h1 h2 h3 h4 h5
  simp only [List.length_drop] at h2 h3 h4 h5
  cases hexp : cm3x8 (leVal (List.take 8 bs)) (leVal (List.take 8 (List.drop 8 bs))) (leVal (List.take 8 (List.drop 16 bs))) with
  | none => exact rfl
  | some expected =>
    obtain ⟨rfl, _⟩ := cm3x8_some hexp
    simp only []
    split; · rfl
    rename_i hlen
    simp only [getS_bind]
    split; · rfl
    rename_i hbuf
    split; · rfl
    rename_i hcap
    simp only [readExactInto_bind, modifyS_apply]
    have hlen' := Decidable.of_not_not hlen
    split
    · omega
    split; · rfl
    rename_i hsrc
    simp only [Good, VecOk]
    simp only [Bool.or_eq_true, decide_eq_true_eq, Bool.not_eq_true', not_or, Nat.not_lt, Bool.not_eq_false] at hcap
    obtain ⟨hsz, hc⟩ := hcap
    cases hcapeq : cm3x8 (leVal (List.take 8 bs)) (leVal (List.take 8 (List.drop 8 bs))) (leVal (List.take 8 (List.drop 24 bs))) with
    | none => simp [hcapeq] at hc
    | some cap =>
      obtain ⟨rfl, _⟩ := cm3x8_some hcapeq
      simp only [hcapeq, Option.any_some, decide_eq_true_eq] at hc
      refine ⟨by omega, hlen'.symm, hsz, hc, by omega, by omega, by first | rfl | trivial, by first | rfl | trivial⟩

theorem vecOk_inv {r : VecZnx} {bs : Bytes} {r' : VecZnx} {rest : Bytes} (h : VecOk r bs r' rest) :
    r'.Inv ∧ r'.data.length = r.data.length := by
  obtain ⟨_, _, hsz, hcap, hlen, hsrc, rfl, _⟩ := h
  refine ⟨⟨hsz, ?_⟩, ?_⟩
  · simp only; rw [overwrite_length _ _ _ hlen hsrc]; exact hcap
  · exact overwrite_length _ _ _ hlen hsrc

def ScalarOk (r : ScalarZnx) (bs : Bytes) (r' : ScalarZnx) (rest : Bytes) : Prop :=
  24 ≤ bs.length ∧
  let n := leVal (bs.take 8)
  let cols := leVal ((bs.drop 8).take 8)
  let len := leVal ((bs.drop 16).take 8)
  len = n * cols * 8 ∧ len ≤ r.data.length ∧ len ≤ (bs.drop 24).length ∧
  r' = ⟨n, cols, (bs.drop 24).take len ++ r.data.drop len⟩ ∧ rest = (bs.drop 24).drop len

theorem scalar_read_good (r : ScalarZnx) (bs : Bytes) : Good r (ScalarOk r bs) (ScalarZnx.readFrom r bs) := by
  unfold ScalarZnx.readFrom
  simp only [readU64_bind, List.drop_drop, Nat.reduceAdd]
  split; · rfl
  split; · rfl
  split; · rfl
  rename_i h1 h2 h3
  simp only [List.length_drop] at h2 h3
  cases hm : checkedMul (leVal (List.take 8 bs)) (leVal (List.take 8 (List.drop 8 bs))) with
  | none => exact rfl
  | some p =>
    obtain ⟨rfl, _⟩ := checkedMul_some hm
    simp only [Option.bind_some]
    cases hexp : checkedMul (leVal (List.take 8 bs) * leVal (List.take 8 (List.drop 8 bs))) 8 with
    | none => exact rfl
    | some expected =>
      obtain ⟨rfl, _⟩ := checkedMul_some hexp
      simp only []
      split; · rfl
      rename_i hlen
      simp only [getS_bind]
      split; · rfl
      rename_i hbuf
      simp only [readExactInto_bind, modifyS_apply]
      have hlen' := Decidable.of_not_not hlen
      split
      · omega
      split; · rfl
      rename_i hsrc
      simp only [Good, ScalarOk]
      refine ⟨by omega, hlen'.symm, by omega, by omega, by first | rfl | trivial, by first | rfl | trivial⟩

theorem scalarOk_inv {r : ScalarZnx} {bs : Bytes} {r' : ScalarZnx} {rest : Bytes} (h : ScalarOk r bs r' rest) :
    r'.Inv ∧ r'.data.length = r.data.length := by
  obtain ⟨_, heq, hlen, hsrc, rfl, _⟩ := h
  refine ⟨?_, overwrite_length _ _ _ hlen hsrc⟩
  unfold ScalarZnx.Inv
  simp only; rw [overwrite_length _ _ _ hlen hsrc]; omega

def MatOk (r : MatZnx) (bs : Bytes) (r' : MatZnx) (rest : Bytes) : Prop :=
  48 ≤ bs.length ∧
  let n := leVal (bs.take 8)
  let size := leVal ((bs.drop 8).take 8)
  let rows := leVal ((bs.drop 16).take 8)
  let colsIn := leVal ((bs.drop 24).take 8)
  let colsOut := leVal ((bs.drop 32).take 8)
  let len := leVal ((bs.drop 40).take 8)
  len = rows * colsIn * n * colsOut * size * 8 ∧ len ≤ r.data.length ∧ len ≤ (bs.drop 48).length ∧
  r' = ⟨n, size, rows, colsIn, colsOut, (bs.drop 48).take len ++ r.data.drop len⟩ ∧ rest = (bs.drop 48).drop len

theorem mat_read_good (r : MatZnx) (bs : Bytes) : Good r (MatOk r bs) (MatZnx.readFrom r bs) := by
  unfold MatZnx.readFrom
  simp only [readU64_bind, List.drop_drop, Nat.reduceAdd]
  split; · rfl
  split; · rfl
  split; · rfl
  split; · rfl
  split; · rfl
  split; · rfl
  rename_i h1 h2 h3 h4 h5 h6
  simp only [List.length_drop] at h2 h3 h4 h5 h6
  cases hexp : cmMat (leVal (List.take 8 (List.drop 16 bs))) (leVal (List.take 8 (List.drop 24 bs))) (leVal (List.take 8 bs))
      (leVal (List.take 8 (List.drop 32 bs))) (leVal (List.take 8 (List.drop 8 bs))) with
  | none => exact rfl
  | some expected =>
    obtain ⟨rfl, _⟩ := cmMat_some hexp
    simp only []
    split; · rfl
    rename_i hlen
    simp only [getS_bind]
    split; · rfl
    rename_i hbuf
    simp only [readExactInto_bind, modifyS_apply]
    have hlen' := Decidable.of_not_not hlen
    split
    · omega
    split; · rfl
    rename_i hsrc
    simp only [Good, MatOk]
    refine ⟨by omega, hlen'.symm, by omega, by omega, by first | rfl | trivial, by first | rfl | trivial⟩

theorem matOk_inv {r : MatZnx} {bs : Bytes} {r' : MatZnx} {rest : Bytes} (h : MatOk r bs r' rest) :
    r'.Inv ∧ r'.data.length = r.data.length := by
  obtain ⟨_, heq, hlen, hsrc, rfl, _⟩ := h
  refine ⟨?_, overwrite_length _ _ _ hlen hsrc⟩
  unfold MatZnx.Inv
  simp only; rw [overwrite_length _ _ _ hlen hsrc]; omega

end Ser
