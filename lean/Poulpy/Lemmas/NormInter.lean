/-
Helper lemmas for C08: the torus relation and the value theorem of the same-radix
`vec_znx_normalize` (`normalizeInterCoef`) outside the gap region.
-/
import Poulpy.Lemmas.NormGap

namespace NormL

/-- `X / 2^px` and `Y / 2^py` differ, on the torus R/Z, by at most `2^-px` — one unit of the last
limb of `X` (no rationals: everything is scaled by `2^(px+py)`). -/
def TorusNear (X : Int) (px : Nat) (Y : Int) (py : Nat) : Prop :=
  ∃ k e : Int, X * 2 ^ py = Y * 2 ^ px + e + k * 2 ^ (px + py) ∧ |e| ≤ 2 ^ py

/-- `X / 2^px = Y / 2^py` on the torus R/Z -/
def TorusEq (X : Int) (px : Nat) (Y : Int) (py : Nat) : Prop :=
  ∃ k : Int, X * 2 ^ py = Y * 2 ^ px + k * 2 ^ (px + py)

theorem TorusEq.near {X Y : Int} {px py : Nat} (h : TorusEq X px Y py) : TorusNear X px Y py := by
  obtain ⟨k, hk⟩ := h
  exact ⟨k, 0, by linarith, by simp⟩

/-- with no output limb every two torus elements are within one unit (= 1) -/
theorem torusNear_zero_prec (X Y : Int) (py : Nat) : TorusNear X 0 Y py := by
  have hp := two_pow_pos py
  refine ⟨X - Y / 2 ^ py, -(Y % 2 ^ py), ?_, ?_⟩
  · have := Int.emod_add_mul_ediv Y (2 ^ py)
    simp only [pow_zero, mul_one, Nat.zero_add]
    linear_combination this
  · rw [abs_neg, abs_of_nonneg (Int.emod_nonneg _ (ne_of_gt hp))]
    exact le_of_lt (Int.emod_lt_of_pos _ hp)

/-- `splitOffset` is floor division: `off = limbs_offset·b + lsh`, `0 ≤ lsh < b` -/
theorem splitOffset_spec {b : Nat} (hb : 1 ≤ b) (off : Int) :
    off = (splitOffset b off).2 * b + (splitOffset b off).1 ∧ (splitOffset b off).1 < b := by
  have hbpos : (0 : Int) < b := by exact_mod_cast hb
  have hdm := Int.mul_tdiv_add_tmod off b
  have hlt := Int.tmod_lt_of_pos off hbpos
  have hgt := Int.lt_tmod_of_pos off hbpos
  unfold splitOffset
  by_cases hc : off < 0 ∧ Int.tmod off b ≠ 0
  · rw [if_pos hc]
    show off = (off.tdiv b - 1) * b + ((Int.tmod (Int.tmod off b + b) b).toNat : Int) ∧ (Int.tmod (Int.tmod off b + b) b).toNat < b
    have hneg : Int.tmod off b ≤ 0 := by
      have h1 : 0 ≤ Int.tmod (-off) b := Int.tmod_nonneg _ (by linarith [hc.1])
      rw [Int.neg_tmod] at h1; linarith
    have hr1 : 0 ≤ Int.tmod off b + b := by linarith
    have hr2 : Int.tmod off b + b < b := by
      have := hc.2; omega
    rw [Int.tmod_eq_of_lt hr1 hr2]
    have : ((Int.tmod off b + b).toNat : Int) = Int.tmod off b + b := Int.toNat_of_nonneg hr1
    constructor
    · rw [this]; linarith
    · omega
  · rw [if_neg hc]
    show off = off.tdiv b * b + ((Int.tmod off b).toNat : Int) ∧ (Int.tmod off b).toNat < b
    have hnn : 0 ≤ Int.tmod off b := by
      by_cases h0 : off < 0
      · have : Int.tmod off b = 0 := by
          by_contra h; exact hc ⟨h0, h⟩
        omega
      · exact Int.tmod_nonneg _ (by linarith)
    have : ((Int.tmod off b).toNat : Int) = Int.tmod off b := Int.toNat_of_nonneg hnn
    constructor
    · rw [this]; linarith
    · omega

section
variable {bits b lsh : Nat} {H : Int}

/-- the common core of every shifted normalisation: discarded low limbs `D`, kept limbs `M`,
`z` zero limbs on top (carry propagation), `e` zero limbs at the bottom. -/
theorem inter_core (hr : HeadRoom bits b lsh H) (M D : List Int)
    (hM : ∀ x ∈ M, |x| ≤ H) (hD : ∀ x ∈ D, |x| ≤ H) (z e : Nat) :
    let c1 := (carryOnlyRun bits b lsh D).getD 0
    let mid := middleRun bits b lsh M c1
    let top := finalTopRun bits b lsh (List.replicate z 0) mid.2
    let res := top ++ mid.1 ++ List.replicate e 0
    res.length = z + M.length + e ∧ (∀ d ∈ res, Balanced b d) ∧
    ∃ q ε : Int, |ε| < 2 ^ (b * D.length) ∧ (D = [] → ε = 0) ∧
      valI b (M ++ D) * 2 ^ lsh * 2 ^ (b * e)
        = valI b res * 2 ^ (b * D.length) + q * 2 ^ (b * (z + M.length + D.length + e)) + ε * 2 ^ (b * e) := by
  intro c1 mid top res
  have hb : 1 ≤ b := by have := hr.hlsh; omega
  have h0 : |(0 : Int)| ≤ H + 3 := by have := hr.hH0; simp; linarith
  have hc1 : c1 = (middleRun bits b lsh D 0).2 := carryOnlyRun_getD hr D hD
  obtain ⟨dv, dl, db, dc⟩ := middleRun_spec hr D hD 0 h0
  rw [← hc1] at dv dc
  obtain ⟨mv, ml, mb, mc⟩ := middleRun_spec hr M hM c1 dc
  have hz : ∀ x ∈ List.replicate z (0 : Int), |x| ≤ H := by
    intro x hx; rw [(List.mem_replicate.mp hx).2]; simpa using hr.hH0
  obtain ⟨⟨q, tv⟩, tl, tb⟩ := finalTopRun_spec hr (List.replicate z 0) hz mid.2 mc
  rw [valI_replicate_zero, List.length_replicate] at tv
  simp only [List.length_replicate] at tl
  have hbal0 : Balanced b 0 := by
    have := two_pow_pos (b - 1); exact ⟨by linarith, this⟩
  have tl' : top.length = z := tl
  have ml' : mid.1.length = M.length := ml
  refine ⟨by simp only [res, List.length_append, List.length_replicate]; omega, ?_, q, valI b (middleRun bits b lsh D 0).1, ?_, ?_, ?_⟩
  · intro d hd
    simp only [res, List.mem_append] at hd
    rcases hd with (h | h) | h
    · exact tb d h
    · exact mb d h
    · rw [(List.mem_replicate.mp h).2]; exact hbal0
  · have := valI_balanced_bound hb _ db
    rwa [dl] at this
  · intro hDn; subst hDn; simp [middleRun, valI]
  · have hres : valI b res = (valI b top * 2 ^ (b * M.length) + valI b mid.1) * 2 ^ (b * e) := by
      simp only [res]
      rw [valI_append, valI_append, valI_replicate_zero, List.length_replicate, ml]; ring
    have hMD : valI b (M ++ D) = valI b M * 2 ^ (b * D.length) + valI b D := valI_append b M D
    have e1 : (2 : Int) ^ (b * (z + M.length + D.length + e))
        = 2 ^ (b * z) * 2 ^ (b * M.length) * 2 ^ (b * D.length) * 2 ^ (b * e) := by
      rw [← pow_add, ← pow_add, ← pow_add]; congr 1; ring
    rw [hres, hMD, e1]
    simp only [zero_mul, zero_add, add_zero] at tv dv
    linear_combination (-(2 ^ (b * e))) * dv + (-(2 ^ (b * e) * 2 ^ (b * D.length))) * mv
      + (-(2 ^ (b * M.length) * 2 ^ (b * e) * 2 ^ (b * D.length))) * tv

end

end NormL

namespace NormL

theorem HeadRoom.with_lsh {bits b lsh l' : Nat} {H : Int} (hr : HeadRoom bits b lsh H) (h : l' < b) :
    HeadRoom bits b l' H := { hr with hlsh := h }

section
variable {bits b lsh : Nat} {H : Int}

/-- pure arithmetic behind the negative-offset case -/
theorem neg_arith (V A q ε : Int) (b lsh p Ln m d e rs as_ : Nat)
    (hS : (2 : Int) ^ p * 2 ^ lsh = 2 ^ (b * Ln)) (hrs : rs = Ln + m + e) (has : as_ = m + d)
    (hde : d = 0 ∨ e = 0) (hε : |ε| < 2 ^ (b * d)) (hε0 : d = 0 → ε = 0)
    (hcore : A * 2 ^ lsh * 2 ^ (b * e) = V * 2 ^ (b * d) + q * 2 ^ (b * (Ln + m + d + e)) + ε * 2 ^ (b * e)) :
    TorusNear V (b * rs) A (b * as_ + p) ∧ (d = 0 → TorusEq V (b * rs) A (b * as_ + p)) := by
  subst hrs has
  have hexact : d = 0 → TorusEq V (b * (Ln + m + e)) A (b * (m + d) + p) := by
    intro hd; subst hd
    rw [hε0 rfl] at hcore
    refine ⟨-q, ?_⟩
    simp only [Nat.mul_zero, pow_zero, mul_one, zero_mul, add_zero, Nat.add_zero] at hcore ⊢
    linear_combination (-(2 ^ p * 2 ^ (b * m))) * hcore + (A * 2 ^ (b * e) * 2 ^ (b * m)) * hS
  refine ⟨?_, hexact⟩
  rcases hde with hd | he
  · exact (hexact hd).near
  · subst he
    simp only [Nat.mul_zero, pow_zero, mul_one, Nat.add_zero] at hcore ⊢
    refine ⟨-q, -(ε * 2 ^ (b * m) * 2 ^ p), ?_, ?_⟩
    · linear_combination (-(2 ^ p * 2 ^ (b * m))) * hcore + (A * 2 ^ (b * m)) * hS
    · rw [abs_neg, abs_mul, abs_mul, abs_of_pos (two_pow_pos _), abs_of_pos (two_pow_pos _)]
      have e1 : (2 : Int) ^ (b * (m + d) + p) = 2 ^ (b * d) * 2 ^ (b * m) * 2 ^ p := by
        rw [← pow_add, ← pow_add]; congr 1; ring
      rw [e1]
      have h1 := two_pow_pos (b * m)
      have h2 := two_pow_pos p
      have : |ε| * 2 ^ (b * m) ≤ 2 ^ (b * d) * 2 ^ (b * m) :=
        mul_le_mul_of_nonneg_right (le_of_lt hε) (le_of_lt h1)
      exact mul_le_mul_of_nonneg_right this (le_of_lt h2)

/-- pure arithmetic behind the non-negative-offset case (`L < a_size` limbs shifted out on top) -/
theorem pos_arith (V A vT vMD q ε : Int) (b lsh L m d e rs as_ : Nat)
    (hA : A = vT * 2 ^ (b * (m + d)) + vMD) (hrs : rs = m + e) (has : as_ = L + m + d)
    (hde : d = 0 ∨ e = 0) (hε : |ε| < 2 ^ (b * d)) (hε0 : d = 0 → ε = 0)
    (hcore : vMD * 2 ^ lsh * 2 ^ (b * e) = V * 2 ^ (b * d) + q * 2 ^ (b * (0 + m + d + e)) + ε * 2 ^ (b * e)) :
    TorusNear V (b * rs) (A * 2 ^ (L * b + lsh)) (b * as_ + 0) ∧
    (d = 0 → TorusEq V (b * rs) (A * 2 ^ (L * b + lsh)) (b * as_ + 0)) := by
  subst hrs has hA
  have hexact : d = 0 → TorusEq V (b * (m + e)) ((vT * 2 ^ (b * (m + d)) + vMD) * 2 ^ (L * b + lsh)) (b * (L + m + d) + 0) := by
    intro hd; subst hd
    rw [hε0 rfl] at hcore
    refine ⟨-(vT * 2 ^ lsh) - q, ?_⟩
    simp only [Nat.mul_zero, pow_zero, mul_one, zero_mul, add_zero, Nat.add_zero, Nat.zero_add] at hcore ⊢
    linear_combination (-(2 ^ (b * L) * 2 ^ (b * m))) * hcore
  refine ⟨?_, hexact⟩
  rcases hde with hd | he
  · exact (hexact hd).near
  · subst he
    simp only [Nat.mul_zero, pow_zero, mul_one, Nat.add_zero, Nat.zero_add] at hcore ⊢
    refine ⟨-(vT * 2 ^ lsh) - q, -(ε * 2 ^ (b * L) * 2 ^ (b * m)), ?_, ?_⟩
    · linear_combination (-(2 ^ (b * L) * 2 ^ (b * m))) * hcore
    · rw [abs_neg, abs_mul, abs_mul, abs_of_pos (two_pow_pos _), abs_of_pos (two_pow_pos _)]
      have e1 : (2 : Int) ^ (b * (L + m + d)) = 2 ^ (b * d) * 2 ^ (b * L) * 2 ^ (b * m) := by
        rw [← pow_add, ← pow_add]; congr 1; ring
      rw [e1]
      have h1 := two_pow_pos (b * L)
      have h2 := two_pow_pos (b * m)
      have : |ε| * 2 ^ (b * L) ≤ 2 ^ (b * d) * 2 ^ (b * L) :=
        mul_le_mul_of_nonneg_right (le_of_lt hε) (le_of_lt h1)
      exact mul_le_mul_of_nonneg_right this (le_of_lt h2)

theorem clampNat_natCast (n hi : Nat) : clampNat (n : Int) hi = min n hi := by simp [clampNat]
theorem clampNat_neg (n hi : Nat) : clampNat (-(n : Int)) hi = 0 := by
  unfold clampNat; have : (-(n : Int)).toNat = 0 := by omega
  rw [this]; simp
theorem clampNat_sub (m n hi : Nat) : clampNat ((m : Int) - n) hi = min (m - n) hi := by
  unfold clampNat; congr 1; omega
theorem clampNat_add (m n hi : Nat) : clampNat ((m : Int) + n) hi = min (m + n) hi := by
  unfold clampNat; congr 1

/-- **value theorem of the same-radix `vec_znx_normalize`**, every offset: output length, balanced
digits, value within one unit of the last output limb, and exact when the output has enough limbs. -/
theorem normalizeInterCoef_value (hr0 : HeadRoom bits b 0 H) (rs : Nat) (off : Int) (a : List Int)
    (ha : ∀ x ∈ a, |x| ≤ H) :
    (normalizeInterCoef bits b rs off a).length = rs ∧
    (∀ d ∈ normalizeInterCoef bits b rs off a, Balanced b d) ∧
    TorusNear (valI b (normalizeInterCoef bits b rs off a)) (b * rs)
      (valI b a * 2 ^ off.toNat) (b * a.length + (-off).toNat) ∧
    (((b * a.length : Nat) : Int) - off ≤ (b * rs : Nat) →
      TorusEq (valI b (normalizeInterCoef bits b rs off a)) (b * rs)
        (valI b a * 2 ^ off.toNat) (b * a.length + (-off).toNat)) := by
  have hb : 1 ≤ b := by have := hr0.hlsh; omega
  obtain ⟨hoff, hl⟩ := splitOffset_spec hb off
  unfold normalizeInterCoef
  generalize hso : splitOffset b off = so at hoff hl ⊢
  obtain ⟨lsh, lo⟩ := so
  simp only at hoff hl ⊢
  have hr := hr0.with_lsh hl
  simp only [interRanges]
  rcases le_or_gt 0 lo with hlo | hlo
  · -- non-negative limb offset: the top `L` limbs of `a` are shifted out
    obtain ⟨L, rfl⟩ := Int.eq_ofNat_of_zero_le hlo
    have hg0 : Int.toNat (-(L : Int) - (rs : Int)) = 0 := by omega
    rw [hg0]
    simp only [Nat.zero_min, gapRun]
    have hoffn : off.toNat = L * b + lsh := by omega
    have hoffm : (-off).toNat = 0 := by omega
    rw [clampNat_neg, clampNat_sub, clampNat_natCast, clampNat_add, hoffn, hoffm]
    by_cases hLa : a.length ≤ L
    · -- everything shifted out: zero
      have h1 : min L a.length = a.length := by omega
      have h2 : min (rs + L) a.length = a.length := by omega
      have h3 : min (a.length - L) rs = 0 := by omega
      rw [h1, h2, h3]
      simp only [List.drop_length, List.take_length, carryOnlyRun, Option.getD_none, middleRun,
        List.replicate_zero, finalTopRun, List.nil_append, List.length_replicate, Nat.sub_zero,
        valI_replicate_zero, zero_mul]
      obtain ⟨x, rfl⟩ : ∃ x, L = a.length + x := ⟨L - a.length, by omega⟩
      have hbal0 : Balanced b 0 := by
        have := two_pow_pos (b - 1); exact ⟨by linarith, this⟩
      have heq : TorusEq 0 (b * rs) (valI b a * 2 ^ ((a.length + x) * b + lsh)) (b * a.length + 0) :=
        ⟨-(valI b a * 2 ^ lsh * 2 ^ (b * x)), by
          simp only [zero_mul, Nat.add_zero]
          have : (2 : Int) ^ ((a.length + x) * b + lsh) = 2 ^ (b * a.length) * 2 ^ (b * x) * 2 ^ lsh := by
            rw [← pow_add, ← pow_add]; congr 1; ring
          rw [this, pow_add]; ring⟩
      exact ⟨trivial, fun d hd => by rw [(List.mem_replicate.mp hd).2]; exact hbal0, heq.near, fun _ => heq⟩
    · have hLa' : L < a.length := by omega
      set aStart := min (rs + L) a.length with haS
      have h1 : min L a.length = L := by omega
      rw [h1]
      set M := (a.take aStart).drop L with hM
      set D := a.drop aStart with hD
      set T := (a.take aStart).take L with hT
      have hMb : ∀ x ∈ M, |x| ≤ H := fun x hx => ha x (List.mem_of_mem_take (List.mem_of_mem_drop hx))
      have hDb : ∀ x ∈ D, |x| ≤ H := fun x hx => ha x (List.mem_of_mem_drop hx)
      obtain ⟨hlen, hbal, q, ε, hε, hε0, hcore⟩ :=
        inter_core hr M D hMb hDb 0 (rs - min (a.length - L) rs)
      have hml : M.length = aStart - L := by simp [hM]; omega
      have hdl : D.length = a.length - aStart := by simp [hD]
      have htl : T.length = L := by simp [hT]; omega
      have hA : valI b a = valI b T * 2 ^ (b * ((aStart - L) + (a.length - aStart))) + valI b (M ++ D) := by
        have e1 : a = T ++ (M ++ D) := by
          rw [← List.append_assoc, hT, hM, List.take_append_drop, hD, List.take_append_drop]
        conv_lhs => rw [e1]
        rw [valI_append, List.length_append, hml, hdl]
      rw [hml, hdl] at hcore
      rw [hdl] at hε
      rw [hml] at hlen
      simp only [List.replicate_zero] at hlen hbal hcore ⊢
      have hε0' : a.length - aStart = 0 → ε = 0 := by
        intro h; apply hε0; rw [hD]; apply List.drop_eq_nil_of_le; omega
      have := pos_arith _ (valI b a) (valI b T) (valI b (M ++ D)) q ε b lsh L (aStart - L) (a.length - aStart)
        (rs - min (a.length - L) rs) rs a.length hA (by omega) (by omega) (by omega) hε hε0' hcore
      refine ⟨by omega, hbal, this.1, fun hex => this.2 ?_⟩
      -- enough limbs ⇒ nothing discarded
      have hex' : b * a.length ≤ b * rs + (L * b + lsh) := by omega
      by_contra hne
      have : rs + L + 1 ≤ a.length := by omega
      have : b * (rs + L + 1) ≤ b * a.length := Nat.mul_le_mul_left b this
      have : b * (rs + L + 1) = b * rs + L * b + b := by ring
      omega
  · -- negative limb offset
    obtain ⟨Ln, rfl⟩ := Int.exists_eq_neg_ofNat (le_of_lt hlo)
    have hLn : 1 ≤ Ln := by omega
    have hbl : lsh ≤ Ln * b := by
      have : b * 1 ≤ b * Ln := Nat.mul_le_mul_left b hLn
      have : b * Ln = Ln * b := Nat.mul_comm _ _
      omega
    have hoff' : off = -((Ln * b : Nat) : Int) + lsh := by rw [hoff]; push_cast; ring
    have hoffn : off.toNat = 0 := by omega
    have hoffm : (-off).toNat = Ln * b - lsh := by omega
    have e1 : (a.length : Int) - -(Ln : Int) = (a.length : Int) + Ln := by ring
    have e2 : (rs : Int) + -(Ln : Int) = (rs : Int) - Ln := by ring
    have hgap : Int.toNat (- -(Ln : Int) - (rs : Int)) = Ln - rs := by omega
    rw [hgap, neg_neg, e1, e2, clampNat_natCast, clampNat_add, clampNat_neg, clampNat_sub, hoffn, hoffm]
    simp only [List.drop_zero, pow_zero, mul_one]
    by_cases hng' : Ln ≤ rs
    · -- the shifted input overlaps the output (or touches it): no gap steps
      have hg0 : Ln - rs = 0 := by omega
      rw [hg0]
      simp only [Nat.zero_min, gapRun]
      have h1 : min Ln rs = Ln := by omega
      rw [h1]
      set aStart := min (rs - Ln) a.length with haS
      have hMb : ∀ x ∈ a.take aStart, |x| ≤ H := fun x hx => ha x (List.mem_of_mem_take hx)
      have hDb : ∀ x ∈ a.drop aStart, |x| ≤ H := fun x hx => ha x (List.mem_of_mem_drop hx)
      obtain ⟨hlen, hbal, q, ε, hε, hε0, hcore⟩ :=
        inter_core hr (a.take aStart) (a.drop aStart) hMb hDb Ln (rs - min (a.length + Ln) rs)
      rw [List.take_append_drop] at hcore
      have hml : (a.take aStart).length = aStart := by simp; omega
      have hdl : (a.drop aStart).length = a.length - aStart := by simp
      rw [hml, hdl] at hcore
      rw [hdl] at hε
      rw [hml] at hlen
      have hS : (2 : Int) ^ (Ln * b - lsh) * 2 ^ lsh = 2 ^ (b * Ln) := by
        rw [← pow_add]; congr 1; rw [Nat.mul_comm b Ln]; omega
      have hε0' : a.length - aStart = 0 → ε = 0 := by
        intro h; apply hε0; apply List.drop_eq_nil_of_le; omega
      have := neg_arith _ (valI b a) q ε b lsh (Ln * b - lsh) Ln aStart (a.length - aStart)
        (rs - min (a.length + Ln) rs) rs a.length hS (by omega) (by omega) (by omega) hε hε0' hcore
      refine ⟨by omega, hbal, this.1, fun hex => this.2 ?_⟩
      have hpc : ((Ln * b - lsh : Nat) : Int) = (Ln : Int) * b - lsh := by
        have : (Ln : Int) * b = ((Ln * b : Nat) : Int) := by push_cast; ring
        omega
      by_contra hne
      have h3 : rs - Ln + 1 ≤ a.length := by omega
      have h4 : b * (rs - Ln + 1) ≤ b * a.length := Nat.mul_le_mul_left b h3
      have h5 : b * (rs - Ln + 1) + b * Ln = b * rs + b := by
        have : rs - Ln + 1 + Ln = rs + 1 := by omega
        rw [← Nat.mul_add, this]; ring
      have h6 : b * Ln = Ln * b := Nat.mul_comm _ _
      have h7 : ((Ln * b : Nat) : Int) = (Ln : Int) * b := by push_cast; ring
      omega
    · -- the shifted input lies entirely below the output: `gap` carry-only steps on zero limbs
      have hgt : rs < Ln := by omega
      set gap := Ln - rs with hgapdef
      have h1 : min Ln rs = rs := by omega
      have h2 : min (rs - Ln) a.length = 0 := by omega
      have h3 : min (a.length + Ln) rs = rs := by omega
      rw [h1, h2, h3]
      simp only [List.drop_zero, List.take_zero, Nat.sub_self]
      have hc0 : |(carryOnlyRun bits b lsh a).getD 0| ≤ H + 3 := by
        rw [carryOnlyRun_getD hr a ha]
        exact (middleRun_spec hr a ha 0 (by have := hr.hH0; simp; linarith)).2.2.2
      rw [gapRun_cap hr hc0, ← carryOnlyRun_gap hr a ha gap]
      set D := List.replicate gap (0 : Int) ++ a with hD
      have hDb : ∀ x ∈ D, |x| ≤ H := by
        intro x hx
        rcases List.mem_append.mp hx with h | h
        · rw [(List.mem_replicate.mp h).2]; simpa using hr.hH0
        · exact ha x h
      obtain ⟨hlen, hbal, q, ε, hε, hε0, hcore⟩ := inter_core hr [] D (by simp) hDb rs 0
      simp only [List.nil_append, List.length_nil, Nat.add_zero, Nat.mul_zero, pow_zero, mul_one] at hlen hcore
      have hdl : D.length = gap + a.length := by simp [hD]
      have hDv : valI b D = valI b a := by
        rw [hD, valI_append, valI_replicate_zero]; ring
      rw [hdl] at hcore hε
      rw [hDv] at hcore
      refine ⟨hlen, hbal, ?_, ?_⟩
      · by_cases hrs0 : rs = 0
        · subst hrs0
          simpa using torusNear_zero_prec _ (valI b a) _
        · have hrs1 : 1 ≤ rs := by omega
          have hlr : lsh ≤ rs * b := by
            have : b * 1 ≤ b * rs := Nat.mul_le_mul_left b hrs1
            have : b * rs = rs * b := Nat.mul_comm _ _
            omega
          have hS : (2 : Int) ^ (rs * b - lsh) * 2 ^ lsh = 2 ^ (b * rs) := by
            rw [← pow_add]; congr 1; rw [Nat.mul_comm b rs]; omega
          have hcore' : valI b a * 2 ^ lsh * 2 ^ (b * 0)
              = valI b (finalTopRun bits b lsh (List.replicate rs 0)
                  (middleRun bits b lsh [] ((carryOnlyRun bits b lsh D).getD 0)).2 ++
                  (middleRun bits b lsh [] ((carryOnlyRun bits b lsh D).getD 0)).1 ++ List.replicate 0 0)
                  * 2 ^ (b * (gap + a.length))
                + q * 2 ^ (b * (rs + 0 + (gap + a.length) + 0)) + ε * 2 ^ (b * 0) := by
            simpa using hcore
          have := neg_arith _ (valI b a) q ε b lsh (rs * b - lsh) rs 0 (gap + a.length) 0 rs (gap + a.length)
            hS (by omega) (by omega) (by omega) hε (by omega) hcore'
          have hpy : b * (gap + a.length) + (rs * b - lsh) = b * a.length + (Ln * b - lsh) := by
            have e : Ln = gap + rs := by omega
            have e' : Ln * b = gap * b + rs * b := by rw [e, Nat.add_mul]
            have e'' : b * (gap + a.length) = gap * b + b * a.length := by ring
            omega
          rw [hpy] at this
          simpa using this.1
      · -- enough limbs is impossible in the gap
        intro hex
        exfalso
        have e : Ln = gap + rs := by omega
        have e' : Ln * b = gap * b + rs * b := by rw [e, Nat.add_mul]
        have hgb : b * 1 ≤ b * gap := Nat.mul_le_mul_left b (by omega)
        have e3 : b * gap = gap * b := Nat.mul_comm _ _
        have e4 : b * rs = rs * b := Nat.mul_comm _ _
        have hpc : ((Ln * b : Nat) : Int) = ((gap * b : Nat) : Int) + ((rs * b : Nat) : Int) := by
          rw [e']; push_cast; ring
        have : (0 : Int) ≤ ((b * a.length : Nat) : Int) := by positivity
        omega

end

end NormL

namespace NormL

theorem splitOffset_unique {b : Nat} (hb : 1 ≤ b) (off q : Int) (r : Nat) (h : off = q * b + r) (hr : r < b) :
    splitOffset b off = (r, q) := by
  obtain ⟨h2, l2⟩ := splitOffset_spec hb off
  generalize splitOffset b off = s2 at h2 l2 ⊢
  obtain ⟨r2, q2⟩ := s2
  simp only at h2 l2 ⊢
  have hbpos : (0 : Int) < b := by exact_mod_cast hb
  have key : (q2 - q) * b = (r : Int) - r2 := by rw [h] at h2; linarith
  have hd : q2 - q = 0 := by
    by_contra hne
    rcases lt_or_gt_of_ne hne with h' | h'
    · have : (q2 - q) * b ≤ -1 * b := mul_le_mul_of_nonneg_right (by omega) (le_of_lt hbpos)
      omega
    · have : 1 * (b : Int) ≤ (q2 - q) * b := mul_le_mul_of_nonneg_right (by omega) (le_of_lt hbpos)
      omega
  rw [hd] at key
  have : r2 = r := by omega
  have : q2 = q := by omega
  simp [*]

/-- `k + lsh = steps·b` for the right-shift parameters -/
theorem rshSteps_spec {b : Nat} (hb : 1 ≤ b) (k : Nat) :
    k + (rshSteps b k).2 = (rshSteps b k).1 * b ∧ (rshSteps b k).2 < b := by
  unfold rshSteps
  have hdm := Nat.div_add_mod k b
  have hlt := Nat.mod_lt k (show b > 0 by omega)
  have hmul : b * (k / b) = k / b * b := Nat.mul_comm _ _
  by_cases h0 : k % b = 0
  · simp only [h0, ne_eq, not_true_eq_false, if_false, Nat.sub_zero, Nat.mod_self]
    omega
  · simp only [h0, ne_eq, not_false_eq_true, if_true]
    have : (b - k % b) % b = b - k % b := Nat.mod_eq_of_lt (by omega)
    rw [this, Nat.add_mul]
    omega

/-- **`vec_znx_rsh` (overwrite form) is the same-radix normalisation with offset `−k`** -/
theorem rshCoef_overwrite_eq {b : Nat} (hb : 1 ≤ b) (k : Nat) (a res : List Int) :
    rshCoef .overwrite b k a res = normalizeInterCoef 64 b res.length (-(k : Int)) a := by
  obtain ⟨hs, hl⟩ := rshSteps_spec hb k
  have hso : splitOffset b (-(k : Int)) = ((rshSteps b k).2, -((rshSteps b k).1 : Int)) := by
    apply splitOffset_unique hb _ _ _ _ hl
    have : ((k + (rshSteps b k).2 : Nat) : Int) = (((rshSteps b k).1 * b : Nat) : Int) := by rw [hs]
    push_cast at this
    linarith
  unfold rshCoef normalizeInterCoef
  rw [hso]
  simp only [interRanges]
  generalize (rshSteps b k).1 = steps
  generalize (rshSteps b k).2 = lsh
  have e1 : (a.length : Int) - -(steps : Int) = (a.length : Int) + steps := by ring
  have e2 : (res.length : Int) + -(steps : Int) = (res.length : Int) - steps := by ring
  have hgap : Int.toNat (- -(steps : Int) - (res.length : Int)) = steps - res.length := by omega
  rw [hgap, neg_neg, e1, e2, clampNat_natCast, clampNat_add, clampNat_neg, clampNat_sub]
  have m1 : min res.length steps = min steps res.length := Nat.min_comm _ _
  have m2 : min res.length (a.length + steps) = min (a.length + steps) res.length := Nat.min_comm _ _
  have m3 : min a.length (res.length - steps) = min (res.length - steps) a.length := Nat.min_comm _ _
  rw [m1, m2, m3]
  have hz : min (res.length - steps) a.length - (min (a.length + steps) res.length - min steps res.length) = 0 := by
    omega
  rw [hz]

theorem splitOffset_neg_natCast {b : Nat} (hb : 1 ≤ b) (k : Nat) :
    splitOffset b (-(k : Int)) = ((rshSteps b k).2, -((rshSteps b k).1 : Int)) := by
  obtain ⟨hs, hl⟩ := rshSteps_spec hb k
  apply splitOffset_unique hb _ _ _ _ hl
  have : ((k + (rshSteps b k).2 : Nat) : Int) = (((rshSteps b k).1 * b : Nat) : Int) := by rw [hs]
  push_cast at this
  linarith

end NormL

namespace NormL

theorem finalStepS_eq_middle_fst (bits b lsh : Nat) (x c : Int) :
    finalStepS bits b lsh x c = (middleStepS bits b lsh x c).1 := by
  unfold finalStepS middleStepS
  split <;> rfl

theorem middleRun_length (bits b lsh : Nat) (l : List Int) (c : Int) :
    (middleRun bits b lsh l c).1.length = l.length := by
  induction l with
  | nil => rfl
  | cons x rest ih => simp [middleRun, ih]

theorem finalTopRun_eq_middleRun (bits b lsh : Nat) (l : List Int) (c : Int) :
    finalTopRun bits b lsh l c = (middleRun bits b lsh l c).1 := by
  cases l with
  | nil => rfl
  | cons x rest => simp [finalTopRun, middleRun, finalStepS_eq_middle_fst]

theorem finalTopRun_nil (bits b lsh : Nat) (c : Int) : finalTopRun bits b lsh [] c = [] := rfl

theorem zipWith_snd_eq {α : Type} (l : List α) (ds : List Int) (h : l.length = ds.length) :
    List.zipWith (fun (_ : α) d => d) l ds = ds := by
  induction l generalizing ds with
  | nil => cases ds with
    | nil => rfl
    | cons d ds => simp at h
  | cons x rest ih => cases ds with
    | nil => simp at h
    | cons d ds => simp at h; simp [ih ds h]

/-- **`vec_znx_lsh` (overwrite form) is the same-radix normalisation with offset `+k`** -/
theorem lshCoef_overwrite_eq {b : Nat} (hb : 1 ≤ b) (k : Nat) (a res : List Int) :
    lshCoef .overwrite b k a res = normalizeInterCoef 64 b res.length (k : Int) a := by
  have hso : splitOffset b (k : Int) = (k % b, ((k / b : Nat) : Int)) := by
    apply splitOffset_unique hb _ _ _ _ (Nat.mod_lt k (by omega))
    have hn : k = k / b * b + k % b := by
      have := Nat.div_add_mod k b; rw [Nat.mul_comm] at this; omega
    exact_mod_cast hn
  unfold lshCoef normalizeInterCoef
  rw [hso]
  simp only [interRanges]
  generalize k / b = steps
  generalize k % b = lsh
  have hg0 : Int.toNat (-(steps : Int) - (res.length : Int)) = 0 := by omega
  rw [hg0, clampNat_neg, clampNat_sub, clampNat_natCast, clampNat_add]
  simp only [Nat.zero_min, gapRun, List.replicate_zero, finalTopRun_nil, List.nil_append, Fuse.apply, if_true]
  by_cases hbig : steps ≥ max res.length a.length
  · rw [if_pos hbig]
    have h1 : min steps a.length = a.length := by omega
    have h2 : min (res.length + steps) a.length = a.length := by omega
    have h3 : min (a.length - steps) res.length = 0 := by omega
    rw [h1, h2, h3]
    simp [middleRun]
  · rw [if_neg hbig]
    have hms : min res.length (a.length - steps) = min (a.length - steps) res.length := Nat.min_comm _ _
    rw [hms]
    set minSize := min (a.length - steps) res.length with hminSize
    have hcos : min (steps + minSize) a.length = min (res.length + steps) a.length := by omega
    rw [hcos]
    set aStart := min (res.length + steps) a.length with haStart
    have hlist : (a.take aStart).drop (min steps a.length) = (a.drop steps).take minSize := by
      by_cases hsa : steps ≤ a.length
      · have : min steps a.length = steps := by omega
        rw [this, List.drop_take]
        congr 1
        omega
      · have h1 : min steps a.length = a.length := by omega
        have h2 : aStart = a.length := by omega
        have h3 : a.drop steps = [] := List.drop_eq_nil_of_le (by omega)
        rw [h1, h2, h3]
        simp
    rw [hlist, finalTopRun_eq_middleRun]
    congr 1
    apply zipWith_snd_eq
    rw [middleRun_length]
    simp only [List.length_take, List.length_drop]
    omega

end NormL
