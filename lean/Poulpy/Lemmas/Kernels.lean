import Poulpy.Model.Kernels
/-
Extent lemmas for the kernel footprints of Model/Kernels.lean: each primitive is in bounds as soon as the
slices it is handed are long enough (the kernel's own contract); composition lemmas for `++` / `flatMap`.
-/
namespace Kern

theorem inb_nil (len : Nat → Nat) : InBounds len [] := by intro x hx; cases hx

theorem inb_append {len : Nat → Nat} {a b : List Acc} (ha : InBounds len a) (hb : InBounds len b) : InBounds len (a ++ b) := by
  intro x hx
  rcases List.mem_append.mp hx with h | h
  · exact ha x h
  · exact hb x h

theorem inb_cons {len : Nat → Nat} {a : Acc} {b : List Acc} (ha : a.hi ≤ len a.buf) (hb : InBounds len b) : InBounds len (a :: b) := by
  intro x hx
  rcases List.mem_cons.mp hx with h | h
  · rw [h]; exact ha
  · exact hb x h

theorem inb_flatMap {α : Type} {len : Nat → Nat} {l : List α} {f : α → List Acc} (h : ∀ a ∈ l, InBounds len (f a)) :
    InBounds len (l.flatMap f) := by
  intro x hx
  obtain ⟨a, ha, hxa⟩ := List.mem_flatMap.mp hx
  exact h a ha x hxa

theorem inb_map {α : Type} {len : Nat → Nat} {l : List α} {f : α → Acc} (h : ∀ a ∈ l, (f a).hi ≤ len (f a).buf) :
    InBounds len (l.map f) := by
  intro x hx
  obtain ⟨a, ha, hxa⟩ := List.mem_map.mp hx
  rw [← hxa]; exact h a ha

theorem inb_ite {len : Nat → Nat} {c : Prop} [Decidable c] {a b : List Acc} (ha : c → InBounds len a) (hb : ¬ c → InBounds len b) :
    InBounds len (if c then a else b) := by
  split
  · exact ha ‹_›
  · exact hb ‹_›

theorem inb_of_append_left {len : Nat → Nat} {a b : List Acc} (h : InBounds len (a ++ b)) : InBounds len a :=
  fun x hx => h x (List.mem_append_left _ hx)

/-! ### primitives -/

theorem extract1blk_inb {len : Nat → Nat} (m rows blk : Nat) (d s : Nat × Nat)
    (hs : s.2 + 4 * blk + (2 * rows - 1) * (4 * (m / 4)) + 4 ≤ len s.1) (hd : d.2 + 8 * rows ≤ len d.1) :
    InBounds len (extract1blk m rows blk d s) := by
  unfold extract1blk
  refine inb_flatMap (fun r hr => ?_)
  have hr' : r < 2 * rows := List.mem_range.mp hr
  have h1 : r * (4 * (m / 4)) ≤ (2 * rows - 1) * (4 * (m / 4)) := Nat.mul_le_mul_right _ (by omega)
  refine inb_cons ?_ (inb_cons ?_ (inb_nil _))
  · simp only [rd]; omega
  · simp only [wt]; omega

theorem save1blkContig_inb {len : Nat → Nat} (m rows blk : Nat) (d s : Nat × Nat)
    (hd : d.2 + 4 * blk + (2 * rows - 1) * (4 * (m / 4)) + 4 ≤ len d.1) (hs : s.2 + 8 * rows ≤ len s.1) :
    InBounds len (save1blkContig m rows blk d s) := by
  unfold save1blkContig
  refine inb_flatMap (fun r hr => ?_)
  have hr' : r < 2 * rows := List.mem_range.mp hr
  have h1 : r * (4 * (m / 4)) ≤ (2 * rows - 1) * (4 * (m / 4)) := Nat.mul_le_mul_right _ (by omega)
  refine inb_cons ?_ (inb_cons ?_ (inb_nil _))
  · simp only [rd]; omega
  · simp only [wt]; omega

theorem save1blk_inb {len : Nat → Nat} (m blk : Nat) (d s : Nat × Nat) (hd : d.2 + 4 * blk + m + 4 ≤ len d.1) (hs : s.2 + 8 ≤ len s.1) :
    InBounds len (save1blk m blk d s) := by
  unfold save1blk
  refine inb_cons ?_ (inb_cons ?_ (inb_cons ?_ (inb_cons ?_ (inb_nil _)))) <;> simp only [rd, wt] <;> omega

theorem save2blk_inb {len : Nat → Nat} (m blk : Nat) (d s : Nat × Nat) (hd : d.2 + 4 * blk + 3 * m + 4 ≤ len d.1) (hs : s.2 + 16 ≤ len s.1) :
    InBounds len (save2blk m blk d s) := by
  unfold save2blk
  refine inb_cons ?_ (inb_cons ?_ (inb_cons ?_ (inb_cons ?_ (inb_cons ?_ (inb_nil _))))) <;> simp only [rd, wt] <;> omega

theorem mat1col_inb {len : Nat → Nat} (nrows : Nat) (d u v : Nat × Nat) (hd : d.2 + 8 ≤ len d.1) (hu : u.2 + 8 * nrows ≤ len u.1)
    (hv : v.2 + 8 * nrows ≤ len v.1) : InBounds len (mat1col nrows d u v) := by
  unfold mat1col
  refine inb_append (inb_flatMap (fun i hi => ?_)) (inb_cons (by simp only [wt]; omega) (inb_nil _))
  have hi' : i < nrows := List.mem_range.mp hi
  refine inb_cons ?_ (inb_cons ?_ (inb_nil _)) <;> simp only [rd] <;> omega

theorem mat2cols_inb {len : Nat → Nat} (nrows : Nat) (d u v : Nat × Nat) (hd : d.2 + 16 ≤ len d.1) (hu : u.2 + 8 * nrows ≤ len u.1)
    (hv : v.2 + 16 * nrows ≤ len v.1) : InBounds len (mat2cols nrows d u v) := by
  unfold mat2cols
  refine inb_append (inb_flatMap (fun i hi => ?_)) (inb_cons (by simp only [wt]; omega) (inb_nil _))
  have hi' : i < nrows := List.mem_range.mp hi
  refine inb_cons ?_ (inb_cons ?_ (inb_nil _)) <;> simp only [rd] <;> omega

theorem mat2cols2nd_inb {len : Nat → Nat} (nrows : Nat) (d u v : Nat × Nat) (hd : d.2 + 8 ≤ len d.1) (hu : u.2 + 8 * nrows ≤ len u.1)
    (hv : v.2 + 16 * nrows ≤ len v.1) : InBounds len (mat2cols2nd nrows d u v) := by
  unfold mat2cols2nd
  refine inb_append (inb_flatMap (fun i hi => ?_)) (inb_cons (by simp only [wt]; omega) (inb_nil _))
  have hi' : i < nrows := List.mem_range.mp hi
  refine inb_cons ?_ (inb_cons ?_ (inb_nil _)) <;> simp only [rd] <;> omega

/-- the convolution kernels need `a_size ≥ 1` (the code computes `a_size − 1`): with it every load of `a` stays
below `8·a_size` and every load of `b` below `8·b_size` -/
theorem conv1coeff_inb {len : Nat → Nat} (k aSize bSize : Nat) (d a b : Nat × Nat) (ha0 : 1 ≤ aSize)
    (hd : d.2 + 8 ≤ len d.1) (ha : a.2 + 8 * aSize ≤ len a.1) (hb : b.2 + 8 * bSize ≤ len b.1) :
    InBounds len (conv1coeff k aSize bSize d a b) := by
  unfold conv1coeff
  refine inb_cons (by simp only [wt]; omega) ?_
  split
  · exact inb_nil _
  · refine inb_flatMap (fun j hj => ?_)
    have hj' := List.mem_range'_1.mp hj
    refine inb_cons ?_ (inb_cons ?_ (inb_nil _)) <;> simp only [rd] <;> omega

theorem conv2coeffs_inb {len : Nat → Nat} (k aSize bSize : Nat) (d a b : Nat × Nat) (ha0 : 1 ≤ aSize)
    (hd : d.2 + 16 ≤ len d.1) (ha : a.2 + 8 * aSize ≤ len a.1) (hb : b.2 + 8 * bSize ≤ len b.1) :
    InBounds len (conv2coeffs k aSize bSize d a b) := by
  unfold conv2coeffs
  exact inb_append (conv1coeff_inb k aSize bSize d a b ha0 (by omega) ha hb)
    (conv1coeff_inb (k + 1) aSize bSize (d.1, d.2 + 8) a b ha0 (by simp only; omega) ha hb)

theorem conv_inb {len : Nat → Nat} (dstSize offset aSize bSize : Nat) (d a b : Nat × Nat) (ha0 : 1 ≤ aSize)
    (hd : d.2 + 8 * dstSize ≤ len d.1) (ha : a.2 + 8 * aSize ≤ len a.1) (hb : b.2 + 8 * bSize ≤ len b.1) :
    InBounds len (conv dstSize offset aSize bSize d a b) := by
  unfold conv
  refine inb_append (inb_flatMap (fun t ht => ?_)) (inb_ite (fun h => ?_) (fun _ => inb_nil _))
  · have ht' : t < dstSize / 2 := List.mem_range.mp ht
    exact conv2coeffs_inb _ aSize bSize _ a b ha0 (by simp only; omega) ha hb
  · exact conv1coeff_inb _ aSize bSize _ a b ha0 (by simp only; omega) ha hb

theorem i64extract_inb {len : Nat → Nat} (n offset rows blk : Nat) (d s : Nat × Nat)
    (hs : rows = 0 ∨ s.2 + offset + 8 * blk + (rows - 1) * (4 * (n / 4)) + 8 ≤ len s.1) (hd : d.2 + 8 * rows ≤ len d.1) :
    InBounds len (i64extract n offset rows blk d s) := by
  unfold i64extract
  refine inb_flatMap (fun r hr => ?_)
  have hr' : r < rows := List.mem_range.mp hr
  have hs' : s.2 + offset + 8 * blk + (rows - 1) * (4 * (n / 4)) + 8 ≤ len s.1 := by
    rcases hs with h | h
    · omega
    · exact h
  have h1 : r * (4 * (n / 4)) ≤ (rows - 1) * (4 * (n / 4)) := Nat.mul_le_mul_right _ (by omega)
  refine inb_cons ?_ (inb_cons ?_ (inb_nil _))
  · simp only [rd]; omega
  · simp only [wt]; omega

theorem i64save_inb {len : Nat → Nat} (n offset rows blk : Nat) (d s : Nat × Nat)
    (hd : rows = 0 ∨ d.2 + offset + 8 * blk + (rows - 1) * (4 * (n / 4)) + 8 ≤ len d.1) (hs : s.2 + 8 * rows ≤ len s.1) :
    InBounds len (i64save n offset rows blk d s) := by
  unfold i64save
  refine inb_flatMap (fun r hr => ?_)
  have hr' : r < rows := List.mem_range.mp hr
  have hd' : d.2 + offset + 8 * blk + (rows - 1) * (4 * (n / 4)) + 8 ≤ len d.1 := by
    rcases hd with h | h
    · omega
    · exact h
  have h1 : r * (4 * (n / 4)) ≤ (rows - 1) * (4 * (n / 4)) := Nat.mul_le_mul_right _ (by omega)
  refine inb_cons ?_ (inb_cons ?_ (inb_nil _))
  · simp only [rd]; omega
  · simp only [wt]; omega

theorem convConst1_inb {len : Nat → Nat} (k aSize bSize : Nat) (d a b : Nat × Nat) (ha0 : 1 ≤ aSize)
    (hd : d.2 + 8 ≤ len d.1) (ha : a.2 + 8 * aSize ≤ len a.1) (hb : b.2 + bSize ≤ len b.1) :
    InBounds len (convConst1 k aSize bSize d a b) := by
  unfold convConst1
  refine inb_cons (by simp only [wt]; omega) ?_
  split
  · exact inb_nil _
  · refine inb_flatMap (fun j hj => ?_)
    have hj' := List.mem_range'_1.mp hj
    refine inb_cons ?_ (inb_cons ?_ (inb_nil _)) <;> simp only [rd] <;> omega

theorem convConst_inb {len : Nat → Nat} (dstSize offset aSize bSize : Nat) (d a b : Nat × Nat) (ha0 : 1 ≤ aSize)
    (hd : d.2 + 8 * dstSize ≤ len d.1) (ha : a.2 + 8 * aSize ≤ len a.1) (hb : b.2 + bSize ≤ len b.1) :
    InBounds len (convConst dstSize offset aSize bSize d a b) := by
  unfold convConst
  refine inb_append (inb_flatMap (fun t ht => ?_)) (inb_ite (fun h => ?_) (fun _ => inb_nil _))
  · have ht' : t < dstSize / 2 := List.mem_range.mp ht
    exact inb_append (convConst1_inb _ aSize bSize _ a b ha0 (by simp only; omega) ha hb)
      (convConst1_inb _ aSize bSize _ a b ha0 (by simp only; omega) ha hb)
  · exact convConst1_inb _ aSize bSize _ a b ha0 (by simp only; omega) ha hb

/-! ### arithmetic helpers -/

theorem blk_fit {blk q Q x : Nat} (hb : blk < q) (hx : x ≤ Q) : blk * Q + x ≤ q * Q := by
  have : (blk + 1) * Q ≤ q * Q := Nat.mul_le_mul_right _ hb
  rw [Nat.add_mul, Nat.one_mul] at this
  omega

theorem col_fit {c k C R : Nat} (hc : c + k ≤ C) : c * R + k * R ≤ C * R := by
  have := Nat.mul_le_mul_right R hc
  rwa [Nat.add_mul] at this

theorem mem_pairCols {lo colMax c : Nat} (h : c ∈ pairCols lo colMax) : lo ≤ c ∧ c + 2 ≤ colMax ∧ (c - lo) % 2 = 0 := by
  unfold pairCols at h
  simp only [List.mem_filter, List.mem_range, Bool.and_eq_true, decide_eq_true_eq] at h
  exact ⟨h.2.1.1, h.2.1.2, h.2.2⟩

theorem extract1blk_inb' {len : Nat → Nat} (m rows blk : Nat) (d s : Nat × Nat)
    (hs : rows = 0 ∨ s.2 + 4 * blk + (2 * rows - 1) * (4 * (m / 4)) + 4 ≤ len s.1) (hd : d.2 + 8 * rows ≤ len d.1) :
    InBounds len (extract1blk m rows blk d s) := by
  rcases hs with h | h
  · subst h; unfold extract1blk; simp; exact inb_nil _
  · exact extract1blk_inb m rows blk d s h hd

/-- `blk`-th block of the prepared matrix: `blk·(8·nrows·ncols) + x` stays inside `2m·nrows·ncols` when `x` fits one block -/
theorem pm_fit {m blk nrows ncols x : Nat} (hm : m % 4 = 0) (hb : blk < m / 4) (hx : x ≤ 8 * nrows * ncols) :
    blk * (8 * nrows * ncols) + x ≤ 2 * m * nrows * ncols := by
  have k := blk_fit (blk := blk) (q := m / 4) (Q := 8 * nrows * ncols) (x := x) hb hx
  have e : m / 4 * (8 * nrows * ncols) = 2 * m * nrows * ncols := by
    calc m / 4 * (8 * nrows * ncols) = (m / 4 * 8) * (nrows * ncols) := by
          rw [Nat.mul_assoc 8 nrows ncols, ← Nat.mul_assoc]
      _ = 2 * m * (nrows * ncols) := by rw [show m / 4 * 8 = 2 * m by omega]
      _ = 2 * m * nrows * ncols := by rw [Nat.mul_assoc (2 * m) nrows ncols]
  omega

/-- columns `c .. c+k` of one block: `c·(8·nrows) + y ≤ 8·nrows·ncols` when `c + k ≤ ncols` and `y` fits `k` columns -/
theorem col_ext {c k ncols nrows y : Nat} (hc : c + k ≤ ncols) (hy : y ≤ k * (8 * nrows)) : c * (8 * nrows) + y ≤ 8 * nrows * ncols := by
  have h1 := col_fit (c := c) (k := k) (C := ncols) (R := 8 * nrows) hc
  have e : ncols * (8 * nrows) = 8 * nrows * ncols := Nat.mul_comm _ _
  omega

theorem rows_fit {rowMax m aSize : Nat} (h1 : 1 ≤ rowMax) (hr : rowMax ≤ aSize) : (2 * rowMax - 1) * m + m ≤ 2 * m * aSize := by
  have e : (2 * rowMax - 1) * m + m = (2 * rowMax) * m := by
    have : (2 * rowMax - 1 + 1) * m = (2 * rowMax) * m := by rw [show 2 * rowMax - 1 + 1 = 2 * rowMax by omega]
    rw [Nat.add_mul, Nat.one_mul] at this; exact this
  have k : rowMax * m ≤ aSize * m := Nat.mul_le_mul_right _ hr
  calc (2 * rowMax - 1) * m + m = 2 * rowMax * m := e
    _ = 2 * (rowMax * m) := Nat.mul_assoc _ _ _
    _ ≤ 2 * (aSize * m) := Nat.mul_le_mul_left _ k
    _ = 2 * m * aSize := by rw [Nat.mul_comm aSize m, Nat.mul_assoc]

theorem limb_fit {j k n S : Nat} (h : j + k ≤ S) : j * n + k * n ≤ n * S := by
  have := col_fit (c := j) (k := k) (C := S) (R := n) h
  rw [Nat.mul_comm n S]; exact this

theorem stride4 {n c : Nat} (h : n % 4 = 0) : 4 * (n * c / 4) = n * c := by
  have e : n * c = 4 * (n / 4 * c) := by
    have : n = 4 * (n / 4) := by omega
    calc n * c = 4 * (n / 4) * c := by rw [← this]
      _ = 4 * (n / 4 * c) := Nat.mul_assoc _ _ _
  rw [e, Nat.mul_div_cancel_left _ (by decide : 0 < 4)]

/-- limb `j`, column `c` of a limb-major container with `C` columns and `S` limbs: `n·(j·C + c) + n ≤ n·C·S` -/
theorem at_fit {n j C c S : Nat} (hj : j < S) (hc : c < C) : n * (j * C + c) + n ≤ n * C * S := by
  have k : j * C + (c + 1) ≤ S * C := blk_fit hj (by omega)
  calc n * (j * C + c) + n = n * (j * C + (c + 1)) := by rw [Nat.mul_add n _ (c + 1), Nat.mul_add n _ c, Nat.mul_add n c 1]; omega
    _ ≤ n * (S * C) := Nat.mul_le_mul_left _ k
    _ = n * C * S := by rw [Nat.mul_comm S C, Nat.mul_assoc]

/-- block `blk` of column `col` of a prepared convolution operand (`S` limbs, 8 doubles per limb and block):
`col·n·S + blk·(S·8) + x ≤ n·C·S` for `x ≤ S·8` -/
theorem cnv_blk_fit {m col C S blk x : Nat} (hm : m % 4 = 0) (hcol : col < C) (hb : blk < m / 4) (hx : x ≤ S * 8) :
    col * (2 * m) * S + blk * (S * 8) + x ≤ 2 * m * C * S := by
  have k1 := blk_fit (blk := blk) (q := m / 4) (Q := S * 8) (x := x) hb hx
  have e1 : m / 4 * (S * 8) = 2 * m * S := by
    calc m / 4 * (S * 8) = (m / 4 * 8) * S := by rw [Nat.mul_comm S 8, Nat.mul_assoc]
      _ = 2 * m * S := by rw [show m / 4 * 8 = 2 * m by omega]
  have k2 := blk_fit (blk := col) (q := C) (Q := 2 * m * S) (x := 2 * m * S) hcol (Nat.le_refl _)
  have e2 : col * (2 * m) * S = col * (2 * m * S) := Nat.mul_assoc _ _ _
  have e3 : C * (2 * m * S) = 2 * m * C * S := by
    rw [← Nat.mul_assoc, Nat.mul_comm C (2 * m)]
  omega

theorem ntt_pm_fit {n blk nrows ncols x : Nat} (hn : n % 2 = 0) (hb : blk < n / 2) (hx : x ≤ nrows * ncols * 16) :
    blk * (nrows * ncols * 16) + x ≤ 8 * n * nrows * ncols := by
  have k := blk_fit (blk := blk) (q := n / 2) (Q := nrows * ncols * 16) (x := x) hb hx
  have e : n / 2 * (nrows * ncols * 16) = 8 * n * nrows * ncols := by
    calc n / 2 * (nrows * ncols * 16) = (n / 2 * 16) * (nrows * ncols) := by
          rw [Nat.mul_comm (nrows * ncols) 16, ← Nat.mul_assoc]
      _ = 8 * n * (nrows * ncols) := by rw [show n / 2 * 16 = 8 * n by omega]
      _ = 8 * n * nrows * ncols := by rw [Nat.mul_assoc (8 * n) nrows ncols]
  omega

theorem ntt_col_ext {c k ncols nrows y : Nat} (hc : c + k ≤ ncols) (hy : y ≤ k * (nrows * 16)) : c * (nrows * 16) + y ≤ nrows * ncols * 16 := by
  have h1 := col_fit (c := c) (k := k) (C := ncols) (R := nrows * 16) hc
  have e : ncols * (nrows * 16) = nrows * ncols * 16 := by rw [← Nat.mul_assoc, Nat.mul_comm ncols nrows]
  omega

/-- limb `(col, j)` of a layout with `w·n` scalars per limb -/
theorem atw_fit {w j C c S x : Nat} (hj : j < S) (hc : c < C) (hx : x ≤ w) : w * (j * C + c) + x ≤ w * C * S := by
  have := at_fit (n := w) (j := j) (C := C) (c := c) (S := S) hj hc
  omega

/-- row `row` of column `c` in a row-major pack source: `w·c + row·(w·C) + x ≤ w·C·S` for `x ≤ w` -/
theorem rowcol_fit {w c C row S x : Nat} (hc : c < C) (hr : row < S) (hx : x ≤ w) : w * c + row * (w * C) + x ≤ w * C * S := by
  have h1 : w * c + w ≤ w * C := by
    have := Nat.mul_le_mul_left w (show c + 1 ≤ C by omega)
    rwa [Nat.mul_add, Nat.mul_one] at this
  have h2 := blk_fit (blk := row) (q := S) (Q := w * C) (x := w * c + x) hr (by omega)
  have e : S * (w * C) = w * C * S := Nat.mul_comm _ _
  omega

end Kern
