import Poulpy.Lemmas.CoreOpsNorm
import Poulpy.Lemmas.CoreEncDec
import Mathlib.Tactic.Choose

/-!
Numeric form of the shift / normalisation statements: the error term `E₀ + Σ sᵢ ⋆ Eᵢ₊₁` is bounded
coefficient-wise by `(1 + Σ‖sᵢ‖₁)·max|E|`, and a per-coefficient torus relation on every column
(the shape of the C08 value theorems) carries over to the phase.
-/

namespace C02L
open Hal Core Core.Ops CoreEnc

/-- `Σ_{i<m} ‖sᵢ‖₁` -/
def snorm (m : Nat) (s : List Poly) : Int := ((List.range m).map (fun i => norm1 (s.getD i []))).sum

theorem snorm_succ (m : Nat) (s : List Poly) : snorm (m + 1) s = snorm m s + norm1 (s.getD m []) := by
  simp [snorm, List.range_succ]

theorem snorm_nonneg (m : Nat) (s : List Poly) : 0 ≤ snorm m s := by
  induction m with
  | zero => simp [snorm]
  | succ m ih => rw [snorm_succ]; have := norm1_nonneg (s.getD m []); omega

theorem polyAdd_bound {B C : Int} (x y : Poly) (hx : ∀ v ∈ x, |v| ≤ B) (hy : ∀ v ∈ y, |v| ≤ C) :
    ∀ v ∈ polyAdd x y, |v| ≤ B + C := by
  intro v hv
  obtain ⟨j, hj, rfl⟩ := List.getElem_of_mem hv
  simp only [polyAdd, List.length_zipWith] at hj
  simp only [polyAdd, List.getElem_zipWith]
  have h1 := hx _ (List.getElem_mem (by omega : j < x.length))
  have h2 := hy _ (List.getElem_mem (by omega : j < y.length))
  exact (abs_add_le _ _).trans (by omega)

/-- **|E₀ + Σ sᵢ ⋆ Eᵢ₊₁| ≤ (1 + Σ‖sᵢ‖₁) · max|E|**, coefficient-wise -/
theorem errTo_bound {B : Int} (m : Nat) (s : List Poly) (E : Nat → Poly) (hE : ∀ i, i ≤ m → ∀ v ∈ E i, |v| ≤ B) :
    ∀ v ∈ errTo m s E, |v| ≤ (1 + snorm m s) * B := by
  induction m with
  | zero =>
    intro v hv
    have := hE 0 (Nat.le_refl 0) v hv
    simpa [snorm] using this
  | succ m ih =>
    rw [errTo_succ, snorm_succ]
    intro v hv
    have h1 := ih (fun i hi => hE i (by omega))
    have h2 := negMul_bound (s.getD m []) (E (m + 1)) (hE (m + 1) (Nat.le_refl _))
    have := polyAdd_bound _ _ h1 h2 v hv
    linarith

theorem errTo_add_scale {N : Nat} (M : Int) (m : Nat) (s : List Poly) (E Q : Nat → Poly)
    (hE : ∀ i, (E i).length = N) (hQ : ∀ i, (Q i).length = N) :
    errTo m s (fun i => polyAdd (E i) (polyScale M (Q i))) = polyAdd (errTo m s E) (polyScale M (errTo m s Q)) := by
  induction m with
  | zero => rfl
  | succ m ih =>
    rw [errTo_succ, errTo_succ, errTo_succ, ih, negMul_add_right _ _ _ (by simp [hE, hQ]), negMul_scale_right,
      polyScale_add, polyAdd_exchange]

/-- **per-coefficient torus relation on every column ⇒ the same relation on the phase**, with the
tolerance multiplied by `1 + Σ‖sᵢ‖₁`.  `X·2^py = Y·2^px + e + q·2^(px+py)`, `|e| ≤ U`, reads
"`X/2^px` and `Y/2^py` differ on the torus by at most `U·2^-(px+py)`" (`U = 2^py`: one unit of the
last limb of `X`; `U = 0`: equal). -/
theorem torus_phase {N : Nat} {res r' : GLWE} (hres : GWF N res) (hr' : GWF N r') (hrank : res.rank = r'.rank)
    (px py : Nat) (U : Int)
    (h : ∀ i, i ≤ r'.rank → ∀ t, t < N → ∃ q e : Int,
      valCoeff r'.base2k (col r' i) t * 2 ^ py = valCoeff res.base2k (col res i) t * 2 ^ px + e + q * 2 ^ (px + py) ∧ |e| ≤ U)
    (s : List Poly) :
    ∀ t, t < N → ∃ q e : Int,
      valCoeff r'.base2k (phase s r') t * 2 ^ py = valCoeff res.base2k (phase s res) t * 2 ^ px + e + q * 2 ^ (px + py) ∧
      |e| ≤ (1 + snorm (min r'.rank s.length) s) * U := by
  by_cases hN : 0 < N
  swap
  · intro t ht; omega
  have hU : 0 ≤ U := by
    obtain ⟨_, e, _, he⟩ := h 0 (Nat.zero_le _) 0 hN
    exact (abs_nonneg e).trans he
  have h' : ∀ i t, ∃ q e : Int, (i ≤ r'.rank → t < N →
      valCoeff r'.base2k (col r' i) t * 2 ^ py = valCoeff res.base2k (col res i) t * 2 ^ px + e + q * 2 ^ (px + py)) ∧ |e| ≤ U := by
    intro i t
    by_cases c : i ≤ r'.rank ∧ t < N
    · obtain ⟨q, e, h1, h2⟩ := h i c.1 t c.2
      exact ⟨q, e, fun _ _ => h1, h2⟩
    · exact ⟨0, 0, fun a b => absurd ⟨a, b⟩ c, by simpa using hU⟩
  choose Q Ee hQE using h'
  let Ep : Nat → Poly := fun i => (List.range N).map (fun t => Ee i t)
  let Qp : Nat → Poly := fun i => (List.range N).map (fun t => Q i t)
  have hEl : ∀ i, (Ep i).length = N := fun i => by simp [Ep]
  have hQl : ∀ i, (Qp i).length = N := fun i => by simp [Qp]
  have key := phase_val_modulo_norm hr' hres hrank (2 ^ py) (2 ^ px)
    (fun i => polyAdd (Ep i) (polyScale (2 ^ (px + py)) (Qp i))) (fun i => by simp [hEl, hQl])
    (fun i hi => by
      apply poly_ext (N := N) (by simp) (by simp [hEl, hQl])
      intro t ht
      rw [polyScale_getD, valP_getD _ _ _ _ ht, getD_polyAdd _ _ _ (by simp [hEl, hQl]), polyScale_getD,
        valP_getD _ _ _ _ ht, getD_polyAdd _ _ _ (by simp [hEl, hQl]), polyScale_getD]
      have e1 : (Ep i).getD t 0 = Ee i t := by simp [Ep, List.getD_eq_getElem?_getD, ht]
      have e2 : (Qp i).getD t 0 = Q i t := by simp [Qp, List.getD_eq_getElem?_getD, ht]
      rw [e1, e2]
      have := (hQE i t).1 hi ht
      linarith) s
  rw [errTo_add_scale _ _ s Ep Qp hEl hQl] at key
  intro t ht
  refine ⟨(errTo (min r'.rank s.length) s Qp).getD t 0, (errTo (min r'.rank s.length) s Ep).getD t 0, ?_, ?_⟩
  · have := congrArg (fun p : Poly => p.getD t 0) key
    beta_reduce at this
    rw [polyScale_getD, valP_getD _ _ _ _ ht, getD_polyAdd _ _ _ (by simp [errTo_length _ s Ep hEl, errTo_length _ s Qp hQl]),
      polyScale_getD, valP_getD _ _ _ _ ht, getD_polyAdd _ _ _ (by simp [errTo_length _ s Ep hEl, errTo_length _ s Qp hQl]),
      polyScale_getD] at this
    linarith
  · have hb := errTo_bound (B := U) (min r'.rank s.length) s Ep (fun i _ v hv => by
      simp only [Ep, List.mem_map, List.mem_range] at hv
      obtain ⟨t', _, rfl⟩ := hv
      exact (hQE i t').2)
    have hl := errTo_length (min r'.rank s.length) s Ep hEl
    have : (errTo (min r'.rank s.length) s Ep).getD t 0 ∈ errTo (min r'.rank s.length) s Ep := by
      rw [List.getD_eq_getElem?_getD, List.getElem?_eq_getElem (by omega)]
      exact List.getElem_mem _
    exact hb _ this

end C02L

namespace C02L
open Hal Core Core.Ops CoreEnc

/-- every coefficient of every limb is at most `H` in absolute value (head-room of the C08 kernels) -/
def GBound (H : Int) (g : GLWE) : Prop := ∀ c ∈ g.cols, ∀ l ∈ c, ∀ x ∈ l, |x| ≤ H

theorem coefAt_bound {H : Int} (hH : 0 ≤ H) {c : Col} (hc : ∀ l ∈ c, ∀ x ∈ l, |x| ≤ H) (t : Nat) :
    ∀ x ∈ coefAt c t, |x| ≤ H := by
  intro x hx
  simp only [coefAt, List.mem_map] at hx
  obtain ⟨l, hl, rfl⟩ := hx
  rw [List.getD_eq_getElem?_getD]
  cases e : l[t]? with
  | none => simpa using hH
  | some v => simpa using hc l hl v (List.mem_of_getElem? e)

/-- the kernel property needed of a coefficient-wise kernel `K`, on the coefficient columns of `res`
only: `val(K a)·2^py = val(a)·2^px + e + q·2^(px+py)` with `|e| ≤ U`, and the right length -/
def KernelOn (N : Nat) (res : GLWE) (K : List Int → List Int) (b px py : Nat) (U : Int) : Prop :=
  ∀ i, i ≤ res.rank → ∀ t, t < N →
    (K (coefAt (col res i) t)).length = res.size ∧
    ∃ q e : Int, valI b (K (coefAt (col res i) t)) * 2 ^ py = valI b (coefAt (col res i) t) * 2 ^ px + e + q * 2 ^ (px + py) ∧ |e| ≤ U

/-- a column kernel that acts coefficient by coefficient through `K`, applied to every column of
`res`: shapes, and the per-coefficient torus relation of `K` read on `Core.valCoeff` -/
theorem coefwise_cols {N : Nat} {res : GLWE} (_hr : GWF N res)
    (K : List Int → List Int) (b px py : Nat) (U : Int) (hK : KernelOn N res K b px py U)
    (i : Nat) (hi : i ≤ res.rank) :
    ColWF N res.size (mapCoefs N res.size (fun t => K (coefAt (col res i) t))) ∧
    ∀ t, t < N → ∃ q e : Int,
      valCoeff b (mapCoefs N res.size (fun t => K (coefAt (col res i) t))) t * 2 ^ py
        = valCoeff b (col res i) t * 2 ^ px + e + q * 2 ^ (px + py) ∧ |e| ≤ U := by
  refine ⟨⟨mapCoefs_length _ _ _, mapCoefs_WF _ _ _⟩, fun t ht => ?_⟩
  obtain ⟨h1, q, e, h2, h3⟩ := hK i hi t ht
  refine ⟨q, e, ?_, h3⟩
  rw [valCoeff_eq, valCoeff_eq, coefAt_mapCoefs _ _ _ t ht h1]
  exact h2

/-- `KernelOn` from a property of `K` on all bounded inputs of the right length (how the C08 value
theorems are stated) -/
theorem kernelOn_of_bound {N : Nat} {res : GLWE} (hr : GWF N res) {H : Int} (hH : 0 ≤ H) (hb : GBound H res)
    (K : List Int → List Int) (b px py : Nat) (U : Int)
    (hK : ∀ a : List Int, a.length = res.size → (∀ x ∈ a, |x| ≤ H) → (K a).length = res.size ∧
      ∃ q e : Int, valI b (K a) * 2 ^ py = valI b a * 2 ^ px + e + q * 2 ^ (px + py) ∧ |e| ≤ U) :
    KernelOn N res K b px py U := by
  intro i hi t _
  have hc := hr.col_wf i hi
  exact hK _ (by rw [coefAt_length, hc.1]) (coefAt_bound hH (hb _ (col_mem i (by rw [hr.len]; omega))) t)

theorem rshAssignCol_some (b k : Nat) (scr : Int) (K : List Int → List Int)
    (hsome : ∀ a, rshAssignCoef b k scr a = some (K a)) (c : Col) (N : Nat) :
    rshAssignCol? b k scr c N = some (mapCoefs N c.length (fun t => K (coefAt c t))) := by
  unfold rshAssignCol?
  exact mapCoefs?_congr _ _ _ _ (fun t _ => hsome _)

/-- the column loop of `glwe_rsh` for a kernel that always succeeds coefficient-wise -/
theorem rsh_loop {N : Nat} {res : GLWE} (hr : GWF N res) (scr : Int) (k : Nat) (K : List Int → List Int)
    (hsome : ∀ a, rshAssignCoef res.base2k k scr a = some (K a)) :
    ∃ r', glweRsh N scr k res = .ok r' ∧ Same res r' ∧ GWF N r' ∧ r'.size = res.size ∧
      ∀ i, i ≤ res.rank → col r' i = mapCoefs N res.size (fun t => K (coefAt (col res i) t)) := by
  unfold glweRsh
  obtain ⟨r1, e1, s1, c1⟩ := forRange_spec (fun _ c => mapCoefs N c.length (fun t => K (coefAt c t)))
    (fun i r => updCol i (fun ri => match rshAssignCol? res.base2k k scr ri N with
      | some c => .ok c
      | none => .panic "other") r) 0 (res.rank + 1) res
    (fun i r _ hi hl => by
      apply updCol_ok i _ r _ (by rw [hl, hr.len]; omega)
      rw [rshAssignCol_some _ _ _ K hsome])
    (by rw [hr.len])
  have hcol : ∀ i, i ≤ res.rank → col r1 i = mapCoefs N res.size (fun t => K (coefAt (col res i) t)) := by
    intro i hi
    rw [c1 i]
    have h : 0 ≤ i ∧ i < res.rank + 1 := by omega
    simp only [h, and_self, if_true, (hr.col_wf i hi).1]
  obtain ⟨w, sz⟩ := gwf_of_cols hr s1 (fun i hi => by
    rw [hcol i hi]; exact ⟨mapCoefs_length _ _ _, mapCoefs_WF _ _ _⟩)
  exact ⟨r1, e1, s1, w, sz, hcol⟩

/-- `glwe_rsh` from the per-coefficient value property of the kernel (shape of `C08.rsh_assign_value`):
shapes, the torus relation on every column, and on the phase with tolerance `(1 + Σ‖sᵢ‖₁)·U` -/
theorem rsh_generic {N : Nat} {res : GLWE} (hr : GWF N res)
    (scr : Int) (k : Nat) (K : List Int → List Int) (hsome : ∀ a, rshAssignCoef res.base2k k scr a = some (K a))
    (px py : Nat) (U : Int)
    (hK : KernelOn N res K res.base2k px py U) :
    ∃ r', glweRsh N scr k res = .ok r' ∧ Same res r' ∧ GWF N r' ∧ r'.size = res.size ∧
      (∀ i, i ≤ res.rank → ∀ t, t < N → ∃ q e : Int,
        valCoeff res.base2k (col r' i) t * 2 ^ py = valCoeff res.base2k (col res i) t * 2 ^ px + e + q * 2 ^ (px + py) ∧ |e| ≤ U) ∧
      ∀ (s : List Poly) t, t < N → ∃ q e : Int,
        valCoeff res.base2k (phase s r') t * 2 ^ py = valCoeff res.base2k (phase s res) t * 2 ^ px + e + q * 2 ^ (px + py) ∧
        |e| ≤ (1 + snorm (min res.rank s.length) s) * U := by
  obtain ⟨r', e1, s1, w, sz, hcol⟩ := rsh_loop hr scr k K hsome
  have hc : ∀ i, i ≤ res.rank → ∀ t, t < N → ∃ q e : Int,
      valCoeff res.base2k (col r' i) t * 2 ^ py = valCoeff res.base2k (col res i) t * 2 ^ px + e + q * 2 ^ (px + py) ∧ |e| ≤ U := by
    intro i hi t ht
    rw [hcol i hi]
    exact (coefwise_cols hr K res.base2k px py U hK i hi).2 t ht
  refine ⟨r', e1, s1, w, sz, hc, fun s t ht => ?_⟩
  have := torus_phase hr w (s1.rank).symm px py U (fun i hi t ht => by
    rw [s1.rank] at hi; rw [s1.1]; exact hc i hi t ht) s t ht
  rw [s1.1, s1.rank] at this
  exact this

/-- the in-place column loop `for i { res_i = Kc(res_i) }` for a coefficient-wise kernel (shape of
`glwe_normalize_assign`, `glwe_lsh_assign`): shapes, torus relation on every column and on the phase -/
theorem selfmap_generic {N : Nat} {res : GLWE} (hr : GWF N res)
    (Kc : Col → Col) (K : List Int → List Int) (hKc : ∀ c, Kc c = mapCoefs N c.length (fun t => K (coefAt c t)))
    (px py : Nat) (U : Int)
    (hK : KernelOn N res K res.base2k px py U) :
    ∃ r', forRange 0 (res.rank + 1) (selfCol Kc) res = .ok r' ∧ Same res r' ∧ GWF N r' ∧ r'.size = res.size ∧
      (∀ i, i ≤ res.rank → ∀ t, t < N → ∃ q e : Int,
        valCoeff res.base2k (col r' i) t * 2 ^ py = valCoeff res.base2k (col res i) t * 2 ^ px + e + q * 2 ^ (px + py) ∧ |e| ≤ U) ∧
      ∀ (s : List Poly) t, t < N → ∃ q e : Int,
        valCoeff res.base2k (phase s r') t * 2 ^ py = valCoeff res.base2k (phase s res) t * 2 ^ px + e + q * 2 ^ (px + py) ∧
        |e| ≤ (1 + snorm (min res.rank s.length) s) * U := by
  obtain ⟨r1, e1, s1, c1⟩ := forRange_spec (fun _ c => Kc c) (selfCol Kc) 0 (res.rank + 1) res
    (fun i r _ hi hl => selfCol_ok Kc i r (by rw [hl, hr.len]; omega)) (by rw [hr.len])
  have hcol : ∀ i, i ≤ res.rank → col r1 i = mapCoefs N res.size (fun t => K (coefAt (col res i) t)) := by
    intro i hi
    rw [c1 i]
    have h : 0 ≤ i ∧ i < res.rank + 1 := by omega
    simp only [h, and_self, if_true, hKc, (hr.col_wf i hi).1]
  obtain ⟨w, sz⟩ := gwf_of_cols hr s1 (fun i hi => by
    rw [hcol i hi]; exact ⟨mapCoefs_length _ _ _, mapCoefs_WF _ _ _⟩)
  have hc : ∀ i, i ≤ res.rank → ∀ t, t < N → ∃ q e : Int,
      valCoeff res.base2k (col r1 i) t * 2 ^ py = valCoeff res.base2k (col res i) t * 2 ^ px + e + q * 2 ^ (px + py) ∧ |e| ≤ U := by
    intro i hi t ht
    rw [hcol i hi]
    exact (coefwise_cols hr K res.base2k px py U hK i hi).2 t ht
  refine ⟨r1, e1, s1, w, sz, hc, fun s t ht => ?_⟩
  have := torus_phase hr w (s1.rank).symm px py U (fun i hi t ht => by
    rw [s1.rank] at hi; rw [s1.1]; exact hc i hi t ht) s t ht
  rw [s1.1, s1.rank] at this
  exact this

/-- an exact torus relation from a divisibility check (decidable on concrete values) -/
theorem torus_exact_of_emod {X Y : Int} {px py : Nat} (h : (X * 2 ^ py - Y * 2 ^ px) % 2 ^ (px + py) = 0) :
    ∃ q e : Int, X * 2 ^ py = Y * 2 ^ px + e + q * 2 ^ (px + py) ∧ |e| ≤ 0 := by
  refine ⟨(X * 2 ^ py - Y * 2 ^ px) / 2 ^ (px + py), 0, ?_, by simp⟩
  have := Int.emod_add_mul_ediv (X * 2 ^ py - Y * 2 ^ px) (2 ^ (px + py))
  rw [h] at this
  linarith

end C02L
