import Poulpy.Lemmas.F64Ops
import Poulpy.Model.Fft64
import Mathlib.Analysis.Complex.Norm

open Complex

namespace Fft64
open F64

/-- complex value of a (re, im) pair of bit patterns -/
noncomputable def cval (z : C64) : ℂ := ⟨val z.1, val z.2⟩
/-- both components are finite doubles -/
def CFin (z : C64) : Prop := Fin64 z.1 ∧ Fin64 z.2

theorem norm_le_of_sq (z : ℂ) (c : ℝ) (hc : 0 ≤ c) (h : z.re ^ 2 + z.im ^ 2 ≤ c ^ 2) : ‖z‖ ≤ c := by
  have h1 : ‖z‖ ^ 2 ≤ c ^ 2 := by
    rw [Complex.sq_norm, Complex.normSq_apply]; nlinarith
  have := abs_le_of_sq_le_sq h1 hc
  rwa [abs_of_nonneg (norm_nonneg z)] at this

theorem sq_norm' (z : ℂ) : ‖z‖ ^ 2 = z.re ^ 2 + z.im ^ 2 := by
  rw [Complex.sq_norm, Complex.normSq_apply]; ring

/-- component-wise relative error `c` gives relative error `c` in modulus -/
theorem norm_le_of_comp (z w : ℂ) (c : ℝ) (hc : 0 ≤ c) (hr : |z.re| ≤ c * |w.re|) (hi : |z.im| ≤ c * |w.im|) :
    ‖z‖ ≤ c * ‖w‖ := by
  apply norm_le_of_sq _ _ (mul_nonneg hc (norm_nonneg w))
  rw [mul_pow, sq_norm' w]
  have h1 : z.re ^ 2 ≤ (c * |w.re|) ^ 2 := by
    rw [← sq_abs z.re]; exact pow_le_pow_left₀ (abs_nonneg _) hr 2
  have h2 : z.im ^ 2 ≤ (c * |w.im|) ^ 2 := by
    rw [← sq_abs z.im]; exact pow_le_pow_left₀ (abs_nonneg _) hi 2
  rw [mul_pow, sq_abs] at h1 h2
  nlinarith

/-- component-wise absolute error `e` gives modulus error `≤ (3/2)·e` (`√2 ≤ 3/2`) -/
theorem norm_le_of_comp_abs (z : ℂ) (e : ℝ) (he : 0 ≤ e) (hr : |z.re| ≤ e) (hi : |z.im| ≤ e) : ‖z‖ ≤ 3 / 2 * e := by
  apply norm_le_of_sq _ _ (by positivity)
  have h1 : z.re ^ 2 ≤ e ^ 2 := by rw [← sq_abs z.re]; exact pow_le_pow_left₀ (abs_nonneg _) hr 2
  have h2 : z.im ^ 2 ≤ e ^ 2 := by rw [← sq_abs z.im]; exact pow_le_pow_left₀ (abs_nonneg _) hi 2
  nlinarith

/-- `fl(fl(x₁y₁) − fl(x₂y₂))`: three roundings, each at most `u·P`-ish -/
theorem dot2_sub (x1 y1 x2 y2 : Nat) (P : ℝ) (h1 : Fin64 x1) (h2 : Fin64 y1) (h3 : Fin64 x2) (h4 : Fin64 y2)
    (hp1 : |val x1 * val y1| ≤ P) (hp2 : |val x2 * val y2| ≤ P) (hp : |val x1 * val y1 - val x2 * val y2| ≤ P)
    (hP1 : (2:ℝ) ^ (-1022:Int) ≤ P) (hP2 : P ≤ (2:ℝ) ^ (1000:Int)) :
    Fin64 (sub (mul x1 y1) (mul x2 y2)) ∧
      |val (sub (mul x1 y1) (mul x2 y2)) - (val x1 * val y1 - val x2 * val y2)| ≤ u * P * (3 + 2 * u) := by
  have hPlt : P < (2:ℝ) ^ (1023:Int) := lt_of_le_of_lt hP2 (zpow_lt_zpow_right₀ one_lt_two_real (by norm_num))
  have hP0 : 0 ≤ P := le_trans (abs_nonneg _) hp1
  have hu := u_pos
  have hu1 : u ≤ 1 := by unfold u; exact zpow_le_one_of_nonpos₀ (by norm_num) (by norm_num)
  obtain ⟨f1, e1⟩ := mul_err x1 y1 P h1 h2 hp1 hP1 hPlt
  obtain ⟨f2, e2⟩ := mul_err x2 y2 P h3 h4 hp2 hP1 hPlt
  have hb : |val (mul x1 y1) - val (mul x2 y2)| ≤ P * (1 + 2 * u) := by
    have : val (mul x1 y1) - val (mul x2 y2) = (val x1 * val y1 - val x2 * val y2) +
        (val (mul x1 y1) - val x1 * val y1) - (val (mul x2 y2) - val x2 * val y2) := by ring
    rw [this]
    have := abs_add_le ((val x1 * val y1 - val x2 * val y2) + (val (mul x1 y1) - val x1 * val y1)) (-(val (mul x2 y2) - val x2 * val y2))
    have := abs_add_le (val x1 * val y1 - val x2 * val y2) (val (mul x1 y1) - val x1 * val y1)
    rw [abs_neg] at *
    rw [sub_eq_add_neg]
    nlinarith
  have hlt : P * (1 + 2 * u) < (2:ℝ) ^ (1023:Int) := by
    have : P * (1 + 2 * u) ≤ (2:ℝ) ^ (1000:Int) * 3 := mul_le_mul hP2 (by linarith) (by positivity) (by positivity)
    have h3 : (2:ℝ) ^ (1000:Int) * 3 < (2:ℝ) ^ (1023:Int) := by
      have : (2:ℝ) ^ (1023:Int) = (2:ℝ) ^ (1000:Int) * (2:ℝ) ^ (23:Int) := by
        rw [← zpow_add₀ (by norm_num : (2:ℝ) ≠ 0)]; norm_num
      rw [this]; apply mul_lt_mul_of_pos_left (by norm_num) (by positivity)
    exact lt_of_le_of_lt this h3
  obtain ⟨f3, e3⟩ := sub_err _ _ _ f1 f2 hb hlt
  refine ⟨f3, ?_⟩
  have : val (sub (mul x1 y1) (mul x2 y2)) - (val x1 * val y1 - val x2 * val y2) =
      (val (sub (mul x1 y1) (mul x2 y2)) - (val (mul x1 y1) - val (mul x2 y2))) +
      (val (mul x1 y1) - val x1 * val y1) - (val (mul x2 y2) - val x2 * val y2) := by ring
  rw [this]
  have := abs_add_le ((val (sub (mul x1 y1) (mul x2 y2)) - (val (mul x1 y1) - val (mul x2 y2))) + (val (mul x1 y1) - val x1 * val y1)) (-(val (mul x2 y2) - val x2 * val y2))
  have := abs_add_le (val (sub (mul x1 y1) (mul x2 y2)) - (val (mul x1 y1) - val (mul x2 y2))) (val (mul x1 y1) - val x1 * val y1)
  rw [abs_neg] at *
  rw [sub_eq_add_neg]
  nlinarith

/-- `fl(fl(x₁y₁) + fl(x₂y₂))`: three roundings, each at most `u·P`-ish -/
theorem dot2_add (x1 y1 x2 y2 : Nat) (P : ℝ) (h1 : Fin64 x1) (h2 : Fin64 y1) (h3 : Fin64 x2) (h4 : Fin64 y2)
    (hp1 : |val x1 * val y1| ≤ P) (hp2 : |val x2 * val y2| ≤ P) (hp : |val x1 * val y1 + val x2 * val y2| ≤ P)
    (hP1 : (2:ℝ) ^ (-1022:Int) ≤ P) (hP2 : P ≤ (2:ℝ) ^ (1000:Int)) :
    Fin64 (add (mul x1 y1) (mul x2 y2)) ∧
      |val (add (mul x1 y1) (mul x2 y2)) - (val x1 * val y1 + val x2 * val y2)| ≤ u * P * (3 + 2 * u) := by
  have hPlt : P < (2:ℝ) ^ (1023:Int) := lt_of_le_of_lt hP2 (zpow_lt_zpow_right₀ one_lt_two_real (by norm_num))
  have hP0 : 0 ≤ P := le_trans (abs_nonneg _) hp1
  have hu := u_pos
  have hu1 : u ≤ 1 := by unfold u; exact zpow_le_one_of_nonpos₀ (by norm_num) (by norm_num)
  obtain ⟨f1, e1⟩ := mul_err x1 y1 P h1 h2 hp1 hP1 hPlt
  obtain ⟨f2, e2⟩ := mul_err x2 y2 P h3 h4 hp2 hP1 hPlt
  have hb : |val (mul x1 y1) + val (mul x2 y2)| ≤ P * (1 + 2 * u) := by
    have : val (mul x1 y1) + val (mul x2 y2) = (val x1 * val y1 + val x2 * val y2) +
        (val (mul x1 y1) - val x1 * val y1) + (val (mul x2 y2) - val x2 * val y2) := by ring
    rw [this]
    have := abs_add_le ((val x1 * val y1 + val x2 * val y2) + (val (mul x1 y1) - val x1 * val y1)) (val (mul x2 y2) - val x2 * val y2)
    have := abs_add_le (val x1 * val y1 + val x2 * val y2) (val (mul x1 y1) - val x1 * val y1)
    nlinarith
  have hlt : P * (1 + 2 * u) < (2:ℝ) ^ (1023:Int) := by
    have : P * (1 + 2 * u) ≤ (2:ℝ) ^ (1000:Int) * 3 := mul_le_mul hP2 (by linarith) (by positivity) (by positivity)
    have h3 : (2:ℝ) ^ (1000:Int) * 3 < (2:ℝ) ^ (1023:Int) := by
      have : (2:ℝ) ^ (1023:Int) = (2:ℝ) ^ (1000:Int) * (2:ℝ) ^ (23:Int) := by
        rw [← zpow_add₀ (by norm_num : (2:ℝ) ≠ 0)]; norm_num
      rw [this]; apply mul_lt_mul_of_pos_left (by norm_num) (by positivity)
    exact lt_of_le_of_lt this h3
  obtain ⟨f3, e3⟩ := add_err _ _ _ f1 f2 hb hlt
  refine ⟨f3, ?_⟩
  have : val (add (mul x1 y1) (mul x2 y2)) - (val x1 * val y1 + val x2 * val y2) =
      (val (add (mul x1 y1) (mul x2 y2)) - (val (mul x1 y1) + val (mul x2 y2))) +
      (val (mul x1 y1) - val x1 * val y1) + (val (mul x2 y2) - val x2 * val y2) := by ring
  rw [this]
  have := abs_add_le ((val (add (mul x1 y1) (mul x2 y2)) - (val (mul x1 y1) + val (mul x2 y2))) + (val (mul x1 y1) - val x1 * val y1)) (val (mul x2 y2) - val x2 * val y2)
  have := abs_add_le (val (add (mul x1 y1) (mul x2 y2)) - (val (mul x1 y1) + val (mul x2 y2))) (val (mul x1 y1) - val x1 * val y1)
  nlinarith

theorem u_le_one : u ≤ 1 := by unfold u; exact zpow_le_one_of_nonpos₀ (by norm_num) (by norm_num)

theorem cval_re (z : C64) : (cval z).re = val z.1 := rfl
theorem cval_im (z : C64) : (cval z).im = val z.2 := rfl

theorem two_pow_lt (a b : Int) (h : a < b) : (2:ℝ) ^ a < (2:ℝ) ^ b := zpow_lt_zpow_right₀ one_lt_two_real h
theorem two_pow_le (a b : Int) (h : a ≤ b) : (2:ℝ) ^ a ≤ (2:ℝ) ^ b := zpow_le_zpow_right₀ one_lt_two_real.le h

/-- rounding error of the twiddle product per component, relative to the product bound `P` -/
noncomputable def κ : ℝ := u * (3 + 2 * u)

/-- output stage: `x ≈ z.re`, `y ≈ z.im` with relative error `u` each gives modulus error `≤ u‖z‖` -/
theorem pair_rel (x y : Nat) (z : ℂ) (hx : |val x - z.re| ≤ u * |z.re|) (hy : |val y - z.im| ≤ u * |z.im|) :
    ‖cval (x, y) - z‖ ≤ u * ‖z‖ :=
  norm_le_of_comp _ _ _ u_pos.le (by simpa [cval] using hx) (by simpa [cval] using hy)

/-- the four output roundings of a butterfly: `a ± d` with `d` the (already rounded) twiddle product.
`sr`, `si` select `+`/`−` for the real/imaginary component (the `i`-variants mix them). -/
theorem out_stage (a : C64) (dr di : Nat) (ha : CFin a) (hdr : Fin64 dr) (hdi : Fin64 di) (S : ℝ)
    (hS : ‖cval a‖ + ‖cval (dr, di)‖ ≤ S) (hS2 : S ≤ (2:ℝ) ^ (1001:Int)) :
    (CFin (add a.1 dr, add a.2 di) ∧ ‖cval (add a.1 dr, add a.2 di) - (cval a + cval (dr, di))‖ ≤ u * S) ∧
    (CFin (sub a.1 dr, sub a.2 di) ∧ ‖cval (sub a.1 dr, sub a.2 di) - (cval a - cval (dr, di))‖ ≤ u * S) ∧
    (CFin (sub a.1 dr, add a.2 di) ∧ ‖cval (sub a.1 dr, add a.2 di) - (cval a + (⟨-val dr, val di⟩ : ℂ))‖ ≤ u * S) ∧
    (CFin (add a.1 dr, sub a.2 di) ∧ ‖cval (add a.1 dr, sub a.2 di) - (cval a - (⟨-val dr, val di⟩ : ℂ))‖ ≤ u * S) := by
  have hlt : S < (2:ℝ) ^ (1023:Int) := lt_of_le_of_lt hS2 (two_pow_lt _ _ (by norm_num))
  have h1 := abs_re_le_norm (cval a); have h2 := abs_im_le_norm (cval a)
  have h3 := abs_re_le_norm (cval (dr, di)); have h4 := abs_im_le_norm (cval (dr, di))
  simp only [cval_re, cval_im] at h1 h2 h3 h4
  have bnd : ∀ x y : ℝ, |x| ≤ ‖cval a‖ → |y| ≤ ‖cval (dr, di)‖ → |x + y| < (2:ℝ) ^ (1023:Int) ∧ |x - y| < (2:ℝ) ^ (1023:Int) := by
    intro x y hx hy
    have := abs_add_le x y; have := abs_sub x y
    have q1 : |x + y| ≤ S := by linarith
    have q2 : |x - y| ≤ S := by linarith
    exact ⟨lt_of_le_of_lt q1 hlt, lt_of_le_of_lt q2 hlt⟩
  obtain ⟨p1, p1'⟩ := bnd _ _ h1 h3
  obtain ⟨p2, p2'⟩ := bnd _ _ h2 h4
  obtain ⟨f1, e1⟩ := add_spec a.1 dr ha.1 hdr p1
  obtain ⟨f2, e2⟩ := add_spec a.2 di ha.2 hdi p2
  obtain ⟨f3, e3⟩ := sub_spec a.1 dr ha.1 hdr p1'
  obtain ⟨f4, e4⟩ := sub_spec a.2 di ha.2 hdi p2'
  have hd' : ‖(⟨-val dr, val di⟩ : ℂ)‖ = ‖cval (dr, di)‖ := by
    have : (⟨-val dr, val di⟩ : ℂ) = -(starRingEnd ℂ (cval (dr, di))) := by
      apply Complex.ext <;> simp [cval]
    rw [this, norm_neg, Complex.norm_conj]
  have tri1 : ‖cval a + cval (dr, di)‖ ≤ S := le_trans (norm_add_le _ _) hS
  have tri2 : ‖cval a - cval (dr, di)‖ ≤ S := le_trans (norm_sub_le _ _) hS
  have tri3 : ‖cval a + (⟨-val dr, val di⟩ : ℂ)‖ ≤ S := le_trans (norm_add_le _ _) (by rw [hd']; exact hS)
  have tri4 : ‖cval a - (⟨-val dr, val di⟩ : ℂ)‖ ≤ S := le_trans (norm_sub_le _ _) (by rw [hd']; exact hS)
  have hu := u_pos.le
  refine ⟨⟨⟨f1, f2⟩, ?_⟩, ⟨⟨f3, f4⟩, ?_⟩, ⟨⟨f3, f2⟩, ?_⟩, ⟨⟨f1, f4⟩, ?_⟩⟩
  · exact le_trans (pair_rel _ _ _ (by simpa [cval] using e1) (by simpa [cval] using e2)) (mul_le_mul_of_nonneg_left tri1 hu)
  · exact le_trans (pair_rel _ _ _ (by simpa [cval] using e3) (by simpa [cval] using e4)) (mul_le_mul_of_nonneg_left tri2 hu)
  · refine le_trans (pair_rel _ _ _ ?_ ?_) (mul_le_mul_of_nonneg_left tri3 hu)
    · simpa [cval, sub_eq_add_neg] using e3
    · simpa [cval] using e2
  · refine le_trans (pair_rel _ _ _ ?_ ?_) (mul_le_mul_of_nonneg_left tri4 hu)
    · simpa [cval, sub_eq_add_neg] using e1
    · simpa [cval, sub_eq_add_neg] using e4


theorem κ_nonneg : 0 ≤ κ := by unfold κ; have := u_pos; positivity

/-- the rounded twiddle product `b·w` of `cplx_twiddle` (three roundings per component) -/
theorem prod_stage (b : C64) (wr wi : Nat) (hb : CFin b) (hwr : Fin64 wr) (hwi : Fin64 wi) (M W : ℝ)
    (hM : ‖cval b‖ ≤ M) (hW : ‖cval (wr, wi)‖ ≤ W) (hP1 : (2:ℝ) ^ (-1022:Int) ≤ M * W) (hP2 : M * W ≤ (2:ℝ) ^ (1000:Int)) :
    Fin64 (sub (mul b.1 wr) (mul b.2 wi)) ∧ Fin64 (add (mul b.1 wi) (mul b.2 wr)) ∧
    ‖cval (sub (mul b.1 wr) (mul b.2 wi), add (mul b.1 wi) (mul b.2 wr)) - cval b * cval (wr, wi)‖ ≤ 3 / 2 * (κ * (M * W)) := by
  have hM0 : 0 ≤ M := le_trans (norm_nonneg _) hM
  have hW0 : 0 ≤ W := le_trans (norm_nonneg _) hW
  have b1 := le_trans (abs_re_le_norm (cval b)) hM
  have b2 := le_trans (abs_im_le_norm (cval b)) hM
  have w1 := le_trans (abs_re_le_norm (cval (wr, wi))) hW
  have w2 := le_trans (abs_im_le_norm (cval (wr, wi))) hW
  simp only [cval_re, cval_im] at b1 b2 w1 w2
  have pr : ∀ x y : ℝ, |x| ≤ M → |y| ≤ W → |x * y| ≤ M * W := by
    intro x y hx hy; rw [abs_mul]; exact mul_le_mul hx hy (abs_nonneg _) hM0
  have hn : ‖cval b * cval (wr, wi)‖ ≤ M * W := by
    rw [Complex.norm_mul]; exact mul_le_mul hM hW (norm_nonneg _) hM0
  have hre := le_trans (abs_re_le_norm _) hn
  have him := le_trans (abs_im_le_norm _) hn
  rw [Complex.mul_re] at hre; rw [Complex.mul_im] at him
  simp only [cval_re, cval_im] at hre him
  obtain ⟨f1, e1⟩ := dot2_sub b.1 wr b.2 wi (M * W) hb.1 hwr hb.2 hwi (pr _ _ b1 w1) (pr _ _ b2 w2) hre hP1 hP2
  obtain ⟨f2, e2⟩ := dot2_add b.1 wi b.2 wr (M * W) hb.1 hwi hb.2 hwr (pr _ _ b1 w2) (pr _ _ b2 w1) him hP1 hP2
  refine ⟨f1, f2, ?_⟩
  apply norm_le_of_comp_abs _ _ (mul_nonneg κ_nonneg (mul_nonneg hM0 hW0))
  · rw [Complex.sub_re, Complex.mul_re]; simp only [cval_re, cval_im]
    unfold κ; convert e1 using 1; ring
  · rw [Complex.sub_im, Complex.mul_im]; simp only [cval_re, cval_im]
    unfold κ; convert e2 using 1; ring


/-- the complex twiddle a table entry stands for: the `i`-variants multiply by `i·w` -/
noncomputable def twC (t : Tw) : ℂ := if t.imode then I * cval (t.re, t.im) else cval (t.re, t.im)
def TwFin (t : Tw) : Prop := Fin64 t.re ∧ Fin64 t.im

theorem norm_twC (t : Tw) : ‖twC t‖ = ‖cval (t.re, t.im)‖ := by
  unfold twC; split <;> simp

theorem mk_neg_eq (x y : ℝ) : (⟨-x, y⟩ : ℂ) = I * (⟨y, x⟩ : ℂ) := by
  apply Complex.ext <;> simp

theorem norm_swap (x y : ℝ) : ‖(⟨x, y⟩ : ℂ)‖ = ‖(⟨y, x⟩ : ℂ)‖ := by
  have : (⟨y, x⟩ : ℂ) = I * (starRingEnd ℂ (⟨x, y⟩ : ℂ)) := by apply Complex.ext <;> simp
  rw [this, Complex.norm_mul, Complex.norm_I, one_mul, Complex.norm_conj]

/-- error of one forward butterfly relative to the bound `M` on its two inputs: four output roundings (`u`),
the rounded twiddle product (`3/2·κ`), and the inexact twiddle (`τ`) -/
noncomputable def γf (τ : ℝ) : ℝ := u * (1 + (1 + τ) * (1 + 3 / 2 * κ)) + 3 / 2 * κ * (1 + τ) + τ

theorem κ_le : κ ≤ 1 / 8 := by
  unfold κ
  have h : u ≤ 1 / 64 := by
    unfold u
    calc (2:ℝ) ^ (-53:Int) ≤ (2:ℝ) ^ (-6:Int) := two_pow_le _ _ (by norm_num)
      _ = 1 / 64 := by norm_num
  have := u_pos
  nlinarith

theorem bflyFwd_err (t : Tw) (a b : C64) (ω : ℂ) (τ M : ℝ) (ht : TwFin t) (ha : CFin a) (hb : CFin b)
    (hω : ‖ω‖ = 1) (hτ : ‖twC t - ω‖ ≤ τ) (hτ1 : τ ≤ 1) (hMa : ‖cval a‖ ≤ M) (hMb : ‖cval b‖ ≤ M)
    (hM1 : 1 ≤ M) (hM2 : M ≤ (2:ℝ) ^ (999:Int)) :
    CFin (bflyFwd t a b).1 ∧ CFin (bflyFwd t a b).2 ∧
    ‖cval (bflyFwd t a b).1 - (cval a + ω * cval b)‖ ≤ γf τ * M ∧
    ‖cval (bflyFwd t a b).2 - (cval a - ω * cval b)‖ ≤ γf τ * M := by
  have hτ0 : 0 ≤ τ := le_trans (norm_nonneg _) hτ
  have hM0 : (0:ℝ) ≤ M := by linarith
  set w : ℂ := cval (t.re, t.im) with hw
  have hW : ‖w‖ ≤ 1 + τ := by
    rw [hw, ← norm_twC]
    have := norm_sub_norm_le (twC t) ω
    rw [hω] at this; linarith
  have hP1 : (2:ℝ) ^ (-1022:Int) ≤ M * (1 + τ) := by
    have : (2:ℝ) ^ (-1022:Int) ≤ 1 := zpow_le_one_of_nonpos₀ (by norm_num) (by norm_num)
    nlinarith
  have hP2 : M * (1 + τ) ≤ (2:ℝ) ^ (1000:Int) := by
    have e : (2:ℝ) ^ (1000:Int) = (2:ℝ) ^ (999:Int) * 2 := by
      rw [show (1000:Int) = 999 + 1 by norm_num, zpow_add₀ (by norm_num : (2:ℝ) ≠ 0)]; norm_num
    rw [e]; exact mul_le_mul hM2 (by linarith) (by linarith) (by positivity)
  obtain ⟨fr, fi, hprod⟩ := prod_stage b t.re t.im hb ht.1 ht.2 M (1 + τ) hMb hW hP1 hP2
  set dr := sub (mul b.1 t.re) (mul b.2 t.im) with hdr
  set di := add (mul b.1 t.im) (mul b.2 t.re) with hdi
  set ε := 3 / 2 * (κ * (M * (1 + τ))) with hε
  have hκ := κ_nonneg
  have hκ8 := κ_le
  have hε0 : 0 ≤ ε := by rw [hε]; positivity
  have hbw : ‖cval b * w‖ ≤ M * (1 + τ) := by
    rw [Complex.norm_mul]; exact mul_le_mul hMb hW (norm_nonneg _) hM0
  have hd : ‖cval (dr, di)‖ ≤ M * (1 + τ) + ε := by
    have := norm_le_insert' (cval (dr, di)) (cval b * w)
    linarith
  set S := M + (M * (1 + τ) + ε) with hS
  have hSle : S ≤ (2:ℝ) ^ (1001:Int) := by
    have e : (2:ℝ) ^ (1001:Int) = (2:ℝ) ^ (999:Int) * 4 := by
      rw [show (1001:Int) = 999 + 2 by norm_num, zpow_add₀ (by norm_num : (2:ℝ) ≠ 0)]; norm_num
    have hεle : ε ≤ 3 / 8 * M := by
      have h1 : M * (1 + τ) ≤ M * 2 := mul_le_mul_of_nonneg_left (by linarith) hM0
      have h2 : κ * (M * (1 + τ)) ≤ 1 / 8 * (M * 2) := mul_le_mul hκ8 h1 (by positivity) (by norm_num)
      rw [hε]; linarith
    have : S ≤ M * 4 := by rw [hS]; nlinarith
    rw [e]; exact le_trans this (mul_le_mul_of_nonneg_right hM2 (by norm_num))
  have hγ : u * S + ε + M * τ = γf τ * M := by rw [hS, hε]; unfold γf; ring
  have hu := u_pos.le
  unfold bflyFwd
  split
  · -- `cplx_i_twiddle`: the product enters as `i·d`
    rename_i him
    have hωw : ‖I * w - ω‖ ≤ τ := by simpa [twC, him, hw] using hτ
    have hsw : ‖cval (di, dr)‖ = ‖cval (dr, di)‖ := norm_swap _ _
    obtain ⟨_, _, ⟨c3, e3⟩, ⟨c4, e4⟩⟩ := out_stage a di dr ha fi fr S (by rw [hsw]; linarith) hSle
    have hId : (⟨-val di, val dr⟩ : ℂ) = I * cval (dr, di) := mk_neg_eq _ _
    rw [hId] at e3 e4
    have key : ‖I * cval (dr, di) - ω * cval b‖ ≤ ε + M * τ := by
      have e1 : I * cval (dr, di) - ω * cval b = I * (cval (dr, di) - cval b * w) + (I * w - ω) * cval b := by ring
      rw [e1]
      refine le_trans (norm_add_le _ _) ?_
      rw [Complex.norm_mul, Complex.norm_I, one_mul, Complex.norm_mul]
      have : ‖I * w - ω‖ * ‖cval b‖ ≤ τ * M := mul_le_mul hωw hMb (norm_nonneg _) hτ0
      linarith
    refine ⟨c3, c4, ?_, ?_⟩
    · have e1 : cval (sub a.1 di, add a.2 dr) - (cval a + ω * cval b) =
          (cval (sub a.1 di, add a.2 dr) - (cval a + I * cval (dr, di))) + (I * cval (dr, di) - ω * cval b) := by ring
      rw [← hγ, e1]
      refine le_trans (norm_add_le _ _) ?_; linarith
    · have e1 : cval (add a.1 di, sub a.2 dr) - (cval a - ω * cval b) =
          (cval (add a.1 di, sub a.2 dr) - (cval a - I * cval (dr, di))) - (I * cval (dr, di) - ω * cval b) := by ring
      rw [← hγ, e1]
      refine le_trans (norm_sub_le _ _) ?_; linarith
  · rename_i him
    have hωw : ‖w - ω‖ ≤ τ := by simpa [twC, him, hw] using hτ
    obtain ⟨⟨c1, e1⟩, ⟨c2, e2⟩, _, _⟩ := out_stage a dr di ha fr fi S (by linarith) hSle
    have key : ‖cval (dr, di) - ω * cval b‖ ≤ ε + M * τ := by
      have e1 : cval (dr, di) - ω * cval b = (cval (dr, di) - cval b * w) + (w - ω) * cval b := by ring
      rw [e1]
      refine le_trans (norm_add_le _ _) ?_
      rw [Complex.norm_mul]
      have : ‖w - ω‖ * ‖cval b‖ ≤ τ * M := mul_le_mul hωw hMb (norm_nonneg _) hτ0
      linarith
    refine ⟨c1, c2, ?_, ?_⟩
    · have e1' : cval (add a.1 dr, add a.2 di) - (cval a + ω * cval b) =
          (cval (add a.1 dr, add a.2 di) - (cval a + cval (dr, di))) + (cval (dr, di) - ω * cval b) := by ring
      rw [← hγ, e1']
      refine le_trans (norm_add_le _ _) ?_; linarith
    · have e1' : cval (sub a.1 dr, sub a.2 di) - (cval a - ω * cval b) =
          (cval (sub a.1 dr, sub a.2 di) - (cval a - cval (dr, di))) - (cval (dr, di) - ω * cval b) := by ring
      rw [← hγ, e1']
      refine le_trans (norm_sub_le _ _) ?_; linarith

end Fft64
