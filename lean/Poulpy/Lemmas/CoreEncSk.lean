/-
Helper lemmas for C01: the mask loop of `glwe_encrypt_sk_internal` and the exact phase.
-/
import Poulpy.Lemmas.CoreEncLin

namespace CoreEnc
open NormL

theorem torusEq_same {X Y : Int} {p : Nat} (h : TorusEq X p Y p) : ∃ k : Int, X = Y + k * 2 ^ p := by
  obtain ⟨k, hk⟩ := h
  refine ⟨k, ?_⟩
  have hp : (0 : Int) < 2 ^ p := two_pow_pos p
  have : X * 2 ^ p = (Y + k * 2 ^ p) * 2 ^ p := by rw [hk, pow_add]; ring
  exact mul_right_cancel₀ (ne_of_gt hp) this

/-- coefficient-level bound -/
def CoefBounded (n : Nat) (B : Int) (c : Col) : Prop := ∀ t, t < n → ∀ v ∈ coefAt c t, |v| ≤ B

theorem CoefBounded.of_bounded {n : Nat} {B : Int} (hB : 0 ≤ B) {c : Col} (h : Bounded B c) : CoefBounded n B c :=
  fun t _ => coefAt_bounded hB h t

theorem dftApply_id (n size : Nat) (a : Col) (h : a.length = size) : Hal.dftApplyCol n 1 0 size a = a := by
  unfold Hal.dftApplyCol
  apply List.ext_getElem
  · simp [h]
  · intro j h1 h2
    simp only [List.length_map, List.length_range] at h1
    simp [h, h1, List.getD_eq_getElem?_getD]

theorem colMulPoly_length (s : Poly) (a : Col) : (Core.colMulPoly s a).length = a.length := by
  simp [Core.colMulPoly]

theorem colMulPoly_WF {n : Nat} (s : Poly) {a : Col} (h : WF n a) : WF n (Core.colMulPoly s a) := by
  intro l hl
  simp only [Core.colMulPoly, List.mem_map] at hl
  obtain ⟨l', hl', rfl⟩ := hl
  rw [Hal.negMul_length]; exact h l' hl'

/-- value of coefficient `t` of `Σ sᵢ ⋆ aᵢ` -/
def sumProd (b t : Nat) : List Col → List Poly → Int
  | a :: as, s :: ss => valI b (coefAt (Core.colMulPoly s a) t) + sumProd b t as ss
  | _, _ => 0

/-- the plaintext, if any, goes to column 0 (the case of `glwe_encrypt_sk`) -/
def PtCol0 (pt : Option (Col × Nat)) : Prop := ∀ p col, pt = some (p, col) → col = 0

theorem vecSubAssign_same (c0 ci : Col) (h : ci.length = c0.length) :
    vecSubAssignW w64 c0 ci = List.zipWith (fun p q => List.zipWith (fun x y => w64 (x - y)) p q) c0 ci := by
  unfold vecSubAssignW znxSubW
  simp only [h, Nat.min_self, List.take_length, List.drop_length, List.append_nil]
  rw [← h, List.take_length]

theorem encSkStep_src {bits b n size : Nat} (pt : Option (Col × Nat)) (hpt : PtCol0 pt) (i : Nat) (hi : 1 ≤ i)
    (a : Col) (s : Poly) (c0 : Col) :
    Core.encSkStep bits b n size pt i a s c0 = Core.encSkStep bits b n size none i a s c0 := by
  cases pt with
  | none => rfl
  | some pc =>
    obtain ⟨p, col⟩ := pc
    have hc := hpt p col rfl
    subst hc
    unfold Core.encSkStep
    simp only
    rw [if_neg (by omega)]

section step
variable {bits b n size : Nat} {H : Int}

/-- one iteration of the mask loop: `c0` decreases by `normalize(s ⋆ a)`, whose value is that of
`s ⋆ a` modulo `2^(b·size)` -/
theorem encSkStep_spec (hbits : bits = 64 ∨ bits = 128) (hr : HeadRoom bits b 0 H) (hb : b ≤ 63)
    (pt : Option (Col × Nat)) (hpt : PtCol0 pt) (i : Nat) (hi : 1 ≤ i)
    (a : Col) (s : Poly) (c0 : Col) (ha : a.length = size) (hprod : Bounded H (Core.colMulPoly s a))
    (hc0 : c0.length = size) (hc0wf : WF n c0) (B0 : Int) (hB0 : CoefBounded n B0 c0) (hB : B0 + 2 ^ (b - 1) < 2 ^ 63) :
    ∃ c1, Core.encSkStep bits b n size pt i a s c0 = some c1 ∧ c1.length = size ∧ WF n c1 ∧
      CoefBounded n (B0 + 2 ^ (b - 1)) c1 ∧
      ∀ t, t < n → ∃ K : Int,
        valI b (coefAt c1 t) + valI b (coefAt (Core.colMulPoly s a) t) = valI b (coefAt c0 t) + K * 2 ^ (b * size) := by
  rw [encSkStep_src pt hpt i hi]
  unfold Core.encSkStep
  simp only [dftApply_id n size a ha]
  rw [bigNormalize_eq bits b size n hbits]
  obtain ⟨o1, o2, o3, o4⟩ := normCol_spec hbits hr hb size n (Core.colMulPoly s a) hprod
  set ci := mapCoefs n size (fun i => normOut bits b size (coefAt (Core.colMulPoly s a) i)) with hci
  refine ⟨_, rfl, ?_⟩
  rw [vecSubAssign_same c0 ci (by rw [o1, hc0])]
  obtain ⟨z1, z2, z3⟩ := colZip_spec (n := n) (fun x y => w64 (x - y)) c0 ci hc0wf o2 (by rw [o1, hc0])
  have hP : (0 : Int) ≤ 2 ^ (b - 1) := le_of_lt (two_pow_pos _)
  have hciB : CoefBounded n (2 ^ (b - 1)) ci := CoefBounded.of_bounded hP o3
  have hnowrap : ∀ t, t < n →
      List.zipWith (fun x y => w64 (x - y)) (coefAt c0 t) (coefAt ci t) = List.zipWith (· - ·) (coefAt c0 t) (coefAt ci t) := by
    intro t ht
    apply zipWith_wrap_eq w64 (· - ·) (B1 := B0) (B2 := 2 ^ (b - 1)) _ _ _ (hB0 t ht) (hciB t ht)
    intro x y hx hy
    apply w64_id
    have := abs_sub x y
    linarith
  refine ⟨by rw [z1, hc0], z2, ?_, ?_⟩
  · intro t ht v hv
    rw [z3 t ht, hnowrap t ht] at hv
    refine zipWith_bound (· - ·) (B1 := B0) (B2 := 2 ^ (b - 1)) ?_ _ _ (hB0 t ht) (hciB t ht) v hv
    intro x y hx hy
    have := abs_sub x y
    show |x - y| ≤ B0 + 2 ^ (b - 1)
    linarith
  · intro t ht
    have hte := (o4 t ht).2 (by rw [colMulPoly_length, ha])
    rw [colMulPoly_length, ha] at hte
    obtain ⟨k, hk⟩ := torusEq_same hte
    refine ⟨-k, ?_⟩
    rw [z3 t ht, hnowrap t ht, valI_zipWith_sub b _ _ (by rw [coefAt_length, coefAt_length, hc0, o1]), hk]
    ring

/-- every product `sᵢ ⋆ aᵢ` stays within the head-room of the normalisation -/
def ProdBounded (H : Int) : List Col → List Poly → Prop
  | a :: as, s :: ss => Bounded H (Core.colMulPoly s a) ∧ ProdBounded H as ss
  | _, _ => True

/-- the whole mask loop: `c0' ≡ c0 − Σ sᵢ ⋆ aᵢ (mod 2^(b·size))` coefficient-wise, no wrap -/
theorem encSkLoop_spec (hbits : bits = 64 ∨ bits = 128) (hr : HeadRoom bits b 0 H) (hb : b ≤ 63)
    (pt : Option (Col × Nat)) (hpt : PtCol0 pt) :
    ∀ (masks : List Col) (sk : List Poly) (i : Nat) (c0 : Col) (B0 : Int), 1 ≤ i → masks.length = sk.length →
      (∀ a ∈ masks, a.length = size) → ProdBounded H masks sk →
      c0.length = size → WF n c0 → CoefBounded n B0 c0 → B0 + masks.length * 2 ^ (b - 1) < 2 ^ 63 →
      ∃ c', Core.encSkLoop bits b n size pt i masks sk c0 = some c' ∧ c'.length = size ∧ WF n c' ∧
        CoefBounded n (B0 + masks.length * 2 ^ (b - 1)) c' ∧
        ∀ t, t < n → ∃ K : Int,
          valI b (coefAt c' t) + sumProd b t masks sk = valI b (coefAt c0 t) + K * 2 ^ (b * size) := by
  intro masks
  induction masks with
  | nil =>
    intro sk i c0 B0 _ _ _ _ h1 h2 h3 _
    refine ⟨c0, by simp [Core.encSkLoop], h1, h2, by simpa using h3, fun t _ => ⟨0, by simp [sumProd]⟩⟩
  | cons a as ih =>
    intro sk i c0 B0 hi hlen hsz hpb h1 h2 h3 hB
    cases sk with
    | nil => simp at hlen
    | cons s ss =>
      have hP : (0 : Int) < 2 ^ (b - 1) := two_pow_pos _
      have hlen' : (as.length : Int) * 2 ^ (b - 1) ≥ 0 := by positivity
      simp only [List.length_cons, Nat.cast_add, Nat.cast_one] at hB
      obtain ⟨c1, e1, l1, w1, b1, v1⟩ := encSkStep_spec (n := n) hbits hr hb pt hpt i hi a s c0 (hsz a (by simp)) hpb.1 h1 h2 B0 h3
        (by nlinarith)
      obtain ⟨c2, e2, l2, w2, b2, v2⟩ := ih ss (i + 1) c1 (B0 + 2 ^ (b - 1)) (by omega) (by simpa using hlen)
        (fun x hx => hsz x (by simp [hx])) hpb.2 l1 w1 b1 (by nlinarith)
      refine ⟨c2, by simp [Core.encSkLoop, e1, e2], l2, w2, ?_, ?_⟩
      · intro t ht v hv
        have := b2 t ht v hv
        simp only [List.length_cons, Nat.cast_add, Nat.cast_one]
        nlinarith
      · intro t ht
        obtain ⟨K1, hK1⟩ := v1 t ht
        obtain ⟨K2, hK2⟩ := v2 t ht
        refine ⟨K1 + K2, ?_⟩
        simp only [sumProd]
        linear_combination hK1 + hK2

end step

end CoreEnc
