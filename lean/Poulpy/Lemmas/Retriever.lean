import Poulpy.Model.BlindSel
import Mathlib.Tactic.Ring
import Mathlib.Data.List.Forall2

/-!
The `GLWEBlindRetriever` state machine (`Model/BlindSel.lean`: `addCore`, `flushLoop`, `Retr.*`): the binary-counter
invariant, for every stream length up to the capacity and every history of streams on one object.

`Rep bit j v B`: "`v` is the right answer for block `B` as far as the selector bits below `j` are concerned" —
if the low `j` selector bits spell the position `p < B.length` then `v = B[p]`.
`Good i accs bs`: the accumulators `accs` (levels `i, i+1, …`) hold, where `num = 1`, the answer for a pending
complete block of `2^level` elements (`bs` lists the blocks, `[]` = nothing pending); `GoodQ` additionally allows
the states of the flush phase (lowest pending block partial, or the merged value parked in the top accumulator).
-/

namespace BlindSel

variable {V : Type}

def Rep (bit : Nat → Bool) (j : Nat) (v : V) (B : List V) : Prop :=
  ∀ p (hp : p < B.length), (∀ k < j, bit k = p.testBit k) → v = B[p]

theorem Rep.mono {bit : Nat → Bool} {j : Nat} {v : V} {B : List V} (h : Rep bit j v B) : Rep bit (j + 1) v B :=
  fun p hp hb => h p hp fun k hk => hb k (by omega)

theorem Rep.single (bit : Nat → Bool) (a : V) : Rep bit 0 a [a] := by
  intro p hp _
  have : p = 0 := by simpa using hp
  subst this; rfl

/-- `cmux_assign_neg` on a complete low half and a (possibly partial) high half -/
theorem Rep.merge {bit : Nat → Bool} {cmn : Bool → V → V → V} (hcmn : ∀ b res a, cmn b res a = if b then a else res)
    {i : Nat} {x y : V} {B' B : List V} (hx : Rep bit i x B') (hl' : B'.length = 2 ^ i)
    (hy : Rep bit i y B) (hl : B.length ≤ 2 ^ i) : Rep bit (i + 1) (cmn (bit i) x y) (B' ++ B) := by
  intro p hp hb
  rw [hcmn]
  rw [List.length_append] at hp
  by_cases hlt : p < 2 ^ i
  · have hbi : bit i = false := by rw [hb i (by omega)]; exact Nat.testBit_lt_two_pow hlt
    rw [hbi, List.getElem_append_left (by omega)]
    exact hx p (by omega) fun k hk => hb k (by omega)
  · obtain ⟨q, rfl⟩ : ∃ q, p = 2 ^ i + q := ⟨p - 2 ^ i, by omega⟩
    have hq : q < 2 ^ i := by omega
    have hbi : bit i = true := by
      rw [hb i (by omega), Nat.testBit_two_pow_add_eq, Nat.testBit_lt_two_pow hq]; rfl
    rw [hbi, List.getElem_append_right (by omega)]
    simp only [if_true, hl', Nat.add_sub_cancel_left]
    exact hy q (by omega) fun k hk => by rw [hb k (by omega), Nat.testBit_two_pow_add_gt hk]

/-- concatenation of the pending blocks, oldest (top level) first -/
def cat : List (List V) → List V
  | [] => []
  | B :: bs => cat bs ++ B

inductive Good (bit : Nat → Bool) : Nat → List (Acc V) → List (List V) → Prop
  | nil (i : Nat) : Good bit i [] []
  | none (i : Nat) (acc : Acc V) (accs : List (Acc V)) (bs : List (List V)) :
      acc.num = 0 → Good bit (i + 1) accs bs → Good bit i (acc :: accs) ([] :: bs)
  | some (i : Nat) (acc : Acc V) (accs : List (Acc V)) (bs : List (List V)) (B : List V) :
      acc.num = 1 → B.length = 2 ^ i → Rep bit i acc.data B → Good bit (i + 1) accs bs → Good bit i (acc :: accs) (B :: bs)

inductive GoodQ (bit : Nat → Bool) (q : Prop) : Nat → List (Acc V) → List (List V) → Prop
  | nil (i : Nat) : GoodQ bit q i [] []
  | none (i : Nat) (acc : Acc V) (accs : List (Acc V)) (bs : List (List V)) :
      acc.num = 0 → GoodQ bit q (i + 1) accs bs → GoodQ bit q i (acc :: accs) ([] :: bs)
  | some (i : Nat) (acc : Acc V) (accs : List (Acc V)) (bs : List (List V)) (B : List V) :
      acc.num = 1 → B ≠ [] → B.length ≤ 2 ^ i → (q → B.length = 2 ^ i) → Rep bit i acc.data B →
      Good bit (i + 1) accs bs → GoodQ bit q i (acc :: accs) (B :: bs)
  | over (i : Nat) (acc : Acc V) (D : List V) :
      acc.num = 0 → D ≠ [] → D.length ≤ 2 ^ (i + 1) → (q → D.length = 2 ^ (i + 1)) → Rep bit (i + 1) acc.data D →
      GoodQ bit q i [acc] [D]

theorem Good.toQ {bit : Nat → Bool} {q : Prop} {i : Nat} {accs : List (Acc V)} {bs : List (List V)}
    (h : Good bit i accs bs) : GoodQ bit q i accs bs := by
  induction h with
  | nil i => exact .nil i
  | none i acc accs bs h0 _ ih => exact .none i acc accs bs h0 ih
  | some i acc accs bs B h1 hl hr hg _ =>
    exact .some i acc accs bs B h1 (by intro h; have := Nat.two_pow_pos i; rw [h] at hl; simp at hl; omega)
      (by omega) (fun _ => hl) hr hg

theorem Good.length_eq {bit : Nat → Bool} {i : Nat} {accs : List (Acc V)} {bs : List (List V)}
    (h : Good bit i accs bs) : bs.length = accs.length := by
  induction h <;> simp [*]

theorem good_of_zero (bit : Nat → Bool) (i : Nat) (accs : List (Acc V)) (h : ∀ a ∈ accs, a.num = 0) :
    Good bit i accs (accs.map fun _ => []) := by
  induction accs generalizing i with
  | nil => exact .nil i
  | cons a rest ih =>
    exact .none i a rest _ (h a (by simp)) (ih (i + 1) fun b hb => h b (by simp [hb]))

theorem cat_nils (l : List (Acc V)) : cat (l.map fun _ => ([] : List V)) = [] := by
  induction l with
  | nil => rfl
  | cons a rest ih => simp only [List.map_cons, cat, ih, List.append_nil]

/-- a `GoodQ True` state whose blocks do not fill the capacity has no parked value: it is `Good` -/
theorem GoodQ.toGood {bit : Nat → Bool} {i : Nat} {accs : List (Acc V)} {bs : List (List V)}
    (h : GoodQ bit True i accs bs) (hlt : (cat bs).length < 2 ^ (i + accs.length)) : Good bit i accs bs := by
  induction h with
  | nil i => exact .nil i
  | none i acc accs bs h0 _ ih =>
    refine .none i acc accs bs h0 (ih ?_)
    simpa [cat, Nat.add_assoc, Nat.add_comm 1] using hlt
  | some i acc accs bs B h1 _ _ hq hr hg => exact .some i acc accs bs B h1 (hq trivial) hr hg
  | over i acc D _ _ _ hq _ =>
    exfalso
    have := hq trivial
    simp [cat] at hlt
    omega

/-- pushing the answer `v` of a block `B` (complete or, in the flush phase, partial) into the accumulators of
levels `≥ i`: always succeeds, keeps the blocks in order, `B` appended -/
theorem addCore_good {bit : Nat → Bool} {cmn : Bool → V → V → V} (hcmn : ∀ b res a, cmn b res a = if b then a else res)
    (q : Prop) {accs : List (Acc V)} : ∀ {i : Nat} {bs : List (List V)} {v : V} {B : List V},
    Good bit i accs bs → accs ≠ [] → B ≠ [] → B.length ≤ 2 ^ i → (q → B.length = 2 ^ i) → Rep bit i v B →
    ∃ accs' bs', addCore cmn bit v accs i = .ok accs' ∧ accs'.length = accs.length ∧
      GoodQ bit q i accs' bs' ∧ cat bs' = cat bs ++ B := by
  induction accs with
  | nil => intro i bs v B _ h; exact absurd rfl h
  | cons acc next ih =>
    intro i bs v B hg _ hB hle hq hv
    cases hg with
    | none _ _ _ bs0 h0 hrest =>
      refine ⟨{ data := v, num := 1 } :: next, B :: bs0, ?_, rfl, .some i _ next bs0 B rfl hB hle hq hv hrest, ?_⟩
      · rw [addCore]; simp [h0]
      · simp [cat]
    | some _ _ _ bs0 B' h1 hl' hr' hrest =>
      have hm : Rep bit (i + 1) (cmn (bit i) acc.data v) (B' ++ B) := Rep.merge hcmn hr' hl' hv hle
      have hmlen : (B' ++ B).length ≤ 2 ^ (i + 1) := by rw [List.length_append, pow_succ]; omega
      have hmq : q → (B' ++ B).length = 2 ^ (i + 1) := by
        intro hq'; rw [List.length_append, pow_succ, hq hq']; omega
      have hmne : B' ++ B ≠ [] := by simp [hB]
      cases next with
      | nil =>
        cases hrest
        refine ⟨[{ data := cmn (bit i) acc.data v, num := 0 }], [B' ++ B], ?_, rfl,
          .over i _ _ rfl hmne hmlen hmq hm, ?_⟩
        · rw [addCore]; simp [h1]
        · simp [cat]
      | cons n2 rest =>
        obtain ⟨n', bs', he, hlen, hgq, hcat⟩ := ih hrest (by simp) hmne hmlen hmq hm
        refine ⟨{ data := cmn (bit i) acc.data v, num := 0 } :: n', [] :: bs', ?_, by simp [hlen],
          .none i _ n' bs' rfl hgq, ?_⟩
        · rw [addCore]; simp [h1, he]
        · simp [cat, hcat]

/-- the flush loop: whatever is pending is pushed to the top; the top accumulator ends with the answer for the
whole stream -/
theorem flushLoop_good {bit : Nat → Bool} {cmn : Bool → V → V → V} (hcmn : ∀ b res a, cmn b res a = if b then a else res) :
    ∀ (fuel : Nat) {q : Prop} {accs : List (Acc V)} {i : Nat} {bs : List (List V)},
    GoodQ bit q i accs bs → accs ≠ [] → accs.length ≤ fuel →
    ∃ accs' last, flushLoop cmn bit fuel accs i = .ok accs' ∧ accs'.length = accs.length ∧
      accs'.getLast? = some last ∧ (cat bs ≠ [] → Rep bit (i + accs.length) last.data (cat bs)) := by
  intro fuel
  induction fuel with
  | zero => intro q accs i bs _ hne hlen; cases accs <;> simp at hne hlen
  | succ fuel ih =>
    intro q accs i bs hg hne hlen
    cases hg with
    | nil => exact absurd rfl hne
    | over _ acc D h0 hD _ _ hr =>
      exact ⟨[acc], acc, by simp [flushLoop], rfl, rfl, fun _ => by simpa [cat] using hr⟩
    | none _ acc next bs0 h0 hrest =>
      cases next with
      | nil =>
        cases hrest
        exact ⟨[acc], acc, by simp [flushLoop], rfl, rfl, fun h => absurd (by simp [cat]) h⟩
      | cons n2 rest =>
        obtain ⟨r, last, he, hl, hlast, hrep⟩ := ih hrest (by simp) (by simpa using hlen)
        refine ⟨acc :: r, last, ?_, by simp [hl], ?_, ?_⟩
        · rw [flushLoop] <;> simp [h0, he]
        · cases r with
          | nil => simp at hl
          | cons r0 rr => simpa using hlast
        · intro hc
          have : cat bs0 ≠ [] := by simpa [cat] using hc
          have := hrep this
          simpa [cat, Nat.add_assoc, Nat.add_comm 1] using this
    | some _ acc next bs0 B h1 hB hle _ hr hrest =>
      cases next with
      | nil =>
        cases hrest
        refine ⟨[acc], acc, by simp [flushLoop], rfl, rfl, fun _ => ?_⟩
        simpa [cat] using hr.mono
      | cons n2 rest =>
        obtain ⟨n', bs', he, hlen', hgq, hcat⟩ := addCore_good hcmn (B.length = 2 ^ (i + 1)) hrest (by simp) hB
          (by rw [pow_succ]; omega) id hr.mono
        have hn' : n' ≠ [] := by intro h; rw [h] at hlen'; simp at hlen'
        obtain ⟨r, last, he2, hl, hlast, hrep⟩ := ih hgq hn' (by rw [hlen']; simpa using hlen)
        refine ⟨{ acc with num := 0 } :: r, last, ?_, by simp [hl, hlen'], ?_, ?_⟩
        · rw [flushLoop] <;> simp [h1, he, he2]
        · cases r with
          | nil => rw [hlen'] at hl; simp at hl
          | cons r0 rr => simpa using hlast
        · intro _
          have h2 : cat bs' ≠ [] := by rw [hcat]; simp [hB]
          have := hrep h2
          rw [hcat, hlen'] at this
          simpa [cat, Nat.add_assoc, Nat.add_comm 1] using this

/-! ### the object: streams and histories -/

/-- what `reset` establishes (the stored values stay and are never read before being overwritten) -/
def Clean (r : Retr V) : Prop := r.counter = 0 ∧ ∀ a ∈ r.accs, a.num = 0

theorem reset_clean (r : Retr V) : Clean r.reset ∧ r.reset.accs.length = r.accs.length := by
  refine ⟨⟨rfl, ?_⟩, by simp [Retr.reset]⟩
  intro a ha
  simp only [Retr.reset, List.mem_map] at ha
  obtain ⟨b, _, rfl⟩ := ha
  rfl

theorem alloc_clean (init : V) (size : Nat) : Clean (Retr.alloc init size) := by
  refine ⟨rfl, ?_⟩
  intro a ha
  simp only [Retr.alloc, List.mem_replicate] at ha
  rw [ha.2]

theorem alloc_ne (init : V) (size : Nat) : (Retr.alloc init size).accs ≠ [] := by
  intro h
  have := congrArg List.length h
  simp only [Retr.alloc, List.length_replicate, List.length_nil] at this
  omega

/-- the capacity `2^bit_size` of `alloc(size)` is at least `size` -/
theorem alloc_capacity (init : V) (size : Nat) : size ≤ 2 ^ (Retr.alloc init size).accs.length := by
  simp only [Retr.alloc, List.length_replicate]
  by_cases h : size ≤ 1
  · rw [if_pos h]
    have : (1 : Nat) ≤ 2 ^ (max 0 1) := Nat.one_le_two_pow
    omega
  · rw [if_neg h]
    have h1 : size - 1 < 2 ^ ((size - 1).log2 + 1) := Nat.lt_log2_self
    have h2 : max ((size - 1).log2 + 1) 1 = (size - 1).log2 + 1 := by omega
    rw [h2]; omega

/-- the state after the prefix `D` of a stream has been added -/
def AddInv (bit : Nat → Bool) (L : Nat) (r : Retr V) (D : List V) : Prop :=
  r.accs.length = L ∧ r.counter = D.length ∧ ∃ bs, GoodQ bit True 0 r.accs bs ∧ cat bs = D

theorem add_inv {bit : Nat → Bool} {cmn : Bool → V → V → V} (hcmn : ∀ b res a, cmn b res a = if b then a else res)
    {L : Nat} (hL : 1 ≤ L) {r : Retr V} {D : List V} (a : V) (h : AddInv bit L r D) (hlt : D.length < 2 ^ L) :
    ∃ r', Retr.add cmn bit r a = .ok r' ∧ AddInv bit L r' (D ++ [a]) := by
  obtain ⟨hlen, hc, bs, hg, hcat⟩ := h
  have hgood : Good bit 0 r.accs bs := hg.toGood (by rw [hcat, hlen, Nat.zero_add]; exact hlt)
  have hne : r.accs ≠ [] := by intro h0; rw [h0] at hlen; simp at hlen; omega
  obtain ⟨accs', bs', he, hl', hgq, hcat'⟩ := addCore_good hcmn True (v := a) (B := [a]) hgood hne (by simp) (by simp)
    (fun _ => by simp) (Rep.single bit a)
  refine ⟨{ accs := accs', counter := r.counter + 1 }, ?_, ?_⟩
  · unfold Retr.add
    rw [if_neg (by rw [hlen, hc]; omega), he]
  · exact ⟨by simp [hl', hlen], by simp [hc], bs', hgq, by rw [hcat', hcat]⟩

/-- one step of the `add` loop of a stream -/
def addStep (cmn : Bool → V → V → V) (bit : Nat → Bool) (st : Outcome (Retr V)) (a : V) : Outcome (Retr V) :=
  match st with
  | Outcome.ok r' => Retr.add cmn bit r' a
  | other => other

theorem stream_eq (cmn : Bool → V → V → V) (bit : Nat → Bool) (zero : V) (r : Retr V) (data : List V) :
    Retr.stream cmn bit zero r data =
      match data.foldl (addStep cmn bit) (Outcome.ok r) with
      | .ok r' => r'.flush cmn bit zero
      | .panic c => .panic c
      | .err e => .err e := rfl

theorem fold_inv {bit : Nat → Bool} {cmn : Bool → V → V → V} (hcmn : ∀ b res a, cmn b res a = if b then a else res)
    {L : Nat} (hL : 1 ≤ L) : ∀ (rest : List V) (r : Retr V) (D : List V), AddInv bit L r D →
    D.length + rest.length ≤ 2 ^ L →
    ∃ r', rest.foldl (addStep cmn bit) (Outcome.ok r) = .ok r' ∧ AddInv bit L r' (D ++ rest) := by
  intro rest
  induction rest with
  | nil => intro r D h _; exact ⟨r, rfl, by simpa using h⟩
  | cons a rest ih =>
    intro r D h hlen
    simp only [List.length_cons] at hlen
    obtain ⟨r1, he, h1⟩ := add_inv hcmn hL a h (by omega)
    obtain ⟨r2, he2, h2⟩ := ih r1 (D ++ [a]) h1 (by simp; omega)
    refine ⟨r2, ?_, by simpa using h2⟩
    simp only [List.foldl_cons, addStep, he]
    exact he2

/-- **one stream on a clean retriever**: it succeeds, leaves the retriever clean, returns `zero` for an empty stream
and the answer for the stream otherwise. -/
theorem stream_good {bit : Nat → Bool} {cmn : Bool → V → V → V} (hcmn : ∀ b res a, cmn b res a = if b then a else res)
    (zero : V) (r : Retr V) (hc : Clean r) (hne : r.accs ≠ []) (data : List V) (hlen : data.length ≤ 2 ^ r.accs.length) :
    ∃ v r', Retr.stream cmn bit zero r data = .ok (v, r') ∧ Clean r' ∧ r'.accs.length = r.accs.length ∧
      (data = [] → v = zero) ∧ Rep bit r.accs.length v data := by
  have hL : 1 ≤ r.accs.length := by cases h : r.accs with | nil => exact absurd h hne | cons _ _ => simp
  have h0 : AddInv bit r.accs.length r [] :=
    ⟨rfl, hc.1, _, (good_of_zero bit 0 r.accs hc.2).toQ, cat_nils _⟩
  obtain ⟨r1, he, hlen1, hcnt, bs, hg, hcat⟩ := fold_inv hcmn hL data r [] h0 (by simpa using hlen)
  rw [List.nil_append] at hcnt hcat
  rw [stream_eq, he]
  simp only
  unfold Retr.flush
  by_cases hd : data = []
  · subst hd
    rw [if_pos (by simpa using hcnt)]
    exact ⟨zero, r1.reset, rfl, (reset_clean r1).1, by rw [(reset_clean r1).2, hlen1], fun _ => rfl,
      fun p hp => absurd hp (by simp)⟩
  · have hpos : 0 < data.length := List.length_pos_of_ne_nil hd
    rw [if_neg (by omega)]
    have hne1 : r1.accs ≠ [] := by intro h; rw [h] at hlen1; simp at hlen1; omega
    obtain ⟨accs', last, hf, hl', hlast, hrep⟩ := flushLoop_good hcmn r1.accs.length hg hne1 (Nat.le_refl _)
    rw [hf]
    simp only [hlast]
    refine ⟨last.data, _, rfl, (reset_clean _).1, by rw [(reset_clean _).2]; simp [hl', hlen1], fun h => absurd h hd, ?_⟩
    have := hrep (by rw [hcat]; exact hd)
    rwa [hcat, Nat.zero_add, hlen1] at this

/-- what a history must return: `zero` for an empty stream, otherwise the element the selector points at -/
def Answer (bit : Nat → Bool) (L : Nat) (zero : V) (s : Bool × List V) (v : V) : Prop :=
  (s.2 = [] → v = zero) ∧ Rep bit L v s.2

/-- **every history of streams on one retriever** (streaming `add`… `flush` and one-shot `retrieve` in any order, every
stream at most the capacity): every stream is answered as if the retriever had just been allocated. -/
theorem history_good {bit : Nat → Bool} {cmn : Bool → V → V → V} (hcmn : ∀ b res a, cmn b res a = if b then a else res)
    (zero : V) : ∀ (h : List (Bool × List V)) (r : Retr V), Clean r → r.accs ≠ [] →
    (∀ s ∈ h, s.2.length ≤ 2 ^ r.accs.length) →
    ∃ vs, Retr.history cmn bit zero r h = .ok vs ∧ List.Forall₂ (Answer bit r.accs.length zero) h vs := by
  intro h
  induction h with
  | nil => intro r _ _ _; exact ⟨[], rfl, .nil⟩
  | cons s rest ih =>
    intro r hc hne hlen
    obtain ⟨m, data⟩ := s
    have hd : data.length ≤ 2 ^ r.accs.length := hlen (m, data) (by simp)
    have key : ∃ v r', (if m then r.retrieve cmn bit zero data else r.stream cmn bit zero data) = .ok (v, r') ∧
        Clean r' ∧ r'.accs.length = r.accs.length ∧ (data = [] → v = zero) ∧ Rep bit r.accs.length v data := by
      cases m with
      | false => exact stream_good hcmn zero r hc hne data hd
      | true =>
        have hr := reset_clean r
        have hne0 : r.reset.accs ≠ [] := by
          intro h0
          have h1 := hr.2
          rw [h0] at h1
          exact hne (List.eq_nil_of_length_eq_zero h1.symm)
        obtain ⟨v, r', he, hc', hl', hz, hrep⟩ :=
          stream_good (bit := bit) hcmn zero r.reset hr.1 hne0 data (by rw [hr.2]; exact hd)
        exact ⟨v, r', by simpa [Retr.retrieve] using he, hc', by rw [hl', hr.2], hz, by rwa [hr.2] at hrep⟩
    obtain ⟨v, r', he, hc', hl', hz, hrep⟩ := key
    have hne' : r'.accs ≠ [] := by
      intro h0; apply hne; rw [h0] at hl'; exact List.eq_nil_of_length_eq_zero hl'.symm
    obtain ⟨vs, hvs, hall⟩ := ih r' hc' hne' (by intro s hs; rw [hl']; exact hlen s (by simp [hs]))
    refine ⟨v :: vs, ?_, .cons ⟨hz, hrep⟩ (by rwa [hl'] at hall)⟩
    rw [Retr.history]
    simp only [he, hvs]

end BlindSel
