import Poulpy.Lemmas.CkksBound
/-!
Per-limb bound of the fused right shifts `vec_znx_rsh_add_into` / `vec_znx_rsh_sub` (the kernel of the CKKS
plaintext addends).  `C08.rsh_add_value` / `rsh_sub_value` state the *value* of the result; the next core call
(`glwe_normalize_assign`) needs head-room on its *limbs*.  The fused kernel writes three ranges: the top
`⌈k/b⌉` limbs are re-normalised (balanced digits, `finalTopRun_spec`), the middle limbs are `res ± digit`
(`middleRun_spec`: balanced digits), the bottom limbs are left.  Added here; nothing of this was in C08.
-/

namespace Ckks.Bound
open Hal NormL

theorem mem_append3 {α} {x : α} {a b c : List α} (h : x ∈ a ++ b ++ c) : x ∈ a ∨ x ∈ b ∨ x ∈ c := by
  simp only [List.mem_append] at h; tauto

/-- every limb of `rshCoef .add / .sub` is within `Hr + 2^(b-1)` when the limbs of `res` are within `Hr ≤ 2^62` -/
theorem rshCoef_fused_bound {b : Nat} {H : Int} (hr : HeadRoom 64 b 0 H) (hb62 : b ≤ 62) (sub : Bool) (k : Nat)
    (a res : List Int) (ha : ∀ x ∈ a, |x| ≤ H) {Hr : Int} (hHr : Hr ≤ 2 ^ 62) (hHrH : Hr ≤ H) (hres : ∀ r ∈ res, |r| ≤ Hr) :
    ∀ x ∈ rshCoef (if sub then Fuse.sub else Fuse.add) b k a res, |x| ≤ Hr + 2 ^ (b - 1) := by
  have hb : 1 ≤ b := by have := hr.hlsh; omega
  have hHr0 : 0 ≤ Hr ∨ res = [] := by
    cases res with
    | nil => exact Or.inr rfl
    | cons r rs => exact Or.inl ((abs_nonneg r).trans (hres r (by simp)))
  obtain ⟨_, hl⟩ := rshSteps_spec hb k
  have hrl := hr.with_lsh hl
  have h0 : |(0 : Int)| ≤ H + 3 := by have := hr.hH0; simp; linarith
  generalize hsteps : (rshSteps b k).1 = steps
  generalize hlsh : (rshSteps b k).2 = lsh at hrl
  set resEnd := min res.length steps with hresEnd
  set resStart := min res.length (a.length + steps) with hresStart
  set aStart := min a.length (res.length - steps) with haStart
  have hmr : resStart - resEnd = aStart := by omega
  set D := a.drop aStart with hD
  set M' := (a.take aStart).drop (aStart - (resStart - resEnd)) with hM'
  have hM'eq : M' = a.take aStart := by rw [hM', hmr]; simp
  have hDb : ∀ x ∈ D, |x| ≤ H := fun x hx => ha x (List.mem_of_mem_drop hx)
  have hMb : ∀ x ∈ M', |x| ≤ H := fun x hx => by rw [hM'eq] at hx; exact ha x (List.mem_of_mem_take hx)
  set c0 := (carryOnlyRun 64 b lsh D).getD 0 with hc0
  have hc0b : |c0| ≤ H + 3 := by
    rw [hc0, carryOnlyRun_getD hrl D hDb]; exact (middleRun_spec hrl D hDb 0 h0).2.2.2
  set c1 := gapRun 64 b lsh (min (steps - res.length) (gapCap 64 b)) c0 with hc1
  have hc1b : |c1| ≤ H + 3 := (gapRun_spec hrl hc0b _).1
  obtain ⟨_, mlen, mbal, mcb⟩ := middleRun_spec hrl M' hMb c1 hc1b
  set mid := middleRun 64 b lsh M' c1 with hmid
  set R1 := res.take resEnd with hR1
  set R2 := (res.take resStart).drop resEnd with hR2
  set R3 := res.drop resStart with hR3
  have hcS : |(if sub then w64 (-mid.2) else mid.2)| ≤ H + 3 := by
    cases sub with
    | false => simpa using mcb
    | true =>
      simp only [if_true]
      rw [w64_eq_of_abs_lt (by
        rw [abs_neg]
        have h1 := hr.hH
        have e : (2 : Int) ^ (64 - 1) = 2 ^ 63 := by norm_num
        rw [e] at h1
        have h2 : (0 : Int) < 2 ^ b := by positivity
        linarith), abs_neg]
      exact mcb
  obtain ⟨_, _, tbal⟩ := finalTopRun_spec hr R1 (fun x hx => (hres x (List.mem_of_mem_take hx)).trans hHrH)
    (if sub then w64 (-mid.2) else mid.2) hcS
  have hF : rshCoef (if sub then Fuse.sub else Fuse.add) b k a res
      = finalTopRun 64 b 0 R1 (if sub then w64 (-mid.2) else mid.2)
          ++ List.zipWith (fun r d => if sub then w64 (r - d) else w64 (r + d)) R2 mid.1 ++ R3 := by
    unfold rshCoef
    cases sub <;> simp only [hsteps, hlsh, Bool.false_eq_true, if_false, if_true] <;> rfl
  have hhalf : (0 : Int) ≤ 2 ^ (b - 1) := by positivity
  have h61 : (2 : Int) ^ (b - 1) ≤ 2 ^ 61 := pow_le_pow_right₀ (by norm_num) (by omega)
  intro x hx
  rw [hF] at hx
  rcases mem_append3 hx with h1 | h2 | h3
  · have := (tbal x h1).abs_le
    rcases hHr0 with h | h
    · linarith
    · subst h; simp [R1, finalTopRun] at h1
  · obtain ⟨r, hr', d, hd, rfl⟩ := mem_zipWith h2
    have hrb : |r| ≤ Hr := hres r (List.mem_of_mem_take (List.mem_of_mem_drop hr'))
    have hdb := (mbal d hd).abs_le
    have hr'' := abs_le.mp hrb
    have hd'' := abs_le.mp hdb
    cases sub with
    | false =>
      simp only [Bool.false_eq_true, if_false]
      have hbd : |r + d| ≤ Hr + 2 ^ (b - 1) := abs_le.mpr ⟨by linarith [hr''.1, hd''.1], by linarith [hr''.2, hd''.2]⟩
      rw [w64_eq_of_abs_lt (lt_of_le_of_lt hbd (by linarith))]; exact hbd
    | true =>
      simp only [if_true]
      have hbd : |r - d| ≤ Hr + 2 ^ (b - 1) := abs_le.mpr ⟨by linarith [hr''.1, hd''.2], by linarith [hr''.2, hd''.1]⟩
      rw [w64_eq_of_abs_lt (lt_of_le_of_lt hbd (by linarith))]; exact hbd
  · have := hres x (List.mem_of_mem_drop h3)
    linarith

end Ckks.Bound
