import Poulpy.Lemmas.CkksSemOps
/-!
Value semantics of the CKKS operations whose data path is *not* re-modelled in C16 (rotation, conjugation,
multiplications, plaintext operands): each theorem takes, as a hypothesis structure, the integer phase
relation that the owning slice states for the executed core call (C03 for automorphisms and key switching,
C05 for the tensor product / relinearisation / plaintext products, C02 `rsh_phase` for right shifts), in the
same shape as the C02 relations used for the linear fragment, and concludes what the *decoded value* of the
result is, with the metadata of the metadata model.  Nothing here is an axiom: the contract is a premise.
-/

namespace Ckks
open Core Core.Ops C02L Ckks.Sem Ckks.CoreSem

/-! ### the exact negacyclic product on rational coefficient lists (mirror of `Hal.negMul`) -/

def qAdd (a b : List ℚ) : List ℚ := List.zipWith (· + ·) a b
def qScale (c : ℚ) (a : List ℚ) : List ℚ := a.map (fun x => c * x)
def qMulX (l : List ℚ) : List ℚ :=
  match l.getLast? with
  | none => []
  | some z => (-z) :: l.dropLast
/-- `a ⋆ b` in `ℚ[X]/(X^n+1)`, Horner form as `Hal.negMul` -/
def qNegMul : List ℚ → List ℚ → List ℚ
  | [], b => b.map (fun _ => 0)
  | a0 :: as, b => qAdd (qScale a0 b) (qMulX (qNegMul as b))

def castP (a : Poly) : List ℚ := List.map (fun (x : Int) => (x : ℚ)) a

theorem castP_add (a b : Poly) : castP (Hal.polyAdd a b) = qAdd (castP a) (castP b) := by
  unfold castP Hal.polyAdd qAdd
  induction a generalizing b with
  | nil => simp
  | cons x xs ih =>
    cases b with
    | nil => simp
    | cons y ys => simp [ih]

theorem castP_scale (c : Int) (a : Poly) : castP (Hal.polyScale c a) = qScale c (castP a) := by
  simp [castP, Hal.polyScale, qScale]

theorem castP_mulX (a : Poly) : castP (Hal.mulX a) = qMulX (castP a) := by
  unfold Hal.mulX qMulX castP
  rw [List.getLast?_map]
  cases a.getLast? with
  | none => simp
  | some z => simp [List.map_dropLast]

theorem castP_negMul (a b : Poly) : castP (Hal.negMul a b) = qNegMul (castP a) (castP b) := by
  induction a with
  | nil => simp [Hal.negMul, qNegMul, castP, Function.comp_def]
  | cons x xs ih =>
    show castP (Hal.polyAdd (Hal.polyScale x b) (Hal.mulX (Hal.negMul xs b))) = _
    rw [castP_add, castP_scale, castP_mulX, ih]
    rfl

theorem qScale_add (c : ℚ) (a b : List ℚ) : qScale c (qAdd a b) = qAdd (qScale c a) (qScale c b) := by
  unfold qScale qAdd
  induction a generalizing b with
  | nil => simp
  | cons x xs ih =>
    cases b with
    | nil => simp
    | cons y ys => simp [ih, mul_add]

theorem qScale_mulX (c : ℚ) (a : List ℚ) : qScale c (qMulX a) = qMulX (qScale c a) := by
  unfold qMulX qScale
  rw [List.getLast?_map]
  cases a.getLast? with
  | none => simp
  | some z => simp [List.map_dropLast]

theorem qScale_scale (c d : ℚ) (a : List ℚ) : qScale c (qScale d a) = qScale (c * d) a := by
  simp [qScale, mul_assoc]

theorem qScale_zero_map (c : ℚ) (b : List ℚ) : qScale c (b.map (fun _ => (0 : ℚ))) = b.map (fun _ => (0 : ℚ)) := by
  simp [qScale]

theorem qNegMul_scale_right (d : ℚ) (a b : List ℚ) : qNegMul a (qScale d b) = qScale d (qNegMul a b) := by
  induction a with
  | nil => simp [qNegMul, qScale, Function.comp_def]
  | cons x xs ih =>
    simp only [qNegMul]
    rw [ih, qScale_add, qScale_mulX, qScale_scale, qScale_scale, mul_comm]

theorem qNegMul_scale_left (c : ℚ) (a b : List ℚ) : qNegMul (qScale c a) b = qScale c (qNegMul a b) := by
  induction a with
  | nil => simp [qNegMul, qScale]
  | cons x xs ih =>
    show qNegMul (c * x :: qScale c xs) b = _
    simp only [qNegMul]
    rw [ih, qScale_add, qScale_mulX, qScale_scale]

theorem qScale_getD (c : ℚ) (a : List ℚ) (t : Nat) : (qScale c a).getD t 0 = c * a.getD t 0 := by
  simp only [qScale, List.getD_eq_getElem?_getD, List.getElem?_map]
  cases a[t]? <;> simp

theorem castP_getD (a : Poly) (t : Nat) : (castP a).getD t 0 = ((a.getD t 0 : Int) : ℚ) := by
  simp only [castP, List.getD_eq_getElem?_getD, List.getElem?_map]
  cases a[t]? <;> simp

/-- the decoded message polynomial of a GLWE at budget `β` under `s` -/
def decPG (s : List Poly) (N : Nat) (g : GLWE) (β : Nat) : List ℚ := (List.range N).map (decG s g β)

/-- the decoded message polynomial of a ciphertext -/
def decP (s : List Poly) (N : Nat) (c : DCt) : List ℚ := decPG s N c.g c.md.logBudget

/-- the exact phase polynomial (integers) -/
def phaseP (s : List Poly) (N : Nat) (g : GLWE) : Poly := (List.range N).map (valCoeff g.base2k (phase s g))

theorem decPG_eq (s : List Poly) (N : Nat) (g : GLWE) (β : Nat) :
    decPG s N g β = qScale (2 ^ β / 2 ^ (g.base2k * g.size)) (castP (phaseP s N g)) := by
  simp only [decPG, qScale, castP, phaseP, List.map_map]
  apply List.map_congr_left
  intro t _
  simp only [Function.comp, decG, dec, tor]
  ring

theorem decPG_getD (s : List Poly) (N : Nat) (g : GLWE) (β t : Nat) (ht : t < N) : (decPG s N g β).getD t 0 = decG s g β t := by
  simp [decPG, List.getD_eq_getElem?_getD, ht]


/-! ### products (C05) -/

/-- **contract of a product** (C05).  `g'` are the limbs written by the product of the ciphertext `a` with
an integer polynomial `Y` read on `Py` bits — the exact phase of a second ciphertext (`glwe_tensor_apply`
then `glwe_tensor_relinearize`: `C05.tensor_phase`, `relin_product_phase_dsize1/_gt1`), a ZNX plaintext
(`glwe_mul_plain`) or an encoded constant (`glwe_mul_const`) — at convolution offset `cnv`:
on the torus `phase(g') = phase(a) ⋆ (Y / 2^Py) · 2^cnv` up to `U` units of the last limb of `g'`
(truncation of the product to the limbs of `g'`: one unit per column, times `1 + Σ‖sᵢ‖₁`; plus, for ct × ct,
the key-switching noise of the relinearisation, `C03.keyswitch_value`). -/
structure ProdContract (s : List Poly) (N : Nat) (g' a : GLWE) (Y : Poly) (Py cnv : Nat) (U : ℚ) : Prop where
  rel : ∀ t, t < N → ∃ q e : Int,
    2 ^ (a.base2k * a.size + Py) * valCoeff g'.base2k (phase s g') t
      = 2 ^ cnv * 2 ^ (g'.base2k * g'.size) * (Hal.negMul (phaseP s N a) Y).getD t 0 + e
        + q * 2 ^ (g'.base2k * g'.size + (a.base2k * a.size + Py)) ∧
    |(e : ℚ)| ≤ U * 2 ^ (a.base2k * a.size + Py)

/-- from the contract to decoded values: if `cnv + β' = βa + βy` the result decodes to the negacyclic product
of the decoded operands (`Y` decodes to `Y · 2^βy / 2^Py`), modulo `2^β'`, within `U` units of its last limb -/
theorem prod_near {s : List Poly} {N : Nat} {g' a : GLWE} {Y : Poly} {Py cnv : Nat} {U : ℚ}
    (h : ProdContract s N g' a Y Py cnv U) (β' βa βy : Nat) (hk : cnv + β' = βa + βy) (t : Nat) (ht : t < N) :
    Near (decG s g' β' t) ((qNegMul (decPG s N a βa) (qScale (2 ^ βy / 2 ^ Py) (castP Y))).getD t 0) (2 ^ β')
      (U * ulpG g' β') := by
  obtain ⟨q, e, hrel, he⟩ := h.rel t ht
  have := dec_of_lsh _ _ e q (g'.base2k * g'.size) (a.base2k * a.size + Py) cnv β' (βa + βy) 0 U hrel he (by omega)
  rw [decPG_eq, qNegMul_scale_left, qNegMul_scale_right, qScale_scale, ← castP_negMul, qScale_getD, castP_getD]
  simp only [decG, ulpG]
  rw [show U * (2 ^ β' / 2 ^ (g'.base2k * g'.size)) = U * 2 ^ β' / 2 ^ (g'.base2k * g'.size) by ring]
  have hmid : 2 ^ βa / 2 ^ (a.base2k * a.size) * (2 ^ βy / 2 ^ Py) * (((Hal.negMul (phaseP s N a) Y).getD t 0 : Int) : ℚ)
      = dec ((Hal.negMul (phaseP s N a) Y).getD t 0) (a.base2k * a.size + Py) (βa + βy) * 2 ^ 0 := by
    simp only [dec, tor, pow_zero, mul_one]
    rw [pow_add, pow_add]
    field_simp
  rw [hmid]
  exact this

theorem mulInto_params {env : Env} {dst a b m : Ct} (h : mulInto env dst a b = .ok m) :
    ∃ q, mulCtParams env dst a b = .ok q ∧ m.md = ⟨q.delta, q.budget⟩ := by
  simp only [mulInto] at h
  split at h
  · cases h
  · next q hq =>
    refine ⟨q, hq, ?_⟩
    simp only [finishMul] at h
    split at h
    · cases h
    · injection h with h; rw [← h]

theorem mulCt_scale {env : Env} {dst a b : Ct} {q : MulP} (h : mulCtParams env dst a b = .ok q) :
    q.cnv + q.budget = a.md.logBudget + b.md.logBudget := by
  simp only [mulCtParams] at h
  grind

theorem mulPt_scale {env : Env} {dst a : Ct} {p : Meta} {cnvBase : Nat} {q : MulP} (h : mulPtParams env dst a p cnvBase = .ok q) :
    q.cnv + q.budget + p.logDelta = a.md.logBudget + cnvBase := by
  simp only [mulPtParams] at h
  grind

/-- **`ckks_mul_into` (ct × ct, relinearised)**: with the metadata of the metadata model, the result decodes to
the negacyclic product of the decoded operands -/
theorem mul_ct_sem {env : Env} {N : Nat} {dst a b c' : DCt} {m : Ct} (hm : mulInto env dst.ct a.ct b.ct = .ok m)
    (hmd : c'.md = m.md) {s : List Poly} {U : ℚ}
    (hc : ∀ q, mulCtParams env dst.ct a.ct b.ct = .ok q →
      ProdContract s N c'.g a.g (phaseP s N b.g) (b.g.base2k * b.g.size) q.cnv U) :
    ∀ t, t < N → Near (decC s c' t) ((qNegMul (decP s N a) (decP s N b)).getD t 0) (wrap c') (U * ulp c') := by
  obtain ⟨q, hq, hqm⟩ := mulInto_params hm
  have hk := mulCt_scale hq
  intro t ht
  have := prod_near (hc q hq) c'.md.logBudget a.md.logBudget b.md.logBudget
    (by rw [hmd, hqm]; simpa [DCt.ct] using hk) t ht
  rw [← decPG_eq] at this
  exact this

/-- **`ckks_mul_pt_vec_znx_into`** (and, through `to_znx`, the RNX plaintext and constant forms): `Y` are the
integer coefficients of the ZNX plaintext, read on `pt.max_k` bits; its message is `Y / 2^log_delta` -/
theorem mul_pt_sem {env : Env} {N : Nat} {dst a c' : DCt} {pt : Pt} {q : MulP}
    (hq : mulPtParams env dst.ct a.ct pt.md pt.maxK = .ok q) (hmd : c'.md = ⟨q.delta, q.budget⟩)
    (hfit : pt.md.logDelta ≤ pt.maxK) {s : List Poly} {U : ℚ} {Y : Poly}
    (hc : ProdContract s N c'.g a.g Y pt.maxK q.cnv U) :
    ∀ t, t < N → Near (decC s c' t)
      ((qNegMul (decP s N a) (qScale (1 / 2 ^ pt.md.logDelta) (castP Y))).getD t 0) (wrap c') (U * ulp c') := by
  have hk := mulPt_scale hq
  intro t ht
  have := prod_near hc c'.md.logBudget a.md.logBudget (pt.maxK - pt.md.logDelta)
    (by rw [hmd]; simp only [DCt.ct] at hk ⊢; omega) t ht
  have e : (2 : ℚ) ^ (pt.maxK - pt.md.logDelta) / 2 ^ pt.maxK = 1 / 2 ^ pt.md.logDelta := by
    obtain ⟨j, hj⟩ : ∃ j, pt.maxK = pt.md.logDelta + j := ⟨pt.maxK - pt.md.logDelta, by omega⟩
    rw [hj, Nat.add_sub_cancel_left, pow_add]
    field_simp
  rw [e] at this
  exact this

/-! ### rotation and conjugation (C03) -/

/-- **contract of `glwe_automorphism` followed by the alignment shift** (C03: `automorphism_phase_key` — the
automorphism of the columns followed by the key switch back to `s` —, `keyswitch_value` for the noise of the
key, and `C02.lsh_phase` for the shift `k`): coefficient `t` of the phase of `g'` is `σ t` times coefficient
`π t` of the phase of `a` (the signed permutation `X ↦ X^g`), shifted by `k` bits, up to `U` units of the last
limb of `g'`. -/
structure AutContract (s : List Poly) (N : Nat) (g' a : GLWE) (π : Nat → Nat) (σ : Nat → Int) (k : Nat) (U : ℚ) : Prop where
  perm : ∀ t, t < N → π t < N
  rel : ∀ t, t < N → ∃ q e : Int,
    2 ^ (a.base2k * a.size) * valCoeff g'.base2k (phase s g') t
      = 2 ^ k * 2 ^ (g'.base2k * g'.size) * (σ t * valCoeff a.base2k (phase s a) (π t)) + e
        + q * 2 ^ (g'.base2k * g'.size + a.base2k * a.size) ∧
    |(e : ℚ)| ≤ U * 2 ^ (a.base2k * a.size)

theorem aut_near {s : List Poly} {N : Nat} {g' a : GLWE} {π : Nat → Nat} {σ : Nat → Int} {k : Nat} {U : ℚ}
    (h : AutContract s N g' a π σ k U) (β' βa : Nat) (hk : k + β' = βa) (t : Nat) (ht : t < N) :
    Near (decG s g' β' t) (σ t * decG s a βa (π t)) (2 ^ β') (U * ulpG g' β') := by
  obtain ⟨q, e, hrel, he⟩ := h.rel t ht
  have := dec_of_lsh _ _ e q (g'.base2k * g'.size) (a.base2k * a.size) k β' βa 0 U hrel he (by omega)
  simp only [decG, ulpG]
  rw [show U * (2 ^ β' / 2 ^ (g'.base2k * g'.size)) = U * 2 ^ β' / 2 ^ (g'.base2k * g'.size) by ring]
  have hmid : (σ t : ℚ) * dec (valCoeff a.base2k (phase s a) (π t)) (a.base2k * a.size) βa
      = dec (σ t * valCoeff a.base2k (phase s a) (π t)) (a.base2k * a.size) βa * 2 ^ 0 := by
    simp only [dec, tor, pow_zero, mul_one]
    push_cast
    ring
  rw [hmid]
  exact this

/-- **`ckks_rotate_into` / `ckks_conjugate_into`**: the decoded polynomial is the automorphic image of the
operand's -/
theorem rotate_into_sem {env : Env} {N : Nat} {dst a c' : DCt} {m : Ct} {kk : Int}
    (hm : rotateInto env dst.ct a.ct kk = .ok m) (hmd : c'.md = m.md) {s : List Poly} {π : Nat → Nat} {σ : Nat → Int} {U : ℚ}
    (hc : AutContract s N c'.g a.g π σ (unaryShift env dst.ct a.ct 0) U) :
    ∀ t, t < N → Near (decC s c' t) (σ t * decC s a (π t)) (wrap c') (U * ulp c') := by
  have hm' : shiftInto env dst.ct a.ct 0 = .ok m := by
    simp only [rotateInto] at hm
    split at hm
    · exact hm
    · cases hm
  have hsp := unaryShift_spec env dst.ct a.ct m hm' 0
  intro t ht
  exact aut_near hc c'.md.logBudget a.md.logBudget (by rw [hmd]; simpa [DCt.ct] using hsp) t ht

/-- **`ckks_rotate_assign` / `ckks_conjugate_assign`**: no shift, same metadata -/
theorem rotate_assign_sem {N : Nat} {c c' : DCt} (hmd : c'.md = c.md) {s : List Poly} {π : Nat → Nat} {σ : Nat → Int} {U : ℚ}
    (hc : AutContract s N c'.g c.g π σ 0 U) :
    ∀ t, t < N → Near (decC s c' t) (σ t * decC s c (π t)) (wrap c') (U * ulp c') := by
  intro t ht
  exact aut_near hc c'.md.logBudget c.md.logBudget (by rw [hmd]; omega) t ht

/-! ### plaintext and constant addends (C02 `rsh_phase`) -/

/-- **contract of `vec_znx_rsh_add_into` / `vec_znx_rsh_sub`** on the body column (the kernel of C08 behind
`C02.rsh_phase`, fused with the addition): `phase(g') = phase(g) + σ · Y / 2^(Py + sh)` on the torus, up to `U`
units of the last limb (`U ≤ 1`: only the body column is touched) -/
structure PtAddContract (s : List Poly) (N : Nat) (g' g : GLWE) (Y : Poly) (σ : Int) (Py sh : Nat) (U : ℚ) : Prop where
  shape : g'.base2k = g.base2k ∧ g'.size = g.size
  rel : ∀ t, t < N → ∃ q e : Int,
    2 ^ (Py + sh) * valCoeff g'.base2k (phase s g') t
      = 2 ^ (Py + sh) * valCoeff g.base2k (phase s g) t + σ * (2 ^ 0 * 2 ^ (g'.base2k * g'.size)) * Y.getD t 0 + e
        + q * 2 ^ (g'.base2k * g'.size + (Py + sh)) ∧
    |(e : ℚ)| ≤ U * 2 ^ (Py + sh)

/-- **`ckks_add_pt_vec_znx_assign` / `ckks_sub_pt_vec_znx_assign`** (and the constant forms through `to_znx_at_k`):
the decoded value moves by the plaintext message `Y / 2^log_delta` -/
theorem add_pt_assign_sem {env : Env} {N : Nat} {c c' : DCt} {pt : Pt} {m : Ct} (hm : ptAlign env c.ct pt = .ok m)
    (hmd : c'.md = c.md) {s : List Poly} {Y : Poly} {σ : Int} {U : ℚ}
    (hc : PtAddContract s N c'.g c.g Y σ pt.maxK (ptShift c.ct pt) U) :
    ∀ t, t < N → Near (decC s c' t) (decC s c t + σ * ((Y.getD t 0 : Int) / 2 ^ pt.md.logDelta)) (wrap c') (U * ulp c') := by
  have hsp := ptShift_spec env c.ct m pt hm
  have hmm : m = c.ct := by
    simp only [ptAlign] at hm
    split at hm
    · cases hm
    · split at hm
      · cases hm
      · split at hm
        · cases hm
        · injection hm with hm; exact hm.symm
  subst hmm
  simp only [DCt.ct] at hsp
  intro t ht
  obtain ⟨q, e, hrel, he⟩ := hc.rel t ht
  have := dec_of_lsh_acc _ _ _ e q σ (c'.g.base2k * c'.g.size) (pt.maxK + ptShift c.ct pt) 0 c'.md.logBudget
    c'.md.logBudget U hrel he (by omega)
  simp only [decC, decG, ulp, ulpG, wrap, hmd]
  rw [hmd] at this
  rw [show U * (2 ^ c.md.logBudget / 2 ^ (c'.g.base2k * c'.g.size)) = U * 2 ^ c.md.logBudget / 2 ^ (c'.g.base2k * c'.g.size) by ring]
  convert this using 3
  · rw [hc.shape.1, hc.shape.2]
  · simp only [dec, tor]
    have : pt.maxK + ptShift ⟨c.md, c.g.size⟩ pt = c.md.logBudget + pt.md.logDelta := by omega
    rw [show ptShift c.ct pt = ptShift ⟨c.md, c.g.size⟩ pt from rfl, this, pow_add]
    field_simp

end Ckks
