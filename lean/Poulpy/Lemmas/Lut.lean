import Poulpy.Model.Lut
import Mathlib.Tactic.Linarith
import Mathlib.Tactic.Ring
import Mathlib.Tactic.Positivity

namespace Lut

/-- the signed 2n-periodic extension of a coefficient list: coefficient of `X^m`, any integer `m` -/
def sext (a : List Vec) (m : Int) : Vec :=
  let n := a.length
  let r := (m % (2 * (n : Int))).toNat
  if r < n then (a[r]?).getD [] else negV ((a[r - n]?).getD [])

theorem rotate_length (p : Int) (a : List Vec) : (rotate p a).length = a.length := by
  unfold rotate
  by_cases h : a.length = 0
  · simp [h]
  · simp only [h, if_false]
    have hq : (p % (2 * (a.length : Int))).toNat % a.length < a.length := Nat.mod_lt _ (by omega)
    split <;> simp <;> omega

theorem rotate_getElem? (p : Int) (a : List Vec) (hn : 0 < a.length) (j : Nat) (hj : j < a.length) :
    (rotate p a)[j]? =
      (let rp := (p % (2 * (a.length : Int))).toNat
       let q := rp % a.length
       if rp < a.length then (if j < q then (a[a.length - q + j]?).map negV else a[j - q]?)
       else (if j < q then a[a.length - q + j]? else (a[j - q]?).map negV)) := by
  have h0 : a.length ≠ 0 := by omega
  have hq : (p % (2 * (a.length : Int))).toNat % a.length < a.length := Nat.mod_lt _ hn
  unfold rotate
  simp only [h0, if_false]
  generalize (p % (2 * (a.length : Int))).toNat = rp at hq ⊢
  generalize hqd : rp % a.length = q at hq ⊢
  by_cases h1 : rp < a.length
  · simp only [h1, if_true]
    by_cases h2 : j < q
    · simp only [h2, if_true]
      rw [List.getElem?_append_left (by simp; omega)]
      simp [List.getElem?_map, List.getElem?_drop]
    · simp only [h2, if_false]
      rw [List.getElem?_append_right (by simp; omega)]
      simp only [List.length_map, List.length_drop]
      rw [List.getElem?_take]
      have e : j - (a.length - (a.length - q)) = j - q := by omega
      rw [e, if_pos (by omega)]
  · simp only [h1, if_false]
    by_cases h2 : j < q
    · simp only [h2, if_true]
      rw [List.getElem?_append_left (by simp; omega)]
      simp [List.getElem?_drop]
    · simp only [h2, if_false]
      rw [List.getElem?_append_right (by simp; omega)]
      simp only [List.length_drop, List.getElem?_map]
      rw [List.getElem?_take]
      have e : j - (a.length - (a.length - q)) = j - q := by omega
      rw [e, if_pos (by omega)]

theorem sub_emod_cases (m p : Int) (N : Nat) (hN : 0 < N) :
    ((m - p) % (2 * (N : Int))).toNat =
      if (p % (2 * (N : Int))).toNat ≤ (m % (2 * (N : Int))).toNat
      then (m % (2 * (N : Int))).toNat - (p % (2 * (N : Int))).toNat
      else (m % (2 * (N : Int))).toNat + 2 * N - (p % (2 * (N : Int))).toNat := by
  have hM : (0 : Int) < 2 * (N : Int) := by omega
  have hx0 := Int.emod_nonneg m (ne_of_gt hM)
  have hx1 := Int.emod_lt_of_pos m hM
  have hy0 := Int.emod_nonneg p (ne_of_gt hM)
  have hy1 := Int.emod_lt_of_pos p hM
  rw [Int.sub_emod]
  generalize m % (2 * (N : Int)) = x at *
  generalize p % (2 * (N : Int)) = y at *
  by_cases h : y ≤ x
  · rw [Int.emod_eq_of_lt (by omega) (by omega)]
    have : y.toNat ≤ x.toNat := by omega
    simp only [this, if_true]
    omega
  · have e : (x - y) % (2 * (N : Int)) = x - y + 2 * N := by
      rw [← Int.add_emod_right (x - y) (2 * (N : Int))]
      exact Int.emod_eq_of_lt (by omega) (by omega)
    rw [e]
    have : ¬ y.toNat ≤ x.toNat := by omega
    simp only [this, if_false]
    omega

/-- **rotation = index shift of the signed periodic extension** -/
theorem sext_rotate (p : Int) (a : List Vec) (hn : 0 < a.length)
    (hneg : ∀ v ∈ a, negV (negV v) = v) (m : Int) :
    sext (rotate p a) m = sext a (m - p) := by
  have hM : (0 : Int) < 2 * (a.length : Int) := by omega
  have hx1 : (m % (2 * (a.length : Int))).toNat < 2 * a.length := by
    have := Int.emod_lt_of_pos m hM; have := Int.emod_nonneg m (ne_of_gt hM); omega
  have hy1 : (p % (2 * (a.length : Int))).toNat < 2 * a.length := by
    have := Int.emod_lt_of_pos p hM; have := Int.emod_nonneg p (ne_of_gt hM); omega
  have hr := sub_emod_cases m p a.length hn
  unfold sext
  simp only [rotate_length]
  rw [hr]
  generalize (m % (2 * (a.length : Int))).toNat = x at *
  -- element access into the rotated list
  have get := fun j hj => rotate_getElem? p a hn j hj
  simp only at get
  generalize (p % (2 * (a.length : Int))).toNat = y at *
  have negget : ∀ i, i < a.length → negV (negV ((a[i]?).getD [])) = (a[i]?).getD [] := by
    intro i hi
    rw [List.getElem?_eq_getElem hi]
    exact hneg _ (List.getElem_mem hi)
  by_cases hy : y < a.length
  · have hq : y % a.length = y := Nat.mod_eq_of_lt hy
    by_cases hx : x < a.length
    · rw [if_pos hx, get x hx, hq, if_pos hy]
      by_cases hjq : x < y
      · have h1 : ¬ y ≤ x := by omega
        simp only [hjq, h1, if_true, if_false]
        rw [if_neg (by omega)]
        have e : x + 2 * a.length - y - a.length = a.length - y + x := by omega
        rw [e]
        cases a[a.length - y + x]? <;> simp [negV]
      · have h1 : y ≤ x := by omega
        simp only [hjq, h1, if_true, if_false]
        rw [if_pos (by omega)]
    · rw [if_neg hx, get (x - a.length) (by omega), hq, if_pos hy]
      by_cases hjq : x - a.length < y
      · have h1 : y ≤ x := by omega
        simp only [hjq, h1, if_true]
        rw [if_pos (by omega)]
        have e : a.length - y + (x - a.length) = x - y := by omega
        rw [e]
        have hlt : x - y < a.length := by omega
        rw [List.getElem?_eq_getElem hlt]
        simp only [Option.map_some, Option.getD_some]
        exact hneg _ (List.getElem_mem hlt)
      · have h1 : y ≤ x := by omega
        simp only [hjq, h1, if_true, if_false]
        rw [if_neg (by omega)]
        have e : x - a.length - y = x - y - a.length := by omega
        rw [e]
  · have hq : y % a.length = y - a.length := by
      have : y = (y - a.length) + a.length := by omega
      conv => lhs; rw [this]
      rw [Nat.add_mod_right]; exact Nat.mod_eq_of_lt (by omega)
    by_cases hx : x < a.length
    · rw [if_pos hx, get x hx, hq, if_neg hy]
      by_cases hjq : x < y - a.length
      · have h1 : ¬ y ≤ x := by omega
        simp only [hjq, h1, if_true, if_false]
        rw [if_pos (by omega)]
        have e : a.length - (y - a.length) + x = x + 2 * a.length - y := by omega
        rw [e]
      · simp only [hjq, if_false]
        have hlt : x - (y - a.length) < a.length := by omega
        rw [List.getElem?_eq_getElem hlt]
        simp only [Option.map_some, Option.getD_some]
        by_cases h1 : y ≤ x
        · omega
        · simp only [h1, if_false]
          rw [if_neg (by omega)]
          have e : x + 2 * a.length - y - a.length = x - (y - a.length) := by omega
          rw [e, List.getElem?_eq_getElem hlt]
          simp
    · rw [if_neg hx, get (x - a.length) (by omega), hq, if_neg hy]
      have h1 : y ≤ x ∨ ¬ y ≤ x := by omega
      by_cases hjq : x - a.length < y - a.length
      · have h1 : ¬ y ≤ x := by omega
        simp only [hjq, h1, if_true, if_false]
        rw [if_neg (by omega)]
        have e : a.length - (y - a.length) + (x - a.length) = x + 2 * a.length - y - a.length := by omega
        rw [e]
      · have h1 : y ≤ x := by omega
        simp only [hjq, h1, if_true, if_false]
        rw [if_pos (by omega)]
        have e : x - a.length - (y - a.length) = x - y := by omega
        rw [e]
        have hlt : x - y < a.length := by omega
        rw [List.getElem?_eq_getElem hlt]
        simp only [Option.map_some, Option.getD_some]
        exact hneg _ (List.getElem_mem hlt)

/-- every limb is an `i64` -/
def InRange (a : List Vec) : Prop := ∀ v ∈ a, ∀ x ∈ v, -(2:Int)^63 ≤ x ∧ x < 2^63

theorem w64_neg_neg (x : Int) (h1 : -(2:Int)^63 ≤ x) (h2 : x < 2^63) : w64 (-(w64 (-x))) = x := by
  unfold w64; omega

theorem negV_negV (v : Vec) (h : ∀ x ∈ v, -(2:Int)^63 ≤ x ∧ x < 2^63) : negV (negV v) = v := by
  unfold negV
  rw [List.map_map]
  conv => rhs; rw [← List.map_id v]
  apply List.map_congr_left
  intro x hx
  exact w64_neg_neg x (h x hx).1 (h x hx).2

theorem w64_range (x : Int) : -(2:Int)^63 ≤ w64 x ∧ w64 x < 2^63 := by
  unfold w64; omega

theorem negV_range (v : Vec) : ∀ x ∈ negV v, -(2:Int)^63 ≤ x ∧ x < 2^63 := by
  intro x hx
  simp only [negV, List.mem_map] at hx
  obtain ⟨y, _, rfl⟩ := hx
  exact w64_range _

theorem rotate_inRange (p : Int) (a : List Vec) (h : InRange a) : InRange (rotate p a) := by
  unfold rotate
  by_cases h0 : a.length = 0
  · simp [h0]; exact h
  · simp only [h0, if_false]
    intro v hv
    split at hv
    · rcases List.mem_append.1 hv with hv | hv
      · obtain ⟨w, _, rfl⟩ := List.mem_map.1 hv; exact negV_range w
      · exact h v (List.mem_of_mem_take hv)
    · rcases List.mem_append.1 hv with hv | hv
      · exact h v (List.mem_of_mem_drop hv)
      · obtain ⟨w, _, rfl⟩ := List.mem_map.1 hv; exact negV_range w

theorem getElem?_eq_sext (a : List Vec) (j : Nat) (hj : j < a.length) : a[j]? = some (sext a (j : Int)) := by
  unfold sext
  have e : ((j : Int) % (2 * (a.length : Int))).toNat = j := by
    rw [Int.emod_eq_of_lt (by omega) (by omega)]; simp
  simp only [e, hj, if_true, List.getElem?_eq_getElem hj, Option.getD_some]

theorem rotate_rotate (p q : Int) (a : List Vec) (h : InRange a) : rotate p (rotate q a) = rotate (p + q) a := by
  by_cases h0 : a.length = 0
  · have : a = [] := List.eq_nil_of_length_eq_zero h0
    subst this; simp [rotate]
  have hn : 0 < a.length := by omega
  apply List.ext_getElem?
  intro j
  by_cases hj : j < a.length
  · have inv := fun (l : List Vec) (hl : InRange l) v (hv : v ∈ l) => negV_negV v (hl v hv)
    rw [getElem?_eq_sext _ j (by simp [rotate_length]; exact hj), getElem?_eq_sext _ j (by simp [rotate_length]; exact hj)]
    rw [sext_rotate p _ (by simp [rotate_length]; exact hn) (inv _ (rotate_inRange q a h)),
        sext_rotate q a hn (inv a h), sext_rotate (p + q) a hn (inv a h)]
    congr 2; omega
  · rw [List.getElem?_eq_none (by simp [rotate_length]; omega), List.getElem?_eq_none (by simp [rotate_length]; omega)]

theorem rotate_congr (p p' : Int) (a : List Vec) (h : p % (2 * (a.length : Int)) = p' % (2 * (a.length : Int))) :
    rotate p a = rotate p' a := by
  unfold rotate
  simp only [h]

theorem getDigit_range (b : Nat) (hb : 1 ≤ b) (hb2 : b ≤ 64) (x : Int) : -(2:Int)^63 ≤ getDigit b x ∧ getDigit b x < 2^63 := by
  unfold getDigit
  have e : (2:Int) ^ b = 2 * 2 ^ (b - 1) := by
    have : b = (b - 1) + 1 := by omega
    conv => lhs; rw [this, pow_succ]
    ring
  have hpos : (0:Int) < 2 ^ (b - 1) := by positivity
  have hle : (2:Int) ^ (b - 1) ≤ 2 ^ 63 := pow_le_pow_right₀ (by norm_num) (by omega)
  rw [e]
  generalize (2:Int) ^ (b - 1) = P at *
  have h0 := Int.emod_nonneg (x + P) (show (2 * P) ≠ 0 by omega)
  have h1 := Int.emod_lt_of_pos (x + P) (show (0:Int) < 2 * P by omega)
  omega

theorem normRev_range (b : Nat) (hb : 1 ≤ b) (hb2 : b ≤ 64) : ∀ (l : List Int) (first : Bool) (c : Int),
    ∀ x ∈ normRev b first c l, -(2:Int)^63 ≤ x ∧ x < 2^63 := by
  intro l
  induction l with
  | nil => intro first c x hx; simp [normRev] at hx
  | cons y rest ih =>
    intro first c x hx
    cases rest with
    | nil =>
      cases first <;> simp [normRev] at hx <;> subst hx <;> exact getDigit_range b hb hb2 _
    | cons z rest' =>
      cases first
      · simp only [normRev, List.mem_cons] at hx
        rcases hx with hx | hx
        · subst hx; exact getDigit_range b hb hb2 _
        · exact ih _ _ x (by simpa using hx)
      · simp only [normRev, List.mem_cons] at hx
        rcases hx with hx | hx
        · subst hx; exact getDigit_range b hb hb2 _
        · exact ih _ _ x (by simpa using hx)

theorem normVec_range (b : Nat) (hb : 1 ≤ b) (hb2 : b ≤ 64) (v : Vec) :
    ∀ x ∈ normVec b v, -(2:Int)^63 ≤ x ∧ x < 2^63 := by
  intro x hx
  unfold normVec at hx
  exact normRev_range b hb hb2 _ _ _ x (List.mem_reverse.1 hx)

theorem flatMap_replicate_get {α β : Type} (g : α → β) (step : Nat) (hs : 0 < step) : ∀ (l : List α) (x : Nat),
    x < l.length * step →
    (l.flatMap fun y => List.replicate step (g y))[x]? = (l[x / step]?).map g := by
  intro l
  induction l with
  | nil => intro x hx; simp at hx
  | cons y rest ih =>
    intro x hx
    simp only [List.flatMap_cons]
    by_cases h : x < step
    · rw [List.getElem?_append_left (by simpa using h)]
      simp [h, Nat.div_eq_of_lt h]
    · rw [List.getElem?_append_right (by simpa using h)]
      simp only [List.length_replicate]
      have hx' : x - step < rest.length * step := by
        simp only [List.length_cons, Nat.succ_mul] at hx; omega
      rw [ih (x - step) hx']
      have : x / step = (x - step) / step + 1 := by
        have hge : step ≤ x := by omega
        rw [← Nat.sub_add_cancel hge, Nat.add_div_right _ hs, Nat.add_sub_cancel]
      rw [this]; simp

/-- `lookup_table_rotate` on a single-polynomial table is the ring rotation, for every `k` that does not
overflow `k + 2N` (`-2N ≤ k`, `k + 2N < 2^63`, `2N < 2^62`). -/
theorem lutRotate_ext1 (n : Nat) (k : Int) (p0 : List Vec) (hlen : p0.length = n) (hn : 0 < n)
    (hn2 : 2 * (n : Int) < 2 ^ 62) (hk1 : -(2 * (n : Int)) ≤ k) (hk2 : k + 2 * (n : Int) < 2 ^ 63) :
    lutRotate n k [p0] = [rotate k p0] := by
  have hM : (0:Int) < 2 * (n : Int) := by omega
  have hT : ((2 * n * 1 : Nat) : Int) = 2 * (n : Int) := by push_cast; ring
  have h2 := Int.emod_nonneg (k + 2 * (n : Int)) (ne_of_gt hM)
  have h3 := Int.emod_lt_of_pos (k + 2 * (n : Int)) hM
  have e1 : w64 (k + 2 * (n : Int)) = k + 2 * (n : Int) := by unfold w64; omega
  have e2 : Int.tmod (k + 2 * (n : Int)) (2 * (n : Int)) = (k + 2 * (n : Int)) % (2 * (n : Int)) :=
    Int.tmod_eq_emod_of_nonneg (by omega)
  have e3 : (k + 2 * (n : Int)) % (2 * (n : Int)) % 2 ^ 64 = (k + 2 * (n : Int)) % (2 * (n : Int)) :=
    Int.emod_eq_of_lt h2 (by omega)
  have e4 : w64 (((k + 2 * (n : Int)) % (2 * (n : Int))).toNat : Int) = (k + 2 * (n : Int)) % (2 * (n : Int)) := by
    rw [Int.toNat_of_nonneg h2]; unfold w64; omega
  unfold lutRotate
  simp only [List.length_cons, List.length_nil, Nat.zero_add, hT, e1, e2, e3, Nat.div_one, Nat.mod_one, Nat.sub_zero, e4,
    List.mapIdx_cons, List.mapIdx_nil, rotateRight, List.drop_length, List.take_length]
  simp only [Nat.lt_one_iff, if_true, List.length_cons, List.length_nil, Nat.zero_add, Nat.sub_zero, List.drop_succ_cons,
    List.drop_nil, List.take_succ_cons, List.take_zero, List.nil_append, List.drop_zero]
  have hr : rotate ((k + 2 * (n : Int)) % (2 * (n : Int))) p0 = rotate k p0 := by
    apply rotate_congr
    rw [hlen, Int.emod_emod_of_dvd _ (dvd_refl _)]
    exact Int.add_emod_right k (2 * (n : Int))
  rw [hr]

/-- limb vector of a table entry: value `x` placed in limb `limbs-1` of `size` limbs, normalised -/
def enc (b size limbs : Nat) (x : Int) : Vec :=
  normVec b ((List.range size).map fun j => if j = limbs - 1 then x else 0)

/-- `lookup_table_set` for a single-polynomial table whose length divides `N` -/
theorem lutSet_ext1 (n b kLut k step : Nat) (f : List Int) (hn : 0 < n) (hn2 : 2 * (n : Int) < 2 ^ 62) (hb : 1 ≤ b)
    (hlen : 1 ≤ f.length) (hdiv : n = f.length * step)
    (hbits : maxBitSize f + k % b < 64) (hl1 : 1 ≤ (k + b - 1) / b) (hl2 : (k + b - 1) / b ≤ (kLut + b - 1) / b) :
    lutSet n 1 b kLut f k = .ok
      { data := [rotate (-((step / 2 : Nat) : Int))
          ((f.flatMap fun fi => List.replicate step
            (enc b ((kLut + b - 1) / b) ((k + b - 1) / b) (w64 (fi * (if k % b ≠ 0 then 2 ^ (b - k % b) else 1)))))) ],
        drift := step / 2 } := by
  have hstep : 0 < step := by
    rcases Nat.eq_zero_or_pos step with h | h
    · subst h; omega
    · exact h
  have hfn : ¬ (f.length > n) := by
    rw [hdiv]; have := Nat.le_mul_of_pos_right f.length hstep; omega
  have hstepeq : (n * 1 + f.length / 2) / f.length = step := by
    rw [Nat.mul_one, hdiv, Nat.mul_add_div (by omega), Nat.div_eq_of_lt (a := f.length / 2) (by omega)]
    rfl
  have hb0 : b ≠ 0 := by omega
  have hl0 : (k + b - 1) / b ≠ 0 := by omega
  have hf0 : f.length ≠ 0 := by omega
  have hbnd : ¬ (f.length * step > n * 1) := by omega
  unfold lutSet
  simp only [isPow2, hb0, hfn, hbits, hl2, hl0, hf0, hstepeq, hbnd, if_false]
  simp only [show (1 != 0 && 2 ^ Nat.log2 1 == 1) = true by decide, Bool.not_true, Bool.false_eq_true, if_false,
    decide_true, Bool.not_true, Nat.lt_irrefl, if_false, List.map_cons, List.map_nil]
  have hz : n * 1 - f.length * step = 0 := by omega
  rw [hz, List.replicate_zero, List.append_nil]
  have hmap : List.map (normVec b)
      (List.flatMap (fun fi => List.replicate step
        (List.map (fun j => if j = (k + b - 1) / b - 1 then w64 (fi * if k % b ≠ 0 then 2 ^ (b - k % b) else 1) else 0)
          (List.range ((kLut + b - 1) / b)))) f) =
      f.flatMap fun fi => List.replicate step
        (enc b ((kLut + b - 1) / b) ((k + b - 1) / b) (w64 (fi * (if k % b ≠ 0 then 2 ^ (b - k % b) else 1)))) := by
    rw [List.map_flatMap]
    apply List.flatMap_congr
    intro fi _
    simp [enc]
  rw [hmap]
  congr 1
  congr 1
  have hlenF : (f.flatMap fun fi => List.replicate step
        (enc b ((kLut + b - 1) / b) ((k + b - 1) / b) (w64 (fi * (if k % b ≠ 0 then 2 ^ (b - k % b) else 1))))).length = n := by
    rw [hdiv, List.length_flatMap]
    simp [List.length_replicate, List.map_const', List.sum_replicate]
  have hsn : step ≤ n := by rw [hdiv]; exact Nat.le_mul_of_pos_left step (by omega)
  exact lutRotate_ext1 n _ _ hlenF hn hn2 (by omega) (by omega)

/-- the table polynomial before the half-step rotation: entry `i` repeated `step` times -/
def tableF (b size limbs step : Nat) (scale : Int) (f : List Int) : List Vec :=
  f.flatMap fun fi => List.replicate step (enc b size limbs (w64 (fi * scale)))

theorem tableF_length (b size limbs step : Nat) (scale : Int) (f : List Int) :
    (tableF b size limbs step scale f).length = f.length * step := by
  unfold tableF
  rw [List.length_flatMap]
  simp [List.length_replicate, List.map_const', List.sum_replicate]

theorem tableF_inRange (b size limbs step : Nat) (scale : Int) (f : List Int) (hb : 1 ≤ b) (hb2 : b ≤ 64) :
    InRange (tableF b size limbs step scale f) := by
  intro v hv
  simp only [tableF, List.mem_flatMap, List.mem_replicate] at hv
  obtain ⟨fi, _, _, rfl⟩ := hv
  exact normVec_range b hb hb2 _

theorem tableF_get (b size limbs step : Nat) (scale : Int) (f : List Int) (hs : 0 < step) (x : Nat)
    (hx : x < f.length * step) :
    (tableF b size limbs step scale f)[x]? = (f[x / step]?).map fun fi => enc b size limbs (w64 (fi * scale)) :=
  flatMap_replicate_get _ step hs f x hx

/-- coefficient 0 after one more clear rotation by `kk` of a table polynomial that was pre-rotated by `-d` -/
theorem coeff0_rotate_rotate (F : List Vec) (hF : InRange F) (n : Nat) (hlen : F.length = n) (hn : 0 < n) (d kk : Int) :
    (rotate kk (rotate (-d) F))[0]? = some (sext F (d - kk)) := by
  rw [rotate_rotate _ _ _ hF]
  rw [getElem?_eq_sext _ 0 (by rw [rotate_length]; omega)]
  rw [sext_rotate _ _ (by omega) (fun v hv => negV_negV v (hF v hv))]
  congr 2
  simp
  omega

theorem bitLen_pow_sub_one (m : Nat) (hm : 1 ≤ m) : bitLen (2 ^ m - 1) = m := by
  unfold bitLen
  have h1 : 2 ^ m - 1 ≠ 0 := by
    have : 2 ≤ 2 ^ m := by
      calc 2 = 2 ^ 1 := by norm_num
        _ ≤ 2 ^ m := Nat.pow_le_pow_right (by norm_num) hm
    omega
  rw [if_neg h1]
  have : Nat.log2 (2 ^ m - 1) = m - 1 := by
    rw [Nat.log2_eq_iff h1]
    have e : 2 ^ m = 2 * 2 ^ (m - 1) := by
      have : m = (m - 1) + 1 := by omega
      conv => lhs; rw [this, pow_succ]
      ring
    have hp : 0 < 2 ^ (m - 1) := by positivity
    have : m - 1 + 1 = m := by omega
    rw [this]
    constructor <;> omega
  rw [this]; omega

/-- Horner value of the first `j+1` digits: `Σ_{i≤j} d_i · 2^{b(j-i)}` -/
def hv (b : Nat) (ds : Nat → Int) : Nat → Int
  | 0 => ds 0
  | j + 1 => hv b ds j * 2 ^ b + ds (j + 1)

/-- the scalar recursion of `mod_switch_2n`'s limb loop (one coefficient) -/
def msRec (b rem size : Nat) (ds : Nat → Int) : Nat → Int
  | 0 => ds 0
  | j + 1 =>
    if j + 1 = size - 1 ∧ rem ≠ b then w64 (w64 (msRec b rem size ds j * 2 ^ (b - rem)) + divRoundByPow2 (ds (j + 1)) rem)
    else w64 (w64 (msRec b rem size ds j * 2 ^ b) + ds (j + 1))

theorem hv_bound (b : Nat) (hb : 1 ≤ b) (ds : Nat → Int) (hd : ∀ i, -(2:Int) ^ (b - 1) ≤ ds i ∧ ds i ≤ 2 ^ (b - 1)) :
    ∀ j, -((2:Int) ^ (b * (j + 1)) - 1) ≤ hv b ds j ∧ hv b ds j ≤ 2 ^ (b * (j + 1)) - 1 := by
  have e : (2:Int) ^ b = 2 * 2 ^ (b - 1) := by
    have : b = (b - 1) + 1 := by omega
    conv => lhs; rw [this, pow_succ]
    ring
  have hp : (0:Int) < 2 ^ (b - 1) := by positivity
  intro j
  induction j with
  | zero =>
    have := hd 0
    simp only [hv, Nat.zero_add, Nat.mul_one]
    rw [e]; constructor <;> omega
  | succ j ih =>
    have h1 := hd (j + 1)
    simp only [hv]
    have e2 : (2:Int) ^ (b * (j + 1 + 1)) = 2 ^ (b * (j + 1)) * 2 ^ b := by
      rw [← pow_add]; congr 1
    rw [e2]
    have hP : (0:Int) < 2 ^ (b * (j + 1)) := by positivity
    generalize (2:Int) ^ (b * (j + 1)) = P at *
    generalize hv b ds j = H at *
    rw [e]
    generalize (2:Int) ^ (b - 1) = Q at *
    constructor <;> nlinarith

theorem w64_id (x : Int) (h1 : -(2:Int)^63 ≤ x) (h2 : x < 2^63) : w64 x = x := by unfold w64; omega

theorem msRec_full (b rem size : Nat) (hb : 1 ≤ b) (ds : Nat → Int)
    (hd : ∀ i, -(2:Int) ^ (b - 1) ≤ ds i ∧ ds i ≤ 2 ^ (b - 1)) :
    ∀ j, (j < size - 1 ∨ rem = b) → b * (j + 1) ≤ 62 → msRec b rem size ds j = hv b ds j := by
  intro j
  induction j with
  | zero => intro _ _; rfl
  | succ j ih =>
    intro hc hov
    have hc' : j < size - 1 ∨ rem = b := by omega
    have ihj := ih hc' (by have : b * (j + 1) ≤ b * (j + 1 + 1) := Nat.mul_le_mul_left b (by omega); omega)
    have hcond : ¬ (j + 1 = size - 1 ∧ rem ≠ b) := by omega
    simp only [msRec, hcond, if_false, ihj, hv]
    have hbnd := hv_bound b hb ds hd j
    have hbnd1 := hv_bound b hb ds hd (j + 1)
    simp only [hv] at hbnd1
    have hd1 := hd (j + 1)
    have hle : (2:Int) ^ (b * (j + 1 + 1)) ≤ 2 ^ 62 := pow_le_pow_right₀ (by norm_num) hov
    have e : (2:Int) ^ b = 2 * 2 ^ (b - 1) := by
      have : b = (b - 1) + 1 := by omega
      conv => lhs; rw [this, pow_succ]
      ring
    have hq : (0:Int) < 2 ^ (b - 1) := by positivity
    have hbb : b ≤ b * (j + 1 + 1) := Nat.le_mul_of_pos_right b (by omega)
    have hq2 : (2:Int) ^ (b - 1) ≤ 2 ^ 61 := pow_le_pow_right₀ (by norm_num) (by omega)
    have hinner : w64 (hv b ds j * 2 ^ b) = hv b ds j * 2 ^ b := by
      apply w64_id <;> nlinarith
    rw [hinner]
    apply w64_id <;> nlinarith

/-- the body of the limb loop, as in `modSwitch2n` -/
def msStep (b rem size : Nat) (limbs : List (List Int)) (sgn : Int → Int) (y : List Int) (i' : Nat) : List Int :=
  let i := i' + 1
  let xi := (limbs.getD i []).map sgn
  if i = size - 1 ∧ rem ≠ b then
    let kRem := b - rem
    List.zipWith (fun x y => w64 (w64 (y * 2 ^ kRem) + divRoundByPow2 x rem)) xi y
  else
    List.zipWith (fun x y => w64 (w64 (y * 2 ^ b) + x)) xi y

theorem msFold_singleton (b rem size : Nat) (xs : List Int) (sgn : Int → Int) :
    ∀ j, j < xs.length →
      (List.range j).foldl (msStep b rem size (xs.map fun x => [x]) sgn) [sgn (xs.getD 0 0)] =
        [msRec b rem size (fun i => sgn (xs.getD i 0)) j] := by
  intro j
  induction j with
  | zero => intro _; rfl
  | succ j ih =>
    intro hj
    rw [List.range_succ, List.foldl_append, ih (by omega)]
    simp only [List.foldl_cons, List.foldl_nil, msStep, msRec]
    have hget : (List.map (fun x => [x]) xs).getD (j + 1) [] = [xs.getD (j + 1) 0] := by
      simp [List.getD, List.getElem?_map, List.getElem?_eq_getElem hj]
    rw [hget]
    split <;> simp


theorem ms_last (H d : Int) (b r q : Nat) (hbrq : b = r + q) (hq1 : 1 ≤ q) (hb60 : b ≤ 61)
    (hd : -(2:Int) ^ (b - 1) ≤ d ∧ d ≤ 2 ^ (b - 1))
    (hH : -(2:Int) ^ 62 ≤ H * 2 ^ b ∧ H * 2 ^ b ≤ 2 ^ 62) :
    w64 (w64 (H * 2 ^ r) + divRoundByPow2 d q) = (H * 2 ^ b + d + 2 ^ (q - 1)) / 2 ^ q := by
  have hsplit : (2:Int) ^ b = 2 ^ r * 2 ^ q := by rw [← pow_add, hbrq]
  have hr0 : (0:Int) < 2 ^ r := by positivity
  have hq0 : (0:Int) < 2 ^ q := by positivity
  have hb1 : 1 ≤ b := by omega
  have hqh : (2:Int) ^ q = 2 * 2 ^ (q - 1) := by
    have : q = (q - 1) + 1 := by omega
    conv => lhs; rw [this, pow_succ]
    ring
  have hqh0 : (0:Int) < 2 ^ (q - 1) := by positivity
  have hqle : (2:Int) ^ (q - 1) ≤ 2 ^ (b - 1) := pow_le_pow_right₀ (by norm_num) (by omega)
  have hble : (2:Int) ^ (b - 1) ≤ 2 ^ 60 := pow_le_pow_right₀ (by norm_num) (by omega)
  have hdr : divRoundByPow2 d q = (d + 2 ^ (q - 1)) / 2 ^ q := by
    unfold divRoundByPow2
    rw [w64_id] <;> omega
  rw [hdr]
  have hval : (H * 2 ^ b + d + 2 ^ (q - 1)) / 2 ^ q = H * 2 ^ r + (d + 2 ^ (q - 1)) / 2 ^ q := by
    rw [hsplit]
    have : H * (2 ^ r * 2 ^ q) + d + 2 ^ (q - 1) = (d + 2 ^ (q - 1)) + (H * 2 ^ r) * 2 ^ q := by ring
    rw [this, Int.add_mul_ediv_right _ _ (ne_of_gt hq0)]
    ring
  rw [hval]
  have hdiv_lo : -(2:Int) ^ (b - 1) ≤ (d + 2 ^ (q - 1)) / 2 ^ q := by
    apply Int.le_ediv_of_mul_le hq0
    have : -(2:Int) ^ (b - 1) * 2 ^ q ≤ -(2:Int) ^ (b - 1) := by nlinarith
    omega
  have hdiv_hi : (d + 2 ^ (q - 1)) / 2 ^ q ≤ 2 ^ (b - 1) := by
    apply Int.ediv_le_of_le_mul hq0
    have : (2:Int) ^ (b - 1) * 2 ≤ 2 ^ (b - 1) * 2 ^ q := by nlinarith
    nlinarith
  have hHr : -(2:Int) ^ 62 ≤ H * 2 ^ r ∧ H * 2 ^ r ≤ 2 ^ 62 := by
    have hrb : (2:Int) ^ r ≤ 2 ^ b := pow_le_pow_right₀ (by norm_num) (by omega)
    rcases le_or_gt 0 H with h | h
    · constructor <;> nlinarith
    · constructor <;> nlinarith
  rw [w64_id (H * 2 ^ r) (by omega) (by omega)]
  apply w64_id <;> omega


theorem getD_bounded (xs : List Int) (B : Int) (hB : 0 ≤ B) (hx : ∀ x ∈ xs, -B ≤ x ∧ x ≤ B) (i : Nat) :
    -B ≤ xs.getD i 0 ∧ xs.getD i 0 ≤ B := by
  rw [List.getD_eq_getElem?_getD]
  cases hgi : xs[i]? with
  | none => simp only [Option.getD_none]; constructor <;> omega
  | some v => simp only [Option.getD_some]; exact hx v (List.mem_of_getElem? hgi)


/-- the degree-`n·ext` polynomial an extended table stands for: coefficient `x·ext + i` is coefficient `x` of
polynomial `i` -/
def interleave (n : Nat) (L : List (List Vec)) : List Vec :=
  (List.range (n * L.length)).map fun y => ((L[y % L.length]?).getD [])[y / L.length]?.getD []

theorem interleave_length (n : Nat) (L : List (List Vec)) : (interleave n L).length = n * L.length := by
  simp [interleave]

theorem interleave_get (n : Nat) (L : List (List Vec)) (a j : Nat) (ha : a < n) (hj : j < L.length) :
    (interleave n L)[a * L.length + j]? = some (((L[j]?).getD [])[a]?.getD []) := by
  have hlt : a * L.length + j < n * L.length := by
    have : (a + 1) * L.length ≤ n * L.length := Nat.mul_le_mul_right _ (by omega)
    rw [Nat.succ_mul] at this; omega
  unfold interleave
  rw [List.getElem?_map, List.getElem?_range hlt]
  simp only [Option.map_some]
  have h1 : (a * L.length + j) % L.length = j := by
    rw [Nat.mul_comm, Nat.mul_add_mod]; exact Nat.mod_eq_of_lt hj
  have h2 : (a * L.length + j) / L.length = a := by
    rw [Nat.mul_comm, Nat.mul_add_div (by omega), Nat.div_eq_of_lt hj]; rfl
  rw [h1, h2]

/-- `(A·e + j) mod (M·e) = (A mod M)·e + j` for `0 ≤ j < e` -/
theorem mul_add_emod (A : Int) (M e j : Nat) (hM : 0 < M) (he : 0 < e) (hj : j < e) :
    (A * (e : Int) + (j : Int)) % ((M : Int) * (e : Int)) = (A % (M : Int)) * (e : Int) + (j : Int) := by
  have hMe : (0:Int) < (M : Int) * (e : Int) := by positivity
  have h0 := Int.emod_nonneg A (show (M : Int) ≠ 0 by omega)
  have h1 := Int.emod_lt_of_pos A (show (0 : Int) < (M : Int) by omega)
  have hdecomp : A * (e : Int) + (j : Int) = ((A % (M : Int)) * (e : Int) + (j : Int)) + ((M : Int) * (e : Int)) * (A / (M : Int)) := by
    have := Int.emod_add_mul_ediv A (M : Int)
    nlinarith
  rw [hdecomp, Int.add_mul_emod_self_left]
  apply Int.emod_eq_of_lt
  · nlinarith
  · have : (A % (M : Int) + 1) * (e : Int) ≤ (M : Int) * (e : Int) := by nlinarith
    nlinarith

theorem sext_interleave (n : Nat) (L : List (List Vec)) (hn : 0 < n) (hlen : ∀ p ∈ L, p.length = n)
    (A : Int) (j : Nat) (hj : j < L.length) :
    sext (interleave n L) (A * (L.length : Int) + (j : Int)) = sext ((L[j]?).getD []) A := by
  have he : 0 < L.length := by omega
  have hpj : ((L[j]?).getD []).length = n := by
    rw [List.getElem?_eq_getElem hj]; exact hlen _ (List.getElem_mem hj)
  have hmod := mul_add_emod A (2 * n) L.length j (by omega) he hj
  have h0 := Int.emod_nonneg A (show ((2 * n : Nat) : Int) ≠ 0 by omega)
  have h1 := Int.emod_lt_of_pos A (show (0 : Int) < ((2 * n : Nat) : Int) by omega)
  unfold sext
  rw [interleave_length, hpj]
  simp only []
  have hcast : (2 : Int) * ((n * L.length : Nat) : Int) = ((2 * n : Nat) : Int) * (L.length : Int) := by push_cast; ring
  have hcast2 : (2 : Int) * (n : Int) = ((2 * n : Nat) : Int) := by push_cast; ring
  rw [hcast, hmod, hcast2]
  obtain ⟨a, ha⟩ : ∃ a : Nat, A % ((2 * n : Nat) : Int) = (a : Int) := ⟨(A % ((2 * n : Nat) : Int)).toNat, by omega⟩
  rw [ha]
  have ha2 : a < 2 * n := by omega
  have hr : ((a : Int) * (L.length : Int) + (j : Int)).toNat = a * L.length + j := by
    have : (a : Int) * (L.length : Int) + (j : Int) = ((a * L.length + j : Nat) : Int) := by push_cast; ring
    rw [this]; exact Int.toNat_natCast _
  rw [hr]
  simp only [Int.toNat_natCast]
  by_cases hlt : a < n
  · have h3 : a * L.length + j < n * L.length := by
      have : (a + 1) * L.length ≤ n * L.length := Nat.mul_le_mul_right _ (by omega)
      rw [Nat.succ_mul] at this; omega
    rw [if_pos h3, if_pos hlt, interleave_get n L a j hlt hj]
    simp
  · have h3 : ¬ (a * L.length + j < n * L.length) := by
      have : n * L.length ≤ a * L.length := Nat.mul_le_mul_right _ (by omega)
      omega
    rw [if_neg h3, if_neg hlt]
    have h4 : a * L.length + j - n * L.length = (a - n) * L.length + j := by
      rw [Nat.sub_mul]
      have : n * L.length ≤ a * L.length := Nat.mul_le_mul_right _ (by omega)
      omega
    rw [h4, interleave_get n L (a - n) j (by omega) hj]
    simp

theorem sext_congr (a : List Vec) (m m' : Int) (h : m % (2 * (a.length : Int)) = m' % (2 * (a.length : Int))) :
    sext a m = sext a m' := by
  unfold sext; simp only [h]

theorem rotateRight_get {α : Type} (m : Nat) (l : List α) (hm : m ≤ l.length) (i : Nat) (hi : i < l.length) :
    (rotateRight m l)[i]? = if i < m then l[l.length - m + i]? else l[i - m]? := by
  unfold rotateRight
  by_cases h : i < m
  · rw [if_pos h, List.getElem?_append_left (by simp; omega), List.getElem?_drop]
  · rw [if_neg h, List.getElem?_append_right (by simp; omega)]
    simp only [List.length_drop]
    rw [List.getElem?_take]
    have e : i - (l.length - (l.length - m)) = i - m := by omega
    rw [e, if_pos (by omega)]

/-- the polynomials of `lookup_table_rotate(k)`: polynomial `i` is `X^{k_hi+1}`·(polynomial `ext-k_lo+i`) for
`i < k_lo` and `X^{k_hi}`·(polynomial `i-k_lo`) otherwise, `k_pos = k mod 2·N·ext = k_hi·ext + k_lo`. -/
theorem lutRotate_get (n : Nat) (k : Int) (L : List (List Vec)) (he : 0 < L.length)
    (hd2 : 2 * ((n * L.length : Nat) : Int) < 2 ^ 62) (hk1 : -(2 * ((n * L.length : Nat) : Int)) ≤ k)
    (hk2 : k + 2 * ((n * L.length : Nat) : Int) < 2 ^ 63) (hn : 0 < n) (i : Nat) (hi : i < L.length) :
    (lutRotate n k L)[i]? =
      (let κ := ((k + 2 * ((n * L.length : Nat) : Int)) % (2 * ((n * L.length : Nat) : Int))).toNat
       if i < κ % L.length then (L[L.length - κ % L.length + i]?).map (rotate ((κ / L.length : Nat) + 1 : Int))
       else (L[i - κ % L.length]?).map (rotate ((κ / L.length : Nat) : Int))) := by
  have hT : ((2 * n * L.length : Nat) : Int) = 2 * ((n * L.length : Nat) : Int) := by push_cast; ring
  have hM : (0:Int) < 2 * ((n * L.length : Nat) : Int) := by
    have : 0 < n * L.length := Nat.mul_pos hn he
    omega
  generalize hD : 2 * ((n * L.length : Nat) : Int) = D at *
  have h2 := Int.emod_nonneg (k + D) (ne_of_gt hM)
  have h3 := Int.emod_lt_of_pos (k + D) hM
  have e1 : w64 (k + D) = k + D := by unfold w64; omega
  have e2 : Int.tmod (k + D) D = (k + D) % D := Int.tmod_eq_emod_of_nonneg (by omega)
  have e3 : (k + D) % D % 2 ^ 64 = (k + D) % D := Int.emod_eq_of_lt h2 (by omega)
  unfold lutRotate
  simp only [hT, e1, e2, e3]
  generalize hκ : ((k + D) % D).toNat = κ
  have hκb : (κ : Int) < 2 ^ 62 := by omega
  have hdiv : κ / L.length ≤ κ := Nat.div_le_self _ _
  have hlo : κ % L.length < L.length := Nat.mod_lt _ he
  have hq0 : (0:Int) ≤ ((κ / L.length : Nat) : Int) := Int.natCast_nonneg _
  have hq1 : ((κ / L.length : Nat) : Int) ≤ (κ : Int) := by exact_mod_cast hdiv
  have w0 : w64 ((κ / L.length : Nat) : Int) = ((κ / L.length : Nat) : Int) := by
    generalize ((κ / L.length : Nat) : Int) = q at *
    unfold w64; omega
  have w1 : w64 (((κ / L.length : Nat) : Int) + 1) = ((κ / L.length : Nat) : Int) + 1 := by
    generalize ((κ / L.length : Nat) : Int) = q at *
    unfold w64; omega
  rw [w0, w1]
  rw [rotateRight_get _ _ (by simp; omega) i (by simp; exact hi)]
  simp only [List.length_mapIdx, List.getElem?_mapIdx]
  by_cases h : i < κ % L.length
  · rw [if_pos h, if_pos h]
    have : ¬ (L.length - κ % L.length + i < L.length - κ % L.length) := by omega
    cases L[L.length - κ % L.length + i]? <;> simp [this]
  · rw [if_neg h, if_neg h]
    have : i - κ % L.length < L.length - κ % L.length := by omega
    cases L[i - κ % L.length]? <;> simp [this]

theorem lutRotate_length (n : Nat) (k : Int) (L : List (List Vec)) (he : 0 < L.length) : (lutRotate n k L).length = L.length := by
  unfold lutRotate rotateRight
  simp only [List.length_append, List.length_drop, List.length_take, List.length_mapIdx]
  have : (Int.tmod (w64 (k + ((2 * n * L.length : Nat) : Int))) ((2 * n * L.length : Nat) : Int) % 2 ^ 64).toNat % L.length ≤ L.length := by
    exact Nat.le_of_lt (Nat.mod_lt _ he)
  omega

theorem interleave_inRange (n : Nat) (L : List (List Vec)) (hr : ∀ p ∈ L, InRange p) : InRange (interleave n L) := by
  intro v hv
  simp only [interleave, List.mem_map, List.mem_range] at hv
  obtain ⟨y, _, rfl⟩ := hv
  cases h1 : L[y % L.length]? with
  | none => simp
  | some p =>
    simp only [Option.getD_some]
    cases h2 : p[y / L.length]? with
    | none => simp
    | some w =>
      simp only [Option.getD_some]
      exact hr p (List.mem_of_getElem? h1) w (List.mem_of_getElem? h2)

/-- **interleaving lemma**: `lookup_table_rotate(k)` on the `ext` polynomials is multiplication by `Y^k` of the
interleaved degree-`N·ext` polynomial. -/
theorem lutRotate_interleave (n : Nat) (k : Int) (L : List (List Vec)) (he : 0 < L.length) (hn : 0 < n)
    (hlen : ∀ p ∈ L, p.length = n) (hr : ∀ p ∈ L, InRange p)
    (hd2 : 2 * ((n * L.length : Nat) : Int) < 2 ^ 62) (hk1 : -(2 * ((n * L.length : Nat) : Int)) ≤ k)
    (hk2 : k + 2 * ((n * L.length : Nat) : Int) < 2 ^ 63) :
    interleave n (lutRotate n k L) = rotate k (interleave n L) := by
  have hLl := lutRotate_length n k L he
  have hI : (interleave n L).length = n * L.length := interleave_length n L
  have hIr := interleave_inRange n L hr
  have hdom : 0 < n * L.length := Nat.mul_pos hn he
  have hM : (0:Int) < 2 * ((n * L.length : Nat) : Int) := by omega
  apply List.ext_getElem?
  intro y
  by_cases hy : y < n * L.length
  · obtain ⟨x, i, hx, hi, rfl⟩ : ∃ x i, x < n ∧ i < L.length ∧ y = x * L.length + i :=
      ⟨y / L.length, y % L.length, Nat.div_lt_of_lt_mul (by rw [Nat.mul_comm]; exact hy), Nat.mod_lt _ he,
        by rw [Nat.mul_comm]; exact (Nat.div_add_mod y L.length).symm⟩
    -- right-hand side
    rw [getElem?_eq_sext (rotate k (interleave n L)) _ (by rw [rotate_length, hI]; exact hy)]
    rw [sext_rotate k _ (by rw [hI]; exact hdom) (fun v hv => negV_negV v (hIr v hv))]
    -- left-hand side
    have hg := lutRotate_get n k L he hd2 hk1 hk2 hn i hi
    simp only at hg
    generalize hκ : ((k + 2 * ((n * L.length : Nat) : Int)) % (2 * ((n * L.length : Nat) : Int))).toNat = κ at hg
    have hκk : (κ : Int) % (2 * ((n * L.length : Nat) : Int)) = k % (2 * ((n * L.length : Nat) : Int)) := by
      have h2 := Int.emod_nonneg (k + 2 * ((n * L.length : Nat) : Int)) (ne_of_gt hM)
      rw [← hκ, Int.toNat_of_nonneg h2, Int.emod_emod_of_dvd _ (dvd_refl _)]
      exact Int.add_emod_right k _
    have hκd : κ = κ / L.length * L.length + κ % L.length := by
      rw [Nat.mul_comm]; exact (Nat.div_add_mod κ L.length).symm
    have hlo : κ % L.length < L.length := Nat.mod_lt _ he
    have key : ∀ (j : Nat) (r : Int), j < L.length → (lutRotate n k L)[i]? = some (rotate r ((L[j]?).getD [])) →
        ((x : Int) - r) * (L.length : Int) + (j : Int) = ((x * L.length + i : Nat) : Int) - (κ : Int) →
        (interleave n (lutRotate n k L))[x * L.length + i]? = some (sext (interleave n L) (((x * L.length + i : Nat) : Int) - k)) := by
      intro j r hj hgi hidx
      have hlenj : ((L[j]?).getD []).length = n := by
        rw [List.getElem?_eq_getElem hj]; exact hlen _ (List.getElem_mem hj)
      have hrj : InRange ((L[j]?).getD []) := by
        rw [List.getElem?_eq_getElem hj]; exact hr _ (List.getElem_mem hj)
      have hi' : i < (lutRotate n k L).length := by rw [hLl]; exact hi
      have := interleave_get n (lutRotate n k L) x i hx hi'
      rw [hLl] at this
      rw [this, hgi]
      simp only [Option.getD_some]
      rw [getElem?_eq_sext _ x (by rw [rotate_length, hlenj]; exact hx)]
      simp only [Option.getD_some]
      rw [sext_rotate r _ (by rw [hlenj]; exact hn) (fun v hv => negV_negV v (hrj v hv))]
      rw [← sext_interleave n L hn hlen ((x : Int) - r) j hj, hidx]
      congr 1
      apply sext_congr
      rw [hI]
      rw [Int.sub_emod, hκk, ← Int.sub_emod]
    by_cases h : i < κ % L.length
    · rw [if_pos h] at hg
      have hj : L.length - κ % L.length + i < L.length := by omega
      rw [List.getElem?_eq_getElem hj] at hg
      simp only [Option.map_some] at hg
      apply key (L.length - κ % L.length + i) (((κ / L.length : Nat) : Int) + 1) hj
      · rw [hg, List.getElem?_eq_getElem hj]; rfl
      · have e1 : ((L.length - κ % L.length + i : Nat) : Int) = (L.length : Int) - ((κ % L.length : Nat) : Int) + (i : Int) := by
          omega
        rw [e1]
        have e2 : (κ : Int) = ((κ / L.length : Nat) : Int) * (L.length : Int) + ((κ % L.length : Nat) : Int) := by
          exact_mod_cast hκd
        rw [e2]; push_cast; ring
    · rw [if_neg h] at hg
      have hj : i - κ % L.length < L.length := by omega
      rw [List.getElem?_eq_getElem hj] at hg
      simp only [Option.map_some] at hg
      apply key (i - κ % L.length) ((κ / L.length : Nat) : Int) hj
      · rw [hg, List.getElem?_eq_getElem hj]; rfl
      · have e1 : ((i - κ % L.length : Nat) : Int) = (i : Int) - ((κ % L.length : Nat) : Int) := by omega
        rw [e1]
        have e2 : (κ : Int) = ((κ / L.length : Nat) : Int) * (L.length : Int) + ((κ % L.length : Nat) : Int) := by
          exact_mod_cast hκd
        rw [e2]; push_cast; ring
  · rw [List.getElem?_eq_none (by rw [interleave_length, hLl]; omega),
        List.getElem?_eq_none (by rw [rotate_length, hI]; omega)]


theorem stepBy_get {α : Type} (gap : Nat) (hg : 1 ≤ gap) : ∀ (fuel : Nat) (l : List α) (x : Nat), l.length ≤ fuel →
    (stepBy gap fuel l)[x]? = l[x * gap]? := by
  intro fuel
  induction fuel with
  | zero => intro l x h; have : l = [] := List.eq_nil_of_length_eq_zero (by omega); subst this; simp [stepBy]
  | succ f ih =>
    intro l x h
    cases l with
    | nil => simp [stepBy]
    | cons a t =>
      cases x with
      | zero => simp [stepBy]
      | succ x' =>
        simp only [stepBy, List.getElem?_cons_succ]
        rw [ih _ _ (by simp at h ⊢; omega)]
        rw [List.getElem?_drop]
        have : (x' + 1) * gap = (gap - 1 + x' * gap) + 1 := by rw [Nat.succ_mul]; omega
        rw [this, List.getElem?_cons_succ]

theorem iterRotate (F : List Vec) (hF : InRange F) : ∀ i : Nat,
    (List.range i).foldl (fun p _ => rotate (-1) p) F = rotate (-(i : Int)) F := by
  intro i
  induction i with
  | zero =>
    simp only [List.range_zero, List.foldl_nil]
    by_cases h0 : F.length = 0
    · have : F = [] := List.eq_nil_of_length_eq_zero h0
      subst this; simp [rotate]
    · apply List.ext_getElem?
      intro j
      by_cases hj : j < F.length
      · rw [getElem?_eq_sext F j hj, getElem?_eq_sext _ j (by rw [rotate_length]; exact hj),
          sext_rotate _ _ (by omega) (fun v hv => negV_negV v (hF v hv))]
        simp
      · rw [List.getElem?_eq_none (by omega), List.getElem?_eq_none (by rw [rotate_length]; omega)]
  | succ i ih =>
    rw [List.range_succ, List.foldl_append, ih]
    simp only [List.foldl_cons, List.foldl_nil]
    rw [rotate_rotate _ _ _ hF]
    congr 1; push_cast; ring

theorem switchDown_rotate_get (n ext : Nat) (F : List Vec) (hF : InRange F) (hlen : F.length = n * ext)
    (i x : Nat) (hi : i < ext) (hx : x < n) :
    (switchDown ext n (rotate (-(i : Int)) F))[x]? = F[x * ext + i]? := by
  have hlt : x * ext + i < n * ext := by
    have : (x + 1) * ext ≤ n * ext := Nat.mul_le_mul_right _ (by omega)
    rw [Nat.succ_mul] at this; omega
  have hdom : 0 < F.length := by omega
  unfold switchDown
  rw [List.getElem?_take, if_pos hx, stepBy_get ext (by omega) _ _ _ (Nat.le_refl _)]
  have hxe : x * ext < (rotate (-(i : Int)) F).length := by rw [rotate_length, hlen]; omega
  rw [getElem?_eq_sext _ _ hxe, sext_rotate _ _ hdom (fun v hv => negV_negV v (hF v hv)),
    getElem?_eq_sext F _ (by rw [hlen]; exact hlt)]
  congr 2
  push_cast; ring

theorem interleave_split (n ext : Nat) (hext : 0 < ext) (F : List Vec) (hF : InRange F) (hlen : F.length = n * ext)
    (g : Vec → Vec) :
    interleave n ((List.range ext).map fun i =>
      (switchDown ext n ((List.range i).foldl (fun p _ => rotate (-1) p) F)).map g) = F.map g := by
  apply List.ext_getElem?
  intro y
  have hLl : ((List.range ext).map fun i =>
      (switchDown ext n ((List.range i).foldl (fun p _ => rotate (-1) p) F)).map g).length = ext := by simp
  by_cases hy : y < n * ext
  · obtain ⟨x, i, hx, hi, rfl⟩ : ∃ x i, x < n ∧ i < ext ∧ y = x * ext + i :=
      ⟨y / ext, y % ext, Nat.div_lt_of_lt_mul (by rw [Nat.mul_comm]; exact hy), Nat.mod_lt _ hext,
        by rw [Nat.mul_comm]; exact (Nat.div_add_mod y ext).symm⟩
    have := interleave_get n _ x i hx (by rw [hLl]; exact hi)
    rw [hLl] at this
    rw [this, List.getElem?_map, List.getElem?_range hi]
    simp only [Option.map_some, Option.getD_some, List.getElem?_map]
    rw [iterRotate F hF i, switchDown_rotate_get n ext F hF hlen i x hi hx]
    rw [List.getElem?_eq_getElem (by rw [hlen]; exact hy)]
    simp
  · rw [List.getElem?_eq_none (by rw [interleave_length, hLl]; omega),
        List.getElem?_eq_none (by rw [List.length_map, hlen]; omega)]


theorem sext_tableF (b size limbs step : Nat) (scale : Int) (f : List Int) (hs : 0 < step) (hl : 1 ≤ f.length) (m : Int) :
    some (sext (tableF b size limbs step scale f) m) =
      (let dom := f.length * step
       let u := (m % (2 * (dom : Int))).toNat
       (f[(u % dom) / step]?).map fun fi =>
         let v := enc b size limbs (w64 (fi * scale))
         if u < dom then v else negV v) := by
  have hdom : 0 < f.length * step := Nat.mul_pos (by omega) hs
  have hM : (0 : Int) < 2 * ((f.length * step : Nat) : Int) := by omega
  have h0 := Int.emod_nonneg m (ne_of_gt hM)
  have h1 := Int.emod_lt_of_pos m hM
  unfold sext
  simp only [tableF_length]
  generalize hu : (m % (2 * ((f.length * step : Nat) : Int))).toNat = u
  have hu2 : u < 2 * (f.length * step) := by omega
  by_cases hlt : u < f.length * step
  · have hmod : u % (f.length * step) = u := Nat.mod_eq_of_lt hlt
    rw [if_pos hlt, hmod, tableF_get _ _ _ _ _ f hs u hlt]
    have hidx : u / step < f.length := Nat.div_lt_of_lt_mul (by rw [Nat.mul_comm]; exact hlt)
    rw [List.getElem?_eq_getElem hidx]
    simp [hlt]
  · have hmod : u % (f.length * step) = u - f.length * step := by
      have : u = (u - f.length * step) + f.length * step := by omega
      conv => lhs; rw [this]
      rw [Nat.add_mod_right]; exact Nat.mod_eq_of_lt (by omega)
    rw [if_neg hlt, hmod, tableF_get _ _ _ _ _ f hs (u - f.length * step) (by omega)]
    have hidx : (u - f.length * step) / step < f.length := Nat.div_lt_of_lt_mul (by have := Nat.mul_comm step f.length; omega)
    rw [List.getElem?_eq_getElem hidx]
    simp [hlt]

theorem lutRotate_mem (n : Nat) (k : Int) (L : List (List Vec)) (p : List Vec) (hp : p ∈ lutRotate n k L) :
    ∃ r q, q ∈ L ∧ p = rotate r q := by
  unfold lutRotate rotateRight at hp
  simp only at hp
  generalize hm : List.mapIdx _ L = M at hp
  have hp' : p ∈ M := by
    rcases List.mem_append.1 hp with h | h
    · exact List.mem_of_mem_drop h
    · exact List.mem_of_mem_take h
  rw [← hm, List.mem_mapIdx] at hp'
  obtain ⟨i, hi, hpe⟩ := hp'
  split at hpe
  · exact ⟨_, _, List.getElem_mem hi, hpe.symm⟩
  · exact ⟨_, _, List.getElem_mem hi, hpe.symm⟩


/-- the un-normalised full-domain table of `lookup_table_set` -/
def lutFullOf (size limbs step : Nat) (scale : Int) (f : List Int) : List Vec :=
  f.flatMap fun fi => List.replicate step ((List.range size).map fun j => if j = limbs - 1 then w64 (fi * scale) else 0)

theorem lutSet_extN (n ext b kLut k step : Nat) (f : List Int) (hpow : isPow2 ext = true) (hext : 1 < ext) (hb : 1 ≤ b)
    (hlen : 1 ≤ f.length) (hfn : f.length ≤ n) (hdiv : n * ext = f.length * step)
    (hbits : maxBitSize f + k % b < 64) (hl1 : 1 ≤ (k + b - 1) / b) (hl2 : (k + b - 1) / b ≤ (kLut + b - 1) / b) :
    lutSet n ext b kLut f k = .ok
      { data := lutRotate n (-((step / 2 : Nat) : Int))
          ((List.range ext).map fun i =>
            (switchDown ext n ((List.range i).foldl (fun p _ => rotate (-1) p)
              (lutFullOf ((kLut + b - 1) / b) ((k + b - 1) / b) step (if k % b ≠ 0 then 2 ^ (b - k % b) else 1) f))).map (normVec b)),
        drift := step / 2 } := by
  have hstep : 0 < step := by
    rcases Nat.eq_zero_or_pos step with h | h
    · subst h; have : 0 < n * ext := Nat.mul_pos (by omega) (by omega); omega
    · exact h
  have hfn' : ¬ (f.length > n) := by omega
  have hstepeq : (n * ext + f.length / 2) / f.length = step := by
    rw [hdiv, Nat.mul_add_div (by omega), Nat.div_eq_of_lt (a := f.length / 2) (by omega)]
    rfl
  have hb0 : b ≠ 0 := by omega
  have hl0 : (k + b - 1) / b ≠ 0 := by omega
  have hf0 : f.length ≠ 0 := by omega
  have hbnd : ¬ (f.length * step > n * ext) := by omega
  unfold lutSet
  simp only [hpow, hb0, hfn', hbits, hl2, hl0, hf0, hstepeq, hbnd, if_false, Bool.not_true, Bool.false_eq_true,
    decide_true, hext, if_true]
  have hz : n * ext - f.length * step = 0 := by omega
  rw [hz, List.replicate_zero, List.append_nil]
  simp only [List.map_map]
  rfl


theorem lutFullOf_length (size limbs step : Nat) (scale : Int) (f : List Int) :
    (lutFullOf size limbs step scale f).length = f.length * step := by
  unfold lutFullOf
  rw [List.length_flatMap]
  simp [List.length_replicate, List.map_const', List.sum_replicate]

theorem lutFullOf_inRange (size limbs step : Nat) (scale : Int) (f : List Int) : InRange (lutFullOf size limbs step scale f) := by
  intro v hv x hx
  simp only [lutFullOf, List.mem_flatMap, List.mem_replicate] at hv
  obtain ⟨fi, _, _, rfl⟩ := hv
  simp only [List.mem_map, List.mem_range] at hx
  obtain ⟨j, _, rfl⟩ := hx
  split
  · exact w64_range _
  · constructor <;> norm_num

theorem lutFullOf_norm (b size limbs step : Nat) (scale : Int) (f : List Int) :
    (lutFullOf size limbs step scale f).map (normVec b) = tableF b size limbs step scale f := by
  unfold lutFullOf tableF
  rw [List.map_flatMap]
  apply List.flatMap_congr
  intro fi _
  simp [enc]

theorem switchDown_length (n ext : Nat) (hext : 1 ≤ ext) (G : List Vec) (hG : G.length = n * ext) :
    (switchDown ext n G).length = n := by
  unfold switchDown
  rw [List.length_take]
  rcases Nat.eq_zero_or_pos n with h0 | hpos
  · subst h0; simp
  · have hlast : (n - 1) * ext < G.length := by
      rw [hG]
      have : (n - 1 + 1) * ext = n * ext := by congr 1; omega
      rw [Nat.succ_mul] at this; omega
    have hs := stepBy_get ext hext G.length G (n - 1) (Nat.le_refl _)
    rw [List.getElem?_eq_getElem hlast] at hs
    have : n - 1 < (stepBy ext G.length G).length := by
      by_contra hc
      rw [List.getElem?_eq_none (by omega)] at hs
      simp at hs
    omega


end Lut
