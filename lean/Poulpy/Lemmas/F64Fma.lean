import Poulpy.Lemmas.F64Ops

/-!
# `F64.fma` is the correctly rounded `a·b + c` (one rounding)
-/

namespace F64

theorem fma_spec (a b c : Nat) (ha : Fin64 a) (hb : Fin64 b) (hc : Fin64 c)
    (hx : |val a * val b + val c| < (2:ℝ) ^ (1023:Int)) :
    Fin64 (fma a b c) ∧ |val (fma a b c) - (val a * val b + val c)| ≤ max (u * |val a * val b + val c|) η := by
  obtain ⟨x, hx'⟩ := ha
  obtain ⟨y, hy'⟩ := hb
  obtain ⟨z, hz'⟩ := hc
  have h2 : (2:ℝ) ≠ 0 := by norm_num
  have hpv : (Dy.mk (x.neg != y.neg) (x.m * y.m) (x.e + y.e)).val = val a * val b := by
    rw [val_of_decode hx', val_of_decode hy']; unfold Dy.val
    simp only
    rw [zpow_add₀ h2]; push_cast
    cases x.neg <;> cases y.neg <;> simp <;> ring
  have hη := η_pos
  unfold fma; rw [hx', hy', hz']; simp only
  split
  · rename_i h
    have h0 := decode_zero_pat ((x.neg != y.neg) && z.neg)
    refine ⟨⟨_, h0⟩, ?_⟩
    have hp0 : val a * val b = 0 := by rw [← hpv]; unfold Dy.val; simp only; rw [h.1]; simp
    rw [val_of_decode h0, Dy.val_zero, hp0, val_eq_zero_of_m hz' h.2]; simp [hη.le]
  · split
    · rename_i _ h
      refine ⟨⟨_, hz'⟩, ?_⟩
      have hp0 : val a * val b = 0 := by rw [← hpv]; unfold Dy.val; simp only; rw [h]; simp
      rw [hp0]; simp
      exact Or.inr hη.le
    · split
      · rename_i _ _ h
        have hz0 := val_eq_zero_of_m hz' h
        rw [hz0, add_zero] at hx ⊢
        rw [← hpv] at hx ⊢
        obtain ⟨hf, h1, _⟩ := val_round _ hx
        exact ⟨hf, h1⟩
      · -- general case
        set pe := x.e + y.e with hpe
        set e0 := min pe z.e with he0
        set sp : Int := (if (x.neg != y.neg) = true then -((x.m * y.m : Nat) : Int) else ((x.m * y.m : Nat) : Int)) with hsp
        set s : Int := sp * 2 ^ (pe - e0).toNat + z.toInt * 2 ^ (z.e - e0).toNat with hs
        have hpe' : (2:ℝ) ^ pe = (2:ℝ) ^ (pe - e0).toNat * (2:ℝ) ^ e0 := by
          rw [two_zpow_toNat _ (by omega), ← zpow_add₀ h2]; congr 1; ring
        have hze : (2:ℝ) ^ z.e = (2:ℝ) ^ (z.e - e0).toNat * (2:ℝ) ^ e0 := by
          rw [two_zpow_toNat _ (by omega), ← zpow_add₀ h2]; congr 1; ring
        have hspv : (sp : ℝ) * (2:ℝ) ^ pe = val a * val b := by
          rw [← hpv]; unfold Dy.val; simp only; rw [hsp]
          cases (x.neg != y.neg) <;> simp
        have hsum : (s:ℝ) * (2:ℝ) ^ e0 = val a * val b + val c := by
          rw [← hspv, val_of_decode hz', Dy.val_eq_toInt, hpe', hze, hs]
          push_cast; ring
        split
        · rename_i hs0
          have h0 : decode 0 = some ⟨false, 0, -1074⟩ := by decide
          refine ⟨⟨_, h0⟩, ?_⟩
          have : (s:ℝ) = 0 := by exact_mod_cast hs0
          rw [← hsum, this, val_of_decode h0, Dy.val_zero]; simp [hη.le]
        · rename_i hs0
          have hdv : (Dy.mk (decide (s < 0)) s.natAbs e0).val = val a * val b + val c := by
            rw [← hsum]; unfold Dy.val; simp only
            by_cases hneg : s < 0
            · simp only [hneg, decide_true, if_true]
              have h1 : (s.natAbs : Int) = -s := by omega
              have h2' : ((s.natAbs : Int) : ℝ) = ((-s : Int) : ℝ) := by rw [h1]
              have : (s.natAbs : ℝ) = -(s:ℝ) := by simpa using h2'
              rw [this]; ring
            · simp only [hneg, decide_false]
              have h1 : (s.natAbs : Int) = s := by omega
              have h2' : ((s.natAbs : Int) : ℝ) = ((s : Int) : ℝ) := by rw [h1]
              have : (s.natAbs : ℝ) = (s:ℝ) := by simpa using h2'
              rw [this]; simp
          rw [← hdv] at hx ⊢
          obtain ⟨hf, h1, _⟩ := val_round _ hx
          exact ⟨hf, h1⟩

/-- interface form: one fused operation costs `u·B` for any bound `B ≥ 2^-1022` on the exact result -/
theorem fma_err (a b c : Nat) (B : ℝ) (ha : Fin64 a) (hb : Fin64 b) (hc : Fin64 c) (h : |val a * val b + val c| ≤ B)
    (hB1 : (2:ℝ) ^ (-1022:Int) ≤ B) (hB2 : B < (2:ℝ) ^ (1023:Int)) :
    Fin64 (fma a b c) ∧ |val (fma a b c) - (val a * val b + val c)| ≤ u * B := by
  obtain ⟨hf, he⟩ := fma_spec a b c ha hb hc (lt_of_le_of_lt h hB2)
  refine ⟨hf, le_trans he (max_le ?_ ?_)⟩
  · exact mul_le_mul_of_nonneg_left h u_pos.le
  · rw [η_eq]; exact mul_le_mul_of_nonneg_left hB1 u_pos.le

end F64
