/-
Helper lemmas for C08: the cross-radix `vec_znx_normalize`, part 2 — the fuelled `'inner` loop, the
step from one limb of `a` to the next, and the first limb (rounding shift / alignment).
-/
import Poulpy.Lemmas.NormCross

namespace NormL

/-- standing hypotheses of the cross-radix lemmas -/
structure CrossCtx (bits ab rb rs lsh : Nat) (H : Int) (a : List Int) : Prop where
  hbits : bits = 64 ∨ bits = 128
  hrb1 : 1 ≤ rb
  hrb : rb ≤ 62
  hlsh : lsh < ab
  hab : ab ≤ 62
  hH0 : 0 ≤ H
  hH : H + 8 ≤ 2 ^ (bits - 2)
  ha : ∀ x ∈ a, |x| ≤ H

section
variable {bits ab rb rs lsh : Nat} {H : Int} {a : List Int}

theorem CrossCtx.bits1 (c : CrossCtx bits ab rb rs lsh H a) : 1 ≤ bits := by
  rcases c.hbits with h | h <;> omega

theorem CrossCtx.pow_bits (c : CrossCtx bits ab rb rs lsh H a) : (2 : Int) ^ (bits - 1) = 2 * 2 ^ (bits - 2) := by
  rw [← pow_succ']; congr 1; rcases c.hbits with h | h <;> omega

theorem CrossCtx.headRoom (c : CrossCtx bits ab rb rs lsh H a) : HeadRoom bits ab lsh (H + 1) := by
  refine ⟨c.bits1, c.hlsh, by have := c.hab; rcases c.hbits with h | h <;> omega, by have := c.hH0; linarith, ?_⟩
  have h1 : (2 : Int) ^ ab ≤ 2 ^ 62 := two_pow_le c.hab
  have h2 : (2 : Int) ^ 62 ≤ 2 ^ (bits - 2) := two_pow_le (by rcases c.hbits with h | h <;> omega)
  have := c.pow_bits
  have := c.hH
  linarith

/-- the `'inner` loop terminates in one of the three exits (the fuel `ab + 2` is never exhausted) -/
theorem crossInner_spec (c : CrossCtx bits ab rb rs lsh H a) {K : Int} {q aLimb : Nat} :
    ∀ (fuel : Nat) (st : CrossSt), CInv ab rb rs lsh H a K q aLimb true st → st.aTakeLeft < fuel →
      (aLimb ≠ 0 ∧ CCont ab rb rs lsh H a K q aLimb (crossInner bits ab rb aLimb fuel st)) ∨
      CFull rb rs K q (crossInner bits ab rb aLimb fuel st) ∨
      (aLimb = 0 ∧ CFlush rb rs H K q (crossInner bits ab rb aLimb fuel st)) := by
  intro fuel
  induction fuel with
  | zero => intro st _ h; omega
  | succ fuel ih =>
    intro st hinv hlt
    obtain ⟨h1, hdec⟩ := crossStep1_spec c.hbits c.hrb c.hab hinv
    obtain ⟨hf, ht⟩ := crossAfter_spec c.hbits c.hrb1 c.hrb c.hH0 c.hH h1
    have hunf : crossInner bits ab rb aLimb (fuel + 1) st =
        if (crossAfter bits rb aLimb (crossStep1 bits ab rb st)).2 then
          (crossAfter bits rb aLimb (crossStep1 bits ab rb st)).1
        else crossInner bits ab rb aLimb fuel (crossAfter bits rb aLimb (crossStep1 bits ab rb st)).1 := rfl
    rw [hunf]
    by_cases hflag : (crossAfter bits rb aLimb (crossStep1 bits ab rb st)).2 = true
    · rw [if_pos hflag]; exact ht hflag
    · have hflag' : (crossAfter bits rb aLimb (crossStep1 bits ab rb st)).2 = false := by
        simpa using hflag
      rw [if_neg hflag]
      obtain ⟨hi, heq⟩ := hf hflag'
      exact ih _ hi (by omega)

theorem bcarry_add_two_le {b : Nat} (hb : 1 ≤ b) {d c : Int} (hd : |d| ≤ 2 ^ (b - 1)) :
    2 * |bcarry b (d + c)| ≤ |c| + 2 := by
  have h := bcarry_mul_le hb (d + c)
  have hq := abs_nonneg (bcarry b (d + c))
  have hb1 := half_le_full hb
  have hp := two_pow_pos (b - 1)
  have ht : |d + c| ≤ 2 ^ (b - 1) + |c| := by have := abs_add_le d c; linarith
  by_cases hz : |bcarry b (d + c)| = 0
  · rw [hz]; have := abs_nonneg c; linarith
  · have hq1 : 1 ≤ |bcarry b (d + c)| := by omega
    have h2 : (2 : Int) ≤ 2 ^ b := by linarith
    have h3 : 2 ^ b * (|bcarry b (d + c)| - 1) ≤ |c| := by
      have : 2 ^ b * (|bcarry b (d + c)| - 1) = 2 ^ b * |bcarry b (d + c)| - 2 ^ b := by ring
      linarith
    have h4 : 2 * (|bcarry b (d + c)| - 1) ≤ 2 ^ b * (|bcarry b (d + c)| - 1) :=
      mul_le_mul_of_nonneg_right h2 (by linarith)
    linarith

/-- middle step on a limb of `a` with a carry that absorbed the ±1 residue of the previous limb:
the contract still holds and the carry is back within `H + 3` -/
theorem cross_middle (c : CrossCtx bits ab rb rs lsh H a) {x cin : Int} (hx : |x| ≤ H) (hc : |cin| ≤ H + 4) :
    x * 2 ^ lsh + cin = (middleStepS bits ab lsh x cin).1 + (middleStepS bits ab lsh x cin).2 * 2 ^ ab ∧
    Balanced ab (middleStepS bits ab lsh x cin).1 ∧ |(middleStepS bits ab lsh x cin).2| ≤ H + 3 := by
  have hr := c.headRoom
  have hx' : |x| ≤ H + 1 := by linarith
  have hc' : |cin| ≤ H + 1 + 3 := by linarith
  have hs := middleStepS_spec hr hx' hc'
  refine ⟨hs.1, hs.2.1, ?_⟩
  rw [(middleStepS_eq hr hx' hc').1]
  simp only
  have hm : 1 ≤ ab - lsh := by have := c.hlsh; omega
  have hb : 1 ≤ ab := by have := c.hlsh; omega
  have h1 := bcarry_two_le hm x
  have h2 := bcarry_add_two_le hb (c := cin) (shifted_digit_range c.hlsh x).abs_le
  have := abs_add_le (bcarry (ab - lsh) x) (bcarry ab (bmod (ab - lsh) x * 2 ^ lsh + cin))
  omega

theorem take_succ_getD (a : List Int) (j : Nat) (hj : j < a.length) :
    a.take (j + 1) = a.take j ++ [a.getD j 0] := by
  rw [List.take_succ]
  simp [List.getD_eq_getElem?_getD, List.getElem?_eq_getElem hj]

theorem crossTop_succ (ab lsh : Nat) (a : List Int) (j : Nat) (hj : j < a.length) (cin : Int) :
    crossTop ab lsh a (j + 1) cin = (a.getD j 0 * 2 ^ lsh + cin) + 2 ^ ab * (2 ^ lsh * valI ab (a.take j)) := by
  unfold crossTop
  rw [take_succ_getD a j hj, valI_append, valI_singleton]
  simp only [List.length_singleton, Nat.mul_one]
  ring

/-- from the end of limb `aLimb + 1` of `a` to the top of the `'inner` loop on limb `aLimb` -/
theorem cross_next_limb (c : CrossCtx bits ab rb rs lsh H a) {K : Int} {q aLimb : Nat} {st : CrossSt}
    (hj : aLimb < a.length) (h : CCont ab rb rs lsh H a K q (aLimb + 1) st) :
    CInv ab rb rs lsh H a K (q + ab) aLimb true
      { st with aNorm := (middleStepS bits ab lsh (a.getD aLimb 0) st.aCarry).1,
                aCarry := (middleStepS bits ab lsh (a.getD aLimb 0) st.aCarry).2, aTakeLeft := ab } := by
  have hx : |a.getD aLimb 0| ≤ H := by
    have : a.getD aLimb 0 ∈ a := by
      rw [List.getD_eq_getElem?_getD, List.getElem?_eq_getElem hj]; simp
    exact c.ha _ this
  obtain ⟨hv, hbal, hcb⟩ := cross_middle c hx h.ac
  have hab1 : 1 ≤ ab := by have := c.hlsh; omega
  refine ⟨h.len, h.lim, h.ral2, le_refl _, ?_, h.nd, h.ns, h.rc0, ?_, hcb, h.cur, h.zer, h.lims, ?_, ?_, (by intro h'; cases h')⟩
  · simp only [if_true]; exact ⟨h.ral1, hab1⟩
  · simp only
    have := hbal.abs_le
    have := half_le_full hab1
    linarith
  · have := h.pos; unfold crossPos at this ⊢; simp only at this ⊢; omega
  · have hq := h.pos
    unfold crossPos at hq ⊢
    simp only
    rw [hq, h.val, crossTop_succ ab lsh a aLimb hj, hv]
    unfold crossTop
    ring

end

end NormL
